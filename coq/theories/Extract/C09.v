From Coq Require Import Extraction ExtrOcamlBasic QArith.
From BCT Require Import Model.Clustering.
Extraction Language OCaml.
(* coqc runs with cwd = /verif/coq *)
Extraction "../ocaml/gen/c09_model.ml" run_cc_bu run_cc_bd run_cc_wu run_cc_wd run_cc_sign run_trans run_cbrt Qred Z.add.
