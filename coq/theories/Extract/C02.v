From Coq Require Import Extraction ExtrOcamlBasic QArith.
From BCT Require Import Model.Modularity Model.ModularityProb Model.ModularityGood Model.ModularitySelect.
Extraction Language OCaml.
(* coqc runs with cwd = /verif/coq *)
Extraction "../ocaml/gen/c02_model.ml" run_finetune_und run_finetune_dir run_finetune_sign run_und_sign run_given
  run_louvain_und run_louvain_dir run_louvain_sign run_community_louvain run_retained ls2ci
  run_probtune run_louvain_und_good run_louvain_sign_good run_community_louvain_good sym_rowsb pos_totalb
  auto_louvain_und auto_louvain_sign auto_community_louvain auto_finetune_und auto_finetune_dir auto_finetune_sign
  run_louvain_und_hier run_spectral_table Qred Z.add.
