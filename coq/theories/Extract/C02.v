From Coq Require Import Extraction ExtrOcamlBasic QArith.
From BCT Require Import Model.Modularity Model.ModularityProb Model.ModularityGood.
Extraction Language OCaml.
(* coqc runs with cwd = /verif/coq *)
Extraction "../ocaml/gen/c02_model.ml" run_finetune_und run_finetune_dir run_finetune_sign run_und_sign run_given
  run_louvain_und run_louvain_dir run_louvain_sign run_community_louvain run_retained ls2ci
  run_probtune run_louvain_und_good run_louvain_sign_good run_community_louvain_good sym_rowsb pos_totalb Qred Z.add.
