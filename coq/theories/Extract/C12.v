From Coq Require Import Extraction ExtrOcamlBasic QArith.
From BCT Require Import Model.Distance Model.Paths Model.PathsExt.
Extraction Language OCaml.
(* coqc runs with cwd = /verif/coq *)
Extraction "../ocaml/gen/c12_model.ml" run_floyd run_retrieve run_nav run_nav_x Qred Z.add.
