From Coq Require Import Extraction ExtrOcamlBasic QArith.
From BCT Require Import Model.Distance Model.Paths.
Extraction Language OCaml.
(* coqc runs with cwd = /verif/coq *)
Extraction "../ocaml/gen/c12_model.ml" run_floyd run_retrieve run_nav Qred Z.add.
