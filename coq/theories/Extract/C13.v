(* Extract/C13.v — the C13 checker itself, run from OCaml on the serialised program as a cross-check of the
   translator's Python mirror (the real tie is Gen/Alias.v, re-checked by coqc on every run).
   ExtrOcamlNativeString (Coq stdlib) maps Coq `string` to OCaml `string`: without it the extracted
   `type string` would shadow OCaml's in ocaml/common.ml. *)
From Coq Require Import Extraction ExtrOcamlBasic ExtrOcamlNativeString QArith String List.
From BCT Require Import Model.AliasLang.
Extraction Language OCaml.
(* coqc runs with cwd = /verif/coq *)
Extraction "../ocaml/gen/c13_model.ml" run_check Qred Z.add.
