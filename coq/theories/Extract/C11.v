From Coq Require Import Extraction ExtrOcamlBasic QArith.
From BCT Require Import Model.Rewire.
Extraction Language OCaml.
Extraction "../ocaml/gen/c11_model.ml" run_rewire run_partial run_precheck run_rbu_swap DInt Qred Z.add.
