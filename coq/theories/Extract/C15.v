From Coq Require Import Extraction ExtrOcamlBasic QArith.
From BCT Require Import Model.Core.
Extraction Language OCaml.
(* coqc runs with cwd = /verif/coq *)
(* run_core_py / run_coreness_py: the routines as called (peel argument, both return shapes, default 2-tuple path);
   equal to run_core / run_coreness by C15_peel_flag / C15_kcoreness_default_path *)
Extraction "../ocaml/gen/c15_model.ml" run_core_py run_coreness_py Qred Z.add.
