From Coq Require Import Extraction ExtrOcamlBasic QArith.
From BCT Require Import Model.Core.
Extraction Language OCaml.
(* coqc runs with cwd = /verif/coq *)
Extraction "../ocaml/gen/c15_model.ml" run_core run_coreness Qred Z.add.
