(* The extracted checker is NOT the tie for C05 (the tie is the translator + the generated obligation
   Gen/Effects.v re-checked by coqc on every run).  It is used by harness/c05.py to name the function
   the checker rejects when `all_safe` fails, and to cross-check the diagnostic Python port of [check].
   ExtrOcamlString (stdlib) maps Coq strings to char lists so that the model does not redefine OCaml's
   [string] type, which ocaml/common.ml uses. *)
From Coq Require Import Extraction ExtrOcamlBasic ExtrOcamlString QArith.
From BCT Require Import Model.EffectLang.
Extraction Language OCaml.
(* coqc runs with cwd = /verif/coq *)
Extraction "../ocaml/gen/c05_model.ml" seed_safe prog_safe Qred Z.add.
