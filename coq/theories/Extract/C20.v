From Coq Require Import Extraction ExtrOcamlBasic QArith.
From BCT Require Import Model.Generators Model.GeneratorsExt.
Extraction Language OCaml.
(* coqc runs with cwd = /verif/coq *)
Extraction "../ocaml/gen/c20_model.ml" run_rand_dir run_rand_und run_ring run_toeplitz run_fractal run_even
  run_degfixed run_template
  run_toeplitz_pf run_toep_template run_rand_dir_z run_rand_und_z run_ring_z run_even_z run_degfixed_chk Qred Z.add.
