From Coq Require Import Extraction ExtrOcamlBasic QArith.
From BCT Require Import Model.Generators.
Extraction Language OCaml.
(* coqc runs with cwd = /verif/coq *)
Extraction "../ocaml/gen/c20_model.ml" run_rand_dir run_rand_und run_ring run_toeplitz run_fractal run_even
  run_degfixed run_template Qred Z.add.
