From Coq Require Import Extraction ExtrOcamlBasic QArith.
From BCT Require Import Model.Signed Model.NullModel.
Extraction Language OCaml.
(* coqc runs with cwd = /verif/coq *)
Extraction "../ocaml/gen/c06_model.ml" run_pick4 run_randmio_signed run_null_model Qred Z.add.
