From Coq Require Import Extraction ExtrOcamlBasic QArith.
From BCT Require Import Model.Components.
Extraction Language OCaml.
(* coqc runs with cwd = /verif/coq *)
Extraction "../ocaml/gen/c16_model.ml" run_gc run_noc Qred Z.add.
