From Coq Require Import Extraction ExtrOcamlBasic QArith.
From BCT Require Import Model.Threshold Model.ThresholdStore.
Extraction Language OCaml.
(* coqc runs with cwd = /verif/coq *)
Extraction "../ocaml/gen/c17_model.ml" run_ta run_tp run_wc run_round run_st_ta run_st_tp run_st_wc run_wc_str Qred Z.add.
