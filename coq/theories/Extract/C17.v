From Coq Require Import Extraction ExtrOcamlBasic QArith.
From BCT Require Import Model.Threshold.
Extraction Language OCaml.
(* coqc runs with cwd = /verif/coq *)
Extraction "../ocaml/gen/c17_model.ml" run_ta run_tp run_wc run_round Qred Z.add.
