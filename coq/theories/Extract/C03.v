From Coq Require Import Extraction ExtrOcamlBasic QArith.
From BCT Require Import Model.Distance.
Extraction Language OCaml.
(* coqc runs with cwd = /verif/coq *)
Extraction "../ocaml/gen/c03_model.ml" run_floyd run_dbin run_breadthdist run_reachdist run_dwei
  run_charpath run_effbin run_effwei run_rout Qred Z.add.
