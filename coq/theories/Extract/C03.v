From Coq Require Import Extraction ExtrOcamlBasic QArith.
From BCT Require Import Model.Distance Model.DistanceExt.
Extraction Language OCaml.
(* coqc runs with cwd = /verif/coq *)
Extraction "../ocaml/gen/c03_model.ml" run_floyd run_dbin run_breadthdist run_reachdist run_dwei
  run_charpath run_effbin run_effwei run_rout run_charpath_x run_effbin_x run_effwei_x Qred Z.add.
