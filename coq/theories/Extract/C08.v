From Coq Require Import Extraction ExtrOcamlBasic QArith.
From BCT Require Import Model.Between Model.BetweenQ.
Extraction Language OCaml.
(* coqc runs with cwd = /verif/coq *)
Extraction "../ocaml/gen/c08_model.ml" run_bc_bin run_bc_wei run_ebc_bin run_ebc_wei run_search run_spec run_bc_weiQ run_ebc_weiQ Qred Z.add.
