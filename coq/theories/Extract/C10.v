From Coq Require Import Extraction ExtrOcamlBasic QArith.
From BCT Require Import Model.Clustering Model.ClusteringInf Model.Distance Model.EfficiencyLocal Model.Assortativity Model.IgnoreWeights Model.Walks.
Extraction Language OCaml.
(* coqc runs with cwd = /verif/coq *)
Extraction "../ocaml/gen/c10_model.ml" run_cc_bu run_cc_bd run_cc_wu run_cc_wd run_trans run_deg
  run_dbin run_dwei run_effbin run_effwei run_eloc_bin run_eloc_wei run_assort
  run_density run_jdegree run_enov run_reachdist run_findwalks run_cc_o Qred Z.add.
