From Coq Require Import Extraction ExtrOcamlBasic QArith.
From BCT Require Import Model.SymTerm.
Extraction Language OCaml.
(* coqc runs with cwd = /verif/coq *)
Extraction "../ocaml/gen/c04_model.ml" run_measure run_prog Qred Z.add.
