From Coq Require Import Extraction ExtrOcamlBasic QArith.
From BCT Require Import Model.SymTerm Gen.SymTermGen Model.SymTermGenRun Model.SymTermKinds.
Extraction Language OCaml.
(* coqc runs with cwd = /verif/coq *)
Extraction "../ocaml/gen/c04_model.ml" run_measure run_prog run_gen gen_count gen_same_as_hand gen_fingerprint measure_kind gen_kind kind_by_id Qred Z.add.
