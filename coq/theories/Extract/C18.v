From Coq Require Import Extraction ExtrOcamlBasic QArith.
From BCT Require Import Model.Walks Model.Linear.
Extraction Language OCaml.
(* coqc runs with cwd = /verif/coq *)
Extraction "../ocaml/gen/c18_model.ml" run_findwalks run_findwalks_x run_walkcount run_mfpt run_mfpt_c run_mfpt_select run_pagerank_c run_subgraph Qred Z.add.
