From Coq Require Import Extraction ExtrOcamlBasic QArith.
From BCT Require Import Model.Walks Model.Linear.
Extraction Language OCaml.
(* coqc runs with cwd = /verif/coq *)
Extraction "../ocaml/gen/c18_model.ml" run_findwalks run_walkcount run_mfpt run_pagerank run_subgraph Qred Z.add.
