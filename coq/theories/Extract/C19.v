From Coq Require Import Extraction ExtrOcamlBasic QArith.
From BCT Require Import Model.Nbs.
Extraction Language OCaml.
(* coqc runs with cwd = /verif/coq *)
Extraction "../ocaml/gen/c19_model.ml" run_nbs run_supra Qred Z.add.
