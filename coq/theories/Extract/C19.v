From Coq Require Import Extraction ExtrOcamlBasic QArith.
From BCT Require Import Model.Nbs Model.NbsApi.
Extraction Language OCaml.
(* coqc runs with cwd = /verif/coq *)
Extraction "../ocaml/gen/c19_model.ml" run_nbs run_nbs_full run_supra Qred Z.add.
