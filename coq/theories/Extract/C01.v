From Coq Require Import Extraction ExtrOcamlBasic QArith.
From BCT Require Import Model.Rewire Model.RewireBin.
Extraction Language OCaml.
Extraction "../ocaml/gen/c01_model.ml" run_rewire run_partial run_precheck run_rbu_swap run_rbu DInt Qred Z.add.
