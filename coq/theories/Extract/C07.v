From Coq Require Import Extraction ExtrOcamlBasic QArith.
From BCT Require Import Model.Modularity.
Extraction Language OCaml.
(* coqc runs with cwd = /verif/coq *)
Extraction "../ocaml/gen/c07_model.ml" run_finetune_und run_finetune_dir run_finetune_sign run_und_sign run_given
  run_louvain_und run_louvain_dir run_louvain_sign run_community_louvain run_retained ls2ci Qred Z.add.
