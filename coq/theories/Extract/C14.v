From Coq Require Import Extraction ExtrOcamlBasic QArith.
From BCT Require Import Model.Partition Model.PartitionDG Model.PartitionDV Model.PartitionLS Model.PartitionGWB.
Extraction Language OCaml.
(* coqc runs with cwd = /verif/coq *)
Extraction "../ocaml/gen/c14_model.ml" run_relabel run_pc run_pcs run_mdz run_mod run_mus run_agreement run_pd
  run_ci2ls run_ls2ci run_dcs run_gw run_gw_repaired run_dummyvar run_agreement_stmt ls2ci_run ci2ls_run run_gwb Qred Z.add.
