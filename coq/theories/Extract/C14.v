From Coq Require Import Extraction ExtrOcamlBasic QArith.
From BCT Require Import Model.Partition Model.PartitionDG.
Extraction Language OCaml.
(* coqc runs with cwd = /verif/coq *)
Extraction "../ocaml/gen/c14_model.ml" run_relabel run_pc run_pcs run_mdz run_mod run_mus run_agreement run_pd
  run_ci2ls run_ls2ci run_dcs run_gw run_gw_repaired Qred Z.add.
