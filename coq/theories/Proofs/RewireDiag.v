(* Proofs/RewireDiag.v — the undirected routines and self-connections.  The edge list is taken from the STRICT lower
   (randomize_graph_partial_und: strict upper) triangle, so a self-connection is never an edge of the list; every cell an
   accepted swap writes is off the diagonal (a <> b and c <> d by the invariant, the other four inequalities by the
   four-distinct test).  Hence the diagonal of the input is carried over unchanged — through every recorded state, in the
   caller's numbering — and the invariant theorems need symmetry of the input only, not an empty diagonal. *)
From Coq Require Import ZArith List Arith Bool Lia QArith Permutation.
From BCT Require Import Base.Mat Base.ListX Model.Rewire
     Proofs.RewireSwap Proofs.RewireInv Proofs.RewireRun Proofs.RewireConn Proofs.RewireGuards Proofs.RewireC11.
Import ListNotations.
Open Scope Z_scope.

(* whatever the guard, an accepted undirected swap leaves the diagonal alone *)
Lemma diag_GuardSound n g (Dg : nat -> Z) : GuardSound true n g (fun R => forall x, R x x = Dg x).
Proof.
  intros R a b c d F1 F2 F3 F4 _ _ _ _ _ _ _ _ Hu _ HC x. destruct (Hu eq_refl) as (Hab & Hcd & Hsym).
  rewrite (swap_und_diag R a b c d); auto.
Qed.

Theorem run_und_diag r n R0 itr D s0 res :
  is_und r = true ->
  run_routine r n R0 itr D s0 = Done res ->
  (forall x y, R0 x y = R0 y x) ->
  let R1 := pre_matrix r n R0 (r_perm res) in
  (forall x, r_rp res x x = R1 x x) /\ Forall (fun ev => forall x, sR (snd ev) x x = R1 x x) (r_trace res).
Proof.
  intros U H Hs R1.
  apply (run_routine_keeps r n R0 itr D s0 res (fun R => forall x, R x x = R1 x x) H (fun _ => Hs)).
  - rewrite U. apply diag_GuardSound.
  - reflexivity.
Qed.

(* the returned matrix, caller's numbering: every node keeps its self-connection (weight included) or its absence *)
Theorem run_und_diag_caller r n R0 itr D s0 res :
  is_und r = true ->
  run_routine r n R0 itr D s0 = Done res ->
  (forall x y, R0 x y = R0 y x) ->
  (is_latt r = true -> Permutation (r_perm res) (seq 0 n)) ->
  forall x, (x < n)%nat -> r_out res x x = R0 x x.
Proof.
  intros U H Hs Hperm x Hx.
  destruct (run_und_diag r n R0 itr D s0 res U H Hs) as [Hd _].
  destruct (run_routine_out _ _ _ _ _ _ _ H) as [O0 O1].
  unfold pre_matrix in Hd. destruct (is_latt r) eqn:L.
  - destruct (O1 eq_refl) as [_ Eo]. specialize (Hperm eq_refl). rewrite Eo, Hd.
    rewrite tab_spec by (apply (perm_index_lt n _ Hperm); exact Hx).
    unfold conj_perm, of_list. rewrite (perm_nth_index n _ Hperm) by exact Hx. reflexivity.
  - rewrite (O0 eq_refl). apply Hd.
Qed.

Theorem run_partial_diag n A B maxswap s0 res :
  run_partial_und n A B maxswap s0 = Done res ->
  (forall x y, A x y = A y x) ->
  (forall x, r_out res x x = A x x) /\ Forall (fun ev => forall x, sR (snd ev) x x = A x x) (r_trace res).
Proof.
  intros H Hs.
  apply (run_partial_keeps n A B maxswap s0 res (fun R => forall x, R x x = A x x) H Hs); [apply diag_GuardSound|reflexivity].
Qed.

(* a self-connection is never listed as an edge (np.tril(R, -1) / np.triu(A, 1)) *)
Lemma edge_list_offdiag src n R x y : src <> ELall -> In (x, y) (edge_list src n R) -> x <> y.
Proof.
  intros Hsrc Hin. apply edge_list_In in Hin. destruct Hin as (_ & _ & K).
  destruct src; try congruence; cbn [el_keep fst snd] in K; apply Nat.ltb_lt in K; lia.
Qed.
