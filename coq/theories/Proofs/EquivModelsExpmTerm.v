(* Proofs/EquivModelsExpmTerm.v — C04: the rational TERM for subgraph centrality, t_subgraph_trunc K (Model/SymTerm.v; K nested
   lets in Horner form  R <- I + A R / c,  c = K, K-1, .., 1), that the correspondence run evaluates at K = 30 and compares with
   the implementation, is tied to the matrix exponential of Proofs/LinearReal.v:
     Q2R (eval_v prims n (t_subgraph_trunc K) A ci ks i) = sum_{m <= K} (A^m)_ii / m!     (the K-th partial sum of the series
   whose sum is expmR n A i i), for every K, every rational matrix A and every node i - hence the values of the term converge,
   as K grows, to the diagonal of expmR of the real image of A: the tested term and the theorem C04_subgraph_expm_equivariant
   speak about the same object. *)
From Coq Require Import QArith Qreals Reals Lra Lia Arith List.
From BCT Require Import Base.Mat Base.SumQ Model.SymTerm Proofs.LinearReal.
Import ListNotations.
Local Open Scope R_scope.

(* ---------- finite-sum matrix algebra over R on the grid ---------- *)
Lemma sumR_deltaR_right f n i : (i < n)%nat -> sumR (fun k => f k * deltaR k i) n = f i.
Proof.
  induction n as [|m IH]; intros Hi; [lia|]. cbn [sumR]. unfold deltaR at 2.
  destruct (Nat.eqb_spec m i) as [->|Hne].
  - rewrite (sumR_ext _ (fun _ => 0)); [rewrite sumR_zero; ring|].
    intros k Hk. unfold deltaR. destruct (Nat.eqb_spec k i); [lia|ring].
  - rewrite IH by lia. ring.
Qed.
Lemma sumR_deltaR_left f n i : (i < n)%nat -> sumR (fun k => deltaR i k * f k) n = f i.
Proof.
  intros Hi. rewrite <- (sumR_deltaR_right f n i Hi). apply sumR_ext. intros k _.
  unfold deltaR. rewrite (Nat.eqb_sym i k). ring.
Qed.

Lemma mmulR_assoc n (X Y Z : nat -> nat -> R) i j : mmulR n (mmulR n X Y) Z i j = mmulR n X (mmulR n Y Z) i j.
Proof.
  unfold mmulR.
  rewrite (sumR_ext _ (fun k => sumR (fun h => X i h * Y h k * Z k j) n)) by (intros k _; rewrite <- sumR_scal_r; reflexivity).
  rewrite (sumR_ext (fun k => X i k * sumR _ n) (fun h => sumR (fun k => X i h * Y h k * Z k j) n)).
  - apply sumR_fubini.
  - intros h _. rewrite <- sumR_scal. apply sumR_ext. intros; ring.
Qed.

Section Horner.
Variables (n : nat) (A : nat -> nat -> R).

(* A^m A = A A^m on the grid *)
Lemma mpowR_comm : forall m i j, (i < n)%nat -> (j < n)%nat ->
  mmulR n (mpowR n A m) A i j = mmulR n A (mpowR n A m) i j.
Proof.
  induction m as [|m IH]; intros i j Hi Hj; cbn [mpowR].
  - unfold mmulR. rewrite (sumR_deltaR_left (fun k => A k j) n i Hi), (sumR_deltaR_right (fun k => A i k) n j Hj). reflexivity.
  - rewrite mmulR_assoc. unfold mmulR at 1 3. apply sumR_ext. intros k Hk. rewrite (IH k j Hk Hj). reflexivity.
Qed.

(* one Horner step and the K steps with divisors K, K-1, .., 1 *)
Definition hstepR (c : nat) (X : nat -> nat -> R) : nat -> nat -> R :=
  fun i j => deltaR i j + mmulR n A X i j / INR c.
Fixpoint HR (K : nat) (X : nat -> nat -> R) : nat -> nat -> R :=
  match K with O => X | S K' => HR K' (hstepR (S K') X) end.

Lemma HR_ext : forall K R1 R2, (forall a b, (a < n)%nat -> (b < n)%nat -> R1 a b = R2 a b) ->
  forall a b, (a < n)%nat -> (b < n)%nat -> HR K R1 a b = HR K R2 a b.
Proof.
  induction K as [|K IH]; intros R1 R2 E a b Ha Hb; cbn [HR]; [apply E; assumption|].
  apply IH; [|exact Ha|exact Hb]. intros a' b' Ha' Hb'. unfold hstepR, mmulR. f_equal. f_equal.
  apply sumR_ext. intros k Hk. rewrite (E k b' Hk Hb'). reflexivity.
Qed.

(* HR j R = sum_{m<j} A^m/m! + A^j R / j! *)
Lemma HR_horner : forall j X i l, (i < n)%nat -> (l < n)%nat ->
  HR j X i l = sumR (fun m => / INR (fact m) * mpowR n A m i l) j + / INR (fact j) * mmulR n (mpowR n A j) X i l.
Proof.
  induction j as [|j IH]; intros X i l Hi Hl.
  - cbn [HR sumR mpowR fact INR]. unfold mmulR. rewrite (sumR_deltaR_left (fun k => X k l) n i Hi). lra.
  - cbn [HR]. rewrite (IH (hstepR (S j) X) i l Hi Hl). cbn [sumR].
    assert (E : mmulR n (mpowR n A j) (hstepR (S j) X) i l
                = mpowR n A j i l + mmulR n (mpowR n A (S j)) X i l / INR (S j)).
    { unfold hstepR. unfold mmulR at 1.
      rewrite (sumR_ext _ (fun k => mpowR n A j i k * deltaR k l + (mpowR n A j i k * mmulR n A X k l) * / INR (S j)))
        by (intros k _; unfold Rdiv; ring).
      rewrite sumR_add, (sumR_deltaR_right (fun k => mpowR n A j i k) n l Hl), sumR_scal_r.
      fold (mmulR n (mpowR n A j) (mmulR n A X) i l). rewrite <- mmulR_assoc.
      assert (C : mmulR n (mmulR n (mpowR n A j) A) X i l = mmulR n (mpowR n A (S j)) X i l).
      { unfold mmulR at 1 3. apply sumR_ext. intros k Hk. rewrite (mpowR_comm j i k Hi Hk). reflexivity. }
      rewrite C. reflexivity. }
    rewrite E.
    assert (F : / INR (fact (S j)) = / INR (fact j) * / INR (S j)).
    { rewrite fact_simpl, mult_INR. rewrite Rinv_mult. ring. }
    rewrite F. unfold Rdiv. ring.
Qed.

Lemma HR_identity K i l : (i < n)%nat -> (l < n)%nat -> HR K deltaR i l = expm_partial n A K i l.
Proof.
  intros Hi Hl. rewrite (HR_horner K deltaR i l Hi Hl). unfold expm_partial. rewrite sum_f_R0_sumR_S. cbn [sumR].
  unfold expm_term. f_equal. f_equal. unfold mmulR. apply (sumR_deltaR_right (fun k => mpowR n A K i k) n l Hl).
Qed.
End Horner.

(* ---------- the semantics of the term ---------- *)
Lemma Q2R_Qred q : Q2R (Qred q) = Q2R q.
Proof. apply Qeq_eqR. apply Qred_correct. Qed.
Lemma Q2R_b2q_eqb i j : Q2R (b2q (Nat.eqb i j)) = deltaR i j.
Proof. unfold b2q, deltaR. destruct (Nat.eqb i j); unfold Q2R; cbn; lra. Qed.
Lemma Q2R_nat_pos c : Q2R (inject_Z (Z.of_nat (S c))) = INR (S c).
Proof. rewrite Q2R_inject_Z'. symmetry. apply INR_IZR_INZ. Qed.

Section Term.
Variable prims : nat -> Q -> Q.
Variable n : nat.
Variables (ve : venv) (se : senv).

Definition AR (me : menv) : nat -> nat -> R := fun a b => Q2R (mget me 0 a b).
Definition RR (me : menv) : nat -> nat -> R := fun a b => Q2R (mget me 1 a b).

Lemma mbody_hstep (me : menv) c a b :
  Q2R (mbody prims n me ve se (IEq i_ j_ +' Sum k_ (A_ i_ k_ *' Mx 1 k_ j_) /' Cst (inject_Z (Z.of_nat (S c)))) a b)
  = hstepR n (AR me) (S c) (RR me) a b.
Proof.
  unfold mbody. rewrite Q2R_Qred. unfold A_, i_, j_, k_. cbn [sem binop_sem alook fst snd Nat.eqb].
  rewrite Q2R_plus, Q2R_b2q_eqb. unfold hstepR. f_equal.
  unfold Qdiv. rewrite Q2R_mult, Q2R_Qred, Q2R_inv.
  - rewrite Q2R_nat_pos. unfold Rdiv. f_equal. rewrite Q2R_sumQ. unfold mmulR, AR, RR. apply sumR_ext. intros k _.
    apply Q2R_mult.
  - unfold Qeq, inject_Z. cbn [Qnum Qden]. lia.
Qed.

Lemma sg_horner_sem : forall K (me : menv),
  match semp prims n me ve se (sg_horner K (OutV (Mx 1 i_ i_))) with
  | RV v => forall i, (i < n)%nat -> Q2R (v i) = HR n (AR me) K (RR me) i i
  | _ => False
  end.
Proof.
  induction K as [|K IH]; intros me.
  - cbn [sg_horner semp HR]. intros i _. unfold vbody. rewrite Q2R_Qred. unfold i_. cbn [sem alook fst snd Nat.eqb]. reflexivity.
  - cbn [sg_horner semp]. set (t := IEq i_ j_ +' Sum k_ (A_ i_ k_ *' Mx 1 k_ j_) /' Cst (inject_Z (Z.of_nat (S K)))).
    specialize (IH ((1%nat, tab 0%Q n n (mbody prims n me ve se t)) :: me)).
    destruct (semp prims n ((1%nat, tab 0%Q n n (mbody prims n me ve se t)) :: me) ve se (sg_horner K (OutV (Mx 1 i_ i_))))
      as [q|v|M]; try exact IH.
    intros i Hi. rewrite (IH i Hi). cbn [HR].
    assert (EA : AR ((1%nat, tab 0%Q n n (mbody prims n me ve se t)) :: me) = AR me) by reflexivity.
    rewrite EA. apply HR_ext; [|exact Hi|exact Hi].
    intros a b Ha Hb. unfold RR at 1. unfold mget. cbn [alook fst snd Nat.eqb].
    rewrite (tab_spec 0%Q n n _ a b Ha Hb). unfold t. apply mbody_hstep.
Qed.

End Term.

(* the value of the term = the K-th partial sum of the exponential series of the real image of the matrix *)
Theorem subgraph_term_partial_sum prims n (A : mat Q) (ci : vec Q) (ks : list Q) K i : (i < n)%nat ->
  Q2R (eval_v prims n (t_subgraph_trunc K) A ci ks i) = expm_partial n (fun a b => Q2R (A a b)) K i i.
Proof.
  intros Hi. unfold eval_v, eval, t_subgraph_trunc. cbn [semp].
  set (me := (1%nat, tab 0%Q n n (mbody prims n [(0%nat, A)] [(0%nat, ci)] (inputs_s ks) (IEq i_ j_))) :: [(0%nat, A)]).
  pose proof (sg_horner_sem prims n [(0%nat, ci)] (inputs_s ks) K me) as H.
  destruct (semp prims n me [(0%nat, ci)] (inputs_s ks) (sg_horner K (OutV (Mx 1 i_ i_)))) as [q|v|M]; try contradiction.
  rewrite (H i Hi).
  assert (EA : AR me = fun a b => Q2R (A a b)) by reflexivity. rewrite EA.
  rewrite <- (HR_identity n (fun a b => Q2R (A a b)) K i i Hi Hi).
  apply HR_ext; [|exact Hi|exact Hi]. intros a b Ha Hb. unfold RR, me, mget. cbn [alook fst snd Nat.eqb].
  rewrite (tab_spec 0%Q n n _ a b Ha Hb). unfold mbody. rewrite Q2R_Qred. unfold i_, j_. cbn [sem alook fst snd Nat.eqb].
  apply Q2R_b2q_eqb.
Qed.

(* hence the values of the term converge to the diagonal of the matrix exponential *)
Theorem subgraph_term_converges prims n (A : mat Q) (ci : vec Q) (ks : list Q) i : (i < n)%nat ->
  Un_cv (fun K => Q2R (eval_v prims n (t_subgraph_trunc K) A ci ks i)) (expmR n (fun a b => Q2R (A a b)) i i).
Proof.
  intros Hi. pose proof (expmR_is_expm n (fun a b => Q2R (A a b)) i i Hi Hi) as H.
  intros eps He. destruct (H eps He) as [N HN]. exists N. intros K HK.
  rewrite (subgraph_term_partial_sum prims n A ci ks K i Hi). exact (HN K HK).
Qed.

(* non-vacuity: K_2, K = 2: 1 + 0 + 1/2 *)
Example subgraph_term_nonvacuous :
  eval_v (fun _ x => x) 2 (t_subgraph_trunc 2) (of_rows 0%Q [[0; 1]; [1; 0]]%Q) (fun _ => 0%Q) [] 0%nat = (3 # 2)%Q.
Proof. vm_compute. reflexivity. Qed.
