(* Proofs/ModularityRunSign.v — C02/C07: WHOLE multi-level runs of modularity_louvain_und_sign (run_louvain_sign) and the
   whole-run q theorem of modularity_finetune_und_sign / modularity_probtune_und_sign's replay model (run_finetune_sign). *)
From Coq Require Import QArith Qring Qfield Lia Lqa Arith List Bool ZArith Setoid Morphisms.
From BCT Require Import Base.Mat Base.SumQ Base.ListX Model.Modularity Proofs.ModularitySums Proofs.ModularityQ
  Proofs.ModularityGain Proofs.ModularityRun.
Import ListNotations.
Open Scope Q_scope.

(* ---------- Qsign through the code's own W0, W1, s0, s1, d0, d1 ---------- *)
Lemma sign_params_grid n W qt :
  let p := sign_params n W qt in
  (forall i j, (i < n)%nat -> (j < n)%nat -> sW0 p i j == pospart W i j) /\
  (forall i j, (i < n)%nat -> (j < n)%nat -> sW1 p i j == negpart W i j).
Proof. intros p. split; intros; apply tabQ_spec; auto. Qed.

Lemma sign_params_sym n W qt : sym_on n W ->
  let p := sign_params n W qt in sym_on n (sW0 p) /\ sym_on n (sW1 p).
Proof.
  intros Hs p. destruct (sign_params_grid n W qt) as [H0 H1]. fold p in H0, H1. split; intros i j Hi Hj.
  - rewrite (H0 i j Hi Hj), (H0 j i Hj Hi). exact (pospart_sym n W Hs i j Hi Hj).
  - rewrite (H1 i j Hi Hj), (H1 j i Hj Hi). exact (negpart_sym n W Hs i j Hi Hj).
Qed.

Lemma sign_params_Qsign n W qt g lb :
  let p := sign_params n W qt in
  Qsign_gen n (sW0 p) (sW1 p) g (ss0 p) (ss1 p) (sd0 p) (sd1 p) lb == Qsign n W g qt lb.
Proof.
  intros p. destruct (sign_params_grid n W qt) as [H0 H1]. fold p in H0, H1.
  assert (E0 : stot n (sW0 p) == stot n (pospart W)) by (apply stot_ext; exact H0).
  assert (E1 : stot n (sW1 p) == stot n (negpart W)) by (apply stot_ext; exact H1).
  unfold Qsign_gen, Qsign. cbv zeta. subst p. unfold sign_params in *. cbn [sW0 sW1 ss0 ss1 sd0 sd1] in *.
  rewrite (Qhalf_ext n _ (pospart W) g _ (adj (stot n (pospart W))) lb H0 (adj_comp _ _ E0)).
  rewrite (Qhalf_ext n _ (negpart W) g _ (adj (stot n (negpart W))) lb H1 (adj_comp _ _ E1)).
  rewrite (sign_d0_comp qt _ _ _ _ E0 E1), (sign_d1_comp qt _ _ _ _ E0 E1). reflexivity.
Qed.

Lemma Qhalf_partition_invariant n M g s lb lb' :
  (forall i j, (i < n)%nat -> (j < n)%nat -> (lb i = lb j <-> lb' i = lb' j)) -> Qhalf n M g s lb == Qhalf n M g s lb'.
Proof.
  intros H. rewrite !Qhalf_spec. apply sum2Q_ext; intros i j Hi Hj.
  rewrite (delta_same_partition n lb lb' H i j Hi Hj). reflexivity.
Qed.

Lemma Qsign_gen_partition_invariant n W0 W1 g s0 s1 d0 d1 lb lb' :
  (forall i j, (i < n)%nat -> (j < n)%nat -> (lb i = lb j <-> lb' i = lb' j)) ->
  Qsign_gen n W0 W1 g s0 s1 d0 d1 lb == Qsign_gen n W0 W1 g s0 s1 d0 d1 lb'.
Proof.
  intros H. unfold Qsign_gen. rewrite (Qhalf_partition_invariant n W0 g s0 lb lb' H), (Qhalf_partition_invariant n W1 g s1 lb lb' H).
  reflexivity.
Qed.

Theorem Qsign_partition_invariant n W g qt lb lb' :
  (forall i j, (i < n)%nat -> (j < n)%nat -> (lb i = lb j <-> lb' i = lb' j)) -> Qsign n W g qt lb == Qsign n W g qt lb'.
Proof. intros H. rewrite !Qsign_is_gen. apply Qsign_gen_partition_invariant; exact H. Qed.

Lemma Qsign_lab_ext n W g qt lb lb' : (forall j, (j < n)%nat -> lb j = lb' j) -> Qsign n W g qt lb == Qsign n W g qt lb'.
Proof. intros H. apply Qsign_partition_invariant. intros i j Hi Hj. rewrite (H i Hi), (H j Hj). reflexivity. Qed.

Lemma Qsign_nth_to_list n W g qt cih : Qsign n W g qt (fun x => nth x (to_list n cih) O) == Qsign n W g qt cih.
Proof. apply Qsign_lab_ext. intros j Hj. apply nth_to_list; exact Hj. Qed.

Lemma p1_same n0 n cih : lab1_ok n0 n cih ->
  forall i j, (i < n0)%nat -> (j < n0)%nat -> (p1 cih i = p1 cih j <-> cih i = cih j).
Proof. intros [H1 _] i j Hi Hj. unfold p1. pose proof (H1 i Hi). pose proof (H1 j Hj). lia. Qed.

(* ================= modularity_louvain_und_sign ================= *)
Definition sg_k (n : nat) (M : mat Q) : vec Q := tabvQ n (colsum n M).
Definition sg_st0 (n : nat) (W0 W1 : mat Q) : state :=
  mkst (tabv O n ident) (mkchan (tabQ n n W0) (sg_k n W0)) (mkchan (tabQ n n W1) (sg_k n W1)).
Definition sg_fin (n : nat) (W0 W1 : mat Q) (moves : list (nat * nat)) : state :=
  run_moves (move_sign n W0 W1 (sg_k n W0) (sg_k n W1)) (sg_st0 n W0 W1) moves.

Lemma louvain_sign_level_eq n W0 W1 g s0 s1 d0 d1 moves :
  louvain_sign_level n W0 W1 g s0 s1 d0 d1 moves =
  (fst (replay (gain_sign W0 W1 g s0 s1 d0 d1 (sg_k n W0) (sg_k n W1)) (move_sign n W0 W1 (sg_k n W0) (sg_k n W1))
               (sg_st0 n W0 W1) moves),
   (lev_m0 n (lab (sg_fin n W0 W1 moves)),
    (lev_n n (lab (sg_fin n W0 W1 moves)),
     (tabQ (lev_n n (lab (sg_fin n W0 W1 moves))) (lev_n n (lab (sg_fin n W0 W1 moves)))
           (agg_upper n W0 (lev_m0 n (lab (sg_fin n W0 W1 moves)))),
      tabQ (lev_n n (lab (sg_fin n W0 W1 moves))) (lev_n n (lab (sg_fin n W0 W1 moves)))
           (agg_upper n W1 (lev_m0 n (lab (sg_fin n W0 W1 moves)))))))).
Proof.
  unfold louvain_sign_level, sg_fin. cbv zeta. fold (sg_k n W0). fold (sg_k n W1). fold (sg_st0 n W0 W1).
  rewrite <- (replay_snd (gain_sign W0 W1 g s0 s1 d0 d1 (sg_k n W0) (sg_k n W1))).
  destruct (replay (gain_sign W0 W1 g s0 s1 d0 d1 (sg_k n W0) (sg_k n W1)) (move_sign n W0 W1 (sg_k n W0) (sg_k n W1))
                   (sg_st0 n W0 W1) moves) as [tr st]. reflexivity.
Qed.

(* q[h] = d0*(trace(W0) - g*sum(dot(W0,W0))/s0) - d1*(...) on the aggregated matrices == signed quality of ci[h] on the
   ORIGINAL positive / negative parts *)
Lemma sign_level_q n0 P0 P1 g s0 s1 d0 d1 n' V0 V1 cih :
  lab1_ok n0 n' cih -> on_grid n0 P0 n' V0 cih -> on_grid n0 P1 n' V1 cih ->
  d0 * closing_raw n' V0 g s0 - d1 * closing_raw n' V1 g s1 == Qsign_gen n0 P0 P1 g s0 s1 d0 d1 cih.
Proof.
  intros Hc G0 G1.
  rewrite (closing_raw_ext n' V0 (agg n0 P0 (p1 cih)) g s0 G0), (closing_raw_ext n' V1 (agg n0 P1 (p1 cih)) g s1 G1).
  rewrite (q_closing_louvain_sign_eq_def n0 n' P0 P1 g s0 s1 d0 d1 (p1 cih) (lab1_lt n0 n' cih Hc)).
  apply (Qsign_gen_partition_invariant n0 P0 P1 g s0 s1 d0 d1 (p1 cih) cih). apply (p1_same n0 n' cih Hc).
Qed.

Definition sign_level_ok (n0 : nat) (Wo : mat Q) (g : Q) (qt : qtype) (e : level_t * Q) : Prop :=
  (exists k, labels_exact n0 (lvl_labels e) k) /\
  snd e = Qred (Qsign n0 Wo g qt (fun x => nth x (lvl_labels e) O)) /\ lvl_q e = snd e /\ lvl_qd e = snd e.

Lemma sign_levels_ok n0 Wo g qt : sym_on n0 Wo ->
  let p := sign_params n0 Wo qt in
  forall lv n W0 W1 prev,
  lab1_ok n0 n prev -> on_grid n0 (sW0 p) n W0 prev -> on_grid n0 (sW1 p) n W1 prev ->
  Forall (sign_level_ok n0 Wo g qt)
         (louvain_sign_levels n0 Wo qt g (ss0 p) (ss1 p) (sd0 p) (sd1 p) n W0 W1 prev lv).
Proof.
  intros Hs p. destruct (sign_params_sym n0 Wo qt Hs) as [S0 S1]. fold p in S0, S1.
  induction lv as [|moves rest IH]; intros n W0 W1 prev Hp G0 G1; cbn [louvain_sign_levels]; [constructor|].
  rewrite louvain_sign_level_eq.
  set (fin := sg_fin n W0 W1 moves).
  destruct (grid_step n0 (sW0 p) n W0 prev (lab fin) S0 Hp G0) as (Hc & G0' & E).
  destruct (grid_step n0 (sW1 p) n W1 prev (lab fin) S1 Hp G1) as (_ & G1' & _).
  set (m0 := lev_m0 n (lab fin)) in *. set (n' := lev_n n (lab fin)) in *.
  set (V0 := tabQ n' n' (agg_upper n W0 m0)) in *. set (V1 := tabQ n' n' (agg_upper n W1 m0)) in *.
  set (cih := tabv O n0 (compose_lab n prev (fun i => S (m0 i)))) in *.
  constructor; [|apply IH; assumption].
  assert (Eq : Qred (sd0 p * closing_raw n' V0 g (ss0 p) - sd1 p * closing_raw n' V1 g (ss1 p)) =
               Qred (Qsign n0 Wo g qt (fun x => nth x (to_list n0 cih) O))).
  { apply Qred_complete. transitivity (Qsign n0 Wo g qt cih); [|symmetry; apply Qsign_nth_to_list].
    rewrite (sign_level_q n0 (sW0 p) (sW1 p) g _ _ _ _ n' V0 V1 cih Hc G0' G1').
    exact (sign_params_Qsign n0 Wo qt g cih). }
  unfold sign_level_ok, lvl_labels, lvl_q, lvl_qd. cbn [fst snd]. split; [exists n'; apply labels_exact_to_list; exact Hc|].
  split; [exact Eq|]. split; [reflexivity|]. rewrite Eq. apply Qred_complete. symmetry. apply Qsign_nth_to_list.
Qed.

Lemma louvain_sign_levels_length n0 Wo qt g s0 s1 d0 d1 lv : forall n W0 W1 prev,
  length (louvain_sign_levels n0 Wo qt g s0 s1 d0 d1 n W0 W1 prev lv) = length lv.
Proof.
  induction lv as [|moves rest IH]; intros n W0 W1 prev; cbn [louvain_sign_levels]; [reflexivity|].
  destruct (louvain_sign_level n W0 W1 g s0 s1 d0 d1 moves) as [tr [m0 [n' [V0 V1]]]]. cbn [length]. rewrite IH. reflexivity.
Qed.

(* ---------- the run function ---------- *)
Definition sg_res (rows : list (list Q)) (g : Q) (qt : nat) (lv : list (list (nat * nat))) : list (level_t * Q) :=
  let n := length rows in let p := sign_params n (rowsW rows) (qtype_of qt) in
  louvain_sign_levels n (rowsW rows) (qtype_of qt) g (ss0 p) (ss1 p) (sd0 p) (sd1 p) n (sW0 p) (sW1 p) (fun x => S x) lv.
Definition sg_last (n : nat) (res : list (level_t * Q)) : list nat * Q :=
  match rev res with (l, q) :: _ => (fst (snd l), q) | [] => (map S (seq 0 n), 0) end.
(* _, ci_ret = np.unique(ci[-1], return_inverse=True); ci_ret += 1 *)
Definition sg_ret (n : nat) (cil : list nat) : list nat := out_lab n (relabel0 n (fun x => Z.of_nat (nth x cil O))).

Lemma run_louvain_sign_eq rows g qt lv :
  run_louvain_sign rows g qt lv =
  (map fst (sg_res rows g qt lv),
   (sg_ret (length rows) (fst (sg_last (length rows) (sg_res rows g qt lv))),
    (snd (sg_last (length rows) (sg_res rows g qt lv)),
     (Qred (Qsign (length rows) (rowsW rows) g (qtype_of qt)
              (fun x => nth x (sg_ret (length rows) (fst (sg_last (length rows) (sg_res rows g qt lv)))) O)),
      Qred (Qsign (length rows) (rowsW rows) g (qtype_of qt) ident))))).
Proof.
  unfold run_louvain_sign. cbv zeta. fold (rowsW rows). fold (sg_res rows g qt lv).
  fold (sg_last (length rows) (sg_res rows g qt lv)).
  destruct (sg_last (length rows) (sg_res rows g qt lv)) as [cil q]. reflexivity.
Qed.

Lemma sg_res_ok rows g qt lv : sym_rows rows ->
  Forall (sign_level_ok (length rows) (rowsW rows) g (qtype_of qt)) (sg_res rows g qt lv).
Proof.
  intros Hs. apply (sign_levels_ok _ _ g (qtype_of qt) (rowsW_sym rows Hs)); [apply lab1_S|apply on_grid_start|apply on_grid_start].
Qed.

Lemma sg_last_in n res : res <> [] -> exists e, In e res /\ sg_last n res = (lvl_labels e, snd e).
Proof.
  intros Hne. unfold sg_last. destruct (rev res) as [|[l q] r] eqn:E.
  - exfalso. apply Hne. rewrite <- (rev_involutive res), E. reflexivity.
  - exists (l, q). split; [|reflexivity]. apply in_rev. rewrite E. left; reflexivity.
Qed.

Lemma sg_res_nonempty rows g qt lv : lv <> [] -> sg_res rows g qt lv <> [].
Proof.
  intros Hne E. apply (f_equal (@length _)) in E. unfold sg_res in E. cbv zeta in E.
  rewrite louvain_sign_levels_length in E. destruct lv; [congruence|discriminate].
Qed.

(* the closing np.unique: labels exactly 1..k, same partition as the last level *)
Lemma sg_ret_nth n cil x : (x < n)%nat -> nth x (sg_ret n cil) O = relabel n (fun y => Z.of_nat (nth y cil O)) x.
Proof. intros Hx. unfold sg_ret, out_lab, to_list. rewrite map_map. rewrite (nth_map_seq (fun y => S (relabel0 n (fun y0 => Z.of_nat (nth y0 cil O)) y)) O n x Hx). reflexivity.
Qed.

Lemma sg_ret_exact n cil : exists k, labels_exact n (sg_ret n cil) k.
Proof.
  exists (nlab n (fun y => Z.of_nat (nth y cil O))).
  destruct (relabel_range n (fun y => Z.of_nat (nth y cil O))) as [R1 R2]. split; [|split].
  - unfold sg_ret, out_lab. rewrite map_length. apply to_list_length.
  - intros x Hx. rewrite (sg_ret_nth n cil x Hx). apply R1; exact Hx.
  - intros t Ht. destruct (R2 t Ht) as [u [Hu E]]. exists u. split; [exact Hu|]. rewrite (sg_ret_nth n cil u Hu). exact E.
Qed.

Lemma sg_ret_same n cil i j : (i < n)%nat -> (j < n)%nat ->
  (nth i (sg_ret n cil) O = nth j (sg_ret n cil) O <-> nth i cil O = nth j cil O).
Proof.
  intros Hi Hj. rewrite (sg_ret_nth n cil i Hi), (sg_ret_nth n cil j Hj).
  rewrite (relabel_same_partition n _ i j Hi Hj). split; [apply Nat2Z.inj|intros ->; reflexivity].
Qed.

(* C02, whole run: the routine always executes at least one level and returns the LAST one *)
Theorem louvain_sign_run_q rows g qt lv : sym_rows rows -> lv <> [] ->
  let r := run_louvain_sign rows g qt lv in ret_q r = ret_qdef r.
Proof.
  intros Hs Hne r. unfold r. rewrite run_louvain_sign_eq. unfold ret_q, ret_qdef. cbn [fst snd].
  destruct (sg_last_in (length rows) _ (sg_res_nonempty rows g qt lv Hne)) as [e [He Ep]]. rewrite Ep. cbn [fst snd].
  pose proof (sg_res_ok rows g qt lv Hs) as HF. rewrite Forall_forall in HF. destruct (HF e He) as (_ & Eq & _).
  rewrite Eq. apply Qred_complete. apply Qsign_partition_invariant. intros i j Hi Hj. symmetry. apply sg_ret_same; assumption.
Qed.

Theorem louvain_sign_run_labels rows g qt lv :
  let r := run_louvain_sign rows g qt lv in exists k, labels_exact (length rows) (ret_ci r) k.
Proof. intros r. unfold r. rewrite run_louvain_sign_eq. unfold ret_ci. cbn [fst snd]. apply sg_ret_exact. Qed.

Theorem louvain_sign_run_levels rows g qt lv : sym_rows rows ->
  Forall (level_pair_ok (length rows) (Qsign (length rows) (rowsW rows) g (qtype_of qt))) (fst (run_louvain_sign rows g qt lv)).
Proof.
  intros Hs. rewrite run_louvain_sign_eq. cbn [fst]. pose proof (sg_res_ok rows g qt lv Hs) as HF.
  induction HF as [|e l He _ IH]; cbn [map]; constructor; [|exact IH].
  destruct He as (Hk & Eq & E1 & E2). unfold level_pair_ok. cbv zeta.
  unfold lvl_labels, lvl_q, lvl_qd in *. split; [exact Hk|]. split; [rewrite E1; exact Eq|rewrite E1, E2; reflexivity].
Qed.

(* ================= C07: monotone whole runs ================= *)
Fixpoint louvain_sign_good (g s0 s1 d0 d1 : Q) (n : nat) (W0 W1 : mat Q) (lv : list (list (nat * nat))) : Prop :=
  match lv with
  | [] => True
  | moves :: rest =>
      good_run n (gain_sign W0 W1 g s0 s1 d0 d1 (sg_k n W0) (sg_k n W1)) (move_sign n W0 W1 (sg_k n W0) (sg_k n W1))
               (sg_st0 n W0 W1) moves /\
      let fin := sg_fin n W0 W1 moves in
      let n' := lev_n n (lab fin) in let m0 := lev_m0 n (lab fin) in
      louvain_sign_good g s0 s1 d0 d1 n' (tabQ n' n' (agg_upper n W0 m0)) (tabQ n' n' (agg_upper n W1 m0)) rest
  end.

Lemma sg_k_rowsum n M : sym_on n M -> forall i, (i < n)%nat -> sg_k n M i == sumQ (fun j => M i j) n.
Proof.
  intros Hs i Hi. unfold sg_k. rewrite tabvQ_spec by exact Hi. rewrite colsum_spec. apply sumQ_ext; intros j Hj. apply Hs; assumption.
Qed.

(* signed quality of a partition of the level's nodes on the level's matrices = that of the induced partition of the
   original nodes on the original positive / negative parts *)
Lemma sign_agg_Q n0 P0 P1 g s0 s1 d0 d1 n W0 W1 prev lb2 :
  lab1_ok n0 n prev -> on_grid n0 P0 n W0 prev -> on_grid n0 P1 n W1 prev -> lab_lt n n lb2 ->
  Qsign_gen n W0 W1 g s0 s1 d0 d1 lb2 == Qsign_gen n0 P0 P1 g s0 s1 d0 d1 (fun x => lb2 (p1 prev x)).
Proof.
  intros Hp G0 G1 Hl. unfold Qsign_gen.
  rewrite (Qhalf_ext n W0 (agg n0 P0 (p1 prev)) g s0 s0 lb2 G0 (Qeq_refl _)).
  rewrite (Qhalf_ext n W1 (agg n0 P1 (p1 prev)) g s1 s1 lb2 G1 (Qeq_refl _)).
  rewrite (aggregate_preserves_Qhalf n0 n n P0 g s0 (p1 prev) lb2 (lab1_lt n0 n prev Hp) Hl).
  rewrite (aggregate_preserves_Qhalf n0 n n P1 g s1 (p1 prev) lb2 (lab1_lt n0 n prev Hp) Hl). reflexivity.
Qed.

Lemma sign_level_mono n0 P0 P1 g s0 s1 d0 d1 n W0 W1 prev moves :
  sym_on n0 P0 -> sym_on n0 P1 -> lab1_ok n0 n prev -> on_grid n0 P0 n W0 prev -> on_grid n0 P1 n W1 prev ->
  good_run n (gain_sign W0 W1 g s0 s1 d0 d1 (sg_k n W0) (sg_k n W1)) (move_sign n W0 W1 (sg_k n W0) (sg_k n W1))
           (sg_st0 n W0 W1) moves ->
  let m0 := lev_m0 n (lab (sg_fin n W0 W1 moves)) in
  let cih := tabv O n0 (compose_lab n prev (fun i => S (m0 i))) in
  let Qs := Qsign_gen n0 P0 P1 g s0 s1 d0 d1 in
  Qs prev <= Qs cih /\ (moves <> [] -> Qs prev < Qs cih).
Proof.
  intros S0 S1 Hp G0 G1 Hr m0 cih Qs.
  pose proof (on_grid_sym n0 P0 n W0 prev S0 G0) as T0. pose proof (on_grid_sym n0 P1 n W1 prev S1 G1) as T1.
  destruct (moves_monotone_sign n W0 W1 g s0 s1 d0 d1 (sg_k n W0) (sg_k n W1) moves (sg_st0 n W0 W1) T0 T1
             (sg_k_rowsum n W0 T0) (sg_k_rowsum n W1 T1) (init_bk_inv_louvain_sign n W0 W1 _ _) Hr) as ((Hlf & _) & Hle & Hlt).
  fold (sg_fin n W0 W1 moves) in Hlf, Hle, Hlt. set (fin := sg_fin n W0 W1 moves) in *.
  destruct (grid_step n0 P0 n W0 prev (lab fin) S0 Hp G0) as (Hc & _ & E). fold m0 in E, Hc. fold cih in E, Hc.
  assert (Q0 : Qsign_gen n W0 W1 g s0 s1 d0 d1 (lab (sg_st0 n W0 W1)) == Qs prev).
  { rewrite (sign_agg_Q n0 P0 P1 g s0 s1 d0 d1 n W0 W1 prev _ Hp G0 G1) by (cbn [sg_st0 lab]; apply lab_lt_ident).
    apply Qsign_gen_partition_invariant. intros i j Hi Hj. cbn [sg_st0 lab].
    rewrite !tabv_spec by (apply (lab1_lt n0 n prev Hp); assumption). unfold ident. apply (p1_same n0 n prev Hp); assumption. }
  assert (Q1 : Qsign_gen n W0 W1 g s0 s1 d0 d1 (lab fin) == Qs cih).
  { rewrite (sign_agg_Q n0 P0 P1 g s0 s1 d0 d1 n W0 W1 prev _ Hp G0 G1 Hlf).
    apply Qsign_gen_partition_invariant. intros i j Hi Hj. rewrite (E i Hi), (E j Hj).
    pose proof (lab1_lt n0 n prev Hp i Hi) as Li. pose proof (lab1_lt n0 n prev Hp j Hj) as Lj. split.
    - intros H. f_equal. exact (proj2 (lev_m0_same n (lab fin) _ _ Li Lj) H).
    - intros H. injection H as H. exact (proj1 (lev_m0_same n (lab fin) _ _ Li Lj) H). }
  rewrite <- Q0, <- Q1. split; assumption.
Qed.

Lemma sign_levels_mono n0 Wo g qt : sym_on n0 Wo ->
  let p := sign_params n0 Wo qt in
  forall lv n W0 W1 prev,
  lab1_ok n0 n prev -> on_grid n0 (sW0 p) n W0 prev -> on_grid n0 (sW1 p) n W1 prev ->
  louvain_sign_good g (ss0 p) (ss1 p) (sd0 p) (sd1 p) n W0 W1 lv ->
  chain_mono (Qsign n0 Wo g qt prev)
             (map fst (louvain_sign_levels n0 Wo qt g (ss0 p) (ss1 p) (sd0 p) (sd1 p) n W0 W1 prev lv)).
Proof.
  intros Hs p. destruct (sign_params_sym n0 Wo qt Hs) as [S0 S1]. fold p in S0, S1.
  induction lv as [|moves rest IH]; intros n W0 W1 prev Hp G0 G1 Hgood; cbn [louvain_sign_levels]; [exact I|].
  cbn [louvain_sign_good] in Hgood. destruct Hgood as [Hr Hrest].
  rewrite louvain_sign_level_eq.
  destruct (sign_level_mono n0 (sW0 p) (sW1 p) g _ _ _ _ n W0 W1 prev moves S0 S1 Hp G0 G1 Hr) as [Hle Hlt].
  set (fin := sg_fin n W0 W1 moves) in *.
  destruct (grid_step n0 (sW0 p) n W0 prev (lab fin) S0 Hp G0) as (Hc & G0' & E).
  destruct (grid_step n0 (sW1 p) n W1 prev (lab fin) S1 Hp G1) as (_ & G1' & _).
  set (m0 := lev_m0 n (lab fin)) in *. set (n' := lev_n n (lab fin)) in *.
  set (V0 := tabQ n' n' (agg_upper n W0 m0)) in *. set (V1 := tabQ n' n' (agg_upper n W1 m0)) in *.
  set (cih := tabv O n0 (compose_lab n prev (fun i => S (m0 i)))) in *.
  pose proof (sign_params_Qsign n0 Wo qt g prev) as X1. pose proof (sign_params_Qsign n0 Wo qt g cih) as X2.
  cbv zeta in X1, X2. fold p in X1, X2. rewrite X1, X2 in Hle, Hlt.
  cbn [map fst chain_mono snd].
  split; [rewrite Qred_correct; exact Hle|]. split.
  - intros Hne. rewrite Qred_correct. apply Hlt. intros ->. apply Hne. reflexivity.
  - apply (chain_mono_comp (Qsign n0 Wo g qt cih)); [symmetry; apply Qred_correct|].
    apply (IH n' V0 V1 cih Hc G0' G1' Hrest).
Qed.

Lemma Qsign_S_ident n W g qt : Qsign n W g qt (fun x => S x) == Qsign n W g qt ident.
Proof. apply Qsign_partition_invariant. intros i j _ _. unfold ident. lia. Qed.

(* C07, whole run *)
Theorem louvain_sign_run_monotone rows g qt lv : sym_rows rows -> lv <> [] ->
  (let n := length rows in let p := sign_params n (rowsW rows) (qtype_of qt) in
   louvain_sign_good g (ss0 p) (ss1 p) (sd0 p) (sd1 p) n (sW0 p) (sW1 p) lv) ->
  let r := run_louvain_sign rows g qt lv in
  chain_mono (ret_qstart r) (fst r) /\ ret_qstart r <= ret_qdef r.
Proof.
  intros Hs Hne Hgood r. unfold r. rewrite run_louvain_sign_eq. unfold ret_qstart, ret_qdef. cbn [fst snd]. cbv zeta in Hgood.
  pose proof (sign_levels_mono _ _ g (qtype_of qt) (rowsW_sym rows Hs) lv _ _ _ _ (lab1_S (length rows))
                (on_grid_start _ _) (on_grid_start _ _) Hgood) as HC.
  fold (sg_res rows g qt lv) in HC.
  assert (HC' : chain_mono (Qred (Qsign (length rows) (rowsW rows) g (qtype_of qt) ident)) (map fst (sg_res rows g qt lv))).
  { apply (chain_mono_comp _ _ _ (Qeq_sym _ _ (Qeq_trans _ _ _ (Qred_correct _) (Qeq_sym _ _ (Qsign_S_ident _ _ _ _)))) HC). }
  split; [exact HC'|].
  destruct (sg_last_in (length rows) _ (sg_res_nonempty rows g qt lv Hne)) as [e [He Ep]]. rewrite Ep. cbn [fst].
  pose proof (sg_res_ok rows g qt lv Hs) as HF. rewrite Forall_forall in HF. destruct (HF e He) as (_ & Eq & _ & E2).
  assert (Ed : Qred (Qsign (length rows) (rowsW rows) g (qtype_of qt) (fun x => nth x (sg_ret (length rows) (lvl_labels e)) O)) = lvl_qd e).
  { rewrite E2, Eq. apply Qred_complete. apply Qsign_partition_invariant. intros i j Hi Hj. apply sg_ret_same; assumption. }
  rewrite Ed. apply (chain_mono_ge _ _ HC' (fst e)). apply in_map. exact He.
Qed.

(* ================= modularity_finetune_und_sign (and the replay model of probtune): whole-run q ================= *)
Lemma final_lab_lt_n n lb : lab_lt n n (tabv O n (relabel0 n (zlab lb))).
Proof.
  intros i Hi. pose proof (final_lab_lt n lb i Hi) as H. unfold nlab in H.
  pose proof (uniq_sorted_length (to_list n (zlab lb))) as H2. rewrite to_list_length in H2. lia.
Qed.

(* the degree vectors Kn0/Kn1 = np.sum(Knm, axis=1) do not depend on the partition they were computed from *)
Lemma sign_init_kn n p lb lb' : lab_lt n n lb -> lab_lt n n lb' ->
  (forall i, (i < n)%nat -> fst (snd (sign_init n p lb)) i == fst (snd (sign_init n p lb')) i) /\
  (forall i, (i < n)%nat -> snd (snd (sign_init n p lb)) i == snd (snd (sign_init n p lb')) i).
Proof.
  intros Hl Hl'.
  destruct (init_chan_finetune n (sW0 p) lb Hl) as (_ & A & _). destruct (init_chan_finetune n (sW0 p) lb' Hl') as (_ & A' & _).
  destruct (init_chan_finetune n (sW1 p) lb Hl) as (_ & B & _). destruct (init_chan_finetune n (sW1 p) lb' Hl') as (_ & B' & _).
  unfold sign_init. cbn [fst snd]. split; intros i Hi.
  - rewrite (A i Hi), (A' i Hi). reflexivity.
  - rewrite (B i Hi), (B' i Hi). reflexivity.
Qed.

Lemma closing_outer_kn_ext n W0 kn kn' g s0 lb : (forall i, (i < n)%nat -> kn i == kn' i) ->
  closing_outer n W0 kn g s0 lb == closing_outer n W0 kn' g s0 lb.
Proof.
  intros H. unfold closing_outer. rewrite !sum2R_sum2Q. apply sum2Q_ext; intros i j Hi Hj. rewrite (H i Hi), (H j Hj). reflexivity.
Qed.

(* for every symmetric W, gamma, qtype, initial labels and recorded move list (probtune: including its random moves) the
   returned q is the definitional Qsign of the returned labels, as reduced fractions *)
Theorem run_finetune_sign_consistent rows g qt ci moves :
  sym_on (length rows) (of_rows 0 rows) ->
  let r := run_finetune_sign rows g qt ci moves in ret_q r = ret_qdef r.
Proof.
  intros Hsym. unfold run_finetune_sign. cbv zeta.
  set (n := length rows). set (W := of_rows 0 rows). set (p := sign_params n W (qtype_of qt)).
  set (lab0 := init_lab n ci).
  pose proof (sign_init_kn n p lab0) as HK.
  destruct (sign_init n p lab0) as [st0 [kn0 kn1]] eqn:EI.
  destruct (replay _ _ st0 moves) as [tr st].
  unfold ret_q, ret_qdef. cbn [fst snd]. apply Qred_complete.
  set (labf := tabv O n (relabel0 n (zlab (lab st)))).
  assert (Hlf : lab_lt n n labf) by apply final_lab_lt_n.
  rewrite <- (q_closing_sign_eq_def n W g (qtype_of qt) labf Hlf Hsym). fold p.
  destruct (HK labf (init_lab_lt n ci) Hlf) as [K0 K1]. cbn [fst snd] in K0, K1.
  unfold sign_closing.
  rewrite (closing_outer_kn_ext n (sW0 p) kn0 _ g (ss0 p) labf K0), (closing_outer_kn_ext n (sW1 p) kn1 _ g (ss1 p) labf K1).
  reflexivity.
Qed.

(* labels of the finetune-style routines: np.unique(return_inverse)+1 of the final labels, exactly 1..k *)
Lemma out_lab_exact n lb : exists k, labels_exact n (out_lab n (tabv O n (relabel0 n (zlab lb)))) k.
Proof.
  exists (nlab n (zlab lb)). destruct (relabel_range n (zlab lb)) as [R1 R2].
  assert (E : forall x, (x < n)%nat -> nth x (out_lab n (tabv O n (relabel0 n (zlab lb)))) O = relabel n (zlab lb) x).
  { intros x Hx. unfold out_lab, to_list. rewrite map_map.
    rewrite (nth_map_seq (fun y => S (tabv O n (relabel0 n (zlab lb)) y)) O n x Hx). rewrite tabv_spec by exact Hx. reflexivity. }
  split; [|split].
  - unfold out_lab. rewrite map_length. apply to_list_length.
  - intros x Hx. rewrite (E x Hx). apply R1; exact Hx.
  - intros t Ht. destruct (R2 t Ht) as [u [Hu Eu]]. exists u. split; [exact Hu|]. rewrite (E u Hu). exact Eu.
Qed.

Theorem run_finetune_sign_labels rows g qt ci moves :
  let r := run_finetune_sign rows g qt ci moves in exists k, labels_exact (length rows) (ret_ci r) k.
Proof.
  unfold run_finetune_sign. cbv zeta.
  destruct (sign_init _ _ _) as [st0 [kn0 kn1]]. destruct (replay _ _ st0 moves) as [tr st].
  unfold ret_ci. cbn [fst snd]. apply out_lab_exact.
Qed.

(* non-vacuity: 4 nodes, positive edges 0-1 (2), 0-2 (1), 2-3 (3), negative edge 1-3; level 1 builds {0,1} and {2,3},
   level 2 makes no move; qtype 'sta' *)
Definition ex_sign_rows : list (list Q) := [[0; 2; 1; 0]; [2; 0; 0; -(1)]; [1; 0; 0; 3]; [0; -(1); 3; 0]].
Definition ex_sign_lv : list (list (nat * nat)) := [[(0, 1); (2, 3)]; []]%nat.

Example louvain_sign_run_nonvacuous :
  sym_rows ex_sign_rows /\ ex_sign_lv <> [] /\
  (let n := length ex_sign_rows in let p := sign_params n (rowsW ex_sign_rows) (qtype_of 0) in
   louvain_sign_good 1 (ss0 p) (ss1 p) (sd0 p) (sd1 p) n (sW0 p) (sW1 p) ex_sign_lv) /\
  ret_ci (run_louvain_sign ex_sign_rows 1 0 ex_sign_lv) = [1; 1; 2; 2]%nat /\
  ret_q (run_louvain_sign ex_sign_rows 1 0 ex_sign_lv) = ret_qdef (run_louvain_sign ex_sign_rows 1 0 ex_sign_lv) /\
  ret_qstart (run_louvain_sign ex_sign_rows 1 0 ex_sign_lv) < ret_q (run_louvain_sign ex_sign_rows 1 0 ex_sign_lv).
Proof.
  split; [|split; [discriminate|split; [|split; [vm_compute; reflexivity|split; vm_compute; reflexivity]]]].
  - intros i j Hi Hj. do 4 (destruct i as [|i]; [do 4 (destruct j as [|j]; [reflexivity|]); exfalso; cbn in Hj; lia|]). exfalso; cbn in Hi; lia.
  - cbv zeta. cbn [louvain_sign_good ex_sign_lv]. split; [good_run_tac|]. split; [good_run_tac|exact I].
Qed.
