(* Proofs/EquivModelsLinear.v — C04 for the two LAPACK measures, in the vocabulary of C18 (Model/Linear.v).

   pagerank_centrality: r' = solve(I - d A D^-1, (1-d) f), r = r' / sum r'.  For 0 <= d < 1 and A >= 0 the system has
   EXACTLY one solution (C18: pagerank_exists_unique), the renumbered solution solves the renumbered system (prior
   `falff` renumbered with the nodes), hence whatever `solve` returns on the renumbered system is the renumbered
   vector, and so is the normalised output.

   eigenvector_centrality_und: on a connected undirected non-negative network two non-negative non-zero eigenvectors
   (of whatever eigenvalues) are positive multiples of each other and the eigenvalues coincide (the uniqueness half of
   Perron-Frobenius, proved here over Q); with equal norms they are equal.  Hence any two vectors of that kind for
   the network and for the renumbered network agree up to the renumbering. *)
From Coq Require Import QArith Qring Lia Lqa Arith List Bool.
From BCT Require Import Base.Mat Base.SumQ Model.SymTerm Proofs.EquivModels Model.Linear Proofs.Linear Proofs.LinearExist.
From BCT Require Proofs.SymTerm.
Import ListNotations.
Open Scope Q_scope.

Section PagerankEquiv.
Variables (n : nat) (p : nat -> nat).
Hypothesis Hp : perm_on n p.

Lemma sumQ_pm (f : nat -> Q) : sumQ (fun k => f (p k)) n == sumQ f n.
Proof. apply (Proofs.SymTerm.sumQ_reindex n p f Hp). Qed.

Lemma colsumQ_pm A j : colsumQ n (pm p A) j == colsumQ n A (p j).
Proof. unfold colsumQ, pm. apply (sumQ_pm (fun i => A i (p j))). Qed.
Lemma pr_deg_pm A j : pr_deg n (pm p A) j == pr_deg n A (p j).
Proof.
  unfold pr_deg. cbv zeta. pose proof (colsumQ_pm A j) as E.
  destruct (Qeq_bool (colsumQ n (pm p A) j) 0) eqn:E1; destruct (Qeq_bool (colsumQ n A (p j)) 0) eqn:E2; try reflexivity; try exact E.
  - apply Qeq_bool_iff in E1. apply Qeq_bool_neq in E2. exfalso. apply E2. rewrite <- E. exact E1.
  - apply Qeq_bool_iff in E2. apply Qeq_bool_neq in E1. exfalso. apply E1. rewrite E. exact E2.
Qed.
Lemma delta_pm i j : delta (p i) (p j) = delta i j.
Proof.
  unfold delta. destruct (Nat.eqb i j) eqn:E.
  - apply Nat.eqb_eq in E. subst j. rewrite Nat.eqb_refl. reflexivity.
  - apply Nat.eqb_neq in E. destruct (Nat.eqb (p i) (p j)) eqn:E2; [|reflexivity].
    apply Nat.eqb_eq in E2. exfalso. apply E. apply (perm_inj n p _ _ Hp E2).
Qed.
Lemma pr_B_pm A d i j : pr_B n (pm p A) d i j == pr_B n A d (p i) (p j).
Proof. unfold pr_B, pr_M. rewrite delta_pm, (pr_deg_pm A j). unfold pm. reflexivity. Qed.
Lemma mvec_pr_B_pm A d r i : mvecQ n (pr_B n (pm p A) d) (pv p r) i == mvecQ n (pr_B n A d) r (p i).
Proof.
  unfold mvecQ. rewrite <- (sumQ_pm (fun x => pr_B n A d (p i) x * r x)).
  apply sumQ_ext. intros j _. rewrite pr_B_pm. unfold pv. reflexivity.
Qed.

(* the renumbered solution solves the renumbered system *)
Lemma pagerank_system_pm A d f r : (forall i, (i < n)%nat -> mvecQ n (pr_B n A d) r i == pr_b d f i) ->
  forall i, (i < n)%nat -> mvecQ n (pr_B n (pm p A) d) (pv p r) i == pr_b d (pv p f) i.
Proof. intros H i Hi. rewrite mvec_pr_B_pm. apply (H (p i) (perm_lt n p i Hp Hi)). Qed.

(* the prior: ones(N)/N, or falff / sum(falff) with falff renumbered together with the nodes *)
Lemma pr_prior_pm falff i : pr_prior n (option_map (pv p) falff) i == pr_prior n falff (p i).
Proof.
  destruct falff as [g|]; cbn [option_map pr_prior]; [|reflexivity].
  unfold pv. rewrite (sumQ_pm g). reflexivity.
Qed.

Lemma pr_norm_pm x r : (forall i, (i < n)%nat -> x i == r (p i)) -> forall i, (i < n)%nat -> pr_norm n x i == pr_norm n r (p i).
Proof.
  intros H i Hi. unfold pr_norm. rewrite (H i Hi).
  assert (E : sumQ x n == sumQ r n).
  { rewrite <- (sumQ_pm r). apply sumQ_ext. exact H. }
  rewrite E. reflexivity.
Qed.

(* THE THEOREM for pagerank_centrality(A, d, falff): x' = what `solve` returns for the renumbered network (with the
   renumbered falff), r' = what it returns for the original; both are only assumed to SOLVE their systems *)
Theorem pagerank_model_equivariant (A : mat Q) (d : Q) (falff : option (vec Q)) (x' r' : vec Q) :
  0 <= d -> d < 1 -> (forall i j, (i < n)%nat -> (j < n)%nat -> 0 <= A i j) ->
  (forall i, (i < n)%nat -> mvecQ n (pr_B n (pm p A) d) x' i == pr_b d (pr_prior n (option_map (pv p) falff)) i) ->
  (forall i, (i < n)%nat -> mvecQ n (pr_B n A d) r' i == pr_b d (pr_prior n falff) i) ->
  (forall i, (i < n)%nat -> x' i == r' (p i)) /\
  (forall i, (i < n)%nat -> pr_norm n x' i == pr_norm n r' (p i)).
Proof.
  intros Hd0 Hd1 HA Hx Hr.
  assert (HA' : forall i j, (i < n)%nat -> (j < n)%nat -> 0 <= pm p A i j).
  { intros i j Hi Hj. apply HA; [apply (perm_lt n p i Hp Hi)|apply (perm_lt n p j Hp Hj)]. }
  assert (E : forall i, (i < n)%nat -> x' i == r' (p i)).
  { apply (proj2 (pagerank_exists_unique n (pm p A) d (pr_prior n (option_map (pv p) falff)) Hd0 Hd1 HA') x' (pv p r') Hx).
    intros i Hi. rewrite mvec_pr_B_pm, (Hr (p i) (perm_lt n p i Hp Hi)). unfold pr_b. rewrite pr_prior_pm. reflexivity. }
  split; [exact E|apply pr_norm_pm; exact E].
Qed.
End PagerankEquiv.

(* ================================================================== *)
(* eigenvector centrality: uniqueness half of Perron-Frobenius over Q   *)
(* ================================================================== *)
Section Perron.
Variable n : nat.
Variable A : mat Q.
Hypothesis Asym : forall i j, (i < n)%nat -> (j < n)%nat -> A i j == A j i.
Hypothesis Ann : forall i j, (i < n)%nat -> (j < n)%nat -> 0 <= A i j.
Hypothesis Aconn : irreducible n A.

Definition eigvec (v : vec Q) (lam : Q) : Prop := forall i, (i < n)%nat -> mvecQ n A v i == lam * v i.
Definition nonneg_vec (v : vec Q) : Prop := forall i, (i < n)%nat -> 0 <= v i.

(* a sum of non-negative terms that vanishes has only vanishing terms *)
Lemma sumQ_zero_terms f m : (forall i, (i < m)%nat -> 0 <= f i) -> sumQ f m == 0 -> forall i, (i < m)%nat -> f i == 0.
Proof.
  induction m as [|m IH]; intros Hnn Hs i Hi; [lia|]. cbn [sumQ] in Hs.
  assert (H1 : 0 <= sumQ f m) by (apply sumQ_nonneg; intros; apply Hnn; lia).
  assert (H2 : 0 <= f m) by (apply Hnn; lia).
  destruct (Nat.eq_dec i m) as [->|Hne]; [lra|]. apply IH; [intros; apply Hnn; lia|lra|lia].
Qed.

(* a sum of non-negative terms with one positive term is positive *)
Lemma sumQ_pos f m i0 : (forall i, (i < m)%nat -> 0 <= f i) -> (i0 < m)%nat -> 0 < f i0 -> 0 < sumQ f m.
Proof.
  induction m as [|m IH]; intros Hnn Hi0 Hp0; [lia|]. cbn [sumQ].
  assert (H1 : 0 <= sumQ f m) by (apply sumQ_nonneg; intros; apply Hnn; lia).
  assert (H2 : 0 <= f m) by (apply Hnn; lia).
  destruct (Nat.eq_dec i0 m) as [->|Hne]; [lra|]. assert (0 < sumQ f m) by (apply IH; [intros; apply Hnn; lia|lia|exact Hp0]). lra.
Qed.

(* a non-negative eigenvector that vanishes at one node vanishes at every node reachable from it *)
Lemma zero_spreads z lam : nonneg_vec z -> eigvec z lam -> forall i j, (i < n)%nat -> reach n A i j -> z i == 0 -> z j == 0.
Proof.
  intros Hz He i j Hi R. induction R as [|k j R IH Hj Hkj]; intros Hzi; [exact Hzi|].
  specialize (IH Hzi). assert (Hk : (k < n)%nat) by (exact (Proofs.LinearMarkov.reach_lt n A i k Hi R)).
  pose proof (He k Hk) as E. rewrite IH in E. unfold mvecQ in E.
  assert (E0 : sumQ (fun l => A k l * z l) n == 0) by (rewrite E; ring).
  pose proof (sumQ_zero_terms (fun l => A k l * z l) n) as T. cbv beta in T.
  assert (Tj : A k j * z j == 0).
  { apply T; [|exact E0|exact Hj]. intros l Hl. apply Qmult_le_0_compat; [apply Ann; assumption|apply Hz; exact Hl]. }
  destruct (Qeq_dec (z j) 0) as [e|ne]; [exact e|]. exfalso.
  assert (A k j == 0). { apply (Qmult_integral_l (z j)); [exact ne|]. rewrite Qmult_comm. exact Tj. } lra.
Qed.

Lemma nonneg_eig_zero_or_pos z lam : nonneg_vec z -> eigvec z lam ->
  (exists i, (i < n)%nat /\ z i == 0) -> forall j, (j < n)%nat -> z j == 0.
Proof. intros Hz He [i [Hi Hzi]] j Hj. apply (zero_spreads z lam Hz He i j Hi (Aconn i j Hi Hj) Hzi). Qed.

Lemma nonneg_eig_positive v lam : nonneg_vec v -> eigvec v lam -> (exists i, (i < n)%nat /\ ~ v i == 0) ->
  forall j, (j < n)%nat -> 0 < v j.
Proof.
  intros Hv He [i [Hi Hnz]] j Hj. destruct (Qlt_le_dec 0 (v j)) as [H|H]; [exact H|exfalso].
  apply Hnz. apply (nonneg_eig_zero_or_pos v lam Hv He); [|exact Hi].
  exists j. split; [exact Hj|]. specialize (Hv j Hj). lra.
Qed.

(* <A v, w> = <v, A w> *)
Lemma sym_form v w : sumQ (fun i => mvecQ n A v i * w i) n == sumQ (fun i => v i * mvecQ n A w i) n.
Proof.
  unfold mvecQ.
  rewrite (sumQ_ext _ (fun i => sumQ (fun j => A i j * v j * w i) n)) by (intros i _; rewrite <- sumQ_scal_r; reflexivity).
  rewrite (sumQ_ext (fun i => v i * sumQ _ n) (fun i => sumQ (fun j => A j i * v i * w j) n)).
  2:{ intros i Hi. rewrite <- sumQ_scal. apply sumQ_ext. intros j Hj. rewrite (Asym i j Hi Hj). ring. }
  apply sumQ_fubini.
Qed.

(* the node where the ratio w/v is smallest *)
Lemma min_ratio v w : (forall i, (i < n)%nat -> 0 < v i) -> forall m, (0 < m)%nat -> (m <= n)%nat ->
  exists i0, (i0 < m)%nat /\ forall i, (i < m)%nat -> w i0 * v i <= w i * v i0.
Proof.
  intros Hv. induction m as [|m IH]; intros Hm Hmn; [lia|].
  destruct m as [|m].
  - exists O. split; [lia|]. intros i Hi. assert (i = O) by lia. subst i. lra.
  - destruct IH as [i0 [Hi0 Hmin]]; [lia|lia|].
    destruct (Qlt_le_dec (w (S m) * v i0) (w i0 * v (S m))) as [Hlt|Hge].
    + exists (S m). split; [lia|]. intros i Hi. destruct (Nat.eq_dec i (S m)) as [->|Hne]; [lra|].
      specialize (Hmin i ltac:(lia)).
      assert (P0 : 0 < v i0) by (apply Hv; lia). assert (P1 : 0 < v i) by (apply Hv; lia). assert (P2 : 0 < v (S m)) by (apply Hv; lia).
      (* w_S * v_i <= w_i * v_S  from  w_S v_0 < w_0 v_S  and  w_0 v_i <= w_i v_0 *)
      apply (Qmult_le_r _ _ (v i0) P0).
      assert (X1 : w (S m) * v i * v i0 == (w (S m) * v i0) * v i) by ring.
      assert (X2 : w i * v (S m) * v i0 == (w i * v i0) * v (S m)) by ring.
      rewrite X1, X2. apply Qle_trans with (w i0 * v (S m) * v i).
      * apply Qmult_le_compat_r; lra.
      * assert (X3 : w i0 * v (S m) * v i == (w i0 * v i) * v (S m)) by ring. rewrite X3. apply Qmult_le_compat_r; lra.
    + exists i0. split; [lia|]. intros i Hi. destruct (Nat.eq_dec i (S m)) as [->|Hne]; [exact Hge|]. apply Hmin. lia.
Qed.

Theorem perron_unique v w lam mu : (0 < n)%nat ->
  nonneg_vec v -> eigvec v lam -> (exists i, (i < n)%nat /\ ~ v i == 0) ->
  nonneg_vec w -> eigvec w mu -> (exists i, (i < n)%nat /\ ~ w i == 0) ->
  lam == mu /\ exists t, 0 < t /\ forall i, (i < n)%nat -> w i == t * v i.
Proof.
  intros Hn Hv Ev Nv Hw Ew Nw.
  pose proof (nonneg_eig_positive v lam Hv Ev Nv) as Pv. pose proof (nonneg_eig_positive w mu Hw Ew Nw) as Pw.
  (* eigenvalues: lam <v,w> = <Av,w> = <v,Aw> = mu <v,w>, <v,w> > 0 *)
  assert (Hlm : lam == mu).
  { pose proof (sym_form v w) as S.
    rewrite (sumQ_ext _ (fun i => lam * (v i * w i))) in S by (intros i Hi; rewrite (Ev i Hi); ring).
    rewrite (sumQ_ext (fun i => v i * mvecQ n A w i) (fun i => mu * (v i * w i))) in S by (intros i Hi; rewrite (Ew i Hi); ring).
    rewrite !sumQ_scal in S.
    assert (Pos : 0 < sumQ (fun i => v i * w i) n).
    { apply (sumQ_pos (fun i => v i * w i) n O).
      - intros i Hi. apply Qmult_le_0_compat; [apply Hv|apply Hw]; exact Hi.
      - exact Hn.
      - apply Qmult_lt_0_compat; [apply Pv|apply Pw]; exact Hn. }
    assert (X : (lam - mu) * sumQ (fun i => v i * w i) n == 0) by (ring_simplify; lra).
    destruct (Qeq_dec lam mu) as [e|ne]; [exact e|exfalso].
    assert (Y : sumQ (fun i => v i * w i) n == 0).
    { apply (Qmult_integral_l (lam - mu)); [lra|exact X]. } lra. }
  split; [exact Hlm|].
  destruct (min_ratio v w Pv n Hn (le_n n)) as [i0 [Hi0 Hmin]].
  set (t := w i0 / v i0).
  assert (Pv0 : 0 < v i0) by (apply Pv; exact Hi0). assert (Pw0 : 0 < w i0) by (apply Pw; exact Hi0).
  assert (Ht : 0 < t). { unfold t, Qdiv. apply Qmult_lt_0_compat; [exact Pw0|apply Qinv_lt_0_compat; exact Pv0]. }
  assert (Htv : t * v i0 == w i0) by (unfold t; field; lra).
  exists t. split; [exact Ht|].
  (* z = w - t v >= 0, vanishes at i0, eigenvector for lam *)
  set (z := fun i => w i - t * v i).
  assert (Hz : nonneg_vec z).
  { intros i Hi. unfold z. specialize (Hmin i Hi).
    assert (X : t * v i * v i0 <= w i * v i0).
    { assert (E : t * v i * v i0 == (t * v i0) * v i) by ring. rewrite E, Htv. exact Hmin. }
    assert (t * v i <= w i) by (apply (Qmult_le_r _ _ (v i0) Pv0); exact X). lra. }
  assert (Ez : eigvec z lam).
  { intros i Hi. unfold mvecQ, z.
    rewrite (sumQ_ext _ (fun j => A i j * w j - t * (A i j * v j))) by (intros; ring).
    rewrite sumQ_sub, sumQ_scal. pose proof (Ev i Hi) as E1. pose proof (Ew i Hi) as E2. unfold mvecQ in E1, E2.
    rewrite E1, E2, Hlm. ring. }
  assert (Z0 : z i0 == 0) by (unfold z; lra).
  intros i Hi. pose proof (nonneg_eig_zero_or_pos z lam Hz Ez (ex_intro _ i0 (conj Hi0 Z0)) i Hi) as Zi. unfold z in Zi. lra.
Qed.

(* with equal norms the two vectors are equal *)
Corollary perron_unique_normalised v w lam mu : (0 < n)%nat ->
  nonneg_vec v -> eigvec v lam -> (exists i, (i < n)%nat /\ ~ v i == 0) ->
  nonneg_vec w -> eigvec w mu -> (exists i, (i < n)%nat /\ ~ w i == 0) ->
  normsq n w == normsq n v -> lam == mu /\ forall i, (i < n)%nat -> w i == v i.
Proof.
  intros Hn Hv Ev Nv Hw Ew Nw Hnorm.
  destruct (perron_unique v w lam mu Hn Hv Ev Nv Hw Ew Nw) as [Hlm [t [Ht Hwt]]]. split; [exact Hlm|].
  assert (Pn : 0 < normsq n v).
  { pose proof (nonneg_eig_positive v lam Hv Ev Nv) as Pv. unfold normsq. apply (sumQ_pos (fun i => v i * v i) n O).
    - intros i Hi. specialize (Hv i Hi). nra.
    - exact Hn.
    - specialize (Pv O Hn). nra. }
  assert (E : normsq n w == t * t * normsq n v).
  { unfold normsq. rewrite <- sumQ_scal. apply sumQ_ext. intros i Hi. rewrite (Hwt i Hi). ring. }
  assert (T1 : t == 1).
  { rewrite Hnorm in E. assert (X : (t * t - 1) * normsq n v == 0) by (ring_simplify; lra).
    assert (Y : t * t - 1 == 0). { destruct (Qeq_dec (t * t - 1) 0) as [e|ne]; [exact e|exfalso].
      assert (normsq n v == 0) by (apply (Qmult_integral_l (t * t - 1)); assumption). lra. }
    assert (Z : (t - 1) * (t + 1) == 0) by (ring_simplify; lra).
    destruct (Qeq_dec (t - 1) 0) as [e|ne]; [lra|exfalso].
    assert (t + 1 == 0) by (apply (Qmult_integral_l (t - 1)); assumption). lra. }
  intros i Hi. rewrite (Hwt i Hi), T1. ring.
Qed.
End Perron.

Section EigenEquiv.
Variables (n : nat) (p : nat -> nat).
Hypothesis Hp : perm_on n p.

Lemma reach_pm A i j : reach n A (p i) (p j) -> (i < n)%nat -> reach n (pm p A) i j.
Proof.
  intros R Hi. remember (p i) as x eqn:Ex. remember (p j) as y eqn:Ey. revert j Ey.
  induction R as [|k y R IH Hy Hky]; intros j Ey.
  - assert (i = j) by (apply (perm_inj n p _ _ Hp); congruence). subst j. apply reach_refl.
  - assert (Hk : (k < n)%nat). { apply (Proofs.LinearMarkov.reach_lt n A x k); [subst x; apply (perm_lt n p i Hp Hi)|exact R]. }
    destruct (inv_perm_r n p k Hp Hk) as [Ek Hk'].
    apply (reach_step n (pm p A) i (inv_perm n p k) j).
    + apply IH. symmetry. exact Ek.
    + subst y. apply (perm_lt_inv n p j Hp Hy).
    + unfold pm. rewrite Ek, <- Ey. exact Hky.
Qed.
Lemma irreducible_pm A : irreducible n A -> irreducible n (pm p A).
Proof. intros H i j Hi Hj. apply reach_pm; [apply H; [apply (perm_lt n p i Hp Hi)|apply (perm_lt n p j Hp Hj)]|exact Hi]. Qed.

Lemma eigvec_pm A v lam : eigvec n A v lam -> eigvec n (pm p A) (pv p v) lam.
Proof.
  intros H i Hi. unfold mvecQ, pv, pm.
  rewrite (sumQ_pm n p Hp (fun x => A (p i) x * v x)). apply (H (p i) (perm_lt n p i Hp Hi)).
Qed.
Lemma normsq_pm v : normsq n (pv p v) == normsq n v.
Proof. unfold normsq, pv. apply (sumQ_pm n p Hp (fun x => v x * v x)). Qed.

(* eigenvector_centrality_und on a connected undirected non-negative network: w = what the routine returns for the
   renumbered network, v = what it returns for the original; each is only assumed to be a non-negative non-zero
   eigenvector (for ANY eigenvalue) - which is what abs(V[:, argmax]) is (C18_eigenvector_abs_ok) *)
Theorem eigenvector_model_equivariant (A : mat Q) (v w : vec Q) (lam mu : Q) : (0 < n)%nat ->
  (forall i j, (i < n)%nat -> (j < n)%nat -> A i j == A j i) ->
  (forall i j, (i < n)%nat -> (j < n)%nat -> 0 <= A i j) -> irreducible n A ->
  nonneg_vec n v -> eigvec n A v lam -> (exists i, (i < n)%nat /\ ~ v i == 0) ->
  nonneg_vec n w -> eigvec n (pm p A) w mu -> (exists i, (i < n)%nat /\ ~ w i == 0) ->
  mu == lam /\
  (exists t, 0 < t /\ forall i, (i < n)%nat -> w i == t * v (p i)) /\
  (normsq n w == normsq n v -> forall i, (i < n)%nat -> w i == v (p i)).
Proof.
  intros Hn As Ann Ac Hv Ev Nv Hw Ew Nw.
  assert (As' : forall i j, (i < n)%nat -> (j < n)%nat -> pm p A i j == pm p A j i).
  { intros i j Hi Hj. apply As; [apply (perm_lt n p i Hp Hi)|apply (perm_lt n p j Hp Hj)]. }
  assert (Ann' : forall i j, (i < n)%nat -> (j < n)%nat -> 0 <= pm p A i j).
  { intros i j Hi Hj. apply Ann; [apply (perm_lt n p i Hp Hi)|apply (perm_lt n p j Hp Hj)]. }
  assert (Hv' : nonneg_vec n (pv p v)) by (intros i Hi; apply Hv; apply (perm_lt n p i Hp Hi)).
  assert (Nv' : exists i, (i < n)%nat /\ ~ pv p v i == 0).
  { destruct Nv as [i [Hi Hnz]]. destruct (inv_perm_r n p i Hp Hi) as [Ei Hi']. exists (inv_perm n p i).
    split; [exact Hi'|]. unfold pv. rewrite Ei. exact Hnz. }
  pose proof (eigvec_pm A v lam Ev) as Ev'.
  destruct (perron_unique n (pm p A) As' Ann' (irreducible_pm A Ac) (pv p v) w lam mu Hn Hv' Ev' Nv' Hw Ew Nw) as [E [t [Ht Hwt]]].
  split; [symmetry; exact E|]. split; [exists t; split; [exact Ht|exact Hwt]|].
  intros Hnorm i Hi.
  apply (proj2 (perron_unique_normalised n (pm p A) As' Ann' (irreducible_pm A Ac) (pv p v) w lam mu Hn Hv' Ev' Nv' Hw Ew Nw
                  ltac:(rewrite normsq_pm; exact Hnorm)) i Hi).
Qed.
End EigenEquiv.
