(* Proofs/BetweenSpec.v — facts about the SPECIFICATION of Model/Between.v:
   candidate enumeration, cutting a cycle out of a walk, minimum-length walks repeat no node,
   and the binary sum identities  sum_v BC_spec v = sum (d-1),  sum_xy EBC_spec x y = sum d. *)
From Coq Require Import QArith Qring Qfield Lia Lqa List Arith Bool ZArith Permutation ListDec.
From BCT Require Import Base.Mat Base.SumQ Base.ListX Model.Between.
Import ListNotations.
Open Scope Z_scope.

(* ---------- candidates ---------- *)
Lemma lists_of_In n k : forall p, In p (lists_of n k) <-> length p = k /\ inb n p = true.
Proof.
  induction k as [|k IH]; intros p; cbn [lists_of].
  - split.
    + intros [<-|[]]. auto.
    + intros [H _]. destruct p; [left; reflexivity|discriminate].
  - rewrite in_flat_map. split.
    + intros [a [Ha Hp]]. apply in_map_iff in Hp. destruct Hp as [q [<- Hq]]. apply IH in Hq.
      destruct Hq as [H1 H2]. apply in_seq in Ha. cbn [length inb forallb]. split; [lia|].
      fold (inb n q). rewrite H2, andb_true_r. apply Nat.ltb_lt. lia.
    + intros [Hl Hi]. destruct p as [|a q]; [discriminate|]. cbn [inb forallb] in Hi.
      apply andb_true_iff in Hi. destruct Hi as [Ha Hq]. exists a. split.
      * apply in_seq. apply Nat.ltb_lt in Ha. lia.
      * apply in_map. apply IH. split; [cbn [length] in Hl; lia|exact Hq].
Qed.

Lemma cands_In n p : In p (cands n) <-> (1 <= length p <= n)%nat /\ inb n p = true.
Proof.
  unfold cands. rewrite in_flat_map. split.
  - intros [k [Hk Hp]]. apply in_seq in Hk. apply lists_of_In in Hp. destruct Hp. split; [lia|assumption].
  - intros [Hl Hi]. exists (length p). split; [apply in_seq; lia|]. apply lists_of_In. auto.
Qed.

(* ---------- walks: decomposition ---------- *)
Definition okl (G : mat Z) (p : list nat) : bool := match p with [] => false | a :: r => chain G a r end.

Lemma wft_iff n G s t p :
  wft n G s t p = true <-> hd_error p = Some s /\ last p s = t /\ inb n p = true /\ okl G p = true.
Proof.
  destruct p as [|a r]; [cbn; split; [discriminate|intros [H _]; discriminate]|].
  unfold wft, okl. rewrite !andb_true_iff, !Nat.eqb_eq. cbn [hd_error]. split.
  - intros [[[-> H2] H3] H4]. auto.
  - intros (H1 & H2 & H3 & H4). inversion H1; subst. auto.
Qed.

Lemma chain_app G : forall l a b r, chain G a (l ++ b :: r) = chain G a (l ++ [b]) && chain G b r.
Proof.
  induction l as [|c l IH]; intros a b r; cbn [app chain].
  - rewrite andb_true_r. reflexivity.
  - rewrite IH, andb_assoc. reflexivity.
Qed.
Lemma clen_app G : forall l a b r, clen G a (l ++ b :: r) = clen G a (l ++ [b]) + clen G b r.
Proof.
  induction l as [|c l IH]; intros a b r; cbn [app clen].
  - lia.
  - rewrite IH. lia.
Qed.
Lemma okl_app G l x r : okl G (l ++ x :: r) = okl G (l ++ [x]) && okl G (x :: r).
Proof. destruct l as [|a l]; cbn [app okl chain]; [reflexivity|apply chain_app]. Qed.
Lemma wlen_app G l x r : wlen G (l ++ x :: r) = wlen G (l ++ [x]) + wlen G (x :: r).
Proof. destruct l as [|a l]; cbn [app wlen clen]; [lia|apply clen_app]. Qed.

Lemma inb_app n l1 l2 : inb n (l1 ++ l2) = inb n l1 && inb n l2.
Proof. apply forallb_app. Qed.
Lemma inb_In n p : inb n p = true <-> forall x, In x p -> (x < n)%nat.
Proof. unfold inb. rewrite forallb_forall. split; intros H x Hx; [apply Nat.ltb_lt|apply Nat.ltb_lt]; auto. Qed.

Lemma last_app_cons {A} (l1 : list A) x r d : last (l1 ++ x :: r) d = last (x :: r) d.
Proof.
  induction l1 as [|a l1 IH]; [reflexivity|]. cbn [app]. rewrite <- IH. cbn [last].
  destruct (l1 ++ x :: r) eqn:E; [destruct l1; discriminate|reflexivity].
Qed.

(* every connection on a walk has positive length *)
Lemma chain_len_ge n G : nonneg_len n G -> forall r a, (a < n)%nat -> inb n r = true -> chain G a r = true ->
  Z.of_nat (length r) <= clen G a r.
Proof.
  intros HG. induction r as [|b r IH]; intros a Ha Hi Hc; cbn [length clen]; [lia|].
  cbn [inb forallb] in Hi. apply andb_true_iff in Hi. destruct Hi as [Hb Hi]. apply Nat.ltb_lt in Hb.
  cbn [chain] in Hc. apply andb_true_iff in Hc. destruct Hc as [He Hc].
  unfold edge in He. apply negb_true_iff, Z.eqb_neq in He. specialize (HG a b Ha Hb).
  specialize (IH b Hb Hi Hc). lia.
Qed.
Lemma chain_len_bin n G : binary n G -> forall r a, (a < n)%nat -> inb n r = true -> chain G a r = true ->
  clen G a r = Z.of_nat (length r).
Proof.
  intros HG. induction r as [|b r IH]; intros a Ha Hi Hc; cbn [length clen]; [lia|].
  cbn [inb forallb] in Hi. apply andb_true_iff in Hi. destruct Hi as [Hb Hi]. apply Nat.ltb_lt in Hb.
  cbn [chain] in Hc. apply andb_true_iff in Hc. destruct Hc as [He Hc].
  unfold edge in He. apply negb_true_iff, Z.eqb_neq in He. specialize (HG a b Ha Hb).
  specialize (IH b Hb Hi Hc). lia.
Qed.
Lemma binary_nonneg n G : binary n G -> nonneg_len n G.
Proof. intros H i j Hi Hj. destruct (H i j Hi Hj); lia. Qed.

Lemma wlen_ge n G p : nonneg_len n G -> inb n p = true -> okl G p = true ->
  Z.of_nat (length p) - 1 <= wlen G p.
Proof.
  intros HG Hi Ho. destruct p as [|a r]; [discriminate|]. cbn [okl wlen length] in *.
  cbn [inb forallb] in Hi. apply andb_true_iff in Hi. destruct Hi as [Ha Hi]. apply Nat.ltb_lt in Ha.
  pose proof (chain_len_ge n G HG r a Ha Hi Ho). lia.
Qed.
Lemma wlen_bin n G p : binary n G -> inb n p = true -> okl G p = true ->
  wlen G p = Z.of_nat (length p) - 1.
Proof.
  intros HG Hi Ho. destruct p as [|a r]; [discriminate|]. cbn [okl wlen length] in *.
  cbn [inb forallb] in Hi. apply andb_true_iff in Hi. destruct Hi as [Ha Hi]. apply Nat.ltb_lt in Ha.
  pose proof (chain_len_bin n G HG r a Ha Hi Ho). lia.
Qed.

(* cutting the cycle x ... x out of a walk gives a strictly shorter walk between the same endpoints *)
Lemma cut_cycle n G s t l1 x l2 l3 : nonneg_len n G ->
  wft n G s t (l1 ++ x :: l2 ++ x :: l3) = true ->
  wft n G s t (l1 ++ x :: l3) = true /\ wlen G (l1 ++ x :: l3) < wlen G (l1 ++ x :: l2 ++ x :: l3).
Proof.
  intros HG H. apply wft_iff in H. destruct H as (Hh & Hl & Hi & Ho).
  rewrite okl_app in Ho. apply andb_true_iff in Ho. destruct Ho as [Ho1 Ho2].
  change (x :: l2 ++ x :: l3) with ((x :: l2) ++ x :: l3) in Ho2.
  rewrite okl_app in Ho2. apply andb_true_iff in Ho2. destruct Ho2 as [Ho2 Ho3].
  rewrite inb_app in Hi. apply andb_true_iff in Hi. destruct Hi as [Hi1 Hi2].
  change (x :: l2 ++ x :: l3) with ((x :: l2) ++ x :: l3) in Hi2.
  rewrite inb_app in Hi2. apply andb_true_iff in Hi2. destruct Hi2 as [Hi2 Hi3].
  split.
  - apply wft_iff. split; [|split; [|split]].
    + destruct l1; exact Hh.
    + rewrite last_app_cons. rewrite last_app_cons in Hl.
      change (x :: l2 ++ x :: l3) with ((x :: l2) ++ x :: l3) in Hl. rewrite last_app_cons in Hl. exact Hl.
    + rewrite inb_app, Hi1, Hi3. reflexivity.
    + rewrite okl_app, Ho1, Ho3. reflexivity.
  - rewrite (wlen_app G l1 x l3), (wlen_app G l1 x (l2 ++ x :: l3)).
    change (x :: l2 ++ x :: l3) with ((x :: l2) ++ x :: l3). rewrite (wlen_app G (x :: l2) x l3).
    assert (Hcyc : 1 <= wlen G ((x :: l2) ++ [x])).
    { assert (Hin : inb n ((x :: l2) ++ [x]) = true).
      { rewrite inb_app, Hi2. cbn [inb forallb] in Hi3 |- *. apply andb_true_iff in Hi3. destruct Hi3 as [-> _]. reflexivity. }
      pose proof (wlen_ge n G _ HG Hin Ho2) as Hw. rewrite app_length in Hw. cbn [length] in Hw. lia. }
    lia.
Qed.

Lemma dup_split (l : list nat) : ~ NoDup l -> exists l1 x l2 l3, l = l1 ++ x :: l2 ++ x :: l3.
Proof.
  induction l as [|a l IH]; intros H; [exfalso; apply H; constructor|].
  destruct (in_dec Nat.eq_dec a l) as [Hin|Hnin].
  - apply in_split in Hin. destruct Hin as [l2 [l3 ->]]. exists [], a, l2, l3. reflexivity.
  - destruct IH as (l1 & x & l2 & l3 & ->).
    + intros Hnd. apply H. constructor; assumption.
    + exists (a :: l1), x, l2, l3. reflexivity.
Qed.

(* ---------- membership in the enumeration of minimum-length walks ---------- *)
Lemma walks_st_In n G s t p : In p (walks_st n G s t) <-> In p (cands n) /\ wft n G s t p = true.
Proof. unfold walks_st. apply filter_In. Qed.

Lemma spaths_In n G s t p :
  In p (spaths n G s t) <->
  In p (walks_st n G s t) /\ forall q, In q (walks_st n G s t) -> wlen G p <= wlen G q.
Proof.
  unfold spaths. rewrite filter_In, forallb_forall. split; intros [H1 H2]; split; auto; intros q Hq.
  - apply Z.leb_le. apply H2. exact Hq.
  - apply Z.leb_le. apply H2. exact Hq.
Qed.

Lemma spaths_NoDup_elem n G s t p : nonneg_len n G -> In p (spaths n G s t) -> NoDup p.
Proof.
  intros HG Hp. apply spaths_In in Hp. destruct Hp as [Hw Hmin].
  destruct (NoDup_dec Nat.eq_dec p) as [Hnd|Hnd]; [exact Hnd|exfalso].
  destruct (dup_split p Hnd) as (l1 & x & l2 & l3 & ->).
  apply walks_st_In in Hw. destruct Hw as [Hc Hw].
  destruct (cut_cycle n G s t l1 x l2 l3 HG Hw) as [Hw' Hlt].
  assert (Hc' : In (l1 ++ x :: l3) (cands n)).
  { apply cands_In in Hc. destruct Hc as [Hl Hi]. apply cands_In. split.
    - rewrite !app_length in *. cbn [length] in *. rewrite app_length in Hl. cbn [length] in Hl. lia.
    - rewrite inb_app in *. apply andb_true_iff in Hi. destruct Hi as [-> Hi]. cbn [andb].
      change (x :: l2 ++ x :: l3) with ((x :: l2) ++ x :: l3) in Hi. rewrite inb_app in Hi.
      apply andb_true_iff in Hi. tauto. }
  assert (In (l1 ++ x :: l3) (walks_st n G s t)) by (apply walks_st_In; auto).
  specialize (Hmin _ H). lia.
Qed.

Lemma spaths_wft n G s t p : In p (spaths n G s t) -> wft n G s t p = true /\ In p (cands n).
Proof. intros Hp. apply spaths_In in Hp. destruct Hp as [Hw _]. apply walks_st_In in Hw. tauto. Qed.

Lemma spaths_same_len n G s t p q : In p (spaths n G s t) -> In q (spaths n G s t) -> wlen G p = wlen G q.
Proof.
  intros Hp Hq. apply spaths_In in Hp. apply spaths_In in Hq. destruct Hp as [Hp1 Hp2], Hq as [Hq1 Hq2].
  specialize (Hp2 q Hq1). specialize (Hq2 p Hp1). lia.
Qed.

(* ---------- counting helpers ---------- *)
Fixpoint lsumZ {A} (f : A -> Z) (l : list A) : Z := match l with [] => 0 | a :: r => f a + lsumZ f r end.

Lemma zlen_filter_cons {A} (g : A -> bool) a l : zlen (filter g (a :: l)) = b2z (g a) + zlen (filter g l).
Proof. unfold zlen. cbn [filter]. destruct (g a); cbn [length b2z]; lia. Qed.

(* exchange "sum over v of the number of list elements with property g v" with "sum over the list" *)
Lemma count_swap {A} (c : nat -> bool) (g : nat -> A -> bool) n (L : list A) :
  sumn (fun v => if c v then zlen (filter (g v) L) else 0) n
  = lsumZ (fun p => sumn (fun v => if c v then b2z (g v p) else 0) n) L.
Proof.
  induction L as [|a L IH]; cbn [lsumZ].
  - rewrite (sumn_ext _ (fun _ => 0)); [apply sumn_zero|]. intros v _. destruct (c v); reflexivity.
  - rewrite <- IH, <- sumn_add. apply sumn_ext. intros v _. rewrite zlen_filter_cons. destruct (c v); lia.
Qed.

Lemma lsumZ_const {A} (f : A -> Z) k l : (forall a, In a l -> f a = k) -> lsumZ f l = zlen l * k.
Proof.
  unfold zlen. induction l as [|a l IH]; intros H; cbn [lsumZ length]; [lia|].
  rewrite IH by (intros; apply H; right; assumption). rewrite (H a (or_introl eq_refl)). lia.
Qed.

Lemma sumn_indicator a n : (a < n)%nat -> sumn (fun v => b2z (Nat.eqb v a)) n = 1.
Proof.
  intros Ha. rewrite (sumn_split _ n a Ha). rewrite Nat.eqb_refl. cbn [b2z].
  rewrite (sumn_ext _ (fun _ => 0)); [rewrite sumn_zero; lia|].
  intros i _. destruct (Nat.eqb i a); reflexivity.
Qed.

(* the nodes of a duplicate-free walk, counted over 0..n-1 *)
Lemma count_nodes n p : NoDup p -> inb n p = true -> sumn (fun v => b2z (nmem v p)) n = Z.of_nat (length p).
Proof.
  induction p as [|a p IH]; intros Hnd Hi.
  - cbn [nmem existsb b2z length]. apply sumn_zero.
  - inversion Hnd as [|? ? Ha Hp]; subst. cbn [inb forallb] in Hi. apply andb_true_iff in Hi.
    destruct Hi as [Han Hi]. apply Nat.ltb_lt in Han.
    rewrite (sumn_ext _ (fun v => b2z (Nat.eqb v a) + b2z (nmem v p))).
    + rewrite sumn_add, (sumn_indicator a n Han), (IH Hp Hi). cbn [length]. lia.
    + intros v _. cbn [nmem existsb]. fold (nmem v p). destruct (Nat.eqb_spec v a) as [->|Hne]; cbn [orb b2z].
      * assert (nmem a p = false) as -> by (apply nmem_false; exact Ha). reflexivity.
      * lia.
Qed.

Lemma hd_last_In (p : list nat) s : hd_error p = Some s -> In s p /\ In (last p s) p.
Proof.
  destruct p as [|a r]; [discriminate|]. intros H. inversion H; subst. split; [left; reflexivity|].
  destruct (exists_last (l := s :: r)) as [l' [z E]]; [discriminate|]. rewrite E, last_last.
  apply in_app_iff. right. left. reflexivity.
Qed.

Lemma count_interior n p s t : NoDup p -> inb n p = true -> In s p -> In t p -> s <> t ->
  sumn (fun v => if neb s v && neb t v then b2z (nmem v p) else 0) n = Z.of_nat (length p) - 2.
Proof.
  intros Hnd Hi Hs Ht Hst.
  assert (Hsn : (s < n)%nat) by (apply (proj1 (inb_In n p) Hi); exact Hs).
  assert (Htn : (t < n)%nat) by (apply (proj1 (inb_In n p) Hi); exact Ht).
  pose proof (count_nodes n p Hnd Hi) as Hc.
  rewrite (sumn_split2 _ n s t Hsn Htn Hst) in Hc.
  assert (nmem s p = true) as Es by (apply nmem_In; exact Hs).
  assert (nmem t p = true) as Et by (apply nmem_In; exact Ht).
  rewrite Es, Et in Hc. cbn [b2z] in Hc.
  rewrite (sumn_ext _ (fun i => if Nat.eqb i t then 0 else if Nat.eqb i s then 0 else b2z (nmem i p))); [lia|].
  intros v _. unfold neb. rewrite (Nat.eqb_sym s v), (Nat.eqb_sym t v).
  destruct (Nat.eqb v t), (Nat.eqb v s); reflexivity.
Qed.

(* the connections of a duplicate-free walk, counted over all ordered pairs *)
Lemma chain_has_In x y : forall r a, chain_has x y a r = true -> In x (a :: r).
Proof.
  induction r as [|b r IH]; intros a H; cbn [chain_has] in H; [discriminate|].
  apply orb_true_iff in H. destruct H as [H|H].
  - apply andb_true_iff in H. destruct H as [H _]. apply Nat.eqb_eq in H. left; exact H.
  - right. apply IH. exact H.
Qed.

Lemma count_pair a b n : (a < n)%nat -> (b < n)%nat ->
  sumn (fun x => sumn (fun y => b2z (Nat.eqb a x && Nat.eqb b y)) n) n = 1.
Proof.
  intros Ha Hb. rewrite (sumn_ext _ (fun x => b2z (Nat.eqb x a))).
  - apply sumn_indicator; exact Ha.
  - intros x _. rewrite (Nat.eqb_sym a x). destruct (Nat.eqb x a); cbn [andb b2z].
    + rewrite (sumn_ext _ (fun y => b2z (Nat.eqb y b))); [apply sumn_indicator; exact Hb|].
      intros y _. rewrite (Nat.eqb_sym b y). reflexivity.
    + apply sumn_zero.
Qed.

Lemma count_edges n : forall r a, NoDup (a :: r) -> inb n (a :: r) = true ->
  sumn (fun x => sumn (fun y => b2z (chain_has x y a r)) n) n = Z.of_nat (length r).
Proof.
  induction r as [|b r IH]; intros a Hnd Hi.
  - cbn [chain_has b2z length]. rewrite (sumn_ext _ (fun _ => 0)); [apply sumn_zero|]. intros; apply sumn_zero.
  - inversion Hnd as [|? ? Ha Hbr]; subst.
    pose proof Hi as Hi'. cbn [inb forallb] in Hi'. apply andb_true_iff in Hi'. destruct Hi' as [Han Hi'].
    apply Nat.ltb_lt in Han. pose proof Hi' as Hi''. apply andb_true_iff in Hi''. destruct Hi'' as [Hbn _].
    apply Nat.ltb_lt in Hbn.
    rewrite (sumn_ext _ (fun x => sumn (fun y => b2z (Nat.eqb a x && Nat.eqb b y)) n
                                  + sumn (fun y => b2z (chain_has x y b r)) n)).
    + rewrite sumn_add, (count_pair a b n Han Hbn), (IH b Hbr Hi'). cbn [length]. lia.
    + intros x _. rewrite <- sumn_add. apply sumn_ext. intros y _. cbn [chain_has].
      destruct (Nat.eqb_spec a x) as [->|Hne]; cbn [andb orb].
      * destruct (chain_has x y b r) eqn:E.
        -- exfalso. apply Ha. apply (chain_has_In x y r b E).
        -- rewrite orb_false_r. cbn [b2z]. lia.
      * cbn [b2z]. lia.
Qed.

Lemma sumQ_zq f n : (sumQ (fun v => zq (f v)) n == zq (sumn f n))%Q.
Proof.
  induction n as [|n IH]; cbn [sumQ sumn]; [reflexivity|]. rewrite IH. unfold zq. rewrite inject_Z_plus. reflexivity.
Qed.

(* a duplicate-free closed walk is the single node *)
Lemma closed_walk_single (p : list nat) s : NoDup p -> hd_error p = Some s -> last p s = s -> p = [s].
Proof.
  intros Hnd Hh Hl. destruct p as [|a r]; [discriminate|]. inversion Hh; subst a.
  destruct r as [|b r]; [reflexivity|exfalso].
  inversion Hnd as [|? ? Hs _]; subst. apply Hs.
  destruct (exists_last (l := b :: r)) as [l' [z E]]; [discriminate|].
  change (last (s :: b :: r) s) with (last (b :: r) s) in Hl. rewrite E in Hl |- *. rewrite last_last in Hl. subst z.
  apply in_app_iff. right. left. reflexivity.
Qed.

(* ---------- bin_sum_identities ---------- *)
Section BinSums.
Variable n : nat.
Variable G : mat Z.
Hypothesis Hbin : binary n G.

Lemma spaths_props s t p : In p (spaths n G s t) ->
  NoDup p /\ inb n p = true /\ hd_error p = Some s /\ last p s = t /\ wlen G p = Z.of_nat (length p) - 1 /\ p <> [].
Proof.
  intros Hp. pose proof (spaths_NoDup_elem n G s t p (binary_nonneg n G Hbin) Hp) as Hnd.
  destruct (spaths_wft n G s t p Hp) as [Hw _]. apply wft_iff in Hw. destruct Hw as (Hh & Hl & Hi & Ho).
  repeat split; auto.
  - apply (wlen_bin n G p Hbin Hi Ho).
  - intros ->. discriminate.
Qed.

(* per ordered pair: the interior nodes of all shortest walks, weighted 1/sigma, add up to d-1 *)
Lemma pair_nodes s t : (s < n)%nat -> (t < n)%nat ->
  (sumQ (fun v => if neb s v && neb t v then frac (sigma_through n G s t v) (sigma n G s t) else 0) n
   == if Nat.eqb s t then 0 else match dist_spec n G s t with Some d => zq (d - 1) | None => 0 end)%Q.
Proof.
  intros Hs Ht. unfold sigma_through, sigma, dist_spec.
  set (SP := spaths n G s t). pose proof (spaths_props s t) as Hprops. fold SP in Hprops.
  destruct (Nat.eqb_spec s t) as [<-|Hst].
  - apply sumQ_zero'. intros v Hv. unfold neb. destruct (Nat.eqb_spec s v) as [->|Hne]; cbn [negb andb]; [reflexivity|].
    assert (filter (nmem v) SP = []) as ->.
    { induction SP as [|p L IH]; [reflexivity|]. cbn [filter].
      destruct (Hprops p (or_introl eq_refl)) as (Hnd & _ & Hh & Hl & _).
      rewrite (closed_walk_single p s Hnd Hh Hl). cbn [nmem existsb]. destruct (Nat.eqb_spec v s); [congruence|].
      cbn [orb]. apply IH. intros q Hq. apply Hprops. right; exact Hq. }
    unfold frac, zlen. cbn [length]. destruct (Z.of_nat (length SP) =? 0)%Z; [reflexivity|].
    unfold zq, Qdiv. change (inject_Z (Z.of_nat 0)) with 0%Q. ring.
  - destruct SP as [|p0 L] eqn:ESP.
    + apply sumQ_zero'. intros v _. unfold frac, zlen. cbn [length filter Z.of_nat Z.eqb].
      destruct (neb s v && neb t v); reflexivity.
    + set (d := wlen G p0). rewrite <- ESP in *.
      assert (Hlen : forall p, In p SP -> Z.of_nat (length p) = d + 1).
      { intros p Hp. destruct (Hprops p Hp) as (_ & _ & _ & _ & Hw & _).
        assert (In p0 SP) by (rewrite ESP; left; reflexivity).
        pose proof (spaths_same_len n G s t p p0 Hp H). fold d in H0. lia. }
      assert (Hsg : zlen SP <> 0) by (unfold zlen; rewrite ESP; cbn [length]; lia).
      rewrite (sumQ_ext _ (fun v => zq (if neb s v && neb t v then zlen (filter (nmem v) SP) else 0) / zq (zlen SP))%Q).
      2:{ intros v _. unfold frac. destruct (Z.eqb_spec (zlen SP) 0); [contradiction|].
          destruct (neb s v && neb t v); [reflexivity|]. unfold zq, Qdiv. change (inject_Z 0) with 0%Q. ring. }
      unfold Qdiv. rewrite sumQ_scal_r, sumQ_zq.
      rewrite (count_swap (fun v => neb s v && neb t v) nmem n SP).
      rewrite (lsumZ_const _ (d - 1)).
      * unfold zq. rewrite inject_Z_mult. field. intros E.
        apply Hsg. unfold Qeq in E. cbn [inject_Z Qnum Qden] in E. lia.
      * intros p Hp. destruct (Hprops p Hp) as (Hnd & Hi & Hh & Hl & _ & _).
        destruct (hd_last_In p s Hh) as [Hsin Htin]. rewrite Hl in Htin.
        rewrite (count_interior n p s t Hnd Hi Hsin Htin Hst). rewrite (Hlen p Hp). lia.
Qed.

Lemma count_swap2 {A} (g : nat -> nat -> A -> bool) (L : list A) :
  sumn (fun x => sumn (fun y => zlen (filter (g x y) L)) n) n
  = lsumZ (fun p => sumn (fun x => sumn (fun y => b2z (g x y p)) n) n) L.
Proof.
  induction L as [|a L IH]; cbn [lsumZ].
  - rewrite (sumn_ext _ (fun _ => 0)); [apply sumn_zero|]. intros x _. apply sumn_zero.
  - rewrite <- IH, <- sumn_add. apply sumn_ext. intros x _. rewrite <- sumn_add. apply sumn_ext. intros y _.
    apply zlen_filter_cons.
Qed.

(* per ordered pair: the connections of all shortest walks, weighted 1/sigma, add up to d *)
Lemma pair_edges s t : (s < n)%nat -> (t < n)%nat ->
  (sumQ (fun x => sumQ (fun y => frac (sigma_edge n G s t x y) (sigma n G s t)) n) n
   == if Nat.eqb s t then 0 else match dist_spec n G s t with Some d => zq d | None => 0 end)%Q.
Proof.
  intros Hs Ht. unfold sigma_edge, sigma, dist_spec.
  set (SP := spaths n G s t). pose proof (spaths_props s t) as Hprops. fold SP in Hprops.
  destruct SP as [|p0 L] eqn:ESP.
  - rewrite sumQ_zero'; [destruct (Nat.eqb s t); reflexivity|]. intros x _. apply sumQ_zero'. intros y _.
    unfold frac, zlen. cbn [length filter Z.of_nat Z.eqb]. reflexivity.
  - set (d := wlen G p0). rewrite <- ESP in *.
    assert (Hp0 : In p0 SP) by (rewrite ESP; left; reflexivity).
    assert (Hlen : forall p, In p SP -> Z.of_nat (length p) = d + 1).
    { intros p Hp. destruct (Hprops p Hp) as (_ & _ & _ & _ & Hw & _).
      pose proof (spaths_same_len n G s t p p0 Hp Hp0). fold d in H. lia. }
    assert (Hsg : zlen SP <> 0) by (unfold zlen; rewrite ESP; cbn [length]; lia).
    assert (Hd0 : s = t -> d = 0).
    { intros <-. destruct (Hprops p0 Hp0) as (Hnd & _ & Hh & Hl & _). unfold d.
      rewrite (closed_walk_single p0 s Hnd Hh Hl). reflexivity. }
    rewrite (sumQ_ext _ (fun x => zq (sumn (fun y => zlen (filter (has_edge x y) SP)) n) / zq (zlen SP))%Q).
    2:{ intros x _. rewrite (sumQ_ext _ (fun y => zq (zlen (filter (has_edge x y) SP)) / zq (zlen SP))%Q).
        - unfold Qdiv. rewrite sumQ_scal_r, sumQ_zq. reflexivity.
        - intros y _. unfold frac. destruct (Z.eqb_spec (zlen SP) 0); [contradiction|reflexivity]. }
    unfold Qdiv. rewrite sumQ_scal_r, sumQ_zq, count_swap2.
    rewrite (lsumZ_const _ d).
    + assert (Hq : (zq (zlen SP * d) * / zq (zlen SP) == zq d)%Q).
      { unfold zq. rewrite inject_Z_mult. field. intros E. apply Hsg. unfold Qeq in E.
        cbn [inject_Z Qnum Qden] in E. lia. }
      rewrite Hq. destruct (Nat.eqb_spec s t) as [E|_]; [rewrite (Hd0 E); reflexivity|reflexivity].
    + intros p Hp. destruct (Hprops p Hp) as (Hnd & Hi & _ & _ & _ & Hne).
      destruct p as [|a r]; [congruence|]. unfold has_edge.
      rewrite (count_edges n r a Hnd Hi). specialize (Hlen _ Hp). cbn [length] in Hlen. lia.
Qed.

Definition pair_dist_minus1 (s t : nat) : Q :=
  if Nat.eqb s t then 0%Q else match dist_spec n G s t with Some d => zq (d - 1) | None => 0%Q end.
Definition pair_dist (s t : nat) : Q :=
  if Nat.eqb s t then 0%Q else match dist_spec n G s t with Some d => zq d | None => 0%Q end.

(* node values sum to the total of (distance - 1) over reachable ordered pairs *)
Theorem bin_sum_BC : (sumQ (BC_spec n G) n == sum2Q pair_dist_minus1 n)%Q.
Proof.
  unfold BC_spec, sum2Q. rewrite sumQ_fubini. apply sumQ_ext. intros s Hs.
  rewrite sumQ_fubini. apply sumQ_ext. intros t Ht. apply pair_nodes; assumption.
Qed.

(* connection values sum to the total of distances over reachable ordered pairs *)
Theorem bin_sum_EBC : (sum2Q (EBC_spec n G) n == sum2Q pair_dist n)%Q.
Proof.
  unfold EBC_spec, sum2Q.
  (* sum_x sum_y sum_s sum_t  ->  sum_s sum_t sum_x sum_y *)
  rewrite (sumQ_ext _ (fun x => sumQ (fun s => sumQ (fun y => sumQ (fun t =>
             frac (sigma_edge n G s t x y) (sigma n G s t)) n) n) n)) by (intros; apply sumQ_fubini).
  rewrite sumQ_fubini. apply sumQ_ext. intros s Hs.
  rewrite (sumQ_ext _ (fun x => sumQ (fun t => sumQ (fun y =>
             frac (sigma_edge n G s t x y) (sigma n G s t)) n) n)) by (intros; apply sumQ_fubini).
  rewrite sumQ_fubini. apply sumQ_ext. intros t Ht. apply pair_edges; assumption.
Qed.
End BinSums.

(* ---------- the finite enumeration is faithful to the unbounded walk relation ---------- *)
Lemma NoDup_walk_cand n p : NoDup p -> inb n p = true -> p <> [] -> In p (cands n).
Proof.
  intros Hnd Hi Hne. apply cands_In. split; [|exact Hi]. split.
  - destruct p; [congruence|cbn [length]; lia].
  - rewrite <- (seq_length n 0). apply NoDup_incl_length; [exact Hnd|].
    intros x Hx. apply in_seq. pose proof (proj1 (inb_In n p) Hi x Hx). lia.
Qed.

Lemma walk_to_cand n G s t : nonneg_len n G -> forall k q, (length q <= k)%nat -> wft n G s t q = true ->
  exists q', In q' (cands n) /\ wft n G s t q' = true /\ wlen G q' <= wlen G q.
Proof.
  intros HG. induction k as [|k IH]; intros q Hk Hw.
  - destruct q; [discriminate|cbn [length] in Hk; lia].
  - destruct (NoDup_dec Nat.eq_dec q) as [Hnd|Hnd].
    + exists q. split; [|split; [exact Hw|lia]]. pose proof (proj1 (wft_iff n G s t q) Hw) as (Hh & _ & Hi & _).
      apply NoDup_walk_cand; auto. intros ->. discriminate.
    + destruct (dup_split q Hnd) as (l1 & x & l2 & l3 & ->).
      destruct (cut_cycle n G s t l1 x l2 l3 HG Hw) as [Hw' Hlt].
      destruct (IH (l1 ++ x :: l3)) as (q' & H1 & H2 & H3); [|exact Hw'|].
      * rewrite !app_length in *. cbn [length] in *. rewrite app_length in Hk. cbn [length] in Hk. lia.
      * exists q'. split; [exact H1|split; [exact H2|lia]].
Qed.

Theorem spaths_spec n G s t p : nonneg_len n G -> (In p (spaths n G s t) <-> is_shortest n G s t p).
Proof.
  intros HG. unfold is_shortest, is_walk. split.
  - intros Hp. pose proof Hp as Hp'. apply spaths_In in Hp. destruct Hp as [Hw Hmin].
    apply walks_st_In in Hw. destruct Hw as [Hc Hw]. split; [exact Hw|]. intros q Hq.
    destruct (walk_to_cand n G s t HG (length q) q (le_n _) Hq) as (q' & H1 & H2 & H3).
    assert (In q' (walks_st n G s t)) by (apply walks_st_In; auto). specialize (Hmin q' H). lia.
  - intros [Hw Hmin].
    assert (Hnd : NoDup p).
    { destruct (NoDup_dec Nat.eq_dec p) as [Hnd|Hnd]; [exact Hnd|exfalso].
      destruct (dup_split p Hnd) as (l1 & x & l2 & l3 & ->).
      destruct (cut_cycle n G s t l1 x l2 l3 HG Hw) as [Hw' Hlt]. specialize (Hmin _ Hw'). lia. }
    pose proof (proj1 (wft_iff n G s t p) Hw) as (Hh & _ & Hi & _).
    assert (Hc : In p (cands n)) by (apply NoDup_walk_cand; auto; intros ->; discriminate).
    apply spaths_In. split; [apply walks_st_In; auto|].
    intros q Hq. apply walks_st_In in Hq. apply Hmin. tauto.
Qed.

Lemma spaths_nonempty n G s t : nonneg_len n G -> reachable n G s t -> spaths n G s t <> [].
Proof.
  intros HG [q Hq]. destruct (walk_to_cand n G s t HG (length q) q (le_n _) Hq) as (q' & H1 & H2 & _).
  assert (HW : In q' (walks_st n G s t)) by (apply walks_st_In; auto).
  (* a minimum exists in the finite nonempty list *)
  assert (Hex : forall W : list (list nat), W <> [] -> exists p, In p W /\ forall q, In q W -> wlen G p <= wlen G q).
  { clear. induction W as [|a W IH]; [congruence|]. intros _. destruct W as [|b W'].
    - exists a. split; [left; reflexivity|]. intros z [<-|[]]. lia.
    - destruct IH as (p & Hp & Hm); [discriminate|].
      destruct (Z_le_gt_dec (wlen G a) (wlen G p)).
      + exists a. split; [left; reflexivity|]. intros z [<-|Hz]; [lia|]. specialize (Hm z Hz). lia.
      + exists p. split; [right; exact Hp|]. intros z [<-|Hz]; [lia|]. apply Hm; exact Hz. }
  destruct (Hex (walks_st n G s t)) as (p & Hp & Hm); [intros E; rewrite E in HW; exact HW|].
  intros E. assert (In p (spaths n G s t)) by (apply spaths_In; auto). rewrite E in H. exact H.
Qed.

Theorem dist_spec_correct n G s t : nonneg_len n G ->
  match dist_spec n G s t with
  | Some d => is_dist n G s t d
  | None => ~ reachable n G s t
  end.
Proof.
  intros HG. unfold dist_spec. destruct (spaths n G s t) as [|p L] eqn:E.
  - intros Hr. exact (spaths_nonempty n G s t HG Hr E).
  - assert (Hp : In p (spaths n G s t)) by (rewrite E; left; reflexivity).
    apply (spaths_spec n G s t p HG) in Hp. destruct Hp as [Hw Hmin].
    split; [exists p; auto|exact Hmin].
Qed.
