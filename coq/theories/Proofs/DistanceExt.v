(* Proofs/DistanceExt.v — theorems about Model/DistanceExt.v:
   charpath for ALL flag combinations and inf / nan entries (the masking statements select exactly the cells a
   declarative filter describes; mean = nan / inf / exact mean); the legacy flag-filter model [charpath] of
   Model/Distance.v is the restriction of the statement-level model to nan-free matrices;
   efficiency.py's own copies of the distance loops return the entrywise inverse of the PROVEN distances
   (distance_bin, distance_wei), hence efficiency_bin / efficiency_wei computed from them, with np.sum over the
   whole matrix, are the mean inverse distance over the ordered pairs of distinct nodes. *)
From Coq Require Import QArith List Arith Bool ZArith Lia Lqa.
From BCT Require Import Base.Mat Base.ListX Model.Distance Model.DistanceExt
  Proofs.DistanceBase Proofs.DistanceFloyd Proofs.DistanceBin Proofs.DistanceOther Proofs.DistanceWei
  Proofs.DistanceFull Proofs.DistanceAgree.
Import ListNotations.
Open Scope Q_scope.

(* ====================== charpath ====================== *)
(* the cells that survive the masking statements, declaratively: on the diagonal only with include_diagonal,
   never a nan, an inf only with include_infinite *)
Definition cp_sel (dg inf : bool) (D : mat dval) (c : nat * nat) : bool :=
  ((dg || negb (Nat.eqb (fst c) (snd c))) && negb (vnan (D (fst c) (snd c))) &&
   (inf || negb (vinf (D (fst c) (snd c)))))%bool.
Definition cp_selected (n : nat) (D : mat dval) (dg inf : bool) : list dval :=
  map (fun c => D (fst c) (snd c)) (filter (cp_sel dg inf D) (cells n)).

Lemma cp_select_eq dg inf D : forall l,
  filter (fun v => negb (vnan v)) (map (fun c : nat * nat => cp_inf inf (cp_diag dg D) (fst c) (snd c)) l) =
  map (fun c => D (fst c) (snd c)) (filter (cp_sel dg inf D) l).
Proof.
  induction l as [|c l IH]; [reflexivity|]. cbn [map filter]. rewrite IH. unfold cp_sel, cp_inf, cp_diag.
  destruct dg, inf; cbn [orb andb negb];
    destruct (Nat.eqb (fst c) (snd c)); cbn [negb andb vinf vnan];
    destruct (D (fst c) (snd c)) eqn:Ed; cbn [vinf vnan negb andb map]; rewrite ?Ed; reflexivity.
Qed.

(* EVERY flag combination, EVERY matrix of nan / inf / finite entries *)
Theorem charpath_general n D dg inf :
  charpath_x n D dg inf = (vmean (cp_selected n D dg inf), vmean (map vrecip (cp_selected n D dg inf))).
Proof. unfold charpath_x, cp_select, cp_selected. cbv zeta. rewrite cp_select_eq. reflexivity. Qed.

(* what np.mean returns on the selected entries *)
Theorem vmean_spec l :
  (l = [] -> vmean l = ENaN) /\
  (l <> [] -> In VInf l -> vmean l = EInf) /\
  (l <> [] -> ~ In VInf l -> vmean l = EFin (meanQ (map vq l))).
Proof.
  split; [intros ->; reflexivity|]. split.
  - intros Hne Hin. destruct l as [|a r]; [congruence|]. unfold vmean.
    assert (E : existsb vinf (a :: r) = true) by (apply existsb_exists; exists VInf; split; [exact Hin|reflexivity]).
    rewrite E. reflexivity.
  - intros Hne Hin. destruct l as [|a r]; [congruence|]. unfold vmean.
    assert (E : existsb vinf (a :: r) = false).
    { destruct (existsb vinf (a :: r)) eqn:Eb; [|reflexivity]. exfalso. apply existsb_exists in Eb.
      destruct Eb as [v [Hv Hi]]. destruct v; try discriminate. exact (Hin Hv). }
    rewrite E. unfold meanQ. rewrite map_length. reflexivity.
Qed.

(* ---------- nan-free matrices: [len] entries ---------- *)
Definition dv (a : len) : dval := match a with Some x => VFin x | None => VInf end.
Definition oval (a : len) : Q := match a with Some x => x | None => 0 end.

Lemma cells_nil_or n : cells n = [] \/ cells n <> [].
Proof. destruct (cells n); [left; reflexivity|right; discriminate]. Qed.

Lemma legacy_E1 (Dv : list len) : existsb vinf (map dv Dv) = negb (forallb isfin Dv).
Proof.
  induction Dv as [|a r IH]; [reflexivity|]. cbn [map existsb forallb]. rewrite IH.
  destruct a; cbn [dv vinf isfin orb andb negb]; reflexivity.
Qed.
Lemma legacy_E2 (Dv : list len) : map vq (map dv Dv) = map (fun a => match a with Some x => x | None => 0 end) Dv.
Proof. rewrite map_map. apply map_ext. intros [x|]; reflexivity. Qed.
Lemma legacy_E3 (Dv : list len) : existsb vinf (map vrecip (map dv Dv)) = existsb (fun a => oeqb a (Some 0)) Dv.
Proof.
  induction Dv as [|a r IH]; [reflexivity|]. cbn [map existsb]. rewrite IH. f_equal.
  destruct a as [x|]; cbn [dv vrecip oeqb vinf]; [|reflexivity]. destruct (Qeq_bool x 0); reflexivity.
Qed.
Lemma legacy_E4 (Dv : list len) : existsb (fun a => oeqb a (Some 0)) Dv = false ->
  map vq (map vrecip (map dv Dv)) = map oinv Dv.
Proof.
  intros Hz. rewrite !map_map. apply map_ext_in. intros a Ha.
  destruct a as [x|]; cbn [dv vrecip vq oinv]; [|reflexivity].
  destruct (Qeq_bool x 0) eqn:Ex; [|reflexivity]. exfalso.
  assert (Hc : existsb (fun a => oeqb a (Some 0)) Dv = true)
    by (apply existsb_exists; exists (Some x); split; [exact Ha|exact Ex]).
  congruence.
Qed.

Lemma vmean_nonempty l : l <> [] ->
  vmean l = if existsb vinf l then EInf else EFin (qsum (map vq l) / nq (length l)).
Proof. destruct l; [congruence|reflexivity]. Qed.
Lemma vmean_dv (Dv : list len) : Dv <> [] ->
  vmean (map dv Dv) =
  if forallb isfin Dv then EFin (qsum (map (fun a => match a with Some x => x | None => 0 end) Dv) / nq (length Dv)) else EInf.
Proof.
  intros Hne. rewrite vmean_nonempty by (destruct Dv; [congruence|discriminate]).
  rewrite legacy_E1, legacy_E2, map_length. destruct (forallb isfin Dv); reflexivity.
Qed.
Lemma vmean_recip_dv (Dv : list len) : Dv <> [] ->
  vmean (map vrecip (map dv Dv)) =
  if existsb (fun a => oeqb a (Some 0)) Dv then EInf else EFin (qsum (map oinv Dv) / nq (length Dv)).
Proof.
  intros Hne. rewrite vmean_nonempty by (destruct Dv; [congruence|discriminate]).
  rewrite legacy_E3. destruct (existsb (fun a0 => oeqb a0 (Some 0)) Dv) eqn:Ez; [reflexivity|].
  rewrite (legacy_E4 _ Ez), !map_length. reflexivity.
Qed.

(* the legacy model of Model/Distance.v (a filter on the flags) is the statement-level model on nan-free input *)
Theorem charpath_legacy_agrees n (D : mat len) dg inf :
  charpath n D dg inf = charpath_x n (fun i j => dv (D i j)) dg inf.
Proof.
  rewrite charpath_general. unfold charpath, cp_selected.
  set (p := fun c : nat * nat => ((dg || negb (Nat.eqb (fst c) (snd c))) && (inf || isfin (D (fst c) (snd c))))%bool).
  assert (Ef : filter (cp_sel dg inf (fun i j => dv (D i j))) (cells n) = filter p (cells n)).
  { apply filter_ext. intros c. unfold cp_sel, p. destruct (D (fst c) (snd c)); cbn [dv vnan vinf negb isfin andb];
      rewrite ?andb_true_r; reflexivity. }
  rewrite Ef. set (cs := filter p (cells n)).
  rewrite <- (map_map (fun c : nat * nat => D (fst c) (snd c)) dv cs).
  set (Dv := map (fun c : nat * nat => D (fst c) (snd c)) cs).
  clearbody Dv. destruct Dv as [|a r]; [reflexivity|].
  rewrite vmean_dv, vmean_recip_dv by discriminate. reflexivity.
Qed.


Lemma filter_filter {A} (p q : A -> bool) l : filter p (filter q l) = filter (fun x => (q x && p x)%bool) l.
Proof.
  induction l as [|a l IH]; [reflexivity|]. cbn [filter]. destruct (q a); cbn [andb filter]; rewrite IH; reflexivity.
Qed.

Lemma existsb_map {A B} (f : A -> B) (p : B -> bool) l : existsb p (map f l) = existsb (fun x => p (f x)) l.
Proof. induction l as [|x l IH]; [reflexivity|]. cbn [map existsb]. rewrite IH. reflexivity. Qed.
Lemma forallb_map {A B} (f : A -> B) (p : B -> bool) l : forallb p (map f l) = forallb (fun x => p (f x)) l.
Proof. induction l as [|x l IH]; [reflexivity|]. cbn [map forallb]. rewrite IH. reflexivity. Qed.

Lemma finite_means (D : mat len) (fin : list (nat * nat)) :
  (forall c, In c fin -> isfin (D (fst c) (snd c)) = true) ->
  vmean (map (fun c => dv (D (fst c) (snd c))) fin) =
    match fin with [] => ENaN | _ => EFin (meanQ (map (fun c => oval (D (fst c) (snd c))) fin)) end /\
  vmean (map vrecip (map (fun c => dv (D (fst c) (snd c))) fin)) =
    match fin with
    | [] => ENaN
    | _ => if existsb (fun c => oeqb (D (fst c) (snd c)) (Some 0)) fin then EInf
           else EFin (meanQ (map (fun c => oinv (D (fst c) (snd c))) fin))
    end.
Proof.
  intros Hfin. destruct fin as [|c0 r0]; [split; reflexivity|]. cbv iota.
  remember (c0 :: r0) as l eqn:El. assert (Hne : l <> []) by (subst l; discriminate). clear El c0 r0.
  rewrite <- (map_map (fun c : nat * nat => D (fst c) (snd c)) dv l).
  assert (Hne' : map (fun c : nat * nat => D (fst c) (snd c)) l <> []) by (destruct l; [congruence|discriminate]).
  rewrite vmean_dv, vmean_recip_dv by exact Hne'.
  rewrite forallb_map, existsb_map.
  assert (Hall : forallb (fun x : nat * nat => isfin (D (fst x) (snd x))) l = true) by (apply forallb_forall; exact Hfin).
  rewrite Hall. unfold meanQ. rewrite !map_map, !map_length. split; [reflexivity|].
  destruct (existsb _ l); reflexivity.
Qed.

(* include_diagonal=False, include_infinite=False (the usual call on a disconnected graph): lambda is the mean over the
   ordered pairs of distinct nodes at FINITE distance (nan when there is none), efficiency the mean inverse over them *)
Theorem charpath_finite_pairs n (D : mat len) :
  let fin := filter (fun c => isfin (D (fst c) (snd c))) (offdiag n) in
  fst (charpath_x n (fun i j => dv (D i j)) false false) =
    match fin with [] => ENaN | _ => EFin (meanQ (map (fun c => oval (D (fst c) (snd c))) fin)) end /\
  snd (charpath_x n (fun i j => dv (D i j)) false false) =
    match fin with
    | [] => ENaN
    | _ => if existsb (fun c => oeqb (D (fst c) (snd c)) (Some 0)) fin then EInf
           else EFin (meanQ (map (fun c => oinv (D (fst c) (snd c))) fin))
    end.
Proof.
  cbv zeta. rewrite charpath_general. unfold cp_selected. cbn [fst snd].
  assert (Ec : filter (cp_sel false false (fun i j => dv (D i j))) (cells n) =
               filter (fun c => isfin (D (fst c) (snd c))) (offdiag n)).
  { unfold offdiag. rewrite filter_filter. apply filter_ext. intros c. unfold cp_sel.
    destruct (D (fst c) (snd c)); cbn [dv vnan vinf negb isfin orb andb]; rewrite ?andb_true_r, ?andb_false_r; reflexivity. }
  rewrite Ec. apply finite_means. intros c Hc. apply filter_In in Hc. exact (proj2 Hc).
Qed.

(* the default flags WITHOUT the hypothesis that every pair is finite: lambda is the mean, or inf as soon as one
   ordered pair of distinct nodes is at infinite distance *)
Theorem charpath_default_total n (D : mat len) : (2 <= n)%nat ->
  fst (charpath_x n (fun i j => dv (D i j)) false true) =
    (if forallb (fun c => isfin (D (fst c) (snd c))) (offdiag n)
     then EFin (meanQ (map (fun c => oval (D (fst c) (snd c))) (offdiag n))) else EInf) /\
  snd (charpath_x n (fun i j => dv (D i j)) false true) =
    (if existsb (fun c => oeqb (D (fst c) (snd c)) (Some 0)) (offdiag n) then EInf
     else EFin (meanQ (map (fun c => oinv (D (fst c) (snd c))) (offdiag n)))).
Proof.
  intros Hn. rewrite <- charpath_legacy_agrees, charpath_default. cbv zeta.
  assert (Hlen : length (offdiag n) <> 0%nat) by (rewrite offdiag_length; nia).
  set (Dv := map (fun c : nat * nat => D (fst c) (snd c)) (offdiag n)).
  destruct Dv as [|a r] eqn:E.
  { apply (f_equal (@length _)) in E. unfold Dv in E. rewrite map_length in E. cbn in E. congruence. }
  rewrite <- E. cbn [fst snd].
  assert (E1 : forallb isfin Dv = forallb (fun c => isfin (D (fst c) (snd c))) (offdiag n)).
  { unfold Dv. generalize (offdiag n). induction l as [|x l IH]; [reflexivity|]. cbn [map forallb]. rewrite IH. reflexivity. }
  assert (E2 : existsb (fun a => oeqb a (Some 0)) Dv = existsb (fun c => oeqb (D (fst c) (snd c)) (Some 0)) (offdiag n)).
  { unfold Dv. generalize (offdiag n). induction l as [|x l IH]; [reflexivity|]. cbn [map existsb]. rewrite IH. reflexivity. }
  rewrite E1, E2. unfold meanQ, Dv. rewrite !map_map, !map_length. split; reflexivity.
Qed.

(* ====================== sums ====================== *)
Definition ext_eq (a b : ext) : Prop :=
  match a, b with ENaN, ENaN => True | EInf, EInf => True | EFin x, EFin y => x == y | _, _ => False end.

Lemma fold_qplus_acc l : forall a, fold_left Qplus l a == a + fold_left Qplus l 0.
Proof.
  induction l as [|x l IH]; intros a; cbn [fold_left]; [ring|]. rewrite (IH (a + x)), (IH (0 + x)). ring.
Qed.
Lemma qsum_cons x l : qsum (x :: l) == x + qsum l.
Proof. unfold qsum. cbn [fold_left]. rewrite fold_qplus_acc. ring. Qed.

Lemma qsum_filter {A} (p : A -> bool) (f g : A -> Q) l :
  (forall x, In x l -> p x = false -> f x == 0) -> (forall x, In x l -> p x = true -> f x == g x) ->
  qsum (map f l) == qsum (map g (filter p l)).
Proof.
  induction l as [|a l IH]; intros H0 H1; [reflexivity|]. cbn [map filter]. rewrite qsum_cons.
  assert (IH' : qsum (map f l) == qsum (map g (filter p l))).
  { apply IH; [intros x Hx; apply H0; right; exact Hx|intros x Hx; apply H1; right; exact Hx]. }
  rewrite IH'. destruct (p a) eqn:Ea.
  - cbn [map]. rewrite qsum_cons, (H1 a (or_introl eq_refl) Ea). reflexivity.
  - rewrite (H0 a (or_introl eq_refl) Ea). ring.
Qed.

(* np.sum over the whole matrix of an array with zero diagonal / (n*n-n) = the mean over the ordered pairs *)
Lemma sum_over_pairs_mean_inv n (e : mat Q) (D : mat len) :
  (forall i j, e i j = if Nat.eqb i j then 0 else oinv (D i j)) ->
  ext_eq (sum_over_pairs n e) (mean_inv n D).
Proof.
  intros He. unfold sum_over_pairs, mean_inv. destruct (Nat.eqb (n * n - n) 0); [exact I|]. cbn [ext_eq].
  apply Qmult_comp; [|reflexivity]. unfold offdiag.
  apply (qsum_filter (fun c : nat * nat => negb (Nat.eqb (fst c) (snd c)))).
  - intros c _ Hc. rewrite He. destruct (Nat.eqb (fst c) (snd c)); [reflexivity|discriminate].
  - intros c _ Hc. rewrite He. destruct (Nat.eqb (fst c) (snd c)); [discriminate|reflexivity].
Qed.

(* ====================== efficiency_bin's own loop ====================== *)
Lemma dinv_loop_eq fuel : forall n g D d nP Lm, dinv_loop fuel n g D d nP Lm = dbin_loop fuel n g D d nP Lm.
Proof.
  induction fuel as [|f IH]; intros; cbn [dinv_loop dbin_loop]; [reflexivity|].
  destruct (anyb n Lm); [apply IH|reflexivity].
Qed.

(* distance_inv on the binarised matrix = entrywise inverse of distance_bin's result, zero diagonal *)
Theorem distance_inv_spec n A :
  match distance_inv n (tab 0%Z n n (bin A)), distance_bin n A with
  | Some E, Some D => forall i j, E i j = if Nat.eqb i j then 0 else oinv (olen_of_nat (D i j))
  | None, None => True
  | _, _ => False
  end.
Proof.
  unfold distance_inv, distance_bin, dbin_raw. cbv zeta. rewrite dinv_loop_eq.
  destruct (dbin_loop _ _ _ _ _ _ _) as [D|]; [|exact I].
  intros i j. destruct (Nat.eqb i j); [reflexivity|]. destruct (Nat.eqb (D i j) 0); reflexivity.
Qed.

Theorem efficiency_bin_x_spec n A e : efficiency_bin_x n A = Some e ->
  exists D, distance_bin n A = Some D /\ dist_correct n (Lbin A) (fun i j => olen_of_nat (D i j)) /\
    (exists e', efficiency_bin n A = Some e' /\ ext_eq e e') /\
    ((2 <= n)%nat -> ext_eq e (EFin (meanQ (map (fun c => oinv (olen_of_nat (D (fst c) (snd c)))) (offdiag n))))).
Proof.
  unfold efficiency_bin_x. pose proof (distance_inv_spec n A) as H.
  destruct (distance_inv n (tab 0%Z n n (bin A))) as [E|]; [|discriminate].
  destruct (distance_bin n A) as [D|] eqn:ED; [|contradiction].
  intros He. injection He as <-. exists D. split; [reflexivity|].
  split; [apply (distance_bin_correct n A D ED)|].
  pose proof (sum_over_pairs_mean_inv n E (fun i j => olen_of_nat (D i j)) H) as Hs.
  split.
  - exists (mean_inv n (fun i j => olen_of_nat (D i j))). split; [|exact Hs].
    unfold efficiency_bin. rewrite ED. reflexivity.
  - intros Hn. rewrite (mean_inv_spec n _ Hn) in Hs. exact Hs.
Qed.

Theorem efficiency_bin_x_total n A : exists e, efficiency_bin_x n A = Some e.
Proof.
  unfold efficiency_bin_x. pose proof (distance_inv_spec n A) as H.
  destruct (distance_bin_total n A) as [D ED]. rewrite ED in H.
  destruct (distance_inv n (tab 0%Z n n (bin A))) as [E|]; [eexists; reflexivity|contradiction].
Qed.

(* ====================== efficiency_wei's own loop ====================== *)
Section Dwi.
Variable n : nat.
Variable G : mat Q.

Lemma dinvw_relax_fst S DB v : dinvw_relax n G S (fst DB) v = fst (dw_relax n G S DB v).
Proof.
  unfold dinvw_relax, dw_relax. cbn [fst]. unfold tabv, to_list. f_equal. apply map_ext. intros w.
  unfold omin. destruct (S w), (negb (Qeq_bool (G v w) 0)); cbn [andb]; try reflexivity.
Qed.

Lemma dinvw_fold_fst S V : forall DB, fold_left (dinvw_relax n G S) V (fst DB) = fst (fold_left (dw_relax n G S) V DB).
Proof.
  induction V as [|v V IH]; intros DB; cbn [fold_left]; [reflexivity|]. rewrite dinvw_relax_fst. apply IH.
Qed.

Lemma dinvw_loop_fst fuel : forall S DB V,
  dinvw_loop fuel n G S (fst DB) V = option_map fst (dw_loop fuel n G S DB V).
Proof.
  induction fuel as [|f IH]; intros S DB V; cbn [dinvw_loop dw_loop]; [reflexivity|].
  rewrite dinvw_fold_fst.
  set (S1 := tabv false n (fun w => (S w && negb (nmem w V))%bool)).
  set (DB1 := fold_left (dw_relax n G S1) V DB).
  destruct (filter S1 (seq 0 n)) as [|t ts]; [reflexivity|].
  destruct (fold_left omin (map (fst DB1) (t :: ts)) None) as [m|]; [|reflexivity].
  apply IH.
Qed.

Lemma dinvw_row_fst u : dinvw_row n G u = option_map fst (dw_row n G u).
Proof. unfold dinvw_row, dw_row. apply (dinvw_loop_fst (n + 2) (fun _ => true) (vupd (fun _ => None) u (Some 0), fun _ => 0%nat) [u]). Qed.
End Dwi.

Lemma all_some_map_fst {A B} (l : list (option (A * B))) :
  all_some (map (option_map fst) l) = option_map (map fst) (all_some l).
Proof.
  induction l as [|a l IH]; [reflexivity|]. cbn [map all_some]. destruct a as [[x y]|]; cbn [option_map fst]; [|reflexivity].
  rewrite IH. destruct (all_some l); reflexivity.
Qed.

(* distance_inv_wei = entrywise inverse of distance_wei's D, zero diagonal *)
Theorem distance_inv_wei_spec n G :
  match distance_inv_wei n G, distance_wei n G with
  | Some E, Some (D, _) => forall i j, E i j = if Nat.eqb i j then 0 else oinv (D i j)
  | None, None => True
  | _, _ => False
  end.
Proof.
  unfold distance_inv_wei, distance_wei.
  assert (E : map (dinvw_row n G) (seq 0 n) = map (option_map fst) (map (dw_row n G) (seq 0 n))).
  { rewrite map_map. apply map_ext. intros u. apply dinvw_row_fst. }
  rewrite E, all_some_map_fst. destruct (all_some (map (dw_row n G) (seq 0 n))) as [rows|]; cbn [option_map]; [|exact I].
  intros i j. destruct (Nat.eqb i j); [reflexivity|].
  change (fun _ : nat => @None Q) with (fst (fun _ : nat => @None Q, fun _ : nat => 0%nat)).
  rewrite map_nth. reflexivity.
Qed.

Theorem efficiency_wei_x_spec n W e :
  (forall i j, (i < n)%nat -> (j < n)%nat -> 0 <= W i j) ->
  efficiency_wei_x n W = Some e ->
  exists D B, distance_wei n (invertQ W) = Some (D, B) /\ dist_correct n (Lg (invertQ W)) D /\
    (exists e', efficiency_wei n W = Some e' /\ ext_eq e e') /\
    ((2 <= n)%nat -> ext_eq e (EFin (meanQ (map (fun c => oinv (D (fst c) (snd c))) (offdiag n))))).
Proof.
  intros HW. unfold efficiency_wei_x. pose proof (distance_inv_wei_spec n (invertQ W)) as H.
  destruct (distance_inv_wei n (invertQ W)) as [E|]; [|discriminate].
  destruct (distance_wei n (invertQ W)) as [[D B]|] eqn:ED; [|contradiction].
  intros He. injection He as <-. exists D, B. split; [reflexivity|].
  assert (Hex : efficiency_wei n W = Some (mean_inv n D)) by (unfold efficiency_wei; rewrite ED; reflexivity).
  pose proof (sum_over_pairs_mean_inv n E D H) as Hs.
  split; [|split].
  - destruct (Nat.le_gt_cases 2 n) as [Hn|Hn].
    + destruct (efficiency_wei_correct n W (mean_inv n D) Hn HW Hex) as [D' [B' [E' [Hc _]]]].
      rewrite ED in E'. injection E' as <- <-. exact Hc.
    + intros i j Hi Hj Hne. lia.
  - exists (mean_inv n D). split; [exact Hex|exact Hs].
  - intros Hn. rewrite (mean_inv_spec n _ Hn) in Hs. exact Hs.
Qed.

Theorem efficiency_wei_x_total n W : exists e, efficiency_wei_x n W = Some e.
Proof.
  unfold efficiency_wei_x. pose proof (distance_inv_wei_spec n (invertQ W)) as H.
  destruct (distance_wei_total n (invertQ W)) as [[D B] ED]. rewrite ED in H.
  destruct (distance_inv_wei n (invertQ W)) as [E|]; [eexists; reflexivity|contradiction].
Qed.
