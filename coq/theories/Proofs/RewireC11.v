(* Proofs/RewireC11.v — run-level consequences of the guards. *)
From Coq Require Import ZArith List Arith Bool Lia QArith Permutation Relations.
From BCT Require Import Base.Mat Base.ListX Model.Rewire
     Proofs.RewireSwap Proofs.RewireInv Proofs.RewireRun Proofs.RewireConn Proofs.RewireGuards.
Import ListNotations.
Open Scope Z_scope.

(* generic: a matrix property protected by the routine's guard holds in the final state and in every event *)
Theorem run_routine_keeps r n R0 itr D s0 res (C : mat Z -> Prop) :
  run_routine r n R0 itr D s0 = Done res ->
  (is_und r = true -> forall x y, R0 x y = R0 y x) ->
  GuardSound (is_und r) n (v_guard (variant_of r n (match D with Some D' => D' | None => ring_dist n end))) C ->
  C (pre_matrix r n R0 (r_perm res)) ->
  C (r_rp res) /\ Forall (fun ev => C (sR (snd ev))) (r_trace res).
Proof.
  intros H Hpre GS HC0.
  destruct (run_routine_unfold _ _ _ _ _ _ _ H) as (s1 & st0 & k & stf & s2 & Pc & _ & Ei & _ & It & Erp & _ & _).
  set (R1 := pre_matrix r n R0 (r_perm res)) in *.
  set (v := variant_of r n (match D with Some D' => D' | None => ring_dist n end)) in *.
  destruct (run_init_inv r n R0 _ st0 k Hpre Ei) as [HI0 HR0]. fold R1 in HR0.
  destruct (Nat.eq_dec k 0) as [K0|K0].
  { subst k. rewrite iterate_k0 in It. injection It as E1 E2 E3. subst stf. rewrite <- E3, Erp, HR0.
    split; [exact HC0|apply Forall_nil]. }
  set (J := fun st : state => Inv (v_und v) n k st /\ C (sR st)).
  assert (Jstep: forall st s st' s' o, J st -> attempt v k st s = Some (st', s', o) -> J st').
  { intros st s st' s' o [A B] At. split.
    - apply (attempt_spec v n k st s st' s' o ltac:(lia) A At).
    - apply (attempt_keeps v n k st s st' s' o C ltac:(lia) GS A B At). }
  assert (J0: J st0) by (split; [exact HI0|rewrite HR0; exact HC0]).
  destruct (iterate_J v k J Jstep _ _ _ _ _ _ _ _ J0 (Forall_nil _) It) as [[_ B1] B2].
  split; [rewrite Erp; exact B1|].
  eapply Forall_impl; [|exact B2]. intros ev [_ X]. exact X.
Qed.

(* ---------- renumbering and connectivity ---------- *)
Section PermConn.
Variables (n : nat) (p : list nat).
Hypothesis Hp : Permutation p (seq 0 n).

Lemma connected_pre R0 : connected n R0 -> connected n (tab 0 n n (conj_perm (of_list O p) R0)).
Proof.
  intros HC x y Hx Hy.
  assert (G: forall u v, reach n R0 u v -> (u < n)%nat -> (v < n)%nat ->
             reach n (tab 0 n n (conj_perm (of_list O p) R0)) (index_of u p) (index_of v p)).
  { intros u v Hr. induction Hr as [u v (Hu & Hv & Hnz)| |u w v H1 IH1 H2 IH2]; intros Hu' Hv'.
    - apply reach_step. split; [apply (perm_index_lt n p Hp); exact Hu|]. split; [apply (perm_index_lt n p Hp); exact Hv|].
      rewrite tab_spec by (apply (perm_index_lt n p Hp); assumption). unfold conj_perm, of_list.
      rewrite !(perm_nth_index n p Hp); auto.
    - apply reach_refl.
    - assert (Hw: (w < n)%nat).
      { clear - H1 Hu'. induction H1 as [u w (A & B & _)| |]; auto. }
      eapply reach_trans; [apply IH1; auto|apply IH2; auto]. }
  specialize (G (nth x p O) (nth y p O) (HC _ _ (perm_nth_lt n p Hp x Hx) (perm_nth_lt n p Hp y Hy))
                (perm_nth_lt n p Hp x Hx) (perm_nth_lt n p Hp y Hy)).
  rewrite !(perm_index_nth n p Hp) in G; auto.
Qed.

Lemma connected_out Rf : connected n Rf -> connected n (fun x y => Rf (index_of x p) (index_of y p)).
Proof.
  intros HC x y Hx Hy.
  assert (G: forall u v, reach n Rf u v -> (u < n)%nat -> (v < n)%nat ->
             reach n (fun x y => Rf (index_of x p) (index_of y p)) (nth u p O) (nth v p O)).
  { intros u v Hr. induction Hr as [u v (Hu & Hv & Hnz)| |u w v H1 IH1 H2 IH2]; intros Hu' Hv'.
    - apply reach_step. split; [apply (perm_nth_lt n p Hp); exact Hu|]. split; [apply (perm_nth_lt n p Hp); exact Hv|].
      rewrite !(perm_index_nth n p Hp); auto.
    - apply reach_refl.
    - assert (Hw: (w < n)%nat).
      { clear - H1 Hu'. induction H1 as [u w (A & B & _)| |]; auto. }
      eapply reach_trans; [apply IH1; auto|apply IH2; auto]. }
  specialize (G (index_of x p) (index_of y p) (HC _ _ (perm_index_lt n p Hp x Hx) (perm_index_lt n p Hp y Hy))
                (perm_index_lt n p Hp x Hx) (perm_index_lt n p Hp y Hy)).
  rewrite !(perm_nth_index n p Hp) in G; auto.
Qed.
End PermConn.

Lemma guard_of_conn r n D : is_conn r = true ->
  GuardSound (is_und r) n (v_guard (variant_of r n D)) (ConnZ n).
Proof.
  intros Hc. unfold variant_of. cbn [v_guard]. rewrite Hc. apply GuardSound_andg_r.
  destruct (is_und r); [apply und_conn_GuardSound|apply dir_conn_GuardSound].
Qed.

(* connectivity of every state of a `_connected` run, given a connected (strongly connected) input with empty diagonal *)
Theorem run_connected r n R0 itr D s0 res :
  is_conn r = true ->
  run_routine r n R0 itr D s0 = Done res ->
  (is_und r = true -> forall x y, R0 x y = R0 y x) -> (forall x, R0 x x = 0) ->
  (is_latt r = true -> Permutation (r_perm res) (seq 0 n)) ->
  connected n R0 ->
  connected n (r_out res) /\ connected n (r_rp res) /\ Forall (fun ev => connected n (sR (snd ev))) (r_trace res).
Proof.
  intros Hc H Hs Hd Hperm HC.
  assert (C1: ConnZ n (pre_matrix r n R0 (r_perm res))).
  { unfold pre_matrix. destruct (is_latt r) eqn:L.
    - split; [apply connected_pre; auto|apply tab_diag0; unfold conj_perm; intros; apply Hd].
    - split; assumption. }
  destruct (run_routine_keeps r n R0 itr D s0 res (ConnZ n) H) as [[B1 _] B2]; auto.
  { apply guard_of_conn. exact Hc. }
  destruct (run_routine_out _ _ _ _ _ _ _ H) as [O0 O1].
  split; [|split; [exact B1|eapply Forall_impl; [|exact B2]; intros ev [X _]; exact X]].
  destruct (is_latt r) eqn:L.
  - destruct (O1 eq_refl) as [_ Eo]. rewrite Eo. apply connected_out; auto.
  - rewrite (O0 eq_refl). exact B1.
Qed.

(* lattice cost: never above the cost of the matrix latticisation started from, for the D in use *)
Theorem run_lattice_cost r n R0 itr D s0 res :
  is_latt r = true ->
  run_routine r n R0 itr D s0 = Done res ->
  (is_und r = true -> forall x y, R0 x y = R0 y x) ->
  let Dm := match D with Some D' => D' | None => ring_dist n end in
  (is_und r = true -> forall x y, Dm x y = Dm y x) ->
  let c0 := cost n Dm (pre_matrix r n R0 (r_perm res)) in
  cost n Dm (r_rp res) <= c0 /\ Forall (fun ev => cost n Dm (sR (snd ev)) <= c0) (r_trace res).
Proof.
  intros Hl H Hpre Dm HDs c0.
  apply (run_routine_keeps r n R0 itr D s0 res (fun R => cost n Dm R <= c0) H Hpre); [|unfold c0; lia].
  unfold variant_of. cbn [v_guard]. rewrite Hl. apply GuardSound_andg_l. fold Dm.
  destruct (is_und r) eqn:U; [apply lattice_GuardSound_und; auto|apply lattice_GuardSound_dir].
Qed.

Lemma ring_dist_sym n x y : ring_dist n x y = ring_dist n y x.
Proof. unfold ring_dist. rewrite Nat.min_comm. reflexivity. Qed.

(* generic, for randomize_graph_partial_und: a matrix property protected by the mask guard holds in every state *)
Theorem run_partial_keeps n A B maxswap s0 res (C : mat Z -> Prop) :
  run_partial_und n A B maxswap s0 = Done res ->
  (forall x y, A x y = A y x) ->
  GuardSound true n (mask_guard B) C -> C A ->
  C (r_out res) /\ Forall (fun ev => C (sR (snd ev))) (r_trace res).
Proof.
  intros H Hs GS M0.
  destruct (run_partial_unfold _ _ _ _ _ _ H) as (st0 & k & stf & s2 & Ei & Ek & It & Eo).
  assert (Es: st0 = fst (init_state ELtriu1 n A) /\ k = snd (init_state ELtriu1 n A)) by (rewrite Ei; auto).
  destruct Es as [Es Ekk].
  assert (HI0: Inv true n k st0) by (rewrite Es, Ekk; apply (init_inv ELtriu1 n A); intros _; exact Hs).
  assert (HR0: sR st0 = A) by (rewrite Es; reflexivity).
  destruct Ek as [Ek|Ek].
  2:{ subst maxswap. assert (It': Some (st0, s0, @nil event) = Some (stf, s2, r_trace res)).
      { rewrite <- It. destruct (length s0); reflexivity. }
      injection It' as E1 E2 E3. subst stf. rewrite <- E3, Eo, HR0. split; [exact M0|apply Forall_nil]. }
  set (v := mkvar true (mask_guard B)) in *.
  set (J := fun st : state => Inv true n k st /\ C (sR st)).
  assert (Jstep: forall st s st' s' o, J st -> attempt v k st s = Some (st', s', o) -> J st').
  { intros st s st' s' o [X Y] At. split.
    - apply (attempt_spec v n k st s st' s' o Ek X At).
    - apply (attempt_keeps v n k st s st' s' o C Ek GS X Y At). }
  assert (J0: J st0) by (split; [exact HI0|rewrite HR0; exact M0]).
  destruct (until_J v k J Jstep _ _ _ _ _ _ _ _ J0 (Forall_nil _) It) as [[_ B1] B2].
  split; [rewrite Eo; exact B1|]. eapply Forall_impl; [|exact B2]. intros ev [_ X]. exact X.
Qed.

(* mask: no connection is ever created where the (symmetric) mask is nonzero *)
Theorem run_partial_mask n A B maxswap s0 res :
  run_partial_und n A B maxswap s0 = Done res ->
  (forall x y, A x y = A y x) -> (forall x y, B x y = B y x) ->
  MaskOK A B (r_out res) /\ Forall (fun ev => MaskOK A B (sR (snd ev))) (r_trace res).
Proof.
  intros H Hs HBs. apply (run_partial_keeps n A B maxswap s0 res (MaskOK A B) H Hs (mask_GuardSound n A B HBs)).
  intros x y E N. contradiction.
Qed.
