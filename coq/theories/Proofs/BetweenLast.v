(* Proofs/BetweenLast.v — SPECIFICATION side of the path-counting argument: the enumeration of all minimum-length
   walks u -> t decomposes by the LAST connection,
       spaths(u,t)  ~  (t = u ? [[u]] : [])  ++  concat_{v : v->t tight} { q ++ [t] : q in spaths(u,v) }
   (a permutation of duplicate-free lists), hence the recurrences for sigma, sigma_through and sigma_edge. *)
From Coq Require Import QArith Lia List Arith Bool ZArith Permutation ListDec FinFun.
From BCT Require Import Base.Mat Base.SumQ Base.ListX Model.Between
  Proofs.BetweenAccum Proofs.BetweenReady Proofs.BetweenQueue Proofs.BetweenSpec Proofs.BetweenPaths Proofs.BetweenTight.
Import ListNotations.
Open Scope Z_scope.

(* ---------- the enumeration has no duplicates ---------- *)
Lemma lists_of_NoDup n k : NoDup (lists_of n k).
Proof.
  induction k as [|k IH]; cbn [lists_of].
  - constructor; [intros []|constructor].
  - apply NoDup_flat_map.
    + apply seq_NoDup.
    + intros a _. apply Injective_map_NoDup; [|exact IH]. intros x y E. inversion E. reflexivity.
    + intros x y z _ _ Hx Hy. apply in_map_iff in Hx. apply in_map_iff in Hy.
      destruct Hx as [p [<- _]], Hy as [q [E _]]. inversion E. reflexivity.
Qed.

Lemma cands_NoDup n : NoDup (cands n).
Proof.
  unfold cands. apply NoDup_flat_map.
  - apply seq_NoDup.
  - intros k _. apply lists_of_NoDup.
  - intros x y z _ _ Hx Hy. apply lists_of_In in Hx. apply lists_of_In in Hy. destruct Hx, Hy. congruence.
Qed.

Lemma spaths_NoDup n G s t : NoDup (spaths n G s t).
Proof. unfold spaths, walks_st. apply NoDup_filter, NoDup_filter, cands_NoDup. Qed.

(* ---------- distances read off a member ---------- *)
Lemma dist_spec_of_In n G s t p : In p (spaths n G s t) -> dist_spec n G s t = Some (wlen G p).
Proof.
  intros Hp. unfold dist_spec. destruct (spaths n G s t) as [|p0 L] eqn:E; [destruct Hp|].
  f_equal. apply (spaths_same_len n G s t); rewrite E; [left; reflexivity|exact Hp].
Qed.

Lemma dist_spec_nonneg n G s t d : nonneg_len n G -> dist_spec n G s t = Some d -> 0 <= d.
Proof.
  intros HG E. unfold dist_spec in E. destruct (spaths n G s t) as [|p L] eqn:Es; [discriminate|].
  inversion E; subst d. assert (Hp : In p (spaths n G s t)) by (rewrite Es; left; reflexivity).
  destruct (spaths_wft n G s t p Hp) as [Hw _]. apply wft_iff in Hw. destruct Hw as (Hh & _ & Hi & Ho).
  pose proof (wlen_ge n G p HG Hi Ho). destruct p; [discriminate|cbn [length] in *; lia].
Qed.

Lemma single_shortest n G u : nonneg_len n G -> (u < n)%nat -> In [u] (spaths n G u u).
Proof.
  intros HG Hu. apply (spaths_spec n G u u [u] HG). split.
  - unfold is_walk, wft. cbn [last inb forallb chain]. rewrite Nat.eqb_refl, (proj2 (Nat.ltb_lt u n) Hu). reflexivity.
  - intros q Hq. apply wft_iff in Hq. destruct Hq as (Hh & _ & Hi & Ho).
    pose proof (wlen_ge n G q HG Hi Ho). destruct q; [discriminate|cbn [length wlen clen] in *; lia].
Qed.

Lemma dist_self n G u : nonneg_len n G -> (u < n)%nat -> dist_spec n G u u = Some 0.
Proof. intros HG Hu. rewrite (dist_spec_of_In n G u u [u] (single_shortest n G u HG Hu)). reflexivity. Qed.

(* no tight connection enters the source *)
Lemma tightb_source n G u v : nonneg_len n G -> (u < n)%nat -> (v < n)%nat -> tightb n G u v u = false.
Proof.
  intros HG Hu Hv. destruct (tightb n G u v u) eqn:E; [exfalso|reflexivity].
  apply tightb_true in E. destruct E as [He (dv & E1 & E2)].
  rewrite (dist_self n G u HG Hu) in E2. inversion E2.
  pose proof (dist_spec_nonneg n G u v dv HG E1). unfold edge in He. apply negb_true_iff, Z.eqb_neq in He.
  specialize (HG v u Hv Hu). lia.
Qed.

(* a tight connection strictly increases the distance *)
Lemma tightb_incr n G u v w : nonneg_len n G -> (v < n)%nat -> (w < n)%nat -> tightb n G u v w = true ->
  exists dv dw, dist_spec n G u v = Some dv /\ dist_spec n G u w = Some dw /\ 0 <= dv < dw.
Proof.
  intros HG Hv Hw E. apply tightb_true in E. destruct E as [He (dv & E1 & E2)].
  exists dv, (dv + G v w). split; [exact E1|]. split; [exact E2|].
  pose proof (dist_spec_nonneg n G u v dv HG E1). unfold edge in He. apply negb_true_iff, Z.eqb_neq in He.
  specialize (HG v w Hv Hw). lia.
Qed.

(* ---------- last-connection decomposition: membership ---------- *)
Lemma snoc_shortest n G u v t q : nonneg_len n G -> (t < n)%nat ->
  In q (spaths n G u v) -> tightb n G u v t = true -> In (q ++ [t]) (spaths n G u t).
Proof.
  intros HG Ht Hq E. apply tightb_true in E. destruct E as [He (dv & E1 & E2)].
  rewrite (dist_spec_of_In n G u v q Hq) in E1. inversion E1; subst dv.
  destruct (spaths_wft n G u v q Hq) as [Hw _].
  unfold edge in He. apply negb_true_iff, Z.eqb_neq in He.
  destruct (walk_snoc n G u v t q Hw Ht He) as [H1 H2].
  apply (spaths_spec n G u t _ HG). split; [exact H1|]. intros p Hp.
  pose proof (dist_spec_correct n G u t HG) as Hd. rewrite E2 in Hd. destruct Hd as [_ Hmin].
  rewrite H2. apply Hmin. exact Hp.
Qed.

Lemma shortest_last n G u t p : nonneg_len n G -> In p (spaths n G u t) ->
  (p = [u] /\ t = u) \/
  (exists q v, p = q ++ [t] /\ (v < n)%nat /\ In q (spaths n G u v) /\ tightb n G u v t = true).
Proof.
  intros HG Hp. pose proof Hp as Hp0. apply (spaths_spec n G u t p HG) in Hp. destruct Hp as [Hw Hmin].
  unfold is_walk in Hw. pose proof Hw as Hw0. apply wft_iff in Hw. destruct Hw as (Hh & Hl & Hi & Ho).
  assert (Hne : p <> []) by (intros ->; discriminate).
  destruct (exists_last Hne) as [q [z Ep]]. subst p. rewrite last_last in Hl. subst z.
  destruct q as [|a q0].
  - left. cbn [app hd_error] in Hh. inversion Hh. subst. auto.
  - right. assert (Hne' : a :: q0 <> []) by discriminate.
    destruct (exists_last Hne') as [q' [v Eq]]. rewrite Eq in *. clear Eq Hne'.
    rewrite <- app_assoc in Ho. rewrite <- app_assoc in Hi. rewrite <- app_assoc in Hh.
    rewrite <- app_assoc in Hw0. rewrite <- app_assoc in Hp0.
    assert (Hmin' : forall q, is_walk n G u t q -> wlen G (q' ++ [v; t]) <= wlen G q).
    { intros q Hq. specialize (Hmin q Hq). rewrite <- app_assoc in Hmin. exact Hmin. }
    clear Hmin. cbn [app] in Ho, Hi, Hw0, Hp0, Hh.
    rewrite okl_app in Ho. apply andb_true_iff in Ho. destruct Ho as [Ho1 Ho2].
    cbn [okl chain] in Ho2. rewrite andb_true_r in Ho2.
    rewrite inb_app in Hi. apply andb_true_iff in Hi. destruct Hi as [Hi1 Hi2].
    cbn [inb forallb] in Hi2. apply andb_true_iff in Hi2. destruct Hi2 as [Hvn Hi2].
    apply andb_true_iff in Hi2. destruct Hi2 as [Htn _]. apply Nat.ltb_lt in Hvn. apply Nat.ltb_lt in Htn.
    assert (Hq : wft n G u v (q' ++ [v]) = true).
    { apply wft_iff. split; [|split; [|split]].
      - destruct q'; cbn [app hd_error] in *; exact Hh.
      - apply last_last.
      - rewrite inb_app, Hi1. cbn [inb forallb]. rewrite (proj2 (Nat.ltb_lt v n) Hvn). reflexivity.
      - exact Ho1. }
    assert (Hg : G v t <> 0) by (unfold edge in Ho2; apply negb_true_iff, Z.eqb_neq in Ho2; exact Ho2).
    assert (Hlen : wlen G (q' ++ [v; t]) = wlen G (q' ++ [v]) + G v t).
    { change (q' ++ [v; t]) with (q' ++ v :: [t]). rewrite wlen_app. cbn [wlen clen]. lia. }
    assert (Hqs : In (q' ++ [v]) (spaths n G u v)).
    { apply (spaths_spec n G u v _ HG). split; [exact Hq|]. intros q2 Hq2.
      destruct (walk_snoc n G u v t q2 Hq2 Htn Hg) as [H1 H2]. specialize (Hmin' _ H1). lia. }
    exists (q' ++ [v]), v. split; [rewrite <- app_assoc; reflexivity|]. split; [exact Hvn|]. split; [exact Hqs|].
    apply tightb_true. split; [exact Ho2|]. exists (wlen G (q' ++ [v])). split.
    + apply dist_spec_of_In. exact Hqs.
    + rewrite (dist_spec_of_In n G u t _ Hp0), Hlen. reflexivity.
Qed.

Definition snoc (t : nat) (q : list nat) : list nat := q ++ [t].
Definition lastdec (n : nat) (G : mat Z) (u t : nat) : list (list nat) :=
  (if Nat.eqb t u then [[u]] else []) ++
  flat_map (fun v => if tightb n G u v t then map (snoc t) (spaths n G u v) else []) (seq 0 n).

Lemma spaths_last_elem n G u v q : In q (spaths n G u v) -> q <> [] /\ last q u = v.
Proof.
  intros Hq. destruct (spaths_wft n G u v q Hq) as [Hw _]. apply wft_iff in Hw.
  destruct Hw as (Hh & Hl & _). split; [intros ->; discriminate|exact Hl].
Qed.

Lemma lastdec_flat_In n G u t p :
  In p (flat_map (fun v => if tightb n G u v t then map (snoc t) (spaths n G u v) else []) (seq 0 n)) <->
  exists q v, p = q ++ [t] /\ (v < n)%nat /\ In q (spaths n G u v) /\ tightb n G u v t = true.
Proof.
  rewrite in_flat_map. split.
  - intros [v [Hv Hp]]. apply in_seq in Hv. destruct (tightb n G u v t) eqn:E; [|destruct Hp].
    apply in_map_iff in Hp. destruct Hp as [q [<- Hq]]. exists q, v. unfold snoc. repeat split; auto. lia.
  - intros (q & v & -> & Hv & Hq & E). exists v. split; [apply in_seq; lia|]. rewrite E.
    apply in_map_iff. exists q. auto.
Qed.

Lemma spaths_last_perm n G u t : nonneg_len n G -> (u < n)%nat -> (t < n)%nat ->
  Permutation (spaths n G u t) (lastdec n G u t).
Proof.
  intros HG Hu Ht. apply NoDup_Permutation.
  - apply spaths_NoDup.
  - unfold lastdec. apply NoDup_app_intro.
    + destruct (Nat.eqb t u); constructor; [intros []|constructor].
    + apply NoDup_flat_map.
      * apply seq_NoDup.
      * intros v _. destruct (tightb n G u v t); [|constructor].
        apply Injective_map_NoDup; [|apply spaths_NoDup]. intros x y E. unfold snoc in E.
        apply app_inj_tail in E. tauto.
      * intros x y z _ _ Hx Hy. destruct (tightb n G u x t); [|destruct Hx]. destruct (tightb n G u y t); [|destruct Hy].
        apply in_map_iff in Hx. apply in_map_iff in Hy. destruct Hx as [q1 [<- Hq1]], Hy as [q2 [E Hq2]].
        unfold snoc in E. apply app_inj_tail in E. destruct E as [-> _].
        destruct (spaths_last_elem n G u x q1 Hq1) as [_ <-]. destruct (spaths_last_elem n G u y q1 Hq2) as [_ <-]. reflexivity.
    + intros z Hz Hz'. apply lastdec_flat_In in Hz'. destruct Hz' as (q & v & -> & _ & Hq & _).
      destruct (Nat.eqb t u); [|destruct Hz]. destruct Hz as [E|[]].
      destruct (spaths_last_elem n G u v q Hq) as [Hne _]. destruct q; [congruence|]. destruct q; discriminate.
  - intros p. unfold lastdec. rewrite in_app_iff, lastdec_flat_In. split.
    + intros Hp. destruct (shortest_last n G u t p HG Hp) as [[-> ->]|H]; [|right; exact H].
      left. rewrite Nat.eqb_refl. left; reflexivity.
    + intros [Hp|(q & v & -> & Hv & Hq & E)].
      * destruct (Nat.eqb_spec t u) as [->|]; [|destruct Hp]. destruct Hp as [<-|[]]. apply single_shortest; assumption.
      * apply (snoc_shortest n G u v t q HG Ht Hq E).
Qed.

(* ---------- counting over the decomposition ---------- *)
Lemma zlen_filter_lsum {A} (f : A -> bool) l : zlen (filter f l) = lsumZ (fun p => b2z (f p)) l.
Proof. induction l as [|a l IH]; [reflexivity|]. rewrite zlen_filter_cons, IH. reflexivity. Qed.
Lemma lsumZ_perm {A} (g : A -> Z) l l' : Permutation l l' -> lsumZ g l = lsumZ g l'.
Proof. induction 1; cbn [lsumZ]; lia. Qed.
Lemma lsumZ_app {A} (g : A -> Z) l1 l2 : lsumZ g (l1 ++ l2) = lsumZ g l1 + lsumZ g l2.
Proof. induction l1 as [|a l1 IH]; cbn [app lsumZ]; lia. Qed.
Lemma lsumZ_map {A B} (g : B -> Z) (h : A -> B) l : lsumZ g (map h l) = lsumZ (fun a => g (h a)) l.
Proof. induction l as [|a l IH]; cbn [map lsumZ]; lia. Qed.
Lemma lsumZ_flat_seq {B} (g : B -> Z) (F : nat -> list B) n :
  lsumZ g (flat_map F (seq 0 n)) = sumn (fun v => lsumZ g (F v)) n.
Proof.
  induction n as [|n IH]; [reflexivity|]. rewrite seq_S, flat_map_app, lsumZ_app, IH. cbn [plus flat_map sumn].
  rewrite app_nil_r. reflexivity.
Qed.
Lemma lsumZ_ext_in {A} (g h : A -> Z) l : (forall a, In a l -> g a = h a) -> lsumZ g l = lsumZ h l.
Proof.
  induction l as [|a l IH]; intros H; cbn [lsumZ]; [reflexivity|].
  rewrite (H a (or_introl eq_refl)), IH; [reflexivity|]. intros b Hb. apply H. right; exact Hb.
Qed.

(* the count of minimum-length walks u -> t with property f, by their last connection *)
Lemma count_last n G u t (f : list nat -> bool) : nonneg_len n G -> (u < n)%nat -> (t < n)%nat ->
  zlen (filter f (spaths n G u t)) =
  (if Nat.eqb t u then b2z (f [u]) else 0) +
  sumn (fun v => if tightb n G u v t then lsumZ (fun q => b2z (f (q ++ [t]))) (spaths n G u v) else 0) n.
Proof.
  intros HG Hu Ht. rewrite zlen_filter_lsum, (lsumZ_perm _ _ _ (spaths_last_perm n G u t HG Hu Ht)).
  unfold lastdec. rewrite lsumZ_app, lsumZ_flat_seq. f_equal.
  - destruct (Nat.eqb t u); cbn [lsumZ]; lia.
  - apply sumn_ext. intros v _. destruct (tightb n G u v t); [|reflexivity]. rewrite lsumZ_map. reflexivity.
Qed.

Lemma lsumZ_one {A} (l : list A) : lsumZ (fun _ => 1) l = zlen l.
Proof. unfold zlen. induction l as [|a l IH]; cbn [lsumZ length]; lia. Qed.

(* (S1) sigma *)
Theorem sigma_last n G u t : nonneg_len n G -> (u < n)%nat -> (t < n)%nat ->
  sigma n G u t = (if Nat.eqb t u then 1 else 0) + sumn (fun v => if tightb n G u v t then sigma n G u v else 0) n.
Proof.
  intros HG Hu Ht. unfold sigma.
  assert (E : forall l : list (list nat), zlen l = zlen (filter (fun _ => true) l)).
  { intros l. rewrite zlen_filter_lsum. symmetry. apply lsumZ_one. }
  rewrite (E (spaths n G u t)), (count_last n G u t _ HG Hu Ht). cbn [b2z]. f_equal.
  apply sumn_ext. intros v _. destruct (tightb n G u v t); [|reflexivity]. apply lsumZ_one.
Qed.

Lemma nmem_snoc w q t : nmem w (q ++ [t]) = nmem w q || Nat.eqb w t.
Proof. unfold nmem. rewrite existsb_app. cbn [existsb]. rewrite orb_false_r. reflexivity. Qed.

(* (S2) walks through a node w *)
Theorem through_self n G u t : sigma_through n G u t t = sigma n G u t.
Proof.
  unfold sigma_through, sigma. rewrite zlen_filter_lsum, <- lsumZ_one. apply lsumZ_ext_in. intros p Hp.
  assert (nmem t p = true) as ->; [|reflexivity].
  destruct (spaths_wft n G u t p Hp) as [Hw _]. apply wft_iff in Hw. destruct Hw as (Hh & Hl & _).
  apply nmem_In. destruct (hd_last_In p u Hh) as [_ H]. rewrite Hl in H. exact H.
Qed.

Theorem through_last n G u t w : nonneg_len n G -> (u < n)%nat -> (t < n)%nat -> w <> t ->
  sigma_through n G u t w = sumn (fun v => if tightb n G u v t then sigma_through n G u v w else 0) n.
Proof.
  intros HG Hu Ht Hwt. unfold sigma_through. rewrite (count_last n G u t _ HG Hu Ht).
  assert (E0 : (if Nat.eqb t u then b2z (nmem w [u]) else 0) = 0).
  { destruct (Nat.eqb_spec t u) as [->|]; [|reflexivity]. cbn [nmem existsb].
    destruct (Nat.eqb_spec w u); [contradiction|reflexivity]. }
  rewrite E0, Z.add_0_l. apply sumn_ext. intros v _. destruct (tightb n G u v t); [|reflexivity].
  rewrite zlen_filter_lsum. apply lsumZ_ext_in. intros q _. rewrite nmem_snoc.
  destruct (Nat.eqb_spec w t); [contradiction|]. rewrite orb_false_r. reflexivity.
Qed.

(* (S3) walks over a connection x -> y *)
Lemma chain_has_snoc x y t : forall r a,
  chain_has x y a (r ++ [t]) = chain_has x y a r || (Nat.eqb (last (a :: r) a) x && Nat.eqb t y).
Proof.
  induction r as [|b r IH]; intros a.
  - cbn [app chain_has last]. rewrite orb_false_r. reflexivity.
  - cbn [app chain_has]. rewrite IH, orb_assoc.
    change (last (a :: b :: r) a) with (last (b :: r) a). rewrite (last_default_irrel r b a). reflexivity.
Qed.

Lemma has_edge_snoc x y t q u v : q <> [] -> last q u = v ->
  has_edge x y (q ++ [t]) = has_edge x y q || (Nat.eqb v x && Nat.eqb t y).
Proof.
  intros Hne Hl. destruct q as [|a r]; [congruence|]. cbn [app has_edge]. rewrite chain_has_snoc.
  rewrite (last_default_irrel r a u) in Hl. rewrite Hl. reflexivity.
Qed.

Theorem edge_last n G u t x y : nonneg_len n G -> (u < n)%nat -> (t < n)%nat ->
  sigma_edge n G u t x y =
  sumn (fun v => if tightb n G u v t then
                   (if Nat.eqb v x && Nat.eqb t y then sigma n G u v else sigma_edge n G u v x y) else 0) n.
Proof.
  intros HG Hu Ht. unfold sigma_edge. rewrite (count_last n G u t _ HG Hu Ht).
  assert (E0 : (if Nat.eqb t u then b2z (has_edge x y [u]) else 0) = 0) by (destruct (Nat.eqb t u); reflexivity).
  rewrite E0, Z.add_0_l. apply sumn_ext. intros v _. destruct (tightb n G u v t); [|reflexivity].
  destruct (Nat.eqb v x && Nat.eqb t y) eqn:Eb.
  - unfold sigma. rewrite <- lsumZ_one. apply lsumZ_ext_in. intros q Hq.
    destruct (spaths_last_elem n G u v q Hq) as [Hne Hl].
    rewrite (has_edge_snoc x y t q u v Hne Hl), Eb, orb_true_r. reflexivity.
  - rewrite zlen_filter_lsum. apply lsumZ_ext_in. intros q Hq.
    destruct (spaths_last_elem n G u v q Hq) as [Hne Hl].
    rewrite (has_edge_snoc x y t q u v Hne Hl), Eb, orb_false_r. reflexivity.
Qed.
