(* Proofs/ReduceTotal.v — C10: the distance / efficiency reductions WITHOUT the "if both runs return" hypothesis.
   The fuelled loops of Model/Distance.v always return (totality: Proofs/DistanceFull.v, Proofs/DistanceAgree.v,
   C03), hence on every 0/1 matrix both routines return and their results agree. *)
From Coq Require Import QArith List Arith Bool ZArith Lia Lqa.
From BCT Require Import Base.Mat Base.SumQ Base.ListX Model.Threshold Model.Distance Model.Clustering Model.EfficiencyLocal
  Proofs.ClusteringSpec Proofs.DistanceBase Proofs.DistanceBin Proofs.DistanceOther Proofs.DistanceFull Proofs.DistanceBFS
  Proofs.DistanceAgree Proofs.ReduceDistance Proofs.ReduceEfficiencyLocal.
Import ListNotations.
Open Scope Q_scope.

Theorem distance_wei_bin_total n A W : rel01 n A W ->
  exists D B D', distance_wei n W = Some (D, B) /\ distance_bin n A = Some D' /\
    forall i j, (i < n)%nat -> (j < n)%nat ->
      oeq (D i j) (olen_of_nat (D' i j)) /\ (forall k, D' i j = Some k -> B i j = k).
Proof.
  intros H. destruct (distance_wei_total n W) as [[D B] Ew]. destruct (distance_bin_total n A) as [D' Eb].
  exists D, B, D'. split; [exact Ew|]. split; [exact Eb|]. exact (distance_wei_bin_eq_bin n A W D B D' H Ew Eb).
Qed.

Theorem efficiency_wei_bin_total n A W : rel01 n A W ->
  exists ew eb, efficiency_wei n W = Some ew /\ efficiency_bin n A = Some eb /\ ext_eq ew eb.
Proof.
  intros H. destruct (efficiency_wei_total n W) as [ew Ew]. destruct (efficiency_bin_total n A) as [eb Eb].
  exists ew, eb. split; [exact Ew|]. split; [exact Eb|]. exact (efficiency_wei_bin_eq_bin n A W ew eb H Ew Eb).
Qed.

Lemma all_some_length {T} (l : list (option T)) r : all_some l = Some r -> length r = length l.
Proof.
  revert r. induction l as [|a l IH]; intros r H; cbn [all_some] in H.
  - injection H as <-. reflexivity.
  - destruct a as [x|]; [|discriminate]. destruct (all_some l) as [r'|]; [|discriminate].
    injection H as <-. cbn [length]. rewrite (IH r' eq_refl). reflexivity.
Qed.

Theorem efficiency_local_wei_bin_total cbrt n A W :
  rel01 n A W -> cbrt_ok cbrt n W -> cbrt_ok cbrt n (invertQ W) ->
  exists lw lb, efficiency_wei_local cbrt n W = Some lw /\ efficiency_bin_local n A = Some lb /\
    length lw = n /\ length lb = n /\ forall u, (u < n)%nat -> nth u lw 0 == nth u lb 0.
Proof.
  intros H Hc Hci.
  assert (Tw : exists lw, efficiency_wei_local cbrt n W = Some lw).
  { unfold efficiency_wei_local. apply all_some_total. intros u _. unfold eloc_wei_node. cbv zeta.
    destruct (distance_wei_total (length (filter (fun v => (qnzb (W u v) || qnzb (W v u))%bool) (seq 0 n)))
                (subm (filter (fun v => (qnzb (W u v) || qnzb (W v u))%bool) (seq 0 n)) (tab 0 n n (mmap cbrt (invertQ W)))))
      as [[D B] ->]. eexists; reflexivity. }
  assert (Tb : exists lb, efficiency_bin_local n A = Some lb).
  { unfold efficiency_bin_local. cbv zeta. apply all_some_total. intros u _. unfold eloc_bin_node. cbv zeta.
    set (G := tab 0%Z n n (bin A)).
    destruct (distance_bin_total (length (filter (fun v => (znz (G u v) || znz (G v u))%bool) (seq 0 n)))
                (subm (filter (fun v => (znz (G u v) || znz (G v u))%bool) (seq 0 n)) G)) as [D ->].
    eexists; reflexivity. }
  destruct Tw as [lw Ew]. destruct Tb as [lb Eb]. exists lw, lb.
  split; [exact Ew|]. split; [exact Eb|].
  split; [|split].
  - unfold efficiency_wei_local in Ew. apply all_some_length in Ew. rewrite map_length, seq_length in Ew. exact Ew.
  - unfold efficiency_bin_local in Eb. cbv zeta in Eb. apply all_some_length in Eb. rewrite map_length, seq_length in Eb. exact Eb.
  - exact (efficiency_local_wei_bin_eq_bin cbrt n A W lw lb H Hc Hci Ew Eb).
Qed.
