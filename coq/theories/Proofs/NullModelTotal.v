(* Proofs/NullModelTotal.v — totality: for well-shaped oracles (every argsort result and every permutation draw is a
   permutation of the right length, enough of them, enough randint draws) the null model RETURNS;
   and the domain of the period: every wei_freq in (0, 1] yields a period >= 1. *)
From Coq Require Import ZArith QArith Qround List Arith Lia Lqa Bool Permutation.
From BCT Require Import Base.Mat Base.ListX Model.Signed Model.NullModel Proofs.Signed Proofs.NullModelLists
  Proofs.NullModel Proofs.NullModelTop.
Import ListNotations.
Open Scope Z_scope.

(* ---------- the dealing loop cannot fail on well-shaped oracles ---------- *)
Lemma deal_loop_total n fuel : forall period m s L V W0 ords perms o' p',
  length L = m -> length V = m ->
  oracles_ok fuel period m ords perms = Some (o', p') ->
  exists W', deal_loop n fuel period m s L V W0 ords perms = Some (W', o', p').
Proof.
  induction fuel as [|f IH]; intros period m s L V W0 ords perms o' p' HL HV; cbn [deal_loop oracles_ok];
    destruct (Nat.eqb m 0) eqn:Em.
  - intros H. injection H as <- <-. eexists; reflexivity.
  - discriminate.
  - intros H. injection H as <- <-. eexists; reflexivity.
  - destruct ords as [|Oi ords']; [discriminate|]. destruct perms as [|P perms']; [discriminate|].
    rewrite HL. destruct (check_perm m Oi) eqn:Ec1; [|discriminate].
    destruct (check_perm m P) eqn:Ec2; [|discriminate]. cbn [andb].
    destruct (check_perm_spec _ _ Ec1) as (HOlen & HOlt & HOnd).
    destruct (check_perm_spec _ _ Ec2) as (HPlen & HPlt & HPnd).
    set (R := firstn (Nat.min m period) P).
    assert (HndR : NoDup R) by (apply NoDup_firstn; exact HPnd).
    assert (HltR : forall r, In r R -> (r < m)%nat) by (intros r Hr; apply HPlt; apply (In_firstn _ _ _ Hr)).
    assert (HlenR : length R = Nat.min m period) by (unfold R; rewrite firstn_length, HPlen; lia).
    set (idx := map (fun r => nth r Oi 0%nat) R).
    assert (HndI : NoDup idx).
    { apply NoDup_map_nth; auto. intros r Hr. rewrite HOlen. apply HltR. exact Hr. }
    assert (HltI : forall i, In i idx -> (i < length L)%nat).
    { intros i Hi. apply in_map_iff in Hi. destruct Hi as [r [<- Hr]]. rewrite HL. apply HOlt.
      apply nth_In. rewrite HOlen. apply HltR. exact Hr. }
    assert (HltV : forall r, In r R -> (r < length V)%nat) by (intros r Hr; rewrite HV; auto).
    pose proof (delete_length (0, 0)%nat idx L HndI HltI) as LL.
    pose proof (delete_length 0 R V HndR HltV) as LV.
    unfold idx in LL. rewrite map_length in LL.
    unfold deal_period. cbv beta iota zeta. intros H.
    apply (IH period (m - period)%nat); [| |exact H].
    + fold R. unfold cell in *. lia.
    + fold R. lia.
Qed.

Lemma sortZ_length l : length (sortZ l) = length l.
Proof. apply Permutation_length. apply sortZ_perm. Qed.

Lemma deal_sign_total und n per s Wc Wr W0 ords perms o' p' :
  length (supp und n s Wr) = length (supp und n s Wc) ->
  oracles_ok_sign per (length (supp und n s Wc)) ords perms = Some (o', p') ->
  exists W', deal_sign und n per s Wc Wr W0 ords perms = Some (W', o', p').
Proof.
  intros Hlen. unfold deal_sign, oracles_ok_sign.
  set (V := sortZ (map (fun c => s * at_ Wc c) (supp und n s Wc))).
  assert (HV : length V = length (supp und n s Wc)) by (unfold V; rewrite sortZ_length, map_length; reflexivity).
  destruct (Nat.eqb per 0).
  - destruct ords as [|Oi ords']; [discriminate|].
    rewrite Hlen. destruct (check_perm (length (supp und n s Wc)) Oi); [|discriminate].
    intros H. injection H as <- <-. rewrite HV, Nat.eqb_refl. cbn [andb].
    unfold deal_period. cbv beta iota zeta. eexists; reflexivity.
  - rewrite HV. intros H. apply (deal_loop_total n _ per _ s _ V W0 ords perms o' p'); auto.
Qed.

(* ---------- the whole routine ---------- *)
Theorem null_model_total und n W close bs wf pf ints ords perms per o1 p1 o2 p2 :
  let Wc := tab 0 n n (clear_diag W) in                  (* W with the diagonal cleared (tab: identity on the grid) *)
  let rew := (length (supp false n 1 Wc) <? n * (n - 1))%nat in
  (0 < n)%nat -> pre und n W ->
  (* the period is in the domain *)
  period_or wf pf = Some per ->
  (* if the sign pattern is rewired, the draws do not run out (pick_four_unique_nodes_quickly keeps returning) *)
  (rew = true -> randmio_runs_out und n Wc bs ints = false) ->
  (* one argsort order + one permutation per period, of the right lengths, for the positive then the negative weights *)
  oracles_ok_sign per (length (supp und n 1 Wc)) ords perms = Some (o1, p1) ->
  oracles_ok_sign per (length (supp und n (-1) Wc)) o1 p1 = Some (o2, p2) ->
  exists r, null_model und n W close bs wf pf ints ords perms = Returned r /\
            snd (nm_unread r) = (length o2, length p2).
Proof.
  intros Wc rew Hn HpreW Hper Hrun Ho1 Ho2. unfold null_model.
  assert (Es : (und && negb (symb n W || close))%bool = false).
  { destruct und; [|reflexivity]. rewrite (symb_complete n W (HpreW eq_refl)). reflexivity. }
  rewrite Es. cbv zeta. fold Wc. fold rew.
  assert (Hpre : pre und n Wc).
  { intros Hu. specialize (HpreW Hu).
    intros i j Hi Hj. unfold Wc. rewrite !tab_spec by assumption. unfold clear_diag.
    rewrite (Nat.eqb_sym j i). destruct (Nat.eqb i j); [reflexivity|apply HpreW; assumption]. }
  assert (Er : (rew && randmio_runs_out und n Wc bs ints)%bool = false).
  { destruct rew; [|reflexivity]. cbn [andb]. apply Hrun. reflexivity. }
  rewrite Er.
  set (X := if rew then randmio_signed und n Wc bs ints else (Wc, ints, [])).
  assert (HX : sinv und n Wc (fst (fst X))).
  { unfold X. destruct rew.
    - destruct (randmio_signed und n Wc bs ints) as [[Rf sf] tr] eqn:Erm. cbn [fst].
      exact (proj1 (randmio_signed_inv und n Wc bs ints Rf sf tr Hn Hpre Erm)).
    - cbn [fst]. apply sinv_refl. exact Hpre. }
  destruct X as [[Wr rest] tr]. cbn [fst] in HX.
  rewrite Hper.
  destruct (deal_sign_total und n per 1 Wc Wr zero_mat ords perms o1 p1
              (supp_length_eq und n 1 Wc Wr Hpre HX) Ho1) as [W1 E1].
  rewrite E1.
  destruct (deal_sign_total und n per (-1) Wc Wr W1 o1 p1 o2 p2
              (supp_length_eq und n (-1) Wc Wr Hpre HX) Ho2) as [W2 E2].
  rewrite E2. eexists. split; [reflexivity|]. reflexivity.
Qed.

(* ---------- the period ---------- *)
Lemma Qle_bool_false x y : Qle_bool x y = false <-> (y < x)%Q.
Proof.
  split.
  - intros H. apply Qnot_le_lt. intros Hle. apply Qle_bool_iff in Hle. congruence.
  - intros H. destruct (Qle_bool x y) eqn:E; [|reflexivity]. apply Qle_bool_iff in E.
    exfalso. apply (Qlt_not_le _ _ H). exact E.
Qed.

Lemma near_spec wf pf : near wf pf = true <-> (inject_Z pf - 1 < 1 / wf /\ 1 / wf < inject_Z pf + 1)%Q.
Proof.
  unfold near. rewrite andb_true_iff, !negb_true_iff, !Qle_bool_false. tauto.
Qed.

(* wei_freq == 0: "no sorting of weights", encoded as period 0, whatever the oracle *)
Lemma period_or_zero pf : period_or 0 pf = Some 0%nat.
Proof. reflexivity. Qed.

(* every wei_freq in (0, 1] has a period >= 1, whichever admissible rounding the float computation produced *)
Theorem period_domain wf pf : (0 < wf)%Q -> (wf <= 1)%Q -> near wf pf = true ->
  exists p, period_or wf pf = Some p /\ (1 <= p)%nat /\ Z.of_nat p = pf.
Proof.
  intros H0 H1 Hn. unfold period_or.
  assert (Ez : Qeq_bool wf 0 = false).
  { destruct (Qeq_bool wf 0) eqn:E; [|reflexivity]. apply Qeq_bool_iff in E. rewrite E in H0. discriminate. }
  rewrite Ez, Hn. cbn [andb].
  apply near_spec in Hn. destruct Hn as [_ Hhi].
  assert (Hinv : (1 <= 1 / wf)%Q).
  { apply Qle_shift_div_l; [exact H0|]. rewrite Qmult_1_l. exact H1. }
  assert (Hpf : 1 <= pf).
  { assert (Hq : (inject_Z 1 < inject_Z (pf + 1))%Q).
    { rewrite inject_Z_plus. change (inject_Z 1) with 1%Q. lra. }
    rewrite <- Zlt_Qlt in Hq. lia. }
  destruct (Z.ltb_spec pf 1) as [Hlt|_]; [lia|]. cbn [negb].
  exists (Z.to_nat pf). split; [reflexivity|]. split; [lia|]. apply Z2Nat.id. lia.
Qed.

(* the exact half-to-even rounding is one of the admissible oracle values ... *)
Lemma near_round wf : near wf (round_half_even (1 / wf)) = true.
Proof.
  apply near_spec. set (x := (1 / wf)%Q). unfold round_half_even.
  pose proof (Qfloor_le x) as Hlo. pose proof (Qlt_floor x) as Hhi.
  rewrite inject_Z_plus in Hhi. change (inject_Z 1) with 1%Q in Hhi.
  set (f := Qfloor x) in *. cbv zeta.
  destruct (Qcompare (x - inject_Z f) (1 # 2)) eqn:Ec.
  - apply Qeq_alt in Ec. destruct (Z.even f).
    + split; lra.
    + rewrite inject_Z_plus. change (inject_Z 1) with 1%Q. split; lra.
  - split; lra.
  - apply Qgt_alt in Ec. rewrite inject_Z_plus. change (inject_Z 1) with 1%Q. split; lra.
Qed.

(* ... so the oracle model run with it is the exact-rational reading of the statement *)
Theorem period_or_exact wf : period_or wf (round_half_even (1 / wf)) = period_of wf.
Proof.
  unfold period_or, period_of. destruct (Qeq_bool wf 0); [reflexivity|].
  rewrite near_round. cbn [andb]. cbv zeta. destruct (round_half_even (1 / wf) <? 1); reflexivity.
Qed.

Corollary period_of_domain wf : (0 < wf)%Q -> (wf <= 1)%Q -> exists p, period_of wf = Some p /\ (1 <= p)%nat.
Proof.
  intros H0 H1. destruct (period_domain wf _ H0 H1 (near_round wf)) as (p & E & Hp & _).
  exists p. rewrite <- period_or_exact. auto.
Qed.

(* ---------- when np.allclose is not trusted (close = false): the model itself has checked exact symmetry ---------- *)
Theorem null_model_checked_symmetry und n W bs wf pf ints ords perms r : (0 < n)%nat ->
  null_model und n W false bs wf pf ints ords perms = Returned r -> null_model_property und n W r.
Proof.
  intros Hn H. apply (null_model_meets_property und n W false bs wf pf ints ords perms r Hn); [|exact H].
  intros Hu. subst und. apply symb_spec.
  destruct (symb n W) eqn:Es; [reflexivity|].
  assert (E : null_model true n W false bs wf pf ints ords perms = ParamError)
    by (apply null_model_param_error_iff; auto).
  rewrite E in H. discriminate.
Qed.
