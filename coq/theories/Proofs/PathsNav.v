(* Proofs/PathsNav.v — navigation_wu beyond "if the run returns":
   (1) np.argmin picks THE neighbour with the smallest key (D[target,v], v) (lexicographic: first minimum);
   (2) every consecutive pair of every RETURNED path is such a greedy step (the step lemma threaded through nav_loop);
   (3) max_hops = m admits paths of up to m+1 hops (`pl_bin > max_hops` is tested before the increment), never more;
   (4) TOTALITY for the default max_hops=None on the routine's documented domain, an UNDIRECTED L (symmetric support):
       the previous node is a neighbour of the current one, so the key of the next node is at most the key of the
       previous node, with equality only for the back-step (which stops the loop); hence rank(curr)+rank(last) strictly
       decreases and the loop stops within 2n steps: fuel 2n suffices, for every D (no symmetry / metric assumption);
   (5) the ZeroDivisionError of n <= 1 as an outcome of the top-level model. *)
From Coq Require Import QArith List Arith Bool ZArith Lia Lqa Sorted.
From BCT Require Import Base.Mat Base.ListX Model.Distance Model.Paths Model.PathsExt
  Proofs.DistanceBase Proofs.DistanceFloyd Proofs.DistanceOther Proofs.Paths Proofs.PathsFull.
Import ListNotations.
Open Scope Q_scope.

(* ====================== the key order of np.argmin over D[target, neighbors] ====================== *)
Section Key.
Variable f : nat -> Q.

(* (f a, a) < (f b, b) lexicographically *)
Definition klt (a b : nat) : Prop := f a < f b \/ (f a <= f b /\ (a < b)%nat).
Definition kltb (a b : nat) : bool := (qltb (f a) (f b) || (Qle_bool (f a) (f b) && Nat.ltb a b))%bool.

Lemma kltb_spec a b : kltb a b = true <-> klt a b.
Proof.
  unfold kltb, klt. rewrite orb_true_iff, andb_true_iff, qltb_true, Qle_bool_iff, Nat.ltb_lt. tauto.
Qed.
Lemma klt_irrefl a : ~ klt a a.
Proof. unfold klt. intros [H|[_ H]]; [lra|lia]. Qed.
Lemma klt_trans a b c : klt a b -> klt b c -> klt a c.
Proof. unfold klt. intros [H1|[H1 H1']] [H2|[H2 H2']]; try (left; lra). right. split; [lra|lia]. Qed.

Lemma argmin_fold_klt : forall r best, Forall (fun w => (best < w)%nat) r -> StronglySorted lt r ->
  let nx := fold_left (fun b v => if qltb (f v) (f b) then v else b) r best in
  (nx = best \/ (In nx r /\ f nx < f best)) /\ forall w, In w r -> w <> nx -> klt nx w.
Proof.
  induction r as [|u r IH]; intros best Hb Hs; cbn [fold_left].
  - split; [left; reflexivity|]. intros w [].
  - inversion Hb as [|? ? Hbu Hbr]; subst. inversion Hs as [|? ? Hs' Hu]; subst.
    destruct (qltb (f u) (f best)) eqn:E; qb.
    + destruct (IH u Hu Hs') as [H1 H2]. cbv zeta in H1, H2.
      set (nx := fold_left _ r u) in *. split.
      * right. destruct H1 as [->|[Hin Hlt]]; [split; [left; reflexivity|exact E]|split; [right; exact Hin|lra]].
      * intros w [<-|Hw] Hne.
        -- destruct H1 as [H1|[_ Hlt]]; [congruence|]. left. exact Hlt.
        -- apply H2; assumption.
    + destruct (IH best Hbr Hs') as [H1 H2]. cbv zeta in H1, H2.
      set (nx := fold_left _ r best) in *. split.
      * destruct H1 as [H1|[Hin Hlt]]; [left; exact H1|right; split; [right; exact Hin|exact Hlt]].
      * intros w [<-|Hw] Hne.
        -- destruct H1 as [->|[_ Hlt]]; [right; split; [exact E|exact Hbu]|left; lra].
        -- apply H2; assumption.
Qed.

(* np.argmin on an index-sorted list: every OTHER element has a strictly larger key *)
Lemma argmin_first_klt v0 rr : StronglySorted lt (v0 :: rr) ->
  forall v, In v (v0 :: rr) -> v <> argmin_first f v0 rr -> klt (argmin_first f v0 rr) v.
Proof.
  intros Hs v Hv Hne. inversion Hs as [|? ? Hs' H0]; subst.
  destruct (argmin_fold_klt rr v0 H0 Hs') as [H1 H2]. cbv zeta in H1, H2.
  unfold argmin_first in *. set (nx := fold_left _ rr v0) in *.
  destruct Hv as [<-|Hv]; [|apply H2; assumption].
  destruct H1 as [H1|[_ Hlt]]; [congruence|]. left. exact Hlt.
Qed.

(* rank of a node = number of nodes with a smaller key *)
Definition rank (n v : nat) : nat := length (filter (fun u => kltb u v) (seq 0 n)).

Lemma filter_length_lt {A} (p q : A -> bool) l a :
  (forall u, p u = true -> q u = true) -> In a l -> p a = false -> q a = true ->
  (length (filter p l) < length (filter q l))%nat.
Proof.
  intros Hpq. induction l as [|x l IH]; intros Hin Hp Hq; [destruct Hin|].
  assert (Hle : forall l', (length (filter p l') <= length (filter q l'))%nat).
  { induction l' as [|y l' IH']; [cbn; lia|]. cbn [filter]. destruct (p y) eqn:Ey.
    - rewrite (Hpq y Ey). cbn [length]. lia.
    - destruct (q y); cbn [length]; lia. }
  cbn [filter]. destruct Hin as [->|Hin].
  - rewrite Hp, Hq. cbn [length]. specialize (Hle l). lia.
  - specialize (IH Hin Hp Hq). destruct (p x) eqn:Ex.
    + rewrite (Hpq x Ex). cbn [length]. lia.
    + destruct (q x); cbn [length]; lia.
Qed.

Lemma rank_lt n a b : (a < n)%nat -> klt a b -> (rank n a < rank n b)%nat.
Proof.
  intros Ha Hab. unfold rank. apply (filter_length_lt _ _ _ a).
  - intros u Hu. apply kltb_spec in Hu. apply kltb_spec. eapply klt_trans; eassumption.
  - apply in_seq. lia.
  - destruct (kltb a a) eqn:E; [|reflexivity]. apply kltb_spec in E. destruct (klt_irrefl a E).
  - apply kltb_spec. exact Hab.
Qed.

Lemma rank_bound n v : (v < n)%nat -> (rank n v < n)%nat.
Proof.
  intros Hv. unfold rank.
  assert (H : (length (filter (fun u => kltb u v) (seq 0 n)) < length (filter (fun _ => true) (seq 0 n)))%nat).
  { apply (filter_length_lt _ _ _ v).
    - reflexivity.
    - apply in_seq. lia.
    - destruct (kltb v v) eqn:E; [|reflexivity]. apply kltb_spec in E. destruct (klt_irrefl v E).
    - reflexivity. }
  assert (E : filter (fun _ : nat => true) (seq 0 n) = seq 0 n).
  { generalize (seq 0 n). induction l as [|x l IH]; [reflexivity|]. cbn [filter]. rewrite IH. reflexivity. }
  rewrite E, seq_length in H. exact H.
Qed.
End Key.

Lemma seq_sorted a k : StronglySorted lt (seq a k).
Proof.
  revert a. induction k as [|k IH]; intros a; cbn [seq]; constructor; [apply IH|].
  apply Forall_forall. intros x Hx. apply in_seq in Hx. lia.
Qed.
Lemma filter_sorted (p : nat -> bool) l : StronglySorted lt l -> StronglySorted lt (filter p l).
Proof.
  induction 1 as [|a l Hs IH Ha]; cbn [filter]; [constructor|].
  destruct (p a); [|exact IH]. constructor; [exact IH|].
  apply Forall_forall. intros x Hx. apply filter_In in Hx. rewrite Forall_forall in Ha. apply Ha. tauto.
Qed.
Lemma neighbors_sorted n L c : StronglySorted lt (neighbors n L c).
Proof. unfold neighbors. apply filter_sorted, seq_sorted. Qed.

(* ====================== the greedy step, with uniqueness ====================== *)
(* b is the step np.argmin takes from a towards target: a neighbour of a, no neighbour is closer to the target,
   and among the closest it is the one with the smallest index *)
Definition greedy_step (n : nat) (L D : mat Q) (target a b : nat) : Prop :=
  In b (neighbors n L a) /\
  (forall v, In v (neighbors n L a) -> D target b <= D target v) /\
  (forall v, In v (neighbors n L a) -> v <> b -> klt (fun v => D target v) b v).

Lemma nav_step_greedy_first n L D target c v0 rr : neighbors n L c = v0 :: rr ->
  greedy_step n L D target c (argmin_first (fun v => D target v) v0 rr).
Proof.
  intros En. unfold greedy_step. rewrite En. split; [apply argmin_first_in|]. split.
  - intros v Hv. apply (argmin_first_min (fun v => D target v) v0 rr v Hv).
  - intros v Hv Hne. apply argmin_first_klt; [rewrite <- En; apply neighbors_sorted|exact Hv|exact Hne].
Qed.

(* every consecutive pair of the list is a greedy step *)
Fixpoint gchain (n : nat) (L D : mat Q) (target : nat) (l : list nat) : Prop :=
  match l with
  | a :: ((b :: _) as r) => greedy_step n L D target a b /\ gchain n L D target r
  | _ => True
  end.

Lemma gchain_snoc n L D t p c x : gchain n L D t (p ++ [c]) -> greedy_step n L D t c x ->
  gchain n L D t ((p ++ [c]) ++ [x]).
Proof.
  induction p as [|a p IH]; intros H Hx.
  - cbn. auto.
  - destruct p as [|b p].
    + cbn in *. tauto.
    + cbn [app gchain] in *. destruct H as [H1 H2]. split; [exact H1|]. apply IH; assumption.
Qed.

Lemma gchain_nth n L D t : forall l k a b, gchain n L D t l ->
  nth_error l k = Some a -> nth_error l (S k) = Some b -> greedy_step n L D t a b.
Proof.
  induction l as [|x l IH]; intros k a b Hg Ha Hb; [destruct k; discriminate|].
  destruct k as [|k].
  - cbn in Ha. injection Ha as ->. destruct l as [|y l]; [discriminate|]. cbn in Hb. injection Hb as ->.
    exact (proj1 Hg).
  - cbn [nth_error] in Ha. change (nth_error l (S k) = Some b) in Hb.
    destruct l as [|y l]; [destruct k; discriminate|]. apply (IH k a b); [exact (proj2 Hg)|exact Ha|exact Hb].
Qed.

Section NavGreedy.
Variable n : nat.
Variables L D : mat Q.
Variable mh : option nat.

Lemma nav_loop_greedy fuel : forall target curr lst path pb pw pd r,
  (exists p, path = p ++ [curr]) -> gchain n L D target path ->
  nav_loop fuel n L D mh target curr lst path pb pw pd = Some r -> gchain n L D target (nv_path r).
Proof.
  induction fuel as [|f IH]; intros target curr lst path pb pw pd r [p Ep] Hg Hrun; cbn [nav_loop] in Hrun.
  - destruct (Nat.eqb curr target); [|discriminate]. injection Hrun as <-. exact Hg.
  - destruct (Nat.eqb curr target); [injection Hrun as <-; exact Hg|].
    destruct (neighbors n L curr) as [|v0 rr] eqn:En; [injection Hrun as <-; exact Hg|].
    set (next := argmin_first (fun v => D target v) v0 rr) in *.
    destruct (_ || _)%bool; [injection Hrun as <-; exact Hg|].
    apply IH in Hrun; [exact Hrun|eexists; reflexivity|].
    subst path. apply gchain_snoc; [exact Hg|]. apply nav_step_greedy_first. exact En.
Qed.

(* every consecutive pair (a, b) of the RETURNED node list — successful or failed navigation — is the greedy step *)
Theorem nav_path_greedy : forall fuel i j r, nav_pair fuel n L D mh i j = Some r ->
  forall k a b, nth_error (nv_path r) k = Some a -> nth_error (nv_path r) (S k) = Some b ->
  greedy_step n L D j a b.
Proof.
  intros fuel i j r Hrun k a b Ha Hb. unfold nav_pair in Hrun.
  apply (gchain_nth n L D j (nv_path r) k a b); [|exact Ha|exact Hb].
  apply (nav_loop_greedy fuel j i i [i] 0%nat 0 0 r); [exists []; reflexivity|exact Logic.I|exact Hrun].
Qed.
End NavGreedy.

(* ====================== max_hops = m: at most m+1 hops ====================== *)
Lemma nav_loop_hops_bound n L D m fuel : forall target curr lst path pb pw pd r b,
  (pb <= m + 1)%nat -> nav_loop fuel n L D (Some m) target curr lst path pb pw pd = Some r ->
  nv_bin r = Some b -> (b <= m + 1)%nat.
Proof.
  induction fuel as [|f IH]; intros target curr lst path pb pw pd r b Hpb Hrun Hb; cbn [nav_loop] in Hrun.
  - destruct (Nat.eqb curr target); [|discriminate]. injection Hrun as <-. cbn in Hb. injection Hb as <-. exact Hpb.
  - destruct (Nat.eqb curr target); [injection Hrun as <-; cbn in Hb; injection Hb as <-; exact Hpb|].
    destruct (neighbors n L curr) as [|v0 rr]; [injection Hrun as <-; discriminate|].
    destruct (Nat.ltb_spec m pb) as [Hlt|Hge].
    + rewrite orb_true_r in Hrun. injection Hrun as <-. discriminate.
    + rewrite orb_false_r in Hrun. destruct (Nat.eqb _ lst); [injection Hrun as <-; discriminate|].
      apply (IH _ _ _ _ _ _ _ r b) in Hrun; [exact Hrun|lia|exact Hb].
Qed.

Theorem nav_hops_bound n L D m fuel i j r b :
  nav_pair fuel n L D (Some m) i j = Some r -> nv_bin r = Some b -> (b <= m + 1)%nat.
Proof. unfold nav_pair. intros Hrun Hb. apply (nav_loop_hops_bound n L D m fuel j i i [i] 0%nat 0 0 r b); [lia|exact Hrun|exact Hb]. Qed.

(* ====================== totality for max_hops = None on undirected L ====================== *)
(* the support of L is symmetric (the routine's documented domain; values need not be symmetric) *)
Definition symsupp (n : nat) (L : mat Q) : Prop :=
  forall i j, (i < n)%nat -> (j < n)%nat -> (L i j == 0 <-> L j i == 0).

Section NavTotal.
Variable n : nat.
Variables L D : mat Q.
Hypothesis Hsym : symsupp n L.

Lemma nav_loop_total_und target fuel : forall curr lst path pb pw pd,
  (curr < n)%nat -> (lst < n)%nat -> ~ L curr lst == 0 ->
  (rank (fun v => D target v) n curr + rank (fun v => D target v) n lst + 1 <= fuel)%nat ->
  exists r, nav_loop fuel n L D None target curr lst path pb pw pd = Some r.
Proof.
  induction fuel as [|f IH]; intros curr lst path pb pw pd Hc Hl Hcl Hf; [lia|].
  cbn [nav_loop]. destruct (Nat.eqb curr target); [eexists; reflexivity|].
  destruct (neighbors n L curr) as [|v0 rr] eqn:En; [eexists; reflexivity|].
  set (next := argmin_first (fun v => D target v) v0 rr).
  rewrite orb_false_r. destruct (Nat.eqb_spec next lst) as [E|Hne]; [eexists; reflexivity|].
  destruct (nav_step_greedy_first n L D target curr v0 rr En) as [Hin [_ Hk]]. fold next in Hin, Hk.
  pose proof (proj1 (neighbors_spec n L curr next) Hin) as [Hnn Hnz].
  assert (Hlin : In lst (neighbors n L curr)) by (apply neighbors_spec; split; assumption).
  specialize (Hk lst Hlin (not_eq_sym Hne)).
  pose proof (rank_lt (fun v => D target v) n next lst Hnn Hk) as Hr.
  apply IH; [exact Hnn|exact Hc| |lia].
  intros H0. apply Hnz. apply (Hsym next curr Hnn Hc). exact H0.
Qed.

Theorem nav_pair_total_und fuel i j : (i < n)%nat -> (2 * n <= fuel)%nat ->
  exists r, nav_pair fuel n L D None i j = Some r.
Proof.
  intros Hi Hf. unfold nav_pair. destruct fuel as [|f]; [lia|].
  cbn [nav_loop]. destruct (Nat.eqb i j); [eexists; reflexivity|].
  destruct (neighbors n L i) as [|v0 rr] eqn:En; [eexists; reflexivity|].
  set (next := argmin_first (fun v => D j v) v0 rr).
  rewrite orb_false_r. destruct (Nat.eqb_spec next i) as [E|Hne]; [eexists; reflexivity|].
  destruct (nav_step_greedy_first n L D j i v0 rr En) as [Hin _]. fold next in Hin.
  pose proof (proj1 (neighbors_spec n L i next) Hin) as [Hnn Hnz].
  apply nav_loop_total_und; [exact Hnn|exact Hi| |].
  - intros H0. apply Hnz. apply (Hsym next i Hnn Hi). exact H0.
  - pose proof (rank_bound (fun v => D j v) n next Hnn). pose proof (rank_bound (fun v => D j v) n i Hi). lia.
Qed.

Theorem navigation_wu_total_und fuel : (2 * n <= fuel)%nat ->
  exists res, navigation_wu fuel n L D None = Some res.
Proof.
  intros Hf. unfold navigation_wu.
  assert (H : forall l, Forall (fun c => (fst c < n)%nat) l ->
              exists rs, all_some (map (fun c => nav_pair fuel n L D None (fst c) (snd c)) l) = Some rs).
  { induction l as [|c l IH]; intros Hl; cbn [map all_some]; [eexists; reflexivity|].
    inversion Hl as [|? ? Hc Hl']; subst.
    destruct (nav_pair_total_und fuel (fst c) (snd c) Hc Hf) as [r ->]. destruct (IH Hl') as [rs ->]. eexists; reflexivity. }
  destruct (H (offdiag n)) as [rs ->]; [|eexists; reflexivity].
  apply Forall_forall. intros [i j] Hc. apply offdiag_spec in Hc. cbn [fst]. tauto.
Qed.
End NavTotal.

(* ====================== the top level, with the division by n**2 - n ====================== *)
(* sr = 1 - (len(inf_ixes) - n)/(n**2 - n) on Python ints: ZeroDivisionError for n <= 1, after the (empty) loops *)
Theorem navigation_wu_x_raises fuel n L D mh : navigation_wu_x fuel n L D mh = NavRaises <-> (n <= 1)%nat.
Proof.
  unfold navigation_wu_x. split.
  - destruct (navigation_wu fuel n L D mh) as [[sr rs]|]; [|discriminate].
    destruct (Nat.eqb_spec (n * n - n) 0) as [E|E]; [|discriminate]. intros _. nia.
  - intros Hn. assert (E : offdiag n = []).
    { destruct (offdiag n) as [|[i j] l] eqn:El; [reflexivity|].
      assert (Hin : In (i, j) (offdiag n)) by (rewrite El; left; reflexivity).
      apply offdiag_spec in Hin. lia. }
    unfold navigation_wu. rewrite E. cbn [map all_some].
    destruct (Nat.eqb_spec (n * n - n) 0) as [_|E0]; [reflexivity|nia].
Qed.

Theorem navigation_wu_x_done fuel n L D mh sr rs :
  navigation_wu_x fuel n L D mh = NavDone sr rs <-> ((2 <= n)%nat /\ navigation_wu fuel n L D mh = Some (sr, rs)).
Proof.
  unfold navigation_wu_x. destruct (navigation_wu fuel n L D mh) as [[sr' rs']|].
  - destruct (Nat.eqb_spec (n * n - n) 0) as [E|E].
    + split; [discriminate|]. intros [Hn _]. nia.
    + split.
      * intros H. injection H as -> ->. split; [nia|reflexivity].
      * intros [_ H]. injection H as -> ->. reflexivity.
  - split; [discriminate|]. intros [_ H]. discriminate.
Qed.

Theorem navigation_wu_x_outcomes fuel n L D mh :
  (navigation_wu_x fuel n L D mh = NavRaises <-> (n <= 1)%nat) /\
  (forall sr rs, navigation_wu_x fuel n L D mh = NavDone sr rs <->
                 ((2 <= n)%nat /\ navigation_wu fuel n L D mh = Some (sr, rs))).
Proof. split; [apply navigation_wu_x_raises|intros; apply navigation_wu_x_done]. Qed.
