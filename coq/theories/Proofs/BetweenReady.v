(* Proofs/BetweenReady.v — what the accumulation phase needs from a finished search state, for ANY search:
   [acc_ready]: the queue is a permutation of the nodes with the source last, every predecessor link P[x,w]
   has x strictly BEFORE w in the queue, and nodes that have a predecessor have a positive path count.
   From that alone: one source's accumulation adds the pair sums over the predecessor DAG, and the whole
   routine returns their sum over all sources. *)
From Coq Require Import QArith Qring Lia Lqa List Arith Bool ZArith Permutation.
From BCT Require Import Base.Mat Base.SumQ Base.ListX Model.Between Proofs.BetweenAccum.
Import ListNotations.
Open Scope Z_scope.

(* position of the first occurrence *)
Fixpoint idx (v : nat) (l : list nat) : nat :=
  match l with [] => O | a :: r => if Nat.eqb a v then O else S (idx v r) end.
Lemma idx_app v : forall A C, ~ In v A -> idx v (A ++ v :: C) = length A.
Proof.
  induction A as [|a A IH]; intros C H; cbn [app idx length].
  - rewrite Nat.eqb_refl. reflexivity.
  - destruct (Nat.eqb_spec a v) as [->|Hne]; [exfalso; apply H; left; reflexivity|].
    rewrite IH; [reflexivity|]. intros Hin. apply H. right; exact Hin.
Qed.

(* potential read off the queue: earlier in the queue = larger *)
Definition potQ (n : nat) (st : sst) (v : nat) : Z := - Z.of_nat (idx v (to_list n (sQ st))).
Definition before (L : list nat) (x w : nat) : Prop := exists a b c, L = a ++ x :: b ++ w :: c.

Definition acc_ready (n u : nat) (st : sst) : Prop :=
  Permutation (to_list n (sQ st)) (seq 0 n) /\
  to_list n (sQ st) = queue_prefix n st ++ [u] /\
  (forall x w, (x < n)%nat -> (w < n)%nat -> sP st x w = true -> before (to_list n (sQ st)) x w) /\
  (forall w v, (w < n)%nat -> (v < n)%nat -> sP st w v = true -> 0 < sNP st w).

Lemma NoDup_split_unique (L : list nat) w : NoDup L ->
  forall A B A' B', L = A ++ w :: B -> L = A' ++ w :: B' -> A = A' /\ B = B'.
Proof.
  intros Hnd A. revert L Hnd. induction A as [|a A IH]; intros L Hnd B A' B' E1 E2.
  - destruct A' as [|a' A'].
    + cbn [app] in *. rewrite E1 in E2. inversion E2. auto.
    + exfalso. rewrite E1 in Hnd. cbn [app] in *. rewrite E1 in E2. inversion E2; subst.
      inversion Hnd as [|? ? Hn _]; subst. apply Hn. apply in_app_iff. right. left. reflexivity.
  - destruct A' as [|a' A'].
    + exfalso. rewrite E2 in Hnd. cbn [app] in *. rewrite E2 in E1. inversion E1; subst.
      inversion Hnd as [|? ? Hn _]; subst. apply Hn. apply in_app_iff. right. left. reflexivity.
    + cbn [app] in *. rewrite E1 in E2. inversion E2; subst.
      inversion Hnd as [|? ? _ Hnd']; subst.
      destruct (IH _ Hnd' B A' B' eq_refl H1) as [-> ->]. auto.
Qed.

Lemma before_pot n st x w : NoDup (to_list n (sQ st)) -> before (to_list n (sQ st)) x w ->
  potQ n st w < potQ n st x.
Proof.
  intros Hnd (a & b & c & E). unfold potQ. rewrite E in *.
  assert (Hx : ~ In x a).
  { apply NoDup_remove_2 in Hnd. intros H. apply Hnd. apply in_app_iff. left; exact H. }
  rewrite (idx_app x a _ Hx).
  replace (a ++ x :: b ++ w :: c) with ((a ++ x :: b) ++ w :: c) in * by (rewrite <- app_assoc; reflexivity).
  assert (Hw : ~ In w (a ++ x :: b)).
  { apply NoDup_remove_2 in Hnd. intros H. apply Hnd. apply in_app_iff. left; exact H. }
  rewrite (idx_app w _ _ Hw), app_length. cbn [length]. lia.
Qed.

Lemma acc_ready_order n u st : acc_ready n u st ->
  NoDup (queue_prefix n st) /\ (forall x, In x (queue_prefix n st) -> (x < n)%nat) /\
  ~ In u (queue_prefix n st) /\ (forall x, (x < n)%nat -> x <> u -> In x (queue_prefix n st)) /\
  succ_first n (sP st) (queue_prefix n st) /\
  (forall w v, (w < n)%nat -> (v < n)%nat -> sP st w v = true -> potQ n st v < potQ n st w).
Proof.
  intros (Hperm & HL & Hbef & _).
  assert (HndL : NoDup (to_list n (sQ st))) by (apply (Permutation_NoDup (Permutation_sym Hperm)), seq_NoDup).
  assert (Hlt : forall x, In x (to_list n (sQ st)) <-> (x < n)%nat).
  { intros x. split.
    - intros Hx. apply (Permutation_in _ Hperm), in_seq in Hx. lia.
    - intros Hx. apply (Permutation_in _ (Permutation_sym Hperm)), in_seq. lia. }
  pose proof HndL as Hnd'. rewrite HL in Hnd'. destruct (NoDup_app_inv _ _ Hnd') as (Hnd1 & _ & Hdisj).
  split; [exact Hnd1|]. split; [|split; [|split; [|split]]].
  - intros x Hx. apply Hlt. rewrite HL. apply in_app_iff. left; exact Hx.
  - intros Hu. apply (Hdisj u Hu). left; reflexivity.
  - intros x Hx Hxu. apply Hlt in Hx. rewrite HL in Hx. apply in_app_iff in Hx.
    destruct Hx as [Hx|[Hx|[]]]; [exact Hx|congruence].
  - intros l1 w l2 E x Hx Hp.
    assert (Hw : (w < n)%nat). { apply Hlt. rewrite HL, E. apply in_app_iff. left. apply in_app_iff. right. left; reflexivity. }
    destruct (Hbef x w Hx Hw Hp) as (a & b & c & Eb).
    assert (E1 : to_list n (sQ st) = l1 ++ w :: (l2 ++ [u])) by (rewrite HL, E, <- app_assoc; reflexivity).
    assert (E2 : to_list n (sQ st) = (a ++ x :: b) ++ w :: c) by (rewrite Eb, <- app_assoc; reflexivity).
    destruct (NoDup_split_unique _ w HndL _ _ _ _ E1 E2) as [-> _].
    apply in_app_iff. right. left. reflexivity.
  - intros w v Hw Hv Hp. apply before_pot; [exact HndL|]. apply Hbef; assumption.
Qed.

(* brandes_accumulation instantiated on ANY finished search state that is acc_ready *)
Open Scope Q_scope.
Theorem accum_pairsums n u st (BC : vec Q) (EBC : mat Q) : acc_ready n u st ->
  let c := dag_count n (sP st) (potQ n st) in
  (forall w, (w < n)%nat ->
     fst (accum_e n st BC EBC) w == BC w + (if Nat.eqb w u then 0 else delta n (sNP st) c w)) /\
  (forall v w, (v < n)%nat -> (w < n)%nat ->
     snd (accum_e n st BC EBC) v w == EBC v w + (if Nat.eqb w u then 0 else delta_edge n (sP st) (sNP st) c v w)).
Proof.
  intros Hok c. destruct (acc_ready_order n u st Hok) as (Hnd & Hlt & Hnu & Hall & Hsf & Hpot).
  destruct Hok as (_ & _ & _ & Hpos).
  pose proof (brandes_accumulation n (sP st) (sNP st) c
                (fun v _ => dag_count_refl n (sP st) (potQ n st) v)
                (dag_count_step n (sP st) (potQ n st) Hpot)
                (dag_count_acyc n (sP st) (potQ n st) Hpot) Hpos
                (queue_prefix n st) BC EBC Hnd Hlt Hsf) as [HB HE].
  cbn zeta in HB, HE.
  assert (Hmem : forall w, (w < n)%nat -> nmem w (queue_prefix n st) = negb (Nat.eqb w u)).
  { intros w Hw. destruct (Nat.eqb_spec w u) as [->|Hne]; cbn [negb].
    - apply nmem_false. exact Hnu.
    - apply nmem_In. apply Hall; assumption. }
  unfold accum_e. cbn [fst snd]. split.
  - intros w Hw. rewrite tabv_spec by exact Hw. rewrite (HB w Hw), (Hmem w Hw).
    destruct (Nat.eqb w u); reflexivity.
  - intros v w Hv Hw. rewrite tab_spec by assumption. rewrite (HE v w Hv Hw), (Hmem w Hw).
    destruct (Nat.eqb w u); reflexivity.
Qed.

(* ---------- all sources ---------- *)
Fixpoint lsumQ (f : nat -> Q) (l : list nat) : Q := match l with [] => 0 | u :: r => f u + lsumQ f r end.
Lemma lsumQ_app f l1 l2 : lsumQ f (l1 ++ l2) == lsumQ f l1 + lsumQ f l2.
Proof. induction l1 as [|a l1 IH]; cbn [app lsumQ]; [ring|]. rewrite IH. ring. Qed.
Lemma lsumQ_seq f n : lsumQ f (seq 0 n) == sumQ f n.
Proof.
  induction n as [|n IH]; [reflexivity|]. rewrite seq_S, lsumQ_app, IH. cbn [plus lsumQ sumQ]. ring.
Qed.

(* per-source pair sums read off the search state: sigma := NP, DAG := P *)
Definition dep_node (n : nat) (src : nat -> option sst) (u w : nat) : Q :=
  match src u with
  | Some st => if Nat.eqb w u then 0 else delta n (sNP st) (dag_count n (sP st) (potQ n st)) w
  | None => 0 end.
Definition dep_edge (n : nat) (src : nat -> option sst) (u v w : nat) : Q :=
  match src u with
  | Some st => if Nat.eqb w u then 0 else delta_edge n (sP st) (sNP st) (dag_count n (sP st) (potQ n st)) v w
  | None => 0 end.

Lemma sources_e_fold n (src : nat -> option sst) l : forall (BC0 : vec Q) (EBC0 : mat Q),
  (forall u, In u l -> exists st, src u = Some st /\ acc_ready n u st) ->
  exists BC EBC,
    fold_left (fun acc u =>
      match acc with
      | None => None
      | Some (BC, EBC) => match src u with None => None | Some st => Some (accum_e n st BC EBC) end
      end) l (Some (BC0, EBC0)) = Some (BC, EBC) /\
    (forall w, (w < n)%nat -> BC w == BC0 w + lsumQ (fun u => dep_node n src u w) l) /\
    (forall v w, (v < n)%nat -> (w < n)%nat -> EBC v w == EBC0 v w + lsumQ (fun u => dep_edge n src u v w) l).
Proof.
  induction l as [|u l IH]; intros BC0 EBC0 Hl; cbn [fold_left lsumQ].
  - exists BC0, EBC0. split; [reflexivity|]. split; intros; ring.
  - destruct (Hl u (or_introl eq_refl)) as (st & Est & Hok). rewrite Est.
    pose proof (accum_pairsums n u st BC0 EBC0 Hok) as [HB HE]. cbn zeta in HB, HE.
    destruct (accum_e n st BC0 EBC0) as [BC1 EBC1] eqn:Eacc. cbn [fst snd] in HB, HE.
    destruct (IH BC1 EBC1) as (BC & EBC & Ef & H1 & H2); [intros x Hx; apply Hl; right; exact Hx|].
    exists BC, EBC. split; [exact Ef|]. split.
    + intros w Hw. rewrite (H1 w Hw), (HB w Hw). unfold dep_node at 2. rewrite Est. ring.
    + intros v w Hv Hw. rewrite (H2 v w Hv Hw), (HE v w Hv Hw). unfold dep_edge at 2. rewrite Est. ring.
Qed.

Theorem sources_pairsums n (src : nat -> option sst) :
  (forall u, (u < n)%nat -> exists st, src u = Some st /\ acc_ready n u st) ->
  exists BC EBC, sources_e n src = Some (BC, EBC) /\
    (forall w, (w < n)%nat -> BC w == sumQ (fun u => dep_node n src u w) n) /\
    (forall v w, (v < n)%nat -> (w < n)%nat -> EBC v w == sumQ (fun u => dep_edge n src u v w) n).
Proof.
  intros H.
  destruct (sources_e_fold n src (seq 0 n) (fun _ => 0) (fun _ _ => 0)) as (BC & EBC & Ef & H1 & H2).
  { intros u Hu. apply in_seq in Hu. apply H. lia. }
  exists BC, EBC. split; [exact Ef|]. split.
  - intros w Hw. rewrite (H1 w Hw), lsumQ_seq. ring.
  - intros v w Hv Hw. rewrite (H2 v w Hv Hw), lsumQ_seq. ring.
Qed.
