(* Proofs/BetweenRat.v — rational connection lengths (Model/BetweenQ.v) reduce to integer lengths (Model/Between.v).

   For k > 0 and G * k = M entrywise (G : mat Q, M : mat Z; [Grel]):
   * the search of the Q routines on G and of the Z routines on M run in lock step: identical NP, P, queue, q; the
     distance vectors correspond (D_Q * k = D_Z) — [search_rel]; hence
     betweenness_weiQ n G = betweenness_wei n M and edge_betweenness_weiQ n G = edge_betweenness_wei n M,
     as VALUES (Leibniz) — [weiQ_reduce];
   * the enumeration of minimum-length walks is the same list — [spathsQ_eq] — hence BC_specQ / EBC_specQ on G are
     BC_spec / EBC_spec on M.
   Every rational matrix has such a pair (k, M) (common denominator: [cden_rel]), so bc_correct holds for the
   Q routines for every matrix of nonnegative rationals ([bc_weiQ_correct], [ebc_weiQ_correct]); scaling by any
   positive rational changes nothing ([weiQ_scale_invariant]).  In particular the Q model on M * 2^-20 (exactly the
   matrix of binary64 values the harness hands to the implementation) returns what the Z model returns on M
   ([weiQ_of_fraction]). *)
From Coq Require Import QArith Lia List Arith Bool ZArith.
From BCT Require Import Base.Mat Base.SumQ Base.ListX Model.Between Model.BetweenQ
  Proofs.BetweenAccum Proofs.BetweenReady Proofs.BetweenQueue Proofs.BetweenSpec Proofs.BetweenPaths
  Proofs.BetweenTight Proofs.BetweenLast Proofs.BetweenCount Proofs.BetweenFull Proofs.BetweenScale.
Import ListNotations.
Open Scope Q_scope.

Lemma wherev_ext_in n (f g : nat -> bool) : (forall w, (w < n)%nat -> f w = g w) -> wherev n f = wherev n g.
Proof. intros H. unfold wherev. apply filter_ext_in. intros w Hw. apply in_seq in Hw. apply H. lia. Qed.
Lemma forallb_ext_in {A} (f g : A -> bool) l : (forall x, In x l -> f x = g x) -> forallb f l = forallb g l.
Proof.
  induction l as [|a l IH]; intros H; cbn [forallb]; [reflexivity|].
  rewrite (H a) by (left; reflexivity). rewrite IH; [reflexivity|]. intros x Hx. apply H. right. exact Hx.
Qed.

Section Rat.
Variables (n : nat) (k : Z).
Hypothesis Hk : (0 < k)%Z.

(* q stands for z / k *)
Definition rep (q : Q) (z : Z) : Prop := q * inject_Z k == inject_Z z.
Definition orep (a : option Q) (b : option Z) : Prop :=
  match a, b with Some q, Some z => rep q z | None, None => True | _, _ => False end.
Definition Grel (G : mat Q) (M : mat Z) : Prop := forall i j, (i < n)%nat -> (j < n)%nat -> rep (G i j) (M i j).

Lemma kq_pos : 0 < inject_Z k.
Proof. change 0 with (inject_Z 0). rewrite <- (Zlt_Qlt 0 k). exact Hk. Qed.
Lemma kq_ne : ~ inject_Z k == 0.
Proof. intros E. pose proof kq_pos as H. rewrite E in H. apply (Qlt_irrefl 0). exact H. Qed.

Lemma rep0 : rep 0 0.
Proof. unfold rep. rewrite Qmult_0_l. reflexivity. Qed.
Lemma rep_lt q1 z1 q2 z2 : rep q1 z1 -> rep q2 z2 -> (q1 < q2 <-> (z1 < z2)%Z).
Proof.
  unfold rep. intros H1 H2. rewrite <- (Qmult_lt_r q1 q2 (inject_Z k) kq_pos). rewrite H1, H2. rewrite <- Zlt_Qlt. reflexivity.
Qed.
Lemma rep_eq q1 z1 q2 z2 : rep q1 z1 -> rep q2 z2 -> (q1 == q2 <-> z1 = z2).
Proof.
  unfold rep. intros H1 H2. rewrite <- (Qmult_inj_r q1 q2 (inject_Z k) kq_ne). rewrite H1, H2. apply inject_Z_injective.
Qed.
Lemma rep_le q1 z1 q2 z2 : rep q1 z1 -> rep q2 z2 -> Qle_bool q1 q2 = Z.leb z1 z2.
Proof.
  intros H1 H2. pose proof (rep_lt q2 z2 q1 z1 H2 H1) as L.
  destruct (Z.leb_spec z1 z2) as [Hz|Hz].
  - apply Qle_bool_iff. apply Qnot_lt_le. intros C. apply L in C. lia.
  - destruct (Qle_bool q1 q2) eqn:E; [|reflexivity]. apply Qle_bool_iff in E. apply L in Hz.
    exfalso. apply (Qlt_irrefl q1). eapply Qle_lt_trans; eassumption.
Qed.
Lemma rep_eqb q1 z1 q2 z2 : rep q1 z1 -> rep q2 z2 -> Qeq_bool q1 q2 = Z.eqb z1 z2.
Proof.
  intros H1 H2. pose proof (rep_eq q1 z1 q2 z2 H1 H2) as L.
  destruct (Z.eqb_spec z1 z2) as [Hz|Hz].
  - apply Qeq_bool_iff. apply L. exact Hz.
  - destruct (Qeq_bool q1 q2) eqn:E; [|reflexivity]. apply Qeq_bool_iff in E. apply L in E. contradiction.
Qed.
Lemma rep_add q1 z1 q2 z2 : rep q1 z1 -> rep q2 z2 -> rep (q1 + q2) (z1 + z2).
Proof. unfold rep. intros H1 H2. rewrite inject_Z_plus, <- H1, <- H2. ring. Qed.
Lemma rep_nzb g z : rep g z -> nzbQ g = nzb z.
Proof. intros H. unfold nzbQ, nzb. rewrite (rep_eqb g z 0 0%Z H rep0). reflexivity. Qed.

Lemma xlt_rel a a' b b' : orep a a' -> orep b b' -> xltQ a b = xlt a' b'.
Proof.
  destruct a as [x|], a' as [x'|], b as [y|], b' as [y'|]; cbn [orep xltQ xlt]; intros H1 H2; try contradiction; try reflexivity.
  rewrite (rep_le y y' x x' H2 H1). rewrite Z.ltb_antisym. reflexivity.
Qed.
Lemma xeq_rel a a' b b' : orep a a' -> orep b b' -> xeqQ a b = xeq a' b'.
Proof.
  destruct a as [x|], a' as [x'|], b as [y|], b' as [y'|]; cbn [orep xeqQ xeq]; intros H1 H2; try contradiction; try reflexivity.
  apply rep_eqb; assumption.
Qed.
Lemma xadd_rel a a' g g' : orep a a' -> rep g g' -> orep (xaddQ a g) (xadd a' g').
Proof.
  destruct a as [x|], a' as [x'|]; cbn [orep xaddQ xadd]; intros H1 H2; try contradiction; [|exact I].
  unfold rep. rewrite Qred_correct. apply rep_add; assumption.
Qed.
Lemma xmin_rel a a' b b' : orep a a' -> orep b b' -> orep (xminQ a b) (xmin a' b').
Proof. intros H1 H2. unfold xminQ, xmin. rewrite (xlt_rel b b' a a' H2 H1). destruct (xlt b' a'); assumption. Qed.
Lemma isinf_rel a a' : orep a a' -> isinfQ a = isinf a'.
Proof. destruct a, a'; cbn [orep isinfQ isinf]; intros H; try contradiction; reflexivity. Qed.

(* the two per-source states in lock step *)
Record R (a : sstQ) (b : sst) : Prop := mkR {
  R_D : forall i, (i < n)%nat -> orep (qD a i) (sD b i);
  R_NP : qNP a = sNP b;
  R_P : qP a = sP b;
  R_Q : qQ a = sQ b;
  R_qf : qqf a = sqf b }.
Definition oR (x : option sstQ) (y : option sst) : Prop :=
  match x, y with Some a, Some b => R a b | None, None => True | _, _ => False end.

Lemma push_rel a b v : R a b -> R (pushQ a v) (push b v).
Proof.
  intros [HD HNP HP HQ Hq]. unfold pushQ, push. constructor; cbn [qD qNP qP qQ qqf sD sNP sP sQ sqf]; try assumption.
  - rewrite HQ, Hq. reflexivity.
  - rewrite Hq. reflexivity.
Qed.

Lemma relax_rel G1q G1 v a b w : Grel G1q G1 -> (v < n)%nat -> (w < n)%nat -> R a b ->
  R (relax_wQ G1q v a w) (relax_w G1 v b w).
Proof.
  intros HG Hv Hw [HD HNP HP HQ Hq]. unfold relax_wQ, relax_w.
  pose proof (xadd_rel _ _ _ _ (HD v Hv) (HG v w Hv Hw)) as Hduw.
  rewrite (xlt_rel _ _ _ _ Hduw (HD w Hw)), (xeq_rel _ _ _ _ Hduw (HD w Hw)).
  destruct (xlt (xadd (sD b v) (G1 v w)) (sD b w)); [|destruct (xeq (xadd (sD b v) (G1 v w)) (sD b w))].
  - constructor; cbn [qD qNP qP qQ qqf sD sNP sP sQ sqf]; try assumption.
    + intros i Hi. unfold vupd. destruct (Nat.eqb i w); [exact Hduw|apply HD; exact Hi].
    + rewrite HNP. reflexivity.
    + rewrite HP. reflexivity.
  - constructor; cbn [qD qNP qP qQ qqf sD sNP sP sQ sqf]; try assumption.
    + rewrite HNP. reflexivity.
    + rewrite HP. reflexivity.
  - constructor; assumption.
Qed.

Lemma visit_rel G1q G1 a b v : Grel G1q G1 -> (v < n)%nat -> R a b -> R (visit_wQ n G1q a v) (visit_w n G1 b v).
Proof.
  intros HG Hv HR. unfold visit_wQ, visit_w.
  rewrite (wherev_ext_in n (fun w => nzbQ (G1q v w)) (fun w => nzb (G1 v w)))
    by (intros w Hw; apply rep_nzb; apply HG; assumption).
  assert (Hl : forall w, In w (wherev n (fun w => nzb (G1 v w))) -> (w < n)%nat) by (intros w Hw; apply wherev_In in Hw; apply Hw).
  pose proof (push_rel a b v HR) as H0. revert Hl H0.
  generalize (pushQ a v) (push b v) (wherev n (fun w => nzb (G1 v w))). intros a0 b0 l. revert a0 b0.
  induction l as [|w l IH]; intros a0 b0 Hl H0; cbn [fold_left]; [exact H0|].
  apply IH; [intros x Hx; apply Hl; right; exact Hx|].
  apply relax_rel; [exact HG|exact Hv|apply Hl; left; reflexivity|exact H0].
Qed.

Lemma fold_visit_rel G1q G1 : Grel G1q G1 -> forall V a b, (forall v, In v V -> (v < n)%nat) -> R a b ->
  R (fold_left (visit_wQ n G1q) V a) (fold_left (visit_w n G1) V b).
Proof.
  intros HG. induction V as [|v V IH]; intros a b HV HR; cbn [fold_left]; [exact HR|].
  apply IH; [intros x Hx; apply HV; right; exact Hx|].
  apply visit_rel; [exact HG|apply HV; left; reflexivity|exact HR].
Qed.

Lemma tab_sst_rel a b : R a b -> R (tab_sstQ n a) (tab_sst n b).
Proof.
  intros [HD HNP HP HQ Hq]. unfold tab_sstQ, tab_sst. constructor; cbn [qD qNP qP qQ qqf sD sNP sP sQ sqf].
  - intros i Hi. rewrite !tabv_spec by exact Hi. apply HD. exact Hi.
  - rewrite HNP. reflexivity.
  - rewrite HP. reflexivity.
  - rewrite HQ. reflexivity.
  - exact Hq.
Qed.

Lemma zero_cols_rel V G1q G1 : Grel G1q G1 -> Grel (zero_colsQ n V G1q) (zero_cols n V G1).
Proof.
  intros HG i j Hi Hj. unfold zero_colsQ, zero_cols. rewrite !tab_spec by assumption.
  destruct (nmem j V); [exact rep0|apply HG; assumption].
Qed.

Lemma min_over_rel (Dq : vec (option Q)) (D : vec (option Z)) sel :
  (forall i, (i < n)%nat -> orep (Dq i) (D i)) -> (forall i, In i sel -> (i < n)%nat) ->
  orep (min_overQ Dq sel) (min_over D sel).
Proof.
  intros HD Hs. destruct sel as [|a r]; cbn [min_overQ min_over]; [exact I|].
  assert (H0 : orep (Dq a) (D a)) by (apply HD, Hs; left; reflexivity).
  assert (Hr : forall i, In i r -> (i < n)%nat) by (intros i Hi; apply Hs; right; exact Hi).
  clear Hs. revert H0 Hr. generalize (Dq a) (D a). induction r as [|i r IH]; intros m m' H0 Hr; cbn [fold_left]; [exact H0|].
  apply IH; [|intros x Hx; apply Hr; right; exact Hx].
  apply xmin_rel; [exact H0|apply HD, Hr; left; reflexivity].
Qed.

Lemma fill_front_rel a b un : R a b -> oR (fill_frontQ n a un) (fill_front n b un).
Proof.
  intros [HD HNP HP HQ Hq]. unfold fill_frontQ, fill_front. rewrite Hq.
  destruct (Nat.eqb (length un) (sqf b)); cbn [oR]; [|exact I].
  constructor; cbn [qD qNP qP qQ qqf sD sNP sP sQ sqf]; try assumption; try reflexivity. rewrite HQ. reflexivity.
Qed.

Lemma search_rel : forall fuel Sm G1q G1 V a b, Grel G1q G1 -> (forall v, In v V -> (v < n)%nat) -> R a b ->
  oR (search_wQ fuel n Sm G1q V a) (search_w fuel n Sm G1 V b).
Proof.
  induction fuel as [|f IH]; intros Sm G1q G1 V a b HG HV HR; cbn [search_wQ search_w]; [exact I|].
  pose proof (zero_cols_rel V G1q G1 HG) as HG2.
  pose proof (tab_sst_rel _ _ (fold_visit_rel _ _ HG2 V a b HV HR)) as HR1.
  set (st1q := tab_sstQ n (fold_left (visit_wQ n (zero_colsQ n V G1q)) V a)) in *.
  set (st1 := tab_sst n (fold_left (visit_w n (zero_cols n V G1)) V b)) in *.
  set (S1 := tabv false n (fun i => if nmem i V then false else Sm i)).
  destruct (wherev n S1) as [|s0 sel] eqn:Esel; [exact HR1|].
  assert (Hsel : forall i, In i (s0 :: sel) -> (i < n)%nat).
  { intros i Hi. rewrite <- Esel in Hi. apply wherev_In in Hi. apply Hi. }
  pose proof (min_over_rel (qD st1q) (sD st1) (s0 :: sel) (R_D _ _ HR1) Hsel) as Hm.
  rewrite (isinf_rel _ _ Hm).
  destruct (isinf (min_over (sD st1) (s0 :: sel))).
  - rewrite (wherev_ext_in n (fun i => isinfQ (qD st1q i)) (fun i => isinf (sD st1 i)))
      by (intros i Hi; apply isinf_rel, (R_D _ _ HR1); exact Hi).
    apply fill_front_rel. exact HR1.
  - rewrite (wherev_ext_in n (fun i => xeqQ (qD st1q i) (min_overQ (qD st1q) (s0 :: sel)))
                             (fun i => xeq (sD st1 i) (min_over (sD st1) (s0 :: sel))))
      by (intros i Hi; apply xeq_rel; [apply (R_D _ _ HR1); exact Hi|exact Hm]).
    apply IH; [exact HG2| |exact HR1]. intros v Hv. apply wherev_In in Hv. apply Hv.
Qed.

Lemma source_rel G M u : Grel G M -> (u < n)%nat -> oR (source_wQ n G u) (source_w n M u).
Proof.
  intros HG Hu. unfold source_wQ, source_w. apply search_rel.
  - intros i j Hi Hj. rewrite !tab_spec by assumption. apply HG; assumption.
  - intros v [<-|[]]. exact Hu.
  - unfold init_wQ, init_w. constructor; cbn [qD qNP qP qQ qqf sD sNP sP sQ sqf]; try reflexivity.
    intros i Hi. unfold vupd. destruct (Nat.eqb i u); cbn [orep]; [exact rep0|exact I].
Qed.

(* the accumulation reads NP, P, Q only *)
Definition eraseZ (st : sst) : sst := mk_sst (fun _ => None) (sNP st) (sP st) (sQ st) (sqf st).
Lemma erase_rel x y : oR x y -> option_map erase x = option_map eraseZ y.
Proof.
  destruct x as [a|], y as [b|]; cbn [oR option_map]; intros H; try contradiction; [|reflexivity].
  destruct H as [HD HNP HP HQ Hq]. unfold erase, eraseZ. rewrite HNP, HP, HQ, Hq. reflexivity.
Qed.

Lemma sources_n_ext (src src' : nat -> option sst) : (forall u, (u < n)%nat -> src u = src' u) ->
  sources_n n src = sources_n n src'.
Proof.
  intros H. unfold sources_n.
  assert (HL : forall l acc, (forall u, In u l -> (u < n)%nat) ->
    fold_left (fun acc u => match acc with None => None | Some BC =>
                 match src u with None => None | Some st => Some (accum_n n st BC) end end) l acc =
    fold_left (fun acc u => match acc with None => None | Some BC =>
                 match src' u with None => None | Some st => Some (accum_n n st BC) end end) l acc).
  { induction l as [|u l IH]; intros acc Hl; cbn [fold_left]; [reflexivity|].
    rewrite (H u) by (apply Hl; left; reflexivity). apply IH. intros x Hx. apply Hl. right. exact Hx. }
  apply HL. intros u Hu. apply in_seq in Hu. lia.
Qed.
Lemma sources_e_ext' (src src' : nat -> option sst) : (forall u, (u < n)%nat -> src u = src' u) ->
  sources_e n src = sources_e n src'.
Proof.
  intros H. unfold sources_e.
  assert (HL : forall l acc, (forall u, In u l -> (u < n)%nat) ->
    fold_left (fun acc u => match acc with None => None | Some (BC, EBC) =>
                 match src u with None => None | Some st => Some (accum_e n st BC EBC) end end) l acc =
    fold_left (fun acc u => match acc with None => None | Some (BC, EBC) =>
                 match src' u with None => None | Some st => Some (accum_e n st BC EBC) end end) l acc).
  { induction l as [|u l IH]; intros acc Hl; cbn [fold_left]; [reflexivity|].
    rewrite (H u) by (apply Hl; left; reflexivity). apply IH. intros x Hx. apply Hl. right. exact Hx. }
  apply HL. intros u Hu. apply in_seq in Hu. lia.
Qed.
Lemma sources_n_erase (src : nat -> option sst) : sources_n n (fun u => option_map eraseZ (src u)) = sources_n n src.
Proof.
  unfold sources_n. generalize (Some (fun _ : nat => 0)) as acc. generalize (seq 0 n) as l.
  induction l as [|u l IH]; intros acc; cbn [fold_left]; [reflexivity|]. rewrite <- IH. f_equal.
  destruct acc as [BC|]; [|reflexivity]. destruct (src u) as [st|]; reflexivity.
Qed.
Lemma sources_e_erase (src : nat -> option sst) : sources_e n (fun u => option_map eraseZ (src u)) = sources_e n src.
Proof.
  unfold sources_e. generalize (Some ((fun _ : nat => 0), (fun _ _ : nat => 0))) as acc. generalize (seq 0 n) as l.
  induction l as [|u l IH]; intros acc; cbn [fold_left]; [reflexivity|]. rewrite <- IH. f_equal.
  destruct acc as [[BC EBC]|]; [|reflexivity]. destruct (src u) as [st|]; reflexivity.
Qed.

(* the Q routines on G return the VALUES the Z routines return on M *)
Theorem weiQ_reduce_sec G M : Grel G M ->
  betweenness_weiQ n G = betweenness_wei n M /\ edge_betweenness_weiQ n G = edge_betweenness_wei n M.
Proof.
  intros HG.
  assert (E : forall u, (u < n)%nat -> option_map erase (source_wQ n G u) = option_map eraseZ (source_w n M u)).
  { intros u Hu. apply erase_rel. apply source_rel; assumption. }
  split.
  - unfold betweenness_weiQ, betweenness_wei. rewrite (sources_n_ext _ _ E). apply sources_n_erase.
  - unfold edge_betweenness_weiQ, edge_betweenness_wei. rewrite (sources_e_ext' _ _ E), sources_e_erase. reflexivity.
Qed.
End Rat.

(* ------------------------------------------------------------------------------------------ *)
(* the specification over Q lengths is the specification over the integer numerators            *)
(* ------------------------------------------------------------------------------------------ *)
Section RatSpec.
Variables (n : nat) (k : Z).
Hypothesis Hk : (0 < k)%Z.
Variables (G : mat Q) (M : mat Z).
Hypothesis HG : Grel n k G M.

Lemma edgeQ_rel a b : (a < n)%nat -> (b < n)%nat -> edgeQ G a b = edge M a b.
Proof. intros Ha Hb. unfold edgeQ, edge. exact (rep_nzb k Hk _ _ (HG a b Ha Hb)). Qed.
Lemma chainQ_rel : forall r a, (a < n)%nat -> inb n r = true -> chainQ G a r = chain M a r.
Proof.
  induction r as [|b r IH]; intros a Ha Hr; cbn [chainQ chain]; [reflexivity|].
  unfold inb in Hr. cbn [forallb] in Hr. apply andb_true_iff in Hr. destruct Hr as [Hb Hr]. apply Nat.ltb_lt in Hb.
  rewrite (edgeQ_rel a b Ha Hb), (IH b Hb Hr). reflexivity.
Qed.
Lemma clenQ_rel : forall r a, (a < n)%nat -> inb n r = true -> rep k (clenQ G a r) (clen M a r).
Proof.
  induction r as [|b r IH]; intros a Ha Hr; cbn [clenQ clen]; [apply rep0|].
  unfold inb in Hr. cbn [forallb] in Hr. apply andb_true_iff in Hr. destruct Hr as [Hb Hr]. apply Nat.ltb_lt in Hb.
  apply rep_add; [apply HG; assumption|apply IH; assumption].
Qed.
Lemma wftQ_rel s t p : wftQ n G s t p = wft n M s t p.
Proof.
  destruct p as [|a r]; [reflexivity|]. unfold wftQ, wft.
  destruct (inb n (a :: r)) eqn:E; [|rewrite !andb_false_r; reflexivity].
  assert (E' := E). unfold inb in E'. cbn [forallb] in E'. apply andb_true_iff in E'. destruct E' as [Ha Hr]. apply Nat.ltb_lt in Ha.
  rewrite (chainQ_rel r a Ha Hr). reflexivity.
Qed.
Lemma wlenQ_rel s t p : wft n M s t p = true -> rep k (wlenQ G p) (wlen M p).
Proof.
  destruct p as [|a r]; [discriminate|]. unfold wft. intros H.
  apply andb_true_iff in H. destruct H as [H _]. apply andb_true_iff in H. destruct H as [_ E].
  unfold inb in E. cbn [forallb] in E. apply andb_true_iff in E. destruct E as [Ha Hr]. apply Nat.ltb_lt in Ha.
  cbn [wlenQ wlen]. apply clenQ_rel; assumption.
Qed.

(* the same LIST of minimum-length walks *)
Theorem spathsQ_eq s t : spathsQ n G s t = spaths n M s t.
Proof.
  unfold spathsQ, spaths, walks_stQ, walks_st.
  rewrite (filter_ext (wftQ n G s t) (wft n M s t)) by (intros; apply wftQ_rel).
  apply filter_ext_in. intros p Hp. apply filter_In in Hp. destruct Hp as [_ Hp].
  apply forallb_ext_in. intros q Hq. apply filter_In in Hq. destruct Hq as [_ Hq].
  apply (rep_le k Hk); eapply wlenQ_rel; eassumption.
Qed.
Lemma sigmaQ_eq s t : sigmaQ n G s t = sigma n M s t.
Proof. unfold sigmaQ, sigma. rewrite spathsQ_eq. reflexivity. Qed.
Lemma sigma_throughQ_eq s t v : sigma_throughQ n G s t v = sigma_through n M s t v.
Proof. unfold sigma_throughQ, sigma_through. rewrite spathsQ_eq. reflexivity. Qed.
Lemma sigma_edgeQ_eq s t x y : sigma_edgeQ n G s t x y = sigma_edge n M s t x y.
Proof. unfold sigma_edgeQ, sigma_edge. rewrite spathsQ_eq. reflexivity. Qed.

Theorem specQ_reduce_sec :
  (forall v, BC_specQ n G v == BC_spec n M v) /\ (forall x y, EBC_specQ n G x y == EBC_spec n M x y).
Proof.
  split.
  - intros v. unfold BC_specQ, BC_spec. apply sumQ_ext. intros s _. apply sumQ_ext. intros t _.
    rewrite sigmaQ_eq, sigma_throughQ_eq. reflexivity.
  - intros x y. unfold EBC_specQ, EBC_spec. apply sumQ_ext. intros s _. apply sumQ_ext. intros t _.
    rewrite sigmaQ_eq, sigma_edgeQ_eq. reflexivity.
Qed.
End RatSpec.

(* ------------------------------------------------------------------------------------------ *)
(* every rational matrix has a common denominator                                               *)
(* ------------------------------------------------------------------------------------------ *)
Open Scope Z_scope.
Definition dprod (G : mat Q) (l : list (nat * nat)) : Z :=
  fold_right (fun c acc => Zpos (Qden (G (fst c) (snd c))) * acc) 1 l.
Lemma dprod_pos G l : 0 < dprod G l.
Proof. induction l as [|c l IH]; cbn [dprod fold_right]; [lia|]. fold (dprod G l). lia. Qed.
Lemma dprod_div G l c : In c l -> (Zpos (Qden (G (fst c) (snd c))) | dprod G l).
Proof.
  induction l as [|a l IH]; intros H; [destruct H|]. cbn [dprod fold_right]. fold (dprod G l). destruct H as [->|H].
  - apply Z.divide_mul_l, Z.divide_refl.
  - apply Z.divide_mul_r, IH, H.
Qed.
Definition cden (n : nat) (G : mat Q) : Z := dprod G (cells n).
Definition cnum (n : nat) (G : mat Q) : mat Z := fun i j => Qnum (G i j) * (cden n G / Zpos (Qden (G i j))).

Lemma cden_pos n G : 0 < cden n G.
Proof. apply dprod_pos. Qed.
Lemma cden_rel n G : Grel n (cden n G) G (cnum n G).
Proof.
  intros i j Hi Hj. unfold rep, cnum.
  destruct (dprod_div G (cells n) (i, j)) as [m Hm]; [apply cells_In; split; assumption|].
  cbn [fst snd] in Hm. fold (cden n G) in Hm. rewrite Hm. rewrite Z.div_mul by lia.
  destruct (G i j) as [a d]. cbn [Qnum Qden]. unfold Qeq, Qmult, inject_Z. cbn [Qnum Qden]. rewrite Pos2Z.inj_mul. ring.
Qed.
Lemma cnum_nonneg n G : nonneg_lenQ n G -> nonneg_len n (cnum n G).
Proof.
  intros H i j Hi Hj. specialize (H i j Hi Hj). unfold cnum.
  destruct (dprod_div G (cells n) (i, j)) as [m Hm]; [apply cells_In; split; assumption|].
  cbn [fst snd] in Hm. fold (cden n G) in Hm. pose proof (cden_pos n G) as Hp. rewrite Hm. rewrite Z.div_mul by lia.
  unfold Qle in H. cbn [Qnum Qden] in H. assert (0 <= Qnum (G i j)) by lia. assert (0 < m) by nia. nia.
Qed.

(* ------------------------------------------------------------------------------------------ *)
(* closed statements                                                                            *)
(* ------------------------------------------------------------------------------------------ *)
Open Scope Q_scope.
(* G * k = M entrywise (on the n x n grid) *)
Definition scaled_to (n : nat) (k : Z) (G : mat Q) (M : mat Z) : Prop :=
  forall i j, (i < n)%nat -> (j < n)%nat -> G i j * inject_Z k == inject_Z (M i j).

Theorem weiQ_reduce n k G M : (0 < k)%Z -> scaled_to n k G M ->
  betweenness_weiQ n G = betweenness_wei n M /\ edge_betweenness_weiQ n G = edge_betweenness_wei n M.
Proof. intros Hk H. exact (weiQ_reduce_sec n k Hk G M H). Qed.
Theorem specQ_reduce n k G M : (0 < k)%Z -> scaled_to n k G M ->
  (forall s t, spathsQ n G s t = spaths n M s t) /\
  (forall v, BC_specQ n G v == BC_spec n M v) /\ (forall x y, EBC_specQ n G x y == EBC_spec n M x y).
Proof. intros Hk H. split; [intros s t; exact (spathsQ_eq n k Hk G M H s t)|exact (specQ_reduce_sec n k Hk G M H)]. Qed.

(* the matrix of fractions M[i,j] / k (e.g. k = 2^20: exactly the binary64 values the harness passes) *)
Definition fracG (k : positive) (M : mat Z) : mat Q := fun i j => Qmake (M i j) k.
Lemma fracG_scaled n k M : scaled_to n (Zpos k) (fracG k M) M.
Proof. intros i j _ _. unfold fracG, Qeq, Qmult, inject_Z. cbn [Qnum Qden]. rewrite Pos2Z.inj_mul. ring. Qed.
Theorem weiQ_of_fraction n k M :
  betweenness_weiQ n (fracG k M) = betweenness_wei n M /\ edge_betweenness_weiQ n (fracG k M) = edge_betweenness_wei n M.
Proof. apply (weiQ_reduce n (Zpos k)); [lia|apply fracG_scaled]. Qed.

Theorem common_denominator n G : nonneg_lenQ n G ->
  exists k M, (0 < k)%Z /\ scaled_to n k G M /\ nonneg_len n M.
Proof.
  intros H. exists (cden n G), (cnum n G). split; [apply cden_pos|]. split; [apply cden_rel|apply cnum_nonneg; exact H].
Qed.

(* bc_correct for rational lengths *)
Theorem bc_weiQ_correct n G : nonneg_lenQ n G ->
  exists BC, betweenness_weiQ n G = Some BC /\ forall v, (v < n)%nat -> BC v == BC_specQ n G v.
Proof.
  intros H. destruct (common_denominator n G H) as (k & M & Hk & HS & HM).
  destruct (weiQ_reduce n k G M Hk HS) as [E _]. destruct (specQ_reduce n k G M Hk HS) as (_ & S1 & _).
  destruct (bc_wei_correct n M HM) as (BC & E1 & H1). exists BC. split; [rewrite E; exact E1|].
  intros v Hv. rewrite (H1 v Hv). symmetry. apply S1.
Qed.
Theorem ebc_weiQ_correct n G : nonneg_lenQ n G ->
  exists EBC BC, edge_betweenness_weiQ n G = Some (EBC, BC) /\
    (forall v, (v < n)%nat -> BC v == BC_specQ n G v) /\
    (forall x y, (x < n)%nat -> (y < n)%nat -> EBC x y == EBC_specQ n G x y).
Proof.
  intros H. destruct (common_denominator n G H) as (k & M & Hk & HS & HM).
  destruct (weiQ_reduce n k G M Hk HS) as [_ E]. destruct (specQ_reduce n k G M Hk HS) as (_ & S1 & S2).
  destruct (ebc_wei_correct n M HM) as (EBC & BC & E1 & H1 & H2). exists EBC, BC. split; [rewrite E; exact E1|]. split.
  - intros v Hv. rewrite (H1 v Hv). symmetry. apply S1.
  - intros x y Hx Hy. rewrite (H2 x y Hx Hy). symmetry. apply S2.
Qed.

(* scaling all lengths by a positive RATIONAL changes neither the specification nor the routines' results *)
Definition scaleQ (c : Q) (G : mat Q) : mat Q := fun i j => c * G i j.
Lemma scaleQ_scaled n k c G M : 0 < c -> scaled_to n k G M ->
  scaled_to n (k * Zpos (Qden c)) (scaleQ c G) (scaleG (Qnum c) M).
Proof.
  intros Hc H i j Hi Hj. specialize (H i j Hi Hj). unfold scaleQ, scaleG.
  rewrite !inject_Z_mult. rewrite <- H.
  assert (Ec : c * inject_Z (Zpos (Qden c)) == inject_Z (Qnum c)).
  { destruct c as [a d]. unfold Qeq, Qmult, inject_Z. cbn [Qnum Qden]. rewrite Pos2Z.inj_mul. ring. }
  rewrite <- Ec. ring.
Qed.
Theorem specQ_scale_invariant n c G : 0 < c -> nonneg_lenQ n G ->
  (forall v, BC_specQ n (scaleQ c G) v == BC_specQ n G v) /\
  (forall x y, EBC_specQ n (scaleQ c G) x y == EBC_specQ n G x y).
Proof.
  intros Hc H. destruct (common_denominator n G H) as (k & M & Hk & HS & HM).
  assert (Ha : (0 < Qnum c)%Z) by (unfold Qlt in Hc; cbn [Qnum Qden] in Hc; lia).
  assert (Hk' : (0 < k * Zpos (Qden c))%Z) by lia.
  destruct (specQ_reduce n _ _ _ Hk' (scaleQ_scaled n k c G M Hc HS)) as (_ & A1 & A2).
  destruct (specQ_reduce n k G M Hk HS) as (_ & B1 & B2).
  destruct (spec_scale_invariant (Qnum c) M Ha n) as [C1 C2]. split.
  - intros v. rewrite A1, B1. apply C1.
  - intros x y. rewrite A2, B2. apply C2.
Qed.
Lemma nonneg_scaleQ n c G : 0 < c -> nonneg_lenQ n G -> nonneg_lenQ n (scaleQ c G).
Proof. intros Hc H i j Hi Hj. unfold scaleQ. apply Qmult_le_0_compat; [apply Qlt_le_weak; exact Hc|apply H; assumption]. Qed.
Theorem weiQ_scale_invariant n c G : 0 < c -> nonneg_lenQ n G ->
  (exists BC' BC, betweenness_weiQ n (scaleQ c G) = Some BC' /\ betweenness_weiQ n G = Some BC /\
     forall v, (v < n)%nat -> BC' v == BC v) /\
  (exists E' B' E B, edge_betweenness_weiQ n (scaleQ c G) = Some (E', B') /\ edge_betweenness_weiQ n G = Some (E, B) /\
     (forall v, (v < n)%nat -> B' v == B v) /\ (forall x y, (x < n)%nat -> (y < n)%nat -> E' x y == E x y)).
Proof.
  intros Hc H. pose proof (nonneg_scaleQ n c G Hc H) as H'. destruct (specQ_scale_invariant n c G Hc H) as [S1 S2]. split.
  - destruct (bc_weiQ_correct n _ H') as (BC' & E1 & H1). destruct (bc_weiQ_correct n G H) as (BC & E2 & H2).
    exists BC', BC. split; [exact E1|]. split; [exact E2|]. intros v Hv. rewrite (H1 v Hv), (H2 v Hv). apply S1.
  - destruct (ebc_weiQ_correct n _ H') as (E' & B' & E1 & H1 & H1'). destruct (ebc_weiQ_correct n G H) as (E & B & E2 & H2 & H2').
    exists E', B', E, B. split; [exact E1|]. split; [exact E2|]. split.
    + intros v Hv. rewrite (H1 v Hv), (H2 v Hv). apply S1.
    + intros x y Hx Hy. rewrite (H1' x y Hx Hy), (H2' x y Hx Hy). apply S2.
Qed.

(* non-vacuity: the diamond of Properties/C08.v with lengths 1/10, 2/10 (0->1->3 and 0->2->3 tie at 3/10) *)
Definition qdiamond : list (list Q) :=
  [[0; 1#10; 2#10; 0; 0]; [0; 0; 0; 2#10; 0]; [0; 0; 0; 1#10; 0]; [0; 0; 0; 0; 0]; [0; 0; 0; 0; 0]].
Example weiQ_nonvacuous :
  nonneg_lenQ 5 (of_rows 0 qdiamond) /\ run_bc_weiQ qdiamond = Some [0; 1#2; 1#2; 0; 0] /\
  option_map snd (run_ebc_weiQ qdiamond) = Some [0; 1#2; 1#2; 0; 0].
Proof.
  split; [|vm_compute; split; reflexivity].
  intros i j Hi Hj. do 5 (destruct i as [|i]; [do 5 (destruct j as [|j]; [vm_compute; discriminate|]); lia|]). lia.
Qed.

(* the statements as exported by Properties/C08.v *)
Theorem weiQ_reduce_all n k G M : (0 < k)%Z -> scaled_to n k G M ->
  (betweenness_weiQ n G = betweenness_wei n M /\ edge_betweenness_weiQ n G = edge_betweenness_wei n M) /\
  (forall s t, spathsQ n G s t = spaths n M s t) /\
  (forall v, BC_specQ n G v == BC_spec n M v) /\ (forall x y, EBC_specQ n G x y == EBC_spec n M x y).
Proof. intros Hk H. exact (conj (weiQ_reduce n k G M Hk H) (specQ_reduce n k G M Hk H)). Qed.
Theorem bc_weiQ_correct_all n G : nonneg_lenQ n G ->
  (exists BC, betweenness_weiQ n G = Some BC /\ forall v, (v < n)%nat -> BC v == BC_specQ n G v) /\
  (exists EBC BC, edge_betweenness_weiQ n G = Some (EBC, BC) /\
    (forall v, (v < n)%nat -> BC v == BC_specQ n G v) /\
    (forall x y, (x < n)%nat -> (y < n)%nat -> EBC x y == EBC_specQ n G x y)).
Proof. intros H. exact (conj (bc_weiQ_correct n G H) (ebc_weiQ_correct n G H)). Qed.
Theorem weiQ_scale_all n c G : 0 < c -> nonneg_lenQ n G ->
  ((forall v, BC_specQ n (scaleQ c G) v == BC_specQ n G v) /\
   (forall x y, EBC_specQ n (scaleQ c G) x y == EBC_specQ n G x y)) /\
  (exists BC' BC, betweenness_weiQ n (scaleQ c G) = Some BC' /\ betweenness_weiQ n G = Some BC /\
     forall v, (v < n)%nat -> BC' v == BC v) /\
  (exists E' B' E B, edge_betweenness_weiQ n (scaleQ c G) = Some (E', B') /\ edge_betweenness_weiQ n G = Some (E, B) /\
     (forall v, (v < n)%nat -> B' v == B v) /\ (forall x y, (x < n)%nat -> (y < n)%nat -> E' x y == E x y)).
Proof.
  intros Hc H. destruct (weiQ_scale_invariant n c G Hc H) as [A B].
  exact (conj (specQ_scale_invariant n c G Hc H) (conj A B)).
Qed.

Print Assumptions weiQ_reduce.
Print Assumptions bc_weiQ_correct.
Print Assumptions ebc_weiQ_correct.
Print Assumptions weiQ_scale_invariant.
