(* Proofs/AliasLang.v — soundness of the alias/mutation checker of Model/AliasLang.v (C13). *)
From Coq Require Import List String Bool Arith Lia.
From BCT Require Import Model.AliasLang.
Import ListNotations.
Open Scope string_scope.

(* ------------------------------------------------------------------ finite sets *)
Lemma mem_cons x a T : mem x (a :: T) = (String.eqb x a || mem x T).
Proof. reflexivity. Qed.

Lemma mem_In x T : mem x T = true <-> In x T.
Proof.
  unfold mem. rewrite existsb_exists. split.
  - intros [y [Hy He]]. apply String.eqb_eq in He. subst. exact Hy.
  - intros H. exists x. split; [exact H|apply String.eqb_refl].
Qed.

Lemma mem_filter f x T : mem x (filter f T) = mem x T && f x.
Proof.
  induction T as [|a T IH]; [reflexivity|].
  cbn [filter]. destruct (f a) eqn:Fa.
  - rewrite !mem_cons, IH. destruct (String.eqb x a) eqn:E; cbn [orb]; [|reflexivity].
    apply String.eqb_eq in E. subst. rewrite Fa. reflexivity.
  - rewrite mem_cons, IH. destruct (String.eqb x a) eqn:E; cbn [orb]; [|reflexivity].
    apply String.eqb_eq in E. subst. rewrite Fa. rewrite !andb_false_r. reflexivity.
Qed.

Lemma mem_add x y T : mem x (add y T) = (String.eqb x y || mem x T).
Proof.
  unfold add. destruct (mem y T) eqn:E; [|reflexivity].
  destruct (String.eqb x y) eqn:Exy; [|reflexivity].
  apply String.eqb_eq in Exy. subst. exact E.
Qed.

Lemma mem_remove x y T : mem x (remove y T) = mem x T && negb (String.eqb x y).
Proof. unfold remove. apply mem_filter. Qed.

Lemma mem_union x A B : mem x (union A B) = mem x A || mem x B.
Proof.
  induction A as [|a A IH]; [reflexivity|].
  cbn [union fold_right]. fold (union A B). rewrite mem_add, IH, mem_cons. apply orb_assoc.
Qed.

Lemma mem_minus x M B : mem x (minus M B) = mem x M && negb (mem x B).
Proof. unfold minus. apply mem_filter. Qed.

Lemma mem_inter x A B : mem x (inter A B) = mem x A && mem x B.
Proof. unfold inter. apply mem_filter. Qed.

Lemma subset_spec A B : subset A B = true -> forall x, mem x A = true -> mem x B = true.
Proof.
  unfold subset. rewrite forallb_forall. intros H x Hx. apply H. apply mem_In. exact Hx.
Qed.

Lemma minus_idem M B : minus (minus M B) B = minus M B.
Proof.
  unfold minus. induction M as [|a M IH]; [reflexivity|].
  cbn [filter]. destruct (negb (mem a B)) eqn:E; [|exact IH].
  cbn [filter]. rewrite E, IH. reflexivity.
Qed.

Lemma loop_fix_spec F fuel : forall T T' R,
  loop_fix F fuel T = Some (T', R) ->
  (forall x, mem x T = true -> mem x T' = true) /\
  exists T'', F T' = Some (T'', R) /\ subset T'' T' = true.
Proof.
  induction fuel as [|k IH]; intros T T' R; cbn [loop_fix]; [discriminate|].
  destruct (F T) as [[T1 R1]|] eqn:E; [|discriminate].
  destruct (subset T1 T) eqn:Es.
  - intros H. inversion H; subst. split; [auto|]. exists T1. auto.
  - intros H. apply IH in H. destruct H as [Hsub Hex]. split; [|exact Hex].
    intros x Hx. apply Hsub. rewrite mem_union, Hx. apply orb_true_r.
Qed.

Lemma lookup_In prog f fd : lookup prog f = Some fd -> In fd prog.
Proof. unfold lookup. intros H. apply find_some in H. tauto. Qed.

Lemma flags_of_complete fl cur b : callee_flag fl cur b -> In b (flags_of fl cur).
Proof.
  destruct fl; cbn; intros H; subst; auto. destruct b; auto.
Qed.

(* ------------------------------------------------------------------ semantics *)
Section Soundness.
Variable val : Type.
Variable prog : list fundef.

Notation state := (state val).
Notation outcome := (outcome val).
Notation exec := (exec val prog).

Lemma exec_next_flag : forall c s o, exec c s o -> next s <= next (st_of o) /\ flag (st_of o) = flag s.
Proof.
  induction 1; cbn [st_of next flag] in *; try (split; [lia|reflexivity]); try assumption.
  - destruct IHexec1 as [A1 B1], IHexec2 as [A2 B2]. split; [lia|congruence].
  - destruct IHexec1 as [A1 B1], IHexec2 as [A2 B2]. split; [lia|congruence].
  - destruct IHexec1 as [A1 B1], IHexec2 as [A2 B2]. cbn [st_of] in *. split; [lia|congruence].
  - destruct IHexec as [A1 B1]. destruct o; cbn [call_ret st_of next flag] in *; split; (lia || reflexivity).
Qed.

Lemma exec_next c s o : exec c s o -> next s <= next (st_of o).
Proof. intros H. apply exec_next_flag in H. tauto. Qed.
Lemma exec_flag c s o : exec c s o -> flag (st_of o) = flag s.
Proof. intros H. apply exec_next_flag in H. tauto. Qed.

(* the invariant: every name bound to a protected location is in T *)
Definition inv (P : loc -> Prop) (T : list name) (s : state) : Prop :=
  forall x l, env s x = Some l -> P l -> mem x T = true.

Lemma inv_weaken P T T' s : inv P T s -> (forall x, mem x T = true -> mem x T' = true) -> inv P T' s.
Proof. intros H Hs x l Hx Hl. apply Hs. eapply H; eauto. Qed.

Lemma inv_upd P T T' (s : state) x v h n f :
  inv P T s ->
  (forall l, v = Some l -> P l -> mem x T' = true) ->
  (forall y, y <> x -> mem y T = true -> mem y T' = true) ->
  inv P T' (mkst (upd_env (env s) x v) h n f).
Proof.
  intros Hinv Hx Hy y l Hyl HP. cbn [env] in Hyl. unfold upd_env in Hyl.
  destruct (String.eqb y x) eqn:E.
  - apply String.eqb_eq in E. subst. eauto.
  - apply String.eqb_neq in E. apply Hy; [exact E|]. eapply Hinv; eauto.
Qed.

Lemma keep_remove x y T : y <> x -> mem y T = true -> mem y (remove x T) = true.
Proof. intros Hn H. rewrite mem_remove, H. apply String.eqb_neq in Hn. rewrite Hn. reflexivity. Qed.
Lemma keep_add x y T : mem y T = true -> mem y (add x T) = true.
Proof. intros H. rewrite mem_add, H. apply orb_true_r. Qed.
Lemma mem_add_same x T : mem x (add x T) = true.
Proof. rewrite mem_add, String.eqb_refl. reflexivity. Qed.

Lemma heap_upd_fresh (P : loc -> Prop) (h : loc -> val) n v l :
  (forall l, P l -> l < n) -> P l -> upd_heap h n v l = h l.
Proof.
  intros HP Hl. unfold upd_heap. destruct (Nat.eqb l n) eqn:E; [|reflexivity].
  apply Nat.eqb_eq in E. apply HP in Hl. lia.
Qed.

(* if T already contains everything c may bind to a non-fresh value, T stays an invariant through ANY run of c *)
Lemma inv_any : forall c s o, exec c s o ->
  forall (P : loc -> Prop) T, (forall l, P l -> l < next s) -> inv P T s ->
    (forall x, In x (mb c) -> mem x T = true) -> inv P T (st_of o).
Proof.
  induction 1; intros P T HP Hinv Hmb; cbn [st_of] in *; try exact Hinv.
  - (* Fresh *) eapply inv_upd; [exact Hinv| |auto].
    intros l Hl HPl. inversion Hl; subst. apply HP in HPl. lia.
  - (* Copy *) eapply inv_upd; [exact Hinv| |auto].
    intros l0 Hl HPl. inversion Hl; subst. apply HP in HPl. lia.
  - (* CopyNone *) eapply inv_upd; [exact Hinv| |auto].
    intros l0 Hl HPl. inversion Hl; subst. apply HP in HPl. lia.
  - (* Alias *) eapply inv_upd; [exact Hinv| |auto]. intros. apply Hmb. cbn. auto.
  - (* Unknown *) eapply inv_upd; [exact Hinv| |auto]. intros. apply Hmb. cbn. auto.
  - (* SeqN *)
    assert (H1 : inv P T s1).
    { apply (IHexec1 P T HP Hinv). intros x Hx. apply Hmb. cbn. apply in_or_app. auto. }
    apply (IHexec2 P T); [|exact H1|].
    + intros l Hl. apply HP in Hl. apply exec_next in H. cbn [st_of] in H. lia.
    + intros x Hx. apply Hmb. cbn. apply in_or_app. auto.
  - (* SeqR *) apply (IHexec P T HP Hinv). intros x Hx. apply Hmb. cbn. apply in_or_app. auto.
  - (* SeqX *) apply (IHexec P T HP Hinv). intros x Hx. apply Hmb. cbn. apply in_or_app. auto.
  - (* ChoiceL *) apply (IHexec P T HP Hinv). intros x Hx. apply Hmb. cbn. apply in_or_app. auto.
  - (* ChoiceR *) apply (IHexec P T HP Hinv). intros x Hx. apply Hmb. cbn. apply in_or_app. auto.
  - (* LoopStep *)
    assert (H1 : inv P T s1) by (apply (IHexec1 P T HP Hinv); exact Hmb).
    apply (IHexec2 P T); [|exact H1|exact Hmb].
    intros l Hl. apply HP in Hl. apply exec_next in H. cbn [st_of] in H. lia.
  - (* LoopR *) apply (IHexec P T HP Hinv). exact Hmb.
  - (* LoopX *) apply (IHexec P T HP Hinv). exact Hmb.
  - (* IfT *) apply (IHexec P T HP Hinv). intros x Hx. apply Hmb. cbn. apply in_or_app. auto.
  - (* IfF *) apply (IHexec P T HP Hinv). intros x Hx. apply Hmb. cbn. apply in_or_app. auto.
  - (* TryPass *) apply (IHexec P T HP Hinv). intros x Hx. apply Hmb. cbn. apply in_or_app. auto.
  - (* TryCatch *)
    assert (H1 : inv P T s1).
    { apply (IHexec1 P T HP Hinv). intros x Hx. apply Hmb. cbn. apply in_or_app. auto. }
    apply (IHexec2 P T); [|exact H1|].
    + intros l Hl. apply HP in Hl. apply exec_next in H. cbn [st_of] in H. lia.
    + intros x Hx. apply Hmb. cbn. apply in_or_app. auto.
  - (* Call *)
    assert (Hx : mem x T = true) by (apply Hmb; cbn; auto).
    destruct o; cbn [call_ret st_of]; try exact Hinv.
    + eapply inv_upd; [exact Hinv|discriminate|auto].
    + eapply inv_upd; [exact Hinv|auto|auto].
Qed.

Lemma args_ok_inv P T Tc (s : state) : inv P T s -> forall ps args,
  args_ok T Tc ps args = true ->
  forall p l, bind_params ps (map (env s) args) p = Some l -> P l -> mem p Tc = true.
Proof.
  intros Hinv. induction ps as [|q ps IH]; intros args Hok p l Hb HPl; [discriminate|].
  destruct args as [|a args]; [discriminate|].
  cbn [args_ok] in Hok. apply andb_true_iff in Hok. destruct Hok as [Ha Hrest].
  cbn [map bind_params] in Hb. unfold upd_env in Hb.
  destruct (String.eqb p q) eqn:E.
  - apply String.eqb_eq in E. subst.
    apply orb_true_iff in Ha. destruct Ha as [Ha|Ha]; [|exact Ha].
    rewrite (Hinv a l Hb HPl) in Ha. discriminate.
  - eapply IH; eauto.
Qed.

Hypothesis Hsum : summaries_ok prog = true.

Lemma summary_of f fd b : lookup prog f = Some fd ->
  exists T R, may_alias_params prog (fbody fd) (protected fd b) b = Some (T, R) /\ (R = true -> fret fd b = true).
Proof.
  intros Hl. apply lookup_In in Hl. unfold summaries_ok in Hsum. rewrite forallb_forall in Hsum.
  specialize (Hsum fd Hl). apply andb_true_iff in Hsum. destruct Hsum as [Hb _].
  unfold check_body in Hb. apply andb_true_iff in Hb. destruct Hb as [Ht Hf].
  unfold check_body_flag in *.
  destruct b.
  - destruct (may_alias_params prog (fbody fd) (protected fd true) true) as [[T R]|]; [|discriminate].
    exists T, R. split; [reflexivity|]. intros HR. subst. exact Ht.
  - destruct (may_alias_params prog (fbody fd) (protected fd false) false) as [[T R]|]; [|discriminate].
    exists T, R. split; [reflexivity|]. intros HR. subst. exact Hf.
Qed.

(* MAIN LEMMA.  P = the protected locations (all allocated before the run).  If the abstract interpreter
   accepts c from T, and T covers every name bound to a protected location, then in EVERY run of c
   (normal, returning, or raising at any intermediate point) the protected locations keep their contents. *)
Lemma sound_gen : forall c s o, exec c s o ->
  forall (P : loc -> Prop) T T' R, (forall l, P l -> l < next s) ->
    may_alias_params prog c T (flag s) = Some (T', R) -> inv P T s ->
    (forall l, P l -> heap (st_of o) l = heap s l) /\
    match o with
    | Normal s' => inv P T' s'
    | Returned s' r => R = false -> forall l, r = Some l -> ~ P l
    | Raised _ => True
    end.
Proof.
  induction 1; intros P T T' R HP Hai Hinv.
  - (* Raise *) split; [reflexivity|exact I].
  - (* Skip *) cbn in Hai. inversion Hai; subst T' R. split; [reflexivity|exact Hinv].
  - (* Fresh *) cbn in Hai. inversion Hai; subst T' R. cbn [st_of heap]. split.
    + intros l Hl. eapply heap_upd_fresh; eauto.
    + eapply inv_upd; [exact Hinv| |intros; apply keep_remove; auto].
      intros l Hl HPl. inversion Hl; subst. apply HP in HPl. lia.
  - (* Copy *) cbn in Hai. inversion Hai; subst T' R. cbn [st_of heap]. split.
    + intros l0 Hl. eapply heap_upd_fresh; eauto.
    + eapply inv_upd; [exact Hinv| |intros; apply keep_remove; auto].
      intros l0 Hl HPl. inversion Hl; subst. apply HP in HPl. lia.
  - (* CopyNone *) cbn in Hai. inversion Hai; subst T' R. cbn [st_of heap]. split.
    + intros l0 Hl. eapply heap_upd_fresh; eauto.
    + eapply inv_upd; [exact Hinv| |intros; apply keep_remove; auto].
      intros l0 Hl HPl. inversion Hl; subst. apply HP in HPl. lia.
  - (* Alias *) cbn in Hai. inversion Hai; subst T' R. cbn [st_of heap]. split; [reflexivity|].
    destruct (mem y T) eqn:Ey.
    + eapply inv_upd; [exact Hinv|intros; apply mem_add_same|intros; apply keep_add; auto].
    + eapply inv_upd; [exact Hinv| |intros; apply keep_remove; auto].
      intros l Hl HPl. rewrite (Hinv y l Hl HPl) in Ey. discriminate.
  - (* Unknown *) cbn in Hai. inversion Hai; subst T' R. cbn [st_of heap]. split; [reflexivity|].
    eapply inv_upd; [exact Hinv|intros; apply mem_add_same|intros; apply keep_add; auto].
  - (* Mutate *) cbn in Hai. destruct (mem x T) eqn:Ex; [discriminate|]. inversion Hai; subst T' R.
    cbn [st_of heap]. split.
    + intros l0 Hl0. unfold upd_heap. destruct (Nat.eqb l0 l) eqn:E; [|reflexivity].
      apply Nat.eqb_eq in E. subst. rewrite (Hinv x l H Hl0) in Ex. discriminate.
    + exact Hinv.
  - (* MutateNone *) cbn in Hai. destruct (mem x T) eqn:Ex; [discriminate|]. inversion Hai; subst T' R.
    split; [reflexivity|exact Hinv].
  - (* Return *) cbn in Hai. inversion Hai; subst T' R. cbn [st_of]. split; [reflexivity|].
    intros Hm l Hl HPl. rewrite (Hinv x l Hl HPl) in Hm. discriminate.
  - (* SeqN *)
    cbn in Hai. destruct (may_alias_params prog c1 T (flag s)) as [[T1 R1]|] eqn:E1; [|discriminate].
    destruct (may_alias_params prog c2 T1 (flag s)) as [[T2 R2]|] eqn:E2; [|discriminate].
    inversion Hai; subst T' R.
    destruct (IHexec1 P T T1 R1 HP E1 Hinv) as [Hh1 Hi1]. cbn [st_of] in *.
    assert (HP1 : forall l, P l -> l < next s1).
    { intros l Hl. apply HP in Hl. apply exec_next in H. cbn [st_of] in H. lia. }
    assert (Hf : flag s1 = flag s) by (apply exec_flag in H; exact H).
    rewrite <- Hf in E2.
    destruct (IHexec2 P T1 T2 R2 HP1 E2 Hi1) as [Hh2 Hi2].
    split; [intros l Hl; rewrite Hh2, Hh1; auto|].
    destruct o; auto. intros HR. apply orb_false_iff in HR. destruct HR. auto.
  - (* SeqR *)
    cbn in Hai. destruct (may_alias_params prog c1 T (flag s)) as [[T1 R1]|] eqn:E1; [|discriminate].
    destruct (may_alias_params prog c2 T1 (flag s)) as [[T2 R2]|] eqn:E2; [|discriminate].
    inversion Hai; subst T' R.
    destruct (IHexec P T T1 R1 HP E1 Hinv) as [Hh1 Hi1]. split; [exact Hh1|].
    intros HR. apply orb_false_iff in HR. destruct HR. auto.
  - (* SeqX *)
    cbn in Hai. destruct (may_alias_params prog c1 T (flag s)) as [[T1 R1]|] eqn:E1; [|discriminate].
    destruct (IHexec P T T1 R1 HP E1 Hinv) as [Hh1 _]. split; [exact Hh1|exact I].
  - (* ChoiceL *)
    cbn in Hai. destruct (may_alias_params prog c1 T (flag s)) as [[T1 R1]|] eqn:E1; [|discriminate].
    destruct (may_alias_params prog c2 T (flag s)) as [[T2 R2]|] eqn:E2; [|discriminate].
    inversion Hai; subst T' R.
    destruct (IHexec P T T1 R1 HP E1 Hinv) as [Hh1 Hi1]. split; [exact Hh1|].
    destruct o; auto.
    + eapply inv_weaken; [exact Hi1|]. intros x Hx. rewrite mem_union, Hx. reflexivity.
    + intros HR. apply orb_false_iff in HR. destruct HR. auto.
  - (* ChoiceR *)
    cbn in Hai. destruct (may_alias_params prog c1 T (flag s)) as [[T1 R1]|] eqn:E1; [|discriminate].
    destruct (may_alias_params prog c2 T (flag s)) as [[T2 R2]|] eqn:E2; [|discriminate].
    inversion Hai; subst T' R.
    destruct (IHexec P T T2 R2 HP E2 Hinv) as [Hh1 Hi1]. split; [exact Hh1|].
    destruct o; auto.
    + eapply inv_weaken; [exact Hi1|]. intros x Hx. rewrite mem_union, Hx. apply orb_true_r.
    + intros HR. apply orb_false_iff in HR. destruct HR. auto.
  - (* LoopDone *)
    cbn [may_alias_params] in Hai. apply loop_fix_spec in Hai. destruct Hai as [Hsub _].
    split; [reflexivity|]. eapply inv_weaken; eauto.
  - (* LoopStep *)
    pose proof Hai as Hai0.
    cbn [may_alias_params] in Hai. apply loop_fix_spec in Hai. destruct Hai as [Hsub [T'' [HF Hss]]].
    assert (Hinv' : inv P T' s) by (eapply inv_weaken; eauto).
    destruct (IHexec1 P T' T'' R HP HF Hinv') as [Hh1 Hi1]. cbn [st_of] in *.
    assert (HP1 : forall l, P l -> l < next s1).
    { intros l Hl. apply HP in Hl. apply exec_next in H. cbn [st_of] in H. lia. }
    assert (Hf : flag s1 = flag s) by (apply exec_flag in H; exact H).
    assert (Hi1' : inv P T' s1) by (eapply inv_weaken; [exact Hi1|apply subset_spec; exact Hss]).
    assert (Hai1 : may_alias_params prog (Loop c) T' (flag s1) = Some (T', R)).
    { cbn [may_alias_params loop_fix]. rewrite Hf, HF, Hss. reflexivity. }
    destruct (IHexec2 P T' T' R HP1 Hai1 Hi1') as [Hh2 Hi2].
    split; [intros l Hl; rewrite Hh2, Hh1; auto|exact Hi2].
  - (* LoopR *)
    cbn [may_alias_params] in Hai. apply loop_fix_spec in Hai. destruct Hai as [Hsub [T'' [HF Hss]]].
    assert (Hinv' : inv P T' s) by (eapply inv_weaken; eauto).
    destruct (IHexec P T' T'' R HP HF Hinv') as [Hh1 Hi1]. split; [exact Hh1|exact Hi1].
  - (* LoopX *)
    cbn [may_alias_params] in Hai. apply loop_fix_spec in Hai. destruct Hai as [Hsub [T'' [HF Hss]]].
    assert (Hinv' : inv P T' s) by (eapply inv_weaken; eauto).
    destruct (IHexec P T' T'' R HP HF Hinv') as [Hh1 _]. split; [exact Hh1|exact I].
  - (* IfT *) cbn [may_alias_params] in Hai. rewrite H in Hai. rewrite <- H in Hai. eapply IHexec; eauto.
  - (* IfF *) cbn [may_alias_params] in Hai. rewrite H in Hai. rewrite <- H in Hai. eapply IHexec; eauto.
  - (* TryPass *)
    cbn in Hai. destruct (may_alias_params prog c T (flag s)) as [[T1 R1]|] eqn:E1; [|discriminate].
    destruct (may_alias_params prog h (union T (mb c)) (flag s)) as [[T2 R2]|] eqn:E2; [|discriminate].
    inversion Hai; subst T' R.
    destruct (IHexec P T T1 R1 HP E1 Hinv) as [Hh1 Hi1]. split; [exact Hh1|].
    destruct o; auto.
    + eapply inv_weaken; [exact Hi1|]. intros x Hx. rewrite mem_union, Hx. reflexivity.
    + intros HR. apply orb_false_iff in HR. destruct HR. auto.
  - (* TryCatch *)
    cbn in Hai. destruct (may_alias_params prog c T (flag s)) as [[T1 R1]|] eqn:E1; [|discriminate].
    destruct (may_alias_params prog h (union T (mb c)) (flag s)) as [[T2 R2]|] eqn:E2; [|discriminate].
    inversion Hai; subst T' R.
    destruct (IHexec1 P T T1 R1 HP E1 Hinv) as [Hh1 _]. cbn [st_of] in *.
    assert (HP1 : forall l, P l -> l < next s1).
    { intros l Hl. apply HP in Hl. apply exec_next in H. cbn [st_of] in H. lia. }
    assert (Hf : flag s1 = flag s) by (apply exec_flag in H; exact H).
    assert (Hi1 : inv P (union T (mb c)) s1).
    { apply (inv_any c s (Raised s1) H P (union T (mb c)) HP).
      - eapply inv_weaken; [exact Hinv|]. intros x Hx. rewrite mem_union, Hx. reflexivity.
      - intros x Hx. rewrite mem_union. apply mem_In in Hx. rewrite Hx. apply orb_true_r. }
    rewrite <- Hf in E2.
    destruct (IHexec2 P (union T (mb c)) T2 R2 HP1 E2 Hi1) as [Hh2 Hi2].
    split; [intros l Hl; rewrite Hh2, Hh1; auto|].
    destruct o; auto.
    + eapply inv_weaken; [exact Hi2|]. intros x Hx. rewrite mem_union, Hx. apply orb_true_r.
    + intros HR. apply orb_false_iff in HR. destruct HR. auto.
  - (* Call *)
    cbn [may_alias_params] in Hai. rewrite H in Hai.
    destruct (forallb (fun b0 => args_ok T (protected fd b0) (fparams fd) args) (flags_of fl (flag s))) eqn:Eok;
      [|discriminate].
    inversion Hai; subst T' R. clear Hai.
    rewrite forallb_forall in Eok. specialize (Eok b (flags_of_complete _ _ _ H0)).
    destruct (summary_of f fd b H) as [Tc [Rc [Hc Hret]]].
    set (sc := mkst (bind_params (fparams fd) (map (env s) args)) (heap s) (next s) b) in *.
    assert (Hinvc : inv P (protected fd b) sc).
    { intros p l Hp HPl. cbn [env sc] in Hp. eapply args_ok_inv; eauto. }
    destruct (IHexec P (protected fd b) Tc Rc HP Hc Hinvc) as [Hh Ho].
    split.
    + intros l Hl. destruct o; cbn [call_ret st_of heap] in *; apply Hh; exact Hl.
    + destruct o; cbn [call_ret]; [| |exact I].
      * eapply inv_upd; [exact Hinv|discriminate|].
        intros y Hy Hm. destruct (existsb (fret fd) (flags_of fl (flag s))); [apply keep_add|apply keep_remove]; auto.
      * destruct (existsb (fret fd) (flags_of fl (flag s))) eqn:Er.
        -- eapply inv_upd; [exact Hinv|intros; apply mem_add_same|intros; apply keep_add; auto].
        -- eapply inv_upd; [exact Hinv| |intros; apply keep_remove; auto].
           intros l Hl HPl. exfalso.
           assert (Hfr : fret fd b = false).
           { destruct (fret fd b) eqn:Efr; [|reflexivity].
             assert (existsb (fret fd) (flags_of fl (flag s)) = true).
             { apply existsb_exists. exists b. split; [apply flags_of_complete; exact H0|exact Efr]. }
             congruence. }
           destruct Rc; [specialize (Hret eq_refl); congruence|].
           exact (Ho eq_refl l Hl HPl).
Qed.

(* ------------------------------------------------------------------ top level *)
(* A call from outside: the environment binds (some of) the array parameters to locations that exist
   already; everything allocated before the call (next s0) belongs to the caller. *)
Definition entry_state (fd : fundef) (s0 : state) : Prop :=
  forall x l, env s0 x = Some l -> In x (farr fd) /\ l < next s0.

Theorem frame_sound : forall fd s0 o,
  In fd prog -> entry_state fd s0 -> exec (fbody fd) s0 o ->
  forall l, l < next s0 ->
    (forall p, In p (fmut fd (flag s0)) -> env s0 p <> Some l) ->
    heap (st_of o) l = heap s0 l.
Proof.
  intros fd s0 o Hin Hent Hex l Hl Hnm.
  set (P := fun l => l < next s0 /\ forall p, In p (fmut fd (flag s0)) -> env s0 p <> Some l).
  assert (Hc : exists T R, may_alias_params prog (fbody fd) (protected fd (flag s0)) (flag s0) = Some (T, R)).
  { unfold summaries_ok in Hsum. rewrite forallb_forall in Hsum. specialize (Hsum fd Hin).
    apply andb_true_iff in Hsum. destruct Hsum as [Hb _]. unfold check_body in Hb.
    apply andb_true_iff in Hb. destruct Hb as [Ht Hf]. unfold check_body_flag in *.
    destruct (flag s0).
    - destruct (may_alias_params prog (fbody fd) (protected fd true) true) as [[T R]|]; [eauto|discriminate].
    - destruct (may_alias_params prog (fbody fd) (protected fd false) false) as [[T R]|]; [eauto|discriminate]. }
  destruct Hc as [T [R Hc]].
  assert (Hinv : inv P (protected fd (flag s0)) s0).
  { intros x l0 Hx [Hl0 Hp]. unfold protected. rewrite mem_filter.
    destruct (Hent x l0 Hx) as [Harr _]. apply mem_In in Harr. rewrite Harr. cbn [andb].
    destruct (mem x (fmut fd (flag s0))) eqn:E; [|reflexivity].
    apply mem_In in E. exfalso. exact (Hp x E Hx). }
  destruct (sound_gen (fbody fd) s0 o Hex P _ T R (fun l H => proj1 H) Hc Hinv) as [Hh _].
  apply Hh. split; assumption.
Qed.

(* THE SOUNDNESS THEOREM (C13).  If the checker accepts the public function fd (check_decl: it declares no
   written parameter, except a copy utility under copy=False) in a program whose summaries are all verified
   against their bodies, then in EVERY execution of its body from an entry state — any resolution of every
   Choice, any number of loop iterations, any contents written by any Mutate, any callee behaviour allowed
   by the callee's own body, and stopping at ANY intermediate point by an exception (outcome Raised) —
   every location that existed before the call, in particular every parameter's array, holds its initial
   contents. *)
Theorem no_param_mutation_sound : forall fd s0 o,
  In fd prog -> fpublic fd = true -> check_decl fd = true ->
  entry_state fd s0 -> (flag s0 = true \/ fcopyutil fd = false) ->
  exec (fbody fd) s0 o ->
  forall l, l < next s0 -> heap (st_of o) l = heap s0 l.
Proof.
  intros fd s0 o Hin Hpub Hdecl Hent Hflag Hex l Hl.
  eapply frame_sound; eauto.
  unfold check_decl in Hdecl. rewrite Hpub in Hdecl. cbn [negb orb] in Hdecl.
  apply andb_true_iff in Hdecl. destruct Hdecl as [Ht Hf].
  unfold fmut. destruct (flag s0) eqn:Efl.
  - destruct (fmut_t fd); [intros p []|discriminate].
  - destruct Hflag as [Hflag|Hflag]; [discriminate|]. rewrite Hflag, orb_false_r in Hf.
    destruct (fmut_f fd); [intros p []|discriminate].
Qed.

Corollary params_unchanged : forall fd s0 o,
  In fd prog -> fpublic fd = true -> check_decl fd = true ->
  entry_state fd s0 -> (flag s0 = true \/ fcopyutil fd = false) ->
  exec (fbody fd) s0 o ->
  forall p l, env s0 p = Some l -> heap (st_of o) l = heap s0 l.
Proof.
  intros fd s0 o Hin Hpub Hdecl Hent Hflag Hex p l Hp.
  eapply no_param_mutation_sound; eauto. apply (Hent p l Hp).
Qed.

(* result of a run that returns: fresh (not a caller location) when the summary says so *)
Theorem result_fresh : forall fd s0 s r l,
  In fd prog -> entry_state fd s0 -> fret fd (flag s0) = false ->
  exec (fbody fd) s0 (Returned s r) -> r = Some l ->
  ~ (l < next s0 /\ forall p, In p (fmut fd (flag s0)) -> env s0 p <> Some l).
Proof.
  intros fd s0 s r l Hin Hent Hfr Hex Hr.
  set (P := fun l => l < next s0 /\ forall p, In p (fmut fd (flag s0)) -> env s0 p <> Some l).
  pose proof Hsum as Hs. unfold summaries_ok in Hs. rewrite forallb_forall in Hs. specialize (Hs fd Hin).
  apply andb_true_iff in Hs. destruct Hs as [Hb _]. unfold check_body in Hb.
  apply andb_true_iff in Hb. destruct Hb as [Ht Hf]. unfold check_body_flag in *.
  assert (Hc : exists T, may_alias_params prog (fbody fd) (protected fd (flag s0)) (flag s0) = Some (T, false)).
  { destruct (flag s0).
    - destruct (may_alias_params prog (fbody fd) (protected fd true) true) as [[T R]|]; [|discriminate].
      rewrite Hfr in Ht. destruct R; [discriminate|eauto].
    - destruct (may_alias_params prog (fbody fd) (protected fd false) false) as [[T R]|]; [|discriminate].
      rewrite Hfr in Hf. destruct R; [discriminate|eauto]. }
  destruct Hc as [T Hc].
  assert (Hinv : inv P (protected fd (flag s0)) s0).
  { intros x l0 Hx [Hl0 Hp]. unfold protected. rewrite mem_filter.
    destruct (Hent x l0 Hx) as [Harr _]. apply mem_In in Harr. rewrite Harr. cbn [andb].
    destruct (mem x (fmut fd (flag s0))) eqn:E; [|reflexivity].
    apply mem_In in E. exfalso. exact (Hp x E Hx). }
  destruct (sound_gen (fbody fd) s0 _ Hex P _ T false (fun l H => proj1 H) Hc Hinv) as [_ Ho].
  exact (Ho eq_refl l Hr).
Qed.

(* ------------------------------------------------------------------ copy=False contract *)
Lemma exec_unbound : forall c s o, exec c s o ->
  forall x, mem x (bound c) = false -> env (st_of o) x = env s x.
Proof.
  assert (Happ : forall x a b, mem x (a ++ b) = false -> mem x a = false /\ mem x b = false).
  { intros x a b H. unfold mem in *. rewrite existsb_app in H. apply orb_false_iff in H. exact H. }
  assert (Hupd : forall (e : name -> option loc) x y v, mem x [y] = false -> upd_env e y v x = e x).
  { intros e x y v H. unfold upd_env. cbn in H. rewrite orb_false_r in H. rewrite H. reflexivity. }
  induction 1; intros z Hz; cbn [st_of env bound] in *.
  - reflexivity.
  - reflexivity.
  - apply Hupd; exact Hz.
  - apply Hupd; exact Hz.
  - apply Hupd; exact Hz.
  - apply Hupd; exact Hz.
  - apply Hupd; exact Hz.
  - reflexivity.
  - reflexivity.
  - reflexivity.
  - apply Happ in Hz. destruct Hz as [Hz1 Hz2]. rewrite IHexec2, IHexec1; auto.
  - apply Happ in Hz. destruct Hz as [Hz1 Hz2]. auto.
  - apply Happ in Hz. destruct Hz as [Hz1 Hz2]. auto.
  - apply Happ in Hz. destruct Hz as [Hz1 Hz2]. auto.
  - apply Happ in Hz. destruct Hz as [Hz1 Hz2]. auto.
  - reflexivity.
  - rewrite IHexec2, IHexec1; auto.
  - auto.
  - auto.
  - apply Happ in Hz. destruct Hz as [Hz1 Hz2]. auto.
  - apply Happ in Hz. destruct Hz as [Hz1 Hz2]. auto.
  - apply Happ in Hz. destruct Hz as [Hz1 Hz2]. auto.
  - apply Happ in Hz. destruct Hz as [Hz1 Hz2]. rewrite IHexec2, IHexec1; auto.
  - destruct o; cbn [call_ret st_of env]; try reflexivity; apply Hupd; exact Hz.
Qed.

Lemma always_returns_sound : forall c s o, exec c s o ->
  always_returns c (flag s) = true -> match o with Normal _ => False | _ => True end.
Proof.
  induction 1; cbn [always_returns]; intros Har; try discriminate; try exact I.
  - apply orb_true_iff in Har. destruct Har as [Har|Har].
    + exfalso. exact (IHexec1 Har).
    + apply IHexec2. apply exec_flag in H. cbn [st_of] in H. rewrite H. exact Har.
  - apply andb_true_iff in Har. destruct Har as [Ha Hb]. apply IHexec. exact Ha.
  - apply andb_true_iff in Har. destruct Har as [Ha Hb]. apply IHexec. exact Hb.
  - rewrite H in Har. apply IHexec. rewrite H. exact Har.
  - rewrite H in Har. apply IHexec. rewrite H. exact Har.
  - apply andb_true_iff in Har. destruct Har as [Ha Hb]. apply IHexec. exact Ha.
  - apply andb_true_iff in Har. destruct Har as [_ Har]. apply IHexec2.
    apply exec_flag in H. cbn [st_of] in H. rewrite H. exact Har.
Qed.

Lemma contract_of f fd : lookup prog f = Some fd -> fcontract fd = true ->
  exists p ps M, fparams fd = p :: ps /\ must_alias prog (fbody fd) [p] false = Some M /\
                 always_returns (fbody fd) false = true.
Proof.
  intros Hl Hc. apply lookup_In in Hl. unfold summaries_ok in Hsum. rewrite forallb_forall in Hsum.
  specialize (Hsum fd Hl). apply andb_true_iff in Hsum. destruct Hsum as [_ Hk].
  unfold check_contract in Hk. rewrite Hc in Hk. cbn [negb orb] in Hk.
  destruct (fparams fd) as [|p ps]; [discriminate|].
  destruct (must_alias prog (fbody fd) [p] false) as [M|] eqn:Em; [|discriminate].
  exists p, ps, M. repeat split; auto.
Qed.

Lemma must_sound : forall c s o, exec c s o ->
  forall M M' v0, must_alias prog c M (flag s) = Some M' ->
    (forall x, mem x M = true -> env s x = v0) ->
    match o with
    | Normal s' => forall x, mem x M' = true -> env s' x = v0
    | Returned _ r => r = v0
    | Raised _ => True
    end.
Proof.
  assert (Hupd_add : forall (s : state) M x v0 (h : loc -> val) n f, (forall y, mem y M = true -> env s y = v0) ->
            forall y, mem y (add x M) = true -> env (mkst (upd_env (env s) x v0) h n f) y = v0).
  { intros s M x v0 h n f HM y Hy. cbn [env]. unfold upd_env. rewrite mem_add in Hy.
    destruct (String.eqb y x); [reflexivity|]. cbn [orb] in Hy. auto. }
  assert (Hupd_rem : forall (s : state) M x v v0 (h : loc -> val) n f, (forall y, mem y M = true -> env s y = v0) ->
            forall y, mem y (remove x M) = true -> env (mkst (upd_env (env s) x v) h n f) y = v0).
  { intros s M x v v0 h n f HM y Hy. cbn [env]. unfold upd_env. rewrite mem_remove in Hy.
    apply andb_true_iff in Hy. destruct Hy as [Hy1 Hy2].
    destruct (String.eqb y x); [discriminate|]. auto. }
  induction 1; intros M M' v0 Hmu HM; try exact I.
  - (* Skip *) cbn in Hmu. inversion Hmu; subst M'. exact HM.
  - (* Fresh *) cbn in Hmu. inversion Hmu; subst M'. eapply Hupd_rem; eauto.
  - (* Copy *) cbn in Hmu. inversion Hmu; subst M'. eapply Hupd_rem; eauto.
  - (* CopyNone *) cbn in Hmu. inversion Hmu; subst M'. eapply Hupd_rem; eauto.
  - (* Alias *) cbn in Hmu. inversion Hmu; subst M'. destruct (mem y M) eqn:Ey.
    + rewrite (HM y Ey). eapply Hupd_add; eauto.
    + eapply Hupd_rem; eauto.
  - (* Unknown *) cbn in Hmu. inversion Hmu; subst M'. eapply Hupd_rem; eauto.
  - (* Mutate *) cbn in Hmu. inversion Hmu; subst M'. exact HM.
  - (* MutateNone *) cbn in Hmu. inversion Hmu; subst M'. exact HM.
  - (* Return *) cbn in Hmu. destruct (mem x M) eqn:Ex; [|discriminate]. auto.
  - (* SeqN *)
    cbn in Hmu. destruct (must_alias prog c1 M (flag s)) as [M1|] eqn:E1; [|discriminate].
    specialize (IHexec1 M M1 v0 E1 HM). cbn in IHexec1.
    apply exec_flag in H. cbn [st_of] in H. rewrite <- H in Hmu. eapply IHexec2; eauto.
  - (* SeqR *)
    cbn in Hmu. destruct (must_alias prog c1 M (flag s)) as [M1|] eqn:E1; [|discriminate].
    exact (IHexec M M1 v0 E1 HM).
  - (* ChoiceL *)
    cbn in Hmu. destruct (must_alias prog c1 M (flag s)) as [M1|] eqn:E1; [|discriminate].
    destruct (must_alias prog c2 M (flag s)) as [M2|] eqn:E2; [|discriminate]. inversion Hmu; subst M'.
    specialize (IHexec M M1 v0 E1 HM). destruct o; auto.
    intros x Hx. rewrite mem_inter in Hx. apply andb_true_iff in Hx. destruct Hx. auto.
  - (* ChoiceR *)
    cbn in Hmu. destruct (must_alias prog c1 M (flag s)) as [M1|] eqn:E1; [|discriminate].
    destruct (must_alias prog c2 M (flag s)) as [M2|] eqn:E2; [|discriminate]. inversion Hmu; subst M'.
    specialize (IHexec M M2 v0 E2 HM). destruct o; auto.
    intros x Hx. rewrite mem_inter in Hx. apply andb_true_iff in Hx. destruct Hx. auto.
  - (* LoopDone *)
    cbn in Hmu. destruct (must_alias prog c (minus M (bound c)) (flag s)); [|discriminate]. inversion Hmu; subst M'.
    intros x Hx. rewrite mem_minus in Hx. apply andb_true_iff in Hx. destruct Hx. auto.
  - (* LoopStep *)
    pose proof Hmu as Hmu0.
    cbn in Hmu. destruct (must_alias prog c (minus M (bound c)) (flag s)) as [M1|] eqn:E1; [|discriminate].
    inversion Hmu; subst M'.
    assert (HM1 : forall x, mem x (minus M (bound c)) = true -> env s1 x = v0).
    { intros x Hx. rewrite mem_minus in Hx. apply andb_true_iff in Hx. destruct Hx as [Hx1 Hx2].
      pose proof (exec_unbound c s (Normal s1) H x) as Hu. cbn [st_of] in Hu. rewrite Hu; [auto|].
      destruct (mem x (bound c)); [discriminate|reflexivity]. }
    apply (IHexec2 (minus M (bound c)) (minus M (bound c)) v0); [|exact HM1].
    apply exec_flag in H. cbn [st_of] in H. rewrite H.
    cbn [must_alias]. rewrite minus_idem, E1. reflexivity.
  - (* LoopR *)
    cbn in Hmu. destruct (must_alias prog c (minus M (bound c)) (flag s)) as [M1|] eqn:E1; [|discriminate].
    apply (IHexec (minus M (bound c)) M1 v0 E1).
    intros x Hx. rewrite mem_minus in Hx. apply andb_true_iff in Hx. destruct Hx. auto.
  - (* IfT *) cbn [must_alias] in Hmu. rewrite H in Hmu. rewrite <- H in Hmu. eapply IHexec; eauto.
  - (* IfF *) cbn [must_alias] in Hmu. rewrite H in Hmu. rewrite <- H in Hmu. eapply IHexec; eauto.
  - (* TryPass *)
    cbn in Hmu. destruct (must_alias prog c M (flag s)) as [M1|] eqn:E1; [|discriminate].
    destruct (must_alias prog h (minus M (bound c)) (flag s)) as [M2|] eqn:E2; [|discriminate]. inversion Hmu; subst M'.
    specialize (IHexec M M1 v0 E1 HM). destruct o; auto.
    intros x Hx. rewrite mem_inter in Hx. apply andb_true_iff in Hx. destruct Hx. auto.
  - (* TryCatch *)
    cbn in Hmu. destruct (must_alias prog c M (flag s)) as [M1|] eqn:E1; [|discriminate].
    destruct (must_alias prog h (minus M (bound c)) (flag s)) as [M2|] eqn:E2; [|discriminate]. inversion Hmu; subst M'.
    assert (HM1 : forall x, mem x (minus M (bound c)) = true -> env s1 x = v0).
    { intros x Hx. rewrite mem_minus in Hx. apply andb_true_iff in Hx. destruct Hx as [Hx1 Hx2].
      pose proof (exec_unbound c s (Raised s1) H x) as Hu. cbn [st_of] in Hu. rewrite Hu; [auto|].
      destruct (mem x (bound c)); [discriminate|reflexivity]. }
    apply exec_flag in H. cbn [st_of] in H. rewrite <- H in E2.
    specialize (IHexec2 (minus M (bound c)) M2 v0 E2 HM1). destruct o; auto.
    intros x Hx. rewrite mem_inter in Hx. apply andb_true_iff in Hx. destruct Hx. auto.
  - (* Call *)
    cbn [must_alias] in Hmu. rewrite H in Hmu.
    destruct args as [|a args].
    { inversion Hmu; subst M'. destruct o; cbn [call_ret]; auto; eapply Hupd_rem; eauto. }
    destruct (mem a M && fcontract fd && forallb negb (flags_of fl (flag s))) eqn:Ec.
    + inversion Hmu; subst M'. apply andb_true_iff in Ec. destruct Ec as [Ec Hfl].
      apply andb_true_iff in Ec. destruct Ec as [Ha Hct].
      destruct (contract_of f fd H Hct) as [p [ps [Mc [Hps [Hmc Har]]]]].
      assert (Hb : b = false).
      { rewrite forallb_forall in Hfl. specialize (Hfl b (flags_of_complete _ _ _ H0)).
        destruct b; [discriminate|reflexivity]. }
      subst b.
      assert (HMc : forall z, mem z [p] = true ->
                 env (mkst (bind_params (fparams fd) (map (env s) (a :: args))) (heap s) (next s) false) z = v0).
      { intros z Hz. cbn in Hz. rewrite orb_false_r in Hz. apply String.eqb_eq in Hz. subst z.
        cbn [env]. rewrite Hps. cbn [map bind_params]. unfold upd_env. rewrite String.eqb_refl. auto. }
      specialize (IHexec [p] Mc v0 Hmc HMc).
      pose proof (always_returns_sound _ _ _ H1 Har) as Hnn.
      destruct o; cbn [call_ret]; [contradiction| |exact I].
      subst r. eapply Hupd_add; eauto.
    + inversion Hmu; subst M'. destruct o; cbn [call_ret]; auto; eapply Hupd_rem; eauto.
Qed.

(* COPY FLAG CONTRACT of the utilities (fcontract, verified by check_contract):
   copy=false: a run never falls off the end, and what it returns IS the first argument's location;
               every other caller location is untouched (frame_sound with fmut_f);
   copy=true : no caller location is written at all (no_param_mutation_sound), and, if fret_t = false,
               the result is not a caller location (result_fresh). *)
Theorem copy_false_contract : forall fd p ps s0 o,
  In fd prog -> fcontract fd = true -> fparams fd = p :: ps -> flag s0 = false ->
  exec (fbody fd) s0 o ->
  match o with
  | Normal _ => False
  | Returned _ r => r = env s0 p
  | Raised _ => True
  end.
Proof.
  intros fd p ps s0 o Hin Hct Hps Hfl Hex.
  pose proof Hsum as Hs. unfold summaries_ok in Hs. rewrite forallb_forall in Hs. specialize (Hs fd Hin).
  apply andb_true_iff in Hs. destruct Hs as [_ Hk].
  unfold check_contract in Hk. rewrite Hct, Hps in Hk. cbn [negb orb] in Hk.
  destruct (must_alias prog (fbody fd) [p] false) as [M|] eqn:Em; [|discriminate].
  pose proof (always_returns_sound _ _ _ Hex) as Hnn. rewrite Hfl in Hnn. specialize (Hnn Hk).
  rewrite <- Hfl in Em.
  pose proof (must_sound _ _ _ Hex [p] M (env s0 p) Em) as Hm.
  destruct o; [contradiction| |exact I]. apply Hm.
  intros x Hx. cbn in Hx. rewrite orb_false_r in Hx. apply String.eqb_eq in Hx. subst. reflexivity.
Qed.

Theorem copy_true_contract : forall fd s0 o,
  In fd prog -> fpublic fd = true -> check_decl fd = true -> entry_state fd s0 -> flag s0 = true ->
  exec (fbody fd) s0 o ->
  (forall l, l < next s0 -> heap (st_of o) l = heap s0 l) /\
  (fret_t fd = false -> forall s r l, o = Returned s r -> r = Some l -> next s0 <= l).
Proof.
  intros fd s0 o Hin Hpub Hdecl Hent Hfl Hex. split.
  - intros l Hl. eapply no_param_mutation_sound; eauto.
  - intros Hfr s r l Ho Hr. subst o.
    assert (Hm : fmut fd (flag s0) = []).
    { unfold check_decl in Hdecl. rewrite Hpub in Hdecl. cbn [negb orb] in Hdecl.
      apply andb_true_iff in Hdecl. destruct Hdecl as [Ht _]. rewrite Hfl. cbn [fmut].
      destruct (fmut_t fd); [reflexivity|discriminate]. }
    pose proof (result_fresh fd s0 s r l Hin Hent) as Hrf. rewrite Hfl in Hrf. cbn [fret] in Hrf.
    specialize (Hrf Hfr Hex Hr). rewrite Hfl in Hm. rewrite Hm in Hrf.
    destruct (Nat.lt_ge_cases l (next s0)) as [Hlt|Hge]; [|exact Hge].
    exfalso. apply Hrf. split; [exact Hlt|intros q []].
Qed.

End Soundness.
