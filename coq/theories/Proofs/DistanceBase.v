(* Proofs/DistanceBase.v — algebra of extended lengths (option Q), walks, generic facts. *)
From Coq Require Import QArith List Arith Bool ZArith Lia Lqa.
From BCT Require Import Base.Mat Base.ListX Model.Distance.
Import ListNotations.
Open Scope Q_scope.

Definition ole (a b : len) : Prop :=
  match a, b with _, None => True | Some x, Some y => x <= y | None, Some _ => False end.
Definition oeq (a b : len) : Prop :=
  match a, b with None, None => True | Some x, Some y => x == y | _, _ => False end.

Lemma qltb_true x y : qltb x y = true <-> x < y.
Proof.
  unfold qltb. rewrite negb_true_iff. split.
  - intros H. apply Qnot_le_lt. intros Hle. apply Qle_bool_iff in Hle. congruence.
  - intros H. destruct (Qle_bool y x) eqn:E; [|reflexivity]. apply Qle_bool_iff in E. lra.
Qed.
Lemma qltb_false x y : qltb x y = false <-> y <= x.
Proof.
  unfold qltb. rewrite negb_false_iff. apply Qle_bool_iff.
Qed.

(* turn every qltb / Qeq_bool test in sight into a Prop *)
Ltac qb :=
  repeat match goal with
  | H : qltb _ _ = true |- _ => apply qltb_true in H
  | H : qltb _ _ = false |- _ => apply qltb_false in H
  | H : Qeq_bool _ _ = true |- _ => apply Qeq_bool_iff in H
  | H : Qeq_bool _ _ = false |- _ => apply Qeq_bool_neq in H
  | |- context[qltb ?a ?b] => destruct (qltb a b) eqn:?
  | H : context[qltb ?a ?b] |- _ => destruct (qltb a b) eqn:?
  end.

(* unfold the len operations and split on every option in sight *)
Ltac ounf := unfold omin, oltb, oadd, ole, oeq in *.
Ltac osplit :=
  repeat match goal with
  | |- context[match ?a with Some _ => _ | None => _ end] => destruct a eqn:?
  | H : context[match ?a with Some _ => _ | None => _ end] |- _ => destruct a eqn:?
  end.
Ltac ofin :=
  repeat match goal with
  | H : Some _ = Some _ |- _ => injection H as H; try subst
  | H : Some _ = None |- _ => discriminate H
  | H : None = Some _ |- _ => discriminate H
  end.

Lemma oltb_true a b : oltb a b = true <->
  match a, b with Some x, Some y => x < y | Some _, None => True | None, _ => False end.
Proof. destruct a, b; cbn [oltb]; try rewrite qltb_true; intuition congruence. Qed.
Lemma oltb_false a b : oltb a b = false <-> ole b a.
Proof. destruct a, b; cbn [oltb ole]; try rewrite qltb_false; intuition congruence. Qed.

Lemma ole_refl a : ole a a.
Proof. destruct a; cbn; [lra|exact I]. Qed.
Lemma ole_trans a b c : ole a b -> ole b c -> ole a c.
Proof. destruct a, b, c; cbn; intros; try tauto; lra. Qed.
Lemma omin_le_l a b : ole (omin a b) a.
Proof. unfold omin. destruct (oltb b a) eqn:E; [|apply ole_refl]. apply oltb_true in E. destruct b, a; cbn in *; try tauto; lra. Qed.
Lemma omin_le_r a b : ole (omin a b) b.
Proof. unfold omin. destruct (oltb b a) eqn:E; [apply ole_refl|]. apply oltb_false in E. exact E. Qed.
Lemma omin_cases a b : (oltb b a = true /\ omin a b = b) \/ (oltb b a = false /\ omin a b = a).
Proof. unfold omin. destruct (oltb b a); auto. Qed.
Lemma oadd_mono a b c d : ole a b -> ole c d -> ole (oadd a c) (oadd b d).
Proof. destruct a, b, c, d; cbn; intros; try tauto; lra. Qed.
Lemma oadd_None_r a : oadd a None = None.
Proof. destruct a; reflexivity. Qed.
Lemma oeq_refl a : oeq a a.
Proof. destruct a; cbn; [reflexivity|exact I]. Qed.
Lemma oeq_sym a b : oeq a b -> oeq b a.
Proof. destruct a, b; cbn; intros; try tauto. symmetry; assumption. Qed.
Lemma oeq_trans a b c : oeq a b -> oeq b c -> oeq a c.
Proof. destruct a, b, c; cbn; intros; try tauto. etransitivity; eassumption. Qed.
Lemma oeq_ole a b : oeq a b -> ole a b.
Proof. destruct a, b; cbn; intros; try tauto. lra. Qed.

(* ---------- walks ---------- *)
Lemma below_app k l1 l2 : below k (l1 ++ l2) <-> below k l1 /\ below k l2.
Proof. unfold below. apply Forall_app. Qed.
Lemma below_mono k k' l : (k <= k')%nat -> below k l -> below k' l.
Proof. intros Hk H. unfold below in *. eapply Forall_impl; [|exact H]. cbn. intros; lia. Qed.
Lemma below_cons k a l : below k (a :: l) <-> (a < k)%nat /\ below k l.
Proof. unfold below. split; intros H; [inversion H; auto|constructor; tauto]. Qed.
Lemma below_nil k : below k [].
Proof. constructor. Qed.

Lemma wl_app L i m1 k m2 j : wl L i (m1 ++ k :: m2) j = match wl L i m1 k, wl L k m2 j with
  | Some a, Some b => wl L i (m1 ++ k :: m2) j | _, _ => None end.
Proof.
  revert i. induction m1 as [|m r IH]; intros i; cbn [app wl].
  - destruct (L i k), (wl L k m2 j); reflexivity.
  - rewrite IH. destruct (L i m); cbn [oadd]; [|destruct (wl L m r k), (wl L k m2 j); reflexivity].
    destruct (wl L m r k), (wl L k m2 j); try reflexivity.
Qed.

(* length of a concatenated walk *)
Lemma wl_app_oeq L i m1 k m2 j : oeq (wl L i (m1 ++ k :: m2) j) (oadd (wl L i m1 k) (wl L k m2 j)).
Proof.
  revert i. induction m1 as [|m r IH]; intros i; cbn [app wl].
  - apply oeq_refl.
  - specialize (IH m). destruct (L i m), (wl L m (r ++ k :: m2) j), (wl L m r k), (wl L k m2 j); cbn in *; try tauto; lra.
Qed.

Lemma wl_snoc_oeq L i mid m j : oeq (wl L i (mid ++ [m]) j) (oadd (wl L i mid m) (L m j)).
Proof. apply (wl_app_oeq L i mid m [] j). Qed.

(* fold_left over seq *)
Lemma fold_left_seq_S {A} (f : A -> nat -> A) k a :
  fold_left f (seq 0 (S k)) a = f (fold_left f (seq 0 k) a) k.
Proof. rewrite seq_S, fold_left_app. reflexivity. Qed.

(* ---------- Z sums: positivity ---------- *)
Open Scope Z_scope.
Lemma sumn_pos_iff f n : (forall i, (i < n)%nat -> 0 <= f i) ->
  (sumn f n <> 0 <-> exists i, (i < n)%nat /\ f i <> 0).
Proof.
  induction n; intros Hnn; cbn [sumn].
  - split; [congruence|]. intros [i [Hi _]]. lia.
  - assert (H0 : 0 <= sumn f n) by (apply sumn_nonneg; intros; apply Hnn; lia).
    assert (Hn : 0 <= f n) by (apply Hnn; lia).
    assert (IH : sumn f n <> 0 <-> exists i, (i < n)%nat /\ f i <> 0) by (apply IHn; intros; apply Hnn; lia).
    split.
    + intros H. destruct (Z.eq_dec (f n) 0) as [E|E].
      * assert (sumn f n <> 0) by lia. apply IH in H1. destruct H1 as [i [Hi Hf]]. exists i. split; [lia|exact Hf].
      * exists n. split; [lia|exact E].
    + intros [i [Hi Hf]]. destruct (Nat.eq_dec i n) as [->|Hne].
      * lia.
      * assert (sumn f n <> 0) by (apply IH; exists i; split; [lia|exact Hf]). lia.
Qed.
Close Scope Z_scope.
