(* Proofs/GeneratorsDomain.v — what the generators do at the border of / outside the documented domain
   (property quantifier: feasible K, N a power of two, graphical pairs).  The model mirrors the code there
   (Model/GeneratorsExt.v); these lemmas make the behaviour explicit:
   - makeevenCIJ: "exactly K" fails for K below the cluster cells (documented warning branch) — witness;
   - makerandCIJ_dir / _und with a signed K: Python slice semantics, a negative K silently removes |K| cells from the full set;
   - makeevenCIJ with a negative K: clusters only;   makeringlatticeCIJ with a negative K: fails (unbound dCIJ);
   - makeringlatticeCIJ with K > N^2-N: may return a matrix with an entry 2 and the wrong count — witness. *)
From Coq Require Import ZArith QArith List Arith Bool Lia Permutation.
From BCT Require Import Base.Mat Base.ListX Model.Generators Model.GeneratorsExt
  Proofs.GeneratorsBase Proofs.Generators.
Import ListNotations.
Open Scope Z_scope.

(* ---------------- makeevenCIJ: K below the cluster cells ---------------- *)
Theorem even_exact_K_refuted :
  exists n k sz rp R, even n k sz rp = Some R /\ (1 <= sz <= Z.of_nat (Nat.log2 n)) /\
    (Z.of_nat k <= Z.of_nat n * Z.of_nat n - Z.of_nat n) /\ sum2 R (2 ^ Nat.log2 n) <> Z.of_nat k.
Proof.
  exists 4%nat, 1%nat, 1, (@nil nat). eexists. split; [reflexivity|]. vm_compute. repeat split; congruence.
Qed.

(* ---------------- signed K ---------------- *)
Lemma rp_length (ix : list cell) rp : Permutation rp (seq 0 (length ix)) -> length rp = length ix.
Proof. intros H. rewrite (Permutation_length H). apply seq_length. Qed.

Theorem makerand_signed_K n k rp :
  (Permutation rp (seq 0 (length (offdiag n))) ->
   let C := makerand_dir_z n k rp in
   let N := Z.of_nat n * Z.of_nat n - Z.of_nat n in
   (forall i j, C i j = 0 \/ C i j = 1) /\ (forall i, C i i = 0) /\
   (0 <= k -> sum2 C n = Z.min k N) /\
   (k < 0 -> sum2 C n = Z.max 0 (N + k))) /\
  (Permutation rp (seq 0 (length (upper n))) ->
   let C := makerand_und_z n k rp in
   let U := Z.of_nat (length (upper n)) in
   (forall i j, C i j = C j i) /\ (forall i j, C i j = 0 \/ C i j = 1) /\ (forall i, C i i = 0) /\
   (0 <= k -> sum2 C n = 2 * Z.min k U) /\
   (k < 0 -> sum2 C n = 2 * Z.max 0 (U + k))).
Proof.
  split.
  - intros Hrp C N. unfold C, makerand_dir_z.
    destruct (makerand_dir_count n (py_stop k (length rp)) rp Hrp) as (H1 & H2 & H3 & _).
    split; [exact H1|]. split; [exact H2|].
    rewrite (rp_length _ _ Hrp) in *. pose proof (offdiag_length n) as HL. rewrite offdiag_length_nat in *.
    fold N in HL. unfold py_stop in *. split; intros Hk; rewrite H3.
    + destruct (Z.ltb_spec k 0); lia.
    + destruct (Z.ltb_spec k 0); lia.
  - intros Hrp C U. unfold C, makerand_und_z.
    destruct (makerand_und_sym_count n (py_stop k (length rp)) rp Hrp) as (H1 & H2 & H3 & H4 & _).
    split; [exact H1|]. split; [exact H2|]. split; [exact H3|].
    rewrite (rp_length _ _ Hrp) in *. fold U in H4. unfold py_stop in *. split; intros Hk; rewrite H4.
    + destruct (Z.ltb_spec k 0); lia.
    + destruct (Z.ltb_spec k 0); lia.
Qed.

Lemma even_clusters_nonneg mx sz n' : 0 <= sum2 (tab 0 n' n' (even_clusters mx sz)) n'.
Proof.
  apply sum2_nonneg. intros i j Hi Hj. rewrite tab_spec by assumption. unfold even_clusters.
  destruct (_ <=? _); lia.
Qed.

(* the nat-K model is the non-negative half of the signed one; a negative K gives the clusters only *)
Theorem even_signed_K n sz rp :
  (forall k : nat, even n k sz rp = even_z n (Z.of_nat k) sz rp) /\
  (forall k R, k < 0 -> even_z n k sz rp = Some R ->
     forall i j, R i j = tab 0 (2 ^ Nat.log2 n) (2 ^ Nat.log2 n) (even_clusters (Nat.log2 n) sz) i j).
Proof.
  split; [intros k; reflexivity|].
  intros k R Hk. unfold even_z. destruct (Nat.ltb (Nat.log2 n) 2); [discriminate|].
  pose proof (even_clusters_nonneg (Nat.log2 n) sz (2 ^ Nat.log2 n)) as Hnn.
  destruct (Z.ltb_spec k (sum2 (tab 0 (2 ^ Nat.log2 n) (2 ^ Nat.log2 n) (even_clusters (Nat.log2 n) sz)) (2 ^ Nat.log2 n))); [|lia].
  intros HR. inversion HR. reflexivity.
Qed.

Theorem ring_negative_K n k rp :
  (k < 0 -> ringlattice_z n k rp = None) /\
  (0 <= k -> ringlattice_z n k rp = ringlattice n (Z.to_nat k) rp).
Proof.
  unfold ringlattice_z. split; intros H; destruct (Z.ltb_spec k 0); try reflexivity; lia.
Qed.

(* K > N^2-N is not always rejected: with N=4, K=13 the third pass adds the first band a second time (entries 2),
   then 7 cells of that band are zeroed: 6 connections are left.  Outside the documented domain (K infeasible). *)
Theorem ring_infeasible_K_refuted :
  exists n k rp R, (n * n - n < k)%nat /\ Permutation rp (seq 0 8) /\ ringlattice n k rp = Some R /\
    sum2 R n <> Z.of_nat k /\ exists i j, (i < n)%nat /\ (j < n)%nat /\ R i j = 2.
Proof.
  exists 4%nat, 13%nat, [3; 0; 5; 1; 4; 2; 7; 6]%nat. eexists.
  split; [cbn; lia|]. split.
  - apply NoDup_Permutation_bis; [repeat constructor; cbn; intuition lia|cbn; lia|].
    intros x Hx. cbn in *. intuition lia.
  - split; [reflexivity|]. split; [vm_compute; congruence|].
    exists 3%nat, 0%nat. vm_compute. repeat split; lia.
Qed.
