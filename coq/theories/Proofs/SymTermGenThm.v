(* Proofs/SymTermGenThm.v — C04: ONE theorem for everything the translator generates.
   No proof here looks at the number or at the shape of the generated programs: each is an instance of the generic
   theorem of Proofs/SymTerm.v (every program of the language is equivariant). *)
From Coq Require Import QArith List String Bool Arith Permutation Lia.
From BCT Require Import Base.Mat Base.SumQ Model.SymTerm Proofs.SymTerm Proofs.SymTermLib Gen.SymTermGen Model.SymTermGenRun.
Import ListNotations.
Open Scope Q_scope.

Section Gen.
Variable prims : nat -> Q -> Q.
Hypothesis prims_proper : forall k a b, a == b -> prims k a == prims k b.

(* every (name, program) the translator emitted, as a measure: scalar unchanged, vector permuted, matrix permuted on both axes *)
Theorem gen_equivariant : forall n p, perm_on n p ->
  forall name pr, In (name, pr) gen_table -> forall A ci ks,
  eval_s prims n pr (pm p A) (pv p ci) ks == eval_s prims n pr A ci ks /\
  (forall i, eval_v prims n pr (pm p A) (pv p ci) ks i == eval_v prims n pr A ci ks (p i)) /\
  (forall i j, eval_m prims n pr (pm p A) (pv p ci) ks i j == eval_m prims n pr A ci ks (p i) (p j)).
Proof.
  intros n p Hp name pr _ A ci ks. split; [|split]; intros.
  - exact (measure_equivariant_scalar prims prims_proper n p Hp pr A ci ks).
  - exact (measure_equivariant_vector prims prims_proper n p Hp pr A ci ks i).
  - exact (measure_equivariant_matrix prims prims_proper n p Hp pr A ci ks i j).
Qed.

(* the same for what the extracted driver computes (run_gen on lists), for every index into the table *)
Theorem gen_run_equivariant : forall idx n A ci ks l,
  square n A -> List.length ci = n -> Permutation l (seq 0 n) ->
  let p := ext_perm l in
  let r' := run_gen prims idx (permA l A) (permv l ci) ks in
  let r := run_gen prims idx A ci ks in
  match out_kind (gen_prog idx) with
  | KS => res_at r' 0 0 == res_at r 0 0
  | KV => forall i, (i < n)%nat -> res_at r' 0 i == res_at r 0 (p i)
  | KM => forall i j, (i < n)%nat -> (j < n)%nat -> res_at r' i j == res_at r (p i) (p j)
  end.
Proof.
  intros idx n A ci ks l HA Hci HP. unfold run_gen.
  exact (run_equivariant prims prims_proper n (gen_prog idx) A ci ks l HA Hci HP).
Qed.
End Gen.

(* ---------- the syntactic comparison is sound: it decides Leibniz equality of programs ---------- *)
Lemma q_eqb_sound a b : q_eqb a b = true -> a = b.
Proof.
  destruct a as [an ad], b as [bn bd]. unfold q_eqb. cbn [Qnum Qden]. intros H.
  apply andb_true_iff in H. destruct H as [H1 H2].
  apply Z.eqb_eq in H1. apply Pos.eqb_eq in H2. subst. reflexivity.
Qed.
Lemma binop_eqb_sound a b : binop_eqb a b = true -> a = b.
Proof. destruct a, b; cbn; intros H; try reflexivity; discriminate H. Qed.
Lemma bigop_eqb_sound a b : bigop_eqb a b = true -> a = b.
Proof. destruct a, b; cbn; intros H; try reflexivity; discriminate H. Qed.
Lemma cnt_eqb_sound a b : cnt_eqb a b = true -> a = b.
Proof.
  destruct a, b; cbn; intros H; try reflexivity; try discriminate H.
  apply Nat.eqb_eq in H. subst. reflexivity.
Qed.
Ltac split_andb H :=
  repeat match type of H with
  | (_ && _)%bool = true => let H' := fresh H in apply andb_true_iff in H; destruct H as [H H']
  end.
Lemma tm_eqb_sound : forall a b, tm_eqb a b = true -> a = b.
Proof.
  induction a; intros b H; destruct b; cbn [tm_eqb] in H; try discriminate H.
  - apply q_eqb_sound in H. subst. reflexivity.
  - reflexivity.
  - apply Nat.eqb_eq in H. subst. reflexivity.
  - apply andb_true_iff in H. destruct H as [H H3]. apply andb_true_iff in H. destruct H as [H1 H2].
    apply Nat.eqb_eq in H1, H2, H3. subst. reflexivity.
  - apply andb_true_iff in H. destruct H as [H1 H2]. apply Nat.eqb_eq in H1, H2. subst. reflexivity.
  - apply andb_true_iff in H. destruct H as [H1 H2]. apply Nat.eqb_eq in H1, H2. subst. reflexivity.
  - apply andb_true_iff in H. destruct H as [H H3]. apply andb_true_iff in H. destruct H as [H1 H2].
    apply binop_eqb_sound in H1. apply IHa1 in H2. apply IHa2 in H3. subst. reflexivity.
  - apply andb_true_iff in H. destruct H as [H H3]. apply andb_true_iff in H. destruct H as [H1 H2].
    apply IHa1 in H1. apply IHa2 in H2. apply IHa3 in H3. subst. reflexivity.
  - apply andb_true_iff in H. destruct H as [H1 H2]. apply Nat.eqb_eq in H1. apply IHa in H2. subst. reflexivity.
  - apply andb_true_iff in H. destruct H as [H1 H2]. apply Nat.eqb_eq in H1. apply IHa in H2. subst. reflexivity.
  - apply andb_true_iff in H. destruct H as [H H5]. apply andb_true_iff in H. destruct H as [H H4].
    apply andb_true_iff in H. destruct H as [H H3]. apply andb_true_iff in H. destruct H as [H1 H2].
    apply bigop_eqb_sound in H1. apply Nat.eqb_eq in H2. apply IHa1 in H3. apply IHa2 in H4. apply IHa3 in H5.
    subst. reflexivity.
Qed.
Lemma prog_eqb_sound : forall a b, prog_eqb a b = true -> a = b.
Proof.
  induction a; intros b H; destruct b; cbn [prog_eqb] in H; try discriminate H.
  - apply andb_true_iff in H. destruct H as [H H3]. apply andb_true_iff in H. destruct H as [H1 H2].
    apply Nat.eqb_eq in H1. apply tm_eqb_sound in H2. apply IHa in H3. subst. reflexivity.
  - apply andb_true_iff in H. destruct H as [H H3]. apply andb_true_iff in H. destruct H as [H1 H2].
    apply Nat.eqb_eq in H1. apply tm_eqb_sound in H2. apply IHa in H3. subst. reflexivity.
  - apply andb_true_iff in H. destruct H as [H H3]. apply andb_true_iff in H. destruct H as [H1 H2].
    apply Nat.eqb_eq in H1. apply tm_eqb_sound in H2. apply IHa in H3. subst. reflexivity.
  - apply andb_true_iff in H. destruct H as [H H5]. apply andb_true_iff in H. destruct H as [H H4].
    apply andb_true_iff in H. destruct H as [H H3]. apply andb_true_iff in H. destruct H as [H1 H2].
    apply cnt_eqb_sound in H1. apply Nat.eqb_eq in H2. apply tm_eqb_sound in H3, H4. apply IHa in H5. subst. reflexivity.
  - apply andb_true_iff in H. destruct H as [H H5]. apply andb_true_iff in H. destruct H as [H H4].
    apply andb_true_iff in H. destruct H as [H H3]. apply andb_true_iff in H. destruct H as [H1 H2].
    apply cnt_eqb_sound in H1. apply Nat.eqb_eq in H2. apply tm_eqb_sound in H3, H4. apply IHa in H5. subst. reflexivity.
  - apply tm_eqb_sound in H. subst. reflexivity.
  - apply tm_eqb_sound in H. subst. reflexivity.
  - apply tm_eqb_sound in H. subst. reflexivity.
Qed.

(* when the driver answers "true", the generated program IS the hand-written term: they then agree on every input *)
Theorem gen_same_as_hand_sound : forall idx id k, gen_same_as_hand idx id k = true ->
  gen_prog idx = measure_by_id id k /\
  forall prims A ci ks, run_gen prims idx A ci ks = run_measure prims id k A ci ks.
Proof.
  intros idx id k H. apply prog_eqb_sound in H. split; [exact H|].
  intros. unfold run_gen, run_measure. rewrite H. reflexivity.
Qed.
