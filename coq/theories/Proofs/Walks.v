(* Proofs/Walks.v — findwalks: Wq[:,:,q] = A^q = number of walks with q steps (q = 1..n-1), Wq[:,:,0] = 0. *)
From Coq Require Import ZArith List Arith Bool Lia.
From BCT Require Import Base.Mat Base.ListX Model.Walks.
Import ListNotations.
Open Scope Z_scope.

Definition on_grid (n : nat) (A B : mat Z) : Prop := forall i j, (i < n)%nat -> (j < n)%nat -> A i j = B i j.

Lemma mmulZ_ext n A A' B B' : on_grid n A A' -> on_grid n B B' -> on_grid n (mmulZ n A B) (mmulZ n A' B').
Proof. intros HA HB i j Hi Hj. unfold mmulZ. apply sumn_ext. intros k Hk. rewrite HA, HB by assumption. reflexivity. Qed.

Lemma mpowZ_ext n A A' q : on_grid n A A' -> on_grid n (mpowZ n A q) (mpowZ n A' q).
Proof. intros H. induction q; cbn [mpowZ]; [intros i j _ _; reflexivity|]. apply mmulZ_ext; assumption. Qed.

Lemma tab_grid n (A : mat Z) : on_grid n (tab 0 n n A) A.
Proof. intros i j Hi Hj. apply tab_spec; assumption. Qed.

Lemma on_grid_trans n A B C : on_grid n A B -> on_grid n B C -> on_grid n A C.
Proof. intros H1 H2 i j Hi Hj. rewrite H1, H2 by assumption. reflexivity. Qed.

Section Loop.
Variables (n : nat) (C : mat Z).

Lemma fw_loop_spec : forall todo q P Wq,
  (1 <= q)%nat -> on_grid n P (mpowZ n C (q - 1)) ->
  (forall q', (1 <= q' < q)%nat -> on_grid n (Wq q') (mpowZ n C q')) ->
  on_grid n (Wq O) zerosZ ->
  let R := fw_loop n C todo q P Wq in
  (forall q', (1 <= q' < q + todo)%nat -> on_grid n (R q') (mpowZ n C q')) /\ on_grid n (R O) zerosZ.
Proof.
  induction todo as [|t IH]; intros q P Wq Hq HP HW H0; cbn [fw_loop].
  - split; [|exact H0]. intros q' Hq'. apply HW. lia.
  - set (P' := tab 0 n n (mmulZ n P C)).
    assert (HP' : on_grid n P' (mpowZ n C q)).
    { apply (on_grid_trans n _ (mmulZ n P C)); [apply tab_grid|].
      destruct q as [|q0]; [lia|]. cbn [mpowZ]. replace (S q0 - 1)%nat with q0 in HP by lia.
      apply mmulZ_ext; [exact HP|intros i j _ _; reflexivity]. }
    destruct (IH (S q) P' (fun q' => if Nat.eqb q' q then P' else Wq q')) as [H1 H2].
    + lia.
    + replace (S q - 1)%nat with q by lia. exact HP'.
    + intros q' Hq'. destruct (Nat.eqb_spec q' q); [subst; exact HP'|apply HW; lia].
    + destruct (Nat.eqb_spec O q); [lia|exact H0].
    + split; [|exact H2]. intros q' Hq'. apply H1. lia.
Qed.
End Loop.

(* ---------------- counting walks ---------------- *)
Lemma length_flat_map_seq {A} (f : nat -> list A) n :
  Z.of_nat (length (flat_map f (seq 0 n))) = sumn (fun k => Z.of_nat (length (f k))) n.
Proof.
  induction n; [reflexivity|]. rewrite seq_S, flat_map_app, app_length. cbn [flat_map sumn Nat.add].
  rewrite app_nil_r. rewrite Nat2Z.inj_add, IHn. reflexivity.
Qed.

Lemma walks_count n A : forall q i j, (i < n)%nat -> (j < n)%nat ->
  Z.of_nat (length (walks n A q i j)) = mpowZ n (binz A) q i j.
Proof.
  induction q; intros i j Hi Hj.
  - cbn [walks mpowZ]. unfold eyeZ. destruct (Nat.eqb i j); reflexivity.
  - cbn [walks mpowZ]. rewrite length_flat_map_seq. unfold mmulZ. apply sumn_ext. intros k Hk.
    rewrite <- (IHq i k Hi Hk). unfold binz. destruct (Z.eqb (A k j) 0); [cbn [length]; lia|].
    rewrite map_length. lia.
Qed.

(* ---------------- the enumeration is exactly the set of walks ---------------- *)
Lemma walk_ends n A i j w : walk n A i j w -> (i < n)%nat /\ (j < n)%nat /\ last w O = j /\ (1 <= length w)%nat.
Proof.
  induction 1 as [i Hi|i k j w Hw IH Hj Hkj].
  - cbn. repeat split; auto.
  - destruct IH as (H1 & _ & _ & H4). repeat split; auto.
    + apply last_last.
    + rewrite app_length. cbn [length]. lia.
Qed.

Lemma walks_sound n A : forall q i j w, (i < n)%nat -> (j < n)%nat ->
  In w (walks n A q i j) -> walk n A i j w /\ length w = S q.
Proof.
  induction q; intros i j w Hi Hj Hin; cbn [walks] in Hin.
  - destruct (Nat.eqb_spec i j); [|contradiction]. destruct Hin as [<-|[]]. subst. split; [constructor; exact Hi|reflexivity].
  - apply in_flat_map in Hin. destruct Hin as [k [Hk Hin]]. apply in_seq in Hk.
    destruct (Z.eqb_spec (A k j) 0); [contradiction|].
    apply in_map_iff in Hin. destruct Hin as [w0 [<- Hw0]].
    destruct (IHq i k w0 Hi ltac:(lia) Hw0) as [Hw Hl]. split.
    + apply (walk_snoc n A i k j w0); assumption.
    + rewrite app_length. cbn [length]. lia.
Qed.

Lemma walks_complete n A : forall i j w, walk n A i j w -> forall q, length w = S q -> In w (walks n A q i j).
Proof.
  induction 1 as [i Hi|i k j w Hw IH Hj Hkj]; intros q Hl.
  - cbn [length] in Hl. assert (q = O) by lia. subst. cbn [walks]. rewrite Nat.eqb_refl. left; reflexivity.
  - rewrite app_length in Hl. cbn [length] in Hl.
    destruct (walk_ends n A i k w Hw) as (_ & Hk & _ & Hlen).
    destruct q as [|q']; [lia|]. cbn [walks]. apply in_flat_map. exists k. split; [apply in_seq; lia|].
    destruct (Z.eqb_spec (A k j) 0); [contradiction|]. apply in_map_iff. exists w. split; [reflexivity|].
    apply IH. lia.
Qed.

Lemma walks_NoDup n A : forall q i j, (i < n)%nat -> (j < n)%nat -> NoDup (walks n A q i j).
Proof.
  induction q; intros i j Hi Hj; cbn [walks].
  - destruct (Nat.eqb i j); repeat constructor. intros [].
  - apply NoDup_flat_map.
    + apply seq_NoDup.
    + intros k Hk. apply in_seq in Hk. destruct (Z.eqb (A k j) 0); [constructor|].
      apply FinFun.Injective_map_NoDup; [|apply IHq; lia].
      intros a b E. apply app_inj_tail in E. apply E.
    + intros x y z Hx Hy Hzx Hzy. apply in_seq in Hx. apply in_seq in Hy.
      destruct (Z.eqb (A x j) 0); [contradiction|]. destruct (Z.eqb (A y j) 0); [contradiction|].
      apply in_map_iff in Hzx. apply in_map_iff in Hzy.
      destruct Hzx as [w1 [E1 H1]], Hzy as [w2 [E2 H2]].
      assert (w1 = w2) by (rewrite <- E2 in E1; apply app_inj_tail in E1; apply E1). subst w2.
      destruct (walks_sound n A q i x w1 Hi ltac:(lia) H1) as [Hw1 _].
      destruct (walks_sound n A q i y w1 Hi ltac:(lia) H2) as [Hw2 _].
      destruct (walk_ends _ _ _ _ _ Hw1) as (_ & _ & L1 & _).
      destruct (walk_ends _ _ _ _ _ Hw2) as (_ & _ & L2 & _). congruence.
Qed.

(* ---------------- findwalks ---------------- *)
Lemma mmul_eye_l n C : on_grid n (mmulZ n eyeZ C) C.
Proof.
  intros i j Hi Hj. unfold mmulZ, eyeZ. rewrite (sumn_split _ n i Hi). rewrite Nat.eqb_refl.
  rewrite (sumn_ext _ (fun _ => 0)); [rewrite sumn_zero; lia|].
  intros k _. destruct (Nat.eqb_spec k i); [reflexivity|]. destruct (Nat.eqb_spec i k); [congruence|lia].
Qed.

Theorem findwalks_power n A Wq : findwalks n A = Some Wq ->
  (2 <= n)%nat /\
  (forall i j, (i < n)%nat -> (j < n)%nat -> Wq O i j = 0) /\
  (forall q i j, (1 <= q < n)%nat -> (i < n)%nat -> (j < n)%nat ->
     Wq q i j = mpowZ n (binz A) q i j /\
     Wq q i j = Z.of_nat (length (walks n A q i j))).
Proof.
  unfold findwalks. destruct (Nat.ltb_spec n 2) as [|Hn]; [discriminate|]. intros H. inversion H; subst; clear H.
  set (C := tab 0 n n (binz A)).
  assert (HC1 : on_grid n C (mpowZ n C 1)).
  { intros i j Hi Hj. cbn [mpowZ]. symmetry. apply mmul_eye_l; assumption. }
  destruct (fw_loop_spec n C (n - 2) 2 C (fun q => if Nat.eqb q 1 then C else zerosZ)) as [H1 H2].
  - lia.
  - exact HC1.
  - intros q' Hq'. assert (q' = 1%nat) by lia. subst. exact HC1.
  - intros i j _ _. reflexivity.
  - split; [exact Hn|]. split; [exact H2|].
    intros q i j Hq Hi Hj.
    assert (E : fw_loop n C (n - 2) 2 C (fun q0 => if Nat.eqb q0 1 then C else zerosZ) q i j = mpowZ n (binz A) q i j).
    { rewrite (H1 q ltac:(lia) i j Hi Hj). apply mpowZ_ext; [apply tab_grid|assumption|assumption]. }
    split; [exact E|]. rewrite E. symmetry. apply walks_count; assumption.
Qed.

Theorem findwalks_rejects n A : findwalks n A = None <-> (n < 2)%nat.
Proof. unfold findwalks. destruct (Nat.ltb_spec n 2); split; intros; try discriminate; try lia; reflexivity. Qed.
