(* Proofs/RewireSpec.v — the engine of Model/Rewire.v is the execution of the swap table. *)
From Coq Require Import ZArith List Arith Bool.
From BCT Require Import Base.Mat Base.ListX Model.Rewire Model.RewireSpec.
Import ListNotations.
Open Scope Z_scope.

Lemma engine_writes_dir R a b c d : exec_writes (mkenv a b c d) writes_dir R = swap_dir R a b c d.
Proof. reflexivity. Qed.
Lemma engine_writes_und R a b c d : exec_writes (mkenv a b c d) writes_und R = swap_und R a b c d.
Proof. reflexivity. Qed.
Lemma engine_four a b c d : eval_four (mkenv a b c d) four_std = four_ok a b c d.
Proof. unfold eval_four, four_std, four_ok; cbn. rewrite andb_true_r. rewrite !andb_assoc. reflexivity. Qed.
Lemma engine_cond R a b c d :
  eval_cond (mkenv a b c d) R cond_std = (Z.eqb (R a d) 0 && Z.eqb (R c b) 0)%bool.
Proof. unfold eval_cond, cond_std; cbn. rewrite andb_true_r. reflexivity. Qed.
Lemma engine_patches a b c d e1 e2 i j :
  exec_patches (mkenv a b c d) e1 e2 patches_std (i, j) = (i, vupd (vupd j e1 d) e2 b).
Proof. reflexivity. Qed.
Lemma engine_flip a b c d e1 e2 i j :
  exec_patches (mkenv a b c d) e1 e2 flip_std (i, j) = (vupd i e2 d, vupd j e2 c).
Proof. reflexivity. Qed.
Lemma engine_mask B a b c d R :
  eval_cond (mkenv a b c d) B [(SA, SD); (SC, SB)] = mask_guard B R a b c d.
Proof. unfold eval_cond, mask_guard; cbn. rewrite andb_true_r. reflexivity. Qed.

(* the accepted branch of an attempt, written with the table of the routine's variant *)
Theorem attempt_is_table (und : bool) R a b c d e1 e2 i j :
  let r := mkenv a b c d in
  (if und then swap_und R a b c d else swap_dir R a b c d) = exec_writes r (if und then writes_und else writes_dir) R /\
  (i, vupd (vupd j e1 d) e2 b) = exec_patches r e1 e2 patches_std (i, j) /\
  four_ok a b c d = eval_four r four_std /\
  (Z.eqb (R a d) 0 && Z.eqb (R c b) 0)%bool = eval_cond r R cond_std.
Proof.
  cbv zeta. split; [destruct und; reflexivity|]. split; [reflexivity|]. split; [symmetry; apply engine_four|symmetry; apply engine_cond].
Qed.
