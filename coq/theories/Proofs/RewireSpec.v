(* Proofs/RewireSpec.v — the engine of Model/Rewire.v is the execution of the swap table. *)
From Coq Require Import ZArith List Arith Bool QArith.
From BCT Require Import Base.Mat Base.ListX Model.Rewire Model.RewireSpec Model.RewireBin.
Import ListNotations.
Open Scope Z_scope.

Lemma engine_writes_dir R a b c d : exec_writes (mkenv a b c d) writes_dir R = swap_dir R a b c d.
Proof. reflexivity. Qed.
Lemma engine_writes_und R a b c d : exec_writes (mkenv a b c d) writes_und R = swap_und R a b c d.
Proof. reflexivity. Qed.
Lemma engine_four a b c d : eval_four (mkenv a b c d) four_std = four_ok a b c d.
Proof. unfold eval_four, four_std, four_ok; cbn. rewrite andb_true_r. rewrite !andb_assoc. reflexivity. Qed.
Lemma engine_cond R a b c d :
  eval_cond (mkenv a b c d) R cond_std = (Z.eqb (R a d) 0 && Z.eqb (R c b) 0)%bool.
Proof. unfold eval_cond, cond_std; cbn. rewrite andb_true_r. reflexivity. Qed.
Lemma engine_patches a b c d e1 e2 i j :
  exec_patches (mkenv a b c d) e1 e2 patches_std (i, j) = (i, vupd (vupd j e1 d) e2 b).
Proof. reflexivity. Qed.
Lemma engine_flip a b c d e1 e2 i j :
  exec_patches (mkenv a b c d) e1 e2 flip_std (i, j) = (vupd i e2 d, vupd j e2 c).
Proof. reflexivity. Qed.
Lemma engine_mask B a b c d R :
  eval_cond (mkenv a b c d) B [(SA, SD); (SC, SB)] = mask_guard B R a b c d.
Proof. unfold eval_cond, mask_guard; cbn. rewrite andb_true_r. reflexivity. Qed.

(* the accepted branch of an attempt, written with the table of the routine's variant *)
Theorem attempt_is_table (und : bool) R a b c d e1 e2 i j :
  let r := mkenv a b c d in
  (if und then swap_und R a b c d else swap_dir R a b c d) = exec_writes r (if und then writes_und else writes_dir) R /\
  (i, vupd (vupd j e1 d) e2 b) = exec_patches r e1 e2 patches_std (i, j) /\
  four_ok a b c d = eval_four r four_std /\
  (Z.eqb (R a d) 0 && Z.eqb (R c b) 0)%bool = eval_cond r R cond_std.
Proof.
  cbv zeta. split; [destruct und; reflexivity|]. split; [reflexivity|]. split; [symmetry; apply engine_four|symmetry; apply engine_cond].
Qed.

(* ---------- the whole attempt, table-driven, IS the engine's attempt ---------- *)
Lemma read_env_std i j e1 e2 :
  let r0 := read_env reads_std i j e1 e2 in
  r0 SA = i e1 /\ r0 SB = j e1 /\ r0 SC = i e2 /\ r0 SD = j e2.
Proof. cbv zeta. repeat split; reflexivity. Qed.

Lemma eval_four_ext (r r' : env) l : (forall s, r s = r' s) -> eval_four r l = eval_four r' l.
Proof.
  intros H. unfold eval_four. induction l as [|c l IH]; [reflexivity|]. cbn [forallb]. rewrite IH, !H. reflexivity.
Qed.

Lemma select_tab_std fuel k ei ej s : select_tab four_std reads_std true fuel k ei ej s = select fuel k ei ej s.
Proof.
  revert s. induction fuel as [|f IH]; intros s; [reflexivity|]. cbn [select_tab select].
  destruct s as [|[z1|q|l] s1]; try reflexivity.
  destruct (pop_e2 f k (randint k z1) s1) as [[e2 s2]|]; [|reflexivity].
  rewrite (eval_four_ext _ (mkenv (ei (randint k z1)) (ej (randint k z1)) (ei e2) (ej e2))) by (intros [| | |]; reflexivity).
  rewrite engine_four. rewrite IH. reflexivity.
Qed.

Lemma state_eta st : mkst (sR st) (si st) (sj st) = st.
Proof. destruct st; reflexivity. Qed.

(* the eight engine routines: the attempt read off the table equals the engine's, for every guard g *)
Theorem attempt_tab_engine (rt : routine) (B : mat Z) g k st s :
  attempt_tab (spec_of rt) B g k st s = attempt (mkvar (is_und rt) g) k st s.
Proof.
  unfold attempt_tab, attempt, spec_of.
  cbn [ss_four ss_reads ss_redraw ss_flip ss_cond ss_mask ss_writes ss_patches v_und v_guard].
  rewrite select_tab_std.
  destruct (select (length s) k (si st) (sj st) s) as [[[e1 e2] s1]|]; [|reflexivity].
  destruct (read_env_std (si st) (sj st) e1 e2) as (Ea & Eb & Ec & Ed). cbv zeta. rewrite Ea, Eb, Ec, Ed.
  destruct (is_und rt).
  - cbn [flip_std]. destruct s1 as [|[z|q|l] s2]; try reflexivity.
    destruct (Qgtb q (1 # 2)).
    + rewrite engine_flip. cbn [fst snd sR si sj]. rewrite !vupd_same.
      rewrite engine_cond. cbn [eval_cond forallb]. rewrite andb_true_r.
      destruct (Z.eqb (sR st (si st e1) (si st e2)) 0 && Z.eqb (sR st (sj st e2) (sj st e1)) 0 &&
                g (sR st) (si st e1) (sj st e1) (sj st e2) (si st e2))%bool; [|reflexivity].
      rewrite engine_writes_und, engine_patches. reflexivity.
    + cbn [fst snd]. rewrite engine_cond. cbn [eval_cond forallb]. rewrite andb_true_r.
      destruct (Z.eqb (sR st (si st e1) (sj st e2)) 0 && Z.eqb (sR st (si st e2) (sj st e1)) 0 &&
                g (sR st) (si st e1) (sj st e1) (si st e2) (sj st e2))%bool.
      * rewrite engine_writes_und, engine_patches. reflexivity.
      * rewrite state_eta. reflexivity.
  - cbn [fst snd]. rewrite engine_cond. cbn [eval_cond forallb]. rewrite andb_true_r.
    destruct (Z.eqb (sR st (si st e1) (sj st e2)) 0 && Z.eqb (sR st (si st e2) (sj st e1)) 0 &&
              g (sR st) (si st e1) (sj st e1) (si st e2) (sj st e2))%bool.
    + rewrite engine_writes_dir, engine_patches. reflexivity.
    + rewrite state_eta. reflexivity.
Qed.

(* randomize_graph_partial_und: the table's mask cells, evaluated on B, are the engine's mask guard *)
Theorem attempt_tab_partial (B : mat Z) k st s :
  attempt_tab spec_partial_und B no_guard k st s = attempt (mkvar true (mask_guard B)) k st s.
Proof.
  unfold attempt_tab, attempt, spec_partial_und.
  cbn [ss_four ss_reads ss_redraw ss_flip ss_cond ss_mask ss_writes ss_patches v_und v_guard].
  rewrite select_tab_std.
  destruct (select (length s) k (si st) (sj st) s) as [[[e1 e2] s1]|]; [|reflexivity].
  destruct (read_env_std (si st) (sj st) e1 e2) as (Ea & Eb & Ec & Ed). cbv zeta. rewrite Ea, Eb, Ec, Ed.
  cbn [flip_std]. destruct s1 as [|[z|q|l] s2]; try reflexivity.
  unfold no_guard. rewrite !andb_true_r.
  destruct (Qgtb q (1 # 2)).
  - rewrite engine_flip. cbn [fst snd sR si sj]. rewrite !vupd_same.
    rewrite engine_cond. unfold mask_std. rewrite (engine_mask B _ _ _ _ (sR st)).
    destruct (Z.eqb (sR st (si st e1) (si st e2)) 0 && Z.eqb (sR st (sj st e2) (sj st e1)) 0 &&
              mask_guard B (sR st) (si st e1) (sj st e1) (sj st e2) (si st e2))%bool; [|reflexivity].
    rewrite engine_writes_und, engine_patches. reflexivity.
  - cbn [fst snd]. rewrite engine_cond. unfold mask_std. rewrite (engine_mask B _ _ _ _ (sR st)).
    destruct (Z.eqb (sR st (si st e1) (sj st e2)) 0 && Z.eqb (sR st (si st e2) (sj st e1)) 0 &&
              mask_guard B (sR st) (si st e1) (sj st e1) (si st e2) (sj st e2))%bool.
    + rewrite engine_writes_und, engine_patches. reflexivity.
    + rewrite state_eta. reflexivity.
Qed.

(* the remaining table columns against the run functions: edge-list source, halving of max_attempts, permutation *)
Lemma spec_of_columns rt :
  ss_el (spec_of rt) = (if is_und rt then ELtril else ELall) /\
  ss_halved (spec_of rt) = (is_latt rt && is_und rt)%bool /\
  ss_latt (spec_of rt) = is_latt rt /\ ss_lattice (spec_of rt) = is_latt rt /\ ss_conn (spec_of rt) = is_conn rt.
Proof. repeat split; reflexivity. Qed.

(* randomizer_bin_und: its swap is the execution of its write table *)
Theorem rbu_swap_is_table R a b c d : rbu_swap R a b c d = exec_cwrites (mkenv a b c d) rbu_writes_std R.
Proof. reflexivity. Qed.

(* ... and its mate search reads the table's cell tests: the common non-neighbours of a and b, and the value a mate has *)
Theorem rbu_holes_is_table n R a b c d :
  common_holes n R a b = filter (fun x => eval_tests (mkenv a b c d) R x rbu_tests_std) (seq 0 n).
Proof.
  unfold common_holes. apply filter_ext. intros x. unfold eval_tests, rbu_tests_std. cbn [forallb fst snd mkenv].
  rewrite andb_true_r. reflexivity.
Qed.
Theorem rbu_mates_is_table R h :
  mates R h = flat_map (fun u => flat_map (fun v => if Z.eqb (R u v) rbu_mate_std then [(u, v)] else []) h) h.
Proof. reflexivity. Qed.
Theorem rbu_is_table R a b c d :
  rbu_swap R a b c d = exec_cwrites (mkenv a b c d) rbu_writes_std R /\
  (forall n, common_holes n R a b = filter (fun x => eval_tests (mkenv a b c d) R x rbu_tests_std) (seq 0 n)) /\
  (forall h, mates R h = flat_map (fun u => flat_map (fun v => if Z.eqb (R u v) rbu_mate_std then [(u, v)] else []) h) h).
Proof. split; [apply rbu_swap_is_table|]. split; [intros n; apply rbu_holes_is_table|intros h; apply rbu_mates_is_table]. Qed.
