(* Proofs/RewireSwap.v — what one accepted swap does to the matrix (directed and undirected). *)
From Coq Require Import ZArith List Arith Bool Lia.
From BCT Require Import Base.Mat Base.ListX Model.Rewire.
Import ListNotations.
Open Scope Z_scope.

Definition outdeg (n : nat) (R : mat Z) (x : nat) : Z := sumn (fun y => nz (R x y)) n.
Definition indeg (n : nat) (R : mat Z) (y : nat) : Z := sumn (fun x => nz (R x y)) n.
Definition outstr (n : nat) (R : mat Z) (x : nat) : Z := sumn (fun y => R x y) n.
(* number of cells of the n x n grid holding the value w: the multiset of entries *)
Definition wcount (n : nat) (R : mat Z) (w : Z) : Z := sum2 (fun x y => b2z (Z.eqb (R x y) w)) n.

Lemma nz_0 : nz 0 = 0. Proof. reflexivity. Qed.
Lemma nz_nonzero z : z <> 0 -> nz z = 1.
Proof. intros H. unfold nz. destruct (Z.eqb_spec z 0); [contradiction|reflexivity]. Qed.

(* ------------------------------------------------------------------ directed *)
Section Dir.
Variables (R : mat Z) (a b c d : nat).
Hypothesis Hac : a <> c.
Hypothesis Hbd : b <> d.
Let R' := swap_dir R a b c d.

Lemma swap_dir_ad : R' a d = R a b.
Proof. unfold R', swap_dir, upd. eqb_cases. Qed.
Lemma swap_dir_ab : R' a b = 0.
Proof. unfold R', swap_dir, upd. eqb_cases. Qed.
Lemma swap_dir_cb : R' c b = R c d.
Proof. unfold R', swap_dir, upd. eqb_cases. Qed.
Lemma swap_dir_cd : R' c d = 0.
Proof. unfold R', swap_dir, upd. eqb_cases. Qed.
Lemma swap_dir_other x y :
  ~ (x = a /\ y = d) -> ~ (x = a /\ y = b) -> ~ (x = c /\ y = b) -> ~ (x = c /\ y = d) -> R' x y = R x y.
Proof. intros H1 H2 H3 H4. unfold R', swap_dir, upd. eqb_cases; exfalso; tauto. Qed.
Lemma swap_dir_other_row x y : x <> a -> x <> c -> R' x y = R x y.
Proof. intros H1 H2. apply swap_dir_other; tauto. Qed.
Lemma swap_dir_other_col x y : y <> b -> y <> d -> R' x y = R x y.
Proof. intros H1 H2. apply swap_dir_other; tauto. Qed.

Variable n : nat.
Hypotheses (Ha : (a < n)%nat) (Hb : (b < n)%nat) (Hc : (c < n)%nat) (Hd : (d < n)%nat).
(* the rewiring condition: target cells empty *)
Hypothesis Had0 : R a d = 0.
Hypothesis Hcb0 : R c b = 0.

(* any function of the entries: within rows a and c the positions b and d exchange their values *)
Lemma swap_dir_row_sum (g : Z -> Z) x :
  sumn (fun y => g (R' x y)) n = sumn (fun y => g (R x y)) n.
Proof.
  destruct (Nat.eq_dec x a) as [->|Hxa]; [|destruct (Nat.eq_dec x c) as [->|Hxc]].
  - apply (sumn_swap2 _ _ n b d); auto.
    + rewrite swap_dir_ab, Had0. reflexivity.
    + rewrite swap_dir_ad. reflexivity.
    + intros y Hy1 Hy2. rewrite swap_dir_other_col; auto.
  - apply (sumn_swap2 _ _ n b d); auto.
    + rewrite swap_dir_cb. reflexivity.
    + rewrite swap_dir_cd, Hcb0. reflexivity.
    + intros y Hy1 Hy2. rewrite swap_dir_other_col; auto.
  - apply sumn_ext. intros y _. rewrite swap_dir_other_row; auto.
Qed.

Lemma swap_dir_outdeg x : outdeg n R' x = outdeg n R x.
Proof. apply (swap_dir_row_sum nz). Qed.
Lemma swap_dir_outstr x : outstr n R' x = outstr n R x.
Proof. apply (swap_dir_row_sum (fun z => z)). Qed.
Lemma swap_dir_wcount w : wcount n R' w = wcount n R w.
Proof. unfold wcount, sum2. apply sumn_ext. intros x _. apply (swap_dir_row_sum (fun z => b2z (Z.eqb z w))). Qed.

(* in-degree needs the moved entries to be real connections *)
Hypothesis Hab1 : R a b <> 0.
Hypothesis Hcd1 : R c d <> 0.
Lemma swap_dir_indeg y : indeg n R' y = indeg n R y.
Proof.
  unfold indeg.
  destruct (Nat.eq_dec y b) as [->|Hyb]; [|destruct (Nat.eq_dec y d) as [->|Hyd]].
  - apply (sumn_swap2 _ _ n a c); auto.
    + rewrite swap_dir_ab, Hcb0. reflexivity.
    + rewrite swap_dir_cb. rewrite !nz_nonzero; auto.
    + intros x Hx1 Hx2. rewrite swap_dir_other_row; auto.
  - apply (sumn_swap2 _ _ n a c); auto.
    + rewrite swap_dir_ad. rewrite !nz_nonzero; auto.
    + rewrite swap_dir_cd, Had0. reflexivity.
    + intros x Hx1 Hx2. rewrite swap_dir_other_row; auto.
  - apply sumn_ext. intros x _. rewrite swap_dir_other_col; auto.
Qed.
End Dir.

(* no new self-connection, whatever the matrix: the written cells (a,d), (c,b) are off-diagonal *)
Lemma swap_dir_diag R a b c d x : a <> c -> b <> d -> a <> d -> b <> c -> R x x = 0 -> swap_dir R a b c d x x = 0.
Proof.
  intros Hac Hbd Had Hbc H0.
  destruct (Nat.eq_dec x a) as [->|Hxa]; [destruct (Nat.eq_dec a b) as [->|Hab]|].
  - apply swap_dir_ab; auto.
  - rewrite swap_dir_other; auto; intros [E1 E2]; congruence.
  - destruct (Nat.eq_dec x c) as [->|Hxc]; [destruct (Nat.eq_dec c d) as [->|Hcd]|].
    + apply swap_dir_cd; auto.
    + rewrite swap_dir_other; auto; intros [E1 E2]; congruence.
    + rewrite swap_dir_other_row; auto.
Qed.

(* ------------------------------------------------------------------ undirected *)
Section Und.
Variables (R : mat Z) (a b c d : nat).
Hypotheses (Hab : a <> b) (Hac : a <> c) (Had : a <> d) (Hbc : b <> c) (Hbd : b <> d) (Hcd : c <> d).
Let R' := swap_und R a b c d.

Lemma swap_und_ad : R' a d = R a b. Proof. unfold R', swap_und, upd. eqb_cases. Qed.
Lemma swap_und_ab : R' a b = 0. Proof. unfold R', swap_und, upd. eqb_cases. Qed.
Lemma swap_und_da : R' d a = R b a. Proof. unfold R', swap_und, upd. eqb_cases. Qed.
Lemma swap_und_ba : R' b a = 0. Proof. unfold R', swap_und, upd. eqb_cases. Qed.
Lemma swap_und_cb : R' c b = R c d. Proof. unfold R', swap_und, upd. eqb_cases. Qed.
Lemma swap_und_cd : R' c d = 0. Proof. unfold R', swap_und, upd. eqb_cases. Qed.
Lemma swap_und_bc : R' b c = R d c. Proof. unfold R', swap_und, upd. eqb_cases. Qed.
Lemma swap_und_dc : R' d c = 0. Proof. unfold R', swap_und, upd. eqb_cases. Qed.

Definition touched (x y : nat) : Prop :=
  (x = a /\ y = d) \/ (x = a /\ y = b) \/ (x = d /\ y = a) \/ (x = b /\ y = a) \/
  (x = c /\ y = b) \/ (x = c /\ y = d) \/ (x = b /\ y = c) \/ (x = d /\ y = c).
Lemma swap_und_other x y : ~ touched x y -> R' x y = R x y.
Proof. unfold touched. intros H. unfold R', swap_und, upd. eqb_cases; exfalso; apply H; tauto. Qed.
End Und.

Section Und2.
Variables (R : mat Z) (a b c d : nat).
Hypotheses (Hab : a <> b) (Hac : a <> c) (Had : a <> d) (Hbc : b <> c) (Hbd : b <> d) (Hcd : c <> d).
Hypothesis Hsym : forall x y, R x y = R y x.
Let R' := swap_und R a b c d.

Lemma touched_dec x y : {touched a b c d x y} + {~ touched a b c d x y}.
Proof.
  unfold touched.
  destruct (Nat.eq_dec x a), (Nat.eq_dec x b), (Nat.eq_dec x c), (Nat.eq_dec x d),
           (Nat.eq_dec y a), (Nat.eq_dec y b), (Nat.eq_dec y c), (Nat.eq_dec y d);
  try (left; tauto); right; intros H; repeat destruct H as [H|H]; destruct H; congruence.
Qed.

Lemma touched_sym x y : touched a b c d x y -> touched a b c d y x.
Proof. unfold touched. intros H. repeat destruct H as [H|H]; destruct H; subst; tauto. Qed.

Lemma swap_und_sym x y : R' x y = R' y x.
Proof.
  destruct (touched_dec x y) as [H|H].
  - unfold touched in H. unfold R'.
    repeat destruct H as [H|H]; destruct H; subst;
    rewrite ?swap_und_ad, ?swap_und_ab, ?swap_und_da, ?swap_und_ba,
            ?swap_und_cb, ?swap_und_cd, ?swap_und_bc, ?swap_und_dc by auto; auto.
  - unfold R'. rewrite !swap_und_other; auto. intros H'. apply H. apply touched_sym. exact H'.
Qed.

Lemma swap_und_diag x : R' x x = R x x.
Proof. unfold R'. apply swap_und_other; auto. unfold touched. intros H.
  repeat destruct H as [H|H]; destruct H; congruence. Qed.

Lemma swap_und_other_row x y : x <> a -> x <> b -> x <> c -> x <> d -> R' x y = R x y.
Proof. intros. unfold R'. apply swap_und_other; auto. unfold touched. intros H'.
  repeat destruct H' as [H'|H']; destruct H'; congruence. Qed.

Variable n : nat.
Hypotheses (Ha : (a < n)%nat) (Hb : (b < n)%nat) (Hc : (c < n)%nat) (Hd : (d < n)%nat).
Hypothesis Had0 : R a d = 0.
Hypothesis Hcb0 : R c b = 0.

Lemma und_row_a y : y <> b -> y <> d -> R' a y = R a y.
Proof. intros. unfold R'. apply swap_und_other; auto. unfold touched. intros H'.
  repeat destruct H' as [H'|H']; destruct H'; congruence. Qed.
Lemma und_row_c y : y <> b -> y <> d -> R' c y = R c y.
Proof. intros. unfold R'. apply swap_und_other; auto. unfold touched. intros H'.
  repeat destruct H' as [H'|H']; destruct H'; congruence. Qed.
Lemma und_row_b y : y <> a -> y <> c -> R' b y = R b y.
Proof. intros. unfold R'. apply swap_und_other; auto. unfold touched. intros H'.
  repeat destruct H' as [H'|H']; destruct H'; congruence. Qed.
Lemma und_row_d y : y <> a -> y <> c -> R' d y = R d y.
Proof. intros. unfold R'. apply swap_und_other; auto. unfold touched. intros H'.
  repeat destruct H' as [H'|H']; destruct H'; congruence. Qed.

(* rows a and c: positions b and d exchange their values exactly *)
Lemma und_row_sum_a (g : Z -> Z) : sumn (fun y => g (R' a y)) n = sumn (fun y => g (R a y)) n.
Proof. apply (sumn_swap2 _ _ n b d); auto.
  - unfold R'. rewrite swap_und_ab, Had0 by auto. reflexivity.
  - unfold R'. rewrite swap_und_ad by auto. reflexivity.
  - intros y H1 H2. rewrite und_row_a; auto. Qed.
Lemma und_row_sum_c (g : Z -> Z) : sumn (fun y => g (R' c y)) n = sumn (fun y => g (R c y)) n.
Proof. apply (sumn_swap2 _ _ n b d); auto.
  - unfold R'. rewrite swap_und_cb by auto. reflexivity.
  - unfold R'. rewrite swap_und_cd, Hcb0 by auto. reflexivity.
  - intros y H1 H2. rewrite und_row_c; auto. Qed.

(* rows b and d: explicit change *)
Lemma und_row_sum_b (g : Z -> Z) :
  sumn (fun y => g (R' b y)) n = sumn (fun y => g (R b y)) n - g (R b a) + g (R d c).
Proof.
  rewrite (sumn_split2 (fun y => g (R' b y)) n a c Ha Hc Hac).
  rewrite (sumn_split2 (fun y => g (R b y)) n a c Ha Hc Hac).
  unfold R'. rewrite swap_und_ba, swap_und_bc by auto.
  assert (E: R b c = 0) by (rewrite Hsym; exact Hcb0). rewrite E.
  rewrite (sumn_ext (fun i => if Nat.eqb i c then 0 else if Nat.eqb i a then 0 else g (swap_und R a b c d b i))
                    (fun i => if Nat.eqb i c then 0 else if Nat.eqb i a then 0 else g (R b i)) n); [lia|].
  intros y _. destruct (Nat.eqb_spec y c); [reflexivity|]. destruct (Nat.eqb_spec y a); [reflexivity|].
  fold R'. rewrite und_row_b; auto.
Qed.
Lemma und_row_sum_d (g : Z -> Z) :
  sumn (fun y => g (R' d y)) n = sumn (fun y => g (R d y)) n - g (R d c) + g (R b a).
Proof.
  rewrite (sumn_split2 (fun y => g (R' d y)) n a c Ha Hc Hac).
  rewrite (sumn_split2 (fun y => g (R d y)) n a c Ha Hc Hac).
  unfold R'. rewrite swap_und_da, swap_und_dc by auto.
  assert (E: R d a = 0) by (rewrite Hsym; exact Had0). rewrite E.
  rewrite (sumn_ext (fun i => if Nat.eqb i c then 0 else if Nat.eqb i a then 0 else g (swap_und R a b c d d i))
                    (fun i => if Nat.eqb i c then 0 else if Nat.eqb i a then 0 else g (R d i)) n); [lia|].
  intros y _. destruct (Nat.eqb_spec y c); [reflexivity|]. destruct (Nat.eqb_spec y a); [reflexivity|].
  fold R'. rewrite und_row_d; auto.
Qed.

Lemma swap_und_wcount w : wcount n R' w = wcount n R w.
Proof.
  unfold wcount, sum2.
  set (g := fun z => b2z (Z.eqb z w)).
  apply (sumn_move2 _ _ n b d); auto.
  - change (sumn (fun y => g (R' b y)) n + sumn (fun y => g (R' d y)) n =
            sumn (fun y => g (R b y)) n + sumn (fun y => g (R d y)) n).
    rewrite und_row_sum_b, und_row_sum_d. lia.
  - intros x Hxb Hxd.
    destruct (Nat.eq_dec x a) as [->|Hxa]; [apply (und_row_sum_a g)|].
    destruct (Nat.eq_dec x c) as [->|Hxc]; [apply (und_row_sum_c g)|].
    apply sumn_ext. intros y _. rewrite swap_und_other_row; auto.
Qed.

Hypothesis Hab1 : R a b <> 0.
Hypothesis Hcd1 : R c d <> 0.
Lemma swap_und_outdeg x : outdeg n R' x = outdeg n R x.
Proof.
  unfold outdeg.
  destruct (Nat.eq_dec x a) as [->|Hxa]; [apply (und_row_sum_a nz)|].
  destruct (Nat.eq_dec x c) as [->|Hxc]; [apply (und_row_sum_c nz)|].
  destruct (Nat.eq_dec x b) as [->|Hxb].
  { rewrite (und_row_sum_b nz). rewrite !nz_nonzero; [lia| |]; rewrite Hsym; auto. }
  destruct (Nat.eq_dec x d) as [->|Hxd].
  { rewrite (und_row_sum_d nz). rewrite !nz_nonzero; [lia| |]; rewrite Hsym; auto. }
  apply sumn_ext. intros y _. rewrite swap_und_other_row; auto.
Qed.
Lemma swap_und_indeg y : indeg n R' y = indeg n R y.
Proof.
  unfold indeg.
  rewrite (sumn_ext (fun x => nz (R' x y)) (fun x => nz (R' y x)) n) by (intros; rewrite swap_und_sym; reflexivity).
  rewrite (sumn_ext (fun x => nz (R x y)) (fun x => nz (R y x)) n) by (intros; rewrite Hsym; reflexivity).
  apply swap_und_outdeg.
Qed.
End Und2.
