(* Proofs/EquivModelsBetw.v — C04 for the statement-level models of betweenness_bin (matrix powers + back-propagation),
   betweenness_wei (Dijkstra with the queue Q and the batch V), edge_betweenness_bin (breadth-first search) and
   edge_betweenness_wei (Model/Between.v), via C08: each returns BC_spec / EBC_spec (sums, over ordered pairs, of the
   fraction of ALL minimum-length walks that pass through the node / use the connection), and a renumbering is a
   bijection between the minimum-length walks s -> t of the renumbered network and those p s -> p t of the original. *)
From Coq Require Import QArith Lia Arith List Bool Permutation ZArith FinFun.
From BCT Require Import Base.Mat Base.SumQ Base.ListX Model.SymTerm Model.Distance Proofs.EquivModels Model.Between
  Proofs.BetweenSpec Proofs.BetweenBin Proofs.BetweenLast Proofs.BetweenFull Proofs.BetweenBfs Proofs.BetweenPow.
From BCT Require Proofs.SymTerm.
Import ListNotations.
Open Scope Z_scope.

Lemma map_inj_list {A B} (f : A -> B) : (forall a b, f a = f b -> a = b) -> Injective (map f).
Proof.
  intros Hf l. induction l as [|a l IH]; intros [|b l'] E; cbn [map] in E; try discriminate; [reflexivity|].
  injection E as E1 E2. f_equal; [apply Hf; exact E1|apply IH; exact E2].
Qed.

Section BetwSpec.
Variables (n : nat) (p : nat -> nat).
Hypothesis Hp : perm_on n p.
Variable G : mat Z.

Lemma p_eqb a b : Nat.eqb (p a) (p b) = Nat.eqb a b.
Proof.
  destruct (Nat.eqb a b) eqn:E.
  - apply Nat.eqb_eq in E. subst b. apply Nat.eqb_refl.
  - apply Nat.eqb_neq. apply Nat.eqb_neq in E. intros H. apply E. apply (perm_inj n p _ _ Hp H).
Qed.
Lemma p_ltb a : Nat.ltb (p a) n = Nat.ltb a n.
Proof.
  destruct (Nat.ltb a n) eqn:E.
  - apply Nat.ltb_lt. apply Nat.ltb_lt in E. apply (perm_lt n p a Hp E).
  - apply Nat.ltb_ge. apply Nat.ltb_ge in E. apply (Proofs.SymTerm.perm_ge n p a Hp E).
Qed.

Lemma chain_pm a r : chain (pm p G) a r = chain G (p a) (map p r).
Proof. revert a. induction r as [|b r IH]; intros a; cbn [chain map]; [reflexivity|]. rewrite IH. reflexivity. Qed.
Lemma clen_pm a r : clen (pm p G) a r = clen G (p a) (map p r).
Proof. revert a. induction r as [|b r IH]; intros a; cbn [clen map]; [reflexivity|]. rewrite IH. reflexivity. Qed.
Lemma wlen_pm q : wlen (pm p G) q = wlen G (map p q).
Proof. destruct q as [|a r]; [reflexivity|]. apply clen_pm. Qed.
Lemma inb_pm q : inb n (map p q) = inb n q.
Proof. unfold inb. induction q as [|a r IH]; cbn [map forallb]; [reflexivity|]. rewrite p_ltb, IH. reflexivity. Qed.
Lemma last_map (q : list nat) a : last (map p q) (p a) = p (last q a).
Proof. induction q as [|b r IH]; [reflexivity|]. cbn [map]. destruct r as [|c r]; [reflexivity|]. exact IH. Qed.
Lemma wft_pm s t q : wft n (pm p G) s t q = wft n G (p s) (p t) (map p q).
Proof.
  destruct q as [|a r]; [reflexivity|]. unfold wft. cbn [map].
  change (p a :: map p r) with (map p (a :: r)). rewrite last_map, !p_eqb, inb_pm, chain_pm. reflexivity.
Qed.

Lemma is_walk_inb s t q : is_walk n G s t q -> below n q.
Proof.
  unfold is_walk, wft. destruct q as [|a r]; [discriminate|]. intros H.
  apply andb_true_iff in H. destruct H as [H _]. apply andb_true_iff in H. destruct H as [_ H].
  unfold inb in H. apply Forall_forall. intros x Hx. apply Nat.ltb_lt. exact (proj1 (forallb_forall _ _) H x Hx).
Qed.

Lemma is_shortest_pm s t q : is_shortest n (pm p G) s t q <-> is_shortest n G (p s) (p t) (map p q).
Proof.
  unfold is_shortest, is_walk. rewrite wft_pm. split; intros [Hw Hmin]; (split; [exact Hw|]).
  - intros q' Hq'. pose proof (is_walk_inb _ _ _ Hq') as Hb.
    assert (Hq2 : wft n (pm p G) s t (map (inv_perm n p) q') = true).
    { rewrite wft_pm, (map_perm_inv n p q' Hp Hb). exact Hq'. }
    specialize (Hmin _ Hq2). rewrite !wlen_pm, (map_perm_inv n p q' Hp Hb) in Hmin. exact Hmin.
  - intros q' Hq'. rewrite !wlen_pm. apply Hmin. rewrite <- wft_pm. exact Hq'.
Qed.

Hypothesis HG : nonneg_len n G.
Lemma nonneg_len_pm : nonneg_len n (pm p G).
Proof. intros i j Hi Hj. apply HG; [apply (perm_lt n p i Hp Hi)|apply (perm_lt n p j Hp Hj)]. Qed.

(* the renumbering is a bijection between the two sets of ALL minimum-length walks *)
Lemma spaths_pm s t : Permutation (map (map p) (spaths n (pm p G) s t)) (spaths n G (p s) (p t)).
Proof.
  apply NoDup_Permutation.
  - apply Injective_map_NoDup; [apply map_inj_list; intros a b; apply (perm_inj n p a b Hp)|apply spaths_NoDup].
  - apply spaths_NoDup.
  - intros x. rewrite in_map_iff. split.
    + intros [q [<- Hq]]. apply (spaths_spec n G _ _ _ HG). apply is_shortest_pm.
      apply (spaths_spec n (pm p G) _ _ _ nonneg_len_pm). exact Hq.
    + intros Hx. apply (spaths_spec n G _ _ _ HG) in Hx. pose proof (is_walk_inb _ _ _ (proj1 Hx)) as Hb.
      exists (map (inv_perm n p) x). split; [apply (map_perm_inv n p x Hp Hb)|].
      apply (spaths_spec n (pm p G) _ _ _ nonneg_len_pm). apply is_shortest_pm. rewrite (map_perm_inv n p x Hp Hb). exact Hx.
Qed.

Lemma sigma_pm s t : sigma n (pm p G) s t = sigma n G (p s) (p t).
Proof.
  unfold sigma, zlen. f_equal. rewrite <- (Permutation_length (spaths_pm s t)), map_length. reflexivity.
Qed.

Lemma nmem_pm v q : nmem (p v) (map p q) = nmem v q.
Proof. unfold nmem. induction q as [|a r IH]; cbn [map existsb]; [reflexivity|]. rewrite p_eqb, IH. reflexivity. Qed.
Lemma chain_has_pm x y a r : chain_has (p x) (p y) (p a) (map p r) = chain_has x y a r.
Proof. revert a. induction r as [|b r IH]; intros a; cbn [chain_has map]; [reflexivity|]. rewrite !p_eqb, IH. reflexivity. Qed.
Lemma has_edge_pm x y q : has_edge (p x) (p y) (map p q) = has_edge x y q.
Proof. destruct q as [|a r]; [reflexivity|]. apply chain_has_pm. Qed.

Lemma filter_count_pm (f' f : list nat -> bool) s t : (forall q, f (map p q) = f' q) ->
  zlen (filter f' (spaths n (pm p G) s t)) = zlen (filter f (spaths n G (p s) (p t))).
Proof.
  intros Hf. unfold zlen. f_equal.
  rewrite <- (filter_length_perm f _ _ (spaths_pm s t)), filter_map_comm, map_length.
  f_equal. apply filter_ext. intros q. symmetry. apply Hf.
Qed.
Lemma sigma_through_pm s t v : sigma_through n (pm p G) s t v = sigma_through n G (p s) (p t) (p v).
Proof. apply filter_count_pm. intros q. apply nmem_pm. Qed.
Lemma sigma_edge_pm s t x y : sigma_edge n (pm p G) s t x y = sigma_edge n G (p s) (p t) (p x) (p y).
Proof. apply filter_count_pm. intros q. apply has_edge_pm. Qed.

Lemma neb_pm a b : neb (p a) (p b) = neb a b.
Proof. unfold neb. rewrite p_eqb. reflexivity. Qed.

Open Scope Q_scope.
Theorem BC_spec_pm v : BC_spec n (pm p G) v == BC_spec n G (p v).
Proof.
  unfold BC_spec.
  rewrite <- (Proofs.SymTerm.sumQ_reindex n p
    (fun s => sumQ (fun t => if neb s (p v) && neb t (p v) then frac (sigma_through n G s t (p v)) (sigma n G s t) else 0) n) Hp).
  apply sumQ_ext. intros s _.
  rewrite <- (Proofs.SymTerm.sumQ_reindex n p
    (fun t => if neb (p s) (p v) && neb t (p v) then frac (sigma_through n G (p s) t (p v)) (sigma n G (p s) t) else 0) Hp).
  apply sumQ_ext. intros t _. rewrite !neb_pm, sigma_through_pm, sigma_pm. reflexivity.
Qed.
Theorem EBC_spec_pm x y : EBC_spec n (pm p G) x y == EBC_spec n G (p x) (p y).
Proof.
  unfold EBC_spec.
  rewrite <- (Proofs.SymTerm.sumQ_reindex n p
    (fun s => sumQ (fun t => frac (sigma_edge n G s t (p x) (p y)) (sigma n G s t)) n) Hp).
  apply sumQ_ext. intros s _.
  rewrite <- (Proofs.SymTerm.sumQ_reindex n p
    (fun t => frac (sigma_edge n G (p s) t (p x) (p y)) (sigma n G (p s) t)) Hp).
  apply sumQ_ext. intros t _. rewrite sigma_edge_pm, sigma_pm. reflexivity.
Qed.
End BetwSpec.

Section BetwModels.
Variables (n : nat) (p : nat -> nat).
Hypothesis Hp : perm_on n p.
Open Scope Q_scope.

Lemma binary_pm G : binary n G -> binary n (pm p G).
Proof. intros H i j Hi Hj. apply H; [apply (perm_lt n p i Hp Hi)|apply (perm_lt n p j Hp Hj)]. Qed.

Theorem betweenness_bin_model_equivariant G : binary n G ->
  exists BC' BC, betweenness_bin n (pm p G) = Some BC' /\ betweenness_bin n G = Some BC /\
    forall v, (v < n)%nat -> BC' v == BC (p v).
Proof.
  intros HB. destruct (bc_bin_correct n (pm p G) (binary_pm G HB)) as [BC' [E' S']].
  destruct (bc_bin_correct n G HB) as [BC [E S]]. exists BC', BC. split; [exact E'|split; [exact E|]].
  intros v Hv. rewrite (S' v Hv), (S (p v) (perm_lt n p v Hp Hv)). apply (BC_spec_pm n p Hp G (binary_nonneg n G HB)).
Qed.

Theorem betweenness_wei_model_equivariant G : nonneg_len n G ->
  exists BC' BC, betweenness_wei n (pm p G) = Some BC' /\ betweenness_wei n G = Some BC /\
    forall v, (v < n)%nat -> BC' v == BC (p v).
Proof.
  intros HG. destruct (bc_wei_correct n (pm p G) (nonneg_len_pm n p Hp G HG)) as [BC' [E' S']].
  destruct (bc_wei_correct n G HG) as [BC [E S]]. exists BC', BC. split; [exact E'|split; [exact E|]].
  intros v Hv. rewrite (S' v Hv), (S (p v) (perm_lt n p v Hp Hv)). apply (BC_spec_pm n p Hp G HG).
Qed.

Theorem edge_betweenness_bin_model_equivariant G : binary n G ->
  exists EBC' BC' EBC BC, edge_betweenness_bin n (pm p G) = Some (EBC', BC') /\ edge_betweenness_bin n G = Some (EBC, BC) /\
    (forall v, (v < n)%nat -> BC' v == BC (p v)) /\
    (forall x y, (x < n)%nat -> (y < n)%nat -> EBC' x y == EBC (p x) (p y)).
Proof.
  intros HB. destruct (ebc_bin_correct n (pm p G) (binary_pm G HB)) as [EBC' [BC' [E' [S' T']]]].
  destruct (ebc_bin_correct n G HB) as [EBC [BC [E [S T]]]]. exists EBC', BC', EBC, BC.
  split; [exact E'|split; [exact E|]]. split.
  - intros v Hv. rewrite (S' v Hv), (S (p v) (perm_lt n p v Hp Hv)). apply (BC_spec_pm n p Hp G (binary_nonneg n G HB)).
  - intros x y Hx Hy. rewrite (T' x y Hx Hy), (T (p x) (p y) (perm_lt n p x Hp Hx) (perm_lt n p y Hp Hy)).
    apply (EBC_spec_pm n p Hp G (binary_nonneg n G HB)).
Qed.

Theorem edge_betweenness_wei_model_equivariant G : nonneg_len n G ->
  exists EBC' BC' EBC BC, edge_betweenness_wei n (pm p G) = Some (EBC', BC') /\ edge_betweenness_wei n G = Some (EBC, BC) /\
    (forall v, (v < n)%nat -> BC' v == BC (p v)) /\
    (forall x y, (x < n)%nat -> (y < n)%nat -> EBC' x y == EBC (p x) (p y)).
Proof.
  intros HG. destruct (ebc_wei_correct n (pm p G) (nonneg_len_pm n p Hp G HG)) as [EBC' [BC' [E' [S' T']]]].
  destruct (ebc_wei_correct n G HG) as [EBC [BC [E [S T]]]]. exists EBC', BC', EBC, BC.
  split; [exact E'|split; [exact E|]]. split.
  - intros v Hv. rewrite (S' v Hv), (S (p v) (perm_lt n p v Hp Hv)). apply (BC_spec_pm n p Hp G HG).
  - intros x y Hx Hy. rewrite (T' x y Hx Hy), (T (p x) (p y) (perm_lt n p x Hp Hx) (perm_lt n p y Hp Hy)).
    apply (EBC_spec_pm n p Hp G HG).
Qed.
End BetwModels.
