(* Proofs/NullModelCorr.v — what the triple (cxy, cxx, cyy) returned for a correlation means:
   2*cxx = sum_i sum_j (x_i - x_j)^2, hence cxx >= 0 and cxx = 0 exactly when the sequence is constant
   (the case in which np.corrcoef yields NaN). *)
From Coq Require Import ZArith List Arith Lia Bool.
From BCT Require Import Base.Mat Model.Signed Model.NullModel Proofs.NullModelLists.
Open Scope Z_scope.

Lemma sumn_const c n : sumn (fun _ => c) n = Z.of_nat n * c.
Proof. induction n as [|n IH]; [reflexivity|]. cbn [sumn]. rewrite IH, Nat2Z.inj_succ. ring. Qed.

Lemma sumn_scal_r c f n : sumn (fun i => f i * c) n = sumn f n * c.
Proof. induction n as [|n IH]; [reflexivity|]. cbn [sumn]. rewrite IH. ring. Qed.

Lemma sum2_prod f g n : sum2 (fun i j => f i * g j) n = sumn f n * sumn g n.
Proof.
  unfold sum2. rewrite (sumn_ext _ (fun i => f i * sumn g n)) by (intros i _; apply sumn_scal).
  apply sumn_scal_r.
Qed.

Lemma cov_pairs x y n :
  2 * (Z.of_nat n * sumn (fun i => x i * y i) n - sumn x n * sumn y n) =
  sum2 (fun i j => (x i - x j) * (y i - y j)) n.
Proof.
  rewrite (sum2_ext _ (fun i j => ((x i * y i) * 1 + 1 * (x j * y j)) + ((-1) * (x i * y j) + (-1) * (y i * x j))))
    by (intros; ring).
  rewrite !sum2_add.
  rewrite (sum2_prod (fun i => x i * y i) (fun _ => 1)), (sum2_prod (fun _ => 1) (fun j => x j * y j)).
  rewrite (sum2_ext (fun i j => -1 * (x i * y j)) (fun i j => (-1 * x i) * y j)) by (intros; ring).
  rewrite (sum2_ext (fun i j => -1 * (y i * x j)) (fun i j => (-1 * y i) * x j)) by (intros; ring).
  rewrite !sum2_prod, !sumn_scal, !sumn_const. ring.
Qed.

Lemma sumn_nonneg_zero f n : (forall i, (i < n)%nat -> 0 <= f i) -> sumn f n = 0 ->
  forall i, (i < n)%nat -> f i = 0.
Proof.
  induction n as [|n IH]; intros Hf Hs i Hi; [lia|]. cbn [sumn] in Hs.
  assert (H1 : 0 <= sumn f n) by (apply sumn_nonneg; intros; apply Hf; lia).
  assert (H2 : 0 <= f n) by (apply Hf; lia).
  destruct (Nat.eq_dec i n) as [->|Hne]; [lia|]. apply IH; try lia. intros; apply Hf; lia.
Qed.

(* the variance component of corr3 *)
Theorem corr3_var x y n : let '(_, cxx, _) := corr3 x y n in
  2 * cxx = sum2 (fun i j => (x i - x j) * (x i - x j)) n /\ 0 <= cxx /\
  (cxx = 0 <-> forall i j, (i < n)%nat -> (j < n)%nat -> x i = x j).
Proof.
  unfold corr3. cbv zeta.
  pose proof (cov_pairs x x n) as E.
  set (cxx := Z.of_nat n * sumn (fun i => x i * x i) n - sumn x n * sumn x n) in *.
  assert (Hnn : forall i j, 0 <= (x i - x j) * (x i - x j)) by (intros; apply Z.square_nonneg).
  assert (H0 : 0 <= sum2 (fun i j => (x i - x j) * (x i - x j)) n).
  { apply sumn_nonneg. intros i _. apply sumn_nonneg. intros j _. apply Hnn. }
  split; [exact E|]. split; [lia|]. split.
  - intros Hz i j Hi Hj.
    assert (Hs : sum2 (fun i j => (x i - x j) * (x i - x j)) n = 0) by lia.
    assert (Hrow : sumn (fun j => (x i - x j) * (x i - x j)) n = 0).
    { apply (sumn_nonneg_zero (fun i => sumn (fun j => (x i - x j) * (x i - x j)) n) n); auto.
      intros k _. apply sumn_nonneg. intros; apply Hnn. }
    pose proof (sumn_nonneg_zero _ n (fun j _ => Hnn i j) Hrow j Hj) as Hc. nia.
  - intros Hc.
    assert (Hs : sum2 (fun i j => (x i - x j) * (x i - x j)) n = 0).
    { rewrite (sum2_ext _ (fun _ _ => 0)).
      - unfold sum2. rewrite (sumn_ext _ (fun _ => 0)) by (intros; apply sumn_zero). apply sumn_zero.
      - intros i j Hi Hj. rewrite (Hc i j Hi Hj). ring. }
    lia.
Qed.

(* symmetric statement for the other sequence and the meaning of cxy *)
Theorem corr3_cov x y n : let '(cxy, _, cyy) := corr3 x y n in
  2 * cxy = sum2 (fun i j => (x i - x j) * (y i - y j)) n /\
  2 * cyy = sum2 (fun i j => (y i - y j) * (y i - y j)) n.
Proof. unfold corr3. cbv zeta. split; apply cov_pairs. Qed.
