(* Proofs/DistanceReach.v — reachdist: every FINITE entry of the returned distance matrix is the exact minimum
   hop count (the powr - D + 1 bookkeeping); the reach flag is true exactly for pairs joined by a walk of at most
   powr edges.  Not proved: an infinite entry implies unreachable (needs "a shortest walk has < n edges"). *)
From Coq Require Import QArith List Arith Bool ZArith Lia.
From BCT Require Import Base.Mat Base.ListX Model.Distance Proofs.DistanceBase Proofs.DistanceBin.
Import ListNotations.
Open Scope Z_scope.

Section Reach.
Variable n : nat.
Variable C : mat Z.
Hypothesis HC01 : forall i j, (i < n)%nat -> (j < n)%nat -> C i j = 0 \/ C i j = 1.

Lemma HCnn : forall i j, (i < n)%nat -> (j < n)%nat -> 0 <= C i j.
Proof. intros i j Hi Hj. destruct (HC01 i j Hi Hj); lia. Qed.

(* after the call for power q: R = "a walk with <= q edges exists", D = number of powers r in 1..q with R_r *)
Definition rinv (q : nat) (r : bool) (d : Z) (i j : nat) : Prop :=
  (r = false /\ d = 0 /\ forall e, (e <= q)%nat -> ~ hasw n C e i j) \/
  (exists f, (1 <= f <= q)%nat /\ sd n C i j f /\ r = true /\ d = Z.of_nat (q - f + 1)).

Lemma rinv_init i j : (i < n)%nat -> (j < n)%nat -> rinv 1 (znz (C i j)) (C i j) i j.
Proof.
  intros Hi Hj. pose proof (pow_ok_1 n C HCnn i j Hi Hj) as [_ HP].
  destruct (HC01 i j Hi Hj) as [E|E]; rewrite E; unfold znz; cbn [Z.eqb negb].
  - left. split; [reflexivity|]. split; [reflexivity|]. intros e He W.
    destruct W as [mid [Hl W]]. assert (e = 1%nat) by lia. subst e.
    assert (C i j <> 0) by (apply HP; exists mid; auto). lia.
  - right. exists 1%nat. split; [lia|]. split.
    + split; [apply HP; lia|]. intros e' He' [mid [Hl _]]. lia.
    + split; [reflexivity|reflexivity].
Qed.

Lemma rinv_step q CP' r d i j : (i < n)%nat -> (j < n)%nat -> pow_ok n C (S q) CP' ->
  rinv q r d i j -> rinv (S q) (r || znz (CP' i j)) (d + b2z (r || znz (CP' i j))) i j.
Proof.
  intros Hi Hj HP [[-> [-> Hno]]|[f [Hf [Hsd [-> ->]]]]].
  - cbn [orb]. destruct (HP i j Hi Hj) as [_ HP'].
    unfold znz. destruct (Z.eqb_spec (CP' i j) 0) as [E|E]; cbn [negb b2z].
    + left. split; [reflexivity|]. split; [reflexivity|]. intros e He W.
      destruct (Nat.eq_dec e (S q)) as [->|Hne]; [apply HP' in W; contradiction|]. apply (Hno e); [lia|exact W].
    + right. exists (S q). split; [destruct q; lia|]. split.
      * split; [apply HP'; exact E|]. intros e' He'. apply Hno. lia.
      * split; [reflexivity|]. replace (S q - S q + 1)%nat with 1%nat by lia. reflexivity.
  - cbn [orb b2z]. right. exists f. split; [lia|]. split; [exact Hsd|]. split; [reflexivity|]. lia.
Qed.

Lemma reachdist2_spec fuel : forall CP R D q row col R' D' p',
  (1 <= q)%nat -> (q <= n)%nat -> pow_ok n C q CP ->
  (forall i j, (i < n)%nat -> (j < n)%nat -> rinv q (R i j) (D i j) i j) ->
  reachdist2 fuel n C CP R D (S q) row col = Some (R', D', p') ->
  (forall i j, (i < n)%nat -> (j < n)%nat -> rinv p' (R' i j) (D' i j) i j) /\
  (p' = S n \/ forall i j, In i row -> In j col -> R' i j = true).
Proof.
  induction fuel as [|f IH]; intros CP R D q row col R' D' p' Hq Hqn HP HI Hrun; [discriminate|].
  cbn [reachdist2] in Hrun.
  pose proof (pow_ok_clip n C _ _ (pow_ok_S n C HCnn q CP Hq HP)) as HP'.
  set (CP' := tab 0 n n (fun i j => b2z (znz (tab 0 n n (matmul n CP C) i j)))) in *.
  set (R1 := tab false n n (fun i j => (R i j || znz (CP' i j))%bool)) in *.
  set (D1 := tab 0 n n (fun i j => D i j + b2z (R1 i j))) in *.
  assert (HI1 : forall i j, (i < n)%nat -> (j < n)%nat -> rinv (S q) (R1 i j) (D1 i j) i j).
  { intros i j Hi Hj. unfold D1. rewrite tab_spec by assumption. unfold R1. rewrite tab_spec by assumption.
    apply rinv_step; auto. }
  destruct (Nat.leb_spec (S q) n) as [Hle|Hgt]; cbn [andb] in Hrun.
  - destruct (existsb _ row) eqn:Eex.
    + apply (IH CP' R1 D1 (S q) row col R' D' p' ltac:(lia) Hle HP' HI1 Hrun).
    + injection Hrun as <- <- <-. split; [exact HI1|]. right. intros i j Hi Hj.
      destruct (R1 i j) eqn:E; [reflexivity|exfalso].
      assert (existsb (fun i => existsb (fun j => negb (R1 i j)) col) row = true).
      { apply existsb_exists. exists i. split; [exact Hi|]. apply existsb_exists. exists j. split; [exact Hj|].
        rewrite E. reflexivity. }
      congruence.
  - injection Hrun as <- <- <-. split; [exact HI1|]. left. lia.
Qed.
End Reach.

Lemma hasw_ext n G G' : (forall i j, (i < n)%nat -> (j < n)%nat -> (G i j <> 0 <-> G' i j <> 0)) ->
  forall e i j, (i < n)%nat -> (j < n)%nat -> (hasw n G e i j <-> hasw n G' e i j).
Proof.
  intros H e i j Hi Hj. split; intros [mid [Hl [B W]]]; exists mid; (split; [exact Hl|]; split; [exact B|]).
  - apply (bw_ext n G G' H mid i j Hi Hj B). exact W.
  - apply (bw_ext n G G' H mid i j Hi Hj B). exact W.
Qed.

(* full statement (NOT proved): *)
Definition reachdist_full_statement : Prop :=
  forall n A R D, reachdist n A = Some (R, D) ->
    dist_correct n (Lbin A) (fun i j => match D i j with Some d => Some (inject_Z d) | None => None end) /\
    forall i j, (i < n)%nat -> (j < n)%nat -> i <> j -> (R i j = true <-> D i j <> None).

(* proved: every finite entry (diagonal included: shortest cycle) is the EXACT minimum number of edges, and the
   flag is true there.  Missing for the full statement: D[i,j] infinite implies no walk. *)
Theorem reachdist_partial n A R D : reachdist n A = Some (R, D) ->
  forall i j d, (i < n)%nat -> (j < n)%nat -> D i j = Some d ->
    exists k, d = Z.of_nat k /\ sd n A i j k /\ R i j = true.
Proof.
  unfold reachdist. set (C := tab 0 n n (bin A)).
  destruct (reachdist2 _ n C C _ C 2 _ _) as [[[R' D'] p']|] eqn:Erun; [|discriminate].
  intros H. injection H as <- <-. intros i j d Hi Hj.
  assert (HC01 : forall i j, (i < n)%nat -> (j < n)%nat -> C i j = 0 \/ C i j = 1).
  { intros a b Ha Hb. unfold C. rewrite tab_spec by assumption. unfold bin. destruct (A a b =? 0); auto. }
  assert (HCA : forall i j, (i < n)%nat -> (j < n)%nat -> (C i j <> 0 <-> A i j <> 0)).
  { intros a b Ha Hb. unfold C. rewrite tab_spec by assumption. unfold bin.
    destruct (Z.eqb_spec (A a b) 0); split; intros; try lia; try congruence. }
  assert (Hn : (1 <= n)%nat) by lia.
  destruct (reachdist2_spec n C HC01 _ C (fun i j => znz (C i j)) C 1%nat _ _ R' D' p' (le_n 1) Hn
              (pow_ok_1 n C (HCnn n C HC01)) (rinv_init n C HC01) Erun) as [HI Hexit].
  cbv zeta.
  destruct ((Z.of_nat p' - D' i j + 1 =? Z.of_nat n + 2) || (sumn (fun i0 => C i0 j) n =? 0)
            || (sumn (fun j0 => C i j0) n =? 0))%bool eqn:Emask; [discriminate|].
  intros H. injection H as <-.
  apply orb_false_iff in Emask. destruct Emask as [Emask Eod]. apply orb_false_iff in Emask. destruct Emask as [En2 Eid].
  destruct (HI i j Hi Hj) as [[ER [ED Hno]]|[f [Hf [[Hw Hmin] [ER ED]]]]].
  - exfalso. rewrite ED in En2. destruct Hexit as [->|Hall].
    + apply Z.eqb_neq in En2. lia.
    + rewrite Hall in ER; [discriminate| |].
      * apply filter_In. split; [apply in_seq; lia|]. rewrite Eod. reflexivity.
      * apply filter_In. split; [apply in_seq; lia|]. rewrite Eid. reflexivity.
  - exists f. split; [rewrite ED; lia|]. split; [|exact ER]. split.
    + apply (hasw_ext n C A HCA f i j Hi Hj). exact Hw.
    + intros e' He' W. apply (Hmin e' He'). apply (hasw_ext n C A HCA e' i j Hi Hj). exact W.
Qed.
