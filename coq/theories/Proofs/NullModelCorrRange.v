(* Proofs/NullModelCorrRange.v — the returned correlation triples (cxy, cxx, cyy) describe a Pearson
   coefficient r = cxy / sqrt(cxx * cyy): Cauchy-Schwarz cxy^2 <= cxx * cyy (so r^2 <= 1, r in [-1, 1]),
   and r = 1 (cxy = cxx = cyy) when the two sequences agree. *)
From Coq Require Import ZArith QArith List Arith Lia Bool.
From BCT Require Import Base.Mat Base.ListX Model.Signed Model.NullModel Proofs.Signed Proofs.NullModelLists
  Proofs.NullModelCorr Proofs.NullModelTop.
Import ListNotations.
Open Scope Z_scope.

Lemma sum2_scal c f n : sum2 (fun i j => c * f i j) n = c * sum2 f n.
Proof.
  unfold sum2. rewrite <- sumn_scal. apply sumn_ext. intros i _. apply sumn_scal.
Qed.

Lemma sum2_nonneg f n : (forall i j, 0 <= f i j) -> 0 <= sum2 f n.
Proof. intros H. apply sumn_nonneg. intros i _. apply sumn_nonneg. intros j _. apply H. Qed.

(* Cauchy-Schwarz for finite double sums over Z, via the non-negative quadratic form sum (s*a - t*b)^2 *)
Lemma cauchy_schwarz_sum2 a b n :
  let A := sum2 (fun i j => a i j * a i j) n in
  let B := sum2 (fun i j => b i j * b i j) n in
  let C := sum2 (fun i j => a i j * b i j) n in
  C * C <= A * B.
Proof.
  intros A B C.
  assert (HA : 0 <= A) by (apply sum2_nonneg; intros; apply Z.square_nonneg).
  assert (HB : 0 <= B) by (apply sum2_nonneg; intros; apply Z.square_nonneg).
  assert (Q : forall s t, 0 <= s * s * A + (-2 * s * t) * C + t * t * B).
  { intros s t. unfold A, B, C. rewrite <- !sum2_scal, <- !sum2_add.
    apply sum2_nonneg. intros i j.
    replace (s * s * (a i j * a i j) + -2 * s * t * (a i j * b i j) + t * t * (b i j * b i j))
      with ((s * a i j - t * b i j) * (s * a i j - t * b i j)) by ring.
    apply Z.square_nonneg. }
  destruct (Z.eq_dec B 0) as [HB0|HB0].
  - (* B = 0: the form s^2 A - 2 s t C >= 0 for all t forces C = 0 *)
    rewrite HB0 in *.
    pose proof (Q 1 (A + 1)) as Q1. pose proof (Q 1 (- (A + 1))) as Q2.
    assert (C = 0) by nia. subst C. nia.
  - pose proof (Q B C) as Q1.
    assert (0 <= B * (A * B - C * C)) by (replace (B * (A * B - C * C)) with (B * B * A + -2 * B * C * C + C * C * B) by ring; exact Q1).
    assert (0 < B) by lia. nia.
Qed.

Theorem corr3_cauchy_schwarz x y n : let '(cxy, cxx, cyy) := corr3 x y n in
  cxy * cxy <= cxx * cyy /\ 0 <= cxx /\ 0 <= cyy.
Proof.
  pose proof (corr3_var x y n) as V. pose proof (corr3_var y x n) as V'. pose proof (corr3_cov x y n) as Cv.
  unfold corr3 in *. cbv zeta in *.
  set (cxy := Z.of_nat n * sumn (fun i => x i * y i) n - sumn x n * sumn y n) in *.
  set (cxx := Z.of_nat n * sumn (fun i => x i * x i) n - sumn x n * sumn x n) in *.
  set (cyy := Z.of_nat n * sumn (fun i => y i * y i) n - sumn y n * sumn y n) in *.
  destruct V as (Exx & Hxx & _). destruct V' as (_ & Hyy & _). destruct Cv as (Exy & Eyy).
  split; [|split; assumption].
  pose proof (cauchy_schwarz_sum2 (fun i j => x i - x j) (fun i j => y i - y j) n) as CS.
  cbv zeta beta in CS. rewrite <- Exx, <- Eyy, <- Exy in CS. nia.
Qed.

(* the two sequences agree: cxy = cxx = cyy, i.e. r = 1 whenever it is defined *)
Theorem corr3_equal_seq x y n : (forall i, (i < n)%nat -> y i = x i) ->
  let '(cxy, cxx, cyy) := corr3 x y n in cxy = cxx /\ cyy = cxx.
Proof.
  intros H. unfold corr3. cbv zeta.
  rewrite (sumn_ext y x n H).
  rewrite (sumn_ext (fun i => x i * y i) (fun i => x i * x i)) by (intros i Hi; rewrite H; auto).
  rewrite (sumn_ext (fun i => y i * y i) (fun i => x i * x i)) by (intros i Hi; rewrite !H; auto).
  split; reflexivity.
Qed.

(* r^2 as a rational: between 0 and 1 whenever the coefficient is defined (cxx * cyy > 0) *)
Definition r_squared (c : Z * Z * Z) : Q := let '(cxy, cxx, cyy) := c in inject_Z (cxy * cxy) / inject_Z (cxx * cyy).

Theorem corr3_r_squared_range x y n : let c := corr3 x y n in
  let '(cxy, cxx, cyy) := c in 0 < cxx * cyy -> (0 <= r_squared c /\ r_squared c <= 1)%Q.
Proof.
  pose proof (corr3_cauchy_schwarz x y n) as CS. cbv zeta. destruct (corr3 x y n) as [[cxy cxx] cyy].
  destruct CS as (H1 & H2 & H3). intros Hpos. unfold r_squared.
  assert (Hd : (0 < inject_Z (cxx * cyy))%Q) by (rewrite <- (Zlt_Qlt 0); exact Hpos).
  split.
  - apply Qle_shift_div_l; [exact Hd|]. rewrite Qmult_0_l. rewrite <- (Zle_Qle 0). apply Z.square_nonneg.
  - apply Qle_shift_div_r; [exact Hd|]. rewrite Qmult_1_l. rewrite <- Zle_Qle. exact H1.
Qed.

(* ---------- the four numbers a null model returns ---------- *)
Definition triple_ok (c : Z * Z * Z) : Prop := let '(cxy, cxx, cyy) := c in cxy * cxy <= cxx * cyy /\ 0 <= cxx /\ 0 <= cyy.

Theorem null_model_corr_range und n W close bs wf pf ints ords perms r : (0 < n)%nat -> pre und n W ->
  null_model und n W close bs wf pf ints ords perms = Returned r ->
  length (nm_corr r) = 4%nat /\ Forall triple_ok (nm_corr r).
Proof.
  intros Hn Hp H. destruct (null_model_inv und n W close bs wf pf ints ords perms r Hn Hp H) as (_ & _ & _ & _ & _ & F).
  rewrite F. unfold corr4. split; [reflexivity|].
  constructor; [exact (corr3_cauchy_schwarz _ _ n)|].
  constructor; [exact (corr3_cauchy_schwarz _ _ n)|].
  constructor; [exact (corr3_cauchy_schwarz _ _ n)|].
  constructor; [exact (corr3_cauchy_schwarz _ _ n)|constructor].
Qed.

(* strengths kept exactly => the corresponding coefficient is 1 (triple (c, c, c)) *)
Theorem null_model_corr_one und n W close bs wf pf ints ords perms r : (0 < n)%nat -> pre und n W ->
  null_model und n W close bs wf pf ints ords perms = Returned r ->
  let Wc := clear_diag W in
  ((forall j, (j < n)%nat -> str_in ppart (nm_W0 r) n j = str_in ppart Wc n j) ->
     exists c, nth 0 (nm_corr r) (0, 0, 0) = (c, c, c)) /\
  ((forall i, (i < n)%nat -> str_out ppart (nm_W0 r) n i = str_out ppart Wc n i) ->
     exists c, nth 1 (nm_corr r) (0, 0, 0) = (c, c, c)) /\
  ((forall j, (j < n)%nat -> str_in npart (nm_W0 r) n j = str_in npart Wc n j) ->
     exists c, nth 2 (nm_corr r) (0, 0, 0) = (c, c, c)) /\
  ((forall i, (i < n)%nat -> str_out npart (nm_W0 r) n i = str_out npart Wc n i) ->
     exists c, nth 3 (nm_corr r) (0, 0, 0) = (c, c, c)).
Proof.
  intros Hn Hp H Wc. destruct (null_model_inv und n W close bs wf pf ints ords perms r Hn Hp H) as (_ & _ & _ & _ & _ & F).
  rewrite F. unfold corr4. cbn [nth]. fold Wc.
  assert (K : forall x y, (forall i, (i < n)%nat -> y i = x i) -> exists c, corr3 x y n = (c, c, c)).
  { intros x y E. pose proof (corr3_equal_seq x y n E) as T. destruct (corr3 x y n) as [[cxy cxx] cyy].
    destruct T as [-> ->]. exists cxx. reflexivity. }
  repeat split; intros E; apply K; exact E.
Qed.
