(* Proofs/GeneratorsRepair.v — makerandCIJdegreesfixed: when does the repair loop raise BCTParamError?
   `tried` only ever receives stubs s < k whose switch was refused because CIJ[e0 i, e1 s] or CIJ[e0 s, e1 i] is occupied
   (CIJ and e1 do not change while the loop runs), each at most once; the loop raises when len(tried) == k, i.e. when
   EVERY stub 0..k-1 has been refused: no admissible switch partner existed for edge i in that state.  So `Raised` is
   never produced while an admissible switch exists, whatever the draws were. *)
From Coq Require Import ZArith List Arith Bool Lia Permutation.
From BCT Require Import Base.Mat Base.ListX Model.Generators Proofs.GeneratorsBase Proofs.Generators Proofs.GeneratorsDeg.
Import ListNotations.
Open Scope Z_scope.

(* the switch of edge i with stub s is refused *)
Definition blocked (e0 e1 : vec nat) (CIJ : mat Z) (i s : nat) : Prop :=
  CIJ (e0 i) (e1 s) <> 0 \/ CIJ (e0 s) (e1 i) <> 0.

Lemma all_tried k (tried : list nat) :
  NoDup tried -> (forall s, In s tried -> (s < k)%nat) -> length tried = k ->
  forall s, (s < k)%nat -> In s tried.
Proof.
  intros Hnd Hlt Hlen s Hs.
  assert (Hincl : incl (seq 0 k) tried).
  { apply NoDup_length_incl; [exact Hnd|rewrite seq_length; lia|].
    intros x Hx. apply in_seq. specialize (Hlt x Hx). lia. }
  apply Hincl. apply in_seq. lia.
Qed.

Lemma repair_raised n k i e0 CIJ e1 : forall stream tried,
  NoDup tried -> (forall s, In s tried -> (s < k)%nat /\ blocked e0 e1 CIJ i s) ->
  repair n k i e0 CIJ e1 tried stream = Raised ->
  forall s, (s < k)%nat -> blocked e0 e1 CIJ i s.
Proof.
  induction stream as [|x rest IH]; intros tried Hnd Htr Hrun; cbn [repair] in Hrun.
  - destruct (Nat.eqb_spec (length tried) k) as [E|E]; [|discriminate].
    intros s Hs. apply Htr. apply (all_tried k tried Hnd (fun s H => proj1 (Htr s H)) E s Hs).
  - destruct (Nat.eqb_spec (length tried) k) as [E|E].
    + intros s Hs. apply Htr. apply (all_tried k tried Hnd (fun s H => proj1 (Htr s H)) E s Hs).
    + assert (Hk : (0 < k)%nat).
      { destruct k; [|lia]. destruct tried as [|a tr]; [cbn in E; lia|].
        destruct (Htr a (or_introl eq_refl)) as [Ha _]. lia. }
      assert (Hs : (x mod k < k)%nat) by (apply Nat.mod_upper_bound; lia).
      set (s := (x mod k)%nat) in *.
      destruct (nmem s tried) eqn:Hm; [apply (IH tried Hnd Htr Hrun)|].
      apply nmem_false in Hm.
      destruct (truthy (CIJ (e0 i) (e1 s))) eqn:T1; cbn [orb negb] in Hrun.
      * apply (IH (s :: tried)); [constructor; assumption| |exact Hrun].
        intros s' [<-|Hin]; [|apply Htr; exact Hin].
        split; [exact Hs|]. left. apply truthy_true. exact T1.
      * destruct (truthy (CIJ (e0 s) (e1 i))) eqn:T2; cbn [orb negb] in Hrun; [|discriminate].
        apply (IH (s :: tried)); [constructor; assumption| |exact Hrun].
        intros s' [<-|Hin]; [|apply Htr; exact Hin].
        split; [exact Hs|]. right. apply truthy_true. exact T2.
Qed.

(* conversely the loop cannot raise while some stub is still admissible *)
Corollary repair_not_raised n k i e0 CIJ e1 stream s :
  (s < k)%nat -> CIJ (e0 i) (e1 s) = 0 -> CIJ (e0 s) (e1 i) = 0 ->
  repair n k i e0 CIJ e1 [] stream <> Raised.
Proof.
  intros Hs H1 H2 Hrun.
  destruct (repair_raised n k i e0 CIJ e1 stream [] (NoDup_nil _) (fun s H => match H with end) Hrun s Hs); contradiction.
Qed.

Section Raise.
Variables (n k : nat) (e0 e1i : vec nat).
Hypothesis He0 : forall t, (t < k)%nat -> (e0 t < n)%nat.

(* the state in which the routine raises is a state of the loop (the invariant of Proofs/GeneratorsDeg.v holds:
   CIJ = I + multiplicity of the i placed edges, entries <= 1), edge i hits an occupied cell and no stub is admissible *)
Lemma place_raised : forall todo i CIJ e1 stream,
  (i + todo = k)%nat -> Inv n k e0 e1i i CIJ e1 ->
  place todo n k i e0 CIJ e1 stream = Raised ->
  exists i' C' e1', (i' < k)%nat /\ Inv n k e0 e1i i' C' e1' /\ C' (e0 i') (e1' i') <> 0 /\
    forall s, (s < k)%nat -> blocked e0 e1' C' i' s.
Proof.
  induction todo as [|t IH]; intros i CIJ e1 stream Hik HI Hrun; cbn [place] in Hrun; [discriminate|].
  destruct (truthy (CIJ (e0 i) (e1 i))) eqn:T.
  - destruct (repair n k i e0 CIJ e1 [] stream) as [[[C1 e11] rest1]| |] eqn:R; try discriminate.
    + apply (IH (S i) C1 e11 rest1); [lia| |exact Hrun].
      apply (repair_inv n k e0 e1i He0 i CIJ e1 ltac:(lia) HI T _ _ _ _ _ R).
    + exists i, CIJ, e1. split; [lia|]. split; [exact HI|]. split; [apply truthy_true; exact T|].
      apply (repair_raised n k i e0 CIJ e1 stream [] (NoDup_nil _)); [intros s []|exact R].
  - apply (IH (S i) (tab 0 n n (upd CIJ (e0 i) (e1 i) 1)) e1 stream); [lia| |exact Hrun].
    apply step_plain; [lia|exact HI|exact T].
Qed.

Theorem degfixed_raise_justified stream :
  (forall t, (t < k)%nat -> (e1i t < n)%nat) ->
  place k n k 0 e0 eye e1i stream = Raised ->
  exists i C e1, (i < k)%nat /\ Inv n k e0 e1i i C e1 /\ C (e0 i) (e1 i) <> 0 /\
    forall s, (s < k)%nat -> C (e0 i) (e1 s) <> 0 \/ C (e0 s) (e1 i) <> 0.
Proof.
  intros He1 Hrun. apply (place_raised k 0 eye e1i stream); [lia|apply Inv_init; exact He1|exact Hrun].
Qed.
End Raise.

(* the same without any hypothesis on the stub arrays, and for the routine itself (any inv, outv, rp, stream) *)
Lemma place_raised_plain n k e0 : forall todo i CIJ e1 stream,
  place todo n k i e0 CIJ e1 stream = Raised ->
  exists i' C' e1', (i <= i' < i + todo)%nat /\ C' (e0 i') (e1' i') <> 0 /\
    forall s, (s < k)%nat -> blocked e0 e1' C' i' s.
Proof.
  induction todo as [|t IH]; intros i CIJ e1 stream Hrun; cbn [place] in Hrun; [discriminate|].
  destruct (truthy (CIJ (e0 i) (e1 i))) eqn:T.
  - destruct (repair n k i e0 CIJ e1 [] stream) as [[[C1 e11] rest1]| |] eqn:R; try discriminate.
    + destruct (IH (S i) C1 e11 rest1 Hrun) as (i' & C' & e1' & H1 & H2). exists i', C', e1'. split; [lia|exact H2].
    + exists i, CIJ, e1. split; [lia|]. split; [apply truthy_true; exact T|].
      apply (repair_raised n k i e0 CIJ e1 stream [] (NoDup_nil _)); [intros s []|exact R].
  - destruct (IH (S i) _ e1 stream Hrun) as (i' & C' & e1' & H1 & H2). exists i', C', e1'. split; [lia|exact H2].
Qed.

Theorem degfixed_raised inv outv rp stream :
  degfixed inv outv rp stream = Raised ->
  let n := length inv in
  let k := fold_right Nat.add O inv in
  let e0 := of_list O (stubs n outv k) in
  exists (i : nat) (C : mat Z) (e1 : vec nat), (i < k)%nat /\ C (e0 i) (e1 i) <> 0 /\
    forall s, (s < k)%nat -> C (e0 i) (e1 s) <> 0 \/ C (e0 s) (e1 i) <> 0.
Proof.
  intros Hrun n k e0. unfold degfixed in Hrun. fold n k e0 in Hrun.
  destruct (place k n k 0 e0 eye _ stream) as [[[C e1'] rest]| |] eqn:Hp; try discriminate.
  destruct (place_raised_plain n k e0 k 0 eye _ stream Hp) as (i & C & e1 & H1 & H2 & H3).
  exists i, C, e1. split; [lia|]. split; [exact H2|exact H3].
Qed.
