(* Proofs/LinearMarkov.v — where "connected" enters mean_first_passage_time.  For a non-negative, row-stochastic,
   irreducible P (strongly connected network), over Q and without any spectral theory:
     * a stationary vector (x P = x) is identically 0, or > 0 everywhere, or < 0 everywhere;
       hence the normalised one (sum = 1) has NO zero entry (the division by W in the code is safe) and is UNIQUE;
     * I - P + 1w is injective; hence a right inverse is a left inverse and is unique;
     * therefore the hypotheses `w_j <> 0` of the first-step theorem are consequences of connectivity, and the matrix
       the routine returns is determined by P alone (any w, Z meeting the defining equations give the same M). *)
From Coq Require Import QArith Qabs Qfield Lia Lqa Arith List Bool.
From BCT Require Import Base.Mat Base.SumQ Model.Linear Proofs.Linear.
Import ListNotations.
Open Scope Q_scope.

Lemma reach_lt n P i j : (i < n)%nat -> reach n P i j -> (j < n)%nat.
Proof. intros Hi H. destruct H; assumption. Qed.

Lemma reach_mono n (P P' : mat Q) i j :
  (forall k l, (k < n)%nat -> (l < n)%nat -> 0 < P k l -> 0 < P' k l) -> (i < n)%nat -> reach n P i j -> reach n P' i j.
Proof.
  intros H Hi R. induction R as [|k j R IH Hj Hp]; [constructor|].
  apply (reach_step n P' i k j IH Hj). apply H; [exact (reach_lt n P i k Hi R)|exact Hj|exact Hp].
Qed.

Lemma bex_dec n (p : nat -> bool) : (exists j, (j < n)%nat /\ p j = true) \/ (forall j, (j < n)%nat -> p j = false).
Proof.
  induction n as [|n [[j [Hj E]]|IH]].
  - right. intros j Hj. lia.
  - left. exists j. split; [lia|exact E].
  - destruct (p n) eqn:E; [left; exists n; split; [lia|exact E]|].
    right. intros j Hj. destruct (Nat.eq_dec j n) as [->|]; [exact E|apply IH; lia].
Qed.

Lemma sumQ_pos (x : vec Q) n : (0 < n)%nat -> (forall j, (j < n)%nat -> 0 < x j) -> 0 < sumQ x n.
Proof.
  intros Hn Hx. destruct n as [|n]; [lia|]. cbn [sumQ].
  assert (0 <= sumQ x n) by (apply sumQ_nonneg; intros j Hj; apply Qlt_le_weak, Hx; lia).
  specialize (Hx n (Nat.lt_succ_diag_r n)). lra.
Qed.

Lemma exists_max (x : vec Q) n : (0 < n)%nat -> exists m, (m < n)%nat /\ forall j, (j < n)%nat -> x j <= x m.
Proof.
  induction n as [|n IH]; intros Hn; [lia|]. destruct n as [|n'].
  - exists O. split; [lia|]. intros j Hj. assert (j = O) by lia. subst. apply Qle_refl.
  - destruct (IH ltac:(lia)) as [m [Hm Hmax]]. destruct (Qlt_le_dec (x m) (x (S n'))) as [Hlt|Hge].
    + exists (S n'). split; [lia|]. intros j Hj. destruct (Nat.eq_dec j (S n')) as [->|]; [apply Qle_refl|].
      specialize (Hmax j ltac:(lia)). lra.
    + exists m. split; [lia|]. intros j Hj. destruct (Nat.eq_dec j (S n')) as [->|]; [exact Hge|apply Hmax; lia].
Qed.

Lemma stationary_sub n P x y : stationary n P x -> stationary n P y -> stationary n P (fun i => x i - y i).
Proof.
  intros Hx Hy j Hj. rewrite (sumQ_ext _ (fun i => x i * P i j - y i * P i j)) by (intros; ring).
  rewrite sumQ_sub, (Hx j Hj), (Hy j Hj). reflexivity.
Qed.

Section Markov.
Variables (n : nat) (P : mat Q).
Hypothesis HP0 : forall i j, (i < n)%nat -> (j < n)%nat -> 0 <= P i j.
Hypothesis HP1 : forall i, (i < n)%nat -> sumQ (P i) n == 1.
Hypothesis Hirr : irreducible n P.

(* a non-negative stationary vector that vanishes at j vanishes at everything that reaches j *)
Lemma zero_back (x : vec Q) : (forall i, (i < n)%nat -> 0 <= x i) -> stationary n P x ->
  forall i j, (i < n)%nat -> reach n P i j -> x j == 0 -> x i == 0.
Proof.
  intros Hx Hs i j Hi R. induction R as [|k j R IH Hj Hp]; intros Hz; [exact Hz|]. apply IH.
  assert (Hk : (k < n)%nat) by (exact (reach_lt n P i k Hi R)).
  pose proof (Hs j Hj) as E. rewrite Hz in E.
  assert (T : (fun i => x i * P i j) k == 0).
  { apply (sumQ_zero_inv (fun i => x i * P i j) n); [|exact E|exact Hk].
    intros l Hl. apply Qmult_le_0_compat; [apply Hx; exact Hl|apply HP0; assumption]. }
  cbv beta in T. apply Qmult_integral in T. destruct T as [T|T]; [exact T|lra].
Qed.

Lemma nonneg_dichotomy (x : vec Q) : (forall i, (i < n)%nat -> 0 <= x i) -> stationary n P x ->
  (forall j, (j < n)%nat -> x j == 0) \/ (forall j, (j < n)%nat -> 0 < x j).
Proof.
  intros Hx Hs. destruct (bex_dec n (fun j => Qeq_bool (x j) 0)) as [[j [Hj E]]|Hall].
  - left. intros i Hi. apply (zero_back x Hx Hs i j Hi (Hirr i j Hi Hj)). apply Qeq_bool_iff. exact E.
  - right. intros j Hj. specialize (Hall j Hj). cbv beta in Hall. apply Qeq_bool_neq in Hall. pose proof (Hx j Hj). lra.
Qed.

Lemma abs_stationary (w : vec Q) : stationary n P w -> stationary n P (vabs w).
Proof.
  intros Hs.
  assert (Hle : forall j, (j < n)%nat -> 0 <= sumQ (fun i => vabs w i * P i j) n - vabs w j).
  { intros j Hj. unfold vabs at 2. rewrite <- (Hs j Hj).
    assert (Qabs (sumQ (fun i => w i * P i j) n) <= sumQ (fun i => vabs w i * P i j) n); [|lra].
    eapply Qle_trans; [apply sumQ_abs_triangle|]. apply sumQ_le. intros i Hi.
    rewrite Qabs_Qmult, (Qabs_pos (P i j) (HP0 i j Hi Hj)). unfold vabs. apply Qle_refl. }
  assert (Hsum : sumQ (fun j => sumQ (fun i => vabs w i * P i j) n - vabs w j) n == 0).
  { rewrite sumQ_sub. rewrite (sumQ_fubini (fun j i => vabs w i * P i j) n n).
    rewrite (sumQ_ext (fun i => sumQ (fun j => vabs w i * P i j) n) (vabs w) n); [ring|].
    intros i Hi. rewrite sumQ_scal. rewrite (HP1 i Hi). ring. }
  intros j Hj. pose proof (sumQ_zero_inv _ n Hle Hsum j Hj) as E. cbv beta in E. lra.
Qed.

(* every stationary vector has one sign *)
Theorem stationary_sign (w : vec Q) : stationary n P w ->
  (forall j, (j < n)%nat -> w j == 0) \/ (forall j, (j < n)%nat -> 0 < w j) \/ (forall j, (j < n)%nat -> w j < 0).
Proof.
  intros Hs.
  assert (Hx : stationary n P (fun i => vabs w i - w i)) by (apply stationary_sub; [apply abs_stationary|]; exact Hs).
  assert (Hx0 : forall i, (i < n)%nat -> 0 <= (fun i => vabs w i - w i) i).
  { intros i _. cbv beta. unfold vabs. pose proof (Qle_Qabs (w i)). lra. }
  destruct (nonneg_dichotomy _ Hx0 Hx) as [H0|Hp].
  - assert (Hnn : forall i, (i < n)%nat -> 0 <= w i).
    { intros i Hi. specialize (H0 i Hi). cbv beta in H0. unfold vabs in H0. pose proof (Qabs_nonneg (w i)). lra. }
    destruct (nonneg_dichotomy w Hnn Hs) as [Hz|Hpos]; [left; exact Hz|right; left; exact Hpos].
  - right; right. intros j Hj. specialize (Hp j Hj). cbv beta in Hp. unfold vabs in Hp.
    destruct (Qlt_le_dec (w j) 0) as [|Hge]; [assumption|]. rewrite (Qabs_pos (w j) Hge) in Hp. lra.
Qed.

(* the stationary distribution has no zero entry: it is positive *)
Theorem stationary_positive (w : vec Q) : stationary n P w -> sumQ w n == 1 -> forall j, (j < n)%nat -> 0 < w j.
Proof.
  intros Hs H1. destruct (stationary_sign w Hs) as [Hz|[Hp|Hn]].
  - exfalso. rewrite (sumQ_zero' w n Hz) in H1. lra.
  - exact Hp.
  - exfalso. assert (sumQ w n <= sumQ (fun _ => 0) n) by (apply sumQ_le; intros j Hj; apply Qlt_le_weak, Hn; exact Hj).
    rewrite sumQ_zero in H. lra.
Qed.

(* and it is unique *)
Theorem stationary_unique (w w' : vec Q) : stationary n P w -> sumQ w n == 1 -> stationary n P w' -> sumQ w' n == 1 ->
  forall j, (j < n)%nat -> w j == w' j.
Proof.
  intros Hs H1 Hs' H1' j Hj.
  assert (Hy : stationary n P (fun i => w i - w' i)) by (apply stationary_sub; assumption).
  assert (Sy : sumQ (fun i => w i - w' i) n == 0) by (rewrite sumQ_sub; lra).
  assert (Hn : (0 < n)%nat) by lia.
  destruct (stationary_sign _ Hy) as [Hz|[Hp|Hm]].
  - specialize (Hz j Hj). cbv beta in Hz. lra.
  - exfalso. pose proof (sumQ_pos _ n Hn Hp). lra.
  - exfalso. assert (Hp : forall j, (j < n)%nat -> 0 < (fun i => w' i - w i) j) by (intros k Hk; specialize (Hm k Hk); cbv beta in *; lra).
    pose proof (sumQ_pos _ n Hn Hp) as H. rewrite sumQ_sub in H. lra.
Qed.

(* maximum principle: a vector with x = P x is constant *)
Lemma harmonic_const (x : vec Q) : (forall i, (i < n)%nat -> x i == sumQ (fun j => P i j * x j) n) ->
  forall i j, (i < n)%nat -> (j < n)%nat -> x i == x j.
Proof.
  intros Hx.
  assert (Hn0 : forall i, (i < n)%nat -> (0 < n)%nat) by (intros; lia).
  assert (Hmain : forall m, (m < n)%nat -> (forall j, (j < n)%nat -> x j <= x m) -> forall j, reach n P m j -> x j == x m).
  { intros m Hm Hmax j R. induction R as [|k j R IH Hj Hp]; [reflexivity|].
    assert (Hk : (k < n)%nat) by (exact (reach_lt n P m k Hm R)).
    assert (E : sumQ (fun l => P k l * (x m - x l)) n == 0).
    { rewrite (sumQ_ext _ (fun l => P k l * x m - P k l * x l)) by (intros; ring).
      rewrite sumQ_sub, sumQ_scal_r, (HP1 k Hk), <- (Hx k Hk), IH. ring. }
    assert (T : (fun l => P k l * (x m - x l)) j == 0).
    { apply (sumQ_zero_inv (fun l => P k l * (x m - x l)) n); [|exact E|exact Hj]. intros l Hl.
      apply Qmult_le_0_compat; [apply HP0; assumption|]. specialize (Hmax l Hl). lra. }
    cbv beta in T. apply Qmult_integral in T. destruct T as [T|T]; lra. }
  intros i j Hi Hj. destruct (exists_max x n (Hn0 i Hi)) as [m [Hm Hmax]].
  rewrite (Hmain m Hm Hmax i (Hirr m i Hm Hi)), (Hmain m Hm Hmax j (Hirr m j Hm Hj)). reflexivity.
Qed.

(* ---------------- I - P + 1w ---------------- *)
Variable w : vec Q.
Hypothesis Hw : stationary n P w.
Hypothesis Hw1 : sumQ w n == 1.

Lemma w_fundA' k : (k < n)%nat -> sumQ (fun i => w i * fundA P w i k) n == w k.
Proof. intros Hk. apply (w_fundA n P w Hw Hw1 k Hk). Qed.

Theorem fundA_injective (x : vec Q) : (forall i, (i < n)%nat -> mvecQ n (fundA P w) x i == 0) ->
  forall i, (i < n)%nat -> x i == 0.
Proof.
  intros Hx.
  (* w . x = 0 *)
  assert (Hwx : sumQ (fun k => w k * x k) n == 0).
  { assert (E : sumQ (fun i => w i * mvecQ n (fundA P w) x i) n == 0) by (apply sumQ_zero'; intros i Hi; rewrite (Hx i Hi); ring).
    rewrite <- E. unfold mvecQ. rewrite sumQ_swap_scal. apply sumQ_ext. intros k Hk.
    rewrite (sumQ_ext _ (fun i => (w i * fundA P w i k) * x k)) by (intros; ring).
    rewrite sumQ_scal_r, (w_fundA' k Hk). reflexivity. }
  (* x = P x *)
  assert (Hh : forall i, (i < n)%nat -> x i == sumQ (fun j => P i j * x j) n).
  { intros i Hi. pose proof (Hx i Hi) as E. unfold mvecQ, fundA in E.
    rewrite (sumQ_ext _ (fun j => (delta i j * x j - P i j * x j) + w j * x j)) in E by (intros; ring).
    rewrite sumQ_add, sumQ_sub, (sumQ_delta_l x n i Hi), Hwx in E. lra. }
  intros i Hi.
  assert (Hc : forall k, (k < n)%nat -> x k == x i) by (intros k Hk; apply harmonic_const; assumption).
  assert (E : sumQ (fun k => w k * x k) n == x i).
  { rewrite (sumQ_ext _ (fun k => w k * x i)) by (intros k Hk; rewrite (Hc k Hk); reflexivity).
    rewrite sumQ_scal_r, Hw1. ring. }
  lra.
Qed.

(* a right inverse of I - P + 1w is a left inverse, and it is the only one *)
Variable Z : mat Q.
Hypothesis HZ : forall i j, (i < n)%nat -> (j < n)%nat -> mmulQ n (fundA P w) Z i j == delta i j.

Theorem fund_left_inverse : forall i j, (i < n)%nat -> (j < n)%nat -> mmulQ n Z (fundA P w) i j == delta i j.
Proof.
  intros i j Hi Hj.
  (* column j of Z F - I lies in the kernel of F *)
  assert (K : forall l, (l < n)%nat -> (fun l => mmulQ n Z (fundA P w) l j - delta l j) l == 0).
  { apply fundA_injective. intros a Ha. unfold mvecQ.
    rewrite (sumQ_ext _ (fun l => fundA P w a l * mmulQ n Z (fundA P w) l j - fundA P w a l * delta l j)) by (intros; ring).
    rewrite sumQ_sub. rewrite (sumQ_delta_r (fundA P w a) n j Hj).
    unfold mmulQ at 1.
    rewrite (sumQ_swap_scal (fundA P w a) (fun l k => Z l k * fundA P w k j) n n).
    rewrite (sumQ_ext _ (fun k => delta a k * fundA P w k j)).
    - rewrite (sumQ_delta_l (fun k => fundA P w k j) n a Ha). ring.
    - intros k Hk. rewrite <- (HZ a k Ha Hk). unfold mmulQ. rewrite <- sumQ_scal_r. apply sumQ_ext. intros; ring. }
  specialize (K i Hi). cbv beta in K. lra.
Qed.

Theorem fund_inverse_unique (Z' : mat Q) :
  (forall i j, (i < n)%nat -> (j < n)%nat -> mmulQ n (fundA P w) Z' i j == delta i j) ->
  forall i j, (i < n)%nat -> (j < n)%nat -> Z i j == Z' i j.
Proof.
  intros HZ' i j Hi Hj.
  assert (K : forall l, (l < n)%nat -> (fun l => Z l j - Z' l j) l == 0).
  { apply fundA_injective. intros a Ha. unfold mvecQ.
    rewrite (sumQ_ext _ (fun l => fundA P w a l * Z l j - fundA P w a l * Z' l j)) by (intros; ring).
    rewrite sumQ_sub. pose proof (HZ a j Ha Hj) as E1. pose proof (HZ' a j Ha Hj) as E2. unfold mmulQ in E1, E2. lra. }
  specialize (K i Hi). cbv beta in K. lra.
Qed.
End Markov.
