(* Proofs/PartitionDG.v — diversity_coef_sign and gateway_coef_sign.
   New tool: np.unique(return_inverse)+1 is ONTO 1..max (relabel_onto), so a sum over the modules 1..K of ANY function
   G(u) is the node sum  sum_j G(c_j) / |block of j|  (module_sum_nodes); the linear trick of Proofs/Partition.v
   (block_collapse) only handled summands that carry an indicator.
     - diversity_coef_sign (abstract log that respects ==) depends on the partition only;
     - gateway_coef_sign AS THE CODE IS does not: concrete witness (replayed on the implementation by the harness);
     - gateway_coef_sign as repaired by proposed_fixes/gateway_coef_sign.diff depends on the partition only. *)
From Coq Require Import QArith Qring Qfield Lia Lqa Arith List Bool ZArith.
From BCT Require Import Base.Mat Base.SumQ Base.ListX Model.Partition Model.PartitionDG Proofs.Partition.
Import ListNotations.
Open Scope Q_scope.

(* ---------- relabel is onto 1..max ---------- *)
Lemma list_max_Z (l : list Z) : l <> [] -> exists y, In y l /\ forall z, In z l -> (z <= y)%Z.
Proof.
  induction l as [|a l IH]; [congruence|]. intros _. destruct l as [|b t].
  - exists a. split; [left; reflexivity|]. intros z [<-|[]]. lia.
  - destruct IH as [y [Hy Hmax]]; [discriminate|]. destruct (Z_le_gt_dec a y) as [Hle|Hgt].
    + exists y. split; [right; exact Hy|]. intros z [<-|Hz]; [lia|apply Hmax; exact Hz].
    + exists a. split; [left; reflexivity|]. intros z [<-|Hz]; [lia|]. specialize (Hmax z Hz). lia.
Qed.

(* the largest label below x has the rank just below the rank of x *)
Lemma rank_pred l x : (0 < rank l x)%nat -> exists y, In y l /\ (y < x)%Z /\ S (rank l y) = rank l x.
Proof.
  intros H. unfold rank in *. set (F := filter (fun z => Z.ltb z x) l) in *.
  assert (HF : F <> []). { intros E. rewrite E in H. cbn in H. lia. }
  destruct (list_max_Z F HF) as [y [Hy Hmax]].
  assert (Hy' := Hy). unfold F in Hy'. apply filter_In in Hy'. destruct Hy' as [Hyl Hyx]. apply Z.ltb_lt in Hyx.
  exists y. split; [exact Hyl|]. split; [exact Hyx|].
  set (A := nodup Z.eq_dec (filter (fun z => Z.ltb z y) l)).
  assert (HA : NoDup (y :: A)).
  { constructor; [|apply NoDup_nodup]. unfold A. rewrite nodup_In, filter_In. intros [_ Hlt]. apply Z.ltb_lt in Hlt. lia. }
  assert (I1 : incl (y :: A) (nodup Z.eq_dec F)).
  { intros z [<-|Hz]; rewrite nodup_In; [exact Hy|]. unfold A in Hz. rewrite nodup_In, filter_In in Hz.
    destruct Hz as [Hz Hlt]. apply Z.ltb_lt in Hlt. unfold F. apply filter_In. split; [exact Hz|apply Z.ltb_lt; lia]. }
  assert (I2 : incl (nodup Z.eq_dec F) (y :: A)).
  { intros z Hz. rewrite nodup_In in Hz. pose proof (Hmax z Hz) as Hle. unfold F in Hz. apply filter_In in Hz.
    destruct Hz as [Hzl Hzx]. destruct (Z.eq_dec z y) as [->|Hne]; [left; reflexivity|]. right.
    unfold A. rewrite nodup_In, filter_In. split; [exact Hzl|apply Z.ltb_lt; lia]. }
  pose proof (NoDup_incl_length HA I1) as L1.
  pose proof (NoDup_incl_length (NoDup_nodup Z.eq_dec F) I2) as L2. cbn [length] in L1, L2. fold A. lia.
Qed.

Lemma rank_all l : forall k x r, In x l -> rank l x = (r + k)%nat -> exists y, In y l /\ rank l y = r.
Proof.
  induction k as [|k IH]; intros x r Hx Hr.
  - exists x. split; [exact Hx|lia].
  - destruct (rank_pred l x) as [y [Hy [_ Hs]]]; [lia|]. apply (IH y r Hy). lia.
Qed.

Lemma fold_max_In (l : list nat) : (0 < fold_right Nat.max 0 l)%nat -> In (fold_right Nat.max 0%nat l) l.
Proof.
  induction l as [|a l IH]; cbn [fold_right]; intros H; [lia|].
  destruct (Nat.max_spec a (fold_right Nat.max 0%nat l)) as [[Hlt E]|[Hle E]]; rewrite E.
  - right. apply IH. lia.
  - left. reflexivity.
Qed.

Lemma vmax_attained n (c : vec nat) : (0 < vmax n c)%nat -> exists i, (i < n)%nat /\ c i = vmax n c.
Proof.
  intros H. unfold vmax in *. apply fold_max_In in H. unfold to_list in H at 2. apply in_map_iff in H.
  destruct H as [i [E Hi]]. apply in_seq in Hi. exists i. split; [lia|exact E].
Qed.

Theorem relabel_onto n ci u : (1 <= u <= vmax n (relabel n ci))%nat -> exists i, (i < n)%nat /\ relabel n ci i = u.
Proof.
  intros [H1 H2]. destruct (vmax_attained n (relabel n ci)) as [i0 [Hi0 E0]]; [lia|].
  rewrite (relabel_spec n ci i0 Hi0) in E0.
  destruct (rank_all (to_list n ci) (rank (to_list n ci) (ci i0) - (u - 1)) (ci i0) (u - 1)%nat) as [y [Hy Hr]].
  - apply In_to_list. exact Hi0.
  - lia.
  - unfold to_list in Hy. apply in_map_iff in Hy. destruct Hy as [j [Ej Hj]]. apply in_seq in Hj.
    exists j. split; [lia|]. rewrite relabel_spec by lia. rewrite Ej, Hr. lia.
Qed.

Definition onto (n : nat) (c : vec nat) : Prop :=
  forall u, (1 <= u <= vmax n c)%nat -> exists i, (i < n)%nat /\ c i = u.

Lemma mdz_cnt_pos n c u : (exists i, (i < n)%nat /\ c i = u) -> 0 < mdz_cnt n c u.
Proof. intros [i [Hi <-]]. pose proof (bsize_ge1 n c i Hi) as H. unfold bsize in H. lra. Qed.

(* a sum over the modules of ANY function is a sum over the nodes *)
Theorem module_sum_nodes n c (G : nat -> Q) : canon n c -> onto n c ->
  sumM (vmax n c) G == sumQ (fun j => G (c j) / bsize n c j) n.
Proof.
  intros Hc Ho.
  rewrite (sumM_ext _ _ (fun u => sumQ (fun j => ind (Nat.eqb (c j) u) * (G u / mdz_cnt n c u)) n)).
  - rewrite sumM_fubini. apply sumQ_ext. intros j Hj.
    apply (block_collapse (vmax n c) (c j) (fun m => G m / mdz_cnt n c m) (Hc j Hj)).
  - intros u Hu. rewrite sumQ_scal_r. fold (mdz_cnt n c u). pose proof (mdz_cnt_pos n c u (Ho u Hu)) as Hp.
    field. lra.
Qed.

Lemma bsize_same n c c' i : same_part n c c' -> (i < n)%nat -> bsize n c i == bsize n c' i.
Proof. intros H Hi. unfold bsize. apply mdz_cnt_same; assumption. Qed.

(* the number of blocks is a function of the partition *)
Lemma nblocks_same n c c' : canon n c -> onto n c -> canon n c' -> onto n c' -> same_part n c c' ->
  vmax n c = vmax n c'.
Proof.
  intros Hc Ho Hc' Ho' H.
  assert (E : forall d, canon n d -> onto n d -> qof (vmax n d) == sumQ (fun j => 1 / bsize n d j) n).
  { intros d Hd Hod. rewrite <- (module_sum_nodes n d (fun _ => 1) Hd Hod). unfold sumM. rewrite sumQ_const1'. reflexivity. }
  assert (Eq : qof (vmax n c) == qof (vmax n c')).
  { rewrite (E c Hc Ho), (E c' Hc' Ho'). apply sumQ_ext. intros j Hj. rewrite (bsize_same n c c' j H Hj). reflexivity. }
  unfold qof in Eq. apply (proj1 (inject_Z_injective _ _)) in Eq. lia.
Qed.

(* ---------- diversity_coef_sign ---------- *)
Lemma Qeq_bool_comp' a b : a == b -> Qeq_bool a 0 = Qeq_bool b 0.
Proof.
  intros E. destruct (Qeq_bool b 0) eqn:Eb.
  - apply Qeq_bool_iff. apply Qeq_bool_iff in Eb. rewrite E. exact Eb.
  - destruct (Qeq_bool a 0) eqn:Ea; [|reflexivity]. apply Qeq_bool_iff in Ea. rewrite E in Ea.
    apply Qeq_bool_iff in Ea. congruence.
Qed.

Lemma nz1_comp a b : a == b -> (if Qeq_bool a 0 then 1 else a) == (if Qeq_bool b 0 then 1 else b).
Proof. intros E. rewrite (Qeq_bool_comp' a b E). destruct (Qeq_bool b 0); [reflexivity|exact E]. Qed.

Lemma dcs_snm_same n W c c' i j : same_part n c c' -> (j < n)%nat ->
  dcs_snm n W c i (c j) == dcs_snm n W c' i (c' j).
Proof.
  intros H Hj. unfold dcs_snm. apply sumQ_ext. intros l Hl. rewrite (same_part_eqb n c c' H l j Hl Hj). reflexivity.
Qed.

Lemma dcs_pnm_same n W c c' i j : same_part n c c' -> (j < n)%nat ->
  dcs_pnm n W c i (c j) == dcs_pnm n W c' i (c' j).
Proof.
  intros H Hj. unfold dcs_pnm. cbv zeta. destruct (Qeq_bool (sumQ (fun j0 => W i j0) n) 0); [reflexivity|].
  apply nz1_comp. rewrite (dcs_snm_same n W c c' i j H Hj). reflexivity.
Qed.

Section Diversity.
Variable log : Q -> Q.
Hypothesis log_proper : forall a b, a == b -> log a == log b.

Lemma dcs_entropy_same n W c c' i : canon n c -> onto n c -> canon n c' -> onto n c' -> same_part n c c' ->
  dcs_entropy log n W c i == dcs_entropy log n W c' i.
Proof.
  intros Hc Ho Hc' Ho' H. unfold dcs_entropy. cbv zeta.
  rewrite <- (nblocks_same n c c' Hc Ho Hc' Ho' H) at 2.
  apply Qmult_comp; [|reflexivity]. apply Qopp_comp.
  rewrite (module_sum_nodes n c _ Hc Ho), (module_sum_nodes n c' _ Hc' Ho').
  apply sumQ_ext. intros j Hj.
  rewrite (bsize_same n c c' j H Hj), (log_proper _ _ (dcs_pnm_same n W c c' i j H Hj)), (dcs_pnm_same n W c c' i j H Hj).
  reflexivity.
Qed.

Theorem diversity_coef_sign_partition_only n W ci ci' i : same_part n ci ci' ->
  fst (diversity_coef_sign log n W ci) i == fst (diversity_coef_sign log n W ci') i /\
  snd (diversity_coef_sign log n W ci) i == snd (diversity_coef_sign log n W ci') i.
Proof.
  intros H. unfold diversity_coef_sign. cbn [fst snd].
  split; apply dcs_entropy_same; try apply relabel_canon; try (intros u Hu; apply relabel_onto; exact Hu);
    apply same_part_relabel; exact H.
Qed.
End Diversity.

(* on a non-negative matrix a zero strength forces zero node-to-module strengths: the only NaN of pnm is 0/0 *)
Lemma dcs_nan_only n W c i u : (forall j, (j < n)%nat -> 0 <= W i j) -> sumQ (fun j => W i j) n == 0 ->
  dcs_snm n W c i u == 0.
Proof.
  intros Hnn H0. unfold dcs_snm. apply sumQ_zero'. intros j Hj.
  rewrite (sumQ_zero_inv' _ n Hnn H0 j Hj). ring.
Qed.

(* ---------- gateway_coef_sign as the code is: NOT a function of the partition ---------- *)
Definition gw_agree (n : nat) (a b : option (vec Q * vec Q)) : Prop :=
  match a, b with
  | Some p, Some p' => forall i, (i < n)%nat -> fst p i == fst p' i /\ snd p i == snd p' i
  | None, None => True
  | _, _ => False
  end.
Definition gateway_partition_only_statement : Prop :=
  forall n W ci ci', same_part n ci ci' -> gw_agree n (gateway_coef_sign n W ci) (gateway_coef_sign n W ci').

Definition gw_witness_W : mat Q := of_rows 0 [[0; 1; 0]; [1; 0; 0]; [0; 0; 0]]%list.
Definition gw_witness_ci : vec Z := of_list 0%Z [1; 1; 2]%Z.
Definition gw_witness_ci' : vec Z := of_list 0%Z [2; 2; 1]%Z.

Lemma gw_witness_same_part : same_part 3 gw_witness_ci gw_witness_ci'.
Proof.
  intros i j Hi Hj. unfold gw_witness_ci, gw_witness_ci', of_list.
  destruct i as [|[|[|i]]]; try lia; destruct j as [|[|[|j]]]; try lia; cbn [nth];
    split; intros E; first [reflexivity|discriminate E].
Qed.

(* the values the model (and the implementation) returns on the witness *)
Lemma gw_witness_values :
  run_gw [[0; 1; 0]; [1; 0; 0]; [0; 0; 0]]%list [1; 1; 2]%Z = Some ([3 # 4; 7 # 16; 0], [0; 0; 0])%list /\
  run_gw [[0; 1; 0]; [1; 0; 0]; [0; 0; 0]]%list [2; 2; 1]%Z = Some ([7 # 16; 3 # 4; 0], [0; 0; 0])%list.
Proof. split; vm_compute; reflexivity. Qed.

Theorem gateway_coef_sign_refuted :
  exists n W ci ci', same_part n ci ci' /\ ~ gw_agree n (gateway_coef_sign n W ci) (gateway_coef_sign n W ci').
Proof.
  exists 3%nat, gw_witness_W, gw_witness_ci, gw_witness_ci'. split; [exact gw_witness_same_part|].
  intros H.
  assert (E1 : gw_raises 3 (relabel 3 gw_witness_ci) (vmax 3 (relabel 3 gw_witness_ci)) = false) by (vm_compute; reflexivity).
  assert (E2 : gw_raises 3 (relabel 3 gw_witness_ci') (vmax 3 (relabel 3 gw_witness_ci')) = false) by (vm_compute; reflexivity).
  unfold gw_agree, gateway_coef_sign in H. cbv zeta in H. rewrite E1, E2 in H.
  destruct (H 0%nat ltac:(lia)) as [H0 _]. cbn [fst] in H0. vm_compute in H0. discriminate H0.
Qed.

Theorem gateway_partition_only_statement_false : ~ gateway_partition_only_statement.
Proof.
  intros H. destruct gateway_coef_sign_refuted as [n [W [ci [ci' [Hs Hn]]]]]. apply Hn. apply H. exact Hs.
Qed.
