(* Proofs/SymTermLib.v — C04: (a) the equivariance theorem at the level of the LISTS the extracted evaluator
   reads and prints (A[ix_(l,l)] for a permutation list l); (b) what some library terms denote;
   (c) equation-level statements for the LAPACK measures. *)
From Coq Require Import QArith Qring Lia Lqa Arith List Bool Permutation.
From BCT Require Import Base.Mat Base.SumQ Model.SymTerm Proofs.SymTerm.
Import ListNotations.
Open Scope Q_scope.

(* ---------- (a) lists ---------- *)
Definition square (n : nat) (A : list (list Q)) : Prop := length A = n /\ forall r, In r A -> length r = n.
(* A[ix_(l,l)] and v[l] on lists *)
Definition permA (l : list nat) (A : list (list Q)) : list (list Q) :=
  map (fun i => map (fun j => nth j (nth i A []) 0) l) l.
Definition permv (l : list nat) (v : list Q) : list Q := map (fun i => nth i v 0) l.
Definition res_at (r : list (list Q)) (i j : nat) : Q := nth j (nth i r []) 0.

Inductive okind := KS | KV | KM.
Fixpoint out_kind (pr : prog) : okind :=
  match pr with
  | LetS _ _ r | LetV _ _ r | LetM _ _ r | IterV _ _ _ _ r | IterM _ _ _ _ r => out_kind r
  | OutS _ => KS | OutV _ => KV | OutM _ => KM
  end.
Lemma semp_kind prims n pr : forall me ve se,
  match out_kind pr, semp prims n me ve se pr with
  | KS, RS _ | KV, RV _ | KM, RM _ => True
  | _, _ => False
  end.
Proof. induction pr; intros; cbn [out_kind semp]; try apply IHpr; exact I. Qed.

Lemma nth_to_rows {T} (d : T) n m (f : mat T) i j : (i < n)%nat -> (j < m)%nat ->
  nth j (nth i (to_rows n m f) []) d = f i j.
Proof. intros Hi Hj. exact (tab_spec d n m f i j Hi Hj). Qed.

Lemma of_rows_permA n l A : square n A -> Permutation l (seq 0 n) ->
  forall i j, of_rows 0 (permA l A) i j = of_rows 0 A (ext_perm l i) (ext_perm l j).
Proof.
  intros [HlenA Hrows] HP i j.
  pose proof (Permutation_length HP) as Hlen. rewrite seq_length in Hlen.
  unfold of_rows, permA, ext_perm.
  destruct (Nat.lt_ge_cases i n) as [Hi|Hi].
  - rewrite (nth_indep (map _ l) [] ((fun i0 => map (fun j0 => nth j0 (nth i0 A []) 0) l) i))
      by (rewrite map_length; lia).
    rewrite (map_nth (fun i0 => map (fun j0 => nth j0 (nth i0 A []) 0) l) l i i).
    destruct (Nat.lt_ge_cases j n) as [Hj|Hj].
    + rewrite (nth_indep (map _ l) 0 ((fun j0 => nth j0 (nth (nth i l i) A []) 0) j))
        by (rewrite map_length; lia).
      rewrite (map_nth (fun j0 => nth j0 (nth (nth i l i) A []) 0) l j j). reflexivity.
    + rewrite (nth_overflow (map _ l)) by (rewrite map_length; lia).
      rewrite (nth_overflow l j) by lia.
      symmetry. apply nth_overflow.
      assert (Hin : (nth i l i < n)%nat).
      { assert (In (nth i l i) l) by (apply nth_In; lia).
        apply (Permutation_in _ HP) in H. apply in_seq in H. lia. }
      rewrite (Hrows (nth (nth i l i) A [])); [exact Hj|apply nth_In; lia].
  - rewrite (nth_overflow (map _ l)) by (rewrite map_length; lia).
    rewrite (nth_overflow l i) by lia. rewrite (nth_overflow A []) by lia.
    assert (E : forall k : nat, nth k (@nil Q) 0 = 0) by (intros [|k]; reflexivity). rewrite !E. reflexivity.
Qed.
Lemma of_list_permv n l v : length v = n -> Permutation l (seq 0 n) ->
  forall i, of_list 0 (permv l v) i = of_list 0 v (ext_perm l i).
Proof.
  intros Hv HP i. pose proof (Permutation_length HP) as Hlen. rewrite seq_length in Hlen.
  unfold of_list, permv, ext_perm.
  destruct (Nat.lt_ge_cases i n) as [Hi|Hi].
  - rewrite (nth_indep (map _ l) 0 ((fun i0 => nth i0 v 0) i)) by (rewrite map_length; lia).
    rewrite (map_nth (fun i0 => nth i0 v 0) l i i). reflexivity.
  - rewrite (nth_overflow (map _ l)) by (rewrite map_length; lia).
    rewrite (nth_overflow l i) by lia. rewrite (nth_overflow v 0) by lia. reflexivity.
Qed.

Section Lists.
Variable prims : nat -> Q -> Q.
Hypothesis prims_proper : forall k a b, a == b -> prims k a == prims k b.

(* what the driver computes on the renumbered lists is the renumbering of what it computes on the original *)
Theorem run_equivariant : forall n pr A ci ks l,
  square n A -> length ci = n -> Permutation l (seq 0 n) ->
  let p := ext_perm l in
  let r' := run_prog prims pr (permA l A) (permv l ci) ks in
  let r := run_prog prims pr A ci ks in
  match out_kind pr with
  | KS => res_at r' 0 0 == res_at r 0 0
  | KV => forall i, (i < n)%nat -> res_at r' 0 i == res_at r 0 (p i)
  | KM => forall i j, (i < n)%nat -> (j < n)%nat -> res_at r' i j == res_at r (p i) (p j)
  end.
Proof.
  intros n pr A ci ks l HA Hci HP p r' r.
  pose proof (ext_perm_perm_on l n HP) as Hp. fold p in Hp.
  pose proof (Permutation_length HP) as Hlen. rewrite seq_length in Hlen.
  assert (HlenA' : length (permA l A) = n) by (unfold permA; rewrite map_length; exact Hlen).
  assert (HlenA : length A = n) by (apply HA).
  assert (Hrel : rrel p (eval prims n pr (of_rows 0 (permA l A)) (of_list 0 (permv l ci)) ks)
                        (eval prims n pr (of_rows 0 A) (of_list 0 ci) ks)).
  { unfold eval. apply (semp_equivariant prims prims_proper n p Hp).
    - intros m i j. unfold mget. cbn [alook fst snd]. destruct (Nat.eqb m 0); [|reflexivity].
      rewrite (of_rows_permA n l A HA HP). reflexivity.
    - intros v i. unfold vget. cbn [alook fst snd]. destruct (Nat.eqb v 0); [|reflexivity].
      rewrite (of_list_permv n l ci Hci HP). reflexivity.
    - intros s. reflexivity. }
  subst r' r. unfold run_prog. rewrite HlenA', HlenA.
  pose proof (semp_kind prims n pr [(0%nat, of_rows 0 (permA l A))] [(0%nat, of_list 0 (permv l ci))] (inputs_s ks)) as K1.
  pose proof (semp_kind prims n pr [(0%nat, of_rows 0 A)] [(0%nat, of_list 0 ci)] (inputs_s ks)) as K2.
  unfold eval in *.
  destruct (out_kind pr);
    destruct (semp prims n [(0%nat, of_rows 0 (permA l A))] [(0%nat, of_list 0 (permv l ci))] (inputs_s ks) pr);
    try contradiction;
    destruct (semp prims n [(0%nat, of_rows 0 A)] [(0%nat, of_list 0 ci)] (inputs_s ks) pr);
    try contradiction; cbn [rrel] in Hrel.
  - unfold res_at. cbn [nth]. exact Hrel.
  - intros i Hi. unfold res_at. cbn [nth].
    rewrite !nth_to_list; [apply Hrel|apply (perm_lt n p i Hp Hi)|exact Hi].
  - intros i j Hi Hj. unfold res_at.
    rewrite !nth_to_rows; [apply Hrel|apply (perm_lt n p i Hp Hi)|apply (perm_lt n p j Hp Hj)|exact Hi|exact Hj].
Qed.
End Lists.

(* ---------- (b) what some terms denote (so that the instances below are about the intended measures) ---------- *)
Definition nzq (q : Q) : Q := if Qeq_bool q 0 then 0 else 1.
Lemma denote_degrees_und prims n A ci ks i :
  eval_v prims n t_degrees_und A ci ks i == sumQ (fun k => nzq (A k i)) n.
Proof.
  unfold eval_v, eval, t_degrees_und. cbn [semp]. unfold vbody. cbn [sem]. rewrite !Qred_correct.
  apply sumQ_ext. intros k _. unfold Nz, A_, c0, c1. cbn [sem alook fst snd Nat.eqb k_ i_]. unfold mget.
  cbn [alook fst snd Nat.eqb]. unfold nzq. destruct (Qeq_bool (A k i) 0); reflexivity.
Qed.
Lemma denote_strengths_und prims n A ci ks i :
  eval_v prims n t_strengths_und A ci ks i == sumQ (fun k => A k i) n.
Proof.
  unfold eval_v, eval, t_strengths_und. cbn [semp]. unfold vbody. cbn [sem]. rewrite !Qred_correct.
  apply sumQ_ext. intros k _. unfold A_. cbn [sem alook fst snd Nat.eqb k_ i_]. unfold mget.
  cbn [alook fst snd Nat.eqb]. reflexivity.
Qed.
(* transitivity_bu = trace(A^3) / (sum(A^2) - trace(A^2)) *)
Lemma denote_transitivity_bu prims n A ci ks :
  eval_s prims n t_transitivity_bu A ci ks ==
  sumQ (fun i => sumQ (fun k => sumQ (fun l => A i k * A k l * A l i) n) n) n
  / (sumQ (fun i => sumQ (fun j => sumQ (fun k => A i k * A k j) n) n) n - sumQ (fun i => sumQ (fun k => A i k * A k i) n) n).
Proof.
  unfold eval_s, eval, t_transitivity_bu, Sum2, A_. cbn [semp sem binop_sem]. rewrite !Qred_correct.
  assert (E : forall a a' b b' c c' : Q, a == a' -> b == b' -> c == c' -> a / (b - c) == a' / (b' - c'))
    by (intros a a' b b' c c' -> -> ->; reflexivity).
  apply E.
  - apply sumQ_ext; intros i _. rewrite Qred_correct. apply sumQ_ext; intros k _. rewrite Qred_correct.
    apply sumQ_ext; intros l _. cbn [alook fst snd Nat.eqb i_ k_ l_]. unfold mget. cbn [alook fst snd Nat.eqb]. reflexivity.
  - apply sumQ_ext; intros i _. rewrite Qred_correct. apply sumQ_ext; intros j _. rewrite Qred_correct.
    apply sumQ_ext; intros k _. cbn [alook fst snd Nat.eqb i_ j_ k_]. unfold mget. cbn [alook fst snd Nat.eqb]. reflexivity.
  - apply sumQ_ext; intros i _. rewrite Qred_correct.
    apply sumQ_ext; intros k _. cbn [alook fst snd Nat.eqb i_ k_]. unfold mget. cbn [alook fst snd Nat.eqb]. reflexivity.
Qed.

(* ---------- (c) LAPACK measures: equivariance of the defining equation ---------- *)
Section Equations.
Variable prims : nat -> Q -> Q.
Hypothesis prims_proper : forall k a b, a == b -> prims k a == prims k b.
Variables (n : nat) (p : nat -> nat).
Hypothesis Hp : perm_on n p.

(* residual of (I - d A D^-1) r = (1-d)/N at node i *)
Definition pagerank_residual (A : mat Q) (r : vec Q) (d : Q) (i : nat) : Q :=
  eval_v prims n t_pagerank_residual A r [d] i.
Definition solves_pagerank A r d : Prop := forall i, (i < n)%nat -> pagerank_residual A r d i == 0.
(* the FULL statement (what a solver returns commutes with the renumbering, for 0 <= d < 1 and A >= 0, normalisation
   included) is pagerank_full_statement in Proofs/SymTermFull.v, proved there through C18's uniqueness theorem *)
(* the renumbered solution solves the renumbered equation (every A, every d) *)
Theorem pagerank_equation A r d : solves_pagerank A r d -> solves_pagerank (pm p A) (pv p r) d.
Proof.
  intros H i Hi. unfold pagerank_residual.
  rewrite (measure_equivariant_vector prims prims_proper n p Hp t_pagerank_residual A r [d] i).
  apply H. apply (perm_lt n p i Hp Hi).
Qed.

Definition eigen_residual (A : mat Q) (v : vec Q) (lam : Q) (i : nat) : Q :=
  eval_v prims n t_eigen_residual A v [lam] i.
Definition is_eigenvector A v lam : Prop := forall i, (i < n)%nat -> eigen_residual A v lam i == 0.
(* the FULL statement (Perron hypotheses: connected undirected non-negative network, non-negative non-zero eigenvector of
   fixed norm) is eigenvector_full_statement in Proofs/SymTermFull.v, proved there *)
Theorem eigenvector_equation A v lam : is_eigenvector A v lam -> is_eigenvector (pm p A) (pv p v) lam.
Proof.
  intros H i Hi. unfold eigen_residual.
  rewrite (measure_equivariant_vector prims prims_proper n p Hp t_eigen_residual A v [lam] i).
  apply H. apply (perm_lt n p i Hp Hi).
Qed.

(* subgraph centrality = diag(exp A) = lim_K sum_{k<=K} (A^k)_ii / k!.  FULL statement is about the limit (a real
   number; not stated over Q).  PROVED: every truncation of the series is equivariant. *)
Theorem subgraph_truncation_partial K A ci ks i :
  eval_v prims n (t_subgraph_trunc K) (pm p A) (pv p ci) ks i == eval_v prims n (t_subgraph_trunc K) A ci ks (p i).
Proof. apply (measure_equivariant_vector prims prims_proper n p Hp). Qed.
End Equations.

(* ---------- (d) the property as a predicate on measures ---------- *)
(* C04 for one measure f (size, matrix, label vector, parameters |-> scalar / vector / matrix):
   for EVERY size, EVERY renumbering and EVERY input, f of the renumbered network is the renumbered f *)
Definition equivariant_measure (f : nat -> mat Q -> vec Q -> list Q -> res) : Prop :=
  forall n p, perm_on n p -> forall A ci ks,
  match f n (pm p A) (pv p ci) ks, f n A ci ks with
  | RS a, RS b => a == b
  | RV u, RV v => forall i, u i == v (p i)
  | RM M', RM M => forall i j, M' i j == M (p i) (p j)
  | _, _ => False
  end.
Theorem every_term_measure_equivariant : forall prims, (forall k a b, a == b -> prims k a == prims k b) ->
  forall pr, equivariant_measure (fun n => eval prims n pr).
Proof. intros prims Hpr pr n p Hp A ci ks. exact (eval_rel prims Hpr n p Hp pr A ci ks). Qed.
