(* Proofs/RewireRun.v — initial invariant, whole runs, latticiser re-indexing. *)
From Coq Require Import ZArith List Arith Bool Lia QArith Permutation.
From BCT Require Import Base.Mat Base.ListX Model.Rewire Proofs.RewireSwap Proofs.RewireInv.
Import ListNotations.
Open Scope Z_scope.

(* ---------- edge lists ---------- *)
Lemma edge_list_In src n R x y :
  In (x, y) (edge_list src n R) <-> (x < n /\ y < n)%nat /\ R x y <> 0 /\ el_keep src (x, y) = true.
Proof.
  unfold edge_list. rewrite filter_In, cells_In. cbn [fst snd]. rewrite andb_true_iff, negb_true_iff, Z.eqb_neq. tauto.
Qed.
Lemma edge_list_NoDup src n R : NoDup (edge_list src n R).
Proof. apply NoDup_filter, cells_NoDup. Qed.

Lemma nth_fst {A B} (l : list (A * B)) e (da : A) (db : B) : nth e (map fst l) da = fst (nth e l (da, db)).
Proof. change da with (fst (da, db)) at 1. apply map_nth. Qed.
Lemma nth_snd {A B} (l : list (A * B)) e (da : A) (db : B) : nth e (map snd l) db = snd (nth e l (da, db)).
Proof. change db with (snd (da, db)) at 1. apply map_nth. Qed.

Section Init.
Variables (src : elsrc) (n : nat) (R : mat Z).
Let el := edge_list src n R.
Let st := fst (init_state src n R).
Let k := snd (init_state src n R).

Lemma init_k : k = length el. Proof. reflexivity. Qed.
Lemma init_R : sR st = R. Proof. reflexivity. Qed.
Lemma init_cell e : (si st e, sj st e) = nth e el (O, O).
Proof. unfold st, init_state; cbn [fst si sj]. unfold of_list. fold el.
  rewrite (nth_fst el e O O), (nth_snd el e O O). destruct (nth e el (O, O)); reflexivity. Qed.
Lemma init_cell_In e : (e < k)%nat -> In (si st e, sj st e) el.
Proof. intros He. rewrite init_cell. apply nth_In. rewrite <- init_k. exact He. Qed.

Lemma init_inv :
  (src <> ELall -> forall x y, R x y = R y x) ->
  Inv (match src with ELall => false | _ => true end) n k st.
Proof.
  intros Hpre.
  assert (Hcell: forall e, (e < k)%nat ->
            ((si st e < n)%nat /\ (sj st e < n)%nat) /\ R (si st e) (sj st e) <> 0 /\ el_keep src (si st e, sj st e) = true).
  { intros e He. apply edge_list_In. apply init_cell_In. exact He. }
  assert (Hdist: forall e e', (e < k)%nat -> (e' < k)%nat -> e <> e' -> (si st e, sj st e) <> (si st e', sj st e')).
  { intros e e' He He' Hne E. rewrite !init_cell in E. apply Hne.
    apply (proj1 (NoDup_nth el (O, O)) (edge_list_NoDup src n R)); rewrite <- ?init_k; auto. }
  constructor.
  - intros e He. apply Hcell; exact He.
  - intros e He. rewrite init_R. apply Hcell; exact He.
  - intros e e' He He' Hne. split.
    + intros [E1 E2]. apply (Hdist e e' He He' Hne). congruence.
    + intros U [E1 E2].
      destruct (Hcell e He) as (_ & Hnz & K1). destruct (Hcell e' He') as (_ & Hnz' & K2).
      destruct src; try discriminate; cbn [el_keep fst snd] in K1, K2;
        apply Nat.ltb_lt in K1; apply Nat.ltb_lt in K2; lia.
  - intros U e He Ed. destruct (Hcell e He) as (_ & _ & K1).
    destruct src; try discriminate; cbn [el_keep fst snd] in K1; apply Nat.ltb_lt in K1; lia.
  - intros U. rewrite init_R. destruct src; try discriminate; apply Hpre; discriminate.
Qed.
End Init.

(* ---------- tab outside the grid ---------- *)
Lemma tab_out (f : mat Z) n m x y : (n <= x \/ m <= y)%nat -> tab 0 n m f x y = 0.
Proof.
  unfold tab, of_rows, to_rows. intros [H|H].
  - rewrite (nth_overflow _ []) by (rewrite map_length, seq_length; exact H). destruct y; reflexivity.
  - destruct (lt_dec x n) as [Hx|Hx].
    + rewrite (nth_map_seq (fun i => map (f i) (seq 0 m)) [] n x Hx).
      apply nth_overflow. rewrite map_length, seq_length. exact H.
    + rewrite (nth_overflow _ []) by (rewrite map_length, seq_length; lia). destruct y; reflexivity.
Qed.
Lemma tab_sym (f : mat Z) n : (forall x y, f x y = f y x) -> forall x y, tab 0 n n f x y = tab 0 n n f y x.
Proof.
  intros Hs x y. destruct (lt_dec x n) as [Hx|Hx]; destruct (lt_dec y n) as [Hy|Hy].
  - rewrite !tab_spec; auto.
  - rewrite !tab_out; auto; lia.
  - rewrite !tab_out; auto; lia.
  - rewrite !tab_out; auto; lia.
Qed.
Lemma tab_diag0 (f : mat Z) n : (forall x, f x x = 0) -> forall x, tab 0 n n f x x = 0.
Proof. intros Hd x. destruct (lt_dec x n); [rewrite tab_spec; auto|apply tab_out; lia]. Qed.

(* ---------- whole runs of the eight engine routines ---------- *)
Definition pre_matrix (r : routine) (n : nat) (R0 : mat Z) (p : list nat) : mat Z :=
  if is_latt r then tab 0 n n (conj_perm (of_list O p) R0) else R0.

Lemma variant_und r n D : v_und (variant_of r n D) = is_und r.
Proof. reflexivity. Qed.

(* the structure of a call that returns *)
Lemma run_routine_unfold r n R0 itr D s0 res :
  run_routine r n R0 itr D s0 = Done res ->
  exists s1 st0 k stf s2,
    precheck r n R0 = true /\
    (if is_latt r then s0 = DPerm (r_perm res) :: s1 else s1 = s0) /\
    init_state (if is_und r then ELtril else ELall) n (pre_matrix r n R0 (r_perm res)) = (st0, k) /\
    (2 <= n)%nat /\
    iterate (variant_of r n (match D with Some D' => D' | None => ring_dist n end)) k
            (S (max_attempts (is_latt r && is_und r) n k)) (itr * k) st0 s1 [] = Some (stf, s2, r_trace res) /\
    r_rp res = sR stf /\
    r_out res = (if is_latt r then fun x y => sR stf (index_of x (r_perm res)) (index_of y (r_perm res)) else sR stf) /\
    r_eff res = length (r_trace res).
Proof.
  intros H. unfold run_routine in H.
  destruct (precheck r n R0) eqn:Pc; cbn [negb] in H; [|discriminate].
  unfold pre_matrix. destruct (is_latt r) eqn:L.
  - destruct s0 as [|[z|q|l] s1]; try discriminate.
    destruct (init_state _ n _) as [st0 k] eqn:Ei. destruct (Nat.ltb n 2) eqn:En; [discriminate|]. apply Nat.ltb_ge in En.
    destruct (iterate _ _ _ _ _ _ _) as [[[stf s2] tr]|] eqn:It; [|discriminate].
    inversion H; subst; cbn [r_perm r_trace r_rp r_out r_eff]. exists s1, st0, k, stf, s2. repeat split; auto.
  - destruct (init_state _ n _) as [st0 k] eqn:Ei. destruct (Nat.ltb n 2) eqn:En; [discriminate|]. apply Nat.ltb_ge in En.
    destruct (iterate _ _ _ _ _ _ _) as [[[stf s2] tr]|] eqn:It; [|discriminate].
    inversion H; subst; cbn [r_perm r_trace r_rp r_out r_eff]. exists s0, st0, k, stf, s2. repeat split; auto.
Qed.

Lemma pre_matrix_sym r n R0 p :
  (forall x y, R0 x y = R0 y x) -> forall x y, pre_matrix r n R0 p x y = pre_matrix r n R0 p y x.
Proof.
  intros Hs. unfold pre_matrix. destruct (is_latt r); [|auto]. apply tab_sym. unfold conj_perm. intros; auto.
Qed.
Lemma pre_matrix_und_ok r n R0 p :
  (forall x y, R0 x y = R0 y x) -> (forall x, R0 x x = 0) ->
  (forall x y, pre_matrix r n R0 p x y = pre_matrix r n R0 p y x) /\ (forall x, pre_matrix r n R0 p x x = 0).
Proof.
  intros Hs Hd. split; [apply pre_matrix_sym; exact Hs|].
  unfold pre_matrix. destruct (is_latt r); [|auto]. apply tab_diag0. unfold conj_perm. intros; auto.
Qed.

(* the start state of a run satisfies the invariant, whatever the number of edges *)
Lemma run_init_inv r n R0 p st0 k :
  (is_und r = true -> forall x y, R0 x y = R0 y x) ->
  init_state (if is_und r then ELtril else ELall) n (pre_matrix r n R0 p) = (st0, k) ->
  Inv (is_und r) n k st0 /\ sR st0 = pre_matrix r n R0 p.
Proof.
  intros Hpre Ei. set (src := if is_und r then ELtril else ELall) in *. set (R1 := pre_matrix r n R0 p) in *.
  assert (Es: st0 = fst (init_state src n R1) /\ k = snd (init_state src n R1)) by (rewrite Ei; auto).
  destruct Es as [Es Ekk]. split; [|rewrite Es; reflexivity].
  rewrite Es, Ekk.
  replace (is_und r) with (match src with ELall => false | _ => true end) by (unfold src; destruct (is_und r); reflexivity).
  apply init_inv. intros Hsrc.
  assert (U: is_und r = true) by (unfold src in Hsrc; destruct (is_und r); congruence).
  apply pre_matrix_sym. exact (Hpre U).
Qed.

(* no edge: `itr *= k` leaves nothing to iterate *)
Lemma iterate_k0 v ma itr st s tr : iterate v 0 ma (itr * 0) st s tr = Some (st, s, tr).
Proof. rewrite Nat.mul_0_r. reflexivity. Qed.

Theorem run_routine_good r n R0 itr D s0 res :
  run_routine r n R0 itr D s0 = Done res ->
  (is_und r = true -> forall x y, R0 x y = R0 y x) ->
  let R1 := pre_matrix r n R0 (r_perm res) in
  exists k st,
    r_rp res = sR st /\
    Good (is_und r) n k R1 st /\
    GoodTrace (is_und r) n k R1 (r_trace res) /\
    r_eff res = length (r_trace res) /\
    ((itr = O \/ r_eff res = O) -> r_rp res = R1).
Proof.
  intros H Hpre R1.
  destruct (run_routine_unfold _ _ _ _ _ _ _ H) as (s1 & st0 & k & stf & s2 & Pc & _ & Ei & _ & It & Erp & _ & Eeff).
  destruct (run_init_inv r n R0 _ st0 k Hpre Ei) as [HI0 HR0]. fold R1 in HR0.
  assert (HG0: Good (is_und r) n k R1 st0) by (split; [exact HI0|rewrite HR0; apply Same_refl]).
  exists k, stf. split; [exact Erp|].
  destruct (Nat.eq_dec k 0) as [K0|K0].
  - subst k. rewrite iterate_k0 in It. injection It as E1 E2 E3. subst stf. rewrite <- E3.
    split; [exact HG0|]. split; [apply Forall_nil|]. split; [rewrite Eeff, <- E3; reflexivity|].
    intros _. rewrite Erp. exact HR0.
  - rewrite <- (variant_und r n (match D with Some D' => D' | None => ring_dist n end)) in HG0.
    destruct (iterate_spec _ n k R1 _ _ _ _ _ _ _ _ ltac:(lia) HG0 (Forall_nil _) It) as (B1 & B2 & B3).
    rewrite variant_und in B1, B2.
    split; [exact B1|]. split; [exact B2|]. split; [exact Eeff|].
    intros [E|E].
    + subst itr. cbn [Nat.mul iterate] in It. inversion It; subst. rewrite Erp. exact HR0.
    + rewrite Erp, B3; [exact HR0|]. cbn [length]. rewrite <- Eeff. exact E.
Qed.

(* the structure of a returning call of randomize_graph_partial_und *)
Lemma run_partial_unfold n A B maxswap s0 res :
  run_partial_und n A B maxswap s0 = Done res ->
  exists st0 k stf s2,
    init_state ELtriu1 n A = (st0, k) /\
    ((0 < k)%nat \/ maxswap = O) /\
    until_swaps (mkvar true (mask_guard B)) k (length s0) maxswap st0 s0 [] = Some (stf, s2, r_trace res) /\
    r_out res = sR stf.
Proof.
  intros H. unfold run_partial_und in H.
  destruct (init_state ELtriu1 n A) as [st0 k] eqn:Ei.
  destruct (Nat.eqb k 0 && negb (Nat.eqb maxswap 0))%bool eqn:Ek; [discriminate|].
  destruct (until_swaps _ k (length s0) maxswap st0 s0 []) as [[[stf s2] tr]|] eqn:It; [|discriminate].
  inversion H; subst res; clear H. cbn [r_out r_trace]. exists st0, k, stf, s2. repeat split; auto.
  apply andb_false_iff in Ek. destruct Ek as [Ek|Ek].
  - apply Nat.eqb_neq in Ek. left. lia.
  - apply negb_false_iff, Nat.eqb_eq in Ek. right. exact Ek.
Qed.

Theorem run_partial_good n A B maxswap s0 res :
  run_partial_und n A B maxswap s0 = Done res ->
  (forall x y, A x y = A y x) ->
  exists k st,
    r_out res = sR st /\ Good true n k A st /\ GoodTrace true n k A (r_trace res) /\
    (maxswap = O -> r_out res = A).
Proof.
  intros H Hs.
  destruct (run_partial_unfold _ _ _ _ _ _ H) as (st0 & k & stf & s2 & Ei & Ek & It & Eo).
  assert (Es: st0 = fst (init_state ELtriu1 n A) /\ k = snd (init_state ELtriu1 n A)) by (rewrite Ei; auto).
  destruct Es as [Es Ekk].
  assert (HI0: Inv true n k st0).
  { rewrite Es, Ekk. apply (init_inv ELtriu1 n A). intros _. exact Hs. }
  assert (HR0: sR st0 = A) by (rewrite Es; reflexivity).
  assert (HG0: Good true n k A st0) by (split; [exact HI0|rewrite HR0; apply Same_refl]).
  exists k, stf. split; [exact Eo|].
  destruct Ek as [Ek|Ek].
  - destruct (until_swaps_spec (mkvar true (mask_guard B)) n k A _ _ _ _ _ _ _ _ Ek HG0 (Forall_nil _) It) as (B1 & B2 & B3).
    split; [exact B1|]. split; [exact B2|]. intros E. rewrite Eo, (B3 E). exact HR0.
  - subst maxswap. assert (It': Some (st0, s0, @nil event) = Some (stf, s2, r_trace res)).
    { rewrite <- It. destruct (length s0); reflexivity. }
    injection It' as E1 E2 E3. subst stf. rewrite <- E3.
    split; [exact HG0|]. split; [apply Forall_nil|]. intros _. rewrite Eo. exact HR0.
Qed.

(* ---------- permutations as lists; re-indexing sums ---------- *)
Lemma index_of_In x l d : In x l -> nth (index_of x l) l d = x /\ (index_of x l < length l)%nat.
Proof.
  induction l as [|y r IH]; intros H; [contradiction|]. cbn [index_of].
  destruct (Nat.eqb_spec x y) as [->|Hne]; cbn [nth length]; [split; [reflexivity|lia]|].
  destruct H as [H|H]; [congruence|]. destruct (IH H) as [A B]. split; [exact A|lia].
Qed.
Lemma index_of_nth l z d : NoDup l -> (z < length l)%nat -> index_of (nth z l d) l = z.
Proof.
  revert z. induction l as [|y r IH]; intros z Hnd Hz; cbn [length] in Hz; [lia|].
  inversion Hnd as [|? ? Hy Hr]; subst. destruct z as [|z]; cbn [nth index_of].
  - rewrite Nat.eqb_refl. reflexivity.
  - destruct (Nat.eqb_spec (nth z r d) y) as [E|E].
    + exfalso. apply Hy. rewrite <- E. apply nth_In. lia.
    + f_equal. apply IH; auto. lia.
Qed.

Fixpoint lsum (l : list Z) : Z := match l with [] => 0 | x :: r => x + lsum r end.
Lemma lsum_app l1 l2 : lsum (l1 ++ l2) = lsum l1 + lsum l2.
Proof. induction l1 as [|x l1 IH]; cbn [app lsum]; [lia|]. rewrite IH. lia. Qed.
Lemma lsum_perm l l' : Permutation l l' -> lsum l = lsum l'.
Proof. induction 1; cbn [lsum] in *; lia. Qed.
Lemma sumn_lsum f n : sumn f n = lsum (map f (seq 0 n)).
Proof. induction n as [|k IH]; [reflexivity|]. rewrite seq_S, map_app, lsum_app. cbn [sumn Nat.add map lsum]. rewrite IH. lia. Qed.
Lemma map_nth_seq (p : list nat) : map (fun y => nth y p O) (seq 0 (length p)) = p.
Proof.
  apply (nth_ext _ _ O O).
  - rewrite map_length, seq_length. reflexivity.
  - intros i Hi. rewrite map_length, seq_length in Hi.
    rewrite (nth_map_seq (fun y => nth y p O) O (length p) i Hi). reflexivity.
Qed.

Section Perm.
Variables (n : nat) (p : list nat).
Hypothesis Hp : Permutation p (seq 0 n).
Lemma perm_len : length p = n.
Proof. rewrite (Permutation_length Hp). apply seq_length. Qed.
Lemma perm_NoDup : NoDup p.
Proof. apply (Permutation_NoDup (Permutation_sym Hp)). apply seq_NoDup. Qed.
Lemma perm_In x : In x p <-> (x < n)%nat.
Proof. split.
  - intros H. apply (Permutation_in _ Hp) in H. apply in_seq in H. lia.
  - intros H. apply (Permutation_in _ (Permutation_sym Hp)). apply in_seq. lia. Qed.
Lemma perm_nth_lt z : (z < n)%nat -> (nth z p O < n)%nat.
Proof. intros Hz. apply perm_In. apply nth_In. rewrite perm_len. exact Hz. Qed.
Lemma perm_index_lt x : (x < n)%nat -> (index_of x p < n)%nat.
Proof. intros Hx. rewrite <- perm_len. apply (index_of_In x p O). apply perm_In. exact Hx. Qed.
Lemma perm_nth_index x : (x < n)%nat -> nth (index_of x p) p O = x.
Proof. intros Hx. apply (index_of_In x p O). apply perm_In. exact Hx. Qed.
Lemma perm_index_nth z : (z < n)%nat -> index_of (nth z p O) p = z.
Proof. intros Hz. apply index_of_nth; [apply perm_NoDup|rewrite perm_len; exact Hz]. Qed.

Lemma sumn_reindex f : sumn (fun y => f (nth y p O)) n = sumn f n.
Proof.
  rewrite !sumn_lsum. rewrite <- (map_map (fun y => nth y p O) f).
  rewrite <- perm_len at 1. rewrite map_nth_seq. apply lsum_perm. apply Permutation_map. exact Hp.
Qed.
Lemma sumn_reindex_inv f : sumn (fun y => f (index_of y p)) n = sumn f n.
Proof.
  rewrite <- (sumn_reindex (fun y => f (index_of y p))).
  apply sumn_ext. intros z Hz. rewrite perm_index_nth; auto.
Qed.

(* conjugating a matrix by the permutation and back: degrees and entry counts follow the renumbering *)
Variables (R0 Rf : mat Z).
Let R1 := tab 0 n n (conj_perm (of_list O p) R0).
Let out : mat Z := fun x y => Rf (index_of x p) (index_of y p).

Lemma latt_reindex x y : (x < n)%nat -> (y < n)%nat -> out (nth x p O) (nth y p O) = Rf x y.
Proof. intros Hx Hy. unfold out. rewrite !perm_index_nth; auto. Qed.

Lemma R1_spec x y : (x < n)%nat -> (y < n)%nat -> R1 x y = R0 (nth x p O) (nth y p O).
Proof. intros Hx Hy. unfold R1. rewrite tab_spec; auto. Qed.

Lemma latt_outdeg : (forall x, outdeg n Rf x = outdeg n R1 x) -> forall x, (x < n)%nat -> outdeg n out x = outdeg n R0 x.
Proof.
  intros HS x Hx. unfold outdeg, out.
  rewrite (sumn_reindex_inv (fun y' => nz (Rf (index_of x p) y'))).
  change (outdeg n Rf (index_of x p) = sumn (fun y => nz (R0 x y)) n). rewrite HS. unfold outdeg.
  rewrite <- (sumn_reindex (fun y => nz (R0 x y))).
  apply sumn_ext. intros y Hy. rewrite R1_spec; auto using perm_index_lt. rewrite perm_nth_index; auto.
Qed.
Lemma latt_indeg : (forall y, indeg n Rf y = indeg n R1 y) -> forall y, (y < n)%nat -> indeg n out y = indeg n R0 y.
Proof.
  intros HS y Hy. unfold indeg, out.
  rewrite (sumn_reindex_inv (fun x' => nz (Rf x' (index_of y p)))).
  change (indeg n Rf (index_of y p) = sumn (fun x => nz (R0 x y)) n). rewrite HS. unfold indeg.
  rewrite <- (sumn_reindex (fun x => nz (R0 x y))).
  apply sumn_ext. intros x Hx. rewrite R1_spec; auto using perm_index_lt. rewrite perm_nth_index; auto.
Qed.
Lemma latt_wcount : (forall w, wcount n Rf w = wcount n R1 w) -> forall w, wcount n out w = wcount n R0 w.
Proof.
  intros HS w. unfold wcount, sum2, out.
  rewrite (sumn_reindex_inv (fun x' => sumn (fun y => b2z (Z.eqb (Rf x' (index_of y p)) w)) n)).
  rewrite (sumn_ext _ (fun x' => sumn (fun y' => b2z (Z.eqb (Rf x' y') w)) n))
    by (intros x' _; apply (sumn_reindex_inv (fun y' => b2z (Z.eqb (Rf x' y') w)))).
  change (wcount n Rf w = wcount n R0 w). rewrite HS. unfold wcount, sum2.
  rewrite <- (sumn_reindex (fun x => sumn (fun y => b2z (Z.eqb (R0 x y) w)) n)).
  apply sumn_ext. intros x Hx.
  rewrite <- (sumn_reindex (fun y => b2z (Z.eqb (R0 (nth x p O) y) w))).
  apply sumn_ext. intros y Hy. rewrite R1_spec; auto.
Qed.
Lemma latt_outstr : (forall x, outstr n Rf x = outstr n R1 x) -> forall x, (x < n)%nat -> outstr n out x = outstr n R0 x.
Proof.
  intros HS x Hx. unfold outstr, out.
  rewrite (sumn_reindex_inv (fun y' => Rf (index_of x p) y')).
  change (outstr n Rf (index_of x p) = sumn (fun y => R0 x y) n). rewrite HS. unfold outstr.
  rewrite <- (sumn_reindex (fun y => R0 x y)).
  apply sumn_ext. intros y Hy. rewrite R1_spec; auto using perm_index_lt. rewrite perm_nth_index; auto.
Qed.
Lemma latt_diag : (forall x, R1 x x = 0 -> Rf x x = 0) -> forall x, (x < n)%nat -> R0 x x = 0 -> out x x = 0.
Proof. intros HS x Hx H0. unfold out. apply HS. rewrite R1_spec; auto using perm_index_lt. rewrite perm_nth_index; auto. Qed.
Lemma latt_sym : (forall x y, Rf x y = Rf y x) -> forall x y, out x y = out y x.
Proof. intros HS x y. unfold out. apply HS. Qed.
Lemma latt_zero : Rf = R1 -> forall x y, (x < n)%nat -> (y < n)%nat -> out x y = R0 x y.
Proof. intros E x y Hx Hy. unfold out. rewrite E. rewrite R1_spec; auto using perm_index_lt. rewrite !perm_nth_index; auto. Qed.
End Perm.

Lemma run_routine_out r n R0 itr D s0 res :
  run_routine r n R0 itr D s0 = Done res ->
  (is_latt r = false -> r_out res = r_rp res) /\
  (is_latt r = true -> (exists s1, s0 = DPerm (r_perm res) :: s1) /\
       r_out res = fun x y => r_rp res (index_of x (r_perm res)) (index_of y (r_perm res))).
Proof.
  intros H.
  destruct (run_routine_unfold _ _ _ _ _ _ _ H) as (s1 & st0 & k & stf & s2 & _ & Es & _ & _ & _ & Erp & Eo & _).
  rewrite Erp, Eo. destruct (is_latt r).
  - split; [discriminate|]. intros _. split; [exists s1; exact Es|reflexivity].
  - split; [reflexivity|discriminate].
Qed.

(* ---------- the returned matrix, in the caller's node numbering ---------- *)
Theorem run_routine_caller r n R0 itr D s0 res :
  run_routine r n R0 itr D s0 = Done res ->
  (is_und r = true -> forall x y, R0 x y = R0 y x) ->
  (is_latt r = true -> Permutation (r_perm res) (seq 0 n)) ->
  (forall x, (x < n)%nat -> outdeg n (r_out res) x = outdeg n R0 x) /\
  (forall y, (y < n)%nat -> indeg n (r_out res) y = indeg n R0 y) /\
  (forall w, wcount n (r_out res) w = wcount n R0 w) /\
  (forall x, (x < n)%nat -> R0 x x = 0 -> r_out res x x = 0) /\
  (is_und r = true -> forall x y, r_out res x y = r_out res y x) /\
  (is_und r = false -> forall x, (x < n)%nat -> outstr n (r_out res) x = outstr n R0 x) /\
  ((itr = O \/ r_eff res = O) -> forall x y, (x < n)%nat -> (y < n)%nat -> r_out res x y = R0 x y) /\
  (is_latt r = true -> forall x y, (x < n)%nat -> (y < n)%nat ->
      r_out res (nth x (r_perm res) O) (nth y (r_perm res) O) = r_rp res x y).
Proof.
  intros H Hpre Hperm.
  destruct (run_routine_good _ _ _ _ _ _ _ H Hpre) as (k & st & Erp & [HI HS] & _ & _ & Hzero).
  destruct (run_routine_out _ _ _ _ _ _ _ H) as [Hout0 Hout1].
  destruct HS as [S1 S2 S3 S4 S5]. unfold pre_matrix in *.
  destruct (is_latt r) eqn:L.
  - destruct (Hout1 eq_refl) as [_ Eout]. specialize (Hperm eq_refl). rewrite Eout, Erp.
    split; [intros x Hx; apply latt_outdeg; auto|].
    split; [intros y Hy; apply latt_indeg; auto|].
    split; [intros w; apply latt_wcount; auto|].
    split; [intros x Hx H0; apply (latt_diag n (r_perm res) Hperm R0 (sR st)); auto|].
    split; [intros U x y; apply (inv_sym _ _ _ _ HI U)|].
    split; [intros U x Hx; apply latt_outstr; auto|].
    split; [intros E x y Hx Hy; apply (latt_zero n (r_perm res) Hperm R0 (sR st)); auto; rewrite <- Erp; apply Hzero; exact E|].
    intros _ x y Hx Hy. apply (latt_reindex n (r_perm res) Hperm (sR st)); auto.
  - rewrite (Hout0 eq_refl), Erp.
    split; [intros x _; apply S1|]. split; [intros y _; apply S2|]. split; [exact S3|].
    split; [intros x _; apply S4|].
    split; [intros U x y; apply (inv_sym _ _ _ _ HI U)|].
    split; [intros U x _; apply (S5 U)|].
    split; [intros E x y _ _; rewrite <- Erp, (Hzero E); reflexivity|discriminate].
Qed.
