(* Proofs/Generators.v — makerandCIJ_dir, makerandCIJ_und, maketoeplitzCIJ, makefractalCIJ, makeevenCIJ *)
From Coq Require Import ZArith QArith List Arith Bool Lia Permutation.
From BCT Require Import Base.Mat Base.ListX Model.Generators Proofs.GeneratorsBase.
Import ListNotations.
Open Scope Z_scope.

Lemma sumn_const c n : sumn (fun _ => c) n = c * Z.of_nat n.
Proof. induction n; cbn [sumn]; [lia|]. rewrite IHn. lia. Qed.

Lemma sum2_const c n : sum2 (fun _ _ => c) n = c * Z.of_nat n * Z.of_nat n.
Proof. unfold sum2. rewrite (sumn_ext _ (fun _ => c * Z.of_nat n)); [|intros; apply sumn_const]. rewrite sumn_const. lia. Qed.

Lemma sum2_eye n : sum2 eye n = Z.of_nat n.
Proof.
  unfold sum2, eye. rewrite (sumn_ext _ (fun _ => 1)); [rewrite sumn_const; lia|].
  intros i Hi. rewrite (sumn_ext _ (fun j => if Nat.eqb j i then 1 else 0)); [apply sumn_single; exact Hi|].
  intros j _. rewrite Nat.eqb_sym. reflexivity.
Qed.

Lemma sum2_sub f g n : sum2 (fun i j => f i j - g i j) n = sum2 f n - sum2 g n.
Proof.
  rewrite (sum2_ext _ (fun i j => f i j + (-1) * g i j) n) by (intros; lia).
  rewrite sum2_add, sum2_scal. lia.
Qed.

(* ---------------- the admissible cells ---------------- *)
Lemma offdiag_length n : Z.of_nat (length (offdiag n)) = Z.of_nat n * Z.of_nat n - Z.of_nat n.
Proof.
  unfold offdiag. rewrite <- sum2_filter. cbn [fst snd].
  rewrite (sum2_ext _ (fun i j => 1 - eye i j) n).
  - rewrite sum2_sub, sum2_const, sum2_eye. lia.
  - intros i j _ _. unfold eye. destruct (Nat.eqb i j); reflexivity.
Qed.

Lemma offdiag_length_nat n : length (offdiag n) = (n * n - n)%nat.
Proof. pose proof (offdiag_length n). nia. Qed.

Lemma upper_length n : 2 * Z.of_nat (length (upper n)) = Z.of_nat n * Z.of_nat n - Z.of_nat n.
Proof.
  rewrite <- offdiag_length. unfold upper, offdiag. rewrite <- !sum2_filter. cbn [fst snd].
  rewrite (sum2_ext (fun i j => b2z (negb (Nat.eqb i j))) (fun i j => b2z (Nat.ltb i j) + b2z (Nat.ltb j i)) n).
  - rewrite sum2_add. rewrite (sum2_transpose (fun i j => b2z (Nat.ltb i j)) n). lia.
  - intros i j _ _. destruct (Nat.eqb_spec i j); destruct (Nat.ltb_spec i j); destruct (Nat.ltb_spec j i); cbn [negb b2z]; lia.
Qed.

Lemma offdiag_In n i j : In (i, j) (offdiag n) <-> (i < n)%nat /\ (j < n)%nat /\ i <> j.
Proof.
  unfold offdiag. rewrite filter_cells_In. cbn [fst snd].
  destruct (Nat.eqb_spec i j); cbn [negb]; intuition congruence.
Qed.

Lemma upper_In n i j : In (i, j) (upper n) <-> (i < n)%nat /\ (j < n)%nat /\ (i < j)%nat.
Proof.
  unfold upper. rewrite filter_cells_In. cbn [fst snd].
  destruct (Nat.ltb_spec i j); intuition (try lia; try congruence).
Qed.

(* ---------------- makerandCIJ_dir ---------------- *)
Theorem makerand_dir_count n k rp :
  Permutation rp (seq 0 (length (offdiag n))) ->
  let C := makerand_dir n k rp in
  (forall i j, C i j = 0 \/ C i j = 1) /\
  (forall i, C i i = 0) /\
  sum2 C n = Z.of_nat (Nat.min k (n * n - n)) /\
  ((k <= n * n - n)%nat -> sum2 C n = Z.of_nat k).
Proof.
  intros Hrp C. unfold C, makerand_dir.
  assert (Hnd : NoDup (offdiag n)) by apply filter_cells_NoDup.
  assert (Hsum : sum2 (set_cells zeros (pick (offdiag n) rp k) 1) n = Z.of_nat (Nat.min k (n * n - n))).
  { rewrite (sum2_set_cells zeros _ 0 1 n).
    - rewrite sum2_zero. rewrite (pick_length _ _ k Hrp), offdiag_length_nat. lia.
    - apply pick_NoDup; assumption.
    - intros c Hc. apply (pick_incl _ _ k Hrp) in Hc. apply (filter_cells_grid _ n c Hc).
    - intros; reflexivity. }
  split; [|split; [|split]].
  - intros i j. destruct (set_cells_cases zeros (pick (offdiag n) rp k) 1 i j) as [H|H]; rewrite H; auto.
  - intros i. apply set_cells_out. intros Hin. apply (pick_incl _ _ k Hrp) in Hin.
    apply offdiag_In in Hin. lia.
  - exact Hsum.
  - intros Hk. rewrite Hsum. rewrite Nat.min_l by exact Hk. reflexivity.
Qed.

(* ---------------- makerandCIJ_und ---------------- *)
Theorem makerand_und_sym_count n k rp :
  Permutation rp (seq 0 (length (upper n))) ->
  let C := makerand_und n k rp in
  (forall i j, C i j = C j i) /\
  (forall i j, C i j = 0 \/ C i j = 1) /\
  (forall i, C i i = 0) /\
  sum2 C n = 2 * Z.of_nat (Nat.min k (length (upper n))) /\
  sum2 (fun i j => if Nat.ltb i j then C i j else 0) n = Z.of_nat (Nat.min k (length (upper n))) /\
  ((2 * k <= n * n - n)%nat -> sum2 C n = 2 * Z.of_nat k).
Proof.
  intros Hrp C. unfold C, makerand_und.
  set (L := pick (upper n) rp k). set (U := set_cells zeros L 1).
  assert (Hnd : NoDup (upper n)) by apply filter_cells_NoDup.
  assert (HL : forall i j, In (i, j) L -> (i < n)%nat /\ (j < n)%nat /\ (i < j)%nat).
  { intros i j Hin. apply (pick_incl _ _ k Hrp) in Hin. apply upper_In in Hin. exact Hin. }
  assert (HU : sum2 U n = Z.of_nat (Nat.min k (length (upper n)))).
  { unfold U. rewrite (sum2_set_cells zeros L 0 1 n).
    - rewrite sum2_zero. unfold L. rewrite (pick_length _ _ k Hrp). lia.
    - apply pick_NoDup; assumption.
    - intros [i j] Hc. cbn [fst snd]. destruct (HL i j Hc) as (?&?&?). split; assumption.
    - intros; reflexivity. }
  assert (Hlow : forall i j, (j <= i)%nat -> U i j = 0).
  { intros i j Hji. unfold U. apply set_cells_out. intros Hin. apply HL in Hin. lia. }
  assert (H01 : forall i j, U i j = 0 \/ U i j = 1).
  { intros i j. unfold U. destruct (set_cells_cases zeros L 1 i j) as [H|H]; rewrite H; auto. }
  assert (Hsum : sum2 (fun i j => U i j + U j i) n = 2 * Z.of_nat (Nat.min k (length (upper n)))).
  { rewrite sum2_add. rewrite (sum2_transpose U n). lia. }
  split; [|split; [|split; [|split; [|split]]]].
  - intros i j. lia.
  - intros i j. destruct (Nat.le_gt_cases j i) as [Hji|Hij].
    + rewrite (Hlow i j Hji). destruct (H01 j i); lia.
    + rewrite (Hlow j i) by lia. destruct (H01 i j); lia.
  - intros i. rewrite (Hlow i i) by lia. reflexivity.
  - exact Hsum.
  - rewrite <- HU. apply sum2_ext. intros i j _ _. destruct (Nat.ltb_spec i j).
    + rewrite (Hlow j i) by lia. lia.
    + symmetry. apply Hlow. exact H.
  - intros Hk. rewrite Hsum. pose proof (upper_length n). rewrite Nat.min_l by nia. reflexivity.
Qed.

(* ---------------- maketoeplitzCIJ ---------------- *)
Lemma qlt_spec a b : qlt a b = true <-> (a < b)%Q.
Proof.
  unfold qlt. rewrite negb_true_iff. split.
  - intros H. apply Qnot_le_lt. intros Hle. apply Qle_bool_iff in Hle. congruence.
  - intros H. destruct (Qle_bool b a) eqn:E; [|reflexivity]. apply Qle_bool_iff in E.
    exfalso. apply (Qlt_not_le _ _ H E).
Qed.

Lemma sample_lt_spec n X T i j : (i < n)%nat -> (j < n)%nat ->
  sample_lt n X T i j = if qlt (X i j) (T i j) then 1 else 0.
Proof. intros Hi Hj. unfold sample_lt. apply tab_spec; assumption. Qed.

Definition nonneg_sample (X : mat Q) : Prop := forall i j, (0 <= X i j)%Q.

Lemma toeplitz_loop_spec n k template stream : forall CIJ itr R,
  (forall i, (template i i <= 0)%Q) -> Forall nonneg_sample stream ->
  (forall i j, (i < n)%nat -> (j < n)%nat -> (CIJ i j = 0 \/ CIJ i j = 1) /\ (i = j -> CIJ i j = 0)) ->
  toeplitz_loop n k template CIJ itr stream = Some R ->
  sum2 R n = k /\
  (forall i j, (i < n)%nat -> (j < n)%nat -> (R i j = 0 \/ R i j = 1) /\ (i = j -> R i j = 0)).
Proof.
  induction stream as [|X rest IH]; intros CIJ itr R Hd Hs Hinv Hrun; cbn [toeplitz_loop] in Hrun.
  - destruct (Z.eqb_spec (sum2 CIJ n) k); [|discriminate]. inversion Hrun; subst. split; [reflexivity|exact Hinv].
  - destruct (Z.eqb_spec (sum2 CIJ n) k).
    + inversion Hrun; subst. split; [reflexivity|exact Hinv].
    + destruct (10000 <? itr + 1); [discriminate|].
      inversion Hs as [|? ? HX Hrest]; subst.
      apply (IH _ _ _ Hd Hrest) in Hrun; [exact Hrun|].
      intros i j Hi Hj. rewrite sample_lt_spec by assumption. split.
      * destruct (qlt (X i j) (template i j)); auto.
      * intros ->. destruct (qlt (X j j) (template j j)) eqn:E; [|reflexivity].
        apply qlt_spec in E. exfalso. specialize (HX j j). specialize (Hd j).
        apply (Qlt_not_le _ _ E). apply (Qle_trans _ 0); assumption.
Qed.

Theorem toeplitz_exact_K n k template stream R :
  (forall i, (template i i <= 0)%Q) -> Forall nonneg_sample stream ->
  toeplitz n k template stream = Some R ->
  sum2 R n = Z.of_nat k /\
  (forall i j, (i < n)%nat -> (j < n)%nat -> R i j = 0 \/ R i j = 1) /\
  (forall i, (i < n)%nat -> R i i = 0).
Proof.
  intros Hd Hs Hrun. unfold toeplitz in Hrun.
  apply (toeplitz_loop_spec n _ template stream zeros 0 R Hd Hs) in Hrun.
  - destruct Hrun as [H1 H2]. split; [exact H1|]. split.
    + intros i j Hi Hj. apply (H2 i j Hi Hj).
    + intros i Hi. apply (H2 i i Hi Hi). reflexivity.
  - intros i j _ _. split; [left; reflexivity|intros _; reflexivity].
Qed.

(* ---------------- hierarchical template ---------------- *)
Lemma pow2_pos l : (0 < 2 ^ l)%nat.
Proof. induction l; cbn [Nat.pow]; lia. Qed.

Lemma pow2_half l : (2 ^ S l / 2 = 2 ^ l)%nat.
Proof. cbn [Nat.pow]. rewrite Nat.mul_comm. apply Nat.div_mul. lia. Qed.

Lemma tloop_S l i j : (i < 2 ^ S (S l))%nat -> (j < 2 ^ S (S l))%nat ->
  tloop (S l) i j = tstep (tloop l) (2 ^ S (S l)) i j.
Proof. intros Hi Hj. cbn [tloop]. apply tab_spec; assumption. Qed.

Lemma tloop_diag l : forall i, (i < 2 ^ S l)%nat -> tloop l i i = Z.of_nat l + 2.
Proof.
  induction l; intros i Hi; [reflexivity|].
  rewrite tloop_S by assumption. unfold tstep. rewrite pow2_half.
  destruct (Nat.ltb_spec i (2 ^ S l)); cbn [andb].
  - rewrite IHl by assumption. lia.
  - destruct (Nat.leb_spec (2 ^ S l) i); [|lia]. cbn [andb].
    rewrite IHl; [lia|]. change (2 ^ S (S l))%nat with (2 * 2 ^ S l)%nat in Hi. lia.
Qed.

Lemma template_diag mx i : (1 <= mx)%nat -> (i < 2 ^ mx)%nat -> template mx i i = 0.
Proof.
  intros Hmx Hi. unfold template, eye. rewrite Nat.eqb_refl.
  destruct mx; [lia|]. replace (S mx - 1)%nat with mx by lia.
  rewrite tloop_diag by exact Hi. lia.
Qed.

(* ---------------- makefractalCIJ ---------------- *)
Theorem fractal_count mx pw sz X C k :
  fractal mx pw sz X = Some (C, k) ->
  let n := (2 ^ mx)%nat in
  k = sum2 C n /\
  (forall i j, (i < n)%nat -> (j < n)%nat -> C i j = 0 \/ C i j = 1) /\
  (nonneg_sample X -> forall i, (i < n)%nat -> C i i = 0) /\
  ((pw O == 1)%Q -> (forall i j, (X i j < 1)%Q) ->
     forall i j, (i < n)%nat -> (j < n)%nat -> i <> j -> fractal_ee mx sz i j = 0 -> C i j = 1).
Proof.
  unfold fractal. destruct (Nat.ltb mx 2); [discriminate|]. intros H. inversion H; subst; clear H.
  split; [reflexivity|]. split; [|split].
  - intros i j Hi Hj. rewrite sample_lt_spec by assumption. destruct (qlt _ _); auto.
  - intros HX i Hi. rewrite sample_lt_spec by assumption. rewrite Nat.eqb_refl.
    destruct (qlt _ _) eqn:E; [|reflexivity]. apply qlt_spec in E. exfalso.
    apply (Qlt_not_le _ _ E). rewrite Qmult_0_r. apply HX.
  - intros Hpw HX i j Hi Hj Hij Hee. rewrite sample_lt_spec by assumption.
    rewrite Hee. cbn [Z.to_nat]. destruct (Nat.eqb_spec i j); [contradiction|].
    destruct (qlt _ _) eqn:E; [reflexivity|]. exfalso.
    assert (Hlt : (X i j < pw O * 1)%Q) by (rewrite Hpw; apply HX).
    apply qlt_spec in Hlt. congruence.
Qed.

(* ---------------- makeevenCIJ ---------------- *)
Section Even.
Variables (n k : nat) (sz : Z) (rp : list nat).
Let mx := Nat.log2 n.
Let n' := (2 ^ mx)%nat.
Let CIJp := tab 0 n' n' (even_clusters mx sz).
Let nc := sum2 CIJp n'.
Let free := filter (fun c : cell => Z.eqb (CIJp (fst c) (snd c) + eye (fst c) (snd c)) 0) (cells n').

Lemma even_CIJp_01 i j : (i < n')%nat -> (j < n')%nat -> CIJp i j = 0 \/ CIJp i j = 1.
Proof.
  intros Hi Hj. unfold CIJp. rewrite tab_spec by assumption. unfold even_clusters.
  destruct (_ <=? _); auto.
Qed.

Lemma even_CIJp_diag i : (1 <= mx)%nat -> sz <= Z.of_nat mx -> (i < n')%nat -> CIJp i i = 0.
Proof.
  intros Hmx Hsz Hi. unfold CIJp. rewrite tab_spec by assumption. unfold even_clusters.
  rewrite template_diag by assumption. destruct (Z.leb_spec (Z.of_nat mx - (sz - 1)) 0); [lia|reflexivity].
Qed.

Lemma even_free_length : (1 <= mx)%nat -> sz <= Z.of_nat mx ->
  Z.of_nat (length free) = Z.of_nat n' * Z.of_nat n' - Z.of_nat n' - nc.
Proof.
  intros Hmx Hsz. unfold free. rewrite <- sum2_filter. cbn [fst snd].
  rewrite (sum2_ext _ (fun i j => 1 - eye i j - CIJp i j) n').
  - rewrite !sum2_sub, sum2_const, sum2_eye. unfold nc. lia.
  - intros i j Hi Hj. unfold eye. destruct (Nat.eqb_spec i j).
    + subst. rewrite even_CIJp_diag by assumption. reflexivity.
    + destruct (even_CIJp_01 i j Hi Hj) as [H|H]; rewrite H; reflexivity.
Qed.

Theorem even_spec R :
  even n k sz rp = Some R ->
  (2 <= mx)%nat /\
  (* K below the cluster cells: the clusters only *)
  (Z.of_nat k < nc -> forall i j, R i j = CIJp i j) /\
  (* always: 0/1, clusters full *)
  (forall i j, (i < n')%nat -> (j < n')%nat -> (R i j = 0 \/ R i j = 1) /\ (CIJp i j = 1 -> R i j = 1)) /\
  (sz <= Z.of_nat mx -> (Z.of_nat k < nc \/ Permutation rp (seq 0 (length free))) ->
   forall i, (i < n')%nat -> R i i = 0) /\
  (* exactly K when cluster cells <= K <= N^2-N *)
  (sz <= Z.of_nat mx -> nc <= Z.of_nat k -> Z.of_nat k <= Z.of_nat n' * Z.of_nat n' - Z.of_nat n' ->
   Permutation rp (seq 0 (length free)) -> sum2 R n' = Z.of_nat k).
Proof.
  unfold even. fold mx. destruct (Nat.ltb_spec mx 2) as [|Hmx]; [discriminate|]. fold n'. fold CIJp. fold nc. fold free.
  assert (Hfree : forall i j, In (i, j) free -> (i < n')%nat /\ (j < n')%nat /\ CIJp i j = 0 /\ i <> j).
  { intros i j Hin. unfold free in Hin. apply filter_cells_In in Hin. cbn [fst snd] in Hin.
    destruct Hin as (Hi & Hj & Hz). apply Z.eqb_eq in Hz. unfold eye in Hz.
    destruct (even_CIJp_01 i j Hi Hj) as [H|H]; rewrite H in Hz; destruct (Nat.eqb_spec i j); lia. }
  destruct (Z.ltb_spec (Z.of_nat k) nc) as [Hlt|Hge]; intros H.
  - assert (HR : R = CIJp) by (inversion H; reflexivity). clear H. subst R.
    split; [exact Hmx|]. split; [intros; reflexivity|]. split; [|split].
    + intros i j Hi Hj. split; [apply even_CIJp_01; assumption|auto].
    + intros Hsz _ i Hi. apply even_CIJp_diag; try assumption; lia.
    + intros; lia.
  - set (L := pick free rp (Z.to_nat (Z.of_nat k - nc))).
    assert (HR : R = set_cells CIJp L 1) by (inversion H; reflexivity). clear H. subst R.
    split; [exact Hmx|]. split; [intros; lia|]. split; [|split].
    + intros i j Hi Hj. split.
      * destruct (set_cells_cases CIJp L 1 i j) as [E|E]; rewrite E; [auto|apply even_CIJp_01; assumption].
      * intros Hc. destruct (set_cells_cases CIJp L 1 i j) as [E|E]; rewrite E; auto.
    + intros Hsz [Hlt|Hrp] i Hi; [lia|]. rewrite set_cells_out; [apply even_CIJp_diag; try assumption; lia|].
      intros Hin. apply (pick_incl _ _ _ Hrp) in Hin. apply Hfree in Hin. lia.
    + intros Hsz Hge' Hle Hrp.
      assert (HLnd : NoDup L) by (apply pick_NoDup; [apply filter_cells_NoDup|exact Hrp]).
      rewrite (sum2_set_cells CIJp L 0 1 n').
      * unfold L. rewrite (pick_length _ _ _ Hrp). fold nc.
        pose proof (even_free_length ltac:(lia) Hsz). lia.
      * exact HLnd.
      * intros [i j] Hc. apply (pick_incl _ _ _ Hrp) in Hc. cbn [fst snd]. apply Hfree in Hc. lia.
      * intros [i j] Hc. apply (pick_incl _ _ _ Hrp) in Hc. cbn [fst snd]. apply Hfree in Hc. tauto.
Qed.
End Even.
