(* Proofs/DistanceOther.v — soundness halves for distance_wei (Dijkstra as written), breadthdist, the
   reachdist flag; mean identities for charpath / efficiency_* / rout_efficiency. *)
From Coq Require Import QArith List Arith Bool ZArith Lia Lqa.
From BCT Require Import Base.Mat Base.ListX Model.Distance Proofs.DistanceBase Proofs.DistanceBin Proofs.DistanceFloyd.
Import ListNotations.
Open Scope Q_scope.

Lemma all_some_nth {T} (f : nat -> option T) n rows d :
  all_some (map f (seq 0 n)) = Some rows -> forall i, (i < n)%nat -> f i = Some (nth i rows d).
Proof.
  assert (G : forall a m rows, all_some (map f (seq a m)) = Some rows ->
              forall i, (i < m)%nat -> f (a + i)%nat = Some (nth i rows d)).
  { intros a m. revert a. induction m as [|m IH]; intros a rs H i Hi; [lia|].
    cbn [seq map all_some] in H. destruct (f a) as [x|] eqn:Ea; [|discriminate].
    destruct (all_some (map f (seq (S a) m))) as [r'|] eqn:Er; [|discriminate].
    injection H as <-. destruct i as [|i]; cbn [nth].
    - rewrite Nat.add_0_r. exact Ea.
    - replace (a + S i)%nat with (S a + i)%nat by lia. apply IH; [exact Er|lia]. }
  intros H i Hi. apply (G 0%nat n rows H i Hi).
Qed.

(* ====================== distance_wei ====================== *)
(* the length matrix distance_wei works on: nonzero entries of G are connection lengths *)
Definition Lg (G : mat Q) : mat len := fun i j => if Qeq_bool (G i j) 0 then None else Some (G i j).

Section Dijkstra.
Variable n : nat.
Variable G : mat Q.
Variable u : nat.
Hypothesis Hu : (u < n)%nat.

(* every finite D[u,w] is the length of a real walk u -> w with exactly B[u,w] edges *)
Definition rowinv (DB : vec len * vec nat) : Prop :=
  fst DB u = Some 0 /\ snd DB u = 0%nat /\
  forall w x, (w < n)%nat -> fst DB w = Some x ->
    (w = u /\ x == 0 /\ snd DB w = 0%nat) \/
    (exists mid, below n mid /\ S (length mid) = snd DB w /\ oeq (wl (Lg G) u mid w) (Some x)).

Lemma relax_inv S DB v : rowinv DB -> S u = false -> (v < n)%nat -> rowinv (dw_relax n G S DB v).
Proof.
  intros [D0 [B0 Hw]] HS Hv. unfold dw_relax. cbv zeta. unfold rowinv. cbn [fst snd].
  split; [|split].
  - rewrite tabv_spec by exact Hu. rewrite HS. cbn [andb]. exact D0.
  - rewrite tabv_spec by exact Hu. rewrite HS. cbn [andb]. exact B0.
  - intros w x Hwn. rewrite !tabv_spec by exact Hwn.
    destruct (S w && negb (Qeq_bool (G v w) 0) && oltb (oadd (fst DB v) (Some (G v w))) (fst DB w))%bool eqn:Eb.
    + apply andb_true_iff in Eb. destruct Eb as [Eb _]. apply andb_true_iff in Eb. destruct Eb as [_ Eg].
      apply negb_true_iff in Eg.
      destruct (fst DB v) as [dv|] eqn:Edv; [|discriminate]. cbn [oadd]. intros H. injection H as <-.
      right. destruct (Hw v dv Hv Edv) as [[-> [E0 Bv]]|[mid [Bm [Hl Wm]]]].
      * exists []. split; [apply below_nil|]. split; [cbn [length]; lia|].
        cbn [wl]. unfold Lg. rewrite Eg. cbn. lra.
      * exists (mid ++ [v]). split; [apply below_app; split; [exact Bm|apply below_cons; split; [exact Hv|apply below_nil]]|].
        split; [rewrite app_length; cbn [length]; lia|].
        eapply oeq_trans; [apply wl_snoc_oeq|]. unfold Lg at 2. rewrite Eg.
        destruct (wl (Lg G) u mid v) as [y|]; cbn in *; [lra|contradiction].
    + intros H. exact (Hw w x Hwn H).
Qed.

Lemma relax_fold S V : forall DB, rowinv DB -> S u = false -> Forall (fun v => (v < n)%nat) V ->
  rowinv (fold_left (dw_relax n G S) V DB).
Proof.
  induction V as [|v r IH]; intros DB HI HS HV; cbn [fold_left]; [exact HI|].
  inversion HV; subst. apply IH; [apply relax_inv; assumption|exact HS|assumption].
Qed.

Lemma dw_loop_inv fuel : forall S DB V R, rowinv DB -> (S u = false \/ In u V) ->
  Forall (fun v => (v < n)%nat) V -> dw_loop fuel n G S DB V = Some R -> rowinv R.
Proof.
  induction fuel as [|f IH]; intros S DB V R HI HS HV Hrun; [discriminate|].
  cbn [dw_loop] in Hrun.
  set (S1 := tabv false n (fun w => (S w && negb (nmem w V))%bool)) in *.
  assert (HS1 : S1 u = false).
  { unfold S1. rewrite tabv_spec by exact Hu. destruct HS as [->|Hin]; [reflexivity|].
    apply nmem_In in Hin. rewrite Hin. apply andb_false_r. }
  pose proof (relax_fold S1 V DB HI HS1 HV) as HI1.
  set (DB1 := fold_left (dw_relax n G S1) V DB) in *.
  destruct (filter S1 (seq 0 n)) as [|t ts]; [injection Hrun as <-; exact HI1|].
  destruct (fold_left omin (map (fst DB1) (t :: ts)) None) as [m|]; [|injection Hrun as <-; exact HI1].
  refine (IH S1 DB1 _ R HI1 (or_introl HS1) _ Hrun).
  apply Forall_forall. intros x Hx. apply filter_In in Hx. destruct Hx as [Hx _]. apply in_seq in Hx. lia.
Qed.

Lemma dw_row_inv R : dw_row n G u = Some R -> rowinv R.
Proof.
  unfold dw_row. apply dw_loop_inv.
  - split; [apply vupd_same|]. split; [reflexivity|]. intros w x Hw. cbn [fst snd].
    unfold vupd. destruct (Nat.eqb_spec w u); [|discriminate]. intros H. injection H as <-.
    left. split; [assumption|]. split; [reflexivity|reflexivity].
  - right. left. reflexivity.
  - constructor; [exact Hu|constructor].
Qed.
End Dijkstra.

(* full statement (NOT proved here; see distance_wei_partial): *)
Definition distance_wei_full_statement : Prop :=
  forall n G D B, positive n (Lg G) -> distance_wei n G = Some (D, B) ->
    dist_correct n (Lg G) D /\
    forall i j x, (i < n)%nat -> (j < n)%nat -> i <> j -> D i j = Some x ->
      exists mid, below n mid /\ S (length mid) = B i j /\ oeq (wl (Lg G) i mid j) (Some x).

(* soundness half: every finite entry is the length of a real walk with exactly B[i,j] edges;
   missing for the full statement: minimality, and "unreachable iff infinite" (completeness of the scan) *)
Theorem distance_wei_partial n G D B : distance_wei n G = Some (D, B) ->
  forall i j x, (i < n)%nat -> (j < n)%nat -> i <> j -> D i j = Some x ->
    exists mid, below n mid /\ S (length mid) = B i j /\ oeq (wl (Lg G) i mid j) (Some x).
Proof.
  unfold distance_wei. destruct (all_some (map (dw_row n G) (seq 0 n))) as [rows|] eqn:Er; [|discriminate].
  intros H. injection H as <- <-. intros i j x Hi Hj Hne HD.
  pose proof (all_some_nth (dw_row n G) n rows (fun _ => None, fun _ => 0%nat) Er i Hi) as Hrow.
  destruct (dw_row_inv n G i Hi _ Hrow) as [_ [_ Hw]].
  destruct (Hw j x Hj HD) as [[E _]|H]; [congruence|exact H].
Qed.

Theorem distance_wei_diag_zero n G D B : distance_wei n G = Some (D, B) ->
  forall i, (i < n)%nat -> D i i = Some 0 /\ B i i = 0%nat.
Proof.
  unfold distance_wei. destruct (all_some (map (dw_row n G) (seq 0 n))) as [rows|] eqn:Er; [|discriminate].
  intros H. injection H as <- <-. intros i Hi.
  pose proof (all_some_nth (dw_row n G) n rows (fun _ => None, fun _ => 0%nat) Er i Hi) as Hrow.
  destruct (dw_row_inv n G i Hi _ Hrow) as [D0 [B0 _]]. auto.
Qed.

(* ====================== breadth / breadthdist ====================== *)
Section BFS.
Variable n : nat.
Variable C : mat Z.
Variable s : nat.
Hypothesis Hs : (s < n)%nat.

(* every recorded distance d is the number of edges of a real walk s -> v (d = 0 only at the source) *)
Definition bdinv (d : vec (option nat)) : Prop :=
  forall v k, (v < n)%nat -> d v = Some k -> (k = 0%nat /\ v = s) \/ hasw n C k s v.

Lemma bdinv_upd d v du1 : bdinv d -> (forall k, du1 = Some k -> hasw n C k s v) -> bdinv (vupd d v du1).
Proof.
  intros HI Hd w k Hw. unfold vupd. destruct (Nat.eqb_spec w v) as [->|Hne]; [|apply HI; exact Hw].
  intros H. right. apply Hd. exact H.
Qed.

Definition bsinv (st : bstate) : Prop := bdinv (bdist st) /\ Forall (fun v => (v < n)%nat) (que st).

Lemma bvisit_inv du1 st v : bsinv st -> (v < n)%nat -> (forall k, du1 = Some k -> hasw n C k s v) ->
  bsinv (bvisit du1 st v).
Proof.
  intros [HD HQ] Hv Hd. unfold bvisit.
  set (d1 := if is0 (bdist st v) then vupd (bdist st) v du1 else bdist st).
  assert (H1 : bdinv d1) by (unfold d1; destruct (is0 (bdist st v)); [apply bdinv_upd; assumption|exact HD]).
  destruct (Nat.eqb (color st v) 0); split; cbn [bdist que].
  - apply bdinv_upd; assumption.
  - apply Forall_app. split; [exact HQ|constructor; [exact Hv|constructor]].
  - exact H1.
  - exact HQ.
Qed.

Lemma bvisit_fold du1 ns : forall st, bsinv st ->
  Forall (fun v => (v < n)%nat /\ forall k, du1 = Some k -> hasw n C k s v) ns -> bsinv (fold_left (bvisit du1) ns st).
Proof.
  induction ns as [|v r IH]; intros st HI Hns; cbn [fold_left]; [exact HI|].
  inversion Hns as [|? ? [Hv Hd] Hr]; subst. apply IH; [apply bvisit_inv; assumption|exact Hr].
Qed.

Lemma nbrs_spec u0 : Forall (fun v => (v < n)%nat /\ C u0 v <> 0%Z) (nbrs n C u0).
Proof.
  apply Forall_forall. intros v Hv. unfold nbrs in Hv. apply filter_In in Hv. destruct Hv as [Hv Hz].
  apply in_seq in Hv. split; [lia|]. unfold znz in Hz. apply negb_true_iff in Hz. apply Z.eqb_neq in Hz. exact Hz.
Qed.

Lemma breadth_loop_inv fuel : forall st R, bsinv st -> breadth_loop fuel n C st = Some R -> bsinv R.
Proof.
  induction fuel as [|f IH]; intros st R HI Hrun; [discriminate|].
  cbn [breadth_loop] in Hrun. destruct (que st) as [|u0 rest] eqn:Eq; [injection Hrun as <-; exact HI|].
  assert (Hu : (u0 < n)%nat) by (destruct HI as [_ HQ]; rewrite Eq in HQ; inversion HQ; assumption).
  cbv zeta in Hrun.
  assert (Hns : Forall (fun v => (v < n)%nat /\ forall k, option_map S (bdist st u0) = Some k -> hasw n C k s v)
                       (nbrs n C u0)).
  { eapply Forall_impl; [|apply nbrs_spec]. cbn beta. intros v [Hv He]. split; [exact Hv|]. intros k Hk.
    destruct (bdist st u0) as [du|] eqn:Eu; [|discriminate]. cbn [option_map] in Hk. injection Hk as <-.
    assert (E1 : hasw n C 1 u0 v) by (exists []; split; [reflexivity|]; split; [apply below_nil|exact He]).
    destruct HI as [HD _]. destruct (HD u0 du Hu Eu) as [[-> ->]|W]; [exact E1|].
    replace (S du) with (du + 1)%nat by lia. apply (hasw_cat n C du 1 s u0 v Hu W E1). }
  pose proof (bvisit_fold _ (nbrs n C u0) st HI Hns) as [H1 H2].
  refine (IH _ R _ Hrun). split; cbn [bdist que]; [exact H1|].
  destruct (que (fold_left (bvisit (option_map S (bdist st u0))) (nbrs n C u0) st)); [constructor|]. inversion H2; assumption.
Qed.

Lemma breadth_inv d : breadth n C s = Some d -> bdinv d.
Proof.
  unfold breadth.
  destruct (breadth_loop (n + 2) n C _) as [st|] eqn:Erun; [|discriminate]. intros H. injection H as <-.
  apply breadth_loop_inv in Erun.
  - destruct Erun as [HD _]. intros v k Hv. rewrite tabv_spec by exact Hv. apply HD. exact Hv.
  - split; cbn [bdist que].
    + intros v k Hv. unfold vupd. destruct (Nat.eqb_spec v s); [|discriminate].
      intros H. injection H as <-. left. auto.
    + constructor; [exact Hs|constructor].
Qed.
End BFS.

Definition breadthdist_full_statement : Prop :=
  forall n C R D, breadthdist n C = Some (R, D) ->
    dist_correct n (Lbin C) (fun i j => olen_of_nat (D i j)).

(* soundness half: a finite distance d is the edge count of a real walk (d >= 1).
   missing: minimality and completeness (queue-order argument), tested only *)
Theorem breadthdist_partial n C R D : breadthdist n C = Some (R, D) ->
  forall i j d, (i < n)%nat -> (j < n)%nat -> D i j = Some d -> (1 <= d)%nat /\ hasw n C d i j.
Proof.
  unfold breadthdist. destruct (all_some (map (breadth n C) (seq 0 n))) as [rows|] eqn:Er; [|discriminate].
  intros H. injection H as _ <-. intros i j d Hi Hj.
  pose proof (all_some_nth (breadth n C) n rows (fun _ => None) Er i Hi) as Hrow.
  pose proof (breadth_inv n C i Hi _ Hrow) as HI. cbv beta zeta.
  destruct (nth i rows (fun _ => None) j) as [k|] eqn:Ek; cbn [is0].
  - destruct k as [|k]; [discriminate|]. intros H. injection H as <-.
    destruct (HI j (S k) Hj Ek) as [[E _]|W]; [lia|]. split; [lia|exact W].
  - discriminate.
Qed.

(* the reachability flag is true exactly when the returned distance is finite *)
Theorem breadthdist_reach_flag n C R D : breadthdist n C = Some (R, D) ->
  forall i j, R i j = true <-> D i j <> None.
Proof.
  unfold breadthdist. destruct (all_some (map (breadth n C) (seq 0 n))) as [rows|]; [|discriminate].
  intros H. injection H as <- <-. intros i j. cbv beta zeta.
  destruct (let x := nth i rows (fun _ => None) j in if is0 x then None else x); cbn [isfin]; split; congruence.
Qed.

(* ====================== reachdist: the flag ====================== *)
Lemma reachdist2_flag n C (HC : forall i j, (i < n)%nat -> (j < n)%nat -> (0 <= C i j)%Z) fuel :
  forall CP R D powr row col R' D' p' q, (1 <= q)%nat -> pow_ok n C q CP ->
  (forall i j, (i < n)%nat -> (j < n)%nat -> R i j = true -> exists e, hasw n C e i j) ->
  reachdist2 fuel n C CP R D powr row col = Some (R', D', p') ->
  forall i j, (i < n)%nat -> (j < n)%nat -> R' i j = true -> exists e, hasw n C e i j.
Proof.
  induction fuel as [|f IH]; intros CP R D powr row col R' D' p' q Hq HP HR Hrun; [discriminate|].
  cbn [reachdist2] in Hrun.
  pose proof (pow_ok_clip n C _ _ (pow_ok_S n C HC q CP Hq HP)) as HP'.
  set (CP' := tab 0%Z n n (fun i j => b2z (znz (tab 0%Z n n (matmul n CP C) i j)))) in *.
  set (R1 := tab false n n (fun i j => (R i j || znz (CP' i j))%bool)) in *.
  assert (HR1 : forall i j, (i < n)%nat -> (j < n)%nat -> R1 i j = true -> exists e, hasw n C e i j).
  { intros i j Hi Hj. unfold R1. rewrite tab_spec by assumption. intros H. apply orb_true_iff in H.
    destruct H as [H|H]; [apply HR; assumption|].
    unfold znz in H. apply negb_true_iff in H. apply Z.eqb_neq in H.
    exists (S q). apply (HP' i j Hi Hj). exact H. }
  destruct (_ && _)%bool.
  - apply (IH _ _ _ _ _ _ R' D' p' (S q) ltac:(lia) HP' HR1 Hrun).
  - injection Hrun as <- _ _. exact HR1.
Qed.

(* soundness of the reachdist flag: R[i,j] true only if a walk exists.  The distance output of
   reachdist (powr - D + 1 bookkeeping) is only TESTED against the oracle and the other routines. *)
Theorem reachdist_flag_partial n A R D : reachdist n A = Some (R, D) ->
  forall i j, (i < n)%nat -> (j < n)%nat -> R i j = true -> reachable n (Lbin A) i j.
Proof.
  unfold reachdist. set (C := tab 0%Z n n (bin A)).
  destruct (reachdist2 _ n C C _ C 2 _ _) as [[[R' D'] p']|] eqn:Erun; [|discriminate].
  intros H. injection H as <- _.
  assert (HC : forall i j, (i < n)%nat -> (j < n)%nat -> (0 <= C i j)%Z).
  { intros i j Hi Hj. unfold C. rewrite tab_spec by assumption. unfold bin. destruct (A i j =? 0)%Z; lia. }
  assert (HCA : forall i j, (i < n)%nat -> (j < n)%nat -> (C i j <> 0%Z <-> A i j <> 0%Z)).
  { intros i j Hi Hj. unfold C. rewrite tab_spec by assumption. unfold bin.
    destruct (Z.eqb_spec (A i j) 0); split; intros; try lia; try congruence. }
  intros i j Hi Hj HR.
  assert (H0 : forall i j, (i < n)%nat -> (j < n)%nat -> znz (C i j) = true -> exists e, hasw n C e i j).
  { intros a b Ha Hb Hz. exists 1%nat. apply (pow_ok_1 n C HC a b Ha Hb).
    unfold znz in Hz. apply negb_true_iff in Hz. apply Z.eqb_neq in Hz. exact Hz. }
  destruct (reachdist2_flag n C HC _ _ _ _ _ _ _ R' D' p' 1%nat (le_n 1) (pow_ok_1 n C HC) H0 Erun i j Hi Hj HR)
    as [e [mid [_ [B W]]]].
  exists mid. split; [exact B|]. apply (bw_ext n C A HCA mid i j Hi Hj B) in W.
  pose proof (wl_bin A mid i j) as W'. destruct (wl (Lbin A) i mid j); [discriminate|contradiction].
Qed.

(* ====================== means ====================== *)
Definition meanQ (l : list Q) : Q := qsum l / nq (length l).

Lemma offdiag_spec n i j : In (i, j) (offdiag n) <-> (i < n)%nat /\ (j < n)%nat /\ i <> j.
Proof.
  unfold offdiag. rewrite filter_In, cells_In. cbn [fst snd].
  rewrite negb_true_iff, Nat.eqb_neq. tauto.
Qed.
Lemma offdiag_NoDup n : NoDup (offdiag n).
Proof. unfold offdiag. apply NoDup_filter. apply cells_NoDup. Qed.

Lemma filter_row_length i n : forall a,
  length (filter (fun j => negb (Nat.eqb i j)) (seq a n)) =
  (if (Nat.leb a i && Nat.ltb i (a + n))%bool then n - 1 else n)%nat.
Proof.
  induction n as [|n IH]; intros a; cbn [seq filter].
  - destruct (_ && _)%bool; reflexivity.
  - destruct (Nat.eqb_spec i a) as [->|Hne]; cbn [negb length].
    + rewrite IH. destruct (Nat.leb_spec (S a) a); [lia|]. cbn [andb].
      destruct (Nat.leb_spec a a); [|lia]. destruct (Nat.ltb_spec a (a + S n)); [|lia]. cbn [andb]. lia.
    + rewrite IH.
      destruct (Nat.leb_spec (S a) i), (Nat.leb_spec a i), (Nat.ltb_spec i (S a + n)), (Nat.ltb_spec i (a + S n));
        cbn [andb]; try lia.
Qed.

Lemma offdiag_length n : length (offdiag n) = (n * n - n)%nat.
Proof.
  unfold offdiag, cells.
  assert (G : forall l, (forall i, In i l -> (i < n)%nat) ->
    length (filter (fun c : nat * nat => negb (Nat.eqb (fst c) (snd c)))
              (flat_map (fun i => map (fun j => (i, j)) (seq 0 n)) l)) = (length l * (n - 1))%nat).
  { induction l as [|i l IH]; intros Hl; [reflexivity|].
    cbn [flat_map]. rewrite filter_app, app_length. rewrite IH by (intros; apply Hl; right; assumption).
    assert (E : length (filter (fun c : nat * nat => negb (Nat.eqb (fst c) (snd c))) (map (fun j => (i, j)) (seq 0 n)))
                = length (filter (fun j => negb (Nat.eqb i j)) (seq 0 n))).
    { generalize (seq 0 n). induction l0 as [|x r IHr]; [reflexivity|]. cbn [map filter fst snd].
      destruct (negb (Nat.eqb i x)); cbn [length]; rewrite IHr; reflexivity. }
    rewrite E, filter_row_length. assert (Hi : (i < n)%nat) by (apply Hl; left; reflexivity).
    destruct (Nat.leb_spec 0 i); [|lia]. destruct (Nat.ltb_spec i (0 + n)); [|lia]. cbn [andb length]. lia. }
  rewrite G by (intros i Hi; apply in_seq in Hi; lia). rewrite seq_length.
  destruct n; [reflexivity|]. cbn [Nat.sub]. nia.
Qed.

(* charpath(D) with the default flags: mean and mean inverse over the ordered pairs of distinct nodes *)
Lemma charpath_default n D :
  charpath n D false true =
  let Dv := map (fun c => D (fst c) (snd c)) (offdiag n) in
  match Dv with
  | [] => (ENaN, ENaN)
  | _ => (if forallb isfin Dv then EFin (qsum (map (fun a => match a with Some x => x | None => 0 end) Dv) / nq (length Dv)) else EInf,
          if existsb (fun a => oeqb a (Some 0)) Dv then EInf else EFin (qsum (map oinv Dv) / nq (length Dv)))
  end.
Proof.
  unfold charpath, offdiag. cbn [orb andb].
  rewrite (filter_ext (fun c : nat * nat => (negb (Nat.eqb (fst c) (snd c)) && true)%bool)
                      (fun c => negb (Nat.eqb (fst c) (snd c)))) by (intros; apply andb_true_r).
  reflexivity.
Qed.

Theorem charpath_mean n D : (2 <= n)%nat ->
  (forall i j, (i < n)%nat -> (j < n)%nat -> i <> j -> D i j <> None) ->
  fst (charpath n D false true) =
  EFin (meanQ (map (fun c => match D (fst c) (snd c) with Some x => x | None => 0 end) (offdiag n))).
Proof.
  intros Hn Hfin. rewrite charpath_default. cbv zeta.
  assert (Hlen : length (offdiag n) <> 0%nat) by (rewrite offdiag_length; nia).
  match goal with |- context[match ?l with [] => _ | _ :: _ => _ end] => destruct l as [|a r] eqn:E end.
  { apply (f_equal (@length _)) in E. rewrite map_length in E. cbn in E. congruence. }
  rewrite <- E. cbn [fst].
  match goal with |- context[forallb isfin ?l] => assert (Hall : forallb isfin l = true) end.
  { apply forallb_forall. intros x Hx. apply in_map_iff in Hx. destruct Hx as [[i j] [<- Hin]].
    apply offdiag_spec in Hin. destruct Hin as [Hi [Hj Hne]]. cbn [fst snd].
    specialize (Hfin i j Hi Hj Hne). destruct (D i j); [reflexivity|congruence]. }
  rewrite Hall. unfold meanQ. rewrite map_map, !map_length. reflexivity.
Qed.

Theorem charpath_mean_inverse n D : (2 <= n)%nat ->
  (forall i j x, (i < n)%nat -> (j < n)%nat -> i <> j -> D i j = Some x -> ~ x == 0) ->
  snd (charpath n D false true) = EFin (meanQ (map (fun c => oinv (D (fst c) (snd c))) (offdiag n))).
Proof.
  intros Hn Hpos. rewrite charpath_default. cbv zeta.
  assert (Hlen : length (offdiag n) <> 0%nat) by (rewrite offdiag_length; nia).
  match goal with |- context[match ?l with [] => _ | _ :: _ => _ end] => destruct l as [|a r] eqn:E end.
  { apply (f_equal (@length _)) in E. rewrite map_length in E. cbn in E. congruence. }
  rewrite <- E. cbn [snd].
  match goal with |- context[existsb ?f ?l] => assert (Hex : existsb f l = false) end.
  { destruct (existsb _ _) eqn:Eb; [|reflexivity]. exfalso.
    apply existsb_exists in Eb. destruct Eb as [x [Hx Hz]]. apply in_map_iff in Hx. destruct Hx as [[i j] [<- Hin]].
    apply offdiag_spec in Hin. destruct Hin as [Hi [Hj Hne]]. cbn [fst snd] in Hz.
    destruct (D i j) as [y|] eqn:Ey; cbn [oeqb] in Hz; [|discriminate].
    apply Qeq_bool_iff in Hz. exact (Hpos i j y Hi Hj Hne Ey Hz). }
  rewrite Hex. unfold meanQ. rewrite map_map, !map_length. reflexivity.
Qed.

(* sum(1/D off the diagonal)/(n*n-n) is the mean inverse over ordered pairs of distinct nodes *)
Lemma mean_inv_spec n D : (2 <= n)%nat ->
  mean_inv n D = EFin (meanQ (map (fun c => oinv (D (fst c) (snd c))) (offdiag n))).
Proof.
  intros Hn. unfold mean_inv, meanQ. rewrite map_length, offdiag_length.
  destruct (Nat.eqb_spec (n * n - n) 0); [nia|reflexivity].
Qed.

Theorem efficiency_bin_mean_inverse n A e : (2 <= n)%nat -> efficiency_bin n A = Some e ->
  exists D, distance_bin n A = Some D /\ dist_correct n (Lbin A) (fun i j => olen_of_nat (D i j)) /\
    e = EFin (meanQ (map (fun c => oinv (olen_of_nat (D (fst c) (snd c)))) (offdiag n))).
Proof.
  intros Hn. unfold efficiency_bin. destruct (distance_bin n A) as [D|] eqn:ED; [|discriminate].
  intros H. injection H as <-. exists D. split; [reflexivity|]. split; [apply distance_bin_correct; exact ED|].
  apply mean_inv_spec. exact Hn.
Qed.

Theorem efficiency_wei_mean_inverse n W e : (2 <= n)%nat -> efficiency_wei n W = Some e ->
  exists D B, distance_wei n (invertQ W) = Some (D, B) /\
    e = EFin (meanQ (map (fun c => oinv (D (fst c) (snd c))) (offdiag n))).
Proof.
  intros Hn. unfold efficiency_wei. destruct (distance_wei n (invertQ W)) as [[D B]|] eqn:ED; [|discriminate].
  intros H. injection H as <-. exists D, B. split; [reflexivity|]. apply mean_inv_spec. exact Hn.
Qed.

Theorem rout_efficiency_mean_inverse nlog n A tr : (2 <= n)%nat ->
  let S := spl (distance_wei_floyd nlog n A tr) in
  fst (rout_efficiency nlog n A tr) = EFin (meanQ (map (fun c => oinv (S (fst c) (snd c))) (offdiag n))) /\
  (forall i j, i <> j -> snd (rout_efficiency nlog n A tr) i j = oinv (S i j)) /\
  (forall i, snd (rout_efficiency nlog n A tr) i i = 0).
Proof.
  intros Hn S. unfold rout_efficiency. cbn [fst snd]. split; [apply mean_inv_spec; exact Hn|]. split.
  - intros i j Hne. destruct (Nat.eqb_spec i j); [contradiction|reflexivity].
  - intros i. rewrite Nat.eqb_refl. reflexivity.
Qed.

(* ====================== transforms; agreement of routines ====================== *)
Section Transforms.
Variable nlog : Q -> Q.                                   (* x |-> -log x, abstract *)
Hypothesis Hlog : forall w, 0 < w -> w <= 1 -> 0 <= nlog w.

Theorem floyd_transforms n A tr :
  (forall i j, (i < n)%nat -> (j < n)%nat -> 0 <= A i j) ->
  (tr = TLog -> forall i j, (i < n)%nat -> (j < n)%nat -> A i j <= 1) ->
  dist_correct n (lengths nlog tr A) (spl (distance_wei_floyd nlog n A tr)) /\
  (forall i j, lengths nlog tr A i j = None <-> A i j == 0).
Proof.
  intros HA H1. split; [|intros; apply lengths_support].
  unfold distance_wei_floyd. apply floyd_correct. apply lengths_nonneg; [exact HA|].
  intros Etr i j Hi Hj Hne. apply Hlog; [|apply H1; assumption].
  specialize (HA i j Hi Hj). destruct (Qlt_le_dec 0 (A i j)); [assumption|exfalso; apply Hne; lra].
Qed.
End Transforms.

Lemma Lbin_nonneg n A : nonneg n (Lbin A).
Proof. intros i j x _ _. unfold Lbin. destruct (A i j =? 0)%Z; [discriminate|]. intros H. injection H as <-. lra. Qed.

(* Floyd–Warshall on the 0/1 lengths and distance_bin return the same distances *)
Theorem agree_floyd_bin n A D : distance_bin n A = Some D ->
  forall i j, (i < n)%nat -> (j < n)%nat -> i <> j ->
    oeq (spl (floyd n (Lbin A)) i j) (olen_of_nat (D i j)).
Proof.
  intros H i j Hi Hj Hne.
  apply (is_min_dist_unique n (Lbin A) i j).
  - apply (floyd_correct n (Lbin A) (Lbin_nonneg n A)); assumption.
  - apply (distance_bin_correct n A D H); assumption.
Qed.

(* any routine that is dist_correct agrees with Floyd–Warshall (used for the partial ones as the target) *)
Theorem agree_any n L D : nonneg n L -> dist_correct n L D ->
  forall i j, (i < n)%nat -> (j < n)%nat -> i <> j -> oeq (spl (floyd n L) i j) (D i j).
Proof.
  intros Hnn HD i j Hi Hj Hne. apply (is_min_dist_unique n L i j).
  - apply (floyd_correct n L Hnn); assumption.
  - apply HD; assumption.
Qed.

Lemma of_rows_nonneg rows : Forall (Forall (fun x => 0 <= x)) rows -> forall i j, 0 <= of_rows 0 rows i j.
Proof.
  intros H i j. unfold of_rows.
  assert (Hr : Forall (fun x => 0 <= x) (nth i rows [])).
  { destruct (nth_in_or_default i rows []) as [Hin|E]; [|rewrite E; constructor].
    rewrite Forall_forall in H. apply H. exact Hin. }
  destruct (nth_in_or_default j (nth i rows []) 0) as [Hin|E]; [|rewrite E; lra].
  rewrite Forall_forall in Hr. apply Hr. exact Hin.
Qed.
