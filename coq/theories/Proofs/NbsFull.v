(* Proofs/NbsFull.v — nbs_bct, statements on the call as a whole (Model/NbsApi.v):
   Part E: when the call raises, and which exception; totality of the symmetric calls.
   Part F: the p-values stated on the returned triple (adj, pvals, null) alone.
   Part G: every null value is the NBS statistic (largest number of suprathreshold connections in
           one component) of the subject stacks relabelled by the recorded draw. *)
From Coq Require Import QArith Qabs List Arith Bool ZArith Lia Lqa Permutation Morphisms.
From BCT Require Import Base.Mat Base.ListX Model.Components Proofs.Components Model.Nbs Model.NbsApi Proofs.Nbs.
Import ListNotations.
Local Open Scope nat_scope.

(* ====================================================================== Part E *)
Lemma edge_big_label n mask a sz u v :
  get_components n (adj_of (selected n mask)) = Some (a, sz) -> u < n -> v < n ->
  adj_of (selected n mask) u v <> 0%Z ->
  nth u a 0 = nth v a 0 /\ In (nth u a 0) (big_labels sz).
Proof.
  intros Egc Hu Hv Hnz.
  destruct (components_iff_path n _ a sz Egc) as [Hlen Hiff].
  destruct (adj_of_one _ u v (selected_upper n mask) Hnz) as [H1 Hne].
  assert (Hsame : nth u a 0 = nth v a 0).
  { apply Hiff; [exact Hu|exact Hv|]. apply (path_step n _ u v v Hu Hv Hnz). apply path_refl. }
  split; [exact Hsame|].
  assert (Hl : 1 <= nth u a 0 <= length sz).
  { apply (labels_1_to_m n _ a sz Egc). exists u. split; [exact Hu|reflexivity]. }
  apply big_labels_In. split; [exact Hl|].
  rewrite (sizes_are_counts n _ a sz Egc _ Hl).
  destruct (Nat.lt_ge_cases u v) as [Hlt|Hge].
  - apply (count_label_two _ a u v); [exact Hlt|rewrite Hlen; exact Hv|reflexivity|symmetry; exact Hsame].
  - apply (count_label_two _ a v u); [lia|rewrite Hlen; exact Hu|symmetry; exact Hsame|reflexivity].
Qed.

(* a suprathreshold connection always yields a component with more than one node:
   'True matrix is degenerate' cannot be raised *)
Lemma observed_some n mask : selected n mask <> [] -> exists szl adj, observed n mask = Some (szl, adj).
Proof.
  intros Hne. destruct (observed n mask) as [[szl adj]|] eqn:Eo; [eauto|]. exfalso.
  unfold observed in Eo. set (sel := selected n mask) in *.
  destruct sel as [|c0 sel0] eqn:Esel; [congruence|]. rewrite <- Esel in *.
  destruct (gc_adj_some n sel) as (a & sz & Egc). rewrite Egc in Eo.
  destruct (label_loop a 0 (big_labels sz) (adj_of sel)) as [szl adj'] eqn:Ell.
  pose proof (label_loop_szl a _ 0 _ _ _ (big_labels_NoDup sz) Ell) as Hszl.
  assert (Hin : In c0 sel) by (rewrite Esel; left; reflexivity).
  destruct c0 as [i j]. pose proof (selected_incl _ _ _ Hin) as Ht. apply triu_cells_In in Ht.
  assert (Hnz : adj_of sel i j <> 0%Z) by (apply adj_of_nz; left; exact Hin).
  destruct (edge_big_label n mask a sz i j Egc ltac:(lia) ltac:(lia) Hnz) as [_ Hbig].
  destruct (big_labels sz) as [|l0 r0]; [contradiction|].
  cbn [map] in Hszl. rewrite Hszl in Eo. discriminate.
Qed.

Lemma observed_none_iff n mask : observed n mask = None <-> selected n mask = [].
Proof.
  split.
  - intros H. destruct (selected n mask) eqn:E; [reflexivity|]. exfalso.
    destruct (observed_some n mask) as (szl & adj & Ho); [rewrite E; discriminate|congruence].
  - intros H. unfold observed. rewrite H. reflexivity.
Qed.

Lemma perm_max_some n mask : exists v, perm_max n mask = Some v.
Proof. unfold perm_max. destruct (gc_adj_some n (selected n mask)) as (a & sz & E). rewrite E. eauto. Qed.

Lemma shuffled_none_iff paired nx ny d xmat ymat :
  shuffled paired nx ny d xmat ymat = None <-> draw_ok paired d = false.
Proof. destruct paired, d; cbn [shuffled draw_ok]; split; intros H; try reflexivity; discriminate. Qed.

Lemma null_loop_none_iff n paired tl thr nx ny xmat ymat draws :
  null_loop n paired tl thr nx ny xmat ymat draws = None <-> exists d, In d draws /\ draw_ok paired d = false.
Proof.
  induction draws as [|d r IH]; cbn [null_loop].
  - split; [discriminate|intros (d & [] & _)].
  - destruct (shuffled paired nx ny d xmat ymat) as [[xp yp]|] eqn:Es.
    + assert (Hd : draw_ok paired d = true).
      { destruct (draw_ok paired d) eqn:Ed; [reflexivity|]. apply (proj2 (shuffled_none_iff paired nx ny d xmat ymat)) in Ed. congruence. }
      destruct (perm_max_some n (tmask paired tl thr xp yp)) as [v Ev]. rewrite Ev.
      destruct (null_loop n paired tl thr nx ny xmat ymat r) as [rest|] eqn:Er.
      * split; [discriminate|]. intros (d0 & [<-|Hin] & Hk); [congruence|].
        assert (Hn : (None : option (list Q)) = None) by reflexivity.
        destruct IH as [_ IH]. specialize (IH (ex_intro _ d0 (conj Hin Hk))). discriminate.
      * split; [|reflexivity]. intros _. destruct IH as [IH _]. destruct (IH eq_refl) as (d0 & Hin & Hk).
        exists d0. split; [right; exact Hin|exact Hk].
    + split; [|reflexivity]. intros _. exists d. split; [left; reflexivity|]. apply (proj1 (shuffled_none_iff paired nx ny d xmat ymat)). exact Es.
Qed.

(* no connection is suprathreshold / some connection is *)
Definition no_supra (n : nat) (paired : bool) (tl : tail) (thr : Q) (xs ys : list (mat Q)) : Prop :=
  forall u v, u < n -> v < n -> ~ supra_conn n paired tl thr xs ys u v.
Definition has_supra (n : nat) (paired : bool) (tl : tail) (thr : Q) (xs ys : list (mat Q)) : Prop :=
  exists u v, u < n /\ v < n /\ supra_conn n paired tl thr xs ys u v.
Definition draws_ok (paired : bool) (draws : list draw) : Prop := forall d, In d draws -> draw_ok paired d = true.
Definition bad_draw (paired : bool) (draws : list draw) : Prop := exists d, In d draws /\ draw_ok paired d = false.

Lemma no_has_supra n paired tl thr xs ys : no_supra n paired tl thr xs ys -> has_supra n paired tl thr xs ys -> False.
Proof. intros Hn (u & v & Hu & Hv & Hc). exact (Hn u v Hu Hv Hc). Qed.

Lemma ok_bad_draw paired draws : draws_ok paired draws -> bad_draw paired draws -> False.
Proof. intros Ho (d & Hin & Hk). rewrite (Ho d Hin) in Hk. discriminate. Qed.

Lemma draws_ok_or_bad paired draws : draws_ok paired draws \/ bad_draw paired draws.
Proof.
  induction draws as [|d r IH].
  - left. intros d [].
  - destruct IH as [IH|(d0 & Hin & Hk)]; [|right; exists d0; split; [right; exact Hin|exact Hk]].
    destruct (draw_ok paired d) eqn:Ed.
    + left. intros d0 [<-|Hin]; [exact Ed|apply IH; exact Hin].
    + right. exists d. split; [left; reflexivity|exact Ed].
Qed.

Lemma selected_nil_iff n paired tl thr xs ys :
  selected n (tmask paired tl thr (vectorize n xs) (vectorize n ys)) = [] <-> no_supra n paired tl thr xs ys.
Proof.
  split.
  - intros E u v Hu Hv Hc. apply adj_of_supra in Hc. rewrite E in Hc. apply Hc. reflexivity.
  - intros H. destruct (selected n (tmask paired tl thr (vectorize n xs) (vectorize n ys))) as [|[i j] l] eqn:E; [reflexivity|].
    exfalso. assert (Hin : In (i, j) (selected n (tmask paired tl thr (vectorize n xs) (vectorize n ys)))) by (rewrite E; left; reflexivity).
    pose proof (selected_incl _ _ _ Hin) as Ht. apply triu_cells_In in Ht.
    apply (H i j); [lia|lia|]. apply adj_of_supra. apply adj_of_nz. left. exact Hin.
Qed.

Lemma selected_cons_iff n paired tl thr xs ys :
  selected n (tmask paired tl thr (vectorize n xs) (vectorize n ys)) <> [] <-> has_supra n paired tl thr xs ys.
Proof.
  split.
  - intros Hne. destruct (selected n (tmask paired tl thr (vectorize n xs) (vectorize n ys))) as [|[i j] l] eqn:E; [congruence|].
    assert (Hin : In (i, j) (selected n (tmask paired tl thr (vectorize n xs) (vectorize n ys)))) by (rewrite E; left; reflexivity).
    pose proof (selected_incl _ _ _ Hin) as Ht. apply triu_cells_In in Ht.
    exists i, j. split; [lia|]. split; [lia|]. apply adj_of_supra. apply adj_of_nz. left. exact Hin.
  - intros Hs E. apply selected_nil_iff in E. exact (no_has_supra _ _ _ _ _ _ E Hs).
Qed.

(* exactly when the computation of Model/Nbs.v raises *)
Theorem nbs_none_iff n xs ys thr tl paired draws :
  nbs n xs ys thr tl paired draws = None <->
  (paired = true /\ length xs <> length ys) \/ no_supra n paired tl thr xs ys \/ draws = [] \/ bad_draw paired draws.
Proof.
  unfold nbs. destruct (paired && negb (length xs =? length ys))%bool eqn:Ep.
  - split; [|reflexivity]. intros _. left. apply andb_true_iff in Ep. destruct Ep as [E1 E2].
    apply negb_true_iff, Nat.eqb_neq in E2. tauto.
  - assert (Hp : ~ (paired = true /\ length xs <> length ys)).
    { intros [-> Hl]. apply Nat.eqb_neq in Hl. rewrite Hl in Ep. discriminate. }
    destruct (observed n (tmask paired tl thr (vectorize n xs) (vectorize n ys))) as [[szl adj]|] eqn:Eo.
    + assert (Hs : ~ no_supra n paired tl thr xs ys).
      { intros Hn. apply selected_nil_iff, observed_none_iff in Hn. congruence. }
      destruct (null_loop n paired tl thr (length xs) (length ys) (vectorize n xs) (vectorize n ys) draws) as [null|] eqn:En.
      * assert (Hb : ~ bad_draw paired draws).
        { intros Hb. apply (proj2 (null_loop_none_iff n paired tl thr (length xs) (length ys) (vectorize n xs) (vectorize n ys) draws)) in Hb. rewrite En in Hb. discriminate. }
        destruct draws as [|d r].
        -- split; [|reflexivity]. intros _. right. right. left. reflexivity.
        -- split; [discriminate|]. intros [H|[H|[H|H]]]; [tauto|tauto|discriminate|tauto].
      * split; [|reflexivity]. intros _. right. right. right. apply (proj1 (null_loop_none_iff _ _ _ _ _ _ _ _ _) En).
    + split; [|reflexivity]. intros _. right. left. apply selected_nil_iff, observed_none_iff. exact Eo.
Qed.

(* ... and exactly when it returns *)
Theorem nbs_returns_iff n xs ys thr tl paired draws :
  (exists r, nbs n xs ys thr tl paired draws = Some r) <->
  (paired = false \/ length xs = length ys) /\ has_supra n paired tl thr xs ys /\ draws <> [] /\ draws_ok paired draws.
Proof.
  split.
  - intros [r Hr].
    assert (Hn : ~ nbs n xs ys thr tl paired draws = None) by congruence.
    rewrite nbs_none_iff in Hn. repeat split.
    + destruct paired; [|left; reflexivity]. right. destruct (Nat.eq_dec (length xs) (length ys)); [assumption|tauto].
    + apply selected_cons_iff. intros E. apply selected_nil_iff in E. tauto.
    + intros ->. tauto.
    + destruct (draws_ok_or_bad paired draws); [assumption|tauto].
  - intros (Hp & Hs & Hd & Ho). destruct (nbs n xs ys thr tl paired draws) as [r|] eqn:E; [eauto|]. exfalso.
    apply nbs_none_iff in E. destruct E as [[E1 E2]|[E|[E|E]]].
    + destruct Hp; congruence.
    + exact (no_has_supra _ _ _ _ _ _ E Hs).
    + exact (Hd E).
    + exact (ok_bad_draw _ _ Ho E).
Qed.

(* totality of every call that sees the same suprathreshold mask *)
Lemma nbs_same_mask_total n thr paired xs ys tl draws pv adj null xs' ys' tl' draws' :
  tmask paired tl' thr (vectorize n xs') (vectorize n ys') = tmask paired tl thr (vectorize n xs) (vectorize n ys) ->
  (paired = true -> length xs' = length ys') ->
  nbs n xs ys thr tl paired draws = Some (pv, adj, null) ->
  draws' <> [] -> draws_ok paired draws' ->
  exists pv' null', nbs n xs' ys' thr tl' paired draws' = Some (pv', adj, null') /\ length pv' = length pv.
Proof.
  intros E Hl H Hd Ho.
  assert (Hr : exists r, nbs n xs' ys' thr tl' paired draws' = Some r).
  { apply nbs_returns_iff. split; [destruct paired; [right; apply Hl; reflexivity|left; reflexivity]|].
    split; [|split; assumption].
    apply selected_cons_iff. rewrite E. apply selected_cons_iff.
    apply (proj1 (nbs_returns_iff n xs ys thr tl paired draws)). eauto. }
  destruct Hr as [[[pv' adj'] null'] Hr].
  destruct (nbs_same_observed n thr paired xs ys tl draws pv adj null xs' ys' tl' draws' pv' adj' null' E H Hr) as [-> Hlen].
  exists pv', null'. split; [exact Hr|exact Hlen].
Qed.

Lemma nbs_paired_sizes n xs ys thr tl draws r : nbs n xs ys thr tl true draws = Some r -> length xs = length ys.
Proof.
  intros H. destruct (proj1 (nbs_returns_iff n xs ys thr tl true draws) (ex_intro _ r H)) as ([Hp|Hp] & _); [discriminate|exact Hp].
Qed.

Theorem swap_groups_tail_total n thr paired xs ys tl draws pv adj null draws' :
  nbs n xs ys thr tl paired draws = Some (pv, adj, null) ->
  draws' <> [] -> draws_ok paired draws' ->
  exists pv' null', nbs n ys xs thr (swap_tail tl) paired draws' = Some (pv', adj, null') /\ length pv' = length pv.
Proof.
  intros H. apply (nbs_same_mask_total n thr paired xs ys tl draws pv adj null ys xs (swap_tail tl) draws'); [apply tmask_swap| |exact H].
  intros ->. symmetry. exact (nbs_paired_sizes _ _ _ _ _ _ _ H).
Qed.

Theorem reorder_within_group_total n thr xs ys xs' ys' tl draws pv adj null draws' :
  Permutation xs xs' -> Permutation ys ys' ->
  nbs n xs ys thr tl false draws = Some (pv, adj, null) ->
  draws' <> [] -> draws_ok false draws' ->
  exists pv' null', nbs n xs' ys' thr tl false draws' = Some (pv', adj, null') /\ length pv' = length pv.
Proof.
  intros Hx Hy H. apply (nbs_same_mask_total n thr false xs ys tl draws pv adj null xs' ys' tl draws'); [|discriminate|exact H].
  apply tmask_reorder_unpaired; assumption.
Qed.

Theorem reorder_pairs_total n thr xs ys xs' ys' tl draws pv adj null draws' :
  Permutation (combine xs ys) (combine xs' ys') -> length xs' = length ys' ->
  nbs n xs ys thr tl true draws = Some (pv, adj, null) ->
  draws' <> [] -> draws_ok true draws' ->
  exists pv' null', nbs n xs' ys' thr tl true draws' = Some (pv', adj, null') /\ length pv' = length pv.
Proof.
  intros Hp Hl H. apply (nbs_same_mask_total n thr true xs ys tl draws pv adj null xs' ys' tl draws'); [|intros _; exact Hl|exact H].
  apply tmask_reorder_paired; exact Hp.
Qed.

(* ---- the call as a whole: Model/NbsApi.v ---- *)
Definition shape_ok (ix jx iy jy : nat) : Prop := ix = jx /\ jx = iy /\ iy = jy.

Lemma shape_ok_b ix jx iy jy : ((ix =? jx) && (jx =? iy) && (iy =? jy))%bool = true <-> shape_ok ix jx iy jy.
Proof. unfold shape_ok. rewrite !andb_true_iff, !Nat.eqb_eq. tauto. Qed.

Theorem nbs_full_returns tc ix jx iy jy xs ys thr paired draws r :
  nbs_full tc ix jx iy jy xs ys thr paired draws = inr r <->
  tc <= 2 /\ shape_ok ix jx iy jy /\ nbs ix xs ys thr (tail_of_nat tc) paired draws = Some r.
Proof.
  unfold nbs_full, nbs. destruct (2 <? tc) eqn:E1.
  { apply Nat.ltb_lt in E1. split; [discriminate|intros (H & _); lia]. }
  apply Nat.ltb_ge in E1.
  destruct ((ix =? jx) && (jx =? iy) && (iy =? jy))%bool eqn:E2; cbn [negb].
  2:{ split; [discriminate|]. intros (_ & H & _). apply shape_ok_b in H. congruence. }
  apply shape_ok_b in E2.
  destruct (paired && negb (length xs =? length ys))%bool.
  { split; [discriminate|]. intros (_ & _ & H). discriminate. }
  destruct (selected ix (tmask paired (tail_of_nat tc) thr (vectorize ix xs) (vectorize ix ys))) as [|c0 l0] eqn:Es.
  { apply observed_none_iff in Es. rewrite Es. split; [discriminate|]. intros (_ & _ & H). discriminate. }
  destruct (observed ix (tmask paired (tail_of_nat tc) thr (vectorize ix xs) (vectorize ix ys))) as [[szl adj]|].
  2:{ split; [discriminate|]. intros (_ & _ & H). discriminate. }
  destruct (null_loop ix paired (tail_of_nat tc) thr (length xs) (length ys) (vectorize ix xs) (vectorize ix ys) draws) as [null|].
  2:{ split; [discriminate|]. intros (_ & _ & H). discriminate. }
  destruct draws as [|d0 dr].
  { split; [discriminate|]. intros (_ & _ & H). discriminate. }
  split.
  - intros H. injection H as <-. split; [exact E1|split; [exact E2|reflexivity]].
  - intros (_ & _ & H). injection H as <-. reflexivity.
Qed.

(* which exception, and exactly when *)
Definition raises (e : nbs_exn) (tc ix jx iy jy : nat) (xs ys : list (mat Q)) (thr : Q) (paired : bool)
           (draws : list draw) : Prop :=
  let tl := tail_of_nat tc in
  let checks_pass := tc <= 2 /\ shape_ok ix jx iy jy /\ (paired = false \/ length xs = length ys) in
  match e with
  | ETail => 2 < tc
  | EShape => tc <= 2 /\ ~ shape_ok ix jx iy jy
  | EPairedSize => tc <= 2 /\ shape_ok ix jx iy jy /\ paired = true /\ length xs <> length ys
  | EUnsuitable => checks_pass /\ no_supra ix paired tl thr xs ys
  | EDegenerate => False
  | EDraw => checks_pass /\ has_supra ix paired tl thr xs ys /\ bad_draw paired draws
  | EZeroDiv => checks_pass /\ has_supra ix paired tl thr xs ys /\ draws = []
  end.

Ltac fin :=
  first [ reflexivity | discriminate | lia | tauto | congruence
        | solve [exfalso; intuition (try lia; try congruence; eauto using no_has_supra, ok_bad_draw)]
        | solve [intuition (try lia; try congruence)] ].

Theorem nbs_full_raises tc ix jx iy jy xs ys thr paired draws e :
  nbs_full tc ix jx iy jy xs ys thr paired draws = inl e <-> raises e tc ix jx iy jy xs ys thr paired draws.
Proof.
  unfold nbs_full, raises. cbv zeta. destruct (2 <? tc) eqn:E1.
  { apply Nat.ltb_lt in E1. destruct e; split; intros H; fin. }
  apply Nat.ltb_ge in E1.
  destruct ((ix =? jx) && (jx =? iy) && (iy =? jy))%bool eqn:E2; cbn [negb].
  2:{ assert (E2' : ~ shape_ok ix jx iy jy) by (intros H; apply shape_ok_b in H; congruence).
      destruct e; split; intros H; fin. }
  apply shape_ok_b in E2.
  destruct (paired && negb (length xs =? length ys))%bool eqn:Ep.
  { apply andb_true_iff in Ep. destruct Ep as [Ep1 Ep2]. apply negb_true_iff, Nat.eqb_neq in Ep2.
    destruct e; split; intros H; fin. }
  assert (Hp : paired = false \/ length xs = length ys).
  { destruct paired; [|left; reflexivity]. right. cbn [andb] in Ep. apply negb_false_iff, Nat.eqb_eq in Ep. exact Ep. }
  destruct (selected ix (tmask paired (tail_of_nat tc) thr (vectorize ix xs) (vectorize ix ys))) as [|c0 l0] eqn:Es.
  { apply selected_nil_iff in Es. pose proof (no_has_supra _ _ _ _ _ _ Es) as Hx.
    destruct e; split; intros H; fin. }
  assert (Hs : has_supra ix paired (tail_of_nat tc) thr xs ys) by (apply selected_cons_iff; rewrite Es; discriminate).
  pose proof (fun H => no_has_supra _ _ _ _ _ _ H Hs) as Hx.
  destruct (observed_some ix (tmask paired (tail_of_nat tc) thr (vectorize ix xs) (vectorize ix ys))) as (szl & adj & Eo);
    [rewrite Es; discriminate|]. rewrite Eo.
  destruct (null_loop ix paired (tail_of_nat tc) thr (length xs) (length ys) (vectorize ix xs) (vectorize ix ys) draws) as [null|] eqn:En.
  2:{ apply (proj1 (null_loop_none_iff _ _ _ _ _ _ _ _ _)) in En.
      assert (Hd : draws <> []) by (destruct En as (d & Hin & _); intros ->; exact Hin).
      destruct e; split; intros H; fin. }
  assert (Hb : ~ bad_draw paired draws).
  { intros Hb. apply (proj2 (null_loop_none_iff ix paired (tail_of_nat tc) thr (length xs) (length ys) (vectorize ix xs) (vectorize ix ys) draws)) in Hb.
    rewrite En in Hb. discriminate. }
  destruct draws as [|d0 dr].
  { destruct e; split; intros H; fin. }
  destruct e; split; intros H; fin.
Qed.

(* 'True matrix is degenerate' is dead code *)
Corollary degenerate_unreachable tc ix jx iy jy xs ys thr paired draws :
  nbs_full tc ix jx iy jy xs ys thr paired draws <> inl EDegenerate.
Proof. intros H. apply nbs_full_raises in H. exact H. Qed.

(* ====================================================================== Part F *)
(* the p-values, stated on the returned triple alone: the number of connections of component l
   is the number of upper-triangle cells of the returned adj that carry the label l *)
Definition label_cells (n : nat) (adj : mat Z) (l : nat) : nat :=
  length (filter (fun c => (adj (fst c) (snd c) =? Z.of_nat l)%Z) (triu_cells n)).

Lemma filter_filter2 {A} (f g : A -> bool) l : filter f (filter g l) = filter (fun x => (g x && f x)%bool) l.
Proof.
  induction l as [|x l IH]; cbn [filter]; [reflexivity|].
  destruct (g x); cbn [filter andb]; [destruct (f x)|]; rewrite IH; reflexivity.
Qed.

Lemma links_in_label_cells n paired tl thr xs ys szl adj a sz j :
  observed n (tmask paired tl thr (vectorize n xs) (vectorize n ys)) = Some (szl, adj) ->
  get_components n (supra_adj n paired tl thr xs ys) = Some (a, sz) ->
  j < length (big_labels sz) ->
  links_in n paired tl thr xs ys a (nth j (big_labels sz) 0) = label_cells n adj (j + 1).
Proof.
  intros Hobs Hgc Hj. destruct (observed_spec _ _ _ _ Hobs) as (a' & sz' & Hgc' & _ & Hcells).
  unfold supra_adj in Hgc. rewrite Hgc in Hgc'. injection Hgc' as <- <-.
  unfold links_in, label_cells. rewrite filter_filter2. f_equal. apply filter_ext_in.
  intros [u v] Hc. apply triu_cells_In in Hc. cbn [fst snd].
  destruct (Hcells u v ltac:(lia) ltac:(lia)) as [H0 H1].
  apply bool_eq_iff. rewrite !andb_true_iff, !Nat.eqb_eq, Z.eqb_eq. split.
  - intros [Hs [Hlu Hlv]].
    assert (Hnz : adj_of (selected n (tmask paired tl thr (vectorize n xs) (vectorize n ys))) u v <> 0%Z).
    { apply adj_of_supra. left. split; [lia|]. split; [lia|exact Hs]. }
    destruct (H1 Hnz) as (j' & Hj' & Hnj' & _ & Hval). rewrite Hval.
    assert (E : nth j' (big_labels sz) 0 = nth j (big_labels sz) 0) by congruence.
    apply (proj1 (NoDup_nth (big_labels sz) 0) (big_labels_NoDup sz) j' j Hj' Hj) in E. subst j'. reflexivity.
  - intros Hadj.
    assert (Hnz : adj_of (selected n (tmask paired tl thr (vectorize n xs) (vectorize n ys))) u v <> 0%Z).
    { intros Hz. rewrite (H0 Hz) in Hadj. lia. }
    destruct (H1 Hnz) as (j' & Hj' & Hnj' & Hsame & Hval). rewrite Hval in Hadj.
    assert (j' = j) by lia. subst j'. apply adj_of_supra in Hnz.
    destruct Hnz as [(_ & _ & Hs)|(Hlt & _)]; [|lia].
    split; [exact Hs|]. split; [symmetry; exact Hnj'|rewrite <- Hsame; symmetry; exact Hnj'].
Qed.

Lemma count_ge_comp s s' null : (s == s')%Q -> count_ge s null = count_ge s' null.
Proof.
  intros E. unfold count_ge. f_equal. apply filter_ext. intros v. apply bool_eq_iff.
  rewrite !Qle_bool_iff, E. reflexivity.
Qed.

Theorem pval_is_fraction n xs ys thr tl paired draws pv adj null :
  nbs n xs ys thr tl paired draws = Some (pv, adj, null) ->
  length null = length draws /\ 0 < length draws /\
  forall l, 1 <= l <= length pv ->
    nth (l - 1) pv 0%Q = (qn (count_ge (qn (label_cells n adj l)) null) / qn (length null))%Q.
Proof.
  intros H. destruct (pval_spec _ _ _ _ _ _ _ _ _ _ H) as (szl & Hobs & Hlp & Hln & Hk & Hpv).
  destruct (links_count _ _ _ _ _ _ _ _ _ _ H) as (a & sz & szl' & Hgc & Hobs' & Hls & _ & Hcnt).
  rewrite Hobs in Hobs'. injection Hobs' as <-.
  split; [exact Hln|]. split; [exact Hk|]. intros l Hl.
  rewrite Hpv by lia. rewrite Hln. f_equal. f_equal. fold (count_ge (nth (l - 1) szl 0%Q) null).
  apply count_ge_comp. rewrite Hcnt by lia.
  rewrite (links_in_label_cells n paired tl thr xs ys szl adj a sz (l - 1) Hobs Hgc) by lia.
  replace (l - 1 + 1) with l by lia. reflexivity.
Qed.

(* ====================================================================== Part G *)
(* the NBS statistic of a pair of subject stacks: v is the largest number of suprathreshold
   connections carried by one component of the suprathreshold graph (0 when there is none);
   [a] is the component labelling: equal labels <-> joined by a path *)
Definition nbs_statistic (n : nat) (paired : bool) (tl : tail) (thr : Q) (xs ys : list (mat Q)) (v : Q) : Prop :=
  exists a sz, get_components n (supra_adj n paired tl thr xs ys) = Some (a, sz) /\
    length a = n /\
    (forall u w, u < n -> w < n -> (nth u a 0 = nth w a 0 <-> path n (supra_adj n paired tl thr xs ys) u w)) /\
    (forall l, (qn (links_in n paired tl thr xs ys a l) <= v)%Q) /\
    (exists l, (v == qn (links_in n paired tl thr xs ys a l))%Q).

Lemma links_in_pos_big n paired tl thr xs ys a sz l :
  get_components n (supra_adj n paired tl thr xs ys) = Some (a, sz) ->
  0 < links_in n paired tl thr xs ys a l -> In l (big_labels sz).
Proof.
  unfold links_in. intros Eg Hpos.
  destruct (filter (fun c => (nth (fst c) a 0 =? l) && (nth (snd c) a 0 =? l))%bool
                   (filter (fun c => supra paired tl thr (evec xs c) (evec ys c)) (triu_cells n))) as [|[i j] rest] eqn:Ef;
    [cbn [length] in Hpos; lia|].
  assert (Hin : In (i, j) (filter (fun c => (nth (fst c) a 0 =? l) && (nth (snd c) a 0 =? l))%bool
                   (filter (fun c => supra paired tl thr (evec xs c) (evec ys c)) (triu_cells n)))) by (rewrite Ef; left; reflexivity).
  apply filter_In in Hin. destruct Hin as [H1 H2]. apply filter_In in H1. destruct H1 as [Ht Hs].
  apply triu_cells_In in Ht. cbn [fst snd] in H2. apply andb_true_iff in H2. destruct H2 as [Hi Hj].
  apply Nat.eqb_eq in Hi. apply Nat.eqb_eq in Hj. unfold supra_adj in Eg.
  assert (Hnz : adj_of (selected n (tmask paired tl thr (vectorize n xs) (vectorize n ys))) i j <> 0%Z).
  { apply adj_of_supra. left. split; [lia|]. split; [lia|exact Hs]. }
  destruct (edge_big_label n _ a sz i j Eg ltac:(lia) ltac:(lia) Hnz) as [_ Hbig]. rewrite Hi in Hbig. exact Hbig.
Qed.

Lemma qn_nonneg k : (0 <= qn k)%Q.
Proof. unfold qn. change 0%Q with (inject_Z 0). rewrite <- Zle_Qle. lia. Qed.

Lemma perm_max_statistic n paired tl thr xs ys v :
  perm_max n (tmask paired tl thr (vectorize n xs) (vectorize n ys)) = Some v -> nbs_statistic n paired tl thr xs ys v.
Proof.
  unfold perm_max. fold (supra_adj n paired tl thr xs ys).
  destruct (get_components n (supra_adj n paired tl thr xs ys)) as [[a sz]|] eqn:Eg; [|discriminate].
  intros H. injection H as <-. exists a, sz. split; [exact Eg|].
  destruct (components_iff_path _ _ _ _ Eg) as [Hlen Hiff]. split; [exact Hlen|]. split; [exact Hiff|].
  set (L := links_only a (big_labels sz) (supra_adj n paired tl thr xs ys)).
  assert (HL : forall l, In l (big_labels sz) ->
             In (half_sum (supra_adj n paired tl thr xs ys) (nodes_of l a)) L /\
             (half_sum (supra_adj n paired tl thr xs ys) (nodes_of l a) == qn (links_in n paired tl thr xs ys a l))%Q).
  { intros l Hl. split.
    - unfold L, links_only. apply (in_map (fun l => half_sum (supra_adj n paired tl thr xs ys) (nodes_of l a))). exact Hl.
    - apply half_sum_is_link_count. exact Hlen. }
  assert (Hzero : forall l, ~ In l (big_labels sz) -> links_in n paired tl thr xs ys a l = 0).
  { intros l Hl. destruct (links_in n paired tl thr xs ys a l) eqn:E; [reflexivity|]. exfalso. apply Hl.
    apply (links_in_pos_big n paired tl thr xs ys a sz l Eg). lia. }
  assert (Hmax : exists l, (lmaxQ L == qn (links_in n paired tl thr xs ys a l))%Q).
  { destruct L as [|x0 Lr] eqn:EL.
    - exists 0. rewrite Hzero; [reflexivity|]. intros H0. apply big_labels_In in H0. lia.
    - assert (Hin : In (lmaxQ L) L) by (apply lmaxQ_in; rewrite EL; discriminate).
      unfold L at 2 in Hin. unfold links_only in Hin. apply in_map_iff in Hin. destruct Hin as (l & Hl & Hlin).
      exists l. rewrite <- EL. rewrite <- Hl. apply (HL l Hlin). }
  split; [|exact Hmax].
  intros l. destruct (in_dec Nat.eq_dec l (big_labels sz)) as [Hl|Hl].
  - destruct (HL l Hl) as [H1 H2]. rewrite <- H2. apply lmaxQ_ge. exact H1.
  - rewrite (Hzero l Hl). destruct Hmax as [l' Hl']. rewrite Hl'. apply qn_nonneg.
Qed.

(* ---- the relabelled stacks: vector level = stack level ---- *)
Lemma evec_app xs ys c : evec (xs ++ ys) c = evec xs c ++ evec ys c.
Proof. unfold evec. apply map_app. Qed.

Lemma evec_nth_map xs c p : map (fun q => nth q (evec xs c) 0%Q) p = evec (map (fun q => nth q xs zmat) p) c.
Proof.
  unfold evec. rewrite map_map. apply map_ext. intros q.
  change 0%Q with ((fun X : mat Q => X (fst c) (snd c)) zmat). apply map_nth.
Qed.

Lemma permute_row_evec nx ny p xs ys c :
  permute_row nx ny p (evec xs c) (evec ys c)
  = (evec (fst (relabel_unpaired nx ny p xs ys)) c, evec (snd (relabel_unpaired nx ny p xs ys)) c).
Proof.
  unfold permute_row, relabel_unpaired. cbv zeta. cbn [fst snd].
  rewrite <- evec_app, evec_nth_map. unfold evec at 1 2 3. rewrite firstn_map, skipn_map, !map_length. reflexivity.
Qed.

Lemma shuffle_map_gen (F : list Q -> list Q -> list Q * list Q) (g h g' h' : cell -> list Q) (l : list cell) :
  (forall c, F (g c) (h c) = (g' c, h' c)) ->
  split (map (fun xy => F (fst xy) (snd xy)) (combine (map g l) (map h l))) = (map g' l, map h' l).
Proof.
  intros H. induction l as [|c l IH]; cbn [map combine split fst snd]; [reflexivity|].
  rewrite IH, H. reflexivity.
Qed.

Lemma tmask_map paired tl thr (g h : cell -> list Q) (l : list cell) :
  tmask paired tl thr (map g l) (map h l) = map (fun c => supra paired tl thr (g c) (h c)) l.
Proof.
  unfold tmask. induction l as [|c l IH]; cbn [map combine fst snd]; [reflexivity|]. rewrite IH. reflexivity.
Qed.

(* paired: multiplying both members of pair j by sign(0.5 - rand_j) has the same differences as
   exchanging the members of the pairs with rand_j > 1/2 *)
Local Open Scope Q_scope.

#[local] Instance sq_proper : Proper (Qeq ==> Qeq) sq.
Proof. intros a b H. unfold sq. rewrite H. reflexivity. Qed.

Lemma lsum_F2 d d' : Forall2 Qeq d d' -> lsum d == lsum d'.
Proof. unfold lsum. induction 1 as [|a b d d' Hab _ IH]; cbn [fold_right]; [reflexivity|]. rewrite Hab, IH. reflexivity. Qed.

Lemma F2_map_sq d d' : Forall2 Qeq d d' -> Forall2 Qeq (map sq d) (map sq d').
Proof. induction 1 as [|a b d d' Hab _ IH]; cbn [map]; constructor; [unfold sq; rewrite Hab; reflexivity|exact IH]. Qed.

Lemma F2_length {A B} (R : A -> B -> Prop) l l' : Forall2 R l l' -> length l = length l'.
Proof. induction 1; cbn [length]; [reflexivity|f_equal; assumption]. Qed.

Lemma supra_pd_eqv tl thr d d' : Forall2 Qeq d d' -> supra_pd tl thr d = supra_pd tl thr d'.
Proof.
  intros H. apply supra_pd_comp.
  - apply (F2_length _ _ _ H).
  - unfold paired_ss. rewrite (lsum_F2 _ _ H), (lsum_F2 _ _ (F2_map_sq _ _ H)), (F2_length _ _ _ H). reflexivity.
  - unfold lmean. rewrite (lsum_F2 _ _ H), (F2_length _ _ _ H). reflexivity.
Qed.

Lemma sign_half_cases r :
  (qlt r (1 # 2) = true /\ sign_half r = 1) \/
  (qlt r (1 # 2) = false /\ qlt (1 # 2) r = true /\ sign_half r = - (1)) \/
  (qlt r (1 # 2) = false /\ qlt (1 # 2) r = false /\ sign_half r = 0).
Proof. unfold sign_half. destruct (qlt r (1 # 2)); [left; tauto|]. destruct (qlt (1 # 2) r); right; [left|right]; tauto. Qed.

Lemma diffs_relabel c : forall xs ys r,
  Forall2 Qeq (diffs (mul_row (map sign_half r) (evec xs c)) (mul_row (map sign_half r) (evec ys c)))
              (diffs (evec (fst (relabel_paired r xs ys)) c) (evec (snd (relabel_paired r xs ys)) c)).
Proof.
  induction xs as [|X xs IH]; intros ys r.
  - cbn. constructor.
  - destruct ys as [|Y ys].
    + unfold relabel_paired, diffs, mul_row, evec. cbn [map combine fst snd]. rewrite combine_nil. cbn [map]. constructor.
    + destruct r as [|rj r].
      * cbn. constructor.
      * unfold relabel_paired, diffs, mul_row, evec in *. cbn [map combine fst snd] in *. constructor; [|apply IH].
        unfold relabel_pair. destruct (sign_half_cases rj) as [[E1 E2]|[[E1 [E2 E3]]|[E1 [E2 E3]]]].
        -- rewrite E1, E2. cbn [fst snd]. ring.
        -- rewrite E1, E2, E3. cbn [fst snd]. ring.
        -- rewrite E1, E2, E3. cbn [fst snd]. unfold zmat. ring.
Qed.
Local Close Scope Q_scope.

Lemma shuffled_mask n paired tl thr nx ny d xs ys xp yp :
  shuffled paired nx ny d (vectorize n xs) (vectorize n ys) = Some (xp, yp) ->
  exists xs' ys', relabelled paired nx ny d xs ys = Some (xs', ys') /\
    tmask paired tl thr xp yp = tmask paired tl thr (vectorize n xs') (vectorize n ys').
Proof.
  destruct paired, d as [p|r]; cbn [shuffled relabelled]; try discriminate; intros H; injection H as H.
  - exists (fst (relabel_paired r xs ys)), (snd (relabel_paired r xs ys)). split; [destruct (relabel_paired r xs ys); reflexivity|].
    unfold vectorize in H. fold (evec xs) in H. fold (evec ys) in H.
    rewrite (shuffle_map_gen (flip_row (map sign_half r)) (evec xs) (evec ys)
               (fun c => mul_row (map sign_half r) (evec xs c)) (fun c => mul_row (map sign_half r) (evec ys c))) in H
      by (intros c; reflexivity).
    injection H as <- <-. rewrite tmask_map, tmask_vectorize. apply map_ext. intros c. unfold supra.
    rewrite !supra_p_pd. apply supra_pd_eqv. apply diffs_relabel.
  - exists (fst (relabel_unpaired nx ny p xs ys)), (snd (relabel_unpaired nx ny p xs ys)).
    split; [destruct (relabel_unpaired nx ny p xs ys); reflexivity|].
    unfold vectorize in H. fold (evec xs) in H. fold (evec ys) in H.
    rewrite (shuffle_map_gen (permute_row nx ny p) (evec xs) (evec ys)
               (evec (fst (relabel_unpaired nx ny p xs ys))) (evec (snd (relabel_unpaired nx ny p xs ys)))) in H
      by (intros c; apply permute_row_evec).
    injection H as <- <-. rewrite tmask_map, tmask_vectorize. reflexivity.
Qed.

(* each null value is the NBS statistic of the stacks relabelled by the recorded draw *)
Definition relabelled_statistic (n : nat) (paired : bool) (tl : tail) (thr : Q) (xs ys : list (mat Q)) (d : draw) (v : Q) : Prop :=
  exists xs' ys', relabelled paired (length xs) (length ys) d xs ys = Some (xs', ys') /\
    nbs_statistic n paired tl thr xs' ys' v.

Lemma null_loop_relabelled n paired tl thr xs ys draws : forall null,
  null_loop n paired tl thr (length xs) (length ys) (vectorize n xs) (vectorize n ys) draws = Some null ->
  Forall2 (relabelled_statistic n paired tl thr xs ys) draws null.
Proof.
  induction draws as [|d r IH]; intros null H; cbn [null_loop] in H.
  - injection H as <-. constructor.
  - destruct (shuffled paired (length xs) (length ys) d (vectorize n xs) (vectorize n ys)) as [[xp yp]|] eqn:Es; [|discriminate].
    destruct (perm_max n (tmask paired tl thr xp yp)) as [v|] eqn:Ep; [|discriminate].
    destruct (null_loop n paired tl thr (length xs) (length ys) (vectorize n xs) (vectorize n ys) r) as [rest|] eqn:Er; [|discriminate].
    injection H as <-. constructor; [|apply IH; reflexivity].
    destruct (shuffled_mask n paired tl thr _ _ d xs ys xp yp Es) as (xs' & ys' & Hr & Hm).
    exists xs', ys'. split; [exact Hr|]. apply perm_max_statistic. rewrite <- Hm. exact Ep.
Qed.

Theorem null_is_relabelled_max n xs ys thr tl paired draws pv adj null :
  nbs n xs ys thr tl paired draws = Some (pv, adj, null) ->
  length null = length draws /\ Forall2 (relabelled_statistic n paired tl thr xs ys) draws null.
Proof.
  intros H. destruct (nbs_some _ _ _ _ _ _ _ _ _ _ H) as (szl & _ & Hnull & _ & _).
  pose proof (null_loop_relabelled _ _ _ _ _ _ _ _ Hnull) as HF. split; [|exact HF].
  symmetry. exact (F2_length _ _ _ HF).
Qed.

(* ---- what a relabelling is ---- *)
Lemma map_nth_seq {A} (l : list A) d : map (fun q => nth q l d) (seq 0 (length l)) = l.
Proof.
  induction l as [|x l IH]; cbn [length seq map nth]; [reflexivity|]. f_equal.
  rewrite <- seq_shift, map_map. exact IH.
Qed.

(* unpaired: with a permutation of 0..nx+ny-1 the two new groups together are the old subjects,
   re-indexed; group sizes are kept *)
Theorem relabel_unpaired_is_permutation xs ys p :
  Permutation p (seq 0 (length xs + length ys)) ->
  let R := relabel_unpaired (length xs) (length ys) p xs ys in
  fst R ++ snd R = map (fun q => nth q (xs ++ ys) zmat) p /\
  Permutation (fst R ++ snd R) (xs ++ ys) /\ length (fst R) = length xs /\ length (snd R) = length ys.
Proof.
  intros Hp. cbv zeta. unfold relabel_unpaired. cbv zeta. cbn [fst snd].
  set (d := map (fun q => nth q (xs ++ ys) zmat) p).
  assert (Hd : length d = length xs + length ys).
  { unfold d. rewrite map_length, (Permutation_length Hp), seq_length. reflexivity. }
  replace (length d - length ys) with (length xs) by lia.
  split; [apply firstn_skipn|]. split; [|split].
  - rewrite firstn_skipn. unfold d.
    apply (Permutation_trans (l' := map (fun q => nth q (xs ++ ys) zmat) (seq 0 (length (xs ++ ys))))).
    + apply Permutation_map. rewrite app_length. exact Hp.
    + rewrite map_nth_seq. apply Permutation_refl.
  - rewrite firstn_length. lia.
  - rewrite skipn_length. lia.
Qed.

(* paired: every pair is kept or exchanged (no rand_j is exactly 1/2) *)
Theorem relabel_paired_exchanges_pairs : forall xs ys r,
  length r = length xs -> length ys = length xs -> (forall rj, In rj r -> ~ (rj == 1 # 2)%Q) ->
  let R := relabel_paired r xs ys in
  length (fst R) = length xs /\ length (snd R) = length xs /\
  Forall2 (fun XY XY' : mat Q * mat Q => XY' = XY \/ XY' = (snd XY, fst XY)) (combine xs ys) (combine (fst R) (snd R)).
Proof.
  cbv zeta. unfold relabel_paired. cbn [fst snd].
  induction xs as [|X xs IH]; intros ys r Hr Hy Hhalf.
  - cbn. repeat split; constructor.
  - destruct ys as [|Y ys]; [discriminate|]. destruct r as [|rj r]; [discriminate|].
    cbn [length] in Hr, Hy. injection Hr as Hr. injection Hy as Hy.
    destruct (IH ys r Hr Hy (fun q Hq => Hhalf q (or_intror Hq))) as (I1 & I2 & I3).
    cbn [combine map fst snd length]. split; [f_equal; exact I1|]. split; [f_equal; exact I2|].
    constructor; [|exact I3]. unfold relabel_pair.
    destruct (sign_half_cases rj) as [[E1 _]|[[E1 [E2 _]]|[E1 [E2 _]]]]; rewrite ?E1, ?E2; cbn [fst snd].
    + left. reflexivity.
    + right. reflexivity.
    + exfalso. apply (Hhalf rj (or_introl eq_refl)).
      unfold qlt in E1, E2. apply negb_false_iff in E1. apply negb_false_iff in E2.
      apply Qle_bool_iff in E1. apply Qle_bool_iff in E2. apply Qle_antisym; assumption.
Qed.
