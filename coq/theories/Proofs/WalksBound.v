(* Proofs/WalksBound.v — size of the walk counts.  The code keeps Wq in a float64 array; a non-negative integer is
   represented exactly there iff it is < 2^53 (and a sum of non-negative integers is formed exactly when the total is).
   Here: every entry of A^q is between 0 and D^q for D = the largest in-degree; wlq, twalk are bounded accordingly; every
   entry and every wlq is at most twalk.  So `twalk < 2^53` (decidable on the output) or the a-priori
   `n^2 (1 + D + ... + D^(n-1)) < 2^53` put the whole run inside the exact range of binary64. *)
From Coq Require Import ZArith List Arith Bool Lia.
From BCT Require Import Base.Mat Base.ListX Model.Walks Proofs.Walks.
Import ListNotations.
Open Scope Z_scope.

Lemma binz_01 A i j : 0 <= binz A i j <= 1.
Proof. unfold binz. destruct (Z.eqb (A i j) 0); lia. Qed.

Lemma sumn_le_const f n c : (forall i, (i < n)%nat -> f i <= c) -> sumn f n <= Z.of_nat n * c.
Proof.
  induction n; intros H; [cbn; lia|]. cbn [sumn].
  assert (sumn f n <= Z.of_nat n * c) by (apply IHn; intros; apply H; lia).
  specialize (H n (Nat.lt_succ_diag_r n)). lia.
Qed.

Lemma sumn_term_le f n i : (forall k, (k < n)%nat -> 0 <= f k) -> (i < n)%nat -> f i <= sumn f n.
Proof.
  intros Hnn Hi. rewrite (sumn_split f n i Hi).
  assert (0 <= sumn (fun k => if Nat.eqb k i then 0 else f k) n).
  { apply sumn_nonneg. intros k Hk. destruct (Nat.eqb k i); [lia|apply Hnn; exact Hk]. }
  lia.
Qed.

Lemma indeg_nonneg n A j : 0 <= indeg n A j.
Proof. unfold indeg. apply sumn_nonneg. intros. apply binz_01. Qed.

Lemma fold_max_ge (l : list Z) : 0 <= fold_right Z.max 0 l /\ forall x, In x l -> x <= fold_right Z.max 0 l.
Proof.
  induction l as [|a l [IH0 IH]]; cbn [fold_right]; [split; [lia|intros x []]|].
  split; [lia|]. intros x [<-|Hx]; [lia|]. specialize (IH x Hx). lia.
Qed.

Lemma maxindeg_ge n A j : (j < n)%nat -> indeg n A j <= maxindeg n A.
Proof.
  intros Hj. unfold maxindeg. apply (proj2 (fold_max_ge _)). apply in_map_iff. exists j. split; [reflexivity|].
  apply in_seq. lia.
Qed.

Lemma maxindeg_nonneg n A : 0 <= maxindeg n A.
Proof. unfold maxindeg. apply (proj1 (fold_max_ge _)). Qed.

(* the largest in-degree is at most n *)
Lemma maxindeg_le_n n A : maxindeg n A <= Z.of_nat n.
Proof.
  unfold maxindeg. generalize (seq 0 n). induction l as [|a l IH]; cbn [map fold_right]; [lia|].
  assert (indeg n A a <= Z.of_nat n).
  { unfold indeg. replace (Z.of_nat n) with (Z.of_nat n * 1) by lia. apply sumn_le_const. intros. apply binz_01. }
  lia.
Qed.

Section Bound.
Variables (n : nat) (A : mat Z) (D : Z).
Hypothesis HD : forall j, (j < n)%nat -> indeg n A j <= D.
Hypothesis HD0 : 0 <= D.

(* 0 <= (A^q)_ij <= D^q *)
Lemma mpow_bound : forall q i j, (i < n)%nat -> (j < n)%nat ->
  0 <= mpowZ n (binz A) q i j <= D ^ Z.of_nat q.
Proof.
  induction q; intros i j Hi Hj.
  - cbn [mpowZ]. unfold eyeZ. cbn [Z.of_nat]. rewrite Z.pow_0_r. destruct (Nat.eqb i j); lia.
  - cbn [mpowZ]. unfold mmulZ. split.
    + apply sumn_nonneg. intros k Hk. pose proof (IHq i k Hi Hk). pose proof (binz_01 A k j). nia.
    + rewrite Nat2Z.inj_succ, Z.pow_succ_r by lia.
      apply Z.le_trans with (sumn (fun k => D ^ Z.of_nat q * binz A k j) n).
      * apply sumn_le. intros k Hk. pose proof (IHq i k Hi Hk). pose proof (binz_01 A k j). nia.
      * rewrite sumn_scal. fold (indeg n A j). pose proof (HD j Hj). pose proof (indeg_nonneg n A j).
        assert (0 <= D ^ Z.of_nat q) by (apply Z.pow_nonneg; exact HD0). nia.
Qed.

Theorem findwalks_bounded Wq : findwalks n A = Some Wq ->
  (forall q i j, (q < n)%nat -> (i < n)%nat -> (j < n)%nat -> 0 <= Wq q i j <= D ^ Z.of_nat q) /\
  (forall q, (q < n)%nat -> 0 <= wlq n Wq q <= Z.of_nat n * Z.of_nat n * D ^ Z.of_nat q) /\
  0 <= twalk n Wq <= fw_bound n D /\
  (forall q i j, (q < n)%nat -> (i < n)%nat -> (j < n)%nat -> Wq q i j <= wlq n Wq q) /\
  (forall q, (q < n)%nat -> wlq n Wq q <= twalk n Wq).
Proof.
  intros H. destruct (findwalks_power n A Wq H) as (Hn & H0 & Hq).
  assert (E : forall q i j, (q < n)%nat -> (i < n)%nat -> (j < n)%nat -> 0 <= Wq q i j <= D ^ Z.of_nat q).
  { intros q i j Hq' Hi Hj. destruct q as [|q'].
    - rewrite (H0 i j Hi Hj). cbn [Z.of_nat]. rewrite Z.pow_0_r. lia.
    - rewrite (proj1 (Hq (S q') i j ltac:(lia) Hi Hj)). apply mpow_bound; assumption. }
  assert (W : forall q, (q < n)%nat -> 0 <= wlq n Wq q <= Z.of_nat n * Z.of_nat n * D ^ Z.of_nat q).
  { intros q Hq'. unfold wlq, sum2. split.
    - apply sumn_nonneg. intros i Hi. apply sumn_nonneg. intros j Hj. apply E; assumption.
    - apply Z.le_trans with (Z.of_nat n * (Z.of_nat n * D ^ Z.of_nat q)); [|lia].
      apply sumn_le_const. intros i Hi. apply sumn_le_const. intros j Hj. apply E; assumption. }
  split; [exact E|]. split; [exact W|]. split; [|split].
  - unfold twalk, fw_bound. split.
    + apply sumn_nonneg. intros q Hq'. apply W; exact Hq'.
    + rewrite <- sumn_scal. apply sumn_le. intros q Hq'. apply W; exact Hq'.
  - intros q i j Hq' Hi Hj. unfold wlq, sum2.
    apply Z.le_trans with (sumn (Wq q i) n).
    + apply (sumn_term_le (Wq q i) n j); [|exact Hj]. intros k Hk. apply E; assumption.
    + apply (sumn_term_le (fun i => sumn (Wq q i) n) n i); [|exact Hi].
      intros k Hk. apply sumn_nonneg. intros l Hl. apply E; assumption.
  - intros q Hq'. unfold twalk. apply (sumn_term_le (wlq n Wq) n q); [|exact Hq']. intros k Hk. apply W; exact Hk.
Qed.
End Bound.

(* hypothesis-free form with D = the largest in-degree, and the two sufficient conditions for exactness in binary64:
   every number in the output (entries, wlq, twalk) is a non-negative integer below 2^53 as soon as twalk is, and twalk is
   as soon as n^2 (1 + D + ... + D^(n-1)) is. *)
Theorem findwalks_exact_range n A Wq : findwalks n A = Some Wq ->
  let D := maxindeg n A in
  (forall q i j, (q < n)%nat -> (i < n)%nat -> (j < n)%nat -> 0 <= Wq q i j <= D ^ Z.of_nat q) /\
  0 <= twalk n Wq <= fw_bound n D /\
  (fw_exact n Wq = true ->
     (forall q i j, (q < n)%nat -> (i < n)%nat -> (j < n)%nat -> 0 <= Wq q i j < two53) /\
     (forall q, (q < n)%nat -> 0 <= wlq n Wq q < two53) /\ 0 <= twalk n Wq < two53) /\
  (fw_bound n D < two53 -> fw_exact n Wq = true).
Proof.
  intros H D.
  destruct (findwalks_bounded n A D (fun j Hj => maxindeg_ge n A j Hj) (maxindeg_nonneg n A) Wq H) as (E & W & T & EW & WT).
  split; [exact E|]. split; [exact T|]. split.
  - unfold fw_exact. intros Hx. apply Z.ltb_lt in Hx. split; [|split].
    + intros q i j Hq Hi Hj. pose proof (E q i j Hq Hi Hj). pose proof (EW q i j Hq Hi Hj). pose proof (WT q Hq). lia.
    + intros q Hq. pose proof (W q Hq). pose proof (WT q Hq). lia.
    + lia.
  - intros Hb. unfold fw_exact. apply Z.ltb_lt. lia.
Qed.
