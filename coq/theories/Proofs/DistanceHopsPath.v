(* Proofs/DistanceHopsPath.v — distance_wei_floyd with ZERO-length connections allowed ('log' transform of weight 1):
   hops[i,j] is the number of edges of a duplicate-free minimum-length PATH (not only of a walk), for every
   non-negative length matrix.  Along the route that Pmat encodes, hops[., j] drops by exactly one per step
   (floyd_path_step on the final state), so the nodes of the route are pairwise distinct: no appeal to strict
   positivity is needed.  The same argument shows that retrieve_shortest_path never repeats a node. *)
From Coq Require Import QArith List Arith Bool ZArith Lia Lqa.
From BCT Require Import Base.Mat Base.ListX Model.Distance Model.Paths
  Proofs.DistanceBase Proofs.DistanceFloyd Proofs.DistanceOther Proofs.Paths.
Import ListNotations.
Open Scope Q_scope.

Section HopsPath.
Variable n : nat.
Variable L : mat len.
Hypothesis Hnn : nonneg n L.
Let F := FW n L.

Lemma follow_path t (Ht : (t < n)%nat) : forall h s x, (s < n)%nat -> s <> t ->
  spl F s t = Some x -> hops F s t = h ->
  exists mid, follow (pmat F) t s h = mid ++ [t] /\ below n mid /\ S (length mid) = h /\
              oeq (wl L s mid t) (Some x) /\
              Forall (fun m => (hops F m t < h)%nat /\ m <> t) mid /\ NoDup mid.
Proof.
  induction h as [|h IH]; intros s x Hs Hne HS Hh.
  - destruct (floyd_path_step n L Hnn s t x Hs Ht Hne HS) as [_ [[_ [H _]]|[_ [H _]]]]; fold F in H; lia.
  - destruct (floyd_path_step n L Hnn s t x Hs Ht Hne HS) as [Hpn [[Pj [H1 Hl]]|[Pne [H1 Hl]]]];
      fold F in Hpn, H1, Hl; cbn [follow].
    + fold F in Pj. exists []. rewrite Pj. assert (h = 0%nat) by lia. subst h. cbn [follow app length].
      split; [reflexivity|]. split; [apply below_nil|]. split; [reflexivity|]. cbn [wl].
      split; [exact Hl|]. split; constructor.
    + fold F in Pne. set (p := pmat F s t) in *.
      destruct (L s p) as [l|] eqn:El; [|cbn in Hl; contradiction].
      destruct (spl F p t) as [y|] eqn:Ey; [|cbn in Hl; contradiction]. cbn in Hl.
      assert (Hhp : hops F p t = h) by lia.
      destruct (IH p y Hpn Pne Ey Hhp) as [mid [Ef [B [Hlen [W [Hall Hnd]]]]]].
      exists (p :: mid). rewrite Ef. split; [reflexivity|]. split; [apply below_cons; auto|].
      split; [cbn [length]; lia|]. split.
      { cbn [wl]. rewrite El. destruct (wl L p mid t) as [w|]; cbn in *; [lra|contradiction]. }
      split.
      * constructor; [split; [lia|exact Pne]|].
        eapply Forall_impl; [|exact Hall]. cbn. intros a [Ha1 Ha2]. split; [lia|exact Ha2].
      * constructor; [|exact Hnd]. intros Hin. rewrite Forall_forall in Hall. destruct (Hall p Hin) as [Hlt _]. lia.
Qed.

Lemma route_nodup s t mid h : s <> t -> hops F s t = h ->
  Forall (fun m => (hops F m t < h)%nat /\ m <> t) mid -> NoDup mid -> NoDup (s :: mid ++ [t]).
Proof.
  intros Hne Hh Hall Hnd. rewrite Forall_forall in Hall. constructor.
  - intros Hin. apply in_app_or in Hin. destruct Hin as [Hin|[E|[]]]; [|congruence].
    destruct (Hall s Hin) as [Hlt _]. lia.
  - apply NoDup_app_intro; [exact Hnd|constructor; [intros []|constructor]|].
    intros a Ha [E|[]]. destruct (Hall a Ha) as [_ H]. congruence.
Qed.

(* retrieve_shortest_path returns a duplicate-free node sequence (a path in the strict sense) *)
Theorem retrieve_nodup : forall s t x, (s < n)%nat -> (t < n)%nat -> s <> t -> spl F s t = Some x ->
  NoDup (retrieve s t (hops F) (pmat F)).
Proof.
  intros s t x Hs Ht Hne HS.
  destruct (follow_path t Ht (hops F s t) s x Hs Hne HS eq_refl) as [mid [Ef [B [Hl [W [Hall Hnd]]]]]].
  unfold retrieve. destruct (Nat.eqb_spec (hops F s t) 0) as [E|_]; [lia|].
  rewrite Ef. apply (route_nodup s t mid (hops F s t) Hne eq_refl Hall Hnd).
Qed.

(* hops[i,j] = number of edges of a duplicate-free minimum-length path, zero-length connections allowed *)
Theorem floyd_hops_path_nonneg : forall i j x, (i < n)%nat -> (j < n)%nat -> i <> j -> spl F i j = Some x ->
  is_min_dist n L i j (Some x) /\
  exists mid, below n mid /\ NoDup (i :: mid ++ [j]) /\ S (length mid) = hops F i j /\ oeq (wl L i mid j) (Some x).
Proof.
  intros i j x Hi Hj Hne HS.
  pose proof (floyd_correct n L Hnn i j Hi Hj Hne) as Hmin. fold F in Hmin. rewrite HS in Hmin.
  split; [exact Hmin|].
  destruct (follow_path j Hj (hops F i j) i x Hi Hne HS eq_refl) as [mid [_ [B [Hl [W [Hall Hnd]]]]]].
  exists mid. split; [exact B|]. split; [apply (route_nodup i j mid (hops F i j) Hne eq_refl Hall Hnd)|]. auto.
Qed.
End HopsPath.

(* the same after each transform of distance_wei_floyd (None / 'inv' / 'log'; weight 1 under 'log' is a zero-length
   connection): SPL is the minimum and hops counts the edges of a duplicate-free minimum-length path *)
Section Transforms.
Variable nlog : Q -> Q.
Hypothesis Hlog : forall w, 0 < w -> w <= 1 -> 0 <= nlog w.

Theorem floyd_transforms_hops n A tr :
  (forall i j, (i < n)%nat -> (j < n)%nat -> 0 <= A i j) ->
  (tr = TLog -> forall i j, (i < n)%nat -> (j < n)%nat -> A i j <= 1) ->
  let F := distance_wei_floyd nlog n A tr in
  forall i j x, (i < n)%nat -> (j < n)%nat -> i <> j -> spl F i j = Some x ->
    is_min_dist n (lengths nlog tr A) i j (Some x) /\
    exists mid, below n mid /\ NoDup (i :: mid ++ [j]) /\ S (length mid) = hops F i j /\
                oeq (wl (lengths nlog tr A) i mid j) (Some x).
Proof.
  intros HA H1 F i j x Hi Hj Hne HS.
  assert (Hnn : nonneg n (lengths nlog tr A)).
  { apply lengths_nonneg; [exact HA|]. intros Etr a b Ha Hb Hnz. apply Hlog; [|apply H1; assumption].
    specialize (HA a b Ha Hb). destruct (Qlt_le_dec 0 (A a b)); [assumption|exfalso; apply Hnz; lra]. }
  exact (floyd_hops_path_nonneg n (lengths nlog tr A) Hnn i j x Hi Hj Hne HS).
Qed.
End Transforms.

(* non-vacuity: a zero-length 2-cycle 1 <-> 2 next to the route 0 -> 1 -> 3 (lengths 1, 1) and 0 -> 2 -> 3 (1, 1):
   the matrix is non-negative but NOT strictly positive, hops[0,3] = 2 *)
Example hops_path_nonneg_nonvacuous :
  let L : mat len := of_rows None [[None; Some 1; Some 1; None]; [None; None; Some 0; Some 1];
                                   [None; Some 0; None; Some 1]; [None; None; None; None]] in
  nonneg 4 L /\ ~ positive 4 L /\ spl (floyd 4 L) 0%nat 3%nat = Some 2 /\ hops (floyd 4 L) 0%nat 3%nat = 2%nat /\
  spl (floyd 4 L) 1%nat 2%nat = Some 0.
Proof.
  split; [|split].
  - intros i j x Hi Hj. do 4 (destruct i as [|i]; [do 4 (destruct j as [|j]; [cbn; intros E; try discriminate; injection E as <-; lra|]); lia|]). lia.
  - intros H. specialize (H 1%nat 2%nat 0 ltac:(lia) ltac:(lia) eq_refl). lra.
  - vm_compute. auto.
Qed.
