(* Proofs/SymTermKinds.v — C04: equivariance stated BY OUTPUT KIND, so that no conjunct is the vacuous constant 0:
   (a) a program's result has the constructor its syntax announces; (b) every library entry has the kind the table
   kind_by_id gives it, for every parameter k; (c) the equivariance theorem in the one reading that matches. *)
From Coq Require Import QArith List Arith Lia.
From BCT Require Import Base.Mat Base.SumQ Model.SymTerm Proofs.SymTerm Proofs.SymTermLib.
From BCT Require Import Gen.SymTermGen Model.SymTermGenRun Model.SymTermKinds Proofs.SymTermGenThm.
Import ListNotations.
Open Scope Q_scope.

Definition code_of (k : okind) : nat := match k with KS => 0 | KV => 1 | KM => 2 end.
Lemma kind_code_out pr : kind_code pr = code_of (out_kind pr).
Proof. induction pr; cbn [kind_code out_kind]; auto. Qed.

(* (a) the result of a program IS of its kind: the matching reading loses nothing *)
Definition reads_as (c : nat) (r : res) (s : Q) (v : vec Q) (M : mat Q) : Prop :=
  match c with 0%nat => r = RS s | 1%nat => r = RV v | _ => r = RM M end.
Lemma eval_reads prims n pr A ci ks :
  reads_as (kind_code pr) (eval prims n pr A ci ks) (eval_s prims n pr A ci ks) (eval_v prims n pr A ci ks) (eval_m prims n pr A ci ks).
Proof.
  rewrite kind_code_out. unfold eval_s, eval_v, eval_m, eval.
  pose proof (semp_kind prims n pr [(0%nat, A)] [(0%nat, ci)] (inputs_s ks)) as K.
  destruct (out_kind pr); destruct (semp prims n [(0%nat, A)] [(0%nat, ci)] (inputs_s ks) pr); try contradiction; reflexivity.
Qed.

(* (b) the kinds of the library *)
Lemma kind_gtom m : kind_code (t_gtom m) = 2%nat. Proof. destruct m; reflexivity. Qed.
Lemma kind_assort_bin f : kind_code (t_assortativity_bin f) = 0%nat.
Proof. do 5 (destruct f as [|f]; [reflexivity|]). reflexivity. Qed.
Lemma kind_assort_wei f : kind_code (t_assortativity_wei f) = 0%nat.
Proof. do 5 (destruct f as [|f]; [reflexivity|]). reflexivity. Qed.
Lemma kind_sg_horner K r : kind_code (sg_horner K r) = kind_code r.
Proof. induction K; cbn [sg_horner kind_code]; auto. Qed.
Lemma kind_subgraph K : kind_code (t_subgraph_trunc K) = 1%nat.
Proof. unfold t_subgraph_trunc. cbn [kind_code]. rewrite kind_sg_horner. reflexivity. Qed.
Lemma kind_kcoreness_acc und K r : kind_code (kcoreness_acc und K r) = kind_code r.
Proof. induction K; cbn [kcoreness_acc kind_code]; auto. Qed.
Lemma kind_kcoreness und K : kind_code (t_kcoreness und K) = 1%nat.
Proof. unfold t_kcoreness. cbn [kind_code]. rewrite kind_kcoreness_acc. reflexivity. Qed.

Theorem library_kinds : forall id k, measure_kind id k = kind_by_id id.
Proof.
  intros id k. unfold measure_kind.
  do 54 (destruct id as [|id];
         [first [reflexivity|apply kind_gtom|apply kind_assort_bin|apply kind_assort_wei|apply kind_subgraph|apply kind_kcoreness]|]).
  reflexivity.
Qed.

(* (c) equivariance in the reading that matches the kind *)
Section Kinded.
Variable prims : nat -> Q -> Q.
Hypothesis prims_proper : forall k a b, a == b -> prims k a == prims k b.
Variables (n : nat) (p : nat -> nat).
Hypothesis Hp : perm_on n p.

Definition equivariant_as (c : nat) (pr : prog) (A : mat Q) (ci : vec Q) (ks : list Q) : Prop :=
  match c with
  | 0%nat => eval_s prims n pr (pm p A) (pv p ci) ks == eval_s prims n pr A ci ks
  | 1%nat => forall i, eval_v prims n pr (pm p A) (pv p ci) ks i == eval_v prims n pr A ci ks (p i)
  | _ => forall i j, eval_m prims n pr (pm p A) (pv p ci) ks i j == eval_m prims n pr A ci ks (p i) (p j)
  end.

Theorem measure_equivariant_kinded pr A ci ks : equivariant_as (kind_code pr) pr A ci ks.
Proof.
  unfold equivariant_as. destruct (kind_code pr) as [|[|c]].
  - apply (measure_equivariant_scalar prims prims_proper n p Hp).
  - apply (measure_equivariant_vector prims prims_proper n p Hp).
  - apply (measure_equivariant_matrix prims prims_proper n p Hp).
Qed.

Theorem library_equivariant_kinded id k A ci ks :
  measure_kind id k = kind_by_id id /\ equivariant_as (kind_by_id id) (measure_by_id id k) A ci ks.
Proof. split; [apply library_kinds|]. rewrite <- (library_kinds id k). apply measure_equivariant_kinded. Qed.

Theorem gen_equivariant_kinded name pr : In (name, pr) gen_table -> forall A ci ks,
  equivariant_as (kind_code pr) pr A ci ks /\
  reads_as (kind_code pr) (eval prims n pr A ci ks) (eval_s prims n pr A ci ks) (eval_v prims n pr A ci ks) (eval_m prims n pr A ci ks).
Proof. intros _ A ci ks. split; [apply measure_equivariant_kinded|apply eval_reads]. Qed.
End Kinded.
