(* Proofs/GeneratorsProfile.v — maketoeplitzCIJ with its profile (reference.py:857-859) inside the model:
   the template is the Toeplitz matrix of (0, pf(1), pf(2), ...) scaled by q; its diagonal is 0 whatever pf and q are
   (this discharges the hypothesis of toeplitz_exact_K), it is symmetric, constant along diagonals, sums to K for
   q = K / sum; the counted rejection loop returns the FIRST sample with exactly K ones and raises only after 10000
   consecutive rejections. *)
From Coq Require Import ZArith QArith Qfield List Arith Bool Lia Lqa Permutation.
From BCT Require Import Base.Mat Base.ListX Base.SumQ Model.Generators Model.GeneratorsExt
  Proofs.GeneratorsBase Proofs.Generators.
Import ListNotations.
Open Scope Z_scope.

Lemma absdiff_refl i : absdiff i i = O.
Proof. unfold absdiff. lia. Qed.
Lemma absdiff_sym i j : absdiff i j = absdiff j i.
Proof. unfold absdiff. lia. Qed.

(* ---------------- the template ---------------- *)
Lemma toep_template_diag pf q i : (toep_template pf q i i == 0)%Q.
Proof. unfold toep_template, toep_unscaled, toep_col. rewrite absdiff_refl. cbn [Nat.eqb]. ring. Qed.

Theorem toep_template_shape pf q :
  let T := toep_template pf q in
  (forall i, (T i i == 0)%Q) /\
  (forall i j, T i j = T j i) /\
  (forall i j i' j', absdiff i j = absdiff i' j' -> T i j = T i' j') /\
  ((forall d, (0 <= pf d)%Q) -> (0 <= q)%Q -> forall i j, (0 <= T i j)%Q) /\
  (forall i j, i <> j -> (T i j == pf (absdiff i j) * q)%Q).
Proof.
  intros T. split; [|split; [|split; [|split]]].
  - intros i. apply toep_template_diag.
  - intros i j. unfold T, toep_template, toep_unscaled. rewrite (absdiff_sym i j). reflexivity.
  - intros i j i' j' H. unfold T, toep_template, toep_unscaled. rewrite H. reflexivity.
  - intros Hpf Hq i j. unfold T, toep_template, toep_unscaled, toep_col.
    destruct (Nat.eqb (absdiff i j) 0).
    + rewrite Qmult_0_l. apply Qle_refl.
    + apply Qmult_le_0_compat; [apply Hpf|exact Hq].
  - intros i j Hij. unfold T, toep_template, toep_unscaled, toep_col.
    destruct (Nat.eqb_spec (absdiff i j) 0) as [E|E]; [unfold absdiff in E; lia|reflexivity].
Qed.

Lemma sumQr_correct f n : (sumQr f n == sumQ f n)%Q.
Proof. induction n; cbn [sumQr sumQ]; [reflexivity|]. rewrite Qred_correct, IHn. reflexivity. Qed.

Lemma sum2Qr_correct f n : (sum2Qr f n == sum2Q f n)%Q.
Proof.
  unfold sum2Qr, sum2Q. rewrite sumQr_correct. apply sumQ_ext. intros i _. apply sumQr_correct.
Qed.

(* line 859 in exact arithmetic: after `template *= k / np.sum(template)` the entries sum to k
   (the expected number of connections of one sample is K whenever no entry exceeds 1) *)
Theorem toep_template_sum n k pf :
  ~ (sum2Q (toep_unscaled pf) n == 0)%Q ->
  (sum2Q (toep_template pf (toep_scale n k pf)) n == inject_Z k)%Q.
Proof.
  intros HS. unfold toep_template.
  rewrite (sum2Q_ext _ (fun i j => toep_scale n k pf * toep_unscaled pf i j)%Q) by (intros; ring).
  rewrite sum2Q_scal. unfold toep_scale. rewrite sum2Qr_correct. field. exact HS.
Qed.

(* ---------------- the counted loop against the loop of Model/Generators.v ---------------- *)
Lemma toeplitz_cnt_loop n k T : forall stream CIJ itr,
  toeplitz_loop n k T CIJ itr stream =
  match toeplitz_cnt n k T CIJ itr stream with TDone R _ => Some R | _ => None end.
Proof.
  induction stream as [|X rest IH]; intros CIJ itr; cbn [toeplitz_loop toeplitz_cnt];
    destruct (sum2 CIJ n =? k); try reflexivity.
  destruct (10000 <? itr + 1); [reflexivity|apply IH].
Qed.

(* no hypothesis on the template is left: the diagonal is zeroed by the construction itself *)
Theorem toeplitz_profile_exact_K n k pf q stream R itr :
  Forall nonneg_sample stream ->
  maketoeplitz n k pf q stream = TDone R itr ->
  sum2 R n = k /\
  (forall i j, (i < n)%nat -> (j < n)%nat -> R i j = 0 \/ R i j = 1) /\
  (forall i, (i < n)%nat -> R i i = 0).
Proof.
  intros Hs Hrun. unfold maketoeplitz in Hrun.
  assert (Hl : toeplitz_loop n k (toep_template pf q) zeros 0 stream = Some R)
    by (rewrite toeplitz_cnt_loop, Hrun; reflexivity).
  apply (toeplitz_loop_spec n k (toep_template pf q) stream zeros 0 R) in Hl.
  - destruct Hl as [H1 H2]. split; [exact H1|]. split.
    + intros i j Hi Hj. apply (H2 i j Hi Hj).
    + intros i Hi. apply (H2 i i Hi Hi). reflexivity.
  - intros i. rewrite toep_template_diag. apply Qle_refl.
  - exact Hs.
  - intros i j _ _. split; [left; reflexivity|intros _; reflexivity].
Qed.

(* ---------------- which sample is returned; when the routine raises ---------------- *)
Definition qzero : mat Q := fun _ _ => 0%Q.
(* CIJ after t passes of the loop body *)
Definition tstate (n : nat) (T : mat Q) (C0 : mat Z) (stream : list (mat Q)) (t : nat) : mat Z :=
  match t with O => C0 | S t' => sample_lt n (nth t' stream qzero) T end.

Lemma tstate_cons n T C0 X rest t : tstate n T C0 (X :: rest) (S t) = tstate n T (sample_lt n X T) rest t.
Proof. destruct t; reflexivity. Qed.

Lemma toeplitz_cnt_spec n k T : forall stream C0 itr,
  match toeplitz_cnt n k T C0 itr stream with
  | TDone R itr' => exists m, itr' = itr + Z.of_nat m /\ (m <= length stream)%nat /\ R = tstate n T C0 stream m /\
                      sum2 R n = k /\ (forall t, (t < m)%nat -> sum2 (tstate n T C0 stream t) n <> k) /\
                      itr' <= Z.max itr 10000
  | TRaised itr' => exists m, itr' = itr + Z.of_nat m /\ (1 <= m <= length stream)%nat /\ 10000 < itr' /\
                      (forall t, (t < m)%nat -> sum2 (tstate n T C0 stream t) n <> k) /\
                      (itr <= 10000 -> itr' = 10001)
  | TNoFuel itr' => itr' = itr + Z.of_nat (length stream) /\
                      (forall t, (t <= length stream)%nat -> sum2 (tstate n T C0 stream t) n <> k)
  end.
Proof.
  induction stream as [|X rest IH]; intros C0 itr; cbn [toeplitz_cnt].
  - destruct (Z.eqb_spec (sum2 C0 n) k) as [E|E].
    + exists O. cbn [length tstate]. repeat split; try lia.
    + cbn [length]. split; [lia|]. intros t Ht. replace t with O by lia. exact E.
  - destruct (Z.eqb_spec (sum2 C0 n) k) as [E|E].
    + exists O. cbn [tstate]. repeat split; try lia.
    + destruct (Z.ltb_spec 10000 (itr + 1)) as [Hlt|Hge].
      * exists 1%nat. cbn [length]. repeat split; try lia.
        intros t Ht. replace t with O by lia. exact E.
      * specialize (IH (sample_lt n X T) (itr + 1)).
        destruct (toeplitz_cnt n k T (sample_lt n X T) (itr + 1) rest) as [R itr'|itr'|itr'].
        -- destruct IH as (m & H1 & H2 & H3 & H4 & H5 & H6). exists (S m). cbn [length].
           rewrite tstate_cons. repeat split; try lia; try assumption.
           intros t Ht. destruct t as [|t]; [exact E|]. rewrite tstate_cons. apply H5. lia.
        -- destruct IH as (m & H1 & H2 & H3 & H4 & H5). exists (S m). cbn [length].
           repeat split; try lia.
           intros t Ht. destruct t as [|t]; [exact E|]. rewrite tstate_cons. apply H4. lia.
        -- destruct IH as (H1 & H2). cbn [length]. split; [lia|].
           intros t Ht. destruct t as [|t]; [exact E|]. rewrite tstate_cons. apply H2. lia.
Qed.

(* the routine returns the first sample that has exactly K ones, after at most 10000 draws *)
Theorem toeplitz_first_accepted n k pf q stream R itr :
  maketoeplitz n k pf q stream = TDone R itr ->
  let T := toep_template pf q in
  0 <= itr <= 10000 /\ Z.of_nat (Z.to_nat itr) <= Z.of_nat (length stream) /\
  R = tstate n T zeros stream (Z.to_nat itr) /\
  (forall t, (t < Z.to_nat itr)%nat -> sum2 (tstate n T zeros stream t) n <> k).
Proof.
  intros Hrun T. unfold maketoeplitz in Hrun. fold T in Hrun.
  pose proof (toeplitz_cnt_spec n k T stream zeros 0) as H. rewrite Hrun in H.
  destruct H as (m & H1 & H2 & H3 & H4 & H5 & H6).
  assert (Hm : Z.to_nat itr = m) by lia. rewrite Hm.
  split; [lia|]. split; [lia|]. split; [exact H3|exact H5].
Qed.

(* BCTParamError is raised only after exactly 10001 draws, K != 0, and each of the first 10000 samples was rejected *)
Theorem toeplitz_raise_justified n k pf q stream itr :
  maketoeplitz n k pf q stream = TRaised itr ->
  let T := toep_template pf q in
  itr = 10001 /\ 10001 <= Z.of_nat (length stream) /\ k <> 0 /\
  (forall t, Z.of_nat t < 10000 -> sum2 (sample_lt n (nth t stream qzero) T) n <> k).
Proof.
  intros Hrun T. unfold maketoeplitz in Hrun. fold T in Hrun.
  pose proof (toeplitz_cnt_spec n k T stream zeros 0) as H. rewrite Hrun in H.
  destruct H as (m & H1 & H2 & H3 & H4 & H5).
  assert (Hi : itr = 10001) by (apply H5; lia).
  split; [exact Hi|]. split; [lia|]. split.
  - intros Hk. apply (H4 O); [lia|]. cbn [tstate]. unfold zeros. rewrite sum2_zero. lia.
  - intros t Ht. apply (H4 (S t)). lia.
Qed.

(* ... and the run that is out of recorded draws has rejected everything it saw *)
Theorem toeplitz_nofuel n k pf q stream itr :
  maketoeplitz n k pf q stream = TNoFuel itr ->
  itr = Z.of_nat (length stream) /\
  (forall t, (t <= length stream)%nat -> sum2 (tstate n (toep_template pf q) zeros stream t) n <> k).
Proof.
  intros Hrun. unfold maketoeplitz in Hrun.
  pose proof (toeplitz_cnt_spec n k (toep_template pf q) stream zeros 0) as H. rewrite Hrun in H.
  destruct H as (H1 & H2). split; [lia|exact H2].
Qed.
