(* Proofs/EquivModelsSpectral.v — eigenvector_centrality_und on a CONNECTED undirected non-negative network:
     centrality.py : vals, vecs = eigh / eigs(CIJ);  return abs(vecs[:, argmax(vals)])
   What is assumed is only the specification of the LAPACK call, of its output (lam, u):
     A u = lam u,   forall x, x^T A x <= lam x^T x  (lam = the largest eigenvalue of the symmetric A),   u <> 0.
   C18 (Proofs/LinearSpectralFull.v, eigvec_abs_ok) turns that into: |u| is a non-negative eigenvector for lam of the same
   norm; the uniqueness half of Perron-Frobenius (Proofs/EquivModelsLinear.v, over Q) then gives
     (1) |u| is STRICTLY positive, and every non-negative non-zero eigenvector w of A - for whatever eigenvalue - has
         that eigenvalue equal to lam and is a positive multiple of |u|; with the norm of u it IS |u|: on a connected
         network the routine returns THE positive eigenvector of that norm, whatever eigenvector of lam LAPACK picked
         (sign, and - a priori - any vector of the top eigenspace);
     (2) two unrelated LAPACK outputs, one for A and one for the renumbered matrix, of equal norm: the eigenvalues agree
         and the returned vectors agree up to the renumbering.  This discharges the hypothesis that
         C04_eigenvector_full puts on `solver` ("returns a non-negative non-zero eigenvector of fixed norm"). *)
From Coq Require Import QArith Qabs Qring Lia Lqa Arith List Bool.
From BCT Require Import Base.Mat Base.SumQ Model.SymTerm Proofs.EquivModels Model.Linear Proofs.Linear.
From BCT Require Import Proofs.LinearSpectral Proofs.LinearSpectralFull Proofs.EquivModelsLinear.
From BCT Require Proofs.SymTerm.
Import ListNotations.
Open Scope Q_scope.

(* the specification of `eigh(A)` + `argmax(vals)` for a symmetric matrix: a non-zero eigenvector for the top of the
   Rayleigh quotient *)
Definition top_eigenpair (n : nat) (A : mat Q) (lam : Q) (u : vec Q) : Prop :=
  (forall i, (i < n)%nat -> mvecQ n A u i == lam * u i) /\
  (forall x : vec Q, qform n A x <= lam * normsq n x) /\
  (exists i, (i < n)%nat /\ ~ u i == 0).

Section Connected.
Variables (n : nat) (A : mat Q).
Hypothesis Hn : (0 < n)%nat.
Hypothesis Asym : forall i j, (i < n)%nat -> (j < n)%nat -> A i j == A j i.
Hypothesis Ann : forall i j, (i < n)%nat -> (j < n)%nat -> 0 <= A i j.
Hypothesis Aconn : irreducible n A.

Lemma top_abs_facts lam u : top_eigenpair n A lam u ->
  nonneg_vec n (vabs u) /\ eigvec n A (vabs u) lam /\ (exists i, (i < n)%nat /\ ~ vabs u i == 0) /\
  normsq n (vabs u) == normsq n u.
Proof.
  intros [Hu [Hray [i [Hi Hnz]]]].
  destruct (eigvec_abs_ok n A u lam Ann Asym Hu Hray) as [P [N E]].
  split; [intros k _; apply P|]. split; [exact E|]. split; [|exact N].
  exists i. split; [exact Hi|apply vabs_nonzero; exact Hnz].
Qed.

Theorem eigvec_abs_perron lam u : top_eigenpair n A lam u ->
  (forall i, (i < n)%nat -> 0 < vabs u i) /\
  (forall i, (i < n)%nat -> mvecQ n A (vabs u) i == lam * vabs u i) /\
  normsq n (vabs u) == normsq n u /\
  (forall (w : vec Q) (mu : Q),
     (forall i, (i < n)%nat -> 0 <= w i) -> (forall i, (i < n)%nat -> mvecQ n A w i == mu * w i) ->
     (exists i, (i < n)%nat /\ ~ w i == 0) ->
     mu == lam /\
     (exists t, 0 < t /\ forall i, (i < n)%nat -> w i == t * vabs u i) /\
     (normsq n w == normsq n u -> forall i, (i < n)%nat -> w i == vabs u i)).
Proof.
  intros T. destruct (top_abs_facts lam u T) as [P [E [NZ N]]].
  split; [exact (nonneg_eig_positive n A Ann Aconn (vabs u) lam P E NZ)|]. split; [exact E|]. split; [exact N|].
  intros w mu Pw Ew NZw.
  destruct (perron_unique n A Asym Ann Aconn (vabs u) w lam mu Hn P E NZ Pw Ew NZw) as [El [t [Ht Hw]]].
  split; [symmetry; exact El|]. split; [exists t; split; assumption|].
  intros Hnorm.
  apply (proj2 (perron_unique_normalised n A Asym Ann Aconn (vabs u) w lam mu Hn P E NZ Pw Ew NZw
                  ltac:(rewrite N; exact Hnorm))).
Qed.
End Connected.

(* (2) equivariance of what eigenvector_centrality_und returns, from LAPACK's specification alone *)
Theorem eigenvector_abs_equivariant : forall n p, perm_on n p -> (0 < n)%nat ->
  forall (A : mat Q) (lam lam' : Q) (u u' : vec Q),
  (forall i j, (i < n)%nat -> (j < n)%nat -> A i j == A j i) ->
  (forall i j, (i < n)%nat -> (j < n)%nat -> 0 <= A i j) -> irreducible n A ->
  top_eigenpair n A lam u -> top_eigenpair n (pm p A) lam' u' -> normsq n u' == normsq n u ->
  lam' == lam /\ forall i, (i < n)%nat -> vabs u' i == vabs u (p i).
Proof.
  intros n p Hp Hn A lam lam' u u' Asym Ann Aconn T T' Hnorm.
  assert (As' : forall i j, (i < n)%nat -> (j < n)%nat -> pm p A i j == pm p A j i).
  { intros i j Hi Hj. apply Asym; [apply (perm_lt n p i Hp Hi)|apply (perm_lt n p j Hp Hj)]. }
  assert (Ann' : forall i j, (i < n)%nat -> (j < n)%nat -> 0 <= pm p A i j).
  { intros i j Hi Hj. apply Ann; [apply (perm_lt n p i Hp Hi)|apply (perm_lt n p j Hp Hj)]. }
  destruct (top_abs_facts n A Asym Ann lam u T) as [P [E [NZ N]]].
  destruct (top_abs_facts n (pm p A) As' Ann' lam' u' T') as [P' [E' [NZ' N']]].
  destruct (eigenvector_model_equivariant n p Hp A (vabs u) (vabs u') lam lam' Hn Asym Ann Aconn P E NZ P' E' NZ')
    as [El [_ Ev]].
  split; [exact El|]. apply Ev. rewrite N, N'. exact Hnorm.
Qed.

(* non-vacuity: K_2 (connected), lam = 1, u = (-1,-1) is a top eigenpair *)
Example top_eigenpair_nonvacuous :
  irreducible 2 K2Q /\ top_eigenpair 2 K2Q 1 (fun _ => -(1)).
Proof.
  destruct eigvec_abs_ok_nonvacuous as [_ [_ [H3 H4]]].
  split.
  - intros i j Hi Hj.
    assert (R01 : reach 2 K2Q 0 1) by (apply (reach_step 2 K2Q 0%nat 0%nat 1%nat (reach_refl _ _ _)); [lia|reflexivity]).
    assert (R10 : reach 2 K2Q 1 0) by (apply (reach_step 2 K2Q 1%nat 1%nat 0%nat (reach_refl _ _ _)); [lia|reflexivity]).
    destruct i as [|[|i]]; [| |lia]; (destruct j as [|[|j]]; [| |lia]); auto using reach_refl.
  - split; [exact H3|]. split; [exact H4|]. exists 0%nat. split; [lia|]. cbv beta. intros E. discriminate E.
Qed.
