(* Proofs/ModularityRunFull.v — C02/C07: run-level statements on the EXTRACTED functions that were only available at
   helper level: labels of run_finetune_und/_dir, run_given / run_und_sign composed with init_lab, restart from a
   routine's own output (finetune_und/_dir/_und_sign, community_louvain) with NO hypothesis on either run, the hierarchy
   returned by modularity_louvain_und(hierarchy=True) (the [1:-1] slice inside the model), and the recursion of the
   spectral modularity_und/_dir around its numeric kernel. *)
From Coq Require Import QArith Qring Lia Lqa Arith List Bool ZArith Setoid Permutation.
From BCT Require Import Base.Mat Base.SumQ Base.ListX Model.Modularity Model.ModularitySelect Proofs.ModularitySums
  Proofs.ModularityQ Proofs.ModularityGain Proofs.ModularityRun Proofs.ModularityRunSign Proofs.ModularityRunB
  Proofs.ModularityBound Proofs.ModularitySelect Proofs.ModularityAuto.
Import ListNotations.
Open Scope Q_scope.

(* ================= labels ================= *)
Lemma out_lab_nth n lb x : (x < n)%nat -> nth x (out_lab n lb) O = S (lb x).
Proof. intros Hx. unfold out_lab, to_list. rewrite map_map. exact (nth_map_seq (fun y => S (lb y)) O n x Hx). Qed.

Lemma out_lab_relabel_exact n (c : vec Z) : exists k, labels_exact n (out_lab n (tabv O n (relabel0 n c))) k.
Proof.
  exists (nlab n c). destruct (relabel_range n c) as [R1 R2].
  assert (E : forall x, (x < n)%nat -> nth x (out_lab n (tabv O n (relabel0 n c))) O = relabel n c x).
  { intros x Hx. rewrite (out_lab_nth n _ x Hx). rewrite tabv_spec by exact Hx. reflexivity. }
  split; [|split].
  - unfold out_lab. rewrite map_length. apply to_list_length.
  - intros x Hx. rewrite (E x Hx). apply R1; exact Hx.
  - intros t Ht. destruct (R2 t Ht) as [u [Hu Eu]]. exists u. split; [exact Hu|]. rewrite (E u Hu). exact Eu.
Qed.

Theorem run_finetune_und_labels rows g ci moves :
  let r := run_finetune_und rows g ci moves in exists k, labels_exact (length rows) (ret_ci r) k.
Proof.
  unfold run_finetune_und. cbv zeta.
  destruct (finetune_und_init _ _ _) as [st0 k]. destruct (replay _ _ st0 moves) as [tr st].
  unfold ret_ci. cbn [fst snd]. apply out_lab_exact.
Qed.

Theorem run_finetune_dir_labels rows g ci moves :
  let r := run_finetune_dir rows g ci moves in exists k, labels_exact (length rows) (ret_ci r) k.
Proof.
  unfold run_finetune_dir. cbv zeta.
  destruct (finetune_dir_init _ _ _) as [st0 [ko ki]]. destruct (replay _ _ st0 moves) as [tr st].
  unfold ret_ci. cbn [fst snd]. apply out_lab_exact.
Qed.

(* modularity_louvain_dir AS IT IS: its q is refuted (C02_louvain_dir_q_refuted), but the label clause holds — the labels of
   every computed level and the returned labels are exactly 1..k, for every input and every move lists *)
Lemma louvain_dir_levels_labels n0 W g s : forall lv n prev, lab1_ok n0 n prev ->
  Forall (fun e : level_t * Q => exists k, labels_exact n0 (lvl_labels e) k) (louvain_dir_levels n0 W g s n prev lv).
Proof.
  induction lv as [|moves rest IH]; intros n prev Hp; cbn [louvain_dir_levels]; [constructor|].
  destruct (louvain_dir_level n0 n W g s moves) as [tr [m0 [n' W1]]] eqn:E.
  unfold louvain_dir_level in E. cbv zeta in E.
  destruct (replay _ _ _ moves) as [tr' st] in E. injection E as _ Em En _.
  assert (Em' : m0 = lev_m0 n (lab st)) by (symmetry; exact Em).
  assert (En' : n' = lev_n n (lab st)) by (symmetry; exact En).
  destruct (compose_step n0 n n' prev m0 Hp) as [Hc _].
  { rewrite Em', En'. apply lev_m0_lt. }
  { rewrite Em', En'. apply lev_m0_surj. }
  constructor.
  - unfold lvl_labels. cbn [fst snd]. exists n'. apply labels_exact_to_list. exact Hc.
  - apply IH. exact Hc.
Qed.

Theorem louvain_dir_run_labels rows g lv :
  let r := run_louvain_dir rows g lv in exists k, labels_exact (length rows) (ret_ci r) k.
Proof.
  unfold run_louvain_dir. cbv zeta.
  set (res := louvain_dir_levels (length rows) _ g _ (length rows) (fun x => S x) lv).
  pose proof (louvain_dir_levels_labels (length rows) (tabQ (length rows) (length rows) (of_rows 0 rows)) g
                (stot (length rows) (tabQ (length rows) (length rows) (of_rows 0 rows))) lv (length rows) (fun x => S x)
                (lab1_S (length rows))) as HF. fold res in HF.
  destruct (pick_prev_cases (length rows) res) as [[_ Ep]|[_ [e [He Ep]]]]; rewrite Ep; unfold ret_ci; cbn [fst snd].
  - exists (length rows). apply labels_exact_default.
  - rewrite Forall_forall in HF. exact (HF e He).
Qed.

(* ================= given partition, on the extracted functions ================= *)
(* modularity_und / modularity_dir with kci: every matrix, gamma and integer label list *)
Theorem run_given_consistent dir rows g ci : fst (run_given dir rows g ci) = snd (run_given dir rows g ci).
Proof.
  unfold run_given. cbv zeta. destruct dir; cbn [fst snd]; apply Qred_complete;
    [apply given_partition_returns_Q_dir|apply given_partition_returns_Q_und].
Qed.

(* modularity_und_sign(W, ci, qtype): q is the signed modularity of the given partition, the returned labels are that
   partition labelled exactly 1..k *)
Theorem run_und_sign_consistent rows qt ci : sym_rows rows ->
  let r := run_und_sign rows qt ci in
  fst (snd r) = snd (snd r) /\ (exists k, labels_exact (length rows) (fst r) k) /\
  (forall u v, (u < length rows)%nat -> (v < length rows)%nat ->
     (nth u (fst r) O = nth v (fst r) O <-> nth u ci 0%Z = nth v ci 0%Z)).
Proof.
  intros Hs. unfold run_und_sign. cbv zeta.
  set (n := length rows). set (W := of_rows 0 rows). set (p := sign_params n W (qtype_of qt)).
  pose proof (given_partition_returns_Q_sign n W (qtype_of qt) (init_lab n ci) (init_lab_lt n ci) Hs) as H.
  cbv zeta in H. fold p in H.
  destruct (sign_init n p (init_lab n ci)) as [st0 [kn0 kn1]]. cbn [fst snd] in *.
  split; [apply Qred_complete; exact H|]. split.
  - unfold init_lab. apply out_lab_relabel_exact.
  - intros u v Hu Hv. rewrite !out_lab_nth by assumption.
    rewrite <- (init_lab_same_partition n ci u v Hu Hv). split; [intros E; injection E as E; exact E|intros ->; reflexivity].
Qed.

(* ================= restart from the routine's own output ================= *)
Lemma init_lab_nat_same n l i j : (i < n)%nat -> (j < n)%nat ->
  (init_lab n (map Z.of_nat l) i = init_lab n (map Z.of_nat l) j <-> nth i l O = nth j l O).
Proof.
  intros Hi Hj. rewrite (init_lab_same_partition n (map Z.of_nat l) i j Hi Hj).
  change 0%Z with (Z.of_nat O). rewrite !map_nth. split; [apply Nat2Z.inj|intros ->; reflexivity].
Qed.

Lemma labf_same n lb i j : (i < n)%nat -> (j < n)%nat ->
  (nth i (out_lab n lb) O = nth j (out_lab n lb) O <-> lb i = lb j).
Proof. intros Hi Hj. rewrite !out_lab_nth by assumption. split; [intros E; injection E as E; exact E|intros ->; reflexivity]. Qed.

(* the definitional quality reported for the result of one run is the start quality of a run started from that result *)
Lemma finetune_und_link rows g ci ms ms2 :
  let r1 := run_finetune_und rows g ci ms in
  ret_qstart (run_finetune_und rows g (map Z.of_nat (ret_ci r1)) ms2) = ret_qdef r1.
Proof.
  cbv zeta. set (ci2 := map Z.of_nat (ret_ci (run_finetune_und rows g ci ms))).
  unfold run_finetune_und at 1. cbv zeta.
  destruct (finetune_und_init _ _ (init_lab (length rows) ci2)) as [st0 k]. destruct (replay _ _ st0 ms2) as [tr st].
  unfold ret_qstart. cbn [fst snd]. subst ci2.
  unfold run_finetune_und. cbv zeta.
  destruct (finetune_und_init _ _ (init_lab (length rows) ci)) as [st1 k1]. destruct (replay _ _ st1 ms) as [tr1 st'].
  unfold ret_qdef, ret_ci. cbn [fst snd]. apply Qred_complete. apply Qund_partition_invariant.
  intros i j Hi Hj. rewrite (init_lab_nat_same _ _ i j Hi Hj). apply labf_same; assumption.
Qed.

Lemma finetune_dir_link rows g ci ms ms2 :
  let r1 := run_finetune_dir rows g ci ms in
  ret_qstart (run_finetune_dir rows g (map Z.of_nat (ret_ci r1)) ms2) = ret_qdef r1.
Proof.
  cbv zeta. set (ci2 := map Z.of_nat (ret_ci (run_finetune_dir rows g ci ms))).
  unfold run_finetune_dir at 1. cbv zeta.
  destruct (finetune_dir_init _ _ (init_lab (length rows) ci2)) as [st0 [ko ki]]. destruct (replay _ _ st0 ms2) as [tr st].
  unfold ret_qstart. cbn [fst snd]. subst ci2.
  unfold run_finetune_dir. cbv zeta.
  destruct (finetune_dir_init _ _ (init_lab (length rows) ci)) as [st1 [ko1 ki1]]. destruct (replay _ _ st1 ms) as [tr1 st'].
  unfold ret_qdef, ret_ci. cbn [fst snd]. apply Qred_complete. apply Qdir_partition_invariant.
  intros i j Hi Hj. rewrite (init_lab_nat_same _ _ i j Hi Hj). apply labf_same; assumption.
Qed.

Lemma finetune_sign_link rows g qt ci ms ms2 :
  let r1 := run_finetune_sign rows g qt ci ms in
  ret_qstart (run_finetune_sign rows g qt (map Z.of_nat (ret_ci r1)) ms2) = ret_qdef r1.
Proof.
  cbv zeta. set (ci2 := map Z.of_nat (ret_ci (run_finetune_sign rows g qt ci ms))).
  unfold run_finetune_sign at 1. cbv zeta.
  destruct (sign_init _ _ (init_lab (length rows) ci2)) as [st0 [ko ki]]. destruct (replay _ _ st0 ms2) as [tr st].
  unfold ret_qstart. cbn [fst snd]. subst ci2.
  unfold run_finetune_sign. cbv zeta.
  destruct (sign_init _ _ (init_lab (length rows) ci)) as [st1 [ko1 ki1]]. destruct (replay _ _ st1 ms) as [tr1 st'].
  unfold ret_qdef, ret_ci. cbn [fst snd]. apply Qred_complete. apply Qsign_partition_invariant.
  intros i j Hi Hj. rewrite (init_lab_nat_same _ _ i j Hi Hj). apply labf_same; assumption.
Qed.

Lemma community_louvain_link rows g kind ci lv lv2 :
  let r1 := run_community_louvain rows g kind ci lv in
  ret_qstart (run_community_louvain rows g kind (map Z.of_nat (ret_ci r1)) lv2) = ret_qdef r1.
Proof.
  cbv zeta. rewrite (run_community_louvain_eq rows g kind (map Z.of_nat _) lv2). cbv zeta. unfold ret_qstart. cbn [fst snd].
  rewrite (run_community_louvain_eq rows g kind ci lv). cbv zeta. unfold ret_qdef, ret_ci. cbn [fst snd].
  apply Qred_complete. apply Qbuiltin_partition_invariant.
  intros i j Hi Hj. apply init_lab_nat_same; assumption.
Qed.

Section Restart.
Variable thr : Q.
Variable maxit : option nat.
Hypothesis thr_nonneg : 0 <= thr.

(* whatever produced the first result (ANY move list), a second run of the decision rule started from it, on ANY
   permutation stream, does not end below it *)
Theorem finetune_und_restart rows g ci ms perms2 : sym_rows rows -> 0 < stot (length rows) (of_rows 0 rows) ->
  let r1 := run_finetune_und rows g ci ms in
  ret_qdef r1 <= ret_qdef (run_finetune_und_auto rows g thr maxit (map Z.of_nat (ret_ci r1)) perms2).
Proof.
  intros Hs Hp r1. pose proof (finetune_und_auto_monotone thr maxit thr_nonneg rows g (map Z.of_nat (ret_ci r1)) perms2 Hs Hp) as H.
  cbv zeta in H. unfold run_finetune_und_auto in *. unfold r1 in *. rewrite finetune_und_link in H. exact H.
Qed.

Theorem finetune_dir_restart rows g ci ms perms2 : 0 < stot (length rows) (of_rows 0 rows) ->
  let r1 := run_finetune_dir rows g ci ms in
  ret_qdef r1 <= ret_qdef (run_finetune_dir_auto rows g thr maxit (map Z.of_nat (ret_ci r1)) perms2).
Proof.
  intros Hp r1. pose proof (finetune_dir_auto_monotone thr maxit thr_nonneg rows g (map Z.of_nat (ret_ci r1)) perms2 Hp) as H.
  cbv zeta in H. unfold run_finetune_dir_auto in *. unfold r1 in *. rewrite finetune_dir_link in H. exact H.
Qed.

Theorem finetune_sign_restart rows g qt ci ms perms2 : sym_rows rows ->
  let r1 := run_finetune_sign rows g qt ci ms in
  ret_qdef r1 <= ret_qdef (run_finetune_sign_auto rows g thr maxit qt (map Z.of_nat (ret_ci r1)) perms2).
Proof.
  intros Hs r1. pose proof (finetune_sign_auto_monotone thr maxit thr_nonneg rows g qt (map Z.of_nat (ret_ci r1)) perms2 Hs) as H.
  cbv zeta in H. unfold run_finetune_sign_auto in *. unfold r1 in *. rewrite finetune_sign_link in H. exact H.
Qed.

Theorem community_louvain_restart rows g kind ci lv perms2 : perms2 <> [] ->
  ((kind <= 1)%nat -> 0 < stot (length rows) (rowsW rows)) ->
  let r1 := run_community_louvain rows g kind ci lv in
  ret_qdef r1 <= ret_qdef (run_community_louvain_auto rows g thr maxit kind (map Z.of_nat (ret_ci r1)) perms2).
Proof.
  intros Hne Hp r1.
  destruct (community_louvain_auto_monotone thr maxit thr_nonneg rows g kind (map Z.of_nat (ret_ci r1)) perms2 Hne Hp) as [_ H].
  unfold run_community_louvain_auto in *. unfold r1 in *. rewrite community_louvain_link in H. exact H.
Qed.
End Restart.

(* ================= the hierarchy returned by modularity_louvain_und(hierarchy=True) ================= *)
Lemma removelast_map {A B} (f : A -> B) l : removelast (map f l) = map f (removelast l).
Proof.
  induction l as [|a r IH]; [reflexivity|]. destruct r as [|b r]; [reflexivity|].
  cbn [map removelast] in *. rewrite <- IH. reflexivity.
Qed.

Lemma Forall_removelast {A} (P : A -> Prop) l : Forall P l -> Forall P (removelast l).
Proof.
  induction l as [|a r IH]; intros H; [constructor|]. inversion H; subst. destruct r as [|b r]; [constructor|].
  cbn [removelast]. constructor; [assumption|apply IH; assumption].
Qed.

(* for every symmetric input, gamma and move lists whose level count obeys the code's stopping rule (exact q's): the
   returned (ci, q) lists have equal length, every pair is consistent ON THE ORIGINAL NETWORK with labels exactly 1..k,
   and the q's - hence the TRUE modularities of the returned partitions - increase strictly (by >= 1e-10) from -1 *)
Theorem louvain_und_hierarchy rows g lv : sym_rows rows ->
  stop_rule_ok (level_qs (run_louvain_und rows g lv)) ->
  let h := run_louvain_und_hier rows g lv in
  length (fst h) = length (snd h) /\
  Forall2 (fun ci q => (exists k, labels_exact (length rows) ci k) /\
                       q = Qred (Qund (length rows) (rowsW rows) g (fun x => nth x ci O))) (fst h) (snd h) /\
  incr_from (- (1)) (snd h).
Proof.
  intros Hs Hstop. unfold run_louvain_und_hier. cbv zeta. cbn [fst snd].
  pose proof (louvain_und_run_levels rows g lv Hs) as HL.
  split; [rewrite !map_length; reflexivity|]. split.
  - apply Forall_removelast in HL. induction HL as [|l r Hl _ IH]; cbn [map]; constructor; [|exact IH].
    destruct Hl as (Hk & Eq & _). split; [exact Hk|exact Eq].
  - rewrite <- removelast_map. fold (level_qs (run_louvain_und rows g lv)).
    unfold stop_rule_ok in Hstop. rewrite <- Hstop. apply levels_strict.
Qed.

(* ================= spectral modularity_und / modularity_dir: the recursion around the numeric kernel ================= *)
Lemma pick_perm md : forall a, Permutation (pick true md a ++ pick false md a) md.
Proof.
  induction md as [|x r IH]; intros a; cbn [pick]; [constructor|].
  destruct (match a with [] => false | b :: _ => b end); cbn [Bool.eqb].
  - cbn [app]. constructor. apply IH.
  - apply Permutation_sym. apply Permutation_cons_app. apply Permutation_sym. apply IH.
Qed.

(* whatever the eigen-solver and the fine-tuning sweep deliver, the code's own null-module test and its
   where(mod_asgn == +-1) selections make a good split *)
Theorem spectral_split_good asgn : good_split (spectral_split asgn).
Proof.
  intros md m1 m2. unfold spectral_split. destruct (asgn md) as [a|]; [|discriminate].
  destruct (pick true md a) as [|x1 r1] eqn:E1; [discriminate|].
  destruct (pick false md a) as [|x2 r2] eqn:E2; [discriminate|].
  intros E. injection E as <- <-. split; [discriminate|]. split; [discriminate|].
  rewrite <- E1, <- E2. apply pick_perm.
Qed.

Theorem run_spectral_ok dir rows g fuel asgn : (0 < length rows)%nat ->
  let r := run_spectral dir rows g fuel asgn in
  fst (snd r) = snd (snd r) /\ exists k, labels_exact (length rows) (fst r) k.
Proof.
  intros Hn. unfold run_spectral. cbv zeta. set (n := length rows) in *.
  set (ls := bisect fuel (spectral_split asgn) (seq 0 n)).
  destruct (spectral_labels_partial n fuel (spectral_split asgn) (spectral_split_good asgn) Hn) as (R1 & R2 & G1 & G2).
  fold ls in R1, R2, G1, G2. cbn [fst snd]. split.
  - destruct dir; cbn [fst snd]; apply Qred_complete; [apply G2|apply G1].
  - exists (length ls). split; [apply to_list_length|]. split.
    + intros x Hx. rewrite nth_to_list by exact Hx. apply R1; exact Hx.
    + intros t Ht. destruct (R2 t Ht) as [x [Hx E]]. exists x. split; [exact Hx|]. rewrite nth_to_list by exact Hx. exact E.
Qed.

(* THE FULL STATEMENT of the spectral clause (NOT proved as stated about the numeric kernel; kept as the target):
   with [eig md] = the sign pattern (max_eigvec >= 0) of an eigenvector LAPACK returns for the largest eigenvalue of the
   module's modularity matrix, the decision of `recur` is [spectral_decide] (q = s.modmat.s > 0 test + the fine-tuning
   sweep [kl_loop], Model/ModularitySelect.v), the recursion runs to completion (fuel = n suffices: every split is
   proper), and the routine returns that partition labelled exactly 1..k with its definitional modularity.
   What is PROVED is the conclusion for EVERY decision oracle (run_spectral_ok), hence in particular for this one
   (spectral_full_instance below); what is NOT established is that [spectral_decide] / [eig] are what the floating-point
   code computes (eig/eigh and the tie-ridden float comparisons of the sweep are not tied). *)
Definition spectral_full_statement : Prop :=
  forall (dir : bool) (rows : list (list Q)) (g : Q) (eig : list nat -> list bool), (0 < length rows)%nat ->
  let n := length rows in
  let r := run_spectral dir rows g n (fun md => spectral_decide dir n (of_rows 0 rows) g md (eig md)) in
  fst (snd r) = snd (snd r) /\ (exists k, labels_exact n (fst r) k) /\
  (* completion: no module of the result can be split further by the same decision *)
  (forall b, In b (bisect n (spectral_split (fun md => spectral_decide dir n (of_rows 0 rows) g md (eig md))) (seq 0 n)) ->
     spectral_split (fun md => spectral_decide dir n (of_rows 0 rows) g md (eig md)) b = None).

(* the part of it that follows from the oracle-level theorem *)
Theorem spectral_full_instance dir rows g eig : (0 < length rows)%nat ->
  let n := length rows in
  let r := run_spectral dir rows g n (fun md => spectral_decide dir n (of_rows 0 rows) g md (eig md)) in
  fst (snd r) = snd (snd r) /\ (exists k, labels_exact n (fst r) k).
Proof. intros Hn. apply run_spectral_ok. exact Hn. Qed.

(* non-vacuity: two triangles joined by an edge; the oracle splits {0..5} into the triangles and declines further *)
Example run_spectral_nonvacuous :
  let tb := [([0; 1; 2; 3; 4; 5], Some [true; true; true; false; false; false]); ([0; 1; 2], None);
             ([3; 4; 5], Some [true; true; true])]%nat in
  fst (run_spectral_table false ex_rows 1 tb) = [1; 1; 1; 2; 2; 2]%nat /\
  fst (snd (run_spectral_table false ex_rows 1 tb)) = 5 # 14.
Proof. vm_compute. split; reflexivity. Qed.
