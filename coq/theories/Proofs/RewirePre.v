(* Proofs/RewirePre.v — the precondition checks of randmio_und_connected / latmio_und_connected:
   input that passes them is symmetric and connected (so asymmetric or disconnected input is rejected). *)
From Coq Require Import ZArith List Arith Bool Lia Relations.
From BCT Require Import Base.Mat Base.ListX Model.Components Model.Rewire Proofs.RewireConn.
From BCT Require Proofs.Components.
Import ListNotations.
Open Scope Z_scope.

Lemma path_reach n A u v : Components.path n A u v -> reach n A u v.
Proof.
  induction 1 as [u|u v w Hu Hv Hnz Hp IH]; [apply reach_refl|].
  eapply reach_trans; [apply reach_step; split; [exact Hu|split; [exact Hv|exact Hnz]]|exact IH].
Qed.

Theorem precheck_und_connected r n R0 :
  is_und r = true -> is_conn r = true -> precheck r n R0 = true ->
  sym_on n R0 /\ connected n R0.
Proof.
  intros U C H. unfold precheck in H. rewrite U, C in H. cbn [andb] in H.
  destruct (number_of_components n R0) as [m|] eqn:N; [|discriminate]. apply Nat.leb_le in H.
  destruct (proj1 (Proofs.Components.number_of_components_def n R0 m) N) as (comps & sizes & G & Em).
  split.
  - (* accepted => symmetric *)
    intros i j Hi Hj. destruct (Z.eq_dec (R0 i j) (R0 j i)) as [E|E]; [exact E|].
    exfalso. assert (get_components n R0 = None) by (apply Proofs.Components.asym_rejected; exists i, j; auto).
    congruence.
  - intros x y Hx Hy. apply path_reach.
    destruct (Proofs.Components.components_iff_path n R0 comps sizes G) as [_ Iff].
    apply Iff; auto.
    destruct (Proofs.Components.number_is_class_count n R0 m N) as (reps & Lr & _ & _ & Cover).
    destruct (Cover x Hx) as (i & Hi & Pi). destruct (Cover y Hy) as (j & Hj & Pj).
    assert (i = O) by lia. assert (j = O) by lia. subst i j.
    assert (Hr: (nth 0 reps O < n)%nat).
    { destruct (Proofs.Components.number_is_class_count n R0 m N) as (reps' & _ & _ & _ & _). 
      destruct (Nat.eq_dec n O); [lia|].
      (* the representative is a node: it has a path to x < n, and path endpoints... use labels instead *)
      destruct (lt_dec (nth 0 reps O) n); [assumption|].
      (* a path from a non-node can only be the trivial one *)
      inversion Pi; subst; lia. }
    transitivity (nth (nth 0 reps O) comps O).
    + symmetry. apply Iff; auto.
    + apply Iff; auto.
Qed.

(* ---------- the converse: symmetric connected input passes the checks ---------- *)
Lemma reach_path n A u v : reach n A u v -> Components.path n A u v.
Proof.
  induction 1 as [u v (Hu & Hv & Hnz)|u|u w v _ IH1 _ IH2].
  - eapply Components.path_step; [exact Hu|exact Hv|exact Hnz|apply Components.path_refl].
  - apply Components.path_refl.
  - eapply Proofs.Components.path_trans; eassumption.
Qed.

Theorem precheck_und_complete r n R0 :
  is_und r = true -> is_conn r = true -> sym_on n R0 -> connected n R0 -> precheck r n R0 = true.
Proof.
  intros U C Hs Hc. unfold precheck. rewrite U, C. cbn [andb].
  destruct (number_of_components n R0) as [m|] eqn:N.
  - apply Nat.leb_le.
    destruct (Proofs.Components.number_is_class_count n R0 m N) as (reps & Lr & Hlt & Hinj & _).
    destruct (le_lt_dec m 1) as [Hm|Hm]; [exact Hm|exfalso].
    assert (H01: 0%nat = 1%nat).
    { apply Hinj; [lia|lia|]. apply reach_path. apply Hc; apply Hlt; lia. }
    discriminate.
  - exfalso. unfold number_of_components in N.
    destruct (get_components n R0) as [[cs sz]|] eqn:G; [discriminate|].
    apply Proofs.Components.asym_rejected in G. destruct G as (i & j & Hi & Hj & Hne). apply Hne. apply Hs; assumption.
Qed.

(* Rejected is exactly the failure of the input checks *)
Lemma run_rejected_iff r n R0 itr D s0 : run_routine r n R0 itr D s0 = Rejected <-> precheck r n R0 = false.
Proof.
  unfold run_routine. destruct (precheck r n R0); cbn [negb]; split; try reflexivity; try discriminate.
  intros H. exfalso.
  destruct (if is_latt r then match s0 with DPerm p :: s1 => Some (p, tab 0 n n (conj_perm (of_list O p) R0), s1) | _ => None end
            else Some (seq 0 n, R0, s0)) as [[[p R1] s1]|]; [|discriminate].
  destruct (init_state _ n R1) as [st0 k]. destruct (Nat.ltb n 2); [discriminate|].
  destruct (iterate _ _ _ _ _ _ _) as [[[st s2] tr]|]; discriminate.
Qed.

Theorem run_und_rejects r n R0 itr D s0 :
  is_und r = true -> is_conn r = true -> ~ (sym_on n R0 /\ connected n R0) -> run_routine r n R0 itr D s0 = Rejected.
Proof.
  intros U C H. apply run_rejected_iff. destruct (precheck r n R0) eqn:P; [|reflexivity].
  exfalso. apply H. apply (precheck_und_connected r n R0 U C P).
Qed.

Theorem run_und_accepts r n R0 itr D s0 :
  is_und r = true -> is_conn r = true -> sym_on n R0 -> connected n R0 -> run_routine r n R0 itr D s0 <> Rejected.
Proof.
  intros U C Hs Hc H. apply run_rejected_iff in H. rewrite (precheck_und_complete r n R0 U C Hs Hc) in H. discriminate.
Qed.

(* randomize_graph_partial_und has no input check at all *)
Lemma run_partial_never_rejected n A B maxswap s0 : run_partial_und n A B maxswap s0 <> Rejected.
Proof.
  unfold run_partial_und. destruct (init_state ELtriu1 n A) as [st0 k].
  destruct (Nat.eqb k 0 && negb (Nat.eqb maxswap 0))%bool; [discriminate|].
  destruct (until_swaps _ _ _ _ _ _ _) as [[[st s2] tr]|]; discriminate.
Qed.
