(* Proofs/RewirePre.v — the precondition checks of randmio_und_connected / latmio_und_connected:
   input that passes them is symmetric and connected (so asymmetric or disconnected input is rejected). *)
From Coq Require Import ZArith List Arith Bool Lia Relations.
From BCT Require Import Base.Mat Base.ListX Model.Components Model.Rewire Proofs.RewireConn.
From BCT Require Proofs.Components.
Import ListNotations.
Open Scope Z_scope.

Lemma path_reach n A u v : Components.path n A u v -> reach n A u v.
Proof.
  induction 1 as [u|u v w Hu Hv Hnz Hp IH]; [apply reach_refl|].
  eapply reach_trans; [apply reach_step; split; [exact Hu|split; [exact Hv|exact Hnz]]|exact IH].
Qed.

Theorem precheck_und_connected r n R0 :
  is_und r = true -> is_conn r = true -> precheck r n R0 = true ->
  sym_on n R0 /\ connected n R0.
Proof.
  intros U C H. unfold precheck in H. rewrite U, C in H. cbn [andb] in H.
  destruct (number_of_components n R0) as [m|] eqn:N; [|discriminate]. apply Nat.leb_le in H.
  destruct (proj1 (Proofs.Components.number_of_components_def n R0 m) N) as (comps & sizes & G & Em).
  split.
  - (* accepted => symmetric *)
    intros i j Hi Hj. destruct (Z.eq_dec (R0 i j) (R0 j i)) as [E|E]; [exact E|].
    exfalso. assert (get_components n R0 = None) by (apply Proofs.Components.asym_rejected; exists i, j; auto).
    congruence.
  - intros x y Hx Hy. apply path_reach.
    destruct (Proofs.Components.components_iff_path n R0 comps sizes G) as [_ Iff].
    apply Iff; auto.
    destruct (Proofs.Components.number_is_class_count n R0 m N) as (reps & Lr & _ & _ & Cover).
    destruct (Cover x Hx) as (i & Hi & Pi). destruct (Cover y Hy) as (j & Hj & Pj).
    assert (i = O) by lia. assert (j = O) by lia. subst i j.
    assert (Hr: (nth 0 reps O < n)%nat).
    { destruct (Proofs.Components.number_is_class_count n R0 m N) as (reps' & _ & _ & _ & _). 
      destruct (Nat.eq_dec n O); [lia|].
      (* the representative is a node: it has a path to x < n, and path endpoints... use labels instead *)
      destruct (lt_dec (nth 0 reps O) n); [assumption|].
      (* a path from a non-node can only be the trivial one *)
      inversion Pi; subst; lia. }
    transitivity (nth (nth 0 reps O) comps O).
    + symmetry. apply Iff; auto.
    + apply Iff; auto.
Qed.
