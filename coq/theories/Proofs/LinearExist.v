(* Proofs/LinearExist.v — existence (so that "the solution" / "the stationary vector" / "the inverse" the code asks LAPACK
   for do exist), and the assembled statements:
     * pagerank: for 0 <= d < 1 and A >= 0 the system (I - d A D^-1) r' = (1-d) f HAS a solution (and only one);
     * mean first passage time: for a non-negative strongly connected A (n >= 2) the stationary distribution and the
       inverse of I - P + 1w exist, are unique, w > 0, and the resulting M satisfies the first-step equations. *)
From Coq Require Import QArith Qabs Qfield Lia Lqa Arith List Bool.
From BCT Require Import Base.Mat Base.SumQ Model.Linear Proofs.Linear Proofs.LinearFull Proofs.LinearMarkov Proofs.LinearDim.
Import ListNotations.
Open Scope Q_scope.

(* ---------------- pagerank ---------------- *)
Lemma pr_B_injective n (A : mat Q) (d : Q) : 0 <= d -> d < 1 ->
  (forall i j, (i < n)%nat -> (j < n)%nat -> 0 <= A i j) -> injective n (pr_B n A d).
Proof.
  intros Hd0 Hd1 HA x Hx.
  apply (pagerank_unique n A d (fun _ => 0) x (fun _ => 0) Hd0 Hd1 HA Hx).
  intros i Hi. unfold mvecQ. apply sumQ_zero'. intros; ring.
Qed.

Theorem pagerank_exists_unique n (A : mat Q) (d : Q) (f : vec Q) : 0 <= d -> d < 1 ->
  (forall i j, (i < n)%nat -> (j < n)%nat -> 0 <= A i j) ->
  (exists r', forall i, (i < n)%nat -> mvecQ n (pr_B n A d) r' i == pr_b d f i) /\
  (forall x y, (forall i, (i < n)%nat -> mvecQ n (pr_B n A d) x i == pr_b d f i) ->
               (forall i, (i < n)%nat -> mvecQ n (pr_B n A d) y i == pr_b d f i) ->
               forall i, (i < n)%nat -> x i == y i).
Proof.
  intros Hd0 Hd1 HA. split.
  - apply injective_solvable. apply pr_B_injective; assumption.
  - intros x y Hx Hy. apply (pagerank_unique n A d (pr_b d f) x y Hd0 Hd1 HA Hx Hy).
Qed.

(* ---------------- stationary distribution ---------------- *)
Lemma sumQ_term_le (f : vec Q) n i : (forall k, (k < n)%nat -> 0 <= f k) -> (i < n)%nat -> f i <= sumQ f n.
Proof.
  intros Hnn Hi. rewrite (sumQ_split f n i Hi).
  assert (0 <= sumQ (fun k => if Nat.eqb k i then 0 else f k) n).
  { apply sumQ_nonneg. intros k Hk. destruct (Nat.eqb k i); [lra|apply Hnn; exact Hk]. }
  lra.
Qed.

Theorem stationary_exists n (P : mat Q) : (0 < n)%nat ->
  (forall i j, (i < n)%nat -> (j < n)%nat -> 0 <= P i j) ->
  (forall i, (i < n)%nat -> sumQ (P i) n == 1) ->
  irreducible n P ->
  exists w, stationary n P w /\ sumQ w n == 1.
Proof.
  intros Hn HP0 HP1 Hirr.
  destruct (left_kernel_of_zero_rowsums n (fun i j => delta i j - P i j) Hn) as [v [[j0 [Hj0 Hv0]] Hv]].
  { intros i Hi. rewrite sumQ_sub, (HP1 i Hi).
    rewrite (sumQ_ext _ (fun j => delta i j * 1)) by (intros; ring). rewrite (sumQ_delta_l (fun _ => 1) n i Hi). ring. }
  assert (Hs : stationary n P v).
  { intros j Hj. specialize (Hv j Hj).
    rewrite (sumQ_ext _ (fun i => v i * delta i j - v i * P i j)) in Hv by (intros; ring).
    rewrite sumQ_sub, (sumQ_delta_r v n j Hj) in Hv. lra. }
  assert (HS : ~ sumQ v n == 0).
  { destruct (stationary_sign n P HP0 HP1 Hirr v Hs) as [Hz|[Hp|Hm]].
    - destruct (Hv0 (Hz j0 Hj0)).
    - pose proof (sumQ_pos v n Hn Hp). lra.
    - assert (Hp : forall j, (j < n)%nat -> 0 < (fun i => - v i) j) by (intros k Hk; specialize (Hm k Hk); cbv beta; lra).
      pose proof (sumQ_pos _ n Hn Hp) as H.
      rewrite (sumQ_ext _ (fun i => (-1) * v i)) in H by (intros; ring). rewrite sumQ_scal in H. lra. }
  exists (fun i => v i / sumQ v n). split.
  - intros j Hj. rewrite (sumQ_ext _ (fun i => (v i * P i j) * (1 / sumQ v n))) by (intros; field; exact HS).
    rewrite sumQ_scal_r, (Hs j Hj). field. exact HS.
  - apply prior_norm. exact HS.
Qed.

(* ---------------- the transition matrix of a strongly connected non-negative network ---------------- *)
Lemma reach_out n (P : mat Q) i j : reach n P i j -> i <> j -> exists l, (l < n)%nat /\ 0 < P i l.
Proof.
  intros R. induction R as [|k j R IH Hj Hp]; intros Hne; [congruence|].
  destruct (Nat.eq_dec i k) as [->|Hik]; [exists j; split; assumption|apply IH; exact Hik].
Qed.

Lemma irreducible_rowsum_pos n (A : mat Q) : (2 <= n)%nat ->
  (forall i j, (i < n)%nat -> (j < n)%nat -> 0 <= A i j) -> irreducible n A ->
  forall i, (i < n)%nat -> 0 < rowsumQ n A i.
Proof.
  intros Hn HA Hirr i Hi.
  set (j := if Nat.eqb i 0 then 1%nat else 0%nat).
  assert (Hj : (j < n)%nat) by (unfold j; destruct (Nat.eqb i 0); lia).
  assert (Hij : i <> j) by (unfold j; destruct (Nat.eqb_spec i 0); lia).
  destruct (reach_out n A i j (Hirr i j Hi Hj) Hij) as [l [Hl Hp]].
  unfold rowsumQ. pose proof (sumQ_term_le (A i) n l (fun k Hk => HA i k Hi Hk) Hl). lra.
Qed.

Section Connected.
Variables (n : nat) (A : mat Q).
Hypothesis Hn : (0 < n)%nat.
Hypothesis HA : forall i j, (i < n)%nat -> (j < n)%nat -> 0 <= A i j.
Hypothesis Hrow : forall i, (i < n)%nat -> 0 < rowsumQ n A i.
Hypothesis Hirr : irreducible n A.
Let P := transP n A.

Lemma P_nonneg i j : (i < n)%nat -> (j < n)%nat -> 0 <= P i j.
Proof.
  intros Hi Hj. unfold P, transP, Qdiv. apply Qmult_le_0_compat; [apply HA; assumption|].
  apply Qlt_le_weak, Qinv_lt_0_compat, Hrow, Hi.
Qed.

Lemma P_stochastic i : (i < n)%nat -> sumQ (P i) n == 1.
Proof. intros Hi. apply transP_stochastic. pose proof (Hrow i Hi). lra. Qed.

Lemma P_irreducible : irreducible n P.
Proof.
  intros i j Hi Hj. apply (reach_mono n A P i j); [|exact Hi|apply Hirr; assumption].
  intros k l Hk Hl Hp. unfold P, transP, Qdiv. apply Qmult_lt_0_compat; [exact Hp|]. apply Qinv_lt_0_compat, Hrow, Hk.
Qed.

Lemma fundA_ext (w w' : vec Q) (Z : mat Q) : (forall k, (k < n)%nat -> w k == w' k) ->
  forall i j, mmulQ n (fundA P w) Z i j == mmulQ n (fundA P w') Z i j.
Proof. intros H i j. unfold mmulQ, fundA. apply sumQ_ext. intros k Hk. rewrite (H k Hk). reflexivity. Qed.

(* what eig + inv are asked for *)
Definition mfpt_inputs (w : vec Q) (Z : mat Q) : Prop :=
  stationary n P w /\ sumQ w n == 1 /\
  (forall i j, (i < n)%nat -> (j < n)%nat -> mmulQ n (fundA P w) Z i j == delta i j).

Theorem mfpt_inputs_exist : exists w Z, mfpt_inputs w Z.
Proof.
  destruct (stationary_exists n P Hn P_nonneg P_stochastic P_irreducible) as [w [Hs H1]].
  destruct (injective_right_inverse n (fundA P w)) as [Z HZ].
  { intros x Hx. apply (fundA_injective n P P_nonneg P_stochastic P_irreducible w Hs H1 x Hx). }
  exists w, Z. split; [exact Hs|]. split; [exact H1|exact HZ].
Qed.

Theorem mfpt_connected (w : vec Q) (Z : mat Q) : mfpt_inputs w Z ->
  let M := mfpt w Z in
  (forall j, (j < n)%nat -> 0 < w j) /\
  (forall i j, (i < n)%nat -> (j < n)%nat -> i <> j ->
     M i j == 1 + sumQ (fun k => if Nat.eqb k j then 0 else P i k * M k j) n) /\
  (forall j, M j j == 0) /\
  (forall j, (j < n)%nat -> 1 + sumQ (fun k => if Nat.eqb k j then 0 else P j k * M k j) n == 1 / w j) /\
  (forall i j, (i < n)%nat -> (j < n)%nat -> mmulQ n Z (fundA P w) i j == delta i j) /\
  (forall w' Z', mfpt_inputs w' Z' -> forall i j, (i < n)%nat -> (j < n)%nat -> mfpt w' Z' i j == M i j).
Proof.
  intros [Hs [H1 HZ]] M.
  pose proof (stationary_positive n P P_nonneg P_stochastic P_irreducible w Hs H1) as Hpos.
  assert (Hnz : forall j, (j < n)%nat -> ~ w j == 0) by (intros j Hj; specialize (Hpos j Hj); lra).
  destruct (mfpt_equation n P w Z P_stochastic Hs H1 HZ Hnz) as (E1 & E2 & E3).
  split; [exact Hpos|]. split; [exact E1|]. split; [exact E2|]. split; [exact E3|]. split.
  - apply (fund_left_inverse n P P_nonneg P_stochastic P_irreducible w Hs H1 Z HZ).
  - intros w' Z' [Hs' [H1' HZ']] i j Hi Hj.
    assert (Hww : forall k, (k < n)%nat -> w k == w' k)
      by (apply (stationary_unique n P P_nonneg P_stochastic P_irreducible w w' Hs H1 Hs' H1')).
    assert (HZ'' : forall a b, (a < n)%nat -> (b < n)%nat -> mmulQ n (fundA P w) Z' a b == delta a b).
    { intros a b Ha Hb. rewrite (fundA_ext w w' Z' Hww a b). apply HZ'; assumption. }
    pose proof (fund_inverse_unique n P P_nonneg P_stochastic P_irreducible w Hs H1 Z HZ Z' HZ'') as HU.
    unfold M, mfpt. rewrite <- (Hww j Hj), <- (HU j j Hj Hj), <- (HU i j Hi Hj). reflexivity.
Qed.
End Connected.
