(* Proofs/EquivModelsComp.v — C04 for the statement-level model of get_components (Model/Components.v: the edge
   list in row-major order, the set-merging loop `for s in union_sets`), via C16: same label <=> a path joins the
   two nodes, and a renumbering maps paths to paths.

   What is equivariant is the PARTITION.  The label NUMBERS are not (a block is numbered by the position at
   which it ends up in the list union_sets, which depends on the order in which the edges arrive): the labels of
   the renumbered network are the labels of the original up to a renaming sigma of 1..m, the sizes are renamed
   with them, and the number of components is unchanged. *)
From Coq Require Import ZArith Lia Arith List Bool Permutation.
From BCT Require Import Base.Mat Base.ListX Model.SymTerm Model.Components Proofs.EquivModels.
From BCT Require Proofs.Components.
Import ListNotations.
Local Open Scope nat_scope.

(* number of nodes carrying a label: counted over node indices *)
Lemma count_label_nodes (cc : list nat) l :
  count_label l cc = length (filter (fun v => Nat.eqb l (nth v cc 0)) (seq 0 (length cc))).
Proof.
  unfold count_label. induction cc as [|a r IH] using rev_ind; [reflexivity|].
  rewrite app_length, Nat.add_comm. cbn [length plus]. rewrite seq_S, !filter_app, !app_length. cbn [plus filter].
  rewrite app_nth2 by lia. rewrite Nat.sub_diag. cbn [nth]. f_equal.
  - rewrite IH. f_equal. apply filter_ext_in. intros v Hv. apply in_seq in Hv. rewrite app_nth1 by lia. reflexivity.
  - destruct (Nat.eqb l a); reflexivity.
Qed.

(* an injection of 1..a into 1..b forces a <= b *)
Lemma inj_le a : forall (f : nat -> nat) b, (forall l, 1 <= l <= a -> 1 <= f l <= b) ->
  (forall l1 l2, 1 <= l1 <= a -> 1 <= l2 <= a -> f l1 = f l2 -> l1 = l2) -> a <= b.
Proof.
  induction a as [|a IH]; intros f b Hr Hi; [lia|].
  destruct b as [|b]; [specialize (Hr 1); lia|].
  (* move f (S a) to the top value S b by a transposition on the codomain *)
  set (g := fun l => if Nat.eqb (f l) (f (S a)) then S b else if Nat.eqb (f l) (S b) then f (S a) else f l).
  assert (Hg : a <= b); [|lia].
  apply (IH g b).
  - intros l Hl. unfold g.
    destruct (Nat.eqb (f l) (f (S a))) eqn:E1.
    + apply Nat.eqb_eq in E1. apply Hi in E1; lia.
    + destruct (Nat.eqb (f l) (S b)) eqn:E2.
      * apply Nat.eqb_eq in E2. apply Nat.eqb_neq in E1. pose proof (Hr (S a)). lia.
      * apply Nat.eqb_neq in E2. pose proof (Hr l). lia.
  - intros l1 l2 H1 H2. unfold g.
    destruct (Nat.eqb (f l1) (f (S a))) eqn:A1; [apply Nat.eqb_eq in A1; apply Hi in A1; lia|].
    destruct (Nat.eqb (f l2) (f (S a))) eqn:A2; [apply Nat.eqb_eq in A2; apply Hi in A2; lia|].
    apply Nat.eqb_neq in A1. apply Nat.eqb_neq in A2.
    destruct (Nat.eqb (f l1) (S b)) eqn:B1; destruct (Nat.eqb (f l2) (S b)) eqn:B2; intros E.
    + apply Nat.eqb_eq in B1. apply Nat.eqb_eq in B2. apply Hi; lia.
    + apply Nat.eqb_neq in B2. congruence.
    + apply Nat.eqb_neq in B1. congruence.
    + apply Hi; lia.
Qed.

Section Comp.
Variables (n : nat) (p : nat -> nat).
Hypothesis Hp : perm_on n p.

Lemma path_pm_fwd (A : mat Z) u v : path n (pm p A) u v -> path n A (p u) (p v).
Proof.
  induction 1 as [u|u v w Hu Hv Hnz _ IH]; [apply path_refl|].
  apply (path_step n A (p u) (p v) (p w)); [apply (perm_lt n p u Hp Hu)|apply (perm_lt n p v Hp Hv)|exact Hnz|exact IH].
Qed.
Lemma path_pm_bwd (A : mat Z) x y : path n A x y -> forall u v, x = p u -> y = p v -> path n (pm p A) u v.
Proof.
  induction 1 as [x|x z y Hx Hz Hnz _ IH]; intros u v Eu Ev.
  - assert (u = v) by (apply (perm_inj n p _ _ Hp); congruence). subst v. apply path_refl.
  - subst x y. destruct (inv_perm_r n p z Hp Hz) as [Ez Hz'].
    apply (path_step n (pm p A) u (inv_perm n p z) v).
    + apply (perm_lt_inv n p u Hp Hx).
    + exact Hz'.
    + unfold pm. rewrite Ez. exact Hnz.
    + apply IH; [symmetry; exact Ez|reflexivity].
Qed.
Lemma path_pm (A : mat Z) u v : path n (pm p A) u v <-> path n A (p u) (p v).
Proof. split; [apply path_pm_fwd|intros H; apply (path_pm_bwd A _ _ H u v); reflexivity]. Qed.

(* the routine refuses the renumbered matrix exactly when it refuses the original *)
Lemma get_components_rejects_pm (A : mat Z) : get_components n (pm p A) = None <-> get_components n A = None.
Proof.
  rewrite !Proofs.Components.asym_rejected. split.
  - intros [i [j [Hi [Hj H]]]]. exists (p i), (p j). split; [apply (perm_lt n p i Hp Hi)|split; [apply (perm_lt n p j Hp Hj)|exact H]].
  - intros [i [j [Hi [Hj H]]]]. destruct (inv_perm_r n p i Hp Hi) as [Ei Hi']. destruct (inv_perm_r n p j Hp Hj) as [Ej Hj'].
    exists (inv_perm n p i), (inv_perm n p j). split; [exact Hi'|split; [exact Hj'|]]. unfold pm. rewrite Ei, Ej. exact H.
Qed.

Section Run.
Variables (A : mat Z) (c' s' c s : list nat).
Hypothesis H' : get_components n (pm p A) = Some (c', s').
Hypothesis H : get_components n A = Some (c, s).

(* same block in the renumbered network <=> same block in the original *)
Lemma comps_partition_pm u v : u < n -> v < n ->
  (nth u c' 0 = nth v c' 0 <-> nth (p u) c 0 = nth (p v) c 0).
Proof.
  intros Hu Hv.
  rewrite (proj2 (Proofs.Components.components_iff_path n _ c' s' H') u v Hu Hv).
  rewrite (proj2 (Proofs.Components.components_iff_path n _ c s H) (p u) (p v) (perm_lt n p u Hp Hu) (perm_lt n p v Hp Hv)).
  apply path_pm.
Qed.

(* the renaming of labels: the original label of (the image of) the first node that carries l' *)
Definition relabel (l' : nat) : nat :=
  match find (fun u => Nat.eqb (nth u c' 0) l') (seq 0 n) with Some u => nth (p u) c 0 | None => 0 end.

Lemma relabel_spec u : u < n -> nth (p u) c 0 = relabel (nth u c' 0).
Proof.
  intros Hu. unfold relabel. destruct (find (fun w => Nat.eqb (nth w c' 0) (nth u c' 0)) (seq 0 n)) as [w|] eqn:E.
  - apply find_some in E. destruct E as [Hin E]. apply Nat.eqb_eq in E. apply in_seq in Hin.
    apply (comps_partition_pm u w Hu); [lia|congruence].
  - exfalso. pose proof (find_none _ _ E u) as Hn. cbv beta in Hn. rewrite Nat.eqb_refl in Hn.
    assert (In u (seq 0 n)) by (apply in_seq; lia). specialize (Hn H0). discriminate.
Qed.

(* sigma maps the labels in use (1..m') one-to-one onto the labels in use (1..m) *)
Lemma relabel_inj l1 l2 : 1 <= l1 <= length s' -> 1 <= l2 <= length s' -> relabel l1 = relabel l2 -> l1 = l2.
Proof.
  intros H1 H2 E.
  apply (Proofs.Components.labels_1_to_m n _ c' s' H') in H1. apply (Proofs.Components.labels_1_to_m n _ c' s' H') in H2.
  destruct H1 as [u [Hu E1]]. destruct H2 as [v [Hv E2]]. subst l1 l2.
  rewrite <- !relabel_spec in E by assumption. apply (comps_partition_pm u v Hu Hv). exact E.
Qed.
Lemma relabel_range l' : 1 <= l' <= length s' -> 1 <= relabel l' <= length s.
Proof.
  intros H1. apply (Proofs.Components.labels_1_to_m n _ c' s' H') in H1. destruct H1 as [u [Hu E1]]. subst l'.
  rewrite <- relabel_spec by assumption. apply (Proofs.Components.labels_1_to_m n _ c s H).
  exists (p u). split; [apply (perm_lt n p u Hp Hu)|reflexivity].
Qed.
Lemma relabel_onto l : 1 <= l <= length s -> exists l', 1 <= l' <= length s' /\ relabel l' = l.
Proof.
  intros H1. apply (Proofs.Components.labels_1_to_m n _ c s H) in H1. destruct H1 as [x [Hx E1]]. subst l.
  destruct (inv_perm_r n p x Hp Hx) as [Ex Hx']. exists (nth (inv_perm n p x) c' 0). split.
  - apply (Proofs.Components.labels_1_to_m n _ c' s' H'). exists (inv_perm n p x). split; [exact Hx'|reflexivity].
  - rewrite <- relabel_spec by exact Hx'. rewrite Ex. reflexivity.
Qed.

(* comp_sizes follow the renaming *)
Lemma sizes_relabel l' : 1 <= l' <= length s' -> nth (relabel l' - 1) s 0 = nth (l' - 1) s' 0.
Proof.
  intros H1. pose proof (relabel_range l' H1) as H2.
  rewrite (Proofs.Components.sizes_are_counts n _ c' s' H' l' H1), (Proofs.Components.sizes_are_counts n _ c s H _ H2).
  rewrite (count_label_nodes c' l'), (count_label_nodes c (relabel l')).
  rewrite (proj1 (Proofs.Components.components_iff_path n _ c' s' H')), (proj1 (Proofs.Components.components_iff_path n _ c s H)).
  rewrite <- (count_perm n p (fun v => Nat.eqb (relabel l') (nth v c 0)) Hp).
  f_equal. apply filter_ext_in. intros v Hv. apply in_seq in Hv.
  rewrite (relabel_spec v) by lia.
  destruct (Nat.eqb l' (nth v c' 0)) eqn:E.
  - apply Nat.eqb_eq in E. rewrite <- E. apply Nat.eqb_refl.
  - apply Nat.eqb_neq. intros E2. apply Nat.eqb_neq in E. apply E. apply relabel_inj; [exact H1| |exact E2].
    apply (Proofs.Components.labels_1_to_m n _ c' s' H'). exists v. split; [lia|reflexivity].
Qed.

(* the number of components does not depend on the numbering *)
Lemma ncomp_pm : length s' = length s.
Proof.
  apply Nat.le_antisymm.
  - apply (inj_le (length s') relabel (length s)); [exact relabel_range|exact relabel_inj].
  - (* the inverse renaming: choose, for each label of the original, a label of the renumbered network mapped to it *)
    set (back := fun l => match find (fun l' => Nat.eqb (relabel l') l) (seq 1 (length s')) with Some l' => l' | None => 0 end).
    assert (Hb : forall l, 1 <= l <= length s -> 1 <= back l <= length s' /\ relabel (back l) = l).
    { intros l Hl. unfold back. destruct (find (fun l' => Nat.eqb (relabel l') l) (seq 1 (length s'))) as [l'|] eqn:E.
      - apply find_some in E. destruct E as [Hin E]. apply Nat.eqb_eq in E. apply in_seq in Hin. split; [lia|exact E].
      - exfalso. destruct (relabel_onto l Hl) as [l' [Hl' El']]. pose proof (find_none _ _ E l') as Hn. cbv beta in Hn.
        rewrite El', Nat.eqb_refl in Hn. assert (In l' (seq 1 (length s'))) by (apply in_seq; lia). specialize (Hn H0). discriminate. }
    apply (inj_le (length s) back (length s')).
    + intros l Hl. apply (Hb l Hl).
    + intros l1 l2 H1 H2 E. pose proof (proj2 (Hb l1 H1)) as E1. pose proof (proj2 (Hb l2 H2)) as E2. rewrite E in E1. rewrite E1 in E2. exact E2.
Qed.
End Run.

(* get_components on the renumbered network: refused together; otherwise the same partition (transported), the labels
   and comp_sizes renamed by one bijection sigma of 1..m, the same number of components *)
Theorem get_components_model_equivariant (A : mat Z) :
  (get_components n (pm p A) = None <-> get_components n A = None) /\
  forall c' s' c s, get_components n (pm p A) = Some (c', s') -> get_components n A = Some (c, s) ->
    (forall u v, u < n -> v < n -> (nth u c' 0 = nth v c' 0 <-> nth (p u) c 0 = nth (p v) c 0)) /\
    length s' = length s /\
    exists sigma : nat -> nat,
      (forall l, 1 <= l <= length s' -> 1 <= sigma l <= length s) /\
      (forall l1 l2, 1 <= l1 <= length s' -> 1 <= l2 <= length s' -> sigma l1 = sigma l2 -> l1 = l2) /\
      (forall l, 1 <= l <= length s -> exists l', 1 <= l' <= length s' /\ sigma l' = l) /\
      (forall u, u < n -> nth (p u) c 0 = sigma (nth u c' 0)) /\
      (forall l, 1 <= l <= length s' -> nth (sigma l - 1) s 0 = nth (l - 1) s' 0).
Proof.
  split; [apply get_components_rejects_pm|].
  intros c' s' c s H' H. split; [intros u v Hu Hv; apply (comps_partition_pm A c' s' c s H' H u v Hu Hv)|].
  split; [apply (ncomp_pm A c' s' c s H' H)|].
  exists (relabel c' c). split; [apply (relabel_range A c' s' c s H' H)|].
  split; [apply (relabel_inj A c' s' c s H' H)|]. split; [apply (relabel_onto A c' s' c s H' H)|].
  split; [intros u Hu; apply (relabel_spec A c' s' c s H' H u Hu)|apply (sizes_relabel A c' s' c s H' H)].
Qed.

Theorem number_of_components_model_equivariant (A : mat Z) :
  number_of_components n (pm p A) = number_of_components n A.
Proof.
  unfold number_of_components.
  destruct (get_components n (pm p A)) as [[c' s']|] eqn:E'; destruct (get_components n A) as [[c s]|] eqn:E.
  - f_equal. apply (ncomp_pm A c' s' c s E' E).
  - apply (proj2 (get_components_rejects_pm A)) in E. congruence.
  - apply (proj1 (get_components_rejects_pm A)) in E'. congruence.
  - reflexivity.
Qed.
End Comp.
