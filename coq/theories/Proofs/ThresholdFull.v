(* Proofs/ThresholdFull.v — C17, the clauses that were missing or weaker than the text:
   (1) the support of the OUTPUT of threshold_proportional is exactly the first [en] sorted links (mirrored on the
       symmetric branch), and every link the output keeps is at least as strong as every link it discards;
   (2) teachers_round for x < 0 and x = 0 (round half away from zero; odd function);
   (3) the domain of the normalize clause: max|W| = 0 exactly for the all-zero matrix (where the code computes 0/0). *)
From Coq Require Import QArith Qabs Qround List Arith Bool ZArith Lia Lqa Permutation Sorted.
From BCT Require Import Base.Mat Base.ListX Model.Threshold Proofs.Threshold.
Import ListNotations.
Open Scope Q_scope.

Lemma if_false_eq {A} (b : bool) (x y : A) : b = false -> (if b then x else y) = y.
Proof. intros ->. reflexivity. Qed.

(* ---------- (1) threshold_proportional: the kept cells of R ---------- *)
Section TPFull.
Variable order : mat Q -> list cell -> list cell.
Hypothesis Hadm : admissible order.
Variables (n : nat) (W : mat Q) (p : Q) (R : mat Q).
Hypothesis Hrun : tp_with order n W p = Some R.

Let symm := fst (tp_prep n W).
Let W2 := snd (tp_prep n W).
Let links := where_nz n W2.
Let en := Z.to_nat (tp_en n p symm).
Let kept := firstn en (order W2 links).
Let dropped := skipn en (order W2 links).

Theorem tp_support :
  Permutation (where_nz n R) (if symm then kept ++ map swapc kept else kept).
Proof.
  destruct (Bool.bool_dec symm true) as [Hs|Hs]; [|apply not_true_is_false in Hs]; rewrite Hs.
  - exact (tp_support_sym order Hadm n W p R Hrun Hs).
  - exact (tp_support_asym order Hadm n W p R Hrun Hs).
Qed.

(* a link is an off-diagonal (strictly upper, on the symmetric branch) nonzero entry of W inside the grid *)
Lemma links_spec c : In c links ->
  (fst c < n)%nat /\ (snd c < n)%nat /\ fst c <> snd c /\ (symm = true -> (fst c < snd c)%nat) /\
  at_ W2 c = at_ W c /\ ~ at_ W c == 0.
Proof.
  destruct c as [i j]. intros H. apply where_nz_In in H. destruct H as [[Hi Hj] Hnz]. cbn [fst snd].
  unfold at_; cbn [fst snd].
  destruct (W2_values n W p i j) as [E|[Hne E]]; [contradiction|]. fold W2 in E.
  repeat split; try assumption.
  - intros Hs. destruct (le_lt_dec j i) as [Hle|Hlt]; [|exact Hlt]. exfalso. apply Hnz.
    exact (W2_upper n W Hs i j Hle).
  - rewrite <- E. exact Hnz.
Qed.

Lemma links_cases c : In c links -> In c kept \/ In c dropped.
Proof. intros H. exact (proj1 (ind_cases order Hadm n W p c) H). Qed.

(* on the links, R holds the input value for the kept ones and 0 for the dropped ones *)
Lemma R_on_links c : In c links ->
  (In c kept -> at_ R c == at_ W c) /\ (In c dropped -> at_ R c == 0).
Proof.
  intros Hl. destruct (links_spec c Hl) as (Hi & Hj & Hne & Hup & EW & Hnz). destruct c as [i j]. cbn [fst snd] in *.
  assert (HW3: (In (i, j) kept -> (if cmem (i, j) dropped then 0 else W2 i j) == W i j) /\
               (In (i, j) dropped -> (if cmem (i, j) dropped then 0 else W2 i j) == 0)).
  { split; intros H.
    - pose proof (kept_not_dropped order Hadm n W p (i, j) H) as Hnd. apply cmem_false in Hnd.
      fold W2 symm links en dropped in Hnd. rewrite Hnd. unfold at_ in EW; cbn [fst snd] in EW. rewrite EW. reflexivity.
    - apply cmem_In in H. rewrite H. reflexivity. }
  unfold at_; cbn [fst snd].
  destruct (Bool.bool_dec symm true) as [Hs|Hs]; [|apply not_true_is_false in Hs].
  - destruct (R_sym_upper order n W p R Hrun Hs i j (Hup Hs)) as [E _].
    fold W2 symm links en dropped in E. split; intros H; rewrite E; apply HW3; exact H.
  - rewrite (tp_R_eq order n W p R Hrun). rewrite (if_false_eq symm _ _ Hs). exact HW3.
Qed.

(* THE clause "the kept ones are the strongest", about the output R: among the links of the input, every one that
   R keeps (nonzero in R) carries its input value and is at least as strong as every one that R discards *)
Theorem tp_strongest_R c d : In c links -> In d links -> ~ at_ R c == 0 -> at_ R d == 0 ->
  at_ W d <= at_ W c /\ at_ R c == at_ W c.
Proof.
  intros Hc Hd Hkc Hdd.
  destruct (R_on_links c Hc) as [Kc Dc]. destruct (R_on_links d Hd) as [Kd Dd].
  destruct (links_spec c Hc) as (_ & _ & _ & _ & EWc & _). destruct (links_spec d Hd) as (_ & _ & _ & _ & EWd & Hnzd).
  assert (Ic: In c kept). { destruct (links_cases c Hc) as [H|H]; [exact H|]. exfalso. apply Hkc. apply Dc. exact H. }
  assert (Id: In d dropped).
  { destruct (links_cases d Hd) as [H|H]; [|exact H]. exfalso. apply Hnzd. rewrite <- (Kd H). exact Hdd. }
  split; [|apply Kc; exact Ic].
  pose proof (tp_strongest order Hadm n W p c d Ic Id) as H. fold W2 in H. rewrite EWc, EWd in H. exact H.
Qed.

(* R keeps a link iff it is among the first en of the sorted links *)
Theorem tp_kept_iff c : In c links -> (~ at_ R c == 0 <-> In c kept).
Proof.
  intros Hc. destruct (R_on_links c Hc) as [Kc Dc]. destruct (links_spec c Hc) as (_ & _ & _ & _ & _ & Hnz). split.
  - intros H. destruct (links_cases c Hc) as [H'|H']; [exact H'|]. exfalso. apply H. apply Dc. exact H'.
  - intros H E. apply Hnz. rewrite <- (Kc H). exact E.
Qed.
End TPFull.

(* ---------- (2) teachers_round away from the positive half-line ---------- *)
Lemma teachers_round_zero x : x == 0 -> teachers_round x = 0%Z.
Proof.
  intros E. unfold teachers_round.
  assert (H1: Qltb 0 x = false) by (apply Qltb_false; lra).
  assert (H2: Qltb x 0 = false) by (apply Qltb_false; lra).
  rewrite H1, H2. cbn [andb orb].
  apply Qfloor_unique; [change (inject_Z 0) with 0; lra|change (inject_Z (0 + 1)) with 1; lra].
Qed.

(* x < 0: the code takes ceil only when x % 1 > 0.5, i.e. exact halves go DOWN (away from zero) *)
Lemma teachers_round_neg x : x < 0 -> teachers_round x = (- Qfloor (- x + (1 # 2)))%Z.
Proof.
  intros Hx. unfold teachers_round.
  assert (H1: Qltb 0 x = false) by (apply Qltb_false; lra).
  assert (H2: Qltb x 0 = true) by (apply Qltb_true; exact Hx).
  rewrite H1, H2. cbn [andb orb].
  pose proof (Qfloor_le x) as Hf1. pose proof (Qlt_floor x) as Hf2.
  assert (Hinj: inject_Z (Qfloor x + 1) == inject_Z (Qfloor x) + 1) by (rewrite inject_Z_plus; reflexivity).
  unfold frac. destruct (Qltb (1 # 2) (x - inject_Z (Qfloor x))) eqn:E.
  - apply Qltb_true in E. unfold Qceiling.
    assert (A: Qfloor (- x) = (- Qfloor x - 1)%Z).
    { apply Qfloor_unique.
      - replace (- Qfloor x - 1)%Z with (- (Qfloor x + 1))%Z by lia. rewrite inject_Z_opp. lra.
      - replace (- Qfloor x - 1 + 1)%Z with (- Qfloor x)%Z by lia. rewrite inject_Z_opp. lra. }
    assert (B: Qfloor (- x + (1 # 2)) = (- Qfloor x - 1)%Z).
    { apply Qfloor_unique.
      - replace (- Qfloor x - 1)%Z with (- (Qfloor x + 1))%Z by lia. rewrite inject_Z_opp. lra.
      - replace (- Qfloor x - 1 + 1)%Z with (- Qfloor x)%Z by lia. rewrite inject_Z_opp. lra. }
    rewrite A, B. reflexivity.
  - apply Qltb_false in E.
    assert (B: Qfloor (- x + (1 # 2)) = (- Qfloor x)%Z).
    { apply Qfloor_unique.
      - rewrite inject_Z_opp. lra.
      - rewrite inject_Z_plus, inject_Z_opp. change (inject_Z 1) with 1. lra. }
    rewrite B. lia.
Qed.

(* hence: round half away from zero, an odd function *)
Lemma teachers_round_odd x : teachers_round (- x) = (- teachers_round x)%Z.
Proof.
  destruct (Q_dec x 0) as [[Hlt|Hgt]|Heq].
  - assert (Hp: 0 < - x) by lra.
    rewrite (teachers_round_half_up (- x) Hp), (teachers_round_neg x Hlt). lia.
  - assert (Hn: - x < 0) by lra.
    rewrite (teachers_round_neg (- x) Hn), (teachers_round_half_up x Hgt).
    assert (E: - - x + (1 # 2) == x + (1 # 2)) by ring. rewrite (Qfloor_comp _ _ E). reflexivity.
  - assert (E: - x == 0) by lra. rewrite (teachers_round_zero x Heq), (teachers_round_zero (- x) E). reflexivity.
Qed.

(* ---------- (3) normalize: where the clause is defined ---------- *)
Lemma maxabs_zero_iff n W : maxabs n W == 0 <-> forall i j, (i < n)%nat -> (j < n)%nat -> W i j == 0.
Proof.
  split.
  - intros E i j Hi Hj. pose proof (maxabs_ge n W i j Hi Hj) as H. rewrite E in H.
    apply Qabs_Qle_condition in H. lra.
  - intros H. destruct (maxabs_attained n W) as [E|[i [j [Hi [Hj E]]]]]; [rewrite E; reflexivity|].
    rewrite E. rewrite (H i j Hi Hj). reflexivity.
Qed.
