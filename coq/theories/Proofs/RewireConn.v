(* Proofs/RewireConn.v — soundness of the connectivity tests of the four `_connected` routines:
   if the test accepts a swap on a connected (strongly connected) network, the swapped network is
   connected (strongly connected). *)
From Coq Require Import ZArith List Arith Bool Lia Relations.
From BCT Require Import Base.Mat Base.ListX Model.Rewire Proofs.RewireSwap.
Import ListNotations.
Open Scope Z_scope.

Definition edge (n : nat) (R : mat Z) (u v : nat) : Prop := (u < n)%nat /\ (v < n)%nat /\ R u v <> 0.
Definition reach (n : nat) (R : mat Z) : nat -> nat -> Prop := clos_refl_trans nat (edge n R).
(* every node reaches every other node: connected (symmetric R) / strongly connected (directed R) *)
Definition connected (n : nat) (R : mat Z) : Prop := forall x y, (x < n)%nat -> (y < n)%nat -> reach n R x y.

Lemma reach_refl n R x : reach n R x x. Proof. apply rt_refl. Qed.
Lemma reach_step n R x y : edge n R x y -> reach n R x y. Proof. apply rt_step. Qed.
Lemma reach_trans n R x y z : reach n R x y -> reach n R y z -> reach n R x z. Proof. apply rt_trans. Qed.

(* if every edge of R can be simulated in R', reachability transfers *)
Lemma reach_sim n R R' : (forall u v, edge n R u v -> reach n R' u v) -> forall x y, reach n R x y -> reach n R' x y.
Proof. intros H x y Hr. induction Hr; [apply H; assumption|apply rt_refl|eapply rt_trans; eassumption]. Qed.

(* ---------- boolean sets ---------- *)
Lemma tabv_true n (f : bset) y : tabv false n f y = true -> (y < n)%nat /\ f y = true.
Proof.
  intros H. destruct (lt_dec y n) as [Hy|Hy].
  - rewrite tabv_spec in H by exact Hy. auto.
  - exfalso. unfold tabv, of_list in H. rewrite nth_overflow in H; [discriminate|]. rewrite to_list_length. lia.
Qed.
Lemma nzb_true z : nzb z = true <-> z <> 0.
Proof. unfold nzb. rewrite negb_true_iff, Z.eqb_neq. tauto. Qed.
Lemma expand_true n R P y : expand n R P y = true -> (y < n)%nat /\ exists x, (x < n)%nat /\ P x = true /\ R x y <> 0.
Proof.
  intros H. unfold expand in H. apply tabv_true in H. destruct H as [Hy H]. split; [exact Hy|].
  apply existsb_exists in H. destruct H as [x [Hx H]]. apply in_seq in Hx. apply andb_true_iff in H. destruct H as [H1 H2].
  exists x. split; [lia|]. split; [exact H1|apply nzb_true; exact H2].
Qed.

(* ------------------------------------------------------------------ undirected *)
Section UndConn.
Variables (n : nat) (R : mat Z) (a b c d : nat).
Hypotheses (Hab : a <> b) (Hac : a <> c) (Had : a <> d) (Hbc : b <> c) (Hbd : b <> d) (Hcd : c <> d).
Hypotheses (Ha : (a < n)%nat) (Hb : (b < n)%nat) (Hc : (c < n)%nat) (Hd : (d < n)%nat).
Hypothesis Hsym : forall x y, R x y = R y x.
Hypothesis Hdiag : forall x, R x x = 0.
Hypothesis Had0 : R a d = 0.
Hypothesis Hcb0 : R c b = 0.
Hypothesis Hab1 : R a b <> 0.
Hypothesis Hcd1 : R c d <> 0.
Let R' := swap_und R a b c d.

(* edges that avoid both a and d are untouched by the swap *)
Lemma und_edge_keep u v : edge n R u v -> ~ ((u = a /\ v = b) \/ (u = b /\ v = a) \/ (u = c /\ v = d) \/ (u = d /\ v = c)) ->
  edge n R' u v.
Proof.
  intros (Hu & Hv & Hnz) Hne. split; [exact Hu|]. split; [exact Hv|].
  unfold R'. rewrite swap_und_other; auto. unfold touched. intros T.
  repeat destruct T as [T|T]; destruct T as [E1 E2]; subst u v;
    first [tauto | apply Hnz; exact Had0 | apply Hnz; rewrite Hsym; exact Had0
          | apply Hnz; exact Hcb0 | apply Hnz; rewrite Hsym; exact Hcb0].
Qed.
Lemma und_new_ad : edge n R' a d /\ edge n R' d a.
Proof. unfold edge, R'. rewrite swap_und_ad, swap_und_da by auto. rewrite (Hsym b a). auto. Qed.
Lemma und_new_cb : edge n R' c b /\ edge n R' b c.
Proof. unfold edge, R'. rewrite swap_und_cb, swap_und_bc by auto. rewrite (Hsym d c). auto. Qed.

(* once a-b and c-d are linked in the swapped network, connectivity carries over *)
Lemma und_transfer : reach n R' a b -> reach n R' b a -> reach n R' c d -> reach n R' d c ->
  connected n R -> connected n R'.
Proof.
  intros Pab Pba Pcd Pdc HC x y Hx Hy. apply (reach_sim n R R'); [|apply HC; assumption].
  intros u v He.
  destruct (Nat.eq_dec u a) as [Eu|Nu]; destruct (Nat.eq_dec v b) as [Ev|Nv]; try (subst; exact Pab).
  all: destruct (Nat.eq_dec u b) as [Eu2|Nu2]; destruct (Nat.eq_dec v a) as [Ev2|Nv2]; try (subst; exact Pba).
  all: destruct (Nat.eq_dec u c) as [Eu3|Nu3]; destruct (Nat.eq_dec v d) as [Ev3|Nv3]; try (subst; exact Pcd).
  all: destruct (Nat.eq_dec u d) as [Eu4|Nu4]; destruct (Nat.eq_dec v c) as [Ev4|Nv4]; try (subst; exact Pdc).
  all: apply reach_step; apply und_edge_keep; [exact He|]; intros T; repeat destruct T as [T|T]; destruct T; congruence.
Qed.

(* the four nodes mutually linked in R' from one extra link *)
Lemma und_link_all : (reach n R' a b \/ reach n R' a c \/ reach n R' d b \/ reach n R' d c) ->
  (forall x y, reach n R' x y -> reach n R' y x) ->
  reach n R' a b /\ reach n R' b a /\ reach n R' c d /\ reach n R' d c.
Proof.
  intros H Sy.
  destruct und_new_ad as [Ead Eda]. destruct und_new_cb as [Ecb Ebc].
  pose proof (reach_step _ _ _ _ Ead) as Pad. pose proof (reach_step _ _ _ _ Eda) as Pda.
  pose proof (reach_step _ _ _ _ Ecb) as Pcb. pose proof (reach_step _ _ _ _ Ebc) as Pbc.
  assert (Pab: reach n R' a b).
  { destruct H as [H|[H|[H|H]]].
    - exact H.
    - eapply reach_trans; [exact H|exact Pcb].
    - eapply reach_trans; [exact Pad|exact H].
    - eapply reach_trans; [exact Pad|]. eapply reach_trans; [exact H|exact Pcb]. }
  assert (Pcd: reach n R' c d).
  { eapply reach_trans; [exact Pcb|]. eapply reach_trans; [apply Sy; exact Pab|exact Pad]. }
  repeat split; auto.
Qed.

Lemma und_reach_sym : forall x y, reach n R' x y -> reach n R' y x.
Proof.
  intros x y H. induction H as [u v He| |]; [|apply rt_refl|eapply rt_trans; eassumption].
  apply rt_step. destruct He as (Hu & Hv & Hnz). split; [exact Hv|]. split; [exact Hu|].
  unfold R'. rewrite swap_und_sym; auto.
Qed.

(* the frontier loop: every frontier node is linked to its root in R', avoiding a and d *)
Definition FrontOK (root : nat) (P : bset) : Prop :=
  forall y, P y = true -> (y < n)%nat /\ y <> a /\ y <> d /\ reach n R' root y.
Definition Blocks (PN : bset) : Prop := PN a = true /\ PN d = true.

Lemma und_front_step root P PN :
  FrontOK root P -> Blocks PN ->
  FrontOK root (tabv false n (fun y => (expand n R P y && negb (PN y))%bool)).
Proof.
  intros HF [Ba Bd] y Hy. apply tabv_true in Hy. destruct Hy as [Hyn Hy].
  apply andb_true_iff in Hy. destruct Hy as [He Hp]. apply negb_true_iff in Hp.
  apply expand_true in He. destruct He as [_ [x (Hx & HPx & Hnz)]].
  destruct (HF x HPx) as (_ & Hxa & Hxd & Hr).
  assert (Hya: y <> a) by (intros ->; congruence).
  assert (Hyd: y <> d) by (intros ->; congruence).
  split; [exact Hyn|]. split; [exact Hya|]. split; [exact Hyd|].
  eapply reach_trans; [exact Hr|]. apply reach_step. apply und_edge_keep.
  - split; [exact Hx|]. split; [exact Hyn|exact Hnz].
  - intros T. repeat destruct T as [T|T]; destruct T; congruence.
Qed.
Lemma blocks_step PN Q : Blocks PN -> Blocks (tabv false n (fun y => (PN y || Q y)%bool)).
Proof. intros [Ba Bd]. split; rewrite tabv_spec by assumption; [rewrite Ba|rewrite Bd]; reflexivity. Qed.

Lemma und_loop_sound fuel P0 P1 PN0 PN1 :
  FrontOK a P0 -> FrontOK d P1 -> Blocks PN0 -> Blocks PN1 ->
  und_conn_loop fuel n R b c P0 P1 PN0 PN1 = true ->
  reach n R' a b \/ reach n R' a c \/ reach n R' d b \/ reach n R' d c.
Proof.
  revert P0 P1 PN0 PN1. induction fuel as [|f IH]; intros P0 P1 PN0 PN1 F0 F1 B0 B1 H; cbn [und_conn_loop] in H; [discriminate|].
  set (Q0 := tabv false n (fun y => (expand n R P0 y && negb (PN0 y))%bool)) in *.
  set (Q1 := tabv false n (fun y => (expand n R P1 y && negb (PN1 y))%bool)) in *.
  pose proof (und_front_step a P0 PN0 F0 B0) as G0. fold Q0 in G0.
  pose proof (und_front_step d P1 PN1 F1 B1) as G1. fold Q1 in G1.
  destruct (negb (anyb n Q0 && anyb n Q1)); [discriminate|].
  destruct (Q0 b || Q0 c || Q1 b || Q1 c)%bool eqn:E.
  - apply orb_true_iff in E. destruct E as [E|E]; [apply orb_true_iff in E; destruct E as [E|E]; [apply orb_true_iff in E; destruct E as [E|E]|]|].
    + left. apply (G0 b E). + right; left. apply (G0 c E).
    + right; right; left. apply (G1 b E). + right; right; right. apply (G1 c E).
  - apply (IH Q0 Q1 _ _ G0 G1 (blocks_step PN0 Q0 B0) (blocks_step PN1 Q1 B1) H).
Qed.

Theorem und_conn_guard_sound :
  und_conn_guard n R a b c d = true -> connected n R -> connected n R'.
Proof.
  intros HG HC.
  destruct und_new_ad as [Ead Eda]. destruct und_new_cb as [Ecb Ebc].
  assert (Link: reach n R' a b \/ reach n R' a c \/ reach n R' d b \/ reach n R' d c).
  { unfold und_conn_guard in HG.
    destruct (nzb (R a c) || nzb (R b d))%bool eqn:E.
    - apply orb_true_iff in E. destruct E as [E|E]; apply nzb_true in E.
      + right; left. apply reach_step. apply und_edge_keep; [split; [exact Ha|split; [exact Hc|exact E]]|].
        intros T. repeat destruct T as [T|T]; destruct T; congruence.
      + right; right; left. apply reach_step. apply und_edge_keep; [split; [exact Hd|split; [exact Hb|rewrite Hsym; exact E]]|].
        intros T. repeat destruct T as [T|T]; destruct T; congruence.
    - apply (und_loop_sound _ _ _ _ _) in HG; auto.
      + (* initial frontier of a *)
        intros y Hy. apply tabv_true in Hy. destruct Hy as [Hyn Hy].
        destruct (Nat.eqb_spec y b) as [->|Nyb]; [discriminate|]. apply nzb_true in Hy.
        assert (y <> a) by (intros ->; apply Hy; apply Hdiag).
        assert (y <> d) by (intros ->; apply Hy; exact Had0).
        repeat split; auto. apply reach_step. apply und_edge_keep; [split; [exact Ha|split; [exact Hyn|exact Hy]]|].
        intros T. repeat destruct T as [T|T]; destruct T; congruence.
      + (* initial frontier of d *)
        intros y Hy. apply tabv_true in Hy. destruct Hy as [Hyn Hy].
        destruct (Nat.eqb_spec y c) as [->|Nyc]; [discriminate|]. apply nzb_true in Hy.
        assert (y <> d) by (intros ->; apply Hy; apply Hdiag).
        assert (y <> a) by (intros ->; apply Hy; rewrite Hsym; exact Had0).
        repeat split; auto. apply reach_step. apply und_edge_keep; [split; [exact Hd|split; [exact Hyn|exact Hy]]|].
        intros T. repeat destruct T as [T|T]; destruct T; congruence.
      + split; rewrite tabv_spec by assumption.
        * rewrite Nat.eqb_refl, orb_true_r. reflexivity.
        * rewrite Nat.eqb_refl. reflexivity.
      + split; rewrite tabv_spec by assumption.
        * rewrite Nat.eqb_refl, orb_true_r. reflexivity.
        * rewrite Nat.eqb_refl. reflexivity. }
  destruct (und_link_all Link und_reach_sym) as (P1 & P2 & P3 & P4).
  apply und_transfer; assumption.
Qed.
End UndConn.

(* ------------------------------------------------------------------ directed *)
Section DirConn.
Variables (n : nat) (R : mat Z) (a b c d : nat).
Hypotheses (Hab : a <> b) (Hac : a <> c) (Had : a <> d) (Hbc : b <> c) (Hbd : b <> d) (Hcd : c <> d).
Hypotheses (Ha : (a < n)%nat) (Hb : (b < n)%nat) (Hc : (c < n)%nat) (Hd : (d < n)%nat).
Hypothesis Hdiag : forall x, R x x = 0.
Hypothesis Had0 : R a d = 0.
Hypothesis Hcb0 : R c b = 0.
Hypothesis Hab1 : R a b <> 0.
Hypothesis Hcd1 : R c d <> 0.
Let R' := swap_dir R a b c d.

Lemma dir_edge_keep u v : edge n R u v -> ~ (u = a /\ v = b) -> ~ (u = c /\ v = d) -> edge n R' u v.
Proof.
  intros (Hu & Hv & Hnz) N1 N2. split; [exact Hu|]. split; [exact Hv|].
  unfold R'. rewrite swap_dir_other; auto.
  - intros [E1 E2]. subst. apply Hnz. exact Had0.
  - intros [E1 E2]. subst. apply Hnz. exact Hcb0.
Qed.
Lemma dir_new_ad : edge n R' a d.
Proof. unfold edge, R'. rewrite swap_dir_ad by auto. auto. Qed.
Lemma dir_new_cb : edge n R' c b.
Proof. unfold edge, R'. rewrite swap_dir_cb by auto. auto. Qed.

Lemma dir_transfer : reach n R' a b -> reach n R' c d -> connected n R -> connected n R'.
Proof.
  intros Pab Pcd HC x y Hx Hy. apply (reach_sim n R R'); [|apply HC; assumption].
  intros u v He.
  destruct (Nat.eq_dec u a) as [Eu|Nu]; destruct (Nat.eq_dec v b) as [Ev|Nv]; try (subst; exact Pab).
  all: destruct (Nat.eq_dec u c) as [Eu3|Nu3]; destruct (Nat.eq_dec v d) as [Ev3|Nv3]; try (subst; exact Pcd).
  all: apply reach_step; apply dir_edge_keep; [exact He| |]; intros [E1 E2]; congruence.
Qed.

(* one row of the frontier search: root r, and the other node sp whose out-edges differ between R and R' *)
Definition RowInv (r sp : nat) (P PN : bset) : Prop :=
  (forall y, P y = true -> (y < n)%nat /\ y <> r /\ (reach n R' r y \/ reach n R' r sp)) /\
  (forall y, PN y = true -> y = r \/ ((y < n)%nat /\ (reach n R' r y \/ reach n R' r sp))) /\
  PN r = true.

Lemma dir_row_step r sp P PN : (r < n)%nat ->
  (forall x y, x <> r -> x <> sp -> edge n R x y -> edge n R' x y) ->
  RowInv r sp P PN ->
  RowInv r sp (tabv false n (fun y => (expand n R P y && negb (PN y))%bool))
              (tabv false n (fun y => (PN y || tabv false n (fun y => (expand n R P y && negb (PN y))%bool) y)%bool)).
Proof.
  intros Hr Keep (I1 & I2 & I3).
  assert (Q: forall y, tabv false n (fun y => (expand n R P y && negb (PN y))%bool) y = true ->
             (y < n)%nat /\ y <> r /\ (reach n R' r y \/ reach n R' r sp)).
  { intros y Hy. apply tabv_true in Hy. destruct Hy as [Hyn Hy].
    apply andb_true_iff in Hy. destruct Hy as [He Hp]. apply negb_true_iff in Hp.
    apply expand_true in He. destruct He as [_ [x (Hx & HPx & Hnz)]].
    destruct (I1 x HPx) as (_ & Hxr & Hre).
    split; [exact Hyn|]. split; [intros ->; congruence|].
    destruct (Nat.eq_dec x sp) as [->|Nsp].
    - right. destruct Hre; assumption.
    - destruct Hre as [Hre|Hre]; [left|right; exact Hre].
      eapply reach_trans; [exact Hre|]. apply reach_step. apply Keep; auto. split; [exact Hx|split; [exact Hyn|exact Hnz]]. }
  split; [exact Q|]. split.
  - intros y Hy. apply tabv_true in Hy. destruct Hy as [Hyn Hy]. apply orb_true_iff in Hy. destruct Hy as [Hy|Hy].
    + apply I2; exact Hy.
    + right. destruct (Q y Hy) as (A & _ & B). split; assumption.
  - rewrite tabv_spec by exact Hr. rewrite I3. reflexivity.
Qed.

Lemma keep_not_ac x y : x <> a -> x <> c -> edge n R x y -> edge n R' x y.
Proof. intros N1 N2 He. apply dir_edge_keep; [exact He| |]; intros [E _]; congruence. Qed.

Lemma dir_loop_sound fuel P0 P1 PN0 PN1 :
  RowInv a c P0 PN0 -> RowInv c a P1 PN1 ->
  dir_conn_loop fuel n R a b c d P0 P1 PN0 PN1 = true ->
  (reach n R' a b \/ reach n R' a c) /\ (reach n R' c d \/ reach n R' c a).
Proof.
  revert P0 P1 PN0 PN1. induction fuel as [|f IH]; intros P0 P1 PN0 PN1 F0 F1 H; cbn [dir_conn_loop] in H; [discriminate|].
  set (Q0 := tabv false n (fun y => (expand n R P0 y && negb (PN0 y))%bool)) in *.
  set (Q1 := tabv false n (fun y => (expand n R P1 y && negb (PN1 y))%bool)) in *.
  set (N0 := tabv false n (fun y => (PN0 y || Q0 y)%bool)) in *.
  set (N1 := tabv false n (fun y => (PN1 y || Q1 y)%bool)) in *.
  pose proof (dir_row_step a c P0 PN0 Ha (fun x y N1' N2' => keep_not_ac x y N1' N2') F0) as G0. fold Q0 in G0. fold N0 in G0.
  pose proof (dir_row_step c a P1 PN1 Hc (fun x y N1' N2' => keep_not_ac x y N2' N1') F1) as G1. fold Q1 in G1. fold N1 in G1.
  destruct (negb (anyb n Q0 && anyb n Q1)); [discriminate|].
  destruct ((N0 b || N0 c) && (N1 d || N1 a))%bool eqn:E.
  - apply andb_true_iff in E. destruct E as [E0 E1].
    destruct G0 as (_ & G0 & _). destruct G1 as (_ & G1 & _). split.
    + apply orb_true_iff in E0. destruct E0 as [E0|E0].
      * destruct (G0 b E0) as [Eq|[_ Hr]]; [congruence|]. destruct Hr; auto.
      * destruct (G0 c E0) as [Eq|[_ Hr]]; [congruence|]. destruct Hr; auto.
    + apply orb_true_iff in E1. destruct E1 as [E1|E1].
      * destruct (G1 d E1) as [Eq|[_ Hr]]; [congruence|]. destruct Hr; auto.
      * destruct (G1 a E1) as [Eq|[_ Hr]]; [congruence|]. destruct Hr; auto.
  - apply (IH Q0 Q1 N0 N1 G0 G1 H).
Qed.

Theorem dir_conn_guard_sound :
  dir_conn_guard n R a b c d = true -> connected n R -> connected n R'.
Proof.
  intros HG HC.
  pose proof (reach_step _ _ _ _ dir_new_ad) as Pad. pose proof (reach_step _ _ _ _ dir_new_cb) as Pcb.
  assert (K: forall u v, (u < n)%nat -> (v < n)%nat -> R u v <> 0 -> ~ (u = a /\ v = b) -> ~ (u = c /\ v = d) -> reach n R' u v).
  { intros u v Hu Hv Hnz N1 N2. apply reach_step. apply dir_edge_keep; auto. split; auto. }
  assert (Link: (reach n R' a b \/ reach n R' a c) /\ (reach n R' c d \/ reach n R' c a)).
  { unfold dir_conn_guard in HG.
    destruct ((nzb (R a c) || nzb (R d b) || nzb (R d c)) && (nzb (R c a) || nzb (R b d) || nzb (R b a)))%bool eqn:E.
    - apply andb_true_iff in E. destruct E as [E1 E2]. split.
      + apply orb_true_iff in E1. destruct E1 as [E1|E1]; [apply orb_true_iff in E1; destruct E1 as [E1|E1]|]; apply nzb_true in E1.
        * right. apply K; auto; intros [? ?]; congruence.
        * left. eapply reach_trans; [exact Pad|]. apply K; auto; intros [? ?]; congruence.
        * right. eapply reach_trans; [exact Pad|]. apply K; auto; intros [? ?]; congruence.
      + apply orb_true_iff in E2. destruct E2 as [E2|E2]; [apply orb_true_iff in E2; destruct E2 as [E2|E2]|]; apply nzb_true in E2.
        * right. apply K; auto; intros [? ?]; congruence.
        * left. eapply reach_trans; [exact Pcb|]. apply K; auto; intros [? ?]; congruence.
        * right. eapply reach_trans; [exact Pcb|]. apply K; auto; intros [? ?]; congruence.
    - apply dir_loop_sound in HG; [exact HG| |].
      + (* row of a *)
        assert (P0ok: forall y, (if Nat.eqb y d then true else if Nat.eqb y b then false else nzb (R a y)) = true ->
                      (y < n)%nat -> y <> a /\ reach n R' a y).
        { intros y Hy Hyn. destruct (Nat.eqb_spec y d) as [Ey|Nyd]; [rewrite Ey; split; [auto|exact Pad]|].
          destruct (Nat.eqb_spec y b) as [Ey|Nyb]; [discriminate|]. apply nzb_true in Hy.
          split; [intros Ey; apply Hy; rewrite Ey; apply Hdiag|]. apply K; auto; intros [? ?]; congruence. }
        split; [|split].
        * intros y Hy. apply tabv_true in Hy. destruct Hy as [Hyn Hy]. destruct (P0ok y Hy Hyn). auto.
        * intros y Hy. apply tabv_true in Hy. destruct Hy as [Hyn Hy].
          destruct (Nat.eqb_spec y a) as [Ey|Nya]; [left; exact Ey|]. right. destruct (P0ok y Hy Hyn). auto.
        * rewrite tabv_spec by exact Ha. rewrite Nat.eqb_refl. reflexivity.
      + (* row of c *)
        assert (P1ok: forall y, (if Nat.eqb y b then true else if Nat.eqb y d then false else nzb (R c y)) = true ->
                      (y < n)%nat -> y <> c /\ reach n R' c y).
        { intros y Hy Hyn. destruct (Nat.eqb_spec y b) as [Ey|Nyb]; [rewrite Ey; split; [auto|exact Pcb]|].
          destruct (Nat.eqb_spec y d) as [Ey|Nyd]; [discriminate|]. apply nzb_true in Hy.
          split; [intros Ey; apply Hy; rewrite Ey; apply Hdiag|]. apply K; auto; intros [? ?]; congruence. }
        split; [|split].
        * intros y Hy. apply tabv_true in Hy. destruct Hy as [Hyn Hy]. destruct (P1ok y Hy Hyn). auto.
        * intros y Hy. apply tabv_true in Hy. destruct Hy as [Hyn Hy].
          destruct (Nat.eqb_spec y c) as [Ey|Nyc]; [left; exact Ey|]. right. destruct (P1ok y Hy Hyn). auto.
        * rewrite tabv_spec by exact Hc. rewrite Nat.eqb_refl. reflexivity. }
  destruct Link as [L1 L2].
  assert (Pab: reach n R' a b) by (destruct L1 as [L1|L1]; [exact L1|eapply reach_trans; [exact L1|exact Pcb]]).
  assert (Pcd: reach n R' c d) by (destruct L2 as [L2|L2]; [exact L2|eapply reach_trans; [exact L2|exact Pad]]).
  apply dir_transfer; assumption.
Qed.
End DirConn.
