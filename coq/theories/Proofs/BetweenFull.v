(* Proofs/BetweenFull.v — from a finished search state with the tight connections as predecessor links and path
   counts obeying the last-connection recurrence ([counts_ok]) to the SPECIFICATION:
     NP = sigma(u, .),   sigma_through(u,t,w) = sigma(u,w) * c(w,t),   sigma_edge(u,t,v,w) = [P w v] sigma(u,v) * c(w,t)
   (c = number of paths of the predecessor DAG), hence the pair sums accumulated by the Brandes-style routines are
   the specification's fractions, and betweenness_wei / edge_betweenness_wei (and every routine whose search
   establishes [counts_ok]) return BC_spec / EBC_spec. *)
From Coq Require Import QArith Qring Qfield Lia Lqa List Arith Bool ZArith Permutation.
From BCT Require Import Base.Mat Base.SumQ Base.ListX Model.Between
  Proofs.BetweenAccum Proofs.BetweenReady Proofs.BetweenQueue Proofs.BetweenSpec Proofs.BetweenPaths
  Proofs.BetweenTight Proofs.BetweenLast Proofs.BetweenCount.
Import ListNotations.
Open Scope Q_scope.

(* ---------- the DAG path counts also decompose by the LAST connection ---------- *)
Section DagLast.
Variable n : nat.
Variable P : mat bool.
Variable pot : nat -> Z.
Hypothesis Hpot : forall w v, (w < n)%nat -> (v < n)%nat -> P w v = true -> (pot v < pot w)%Z.
Let c := dag_count n P pot.

Lemma dag_count_zero v t : (v < n)%nat -> v <> t -> (pot t <= pot v)%Z -> c v t == 0.
Proof. intros Hv Hne Hle. unfold c, dag_count. apply (cnt_zero n P pot Hpot); assumption. Qed.

Lemma preds_sum_zero t : (t < n)%nat -> sumQ (fun x => ind (P t x) * c t x) n == 0.
Proof.
  intros Ht. apply sumQ_zero'. intros x Hx. destruct (P t x) eqn:E; cbn [ind]; [|ring].
  unfold c. rewrite (dag_count_acyc n P pot Hpot t x Ht Hx E). ring.
Qed.
Lemma succs_sum_zero v : (v < n)%nat -> sumQ (fun w => ind (P w v) * c w v) n == 0.
Proof.
  intros Hv. apply sumQ_zero'. intros w Hw. destruct (P w v) eqn:E; cbn [ind]; [|ring].
  unfold c. rewrite (dag_count_acyc n P pot Hpot w v Hw Hv E). ring.
Qed.

Lemma dag_count_last_k : forall k v t, (pot t - pot v < Z.of_nat k)%Z -> (v < n)%nat -> (t < n)%nat -> v <> t ->
  c v t == sumQ (fun x => ind (P t x) * c v x) n.
Proof.
  induction k as [|k IH]; intros v t Hk Hv Ht Hne.
  - rewrite (dag_count_zero v t Hv Hne) by lia. symmetry. apply sumQ_zero'. intros x Hx.
    destruct (P t x) eqn:E; cbn [ind]; [|ring]. pose proof (Hpot t x Ht Hx E).
    rewrite (dag_count_zero v x Hv); [ring| |lia]. intros ->. lia.
  - unfold c at 1. rewrite (dag_count_step n P pot Hpot v t Hv Ht Hne). fold c.
    rewrite (sumQ_ext _ (fun w => ind (P w v) * ind (Nat.eqb t w) + sumQ (fun x => ind (P w v) * (ind (P t x) * c w x)) n)).
    2:{ intros w Hw. rewrite sumQ_scal. destruct (P w v) eqn:E; cbn [ind]; [|ring].
        destruct (Nat.eqb_spec t w) as [<-|Hwt]; cbn [ind].
        - rewrite (preds_sum_zero t Ht). unfold c. rewrite (dag_count_refl n P pot t). ring.
        - pose proof (Hpot w v Hw Hv E). rewrite (IH w t) by (auto; lia). ring. }
    rewrite (sumQ_ext (fun x => ind (P t x) * c v x)
               (fun x => ind (P t x) * ind (Nat.eqb v x) + sumQ (fun w => ind (P w v) * (ind (P t x) * c w x)) n)).
    2:{ intros x Hx. destruct (P t x) eqn:E; cbn [ind].
        - destruct (Nat.eqb_spec v x) as [<-|Hvx]; cbn [ind].
          + rewrite (sumQ_ext _ (fun w => ind (P w v) * c w v)) by (intros; ring).
            rewrite (succs_sum_zero v Hv). unfold c. rewrite (dag_count_refl n P pot v). ring.
          + unfold c at 1. rewrite (dag_count_step n P pot Hpot v x Hv Hx Hvx). fold c.
            rewrite (sumQ_ext (fun w => ind (P w v) * (1 * c w x)) (fun w => ind (P w v) * c w x)) by (intros; ring). ring.
        - rewrite sumQ_zero'; [ring|]. intros; ring. }
    rewrite !sumQ_add. rewrite (sumQ_fubini (fun w x => ind (P w v) * (ind (P t x) * c w x)) n n).
    rewrite (sumQ_ext (fun w => ind (P w v) * ind (Nat.eqb t w)) (fun w => ind (Nat.eqb t w) * ind (P w v))) by (intros; ring).
    rewrite (sumQ_ext (fun x => ind (P t x) * ind (Nat.eqb v x)) (fun x => ind (Nat.eqb v x) * ind (P t x))) by (intros; ring).
    rewrite (sumQ_ind_collapse (fun w => ind (P w v)) n t Ht), (sumQ_ind_collapse (fun x => ind (P t x)) n v Hv).
    reflexivity.
Qed.

Lemma dag_count_last v t : (v < n)%nat -> (t < n)%nat -> v <> t ->
  c v t == sumQ (fun x => ind (P t x) * c v x) n.
Proof.
  intros Hv Ht Hne. destruct (Z_lt_le_dec (pot t - pot v) 0) as [Hlt|Hge].
  - apply (dag_count_last_k O); auto.
  - apply (dag_count_last_k (S (Z.to_nat (pot t - pot v)))); auto. lia.
Qed.
End DagLast.

Lemma idx_le v l : (idx v l <= length l)%nat.
Proof. induction l as [|a l IH]; cbn [idx length]; [lia|]. destruct (Nat.eqb a v); lia. Qed.

Lemma frac_div a b : frac a b == zq a / zq b.
Proof.
  unfold frac. destruct (Z.eqb_spec b 0) as [->|Hne]; [|reflexivity].
  unfold zq, Qdiv. change (/ inject_Z 0) with 0. ring.
Qed.

(* ---------- one source, for ANY predecessor matrix P / path counts NP / potential pot that meet the interface ---------- *)
Section Source.
Variables (n : nat) (G : mat Z) (u : nat) (P : mat bool) (NP : vec Z) (pot : nat -> Z) (lo : Z).
Hypothesis HG : nonneg_len n G.
Hypothesis Hu : (u < n)%nat.
Hypothesis Hpot : forall w v, (w < n)%nat -> (v < n)%nat -> P w v = true -> (pot v < pot w)%Z.
Hypothesis Hlo : forall t, (t < n)%nat -> (lo <= pot t)%Z.
Hypothesis HP : forall w v, (w < n)%nat -> (v < n)%nat -> P w v = tightb n G u v w.
Hypothesis HNPu : NP u = 1%Z.
Hypothesis HNP : forall x, (x < n)%nat -> x <> u -> NP x = sumn (fun v => (b2z (P x v) * NP v)%Z) n.

Let c := dag_count n P pot.

Lemma NP_rec t : (t < n)%nat ->
  NP t = ((if Nat.eqb t u then 1 else 0) + sumn (fun v => b2z (P t v) * NP v) n)%Z.
Proof.
  intros Ht. destruct (Nat.eqb_spec t u) as [->|Hne].
  - rewrite HNPu. rewrite (sumn_ext _ (fun _ => 0%Z)); [rewrite sumn_zero; reflexivity|].
    intros v Hv. rewrite (HP u v Hu Hv), (tightb_source n G u v HG Hu Hv). reflexivity.
  - rewrite (HNP t Ht Hne). reflexivity.
Qed.

(* Step A: the path counts are the specification's *)
Lemma NP_sigma_k : forall k t, (t < n)%nat -> (pot t - lo < Z.of_nat k)%Z -> NP t = sigma n G u t.
Proof.
  induction k as [|k IH]; intros t Ht Hk; [pose proof (Hlo t Ht); lia|].
  rewrite (NP_rec t Ht), (sigma_last n G u t HG Hu Ht). f_equal. apply sumn_ext. intros v Hv.
  rewrite (HP t v Ht Hv). destruct (tightb n G u v t) eqn:E; cbn [b2z]; [|lia].
  rewrite <- (HP t v Ht Hv) in E. pose proof (Hpot t v Ht Hv E). rewrite (IH v Hv) by lia. lia.
Qed.
Theorem NP_sigma t : (t < n)%nat -> NP t = sigma n G u t.
Proof. intros Ht. apply (NP_sigma_k (S (Z.to_nat (pot t - lo))) t Ht). pose proof (Hlo t Ht). lia. Qed.

(* Step B: minimum-length walks through w = (walks to w) x (DAG paths from w) *)
Lemma through_k w : (w < n)%nat -> forall k t, (t < n)%nat -> (pot t - lo < Z.of_nat k)%Z ->
  zq (sigma_through n G u t w) == zq (sigma n G u w) * c w t.
Proof.
  intros Hw. induction k as [|k IH]; intros t Ht Hk; [pose proof (Hlo t Ht); lia|].
  destruct (Nat.eq_dec w t) as [<-|Hne].
  - rewrite through_self. unfold c. rewrite (dag_count_refl n P pot w). ring.
  - rewrite (through_last n G u t w HG Hu Ht Hne), <- sumQ_zq.
    unfold c at 1. rewrite (dag_count_last n P pot Hpot w t Hw Ht Hne). fold c. rewrite <- sumQ_scal.
    apply sumQ_ext. intros x Hx. rewrite (HP t x Ht Hx). destruct (tightb n G u x t) eqn:E; cbn [ind].
    + rewrite <- (HP t x Ht Hx) in E. pose proof (Hpot t x Ht Hx E). rewrite (IH x Hx) by lia. ring.
    + unfold zq. change (inject_Z 0) with 0. ring.
Qed.
Lemma through_c w t : (w < n)%nat -> (t < n)%nat -> zq (sigma_through n G u t w) == zq (sigma n G u w) * c w t.
Proof. intros Hw Ht. apply (through_k w Hw (S (Z.to_nat (pot t - lo))) t Ht). pose proof (Hlo t Ht). lia. Qed.

(* Step C: minimum-length walks over the connection x -> y *)
Lemma edge_k x y : (x < n)%nat -> (y < n)%nat -> forall k t, (t < n)%nat -> (pot t - lo < Z.of_nat k)%Z ->
  zq (sigma_edge n G u t x y) == ind (P y x) * zq (sigma n G u x) * c y t.
Proof.
  intros Hx Hy. induction k as [|k IH]; intros t Ht Hk; [pose proof (Hlo t Ht); lia|].
  rewrite (edge_last n G u t x y HG Hu Ht), <- sumQ_zq.
  destruct (Nat.eq_dec y t) as [<-|Hne].
  - unfold c. rewrite (dag_count_refl n P pot y). fold c.
    rewrite (sumQ_ext _ (fun v => ind (Nat.eqb x v) * (ind (P y v) * zq (sigma n G u v)))).
    + rewrite (sumQ_ind_collapse (fun v => ind (P y v) * zq (sigma n G u v)) n x Hx). ring.
    + intros v Hv. rewrite Nat.eqb_refl, andb_true_r, (HP y v Hy Hv), (Nat.eqb_sym x v).
      destruct (tightb n G u v y) eqn:E; cbn [ind]; [|unfold zq; change (inject_Z 0) with 0; ring].
      destruct (Nat.eqb v x); cbn [ind]; [ring|].
      rewrite <- (HP y v Hy Hv) in E. pose proof (Hpot y v Hy Hv E). rewrite (IH v Hv) by lia.
      unfold c. rewrite (dag_count_acyc n P pot Hpot y v Hy Hv E). ring.
  - unfold c at 1. rewrite (dag_count_last n P pot Hpot y t Hy Ht Hne). fold c. rewrite <- sumQ_scal.
    apply sumQ_ext. intros v Hv. rewrite (HP t v Ht Hv).
    assert (Nat.eqb t y = false) as -> by (apply Nat.eqb_neq; auto). rewrite andb_false_r.
    destruct (tightb n G u v t) eqn:E; cbn [ind]; [|unfold zq; change (inject_Z 0) with 0; ring].
    rewrite <- (HP t v Ht Hv) in E. pose proof (Hpot t v Ht Hv E). rewrite (IH v Hv) by lia. ring.
Qed.
Lemma edge_c x y t : (x < n)%nat -> (y < n)%nat -> (t < n)%nat ->
  zq (sigma_edge n G u t x y) == ind (P y x) * zq (sigma n G u x) * c y t.
Proof. intros Hx Hy Ht. apply (edge_k x y Hx Hy (S (Z.to_nat (pot t - lo))) t Ht). pose proof (Hlo t Ht). lia. Qed.

(* Step D: the accumulated pair sums are the specification's fractions *)
Theorem node_spec w : (w < n)%nat ->
  (if Nat.eqb w u then 0 else delta n NP c w) ==
  sumQ (fun t => if neb u w && neb t w then frac (sigma_through n G u t w) (sigma n G u t) else 0) n.
Proof.
  intros Hw. unfold neb. rewrite (Nat.eqb_sym u w). destruct (Nat.eqb w u); cbn [negb andb].
  - symmetry. apply sumQ_zero'. reflexivity.
  - unfold delta. cbn zeta. apply sumQ_ext. intros t Ht. destruct (Nat.eqb t w); cbn [negb]; [reflexivity|].
    rewrite frac_div, (through_c w t Hw Ht). rewrite (NP_sigma w Hw), (NP_sigma t Ht). reflexivity.
Qed.

Theorem edge_spec v w : (v < n)%nat -> (w < n)%nat ->
  (if Nat.eqb w u then 0 else delta_edge n P NP c v w) ==
  sumQ (fun t => frac (sigma_edge n G u t v w) (sigma n G u t)) n.
Proof.
  intros Hv Hw. destruct (Nat.eqb_spec w u) as [->|Hne].
  - symmetry. apply sumQ_zero'. intros t Ht. rewrite frac_div, (edge_c v u t Hv Hu Ht).
    rewrite (HP u v Hu Hv), (tightb_source n G u v HG Hu Hv). cbn [ind]. unfold Qdiv. ring.
  - unfold delta_edge. cbn zeta. apply sumQ_ext. intros t Ht.
    rewrite frac_div, (edge_c v w t Hv Hw Ht). rewrite (NP_sigma v Hv), (NP_sigma t Ht).
    unfold Qdiv. ring.
Qed.
End Source.

(* instantiation on a finished search state *)
Section SourceSt.
Variables (n : nat) (G : mat Z) (u : nat) (st : sst).
Hypothesis HG : nonneg_len n G.
Hypothesis Hu : (u < n)%nat.
Hypothesis Hrdy : acc_ready n u st.
Hypothesis Hcnt : counts_ok n G u st.

Lemma st_pot : forall w v, (w < n)%nat -> (v < n)%nat -> sP st w v = true -> (potQ n st v < potQ n st w)%Z.
Proof. destruct (acc_ready_order n u st Hrdy) as (_ & _ & _ & _ & _ & H). exact H. Qed.
Lemma st_lo t : (t < n)%nat -> (- Z.of_nat n <= potQ n st t)%Z.
Proof. intros _. unfold potQ. pose proof (idx_le t (to_list n (sQ st))) as H. rewrite to_list_length in H. lia. Qed.

Theorem NP_sigma_st t : (t < n)%nat -> sNP st t = sigma n G u t.
Proof.
  destruct Hcnt as (H1 & H2 & H3).
  exact (NP_sigma n G u (sP st) (sNP st) (potQ n st) (- Z.of_nat n) HG Hu st_pot st_lo H1 H2 H3 t).
Qed.
Theorem node_spec_st w : (w < n)%nat ->
  (if Nat.eqb w u then 0 else delta n (sNP st) (dag_count n (sP st) (potQ n st)) w) ==
  sumQ (fun t => if neb u w && neb t w then frac (sigma_through n G u t w) (sigma n G u t) else 0) n.
Proof.
  destruct Hcnt as (H1 & H2 & H3).
  exact (node_spec n G u (sP st) (sNP st) (potQ n st) (- Z.of_nat n) HG Hu st_pot st_lo H1 H2 H3 w).
Qed.
Theorem edge_spec_st v w : (v < n)%nat -> (w < n)%nat ->
  (if Nat.eqb w u then 0 else delta_edge n (sP st) (sNP st) (dag_count n (sP st) (potQ n st)) v w) ==
  sumQ (fun t => frac (sigma_edge n G u t v w) (sigma n G u t)) n.
Proof.
  destruct Hcnt as (H1 & H2 & H3).
  exact (edge_spec n G u (sP st) (sNP st) (potQ n st) (- Z.of_nat n) HG Hu st_pot st_lo H1 H2 H3 v w).
Qed.
End SourceSt.

(* ---------- all sources: any routine of the sources_e / sources_n shape ---------- *)
Theorem pairsums_to_spec n G (src : nat -> option sst) : nonneg_len n G ->
  (forall u, (u < n)%nat -> exists st, src u = Some st /\ acc_ready n u st /\ counts_ok n G u st) ->
  (forall w, (w < n)%nat -> sumQ (fun u => dep_node n src u w) n == BC_spec n G w) /\
  (forall v w, (v < n)%nat -> (w < n)%nat -> sumQ (fun u => dep_edge n src u v w) n == EBC_spec n G v w).
Proof.
  intros HG Hsrc. split.
  - intros w Hw. unfold BC_spec. apply sumQ_ext. intros u Hu. destruct (Hsrc u Hu) as (st & E & Hr & Hc).
    unfold dep_node. rewrite E. apply (node_spec_st n G u st HG Hu Hr Hc w Hw).
  - intros v w Hv Hw. unfold EBC_spec. apply sumQ_ext. intros u Hu. destruct (Hsrc u Hu) as (st & E & Hr & Hc).
    unfold dep_edge. rewrite E. apply (edge_spec_st n G u st HG Hu Hr Hc v w Hv Hw).
Qed.

(* ---------- the weighted routines return the specification ---------- *)
Lemma source_w_ready_counts n G : nonneg_len n G ->
  forall u, (u < n)%nat -> exists st, source_w n G u = Some st /\ acc_ready n u st /\ counts_ok n G u st.
Proof.
  intros HG u Hu. destruct (source_w_counts n G u Hu HG) as (st & E & Hok & _ & _ & Hc).
  exists st. split; [exact E|]. split; [apply (queue_ok_ready n u st Hok)|exact Hc].
Qed.

Theorem ebc_wei_correct n G : nonneg_len n G ->
  exists EBC BC, edge_betweenness_wei n G = Some (EBC, BC) /\
    (forall v, (v < n)%nat -> BC v == BC_spec n G v) /\
    (forall x y, (x < n)%nat -> (y < n)%nat -> EBC x y == EBC_spec n G x y).
Proof.
  intros HG. destruct (ebc_wei_pairsums n G HG) as (EBC & BC & E & H1 & H2).
  destruct (pairsums_to_spec n G (source_w n G) HG (source_w_ready_counts n G HG)) as [S1 S2].
  exists EBC, BC. split; [exact E|]. split.
  - intros v Hv. rewrite (H1 v Hv). apply S1; exact Hv.
  - intros x y Hx Hy. rewrite (H2 x y Hx Hy). apply S2; assumption.
Qed.

Theorem bc_wei_correct n G : nonneg_len n G ->
  exists BC, betweenness_wei n G = Some BC /\ forall v, (v < n)%nat -> BC v == BC_spec n G v.
Proof.
  intros HG. destruct (bc_wei_pairsums n G HG) as (BC & E & H1).
  destruct (pairsums_to_spec n G (source_w n G) HG (source_w_ready_counts n G HG)) as [S1 _].
  exists BC. split; [exact E|]. intros v Hv. rewrite (H1 v Hv). apply S1; exact Hv.
Qed.

(* the search phase of the weighted routines, in full (Properties/C08.v: search_correct_wei) *)
Theorem search_w_correct n G u : (u < n)%nat -> nonneg_len n G ->
  exists st, source_w n G u = Some st /\
    (forall x, (x < n)%nat -> sD st x = dist_spec n G u x) /\
    (forall x, (x < n)%nat -> sNP st x = sigma n G u x) /\
    (forall w v, (w < n)%nat -> (v < n)%nat ->
       (sP st w v = true <-> edge G v w = true /\ exists dv, sD st v = Some dv /\ sD st w = Some (dv + G v w)%Z)).
Proof.
  intros Hu HG. destruct (source_w_counts n G u Hu HG) as (st & E & Hok & _ & HD & Hc).
  exists st. split; [exact E|]. split; [exact HD|]. split.
  - intros x Hx. apply (NP_sigma_st n G u st HG Hu (queue_ok_ready n u st Hok) Hc x Hx).
  - intros w v Hw Hv. destruct Hc as (Hp & _). rewrite (Hp w v Hw Hv), tightb_true, (HD v Hv), (HD w Hw). reflexivity.
Qed.

Print Assumptions ebc_wei_correct.
Print Assumptions bc_wei_correct.
