(* Proofs/RewireGuards.v — what the guards buy (C11): connectivity is kept by the `_connected` routines,
   the lattice condition never increases sum(D*R), the mask is honoured, bad input is rejected. *)
From Coq Require Import ZArith List Arith Bool Lia QArith Permutation Relations.
From BCT Require Import Base.Mat Base.ListX Model.Components Model.Rewire
     Proofs.RewireSwap Proofs.RewireInv Proofs.RewireRun Proofs.RewireConn.
Import ListNotations.
Open Scope Z_scope.

(* ---------- a guard that protects a property C of the matrix ---------- *)
Definition GuardSound (und : bool) (n : nat) (g : mat Z -> nat -> nat -> nat -> nat -> bool) (C : mat Z -> Prop) : Prop :=
  forall R a b c d,
    a <> c -> a <> d -> b <> c -> b <> d ->
    (a < n)%nat -> (b < n)%nat -> (c < n)%nat -> (d < n)%nat ->
    R a d = 0 -> R c b = 0 -> R a b <> 0 -> R c d <> 0 ->
    (und = true -> a <> b /\ c <> d /\ (forall x y, R x y = R y x)) ->
    g R a b c d = true -> C R ->
    C (if und then swap_und R a b c d else swap_dir R a b c d).

Lemma accept_facts und n k st1 e1 e2 a b c d :
  Inv und n k st1 -> (e1 < k)%nat -> (e2 < k)%nat ->
  a = si st1 e1 -> b = sj st1 e1 -> c = si st1 e2 -> d = sj st1 e2 ->
  four_ok a b c d = true ->
  a <> c /\ a <> d /\ b <> c /\ b <> d /\ (a < n /\ b < n /\ c < n /\ d < n)%nat /\
  sR st1 a b <> 0 /\ sR st1 c d <> 0 /\
  (und = true -> a <> b /\ c <> d /\ (forall x y, sR st1 x y = sR st1 y x)).
Proof. intros HI He1 He2 -> -> -> -> Hf. apply (acc_facts und n k st1 e1 e2 HI He1 He2 Hf). Qed.

Lemma attempt_keeps v n k st s st' s' o C : (0 < k)%nat ->
  GuardSound (v_und v) n (v_guard v) C ->
  Inv (v_und v) n k st -> C (sR st) -> attempt v k st s = Some (st', s', o) -> C (sR st').
Proof.
  intros Hk GS HI HC H. unfold attempt in H.
  destruct (select (length s) k (si st) (sj st) s) as [[[e1 e2] s1]|] eqn:Sel; [|discriminate].
  destruct (select_spec _ _ _ _ _ _ _ _ Hk Sel) as (He1 & He2 & Hne & Hf).
  destruct (v_und v) eqn:U.
  - destruct s1 as [|[z|q|l] s2]; try discriminate.
    destruct (Qgtb q (1 # 2)) eqn:Fl.
    + set (st1 := mkst (sR st) (vupd (si st) e2 (sj st e2)) (vupd (sj st) e2 (si st e2))) in *.
      assert (HI1: Inv true n k st1) by (apply flip_inv; assumption).
      cbn [sR si sj st1] in H.
      destruct (Z.eqb (sR st (si st e1) (si st e2)) 0 && Z.eqb (sR st (sj st e2) (sj st e1)) 0 &&
                v_guard v (sR st) (si st e1) (sj st e1) (sj st e2) (si st e2))%bool eqn:G.
      * inversion H; subst; clear H. cbn [sR].
        apply andb_true_iff in G. destruct G as [G G3]. apply andb_true_iff in G. destruct G as [G1 G2].
        apply Z.eqb_eq in G1. apply Z.eqb_eq in G2.
        assert (E1: si st e1 = si st1 e1) by (cbn [st1 si]; rewrite vupd_other; auto).
        assert (E2: sj st e1 = sj st1 e1) by (cbn [st1 sj]; rewrite vupd_other; auto).
        assert (E3: sj st e2 = si st1 e2) by (cbn [st1 si]; rewrite vupd_same; reflexivity).
        assert (E4: si st e2 = sj st1 e2) by (cbn [st1 sj]; rewrite vupd_same; reflexivity).
        destruct (accept_facts true n k st1 e1 e2 _ _ _ _ HI1 He1 He2 E1 E2 E3 E4 (four_ok_flip _ _ _ _ Hf))
          as (F1&F2&F3&F4&(Ra&Rb&Rc&Rd)&N1&N2&Hu).
        apply (GS (sR st)); auto.
      * inversion H; subst; clear H. exact HC.
    + destruct (Z.eqb (sR st (si st e1) (sj st e2)) 0 && Z.eqb (sR st (si st e2) (sj st e1)) 0 &&
                v_guard v (sR st) (si st e1) (sj st e1) (si st e2) (sj st e2))%bool eqn:G.
      * inversion H; subst; clear H. cbn [sR].
        apply andb_true_iff in G. destruct G as [G G3]. apply andb_true_iff in G. destruct G as [G1 G2].
        apply Z.eqb_eq in G1. apply Z.eqb_eq in G2.
        destruct (accept_facts true n k st e1 e2 _ _ _ _ HI He1 He2 eq_refl eq_refl eq_refl eq_refl Hf)
          as (F1&F2&F3&F4&(Ra&Rb&Rc&Rd)&N1&N2&Hu).
        apply (GS (sR st)); auto.
      * inversion H; subst; clear H. exact HC.
  - destruct (Z.eqb (sR st (si st e1) (sj st e2)) 0 && Z.eqb (sR st (si st e2) (sj st e1)) 0 &&
              v_guard v (sR st) (si st e1) (sj st e1) (si st e2) (sj st e2))%bool eqn:G.
    + inversion H; subst; clear H. cbn [sR].
      apply andb_true_iff in G. destruct G as [G G3]. apply andb_true_iff in G. destruct G as [G1 G2].
      apply Z.eqb_eq in G1. apply Z.eqb_eq in G2.
      destruct (accept_facts false n k st e1 e2 _ _ _ _ HI He1 He2 eq_refl eq_refl eq_refl eq_refl Hf)
        as (F1&F2&F3&F4&(Ra&Rb&Rc&Rd)&N1&N2&Hu).
      apply (GS (sR st)); auto.
    + inversion H; subst; clear H. exact HC.
Qed.

(* lifting any attempt-invariant J of the state through the loops and onto every recorded event *)
Section Lift.
Variables (v : variant) (k : nat) (J : state -> Prop).
Hypothesis Jstep : forall st s st' s' o, J st -> attempt v k st s = Some (st', s', o) -> J st'.

Lemma attempts_J left st s st' s' o : J st -> attempts v k left st s = Some (st', s', o) -> J st'.
Proof.
  revert st s. induction left as [|l IH]; intros st s HJ H; cbn [attempts] in H; [inversion H; subst; exact HJ|].
  destruct (attempt v k st s) as [[[st1 s1] [q|]]|] eqn:A; try discriminate.
  - inversion H; subst. eapply Jstep; eassumption.
  - eapply IH; [|exact H]. eapply Jstep; eassumption.
Qed.
Lemma iterate_J ma iters st s tr st' s' tr' :
  J st -> Forall (fun ev => J (snd ev)) tr -> iterate v k ma iters st s tr = Some (st', s', tr') ->
  J st' /\ Forall (fun ev => J (snd ev)) tr'.
Proof.
  revert st s tr. induction iters as [|it IH]; intros st s tr HJ HT H; cbn [iterate] in H; [inversion H; subst; auto|].
  destruct (attempts v k ma st s) as [[[st1 s1] [q|]]|] eqn:A; try discriminate.
  - pose proof (attempts_J _ _ _ _ _ _ HJ A) as J1. eapply IH; [exact J1| |exact H].
    apply Forall_app. split; [exact HT|]. constructor; [exact J1|constructor].
  - pose proof (attempts_J _ _ _ _ _ _ HJ A) as J1. eapply IH; [exact J1|exact HT|exact H].
Qed.
Lemma until_J fuel want st s tr st' s' tr' :
  J st -> Forall (fun ev => J (snd ev)) tr -> until_swaps v k fuel want st s tr = Some (st', s', tr') ->
  J st' /\ Forall (fun ev => J (snd ev)) tr'.
Proof.
  revert want st s tr. induction fuel as [|f IH]; intros want st s tr HJ HT H.
  - destruct want; cbn [until_swaps] in H; [inversion H; subst; auto|discriminate].
  - destruct want as [|w]; cbn [until_swaps] in H; [inversion H; subst; auto|].
    destruct (attempt v k st s) as [[[st1 s1] [q|]]|] eqn:A; try discriminate.
    + pose proof (Jstep _ _ _ _ _ HJ A) as J1. eapply IH; [exact J1| |exact H].
      apply Forall_app. split; [exact HT|]. constructor; [exact J1|constructor].
    + pose proof (Jstep _ _ _ _ _ HJ A) as J1. eapply IH; [exact J1|exact HT|exact H].
Qed.
End Lift.

(* guards combine *)
Lemma GuardSound_andg_r und n g h C : GuardSound und n h C -> GuardSound und n (andg g h) C.
Proof. intros GS R a b c d. intros. apply GS; auto. unfold andg in *. apply andb_true_iff in H12. tauto. Qed.
Lemma GuardSound_andg_l und n g h C : GuardSound und n g C -> GuardSound und n (andg g h) C.
Proof. intros GS R a b c d. intros. apply GS; auto. unfold andg in *. apply andb_true_iff in H12. tauto. Qed.

(* ---------- connectivity ---------- *)
Definition ConnZ (n : nat) (R : mat Z) : Prop := connected n R /\ forall x, R x x = 0.

Lemma und_conn_GuardSound n : GuardSound true n (und_conn_guard n) (ConnZ n).
Proof.
  intros R a b c d F1 F2 F3 F4 Ha Hb Hc Hd Z1 Z2 N1 N2 Hu HG [HC HD].
  destruct (Hu eq_refl) as (Hab & Hcd & Hsym). split.
  - apply und_conn_guard_sound; auto.
  - intros x. rewrite swap_und_diag; auto.
Qed.
Lemma dir_conn_GuardSound n : GuardSound false n (dir_conn_guard n) (ConnZ n).
Proof.
  intros R a b c d F1 F2 F3 F4 Ha Hb Hc Hd Z1 Z2 N1 N2 _ HG [HC HD].
  assert (Hab: a <> b) by (intros ->; apply N1; apply HD).
  assert (Hcd: c <> d) by (intros ->; apply N2; apply HD).
  split.
  - apply dir_conn_guard_sound; auto.
  - intros x. apply swap_dir_diag; auto.
Qed.

(* ---------- lattice cost ---------- *)
Definition cost (n : nat) (D R : mat Z) : Z := sum2 (fun x y => D x y * R x y) n.

Lemma sumn_change2 f g n p q : (p < n)%nat -> (q < n)%nat -> p <> q ->
  (forall i, i <> p -> i <> q -> g i = f i) -> sumn g n = sumn f n - f p - f q + g p + g q.
Proof.
  intros Hp Hq Hpq H.
  rewrite (sumn_split2 f n p q Hp Hq Hpq), (sumn_split2 g n p q Hp Hq Hpq).
  rewrite (sumn_ext (fun i => if Nat.eqb i q then 0 else if Nat.eqb i p then 0 else g i)
                    (fun i => if Nat.eqb i q then 0 else if Nat.eqb i p then 0 else f i) n); [lia|].
  intros i _. destruct (Nat.eqb_spec i q); [reflexivity|]. destruct (Nat.eqb_spec i p); [reflexivity|]. apply H; assumption.
Qed.

Lemma cost_dir n D R a b c d :
  a <> c -> b <> d -> (a < n)%nat -> (b < n)%nat -> (c < n)%nat -> (d < n)%nat -> R a d = 0 -> R c b = 0 ->
  cost n D (swap_dir R a b c d) = cost n D R + (D a d - D a b) * R a b + (D c b - D c d) * R c d.
Proof.
  intros Hac Hbd Ha Hb Hc Hd Z1 Z2. unfold cost, sum2.
  rewrite (sumn_change2 (fun x => sumn (fun y => D x y * R x y) n) _ n a c Ha Hc Hac).
  - rewrite (sumn_change2 (fun y => D a y * R a y) (fun y => D a y * swap_dir R a b c d a y) n b d Hb Hd Hbd)
      by (intros y N1 N2; rewrite swap_dir_other_col; auto).
    rewrite (sumn_change2 (fun y => D c y * R c y) (fun y => D c y * swap_dir R a b c d c y) n b d Hb Hd Hbd)
      by (intros y N1 N2; rewrite swap_dir_other_col; auto).
    rewrite swap_dir_ab, swap_dir_ad, swap_dir_cb, swap_dir_cd by auto. rewrite Z1, Z2. lia.
  - intros x N1 N2. apply sumn_ext. intros y _. rewrite swap_dir_other_row; auto.
Qed.

Lemma lattice_GuardSound_dir n D c0 : GuardSound false n (lattice_guard D) (fun R => cost n D R <= c0).
Proof.
  intros R a b c d F1 F2 F3 F4 Ha Hb Hc Hd Z1 Z2 N1 N2 _ HG HC.
  rewrite cost_dir; auto. unfold lattice_guard in HG. apply Z.leb_le in HG. lia.
Qed.

Lemma cost_und n D R a b c d :
  a <> b -> a <> c -> a <> d -> b <> c -> b <> d -> c <> d ->
  (a < n)%nat -> (b < n)%nat -> (c < n)%nat -> (d < n)%nat ->
  (forall x y, R x y = R y x) -> R a d = 0 -> R c b = 0 ->
  cost n D (swap_und R a b c d) =
    cost n D R + (D a d - D a b) * R a b + (D c b - D c d) * R c d + (D d a - D b a) * R b a + (D b c - D d c) * R d c.
Proof.
  intros Hab Hac Had Hbc Hbd Hcd Ha Hb Hc Hd Hsym Z1 Z2. unfold cost, sum2.
  set (R' := swap_und R a b c d).
  (* intermediate: rows a and c already swapped *)
  set (h := fun x => if (Nat.eqb x a || Nat.eqb x c)%bool then sumn (fun y => D x y * R' x y) n else sumn (fun y => D x y * R x y) n).
  assert (Rowa: sumn (fun y => D a y * R' a y) n = sumn (fun y => D a y * R a y) n + (D a d - D a b) * R a b).
  { rewrite (sumn_change2 (fun y => D a y * R a y) (fun y => D a y * R' a y) n b d Hb Hd Hbd)
      by (intros y N1 N2; unfold R'; rewrite (und_row_a R a b c d); auto).
    unfold R'. rewrite swap_und_ab, swap_und_ad by auto. rewrite Z1. lia. }
  assert (Rowc: sumn (fun y => D c y * R' c y) n = sumn (fun y => D c y * R c y) n + (D c b - D c d) * R c d).
  { rewrite (sumn_change2 (fun y => D c y * R c y) (fun y => D c y * R' c y) n b d Hb Hd Hbd)
      by (intros y N1 N2; unfold R'; rewrite (und_row_c R a b c d); auto).
    unfold R'. rewrite swap_und_cb, swap_und_cd by auto. rewrite Z2. lia. }
  assert (Rowb: sumn (fun y => D b y * R' b y) n = sumn (fun y => D b y * R b y) n - D b a * R b a + D b c * R d c).
  { rewrite (sumn_change2 (fun y => D b y * R b y) (fun y => D b y * R' b y) n a c Ha Hc Hac)
      by (intros y N1 N2; unfold R'; rewrite (und_row_b R a b c d); auto).
    unfold R'. rewrite swap_und_ba, swap_und_bc by auto. rewrite (Hsym b c), Z2. lia. }
  assert (Rowd: sumn (fun y => D d y * R' d y) n = sumn (fun y => D d y * R d y) n + D d a * R b a - D d c * R d c).
  { rewrite (sumn_change2 (fun y => D d y * R d y) (fun y => D d y * R' d y) n a c Ha Hc Hac)
      by (intros y N1 N2; unfold R'; rewrite (und_row_d R a b c d); auto).
    unfold R'. rewrite swap_und_da, swap_und_dc by auto. rewrite (Hsym d a), Z1. lia. }
  assert (Hh: sumn h n = sumn (fun x => sumn (fun y => D x y * R x y) n) n + (D a d - D a b) * R a b + (D c b - D c d) * R c d).
  { rewrite (sumn_change2 (fun x => sumn (fun y => D x y * R x y) n) h n a c Ha Hc Hac).
    - unfold h. rewrite !Nat.eqb_refl, orb_true_r. cbn [orb]. rewrite Rowa, Rowc. lia.
    - intros x N1 N2. unfold h. destruct (Nat.eqb_spec x a); [contradiction|]. destruct (Nat.eqb_spec x c); [contradiction|]. reflexivity. }
  rewrite (sumn_change2 h (fun x => sumn (fun y => D x y * R' x y) n) n b d Hb Hd Hbd).
  - rewrite Hh. unfold h.
    destruct (Nat.eqb_spec b a); [congruence|]. destruct (Nat.eqb_spec b c); [congruence|].
    destruct (Nat.eqb_spec d a); [congruence|]. destruct (Nat.eqb_spec d c); [congruence|]. cbn [orb].
    rewrite Rowb, Rowd. lia.
  - intros x N1 N2. unfold h. destruct (Nat.eqb_spec x a) as [->|Na]; [reflexivity|].
    destruct (Nat.eqb_spec x c) as [->|Nc]; [reflexivity|]. cbn [orb].
    apply sumn_ext. intros y _. unfold R'. rewrite swap_und_other_row; auto.
Qed.

Lemma lattice_GuardSound_und n D c0 : (forall x y, D x y = D y x) ->
  GuardSound true n (lattice_guard D) (fun R => cost n D R <= c0).
Proof.
  intros HDs R a b c d F1 F2 F3 F4 Ha Hb Hc Hd Z1 Z2 N1 N2 Hu HG HC.
  destruct (Hu eq_refl) as (Hab & Hcd & Hsym).
  rewrite cost_und; auto. unfold lattice_guard in HG. apply Z.leb_le in HG.
  rewrite (Hsym b a), (Hsym d c), (HDs d a), (HDs b a), (HDs b c), (HDs d c). lia.
Qed.

(* ---------- mask ---------- *)
Definition MaskOK (A B : mat Z) (R : mat Z) : Prop := forall x y, A x y = 0 -> R x y <> 0 -> B x y = 0.

Lemma mask_GuardSound n A B : (forall x y, B x y = B y x) -> GuardSound true n (mask_guard B) (MaskOK A B).
Proof.
  intros HBs R a b c d F1 F2 F3 F4 Ha Hb Hc Hd Z1 Z2 N1 N2 Hu HG HC x y HA Hnz.
  destruct (Hu eq_refl) as (Hab & Hcd & Hsym).
  unfold mask_guard in HG. apply andb_true_iff in HG. destruct HG as [G1 G2]. apply Z.eqb_eq in G1. apply Z.eqb_eq in G2.
  destruct (Z.eq_dec (R x y) 0) as [E|E]; [|apply HC; assumption].
  (* a cell that became nonzero is one of the four written cells *)
  destruct (touched_dec a b c d Hab F1 F2 F3 F4 Hcd x y) as [T|T].
  - unfold touched in T. repeat destruct T as [T|T]; destruct T as [E1 E2]; subst x y;
      rewrite ?swap_und_ad, ?swap_und_ab, ?swap_und_da, ?swap_und_ba, ?swap_und_cb, ?swap_und_cd,
              ?swap_und_bc, ?swap_und_dc in Hnz by auto;
      first [exact G1 | exact G2 | rewrite HBs; exact G1 | rewrite HBs; exact G2 | exfalso; apply Hnz; reflexivity].
  - rewrite swap_und_other in Hnz by auto. contradiction.
Qed.
