(* Proofs/Linear.v — mean first passage time, diffusion efficiency, pagerank: algebra over Q.
   The LAPACK results (stationary vector w, inverse Z, solution r') are universally quantified and constrained only by
   their defining equations. *)
From Coq Require Import QArith Qabs Qfield Lia Lqa Arith List Bool.
From BCT Require Import Base.Mat Base.SumQ Model.Linear.
Import ListNotations.
Open Scope Q_scope.

Lemma delta_sym i j : delta i j = delta j i.
Proof. unfold delta. rewrite Nat.eqb_sym. reflexivity. Qed.

Lemma sumQ_delta_l f n i : (i < n)%nat -> sumQ (fun k => delta i k * f k) n == f i.
Proof. intros Hi. exact (sumQ_ind_collapse f n i Hi). Qed.

Lemma sumQ_delta_r f n i : (i < n)%nat -> sumQ (fun k => f k * delta k i) n == f i.
Proof.
  intros Hi. rewrite <- (sumQ_delta_l f n i Hi). apply sumQ_ext. intros k _. rewrite (delta_sym k i). ring.
Qed.

(* sum_i x_i * (sum_k F i k)  ==  sum_k (sum_i x_i * F i k) *)
Lemma sumQ_swap_scal (x : vec Q) (F : mat Q) n m :
  sumQ (fun i => x i * sumQ (fun k => F i k) m) n == sumQ (fun k => sumQ (fun i => x i * F i k) n) m.
Proof.
  rewrite <- sumQ_fubini. apply sumQ_ext. intros i _. rewrite <- sumQ_scal. reflexivity.
Qed.

(* ---------------- the transition matrix is row-stochastic ---------------- *)
Lemma transP_stochastic n A i : ~ rowsumQ n A i == 0 -> sumQ (transP n A i) n == 1.
Proof.
  intros H. unfold transP.
  rewrite (sumQ_ext _ (fun j => A i j * (1 / rowsumQ n A i))) by (intros; field; exact H).
  rewrite sumQ_scal_r. fold (rowsumQ n A i). field. exact H.
Qed.

Lemma transP_def n A i j : ~ rowsumQ n A i == 0 -> transP n A i j * rowsumQ n A i == A i j.
Proof. intros H. unfold transP. field. exact H. Qed.

(* ---------------- mean first passage time ---------------- *)
Section MFPT.
Variables (n : nat) (P : mat Q) (w : vec Q) (Z : mat Q).
Hypothesis HP : forall i, (i < n)%nat -> sumQ (P i) n == 1.                               (* row-stochastic *)
Hypothesis Hw : forall j, (j < n)%nat -> sumQ (fun i => w i * P i j) n == w j.            (* w P = w *)
Hypothesis Hw1 : sumQ w n == 1.
Hypothesis HZ : forall i j, (i < n)%nat -> (j < n)%nat -> mmulQ n (fundA P w) Z i j == delta i j.   (* (I-P+W) Z = I *)
Hypothesis Hwnz : forall j, (j < n)%nat -> ~ w j == 0.

Let M := mfpt w Z.

Lemma w_fundA k : (k < n)%nat -> sumQ (fun i => w i * fundA P w i k) n == w k.
Proof.
  intros Hk. unfold fundA.
  rewrite (sumQ_ext _ (fun i => (w i * delta i k - w i * P i k) + w i * w k)) by (intros; ring).
  rewrite sumQ_add, sumQ_sub, sumQ_scal_r. rewrite (sumQ_delta_r w n k Hk), (Hw k Hk), Hw1. ring.
Qed.

(* w Z = w *)
Lemma wZ j : (j < n)%nat -> sumQ (fun k => w k * Z k j) n == w j.
Proof.
  intros Hj.
  assert (E1 : sumQ (fun i => w i * mmulQ n (fundA P w) Z i j) n == w j).
  { rewrite (sumQ_ext _ (fun i => w i * delta i j)) by (intros i Hi; rewrite (HZ i j Hi Hj); reflexivity).
    apply sumQ_delta_r; exact Hj. }
  rewrite <- E1. unfold mmulQ. rewrite sumQ_swap_scal. apply sumQ_ext. intros k Hk.
  rewrite (sumQ_ext _ (fun i => (w i * fundA P w i k) * Z k j)) by (intros; ring).
  rewrite sumQ_scal_r. rewrite (w_fundA k Hk). reflexivity.
Qed.

(* (P Z)_ij = Z_ij + w_j - delta_ij *)
Lemma PZ i j : (i < n)%nat -> (j < n)%nat -> sumQ (fun k => P i k * Z k j) n == Z i j + w j - delta i j.
Proof.
  intros Hi Hj. pose proof (HZ i j Hi Hj) as H. unfold mmulQ, fundA in H.
  rewrite (sumQ_ext _ (fun k => (delta i k * Z k j - P i k * Z k j) + w k * Z k j)) in H by (intros; ring).
  rewrite sumQ_add, sumQ_sub in H. rewrite (sumQ_delta_l (fun k => Z k j) n i Hi) in H. rewrite (wZ j Hj) in H.
  lra.
Qed.

Lemma mfpt_diag j : M j j == 0.
Proof. unfold M, mfpt. unfold Qdiv. ring. Qed.

(* the first-step equation for every ordered pair, with the i = j instance made explicit *)
Theorem mfpt_first_step i j : (i < n)%nat -> (j < n)%nat ->
  1 + sumQ (fun k => if Nat.eqb k j then 0 else P i k * M k j) n == M i j + delta i j / w j.
Proof.
  intros Hi Hj. pose proof (Hwnz j Hj) as Hnz.
  rewrite (sumQ_ext _ (fun k => (P i k * Z j j - P i k * Z k j) * (1 / w j))).
  - rewrite sumQ_scal_r, sumQ_sub, sumQ_scal_r. rewrite (HP i Hi), (PZ i j Hi Hj).
    unfold M, mfpt. field. exact Hnz.
  - intros k Hk. destruct (Nat.eqb_spec k j) as [->|Hne].
    + field. exact Hnz.
    + unfold M, mfpt. field. exact Hnz.
Qed.

(* hitting-time reading, as in the property *)
Theorem mfpt_equation :
  (forall i j, (i < n)%nat -> (j < n)%nat -> i <> j ->
     M i j == 1 + sumQ (fun k => if Nat.eqb k j then 0 else P i k * M k j) n) /\
  (forall j, M j j == 0) /\
  (* the i = j instance of the right-hand side is the mean RETURN time 1/w_j, which the code does not return *)
  (forall j, (j < n)%nat -> 1 + sumQ (fun k => if Nat.eqb k j then 0 else P j k * M k j) n == 1 / w j).
Proof.
  split; [|split].
  - intros i j Hi Hj Hij. rewrite (mfpt_first_step i j Hi Hj). unfold delta.
    destruct (Nat.eqb_spec i j); [contradiction|]. unfold Qdiv. ring.
  - exact mfpt_diag.
  - intros j Hj. rewrite (mfpt_first_step j j Hj Hj). rewrite mfpt_diag. unfold delta. rewrite Nat.eqb_refl. ring.
Qed.
End MFPT.

(* ---------------- diffusion efficiency ---------------- *)
Theorem diffusion_eff_def n (M : mat Q) :
  (forall i j, i <> j -> ~ M i j == 0 -> ediff M i j * M i j == 1) /\
  (forall i j, i <> j -> ediff M i j == 1 / M i j) /\
  (forall i, ediff M i i == 0) /\
  ((2 <= n)%nat ->
   gediff n (ediff M) * inject_Z (Z.of_nat (n * n - n)) ==
   sumQ (fun i => sumQ (fun j => if Nat.eqb i j then 0 else 1 / M i j) n) n).
Proof.
  split; [|split; [|split]].
  - intros i j Hij Hnz. unfold ediff. destruct (Nat.eqb_spec i j); [contradiction|]. field. exact Hnz.
  - intros i j Hij. unfold ediff. destruct (Nat.eqb_spec i j); [contradiction|]. reflexivity.
  - intros i. unfold ediff. rewrite Nat.eqb_refl. reflexivity.
  - intros Hn. unfold gediff, sum2Q, ediff. field.
    assert (Hpos : (0 < n * n - n)%nat) by nia.
    intros HH. assert (E : inject_Z (Z.of_nat (n * n - n)) == inject_Z 0) by exact HH.
    apply (proj1 (inject_Z_injective _ _)) in E. lia.
Qed.

(* ---------------- pagerank ---------------- *)
Lemma pr_deg_nz n A j : ~ pr_deg n A j == 0.
Proof.
  unfold pr_deg. destruct (Qeq_bool (colsumQ n A j) 0) eqn:E.
  - intros H. discriminate.
  - apply Qeq_bool_neq in E. exact E.
Qed.

Lemma pr_deg_eq n A j : ~ colsumQ n A j == 0 -> pr_deg n A j == colsumQ n A j.
Proof.
  intros H. unfold pr_deg. destruct (Qeq_bool (colsumQ n A j) 0) eqn:E; [|reflexivity].
  apply Qeq_bool_iff in E. contradiction.
Qed.

(* every column of A D^-1 sums to 1 (non-empty column) or to 0 (empty column: the code divides by 1) *)
Lemma pr_M_colsum n A j : ~ colsumQ n A j == 0 -> sumQ (fun i => pr_M n A i j) n == 1.
Proof.
  intros H. unfold pr_M. rewrite sumQ_scal_r. fold (colsumQ n A j). rewrite (pr_deg_eq n A j H). field. exact H.
Qed.

Lemma sumQ_abs_triangle f n : Qabs (sumQ f n) <= sumQ (fun i => Qabs (f i)) n.
Proof.
  induction n; cbn [sumQ]; [apply Qle_refl|].
  eapply Qle_trans; [apply Qabs_triangle|]. apply Qplus_le_compat; [exact IHn|apply Qle_refl].
Qed.

Lemma sumQ_zero_inv f n : (forall i, (i < n)%nat -> 0 <= f i) -> sumQ f n == 0 -> forall i, (i < n)%nat -> f i == 0.
Proof.
  induction n; intros Hnn Hs i Hi; [lia|]. cbn [sumQ] in Hs.
  assert (H1 : 0 <= sumQ f n) by (apply sumQ_nonneg; intros; apply Hnn; lia).
  assert (H2 : 0 <= f n) by (apply Hnn; lia).
  destruct (Nat.eq_dec i n) as [->|Hne]; [lra|]. apply IHn; try lia; [intros; apply Hnn; lia|lra].
Qed.

Section PageRank.
Variables (n : nat) (A : mat Q) (d : Q) (f r' : vec Q).
Hypothesis Hsolve : forall i, (i < n)%nat -> mvecQ n (pr_B n A d) r' i == pr_b d f i.     (* B r' = (1-d) f *)
Hypothesis Hf : sumQ f n == 1.
Hypothesis Hd : ~ d == 1.
Hypothesis Hcol : forall j, (j < n)%nat -> ~ colsumQ n A j == 0.                          (* no empty column *)

Let Mx := pr_M n A.
Let r := pr_norm n r'.

Lemma pr_row i : (i < n)%nat -> r' i - d * mvecQ n Mx r' i == (1 - d) * f i.
Proof.
  intros Hi. rewrite <- (Hsolve i Hi). unfold mvecQ, pr_B. fold Mx.
  rewrite (sumQ_ext (fun j => (delta i j - d * Mx i j) * r' j) (fun j => delta i j * r' j - d * (Mx i j * r' j)))
    by (intros; ring).
  rewrite sumQ_sub, sumQ_scal. rewrite (sumQ_delta_l r' n i Hi). reflexivity.
Qed.

Lemma pr_sum_Mr : sumQ (fun i => mvecQ n Mx r' i) n == sumQ r' n.
Proof.
  unfold mvecQ. rewrite sumQ_fubini. apply sumQ_ext. intros j Hj.
  rewrite sumQ_scal_r. unfold Mx. rewrite (pr_M_colsum n A j (Hcol j Hj)). ring.
Qed.

Theorem pr_sum_one : sumQ r' n == 1.
Proof.
  assert (E : sumQ (fun i => r' i - d * mvecQ n Mx r' i) n == sumQ (fun i => (1 - d) * f i) n)
    by (apply sumQ_ext; exact pr_row).
  rewrite sumQ_sub, !sumQ_scal, pr_sum_Mr, Hf in E.
  assert (E2 : (1 - d) * (sumQ r' n - 1) == 0) by lra.
  apply Qmult_integral in E2. destruct E2 as [E2|E2]; [exfalso; apply Hd; lra|lra].
Qed.

Theorem pagerank_equation :
  sumQ r' n == 1 /\
  (forall i, r i == r' i) /\                                   (* the normalisation r /= sum(r) is the identity *)
  sumQ r n == 1 /\
  (forall i, (i < n)%nat -> r i == d * mvecQ n Mx r i + (1 - d) * f i).
Proof.
  pose proof pr_sum_one as S1.
  assert (Hr : forall i, r i == r' i) by (intros i; unfold r, pr_norm; rewrite S1; field).
  split; [exact S1|]. split; [exact Hr|]. split.
  - rewrite (sumQ_ext r r' n) by (intros; apply Hr). exact S1.
  - intros i Hi. rewrite (Hr i).
    assert (E : mvecQ n Mx r i == mvecQ n Mx r' i).
    { unfold mvecQ. apply sumQ_ext. intros j _. rewrite (Hr j). reflexivity. }
    rewrite E. pose proof (pr_row i Hi). lra.
Qed.

(* positivity: for 0 <= d < 1, non-negative weights and a positive prior the solution is positive *)
Hypothesis Hd0 : 0 <= d.
Hypothesis Hd1 : d < 1.
Hypothesis HA : forall i j, (i < n)%nat -> (j < n)%nat -> 0 <= A i j.
Hypothesis Hfpos : forall i, (i < n)%nat -> 0 < f i.

Lemma colsum_pos j : (j < n)%nat -> 0 < colsumQ n A j.
Proof.
  intros Hj. assert (0 <= colsumQ n A j) by (apply sumQ_nonneg; intros; apply HA; assumption).
  pose proof (Hcol j Hj). lra.
Qed.

Lemma Mx_nonneg i j : (i < n)%nat -> (j < n)%nat -> 0 <= Mx i j.
Proof.
  intros Hi Hj. unfold Mx, pr_M. rewrite (pr_deg_eq n A j (Hcol j Hj)).
  apply Qmult_le_0_compat; [apply HA; assumption|].
  pose proof (colsum_pos j Hj) as Hp. unfold Qdiv. rewrite Qmult_1_l. apply Qlt_le_weak. apply Qinv_lt_0_compat. exact Hp.
Qed.

Theorem pagerank_positive : forall i, (i < n)%nat -> 0 < r i.
Proof.
  destruct pagerank_equation as (S1 & Hr & _ & _).
  (* |r'_i| <= d * sum_j M_ij |r'_j| + (1-d) f_i *)
  assert (Habs : forall i, (i < n)%nat -> Qabs (r' i) <= d * mvecQ n Mx (vabs r') i + (1 - d) * f i).
  { intros i Hi. pose proof (pr_row i Hi) as E.
    assert (E' : r' i == d * mvecQ n Mx r' i + (1 - d) * f i) by lra.
    rewrite E'. eapply Qle_trans; [apply Qabs_triangle|].
    assert (H1 : Qabs ((1 - d) * f i) == (1 - d) * f i).
    { apply Qabs_pos. apply Qmult_le_0_compat; [lra|]. apply Qlt_le_weak. apply Hfpos; exact Hi. }
    rewrite H1. apply Qplus_le_compat; [|apply Qle_refl].
    rewrite Qabs_Qmult. rewrite (Qabs_pos d Hd0).
    assert (HXY : Qabs (mvecQ n Mx r' i) <= mvecQ n Mx (vabs r') i).
    { unfold mvecQ. eapply Qle_trans; [apply sumQ_abs_triangle|]. apply sumQ_le. intros j Hj.
      rewrite Qabs_Qmult. rewrite (Qabs_pos (Mx i j) (Mx_nonneg i j Hi Hj)). unfold vabs. apply Qle_refl. }
    nra. }
  set (S := sumQ (vabs r') n).
  assert (HMS : sumQ (fun i => mvecQ n Mx (vabs r') i) n == S).
  { unfold mvecQ. rewrite sumQ_fubini. apply sumQ_ext. intros j Hj.
    rewrite sumQ_scal_r. unfold Mx. rewrite (pr_M_colsum n A j (Hcol j Hj)). ring. }
  assert (HS1 : S <= d * S + (1 - d)).
  { assert (H : S <= sumQ (fun i => d * mvecQ n Mx (vabs r') i + (1 - d) * f i) n)
      by (apply sumQ_le; exact Habs).
    rewrite sumQ_add, !sumQ_scal, HMS, Hf in H. lra. }
  assert (HS2 : 1 <= S).
  { rewrite <- S1. unfold S. apply sumQ_le. intros i _. unfold vabs. apply Qle_Qabs. }
  assert (HS : S == 1) by (apply Qle_antisym; [|exact HS2]; nra).
  assert (Hz : forall i, (i < n)%nat -> Qabs (r' i) - r' i == 0).
  { apply sumQ_zero_inv.
    - intros i _. pose proof (Qle_Qabs (r' i)). lra.
    - rewrite sumQ_sub. fold (vabs r'). fold S. lra. }
  assert (Hnn : forall j, (j < n)%nat -> 0 <= r' j).
  { intros j Hj. pose proof (Hz j Hj). pose proof (Qabs_nonneg (r' j)). lra. }
  intros i Hi. rewrite (Hr i). pose proof (pr_row i Hi) as E.
  assert (0 <= mvecQ n Mx r' i).
  { unfold mvecQ. apply sumQ_nonneg. intros j Hj. apply Qmult_le_0_compat; [apply Mx_nonneg; assumption|apply Hnn; exact Hj]. }
  pose proof (Hfpos i Hi). nra.
Qed.
End PageRank.

(* the default prior ones(N)/N sums to one *)
Lemma uniform_sum n : (0 < n)%nat -> sumQ (uniform n) n == 1.
Proof.
  intros Hn. unfold uniform.
  assert (G : forall m c, sumQ (fun _ => c) m == inject_Z (Z.of_nat m) * c).
  { induction m; intros c; cbn [sumQ]; [ring|]. rewrite IHm. rewrite Nat2Z.inj_succ. unfold Z.succ. rewrite inject_Z_plus. ring. }
  rewrite G. field. intros H. assert (E : inject_Z (Z.of_nat n) == inject_Z 0) by exact H.
  apply (proj1 (inject_Z_injective _ _)) in E. lia.
Qed.
