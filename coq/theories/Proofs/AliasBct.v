(* Proofs/AliasBct.v — C13: further instances of the generic theorems of Proofs/AliasLang.v at the program that is
   generated from the bct sources (Gen/Alias.v), and pinned shapes of the two copy utilities whose copy=False
   path does NOT operate on the caller's array (autofix, logtransform). *)
From Coq Require Import List String Bool Arith Lia.
From BCT Require Import Model.AliasLang Proofs.AliasLang Gen.Alias.
Import ListNotations.
Open Scope string_scope.

Lemma unflagged_decl : forall fd,
  In fd all_functions -> mem (fname fd) flagged_names = false -> check_decl fd = true.
Proof.
  intros fd Hin Hnf.
  pose proof all_unflagged_pure as Hall. rewrite forallb_forall in Hall. specialize (Hall fd Hin).
  rewrite Hnf in Hall. cbn [orb] in Hall.
  unfold check in Hall. apply andb_true_iff in Hall. destruct Hall as [_ Hdecl]. exact Hdecl.
Qed.

(* copy=True (and every function without a copy option): the result of a public function whose verified summary
   says fret_t = false is a location allocated DURING the call — it shares memory with no argument *)
Lemma bct_results_fresh : forall (val : Type) fd,
  In fd all_functions -> mem (fname fd) flagged_names = false -> fpublic fd = true -> fret_t fd = false ->
  forall (s0 s : state val) l,
    entry_state val fd s0 -> flag s0 = true ->
    exec val all_functions (fbody fd) s0 (Returned s (Some l)) -> next s0 <= l.
Proof.
  intros val fd Hin Hnf Hpub Hret s0 s l Hent Hfl Hex.
  pose proof (copy_true_contract val all_functions summaries_verified fd s0 (Returned s (Some l))
                Hin Hpub (unflagged_decl fd Hin Hnf) Hent Hfl Hex) as [_ H2].
  exact (H2 Hret s (Some l) l eq_refl eq_refl).
Qed.

(* every function of the program (public or helper, flagged or not, either flag value): only the arrays of the
   parameters listed in its verified summary may change *)
Lemma bct_frame : forall (val : Type) fd,
  In fd all_functions ->
  forall (s0 : state val) o,
    entry_state val fd s0 -> exec val all_functions (fbody fd) s0 o ->
    forall l, l < next s0 ->
      (forall p, In p (fmut fd (flag s0)) -> env s0 p <> Some l) ->
      heap (st_of o) l = heap s0 l.
Proof.
  intros val fd Hin s0 o Hent Hex l Hl Hnm.
  exact (frame_sound val all_functions summaries_verified fd s0 o Hin Hent Hex l Hl Hnm).
Qed.

Lemma mem_single : forall x p, mem x [p] = true -> x = p.
Proof.
  intros x p H. unfold mem in H. cbn [existsb] in H. rewrite orb_false_r in H. apply String.eqb_eq in H. exact H.
Qed.

Lemma subset_In : forall T1 T2 x, subset T1 T2 = true -> In x T1 -> mem x T2 = true.
Proof.
  intros T1 T2 x H Hx. unfold subset in H. rewrite forallb_forall in H. exact (H x Hx).
Qed.

(* copy utilities under copy=False: whatever they do, they write at most the array of their FIRST parameter;
   if the summary lists no written parameter (logtransform) they write nothing at all *)
Lemma bct_copy_false_frame : forall (val : Type) fd p ps,
  In fd all_functions -> fcopyutil fd = true -> fparams fd = p :: ps ->
  forall (s0 : state val) o,
    entry_state val fd s0 -> flag s0 = false -> exec val all_functions (fbody fd) s0 o ->
    forall l, l < next s0 -> (env s0 p <> Some l \/ fmut_f fd = []) -> heap (st_of o) l = heap s0 l.
Proof.
  intros val fd p ps Hin Hu Hps s0 o Hent Hfl Hex l Hl Hcase.
  apply (bct_frame val fd Hin s0 o Hent Hex l Hl).
  intros q Hq. rewrite Hfl in Hq. cbn [fmut] in Hq.
  destruct Hcase as [Hne | Hnil].
  - pose proof copyutil_frame as Hf. rewrite forallb_forall in Hf. specialize (Hf fd Hin).
    rewrite Hu in Hf. cbn [negb orb] in Hf. rewrite Hps in Hf. cbn [firstn] in Hf.
    pose proof (subset_In _ _ q Hf Hq) as Hm. apply mem_single in Hm. subst q. exact Hne.
  - rewrite Hnil in Hq. destruct Hq.
Qed.

(* the weaker reading of the numpydoc kinds: parameters documented int / float hold no array even where the body
   writes through them by name (itr *= k); all_functions_ds has the same bodies as all_functions *)
Lemma bct_public_functions_pure_docscalar : forall (val : Type) fd,
  In fd all_functions_ds -> mem (fname fd) flagged_names_ds = false -> fpublic fd = true ->
  forall (s0 : state val) o,
    entry_state val fd s0 -> (flag s0 = true \/ fcopyutil fd = false) ->
    exec val all_functions_ds (fbody fd) s0 o ->
    forall l, l < next s0 -> heap (st_of o) l = heap s0 l.
Proof.
  intros val fd Hin Hnf Hpub s0 o Hent Hfl Hex l Hl.
  pose proof all_unflagged_pure_ds as Hall. rewrite forallb_forall in Hall. specialize (Hall fd Hin).
  rewrite Hnf in Hall. cbn [orb] in Hall.
  unfold check in Hall. apply andb_true_iff in Hall. destruct Hall as [_ Hdecl].
  exact (no_param_mutation_sound val all_functions_ds summaries_verified_ds fd s0 o Hin Hpub Hdecl Hent Hfl Hex l Hl).
Qed.

(* ------------------------------------------------------------------ pinned shapes: copy=False that is not in place *)
(* autofix (bct/utils/other.py):  if copy: W = W.copy(); fill_diagonal(W, 0); W[isinf] = 0; W[isnan] = 0; u = unique(W);
   if ...: W = np.around(W); if ...: W = np.around(W); return W      — harness/c13.py compares this with the generated body *)
Definition autofix_shape : cmd :=
  Seq (IfFlag (Bind "W" (CopyOf "W")) Skip)
 (Seq (Mutate "W") (Seq (Mutate "W") (Seq (Mutate "W") (Seq (Bind "u" Fresh)
 (Seq (Choice (Bind "W" Fresh) Skip) (Seq (Choice (Bind "W" Fresh) Skip) (Return "W"))))))).
(* logtransform:  if copy: W = W.copy(); if ...: raise; W = -np.log(W); return W *)
Definition logtransform_shape : cmd :=
  Seq (IfFlag (Bind "W" (CopyOf "W")) Skip) (Seq (Choice Raise Skip) (Seq (Bind "W" Fresh) (Return "W"))).

Definition autofix_fd : fundef := mkfun "autofix" ["W"; "copy"] ["W"] [] ["W"] false false true true true autofix_shape.
Definition logtransform_fd : fundef := mkfun "logtransform" ["W"; "copy"] ["W"] [] [] false false true true true logtransform_shape.
Definition st_w (b : bool) : state nat := mkst (fun x => if String.eqb x "W" then Some 0 else None) (fun _ => 7) 1 b.

(* claiming the in-place contract for these shapes is rejected by the checker ... *)
Example shapes_contract_rejected :
  check_contract [autofix_fd] autofix_fd = false /\ check_contract [logtransform_fd] logtransform_fd = false.
Proof. vm_compute. auto. Qed.

(* ... rightly: autofix(copy=False) has a run that writes the caller's array (location 0: 7 -> 1) and then returns ANOTHER
   array (location 2) — the caller is left with a half-repaired matrix *)
Example autofix_copy_false_refuted : exists o,
  exec nat [autofix_fd] autofix_shape (st_w false) o /\
  match o with Returned s r => r = Some 2 /\ env (st_w false) "W" = Some 0 /\ heap s 0 = 1 /\ heap (st_w false) 0 = 7 | _ => False end.
Proof.
  eexists. split.
  - eapply E_SeqN; [apply E_IfF; [reflexivity|apply E_Skip]|].
    eapply E_SeqN; [eapply E_Mutate with (l := 0) (v := 1); reflexivity|].
    eapply E_SeqN; [eapply E_Mutate with (l := 0) (v := 1); reflexivity|].
    eapply E_SeqN; [eapply E_Mutate with (l := 0) (v := 1); reflexivity|].
    eapply E_SeqN; [eapply E_Fresh with (v := 0)|].
    eapply E_SeqN; [apply E_ChoiceL; eapply E_Fresh with (v := 5)|].
    eapply E_SeqN; [apply E_ChoiceR; apply E_Skip|].
    apply E_Return.
  - vm_compute. auto.
Qed.

(* logtransform(copy=False) never touches the caller's array and returns a fresh one: its docstring ("modifies the
   matrix in place") is not what the code does *)
Example logtransform_copy_false_refuted : exists o,
  exec nat [logtransform_fd] logtransform_shape (st_w false) o /\
  match o with Returned s r => r = Some 1 /\ env (st_w false) "W" = Some 0 /\ heap s 0 = heap (st_w false) 0 | _ => False end.
Proof.
  eexists. split.
  - eapply E_SeqN; [apply E_IfF; [reflexivity|apply E_Skip]|].
    eapply E_SeqN; [apply E_ChoiceR; apply E_Skip|].
    eapply E_SeqN; [eapply E_Fresh with (v := 3)|].
    apply E_Return.
  - vm_compute. auto.
Qed.
