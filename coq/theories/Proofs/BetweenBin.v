(* Proofs/BetweenBin.v — the breadth-first search phase of edge_betweenness_bin: queue layout (queue_slots),
   termination within n+1 rounds without a slice-length error, predecessors lie strictly behind their
   successors in the queue, reached nodes have NP >= 1; hence the routine returns the pair sums over the
   predecessor DAG it built (BetweenReady.sources_pairsums). *)
From Coq Require Import QArith Lia List Arith Bool ZArith Permutation.
From BCT Require Import Base.Mat Base.SumQ Base.ListX Model.Between
  Proofs.BetweenAccum Proofs.BetweenReady Proofs.BetweenQueue.
Import ListNotations.
Open Scope Z_scope.

Lemma relax_b_Q v st w : sQ (relax_b v st w) = sQ st /\ sqf (relax_b v st w) = sqf st.
Proof. unfold relax_b. destruct (negb _); cbn [sQ sqf]; auto. Qed.

Lemma fold_relax_b_Q v l : forall st,
  sQ (fold_left (relax_b v) l st) = sQ st /\ sqf (fold_left (relax_b v) l st) = sqf st.
Proof.
  induction l as [|w l IH]; intros st; cbn [fold_left]; [auto|].
  destruct (IH (relax_b v st w)) as [H1 H2]. destruct (relax_b_Q v st w) as [H3 H4].
  rewrite H1, H2, H3, H4. auto.
Qed.

Lemma visit_b_vis n Gu st v : (1 <= sqf st)%nat -> (sqf st <= n)%nat ->
  vis n (visit_b n Gu st v) = v :: vis n st /\ sqf (visit_b n Gu st v) = (sqf st - 1)%nat.
Proof.
  intros H1 H2. unfold visit_b.
  destruct (fold_relax_b_Q v (wherev n (fun w => nzb (Gu v w))) (push st v)) as [HQ Hq].
  split; [|rewrite Hq; reflexivity].
  rewrite <- (push_vis n st v H1 H2). unfold vis. rewrite HQ, Hq. reflexivity.
Qed.

Lemma fold_visit_b_vis n Gu V : forall st, (length V <= sqf st)%nat -> (sqf st <= n)%nat ->
  vis n (fold_left (visit_b n Gu) V st) = rev V ++ vis n st /\
  sqf (fold_left (visit_b n Gu) V st) = (sqf st - length V)%nat.
Proof.
  induction V as [|v V IH]; intros st H1 H2; cbn [fold_left rev length app].
  - split; [reflexivity|lia].
  - cbn [length] in H1. destruct (visit_b_vis n Gu st v) as [Hv Hq]; [lia|lia|].
    destruct (IH (visit_b n Gu st v)) as [H3 H4]; [lia|lia|].
    rewrite H3, H4, Hv, Hq. split; [rewrite <- app_assoc; reflexivity|lia].
Qed.

(* ---------- one round ---------- *)
Section Batch.
Variables (n : nat) (G2 : mat Z) (V : list nat) (D0 : vec (option Z)) (P0 : mat bool).

Definition Bb (st : sst) : Prop :=
  (forall x, (x < n)%nat -> D0 x <> None -> sD st x <> None) /\
  (forall x, (x < n)%nat -> sD st x <> None -> D0 x <> None \/ exists v, In v V /\ G2 v x <> 0) /\
  (forall x w, (x < n)%nat -> (w < n)%nat -> sP st x w = true -> P0 x w = true \/ (In w V /\ G2 w x <> 0)) /\
  (forall x, (x < n)%nat -> sD st x <> None -> 0 < sNP st x).

Lemma relax_b_mono v st w x : sD st x <> None -> sD (relax_b v st w) x <> None.
Proof.
  unfold relax_b. destruct (negb (isinf (sD st w))); cbn [sD]; [auto|].
  unfold vupd. destruct (Nat.eqb x w); [discriminate|auto].
Qed.
Lemma relax_b_sets v st w : sD (relax_b v st w) w <> None.
Proof.
  unfold relax_b. destruct (sD st w) eqn:E; cbn [isinf negb sD].
  - rewrite E. discriminate.
  - rewrite vupd_same. discriminate.
Qed.

Lemma relax_Bb st v w : (v < n)%nat -> (w < n)%nat -> In v V -> D0 v <> None -> G2 v w <> 0 ->
  Bb st -> Bb (relax_b v st w).
Proof.
  intros Hv Hw HvV HDv Hg (C1 & C2 & C3 & C4).
  assert (HNv : 0 < sNP st v) by (apply C4; [exact Hv|apply C1; assumption]).
  unfold Bb. split; [|split; [|split]].
  - intros x Hx H0. apply relax_b_mono. apply C1; assumption.
  - intros x Hx. destruct (Nat.eq_dec x w) as [->|Hne]; [intros _; right; exists v; auto|].
    intros H. apply C2; [exact Hx|]. revert H. unfold relax_b.
    destruct (negb (isinf (sD st w))); cbn [sD]; [auto|]. rewrite vupd_other by exact Hne. auto.
  - intros x y Hx Hy. unfold relax_b. destruct (negb (isinf (sD st w))); cbn [sP]; unfold upd;
      (destruct (Nat.eqb_spec x w) as [->|Hne]; cbn [andb];
       [destruct (Nat.eqb_spec y v) as [->|Hne2]; [intros _; right; auto|apply C3; assumption]|apply C3; assumption]).
  - intros x Hx. unfold relax_b. destruct (sD st w) eqn:E; cbn [isinf negb sD sNP].
    + intros H. destruct (Nat.eq_dec x w) as [->|Hne].
      * rewrite vupd_same. assert (0 < sNP st w) by (apply C4; [exact Hw|congruence]). lia.
      * rewrite vupd_other by exact Hne. apply C4; assumption.
    + destruct (Nat.eq_dec x w) as [->|Hne].
      * rewrite !vupd_same. intros _. exact HNv.
      * rewrite !vupd_other by exact Hne. apply C4; exact Hx.
Qed.

Lemma fold_relax_b_mono v l : forall s x, sD s x <> None -> sD (fold_left (relax_b v) l s) x <> None.
Proof. induction l as [|b l IH]; intros s x Hx; cbn [fold_left]; [exact Hx|]. apply IH, relax_b_mono, Hx. Qed.

Lemma visit_Bb st v : (v < n)%nat -> In v V -> D0 v <> None -> Bb st ->
  Bb (visit_b n G2 st v) /\ (forall w, (w < n)%nat -> G2 v w <> 0 -> sD (visit_b n G2 st v) w <> None).
Proof.
  intros Hv HvV HDv HB. unfold visit_b.
  assert (HB' : Bb (push st v)) by (unfold Bb, push in *; cbn [sD sNP sP]; exact HB).
  assert (Hl : forall w, In w (wherev n (fun w => nzb (G2 v w))) <-> (w < n)%nat /\ G2 v w <> 0).
  { intros w. rewrite wherev_In. unfold nzb. rewrite negb_true_iff, Z.eqb_neq. tauto. }
  assert (Hmain : forall l s, Bb s -> (forall w, In w l -> (w < n)%nat /\ G2 v w <> 0) ->
            Bb (fold_left (relax_b v) l s) /\ forall w, In w l -> sD (fold_left (relax_b v) l s) w <> None).
  { clear - Hv HvV HDv. induction l as [|b l IH]; intros s Hs Hl; cbn [fold_left].
    - split; [exact Hs|intros w []].
    - destruct (Hl b (or_introl eq_refl)) as [Hb Hg].
      pose proof (relax_Bb s v b Hv Hb HvV HDv Hg Hs) as Hs'.
      destruct (IH (relax_b v s b) Hs') as [H1 H2]; [intros w Hw; apply Hl; right; exact Hw|].
      split; [exact H1|]. intros w [<-|Hw]; [apply fold_relax_b_mono; apply relax_b_sets|apply H2; exact Hw]. }
  destruct (Hmain (wherev n (fun w => nzb (G2 v w))) (push st v) HB') as [H1 H2]; [intros w Hw; apply Hl; exact Hw|].
  split; [exact H1|]. intros w Hw Hg. apply H2. apply Hl. auto.
Qed.

Lemma visit_b_mono st v x : sD st x <> None -> sD (visit_b n G2 st v) x <> None.
Proof. intros H. unfold visit_b. apply fold_relax_b_mono. unfold push. cbn [sD]. exact H. Qed.

Lemma fold_visit_Bb : forall (V' : list nat) st, (forall v, In v V' -> (v < n)%nat /\ In v V /\ D0 v <> None) -> Bb st ->
  Bb (fold_left (visit_b n G2) V' st) /\
  (forall v w, In v V' -> (w < n)%nat -> G2 v w <> 0 -> sD (fold_left (visit_b n G2) V' st) w <> None).
Proof.
  induction V' as [|v V' IH]; intros st HV HB; cbn [fold_left].
  - split; [exact HB|intros v w []].
  - destruct (HV v (or_introl eq_refl)) as (H1 & H2 & H3).
    destruct (visit_Bb st v H1 H2 H3 HB) as [HB' Hset].
    destruct (IH (visit_b n G2 st v)) as [H4 H5]; [intros x Hx; apply HV; right; exact Hx|exact HB'|].
    split; [exact H4|]. intros x w [<-|Hx] Hw Hg; [|apply (H5 x w); assumption].
    clear - Hset Hw Hg. specialize (Hset w Hw Hg). revert Hset. generalize (visit_b n G2 st v).
    induction V' as [|y V' IH]; intros s Hs; cbn [fold_left]; [exact Hs|]. apply IH, visit_b_mono, Hs.
Qed.
End Batch.

(* ---------- loop-head invariant of `while V.size` ---------- *)
Record BH (n u : nat) (Gu : mat Z) (V : list nat) (st : sst) : Prop := {
  bh_qf : (sqf st <= n)%nat;
  bh_nd : NoDup (V ++ vis n st);
  bh_lt : forall x, In x (V ++ vis n st) -> (x < n)%nat;
  bh_D : forall x, (x < n)%nat -> (sD st x <> None <-> In x (V ++ vis n st));
  bh_G : forall i j, (i < n)%nat -> (j < n)%nat -> Gu i j <> 0 -> ~ In j (vis n st);
  bh_P : forall x w, (x < n)%nat -> (w < n)%nat -> sP st x w = true ->
         In w (vis n st) /\ (In x V \/ before (vis n st) x w);
  bh_NP : forall x, (x < n)%nat -> sD st x <> None -> 0 < sNP st x;
  bh_last : last (rev V ++ vis n st) u = u;
  bh_ne : V <> [] \/ vis n st <> [] }.

Lemma BH_V_le_qf n u Gu V st : BH n u Gu V st -> (length V <= sqf st)%nat.
Proof.
  intros H. assert (Hincl : incl (V ++ vis n st) (seq 0 n)).
  { intros z Hz. apply in_seq. pose proof (bh_lt _ _ _ _ _ H z Hz). lia. }
  pose proof (NoDup_incl_length (bh_nd _ _ _ _ _ H) Hincl) as Hl.
  rewrite app_length, seq_length, vis_length in Hl. pose proof (bh_qf _ _ _ _ _ H). lia.
Qed.

Lemma search_b_ok n u : forall fuel Gu V st, BH n u Gu V st -> (V = [] \/ (sqf st < fuel)%nat) ->
  exists st' Gu', search_b fuel n Gu V st = Some st' /\ BH n u Gu' [] st'.
Proof.
  induction fuel as [|f IH]; intros Gu V st H Hf.
  { destruct V as [|v V]; [exists st, Gu; split; [reflexivity|exact H]|]. destruct Hf as [Hf|Hf]; [discriminate|lia]. }
  destruct V as [|v0 V0] eqn:EV; [exists st, Gu; split; [reflexivity|exact H]|].
  rewrite <- EV in *. assert (HVne : V <> []) by (rewrite EV; discriminate).
  assert (Hsb : search_b (S f) n Gu V st =
                search_b f n (zero_cols n V Gu) (wherev n (fun j => existsb (fun v => nzb (zero_cols n V Gu v j)) V))
                         (tab_sst n (fold_left (visit_b n (zero_cols n V Gu)) V st))).
  { rewrite EV. reflexivity. }
  rewrite Hsb. clear Hsb.
  pose proof (BH_V_le_qf _ _ _ _ _ H) as HVq.
  destruct H as [Hqf Hnd Hlt HD HG HP HNP Hlast Hne].
  set (G2 := zero_cols n V Gu).
  set (st0 := fold_left (visit_b n G2) V st).
  set (st1 := tab_sst n st0).
  set (V' := wherev n (fun j => existsb (fun v => nzb (G2 v j)) V)).
  assert (HG2 : forall i j, (i < n)%nat -> (j < n)%nat -> G2 i j <> 0 -> Gu i j <> 0 /\ ~ In j V).
  { intros i j Hi Hj. unfold G2, zero_cols. rewrite tab_spec by assumption.
    destruct (nmem j V) eqn:E; [congruence|]. apply nmem_false in E. auto. }
  assert (HVin : forall v, In v V -> (v < n)%nat /\ In v V /\ sD st v <> None).
  { intros v Hv. assert (Hvn : (v < n)%nat) by (apply Hlt, in_app_iff; left; exact Hv).
    split; [exact Hvn|]. split; [exact Hv|]. apply HD; [exact Hvn|]. apply in_app_iff. left; exact Hv. }
  assert (HB0 : Bb n G2 V (sD st) (sP st) st).
  { unfold Bb. repeat split; auto. }
  destruct (fold_visit_Bb n G2 V (sD st) (sP st) V st HVin HB0) as [(C1 & C2 & C3 & C4) Hset]. fold st0 in C1, C2, C3, C4, Hset.
  destruct (fold_visit_b_vis n G2 V st HVq Hqf) as [Hvis0 Hqf0]. fold st0 in Hvis0, Hqf0.
  destruct (tab_sst_spec n st0) as (TD & TNP & TP & TQ & Tqf). fold st1 in TD, TNP, TP, TQ, Tqf.
  assert (Hqf1 : sqf st1 = (sqf st - length V)%nat) by congruence.
  assert (Hvis1 : vis n st1 = rev V ++ vis n st) by (unfold st1; rewrite tab_sst_vis by lia; exact Hvis0).
  assert (HV' : forall j, In j V' <-> (j < n)%nat /\ exists v, In v V /\ G2 v j <> 0).
  { intros j. unfold V'. rewrite wherev_In, existsb_exists. split.
    - intros [Hj [v [Hv E]]]. split; [exact Hj|]. exists v. split; [exact Hv|].
      unfold nzb in E. apply negb_true_iff, Z.eqb_neq in E. exact E.
    - intros [Hj [v [Hv E]]]. split; [exact Hj|]. exists v. split; [exact Hv|].
      unfold nzb. apply negb_true_iff, Z.eqb_neq. exact E. }
  assert (Hlen1 : (length (wherev n (fun j => existsb (fun v => nzb (G2 v j)) V)) = length V')%nat) by reflexivity.
  apply (IH G2 V' st1).
  - assert (Hnd_rv : NoDup (rev V ++ vis n st)).
    { apply (Permutation_NoDup (l := V ++ vis n st)); [|exact Hnd].
      apply Permutation_app_tail. apply Permutation_rev. }
    constructor.
    + lia.
    + rewrite Hvis1. apply NoDup_app_intro; [apply wherev_NoDup|exact Hnd_rv|].
      intros j Hj Hj'. apply HV' in Hj. destruct Hj as [Hjn [v [Hv Hg]]].
      assert (Hvn : (v < n)%nat) by (apply HVin; exact Hv).
      destruct (HG2 v j Hvn Hjn Hg) as [Hgu HnV]. apply in_app_iff in Hj'. destruct Hj' as [Hj'|Hj'].
      * apply HnV. apply in_rev. exact Hj'.
      * exact (HG v j Hvn Hjn Hgu Hj').
    + intros x Hx. apply in_app_iff in Hx. destruct Hx as [Hx|Hx]; [apply HV' in Hx; tauto|].
      rewrite Hvis1 in Hx. apply Hlt. apply in_app_iff in Hx. apply in_app_iff.
      destruct Hx as [Hx|Hx]; [left; apply in_rev; exact Hx|right; exact Hx].
    + intros x Hx. rewrite (TD x Hx), Hvis1. split.
      * intros Hd. apply in_app_iff. destruct (C2 x Hx Hd) as [H0|[v [Hv Hg]]].
        -- right. apply HD in H0; [|exact Hx]. apply in_app_iff in H0. apply in_app_iff.
           destruct H0 as [H0|H0]; [left; apply in_rev; rewrite rev_involutive; exact H0|right; exact H0].
        -- left. apply HV'. split; [exact Hx|]. exists v. auto.
      * intros Hin. apply in_app_iff in Hin. destruct Hin as [Hin|Hin].
        -- apply HV' in Hin. destruct Hin as [_ [v [Hv Hg]]]. apply (Hset v x Hv Hx Hg).
        -- apply C1; [exact Hx|]. apply HD; [exact Hx|]. apply in_app_iff in Hin. apply in_app_iff.
           destruct Hin as [Hin|Hin]; [left; apply in_rev; exact Hin|right; exact Hin].
    + intros i j Hi Hj Hg. destruct (HG2 i j Hi Hj Hg) as [Hgu HnV]. rewrite Hvis1. intros Hin.
      apply in_app_iff in Hin. destruct Hin as [Hin|Hin]; [apply HnV, in_rev; exact Hin|exact (HG i j Hi Hj Hgu Hin)].
    + intros x w Hx Hw. rewrite (TP x w Hx Hw), Hvis1. intros E. destruct (C3 x w Hx Hw E) as [E0|[HwV Hg]].
      * destruct (HP x w Hx Hw E0) as [Hwv Hxw]. split; [apply in_app_iff; right; exact Hwv|]. right.
        destruct Hxw as [HxV|(a & b & c & Eb)].
        -- apply in_rev in HxV. apply in_split in HxV. destruct HxV as (a & b & Eab).
           apply in_split in Hwv. destruct Hwv as (c & d & Ecd).
           exists a, (b ++ c), d. rewrite Eab, Ecd, <- !app_assoc. reflexivity.
        -- exists (rev V ++ a), b, c. rewrite Eb, <- app_assoc. reflexivity.
      * split; [apply in_app_iff; left; apply in_rev; rewrite rev_involutive; exact HwV|]. left.
        apply HV'. split; [exact Hx|]. exists w. auto.
    + intros x Hx. rewrite (TD x Hx), (TNP x Hx). apply C4; exact Hx.
    + assert (Hne1 : vis n st1 <> []).
      { rewrite Hvis1. rewrite EV. cbn [rev]. intros E. apply app_eq_nil in E. destruct E as [E _].
        apply app_eq_nil in E. destruct E as [_ E]. discriminate. }
      rewrite last_app_ne by exact Hne1. rewrite Hvis1. exact Hlast.
    + right. rewrite Hvis1, EV. cbn [rev]. intros E. apply app_eq_nil in E. destruct E as [E _].
      apply app_eq_nil in E. destruct E as [_ E]. discriminate.
  - right. destruct Hf as [Hf|Hf]; [congruence|]. rewrite EV in *. cbn [length] in *. lia.
Qed.

(* ---------- exit: what the finished search state satisfies ---------- *)
Definition bqueue_ok (n u : nat) (st : sst) : Prop :=
  exists front,
    to_list n (sQ st) = front ++ vis n st /\ length front = sqf st /\ (sqf st <= n)%nat /\
    NoDup front /\ (forall x, In x front <-> (x < n)%nat /\ sD st x = None) /\
    NoDup (vis n st) /\ (forall x, In x (vis n st) <-> (x < n)%nat /\ sD st x <> None) /\
    last (vis n st) u = u /\ vis n st <> [] /\
    (forall x w, (x < n)%nat -> (w < n)%nat -> sP st x w = true -> before (vis n st) x w) /\
    (forall x, (x < n)%nat -> sD st x <> None -> 0 < sNP st x).

Lemma BH_init n G u : (u < n)%nat -> BH n u (tab 0 n n G) [u] (init_b n u).
Proof.
  intros Hu. unfold init_b.
  assert (Hvis : vis n (mk_sst (vupd (fun _ => None) u (Some 1)) (vupd (fun _ => 0) u 1) (fun _ _ => false) (fun _ => O) n) = []).
  { unfold vis. cbn [sqf]. rewrite Nat.sub_diag. reflexivity. }
  constructor; rewrite ?Hvis; cbn [sD sNP sP sQ sqf app].
  - lia.
  - constructor; [intros []|constructor].
  - intros x [<-|[]]. exact Hu.
  - intros x Hx. unfold vupd. destruct (Nat.eqb_spec x u) as [->|Hne]; split; intros H.
    + left; reflexivity.
    + discriminate.
    + exfalso. apply H. reflexivity.
    + destruct H as [H|[]]. congruence.
  - intros i j _ _ _ [].
  - intros x w _ _ E. discriminate.
  - intros x Hx. unfold vupd. destruct (Nat.eqb x u); [lia|congruence].
  - reflexivity.
  - left. discriminate.
Qed.

Theorem queue_slots_b n G u : (u < n)%nat ->
  exists st, source_b n G u = Some st /\ bqueue_ok n u st.
Proof.
  intros Hu. unfold source_b.
  destruct (search_b_ok n u (S n) _ _ _ (BH_init n G u Hu)) as (st & Gu' & Es & H).
  { right. unfold init_b. cbn [sqf]. lia. }
  rewrite Es. destruct H as [Hqf Hnd Hlt HD HG HP HNP Hlast Hne]. cbn [app rev] in *.
  destruct Hne as [Hne|Hne]; [congruence|].
  assert (HvisD : forall x, In x (vis n st) <-> (x < n)%nat /\ sD st x <> None).
  { intros x. split.
    - intros Hx. pose proof (Hlt x Hx) as Hxn. split; [exact Hxn|]. apply HD; assumption.
    - intros [Hxn Hx]. apply HD; assumption. }
  assert (HPb : forall x w, (x < n)%nat -> (w < n)%nat -> sP st x w = true -> before (vis n st) x w).
  { intros x w Hx Hw E. destruct (HP x w Hx Hw E) as [_ [[]|Hb]]. exact Hb. }
  set (un := wherev n (fun i => isinf (sD st i))).
  assert (Hun : forall x, In x un <-> (x < n)%nat /\ sD st x = None).
  { intros x. unfold un. rewrite wherev_In. destruct (sD st x); cbn [isinf]; split; intros [H1 H2]; split; auto; discriminate. }
  assert (Hlen : length un = sqf st).
  { assert (Hnd' : NoDup (un ++ vis n st)).
    { apply NoDup_app_intro; [apply wherev_NoDup|exact Hnd|].
      intros z Hz Hz'. apply Hun in Hz. apply HvisD in Hz'. destruct Hz, Hz'. contradiction. }
    assert (Hfull : forall x, In x (un ++ vis n st) <-> (x < n)%nat).
    { intros x. rewrite in_app_iff, Hun, HvisD. split.
      - intros [[H _]|[H _]]; exact H.
      - intros H. destruct (sD st x) eqn:E; [right; split; [exact H|discriminate]|left; auto]. }
    pose proof (full_length _ _ Hnd' Hfull) as Hl. rewrite app_length, vis_length in Hl. lia. }
  destruct un as [|a un'] eqn:Eun.
  - exists st. split; [reflexivity|]. exists []. cbn [app length] in *.
    assert (Hq0 : sqf st = O) by lia.
    split; [unfold vis, to_list; rewrite Hq0, Nat.sub_0_r; reflexivity|].
    split; [lia|]. split; [lia|]. split; [constructor|]. split; [exact Hun|].
    split; [exact Hnd|]. split; [exact HvisD|]. split; [exact Hlast|]. split; [exact Hne|]. split; [exact HPb|exact HNP].
  - rewrite <- Eun in *.
    destruct (fill_front_ok n st un Hlen Hqf) as (st2 & E2 & ED & ENP & EP & Eqf & Evis & Elist).
    exists st2. split; [exact E2|]. exists un. rewrite Evis, ED, ENP, EP, Eqf.
    split; [exact Elist|]. split; [exact Hlen|]. split; [exact Hqf|]. split; [apply wherev_NoDup|].
    split; [exact Hun|]. split; [exact Hnd|]. split; [exact HvisD|]. split; [exact Hlast|]. split; [exact Hne|].
    split; [exact HPb|exact HNP].
Qed.

Lemma bqueue_ok_perm n u st : bqueue_ok n u st -> Permutation (to_list n (sQ st)) (seq 0 n).
Proof.
  intros (front & HQ & _ & _ & Hnf & Hf & Hnv & Hv & _). rewrite HQ. apply NoDup_Permutation.
  - apply NoDup_app_intro; auto. intros z Hz Hz'. apply Hf in Hz. apply Hv in Hz'. destruct Hz, Hz'. contradiction.
  - apply seq_NoDup.
  - intros x. rewrite in_app_iff, Hf, Hv, in_seq. destruct (sD st x); split; intros; try lia.
    + right. split; [lia|discriminate].
    + left. split; [lia|reflexivity].
Qed.

Lemma bqueue_ok_ready n u st : bqueue_ok n u st -> acc_ready n u st.
Proof.
  intros Hok. pose proof (bqueue_ok_perm n u st Hok) as Hperm.
  destruct Hok as (front & HQ & Hlen & Hqn & Hnf & Hf & Hnv & Hv & Hlast & Hne & HP & HNP).
  split; [exact Hperm|]. split; [|split].
  - destruct (exists_last Hne) as [vis' [z Ez]].
    assert (z = u) by (rewrite Ez, last_last in Hlast; exact Hlast). subst z.
    assert (HL : to_list n (sQ st) = (front ++ vis') ++ [u]) by (rewrite HQ, Ez, app_assoc; reflexivity).
    assert (Hn : length (front ++ vis') = (n - 1)%nat).
    { pose proof (to_list_length n (sQ st)) as Hl. rewrite HL, app_length in Hl. cbn [length] in Hl. lia. }
    unfold queue_prefix. rewrite HL at 2. f_equal. rewrite HL, <- Hn, firstn_app, Nat.sub_diag, firstn_all.
    cbn [firstn]. rewrite app_nil_r. reflexivity.
  - intros x w Hx Hw E. destruct (HP x w Hx Hw E) as (a & b & c & Eb). exists (front ++ a), b, c.
    rewrite HQ, Eb, <- app_assoc. reflexivity.
  - intros w v Hw Hv' E. destruct (HP w v Hw Hv' E) as (a & b & c & Eb). apply HNP; [exact Hw|].
    apply Hv. rewrite Eb. apply in_app_iff. right. left. reflexivity.
Qed.

Theorem queue_slots_b_full n G u : (u < n)%nat ->
  exists st, source_b n G u = Some st /\ bqueue_ok n u st /\
    Permutation (to_list n (sQ st)) (seq 0 n) /\
    (forall i, (i < n)%nat -> ((i < sqf st)%nat <-> sD st (sQ st i) = None)) /\
    sQ st (n - 1)%nat = u.
Proof.
  intros Hu. destruct (queue_slots_b n G u Hu) as (st & E & Hok). exists st.
  split; [exact E|]. split; [exact Hok|]. split; [apply (bqueue_ok_perm n u st Hok)|].
  destruct Hok as (front & HQ & Hlen & Hqn & Hnf & Hf & Hnv & Hv & Hlast & Hne & _).
  assert (Hnth : forall i, (i < n)%nat -> sQ st i = nth i (front ++ vis n st) O).
  { intros i Hi. rewrite <- HQ. symmetry. apply nth_to_list. exact Hi. }
  assert (Hvisnth : forall i, (sqf st <= i)%nat -> (i < n)%nat -> sQ st i = nth (i - sqf st) (vis n st) O).
  { intros i H1 H2. rewrite (Hnth i H2), app_nth2 by lia. rewrite Hlen. reflexivity. }
  split.
  - intros i Hi. split.
    + intros Hlt. rewrite (Hnth i Hi), app_nth1 by lia. apply Hf. apply nth_In. lia.
    + intros E'. destruct (Nat.lt_ge_cases i (sqf st)) as [|Hge]; [assumption|exfalso].
      assert (In (sQ st i) (vis n st)).
      { rewrite (Hvisnth i Hge Hi). apply nth_In. rewrite vis_length. lia. }
      apply Hv in H. tauto.
  - assert (Hqlt : (sqf st < n)%nat).
    { pose proof (vis_length n st) as Hl. destruct (vis n st); [congruence|cbn [length] in Hl; lia]. }
    rewrite (Hvisnth (n - 1)%nat) by lia.
    replace (n - 1 - sqf st)%nat with (length (vis n st) - 1)%nat by (rewrite vis_length; lia).
    rewrite (nth_last _ O u Hne). exact Hlast.
Qed.

(* ---------- edge_betweenness_bin as a whole ---------- *)
Open Scope Q_scope.
Theorem ebc_bin_pairsums n G :
  exists EBC BC, edge_betweenness_bin n G = Some (EBC, BC) /\
    (forall w, (w < n)%nat -> BC w == sumQ (fun u => dep_node n (source_b n G) u w) n) /\
    (forall v w, (v < n)%nat -> (w < n)%nat -> EBC v w == sumQ (fun u => dep_edge n (source_b n G) u v w) n).
Proof.
  unfold edge_betweenness_bin.
  destruct (sources_pairsums n (source_b n G)) as (BC & EBC & Es & H1 & H2).
  { intros u Hu. destruct (queue_slots_b n G u Hu) as (st & E & Hok). exists st. split; [exact E|].
    apply bqueue_ok_ready. exact Hok. }
  rewrite Es. exists EBC, BC. auto.
Qed.

(* ---------- non-vacuity: a diamond with a tie (two equal-length routes 0->1->3, 0->2->3) plus an unreachable node *)
Definition diamond : list (list Z) :=
  [[0;1;1;0;0]; [0;0;0;2;0]; [0;0;0;2;0]; [0;0;0;0;0]; [0;0;0;0;0]]%Z.
Example nonvacuous_input : nonneg_len 5 (of_rows 0%Z diamond) /\ binary 2 (of_rows 0%Z [[0;1];[1;0]]%Z).
Proof.
  split.
  - intros i j Hi Hj. do 5 (destruct i as [|i]; [do 5 (destruct j as [|j]; [vm_compute; discriminate|]); try (exfalso; lia)|]). exfalso; lia.
  - intros i j Hi Hj. do 2 (destruct i as [|i]; [do 2 (destruct j as [|j]; [vm_compute; auto|]); try (exfalso; lia)|]). exfalso; lia.
Qed.
Example nonvacuous_output :
  run_bc_wei diamond = Some [0; 1#2; 1#2; 0; 0] /\
  snd (fst (run_spec (firstn 4 (map (firstn 4) diamond)))) = [0; 1#2; 1#2; 0] /\
  option_map snd (run_ebc_wei diamond) = Some [0; 1#2; 1#2; 0; 0] /\
  option_map (fun r => match r with (q, qf, _, _, _) => (q, qf) end) (run_search true diamond 0) = Some ([4; 3; 2; 1; 0], 1)%nat.
Proof. vm_compute. repeat split. Qed.
