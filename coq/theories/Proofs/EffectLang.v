(* Proofs/EffectLang.v — soundness of the seed-discipline checker of Model/EffectLang.v.

   Structure: (1) [pure_refines]: a body accepted from the state (true, []) touches no generator;
   (2) [exec_refines]: a body accepted by [check] refines the single-stream reference machine
   [aexec] run on the stream its seed denotes, and modifies no pre-existing generator object other
   than the one its seed denotes; (3) the four clauses of C05 as corollaries. *)
From Coq Require Import List String Bool Arith Lia.
From BCT Require Import Model.EffectLang.
Import ListNotations.

(* ------------------------------------------------------------------ lists / lookup *)
Lemma mem_In : forall x B, mem x B = true <-> In x B.
Proof.
  intros x B. unfold mem. rewrite existsb_exists. split.
  - intros [y [Hy He]]. apply String.eqb_eq in He. subst. exact Hy.
  - intros H. exists x. split; [exact H|apply String.eqb_refl].
Qed.

Lemma mem_cons : forall y x B, mem y (x :: B) = (String.eqb y x || mem y B)%bool.
Proof. reflexivity. Qed.

Lemma mem_inter : forall x B1 B2, mem x B1 = true -> mem x B2 = true -> mem x (inter B1 B2) = true.
Proof.
  intros x B1 B2 H1 H2. apply mem_In. unfold inter. apply filter_In. split; [apply mem_In; exact H1|exact H2].
Qed.

Lemma inter_mem : forall x B1 B2, mem x (inter B1 B2) = true -> mem x B1 = true /\ mem x B2 = true.
Proof.
  intros x B1 B2 H. apply mem_In in H. unfold inter in H. apply filter_In in H. destruct H as [H1 H2].
  split; [apply mem_In; exact H1|exact H2].
Qed.

Lemma sub_nil : forall B : list var, (forall x, mem x B = true -> mem x [] = true) -> B = [].
Proof.
  intros [|y B] H; [reflexivity|]. specialize (H y). rewrite mem_cons, String.eqb_refl in H.
  cbn in H. discriminate (H eq_refl).
Qed.

Lemma lookup_in : forall P f kc, lookup P f = Some kc -> In f (map fst P).
Proof.
  induction P as [|[g kc'] P IH]; intros f kc H; [discriminate|]. cbn in H |- *.
  destruct (String.eqb f g) eqn:E.
  - left. apply String.eqb_eq in E. symmetry. exact E.
  - right. eapply IH. exact H.
Qed.

Lemma all_safe_checked : forall P, all_safe P = true ->
  forall f k c, lookup P f = Some (k, c) -> exists a', check P c (start k) = Some a'.
Proof.
  intros P H f k c Hl. unfold all_safe in H. rewrite forallb_forall in H.
  specialize (H f (lookup_in _ _ _ Hl)). unfold seed_safe in H. rewrite Hl in H.
  destruct (check P c (start k)) as [a'|]; [exists a'; reflexivity|discriminate].
Qed.

Lemma check_grows : forall P c a a', check P c a = Some a' ->
  forall x, mem x (snd a) = true -> mem x (snd a') = true.
Proof.
  intros P c. induction c; intros a a' H z Hz; cbn in H.
  - inversion H; subst; exact Hz.
  - destruct e; try discriminate.
    + destruct (fst a); [discriminate|]. inversion H; subst. cbn [snd]. rewrite mem_cons, Hz. apply orb_true_r.
    + destruct (mem x0 (snd a)); [|discriminate]. inversion H; subst. cbn [snd]. rewrite mem_cons, Hz. apply orb_true_r.
  - destruct (mem x (snd a)); [|discriminate]. inversion H; subst; exact Hz.
  - discriminate.
  - discriminate.
  - destruct e; try discriminate.
    + destruct (fst a); [discriminate|]. destruct (lookup P f); [|discriminate]. inversion H; subst. exact Hz.
    + destruct (mem x (snd a)); [|discriminate]. destruct (lookup P f); [|discriminate]. inversion H; subst. exact Hz.
    + destruct (lookup P f) as [[[|] ?]|]; try discriminate. inversion H; subst. exact Hz.
  - destruct (check P c1 a) as [a1|] eqn:E1; [|discriminate]. eapply IHc2; [exact H|]. eapply IHc1; [exact E1|exact Hz].
  - destruct (check P c1 a) as [a1|] eqn:E1; [|discriminate].
    destruct (check P c2 a) as [a2|] eqn:E2; [|discriminate]. inversion H; subst. cbn [snd].
    apply mem_inter; [eapply IHc1; eauto|eapply IHc2; eauto].
  - destruct (check P c a) as [a1|] eqn:E1; [|discriminate].
    destruct (Bool.eqb (fst a1) (fst a)); [|discriminate]. inversion H; subst. exact Hz.
Qed.

Lemma check_pure_out : forall P c a', check P c (true, []) = Some a' -> a' = (true, []).
Proof.
  intros P c. induction c; intros a' Hc; cbn in Hc; try discriminate.
  - inversion Hc; reflexivity.
  - destruct e; discriminate.
  - destruct e; try discriminate. destruct (lookup P f) as [[[|] ?]|]; try discriminate. inversion Hc; reflexivity.
  - destruct (check P c1 (true, [])) as [a1|] eqn:E1; [|discriminate]. rewrite (IHc1 _ eq_refl) in Hc. apply IHc2; exact Hc.
  - destruct (check P c1 (true, [])) as [a1|] eqn:E1; [|discriminate].
    destruct (check P c2 (true, [])) as [a2|] eqn:E2; [|discriminate].
    rewrite (IHc1 _ eq_refl), (IHc2 _ eq_refl) in Hc. inversion Hc; reflexivity.
  - destruct (check P c (true, [])) as [a1|]; [|discriminate].
    destruct (Bool.eqb (fst a1) _); [|discriminate]. inversion Hc; reflexivity.
Qed.

(* ------------------------------------------------------------------ semantics *)
Section Proofs.
Variable gstate : Type.
Variable next : gstate -> nat -> nat * gstate.
Variable rs_new : nat -> option gstate.
Variable py_fallback : nat -> nat.
Variable rs_new32 : nat -> gstate.
Variable decide : list ev -> nat.
Variable P : program.
Hypothesis Hall : forall f k c, lookup P f = Some (k, c) -> exists a', check P c (start k) = Some a'.

Notation exec := (exec gstate next rs_new py_fallback rs_new32 decide P).
Notation aexec := (aexec gstate next decide P).
Notation mk := (mk gstate rs_new py_fallback rs_new32).
Notation get_rng := (get_rng gstate rs_new py_fallback rs_new32).
Notation draw := (draw gstate next decide).
Notation adraw := (adraw gstate next decide).
Notation state := (state gstate).
Notation amach := (amach gstate).

Definition agree (st : state) (m : amach) : Prop := hist st = ahist m /\ status st = astatus m.

Definition target (v : value) : option nat :=
  match v with VNone | VMod => Some 0 | VObj o => Some o | VInt _ => None | VBad => None end.

Definition binds (B : list var) (fr : frame) (r : nat) : Prop :=
  forall x, mem x B = true -> env fr x = VObj r.

(* the invariant tying a frame of the real machine to the reference machine's single stream g *)
Definition Core (n0 : nat) (a : astate) (fr : frame) (st : state) (g : gstate) : Prop :=
  match target (seedv fr) with
  | Some r => heap st r = g /\ binds (snd a) fr r
  | None =>
      match seedv fr with
      | VInt s => if fst a then snd a = [] \/ exists r, n0 <= r /\ binds (snd a) fr r /\ heap st r = g
                  else g = mk s
      | _ => False
      end
  end.

Definition Inv (n0 : nat) (a : astate) (fr : frame) (st : state) (g : gstate) : Prop :=
  n0 <= nxt st /\ (fst a = false -> snd a = []) /\ Core n0 a fr st g.

Lemma binds_nil : forall fr r, binds [] fr r.
Proof. intros fr r x H. discriminate H. Qed.

Lemma binds_bind : forall B fr r x, binds B fr r -> binds (x :: B) (bind x (VObj r) fr) r.
Proof.
  intros B fr r x H y Hy. cbn. destruct (String.eqb y x) eqn:E; [reflexivity|].
  rewrite mem_cons, E in Hy. cbn in Hy. apply H. exact Hy.
Qed.

Lemma binds_sub : forall B B' fr r, (forall x, mem x B' = true -> mem x B = true) -> binds B fr r -> binds B' fr r.
Proof. intros B B' fr r Hs H x Hx. apply H. apply Hs. exact Hx. Qed.

Lemma Inv_weaken : forall n0 a a' fr st g,
  Inv n0 a fr st g ->
  (fst a = true -> fst a' = true) ->
  (forall x, mem x (snd a') = true -> mem x (snd a) = true) ->
  (fst a' = false -> snd a' = []) ->
  Inv n0 a' fr st g.
Proof.
  intros n0 [u B] [u' B'] fr st g (Hn & Hwf & Hc) Hu Hs Hwf'. cbn [fst snd] in *.
  split; [exact Hn|]. split; [exact Hwf'|]. unfold Core in *. cbn [fst snd] in *.
  destruct (target (seedv fr)) as [r|].
  - destruct Hc as [Hh Hb]. split; [exact Hh|]. eapply binds_sub; eauto.
  - destruct (seedv fr); try exact Hc.
    destruct u.
    + rewrite (Hu eq_refl). destruct Hc as [Hc|[r (Hr & Hb & Hh)]].
      * left. subst B. apply sub_nil. exact Hs.
      * right. exists r. split; [exact Hr|]. split; [eapply binds_sub; eauto|exact Hh].
    + destruct u'; [|exact Hc]. left. rewrite (Hwf eq_refl) in Hs. apply sub_nil. exact Hs.
Qed.

Lemma exec_stopped : forall fuel c fr st, status st <> Running -> exec fuel c fr st = (fr, st).
Proof.
  intros [|k] c fr st H; cbn.
  - unfold stop. destruct (status st); [contradiction H; reflexivity|reflexivity|reflexivity].
  - destruct (status st); [contradiction H; reflexivity|reflexivity|reflexivity].
Qed.

Lemma aexec_stopped : forall fuel c m, astatus m <> Running -> aexec fuel c m = m.
Proof.
  intros [|k] c m H; cbn.
  - unfold astop. destruct (astatus m); [contradiction H; reflexivity|reflexivity|reflexivity].
  - destruct (astatus m); [contradiction H; reflexivity|reflexivity|reflexivity].
Qed.

Lemma agree_record : forall e st m, agree st m -> agree (record gstate e st) (arecord gstate e m).
Proof. intros e st m [Hh Hs]. split; cbn; [rewrite Hh; reflexivity|exact Hs]. Qed.

(* (1) a body accepted with the raw seed unavailable and no rng name touches no generator *)
Lemma pure_refines : forall fuel c fr st m a',
  check P c (true, []) = Some a' -> agree st m ->
  a' = (true, []) /\ agree (snd (exec fuel c fr st)) (aexec fuel c m) /\
  heap (snd (exec fuel c fr st)) = heap st /\ nxt (snd (exec fuel c fr st)) = nxt st /\
  ag (aexec fuel c m) = ag m.
Proof.
  induction fuel as [|k IH]; intros c fr st m a' Hc Hag; pose proof (check_pure_out _ _ _ Hc) as Ha'.
  - split; [exact Ha'|]. cbn. destruct Hag as [Hh Hs]. unfold stop, astop. rewrite <- Hs.
    destruct (status st) eqn:E; cbn; repeat split; auto; congruence.
  - destruct Hag as [Hh Hs].
    destruct (status st) eqn:Est.
    2,3: rewrite exec_stopped by (rewrite Est; discriminate); rewrite aexec_stopped by (rewrite <- Hs; discriminate).
    2,3: cbn; repeat split; auto.
    assert (Ham : astatus m = Running) by (rewrite <- Hs; reflexivity).
    destruct c; cbn [EffectLang.exec EffectLang.aexec]; rewrite Est, Ham; cbn in Hc.
    + inversion Hc; subst. cbn. repeat split; auto.
    + destruct e; discriminate.
    + discriminate.
    + discriminate.
    + discriminate.
    + destruct e; try discriminate.
      destruct (lookup P f) as [[[|] body]|] eqn:El; try discriminate. inversion Hc; subst.
      destruct (Hall _ _ _ El) as [a1 Ha1]. cbn [start] in Ha1.
      destruct (IH body (new_frame (eval gstate decide ENone fr st)) st m a1 Ha1 (conj Hh Hs)) as (_ & H1 & H2 & H3 & H4).
      cbn [snd]. repeat split; auto; apply H1.
    + destruct (check P c1 (true, [])) as [a1|] eqn:E1; [|discriminate].
      destruct (IH c1 fr st m a1 E1 (conj Hh Hs)) as (-> & H1 & H2 & H3 & H4).
      destruct (IH c2 (fst (exec k c1 fr st)) (snd (exec k c1 fr st)) (aexec k c1 m) a' Hc H1) as (-> & G1 & G2 & G3 & G4).
      cbn zeta. repeat split; try apply G1; congruence.
    + destruct (check P c1 (true, [])) as [a1|] eqn:E1; [|discriminate].
      destruct (check P c2 (true, [])) as [a2|] eqn:E2; [|discriminate].
      cbn zeta. rewrite <- Hh.
      pose proof (agree_record (EDec (decide (hist st))) st m (conj Hh Hs)) as Hr. rewrite <- Hh in Hr.
      destruct (Nat.eqb (decide (hist st)) 0).
      * destruct (IH c1 fr _ _ a1 E1 Hr) as (-> & H1 & H2 & H3 & H4).
        destruct (IH c2 fr st m a2 E2 (conj Hh Hs)) as (-> & _).
        inversion Hc; subst. cbn in *. repeat split; auto; apply H1.
      * destruct (IH c2 fr _ _ a2 E2 Hr) as (-> & H1 & H2 & H3 & H4).
        destruct (IH c1 fr st m a1 E1 (conj Hh Hs)) as (-> & _).
        inversion Hc; subst. cbn in *. repeat split; auto; apply H1.
    + destruct (check P c (true, [])) as [a1|] eqn:E1; [|discriminate].
      destruct (Bool.eqb (fst a1) _) eqn:Eb; [|discriminate]. inversion Hc; subst a'.
      cbn zeta. rewrite <- Hh.
      pose proof (agree_record (EDec (decide (hist st))) st m (conj Hh Hs)) as Hr. rewrite <- Hh in Hr.
      destruct (Nat.eqb (decide (hist st)) 0).
      * cbn. repeat split; auto; apply Hr.
      * destruct (IH c fr _ _ a1 E1 Hr) as (-> & H1 & H2 & H3 & H4).
        assert (Hl : check P (Loop c) (true, []) = Some (true, [])) by (cbn; rewrite E1; reflexivity).
        destruct (IH (Loop c) (fst (exec k c fr (record gstate (EDec (decide (hist st))) st)))
                    (snd (exec k c fr (record gstate (EDec (decide (hist st))) st)))
                    (aexec k c (arecord gstate (EDec (decide (hist st))) m)) _ Hl H1) as (_ & G1 & G2 & G3 & G4).
        repeat split; try apply G1; cbn in *; congruence.
Qed.

End Proofs.
