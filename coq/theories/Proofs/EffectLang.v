(* Proofs/EffectLang.v — soundness of the seed-discipline checker of Model/EffectLang.v.

   Structure: (1) [pure_refines]: a body accepted from the state (true, []) touches no generator;
   (2) [exec_refines]: a body accepted by [check] refines the single-stream reference machine
   [aexec] run on the stream its seed denotes, and modifies no pre-existing generator object other
   than the one its seed denotes; (3) the four clauses of C05 as corollaries. *)
From Coq Require Import List String Bool Arith Lia.
From BCT Require Import Model.EffectLang.
Import ListNotations.

(* ------------------------------------------------------------------ lists / lookup *)
Lemma mem_In : forall x B, mem x B = true <-> In x B.
Proof.
  intros x B. unfold mem. rewrite existsb_exists. split.
  - intros [y [Hy He]]. apply String.eqb_eq in He. subst. exact Hy.
  - intros H. exists x. split; [exact H|apply String.eqb_refl].
Qed.

Lemma mem_cons : forall y x B, mem y (x :: B) = (String.eqb y x || mem y B)%bool.
Proof. reflexivity. Qed.

Lemma mem_inter : forall x B1 B2, mem x B1 = true -> mem x B2 = true -> mem x (inter B1 B2) = true.
Proof.
  intros x B1 B2 H1 H2. apply mem_In. unfold inter. apply filter_In. split; [apply mem_In; exact H1|exact H2].
Qed.

Lemma inter_mem : forall x B1 B2, mem x (inter B1 B2) = true -> mem x B1 = true /\ mem x B2 = true.
Proof.
  intros x B1 B2 H. apply mem_In in H. unfold inter in H. apply filter_In in H. destruct H as [H1 H2].
  split; [apply mem_In; exact H1|exact H2].
Qed.

Lemma sub_nil : forall B : list var, (forall x, mem x B = true -> mem x [] = true) -> B = [].
Proof.
  intros [|y B] H; [reflexivity|]. specialize (H y). rewrite mem_cons, String.eqb_refl in H.
  cbn in H. discriminate (H eq_refl).
Qed.

Lemma lookup_in : forall P f kc, lookup P f = Some kc -> In f (map fst P).
Proof.
  induction P as [|[g kc'] P IH]; intros f kc H; [discriminate|]. cbn in H |- *.
  destruct (String.eqb f g) eqn:E.
  - left. apply String.eqb_eq in E. symmetry. exact E.
  - right. eapply IH. exact H.
Qed.

Lemma all_safe_checked : forall P, prog_safe P = true ->
  forall f k c, lookup P f = Some (k, c) -> exists a', check P c (start k) = Some a'.
Proof.
  intros P H f k c Hl. unfold prog_safe in H. rewrite forallb_forall in H.
  specialize (H f (lookup_in _ _ _ Hl)). unfold seed_safe in H. rewrite Hl in H.
  destruct (check P c (start k)) as [a'|]; [exists a'; reflexivity|discriminate].
Qed.

Lemma check_grows : forall P c a a', check P c a = Some a' ->
  forall x, mem x (snd a) = true -> mem x (snd a') = true.
Proof.
  intros P c. induction c; intros a a' H z Hz; cbn in H.
  - inversion H; subst; exact Hz.
  - destruct e; try discriminate.
    + destruct (fst a); [discriminate|]. inversion H; subst. cbn [snd]. rewrite mem_cons, Hz. apply orb_true_r.
    + destruct (mem x0 (snd a)); [|discriminate]. inversion H; subst. cbn [snd]. rewrite mem_cons, Hz. apply orb_true_r.
  - destruct (mem x (snd a)); [|discriminate]. inversion H; subst; exact Hz.
  - discriminate.
  - discriminate.
  - discriminate.
  - destruct e; try discriminate.
    + destruct (fst a); [discriminate|]. destruct (lookup P f); [|discriminate]. inversion H; subst. exact Hz.
    + destruct (mem x (snd a)); [|discriminate]. destruct (lookup P f); [|discriminate]. inversion H; subst. exact Hz.
    + destruct (lookup P f) as [[[|] ?]|]; try discriminate. inversion H; subst. exact Hz.
    + destruct (mem x (snd a)); [|discriminate]. destruct (lookup P f); [|discriminate]. inversion H; subst. exact Hz.
    + destruct (fst a); [discriminate|]. destruct (lookup P f); [|discriminate]. inversion H; subst. exact Hz.
  - destruct (check P c1 a) as [a1|] eqn:E1; [|discriminate]. eapply IHc2; [exact H|]. eapply IHc1; [exact E1|exact Hz].
  - destruct (check P c1 a) as [a1|] eqn:E1; [|discriminate].
    destruct (check P c2 a) as [a2|] eqn:E2; [|discriminate]. inversion H; subst. cbn [snd].
    apply mem_inter; [eapply IHc1; eauto|eapply IHc2; eauto].
  - destruct (check P c a) as [a1|] eqn:E1; [|discriminate].
    destruct (Bool.eqb (fst a1) (fst a)); [|discriminate]. inversion H; subst. exact Hz.
Qed.

Lemma check_pure_out : forall P c a', check P c (true, []) = Some a' -> a' = (true, []).
Proof.
  intros P c. induction c; intros a' Hc; cbn in Hc; try discriminate.
  - inversion Hc; reflexivity.
  - destruct e; discriminate.
  - destruct e; try discriminate. destruct (lookup P f) as [[[|] ?]|]; try discriminate. inversion Hc; reflexivity.
  - destruct (check P c1 (true, [])) as [a1|] eqn:E1; [|discriminate]. rewrite (IHc1 _ eq_refl) in Hc. apply IHc2; exact Hc.
  - destruct (check P c1 (true, [])) as [a1|] eqn:E1; [|discriminate].
    destruct (check P c2 (true, [])) as [a2|] eqn:E2; [|discriminate].
    rewrite (IHc1 _ eq_refl), (IHc2 _ eq_refl) in Hc. inversion Hc; reflexivity.
  - destruct (check P c (true, [])) as [a1|]; [|discriminate].
    destruct (Bool.eqb (fst a1) _); [|discriminate]. inversion Hc; reflexivity.
Qed.

(* ------------------------------------------------------------------ semantics *)
Section Proofs.
Variable gstate : Type.
Variable next : gstate -> nat -> nat * gstate.
Variable rs_new : nat -> option gstate.
Variable py_fallback : nat -> nat.
Variable rs_new32 : nat -> gstate.
Variable decide : list ev -> nat.
Variable P : program.
Hypothesis Hall : forall f k c, lookup P f = Some (k, c) -> exists a', check P c (start k) = Some a'.

Notation exec := (exec gstate next rs_new py_fallback rs_new32 decide P).
Notation aexec := (aexec gstate next rs_new py_fallback rs_new32 decide P).
Notation mk := (mk gstate rs_new py_fallback rs_new32).
Notation get_rng := (get_rng gstate rs_new py_fallback rs_new32).
Notation draw := (draw gstate next decide).
Notation adraw := (adraw gstate next decide).
Notation state := (state gstate).
Notation amach := (amach gstate).

Definition agree (st : state) (m : amach) : Prop := hist st = ahist m /\ status st = astatus m.

Definition target (v : value) : option nat :=
  match v with VNone | VMod => Some 0 | VObj o => Some o | VInt _ => None | VBad => None end.

Definition binds (B : list var) (fr : frame) (r : nat) : Prop :=
  forall x, mem x B = true -> env fr x = VObj r.

(* the invariant tying a frame of the real machine to the reference machine's single stream g *)
Definition Core (n0 : nat) (a : astate) (fr : frame) (st : state) (g : gstate) : Prop :=
  match target (seedv fr) with
  | Some r => r < nxt st /\ heap st r = g /\ binds (snd a) fr r
  | None =>
      match seedv fr with
      | VInt s => if fst a then snd a = [] \/ exists r, (n0 <= r /\ r < nxt st) /\ binds (snd a) fr r /\ heap st r = g
                  else g = mk s
      | _ => False
      end
  end.

Definition Inv (n0 : nat) (a : astate) (fr : frame) (st : state) (g : gstate) : Prop :=
  n0 <= nxt st /\ (fst a = false -> snd a = []) /\ Core n0 a fr st g.

Lemma binds_nil : forall fr r, binds [] fr r.
Proof. intros fr r x H. discriminate H. Qed.

Lemma binds_bind : forall B fr r x, binds B fr r -> binds (x :: B) (bind x (VObj r) fr) r.
Proof.
  intros B fr r x H y Hy. cbn. destruct (String.eqb y x) eqn:E; [reflexivity|].
  rewrite mem_cons, E in Hy. cbn in Hy. apply H. exact Hy.
Qed.

Lemma binds_sub : forall B B' fr r, (forall x, mem x B' = true -> mem x B = true) -> binds B fr r -> binds B' fr r.
Proof. intros B B' fr r Hs H x Hx. apply H. apply Hs. exact Hx. Qed.

Lemma Inv_weaken : forall n0 a a' fr st g,
  Inv n0 a fr st g ->
  (fst a = true -> fst a' = true) ->
  (forall x, mem x (snd a') = true -> mem x (snd a) = true) ->
  (fst a' = false -> snd a' = []) ->
  Inv n0 a' fr st g.
Proof.
  intros n0 [u B] [u' B'] fr st g (Hn & Hwf & Hc) Hu Hs Hwf'. cbn [fst snd] in *.
  split; [exact Hn|]. split; [exact Hwf'|]. unfold Core in *. cbn [fst snd] in *.
  destruct (target (seedv fr)) as [r|].
  - destruct Hc as (Hr & Hh & Hb). split; [exact Hr|]. split; [exact Hh|]. eapply binds_sub; eauto.
  - destruct (seedv fr); try exact Hc.
    destruct u.
    + rewrite (Hu eq_refl). destruct Hc as [Hc|[r (Hr & Hb & Hh)]].
      * left. subst B. apply sub_nil. exact Hs.
      * right. exists r. split; [exact Hr|]. split; [eapply binds_sub; eauto|exact Hh].
    + destruct u'; [|exact Hc]. left. rewrite (Hwf eq_refl) in Hs. apply sub_nil. exact Hs.
Qed.

Lemma exec_stopped : forall fuel c fr st, status st <> Running -> exec fuel c fr st = (fr, st).
Proof.
  intros [|k] c fr st H; cbn.
  - unfold stop. destruct (status st); [contradiction H; reflexivity|reflexivity|reflexivity].
  - destruct (status st); [contradiction H; reflexivity|reflexivity|reflexivity].
Qed.

Lemma aexec_stopped : forall fuel c m, astatus m <> Running -> aexec fuel c m = m.
Proof.
  intros [|k] c m H; cbn.
  - unfold astop. destruct (astatus m); [contradiction H; reflexivity|reflexivity|reflexivity].
  - destruct (astatus m); [contradiction H; reflexivity|reflexivity|reflexivity].
Qed.

Lemma exec_nxt_mono : forall fuel c fr st, nxt st <= nxt (snd (exec fuel c fr st)).
Proof.
  induction fuel as [|k IH]; intros c fr st.
  - cbn. unfold stop. destruct (status st); cbn; lia.
  - cbn [EffectLang.exec]. destruct (status st); [|cbn; lia|cbn; lia].
    destruct c as [|x e|x| | | |f e|c1 c2|c1 c2|c1].
    + cbn; lia.
    + cbn [fst snd]. destruct (eval gstate decide e fr st); cbn; lia.
    + destruct (env fr x); cbn; lia.
    + cbn; lia.
    + cbn; lia.
    + cbn; lia.
    + destruct (lookup P f) as [[? body]|]; cbn [fst snd]; [apply IH|cbn; lia].
    + cbn zeta. etransitivity; [apply (IH c1 fr st)|apply IH].
    + cbn zeta. destruct (Nat.eqb _ 0); (etransitivity; [|apply IH]); cbn; lia.
    + cbn zeta. destruct (Nat.eqb _ 0); [cbn; lia|].
      etransitivity; [|apply IH]. etransitivity; [|apply IH]. cbn; lia.
Qed.

Lemma agree_record : forall e st m, agree st m -> agree (record gstate e st) (arecord gstate e m).
Proof. intros e st m [Hh Hs]. split; cbn; [rewrite Hh; reflexivity|exact Hs]. Qed.

(* (1) a body accepted with the raw seed unavailable and no rng name touches no generator *)
Lemma pure_refines : forall fuel c fr st m a',
  check P c (true, []) = Some a' -> agree st m ->
  a' = (true, []) /\ agree (snd (exec fuel c fr st)) (aexec fuel c m) /\
  heap (snd (exec fuel c fr st)) = heap st /\ nxt (snd (exec fuel c fr st)) = nxt st /\
  ag (aexec fuel c m) = ag m.
Proof.
  induction fuel as [|k IH]; intros c fr st m a' Hc Hag; pose proof (check_pure_out _ _ _ Hc) as Ha'.
  - split; [exact Ha'|]. cbn. destruct Hag as [Hh Hs]. unfold stop, astop. rewrite <- Hs.
    destruct (status st) eqn:E; cbn; repeat split; auto; congruence.
  - pose proof Hag as [Hh Hs].
    destruct (status st) eqn:Est.
    2,3: rewrite exec_stopped by (rewrite Est; discriminate); rewrite aexec_stopped by (rewrite <- Hs; discriminate).
    2,3: cbn; repeat split; auto; try congruence.
    assert (Ham : astatus m = Running) by (rewrite <- Hs; reflexivity).
    destruct c; cbn [EffectLang.exec EffectLang.aexec]; rewrite Est, Ham; cbn in Hc.
    + inversion Hc; subst. cbn. repeat split; auto; try congruence.
    + destruct e; discriminate.
    + discriminate.
    + discriminate.
    + discriminate.
    + discriminate.
    + destruct e; try discriminate. cbn [derived].
      destruct (lookup P f) as [[[|] body]|] eqn:El; try discriminate. inversion Hc; subst.
      destruct (Hall _ _ _ El) as [a1 Ha1]. cbn [start] in Ha1.
      destruct (IH body (new_frame (eval gstate decide ENone fr st)) st m a1 Ha1 Hag) as (_ & H1 & H2 & H3 & H4).
      cbn [snd]. repeat split; auto; try apply H1; try congruence.
    + destruct (check P c1 (true, [])) as [a1|] eqn:E1; [|discriminate].
      destruct (IH c1 fr st m a1 E1 Hag) as (-> & H1 & H2 & H3 & H4).
      destruct (IH c2 (fst (exec k c1 fr st)) (snd (exec k c1 fr st)) (aexec k c1 m) a' Hc H1) as (-> & G1 & G2 & G3 & G4).
      cbn zeta. repeat split; try apply G1; congruence.
    + destruct (check P c1 (true, [])) as [a1|] eqn:E1; [|discriminate].
      destruct (check P c2 (true, [])) as [a2|] eqn:E2; [|discriminate].
      cbn zeta. rewrite <- Hh.
      pose proof (agree_record (EDec (decide (hist st))) st m Hag) as Hr.
      destruct (Nat.eqb (decide (hist st)) 0).
      * destruct (IH c1 fr _ _ a1 E1 Hr) as (-> & H1 & H2 & H3 & H4).
        destruct (IH c2 fr st m a2 E2 Hag) as (-> & _).
        inversion Hc; subst. cbn in *. repeat split; auto; try apply H1; try congruence.
      * destruct (IH c2 fr _ _ a2 E2 Hr) as (-> & H1 & H2 & H3 & H4).
        destruct (IH c1 fr st m a1 E1 Hag) as (-> & _).
        inversion Hc; subst. cbn in *. repeat split; auto; try apply H1; try congruence.
    + destruct (check P c (true, [])) as [a1|] eqn:E1; [|discriminate].
      destruct (Bool.eqb (fst a1) _) eqn:Eb; [|discriminate]. inversion Hc; subst a'.
      cbn zeta. rewrite <- Hh.
      pose proof (agree_record (EDec (decide (hist st))) st m Hag) as Hr.
      destruct (Nat.eqb (decide (hist st)) 0).
      * cbn. repeat split; auto; try apply Hr; try congruence.
      * destruct (IH c fr _ _ a1 E1 Hr) as (-> & H1 & H2 & H3 & H4).
        assert (Hl : check P (Loop c) (true, []) = Some (true, [])) by (cbn; rewrite E1; reflexivity).
        destruct (IH (Loop c) (fst (exec k c fr (record gstate (EDec (decide (hist st))) st)))
                    (snd (exec k c fr (record gstate (EDec (decide (hist st))) st)))
                    (aexec k c (arecord gstate (EDec (decide (hist st))) m)) _ Hl H1) as (_ & G1 & G2 & G3 & G4).
        repeat split; try apply G1; cbn in *; congruence.
Qed.


Lemma get_rng_target : forall v r (st : state), target v = Some r -> get_rng v st = (VObj r, st).
Proof. intros [| |s|o|] r st H; cbn in H; inversion H; reflexivity. Qed.

Lemma Inv_heap_irrel : forall n0 a fr (st st' : state) g,
  heap st' = heap st -> nxt st' = nxt st -> Inv n0 a fr st g -> Inv n0 a fr st' g.
Proof. unfold Inv, Core. intros n0 a fr st st' g H H0 H1. rewrite H, H0. exact H1. Qed.

Lemma inter_nil_l : forall B1 B2, B1 = [] -> inter B1 B2 = [].
Proof. intros B1 B2 ->. reflexivity. Qed.

Lemma inter_nil_r : forall B1 B2, B2 = [] -> inter B1 B2 = [].
Proof. intros B1 B2 ->. apply sub_nil. intros x H. apply inter_mem in H. apply H. Qed.

(* what [exec_refines] states for one amount of fuel (its induction hypothesis) *)
Definition refines_at (k : nat) : Prop :=
  forall c fr st m a a' n0,
  check P c a = Some a' ->
  agree st m ->
  (status st = Running -> Inv n0 a fr st (ag m)) ->
  agree (snd (exec k c fr st)) (aexec k c m) /\
  (status (snd (exec k c fr st)) = Running ->
     Inv n0 a' (fst (exec k c fr st)) (snd (exec k c fr st)) (ag (aexec k c m))) /\
  seedv (fst (exec k c fr st)) = seedv fr /\
  (forall o, o < n0 -> target (seedv fr) <> Some o -> heap (snd (exec k c fr st)) o = heap st o).

(* a call whose seed is a number computed from the history: the callee refines the reference machine
   on the fresh stream of that number, touches no object that existed before the call, and the
   caller's invariant (which speaks of older objects only) survives *)
Lemma sub_call : forall k, refines_at k ->
  forall f kd body fr st m a n0,
  lookup P f = Some (kd, body) -> agree st m -> status st = Running -> astatus m = Running ->
  n0 <= nxt st -> (fst a = false -> snd a = []) -> Core n0 a fr st (ag m) ->
  let st' := snd (exec k body (new_frame (VInt (decide (hist st)))) st) in
  let m1 := aexec k body (mkA (mk (decide (ahist m))) (ahist m) Running) in
  let m' := mkA (ag m) (ahist m1) (astatus m1) in
  agree st' m' /\ (status st' = Running -> Inv n0 a fr st' (ag m')) /\ seedv fr = seedv fr /\
  (forall o, o < n0 -> target (seedv fr) <> Some o -> heap st' o = heap st o).
Proof.
  intros k IH f kd body fr st m a n0 El Hag Est Ham Hn Hwf Hcore st' m1 m'.
  destruct Hag as [Hh Hs]. destruct (Hall _ _ _ El) as [a1 Ha1].
  set (m0 := mkA (mk (decide (ahist m))) (ahist m) Running) in *.
  assert (Hag0 : agree st m0) by (split; [exact Hh|cbn; exact Est]).
  assert (HI' : Inv (nxt st) (start kd) (new_frame (VInt (decide (hist st)))) st (ag m0)).
  { split; [apply le_n|]. split; [destruct kd; reflexivity|]. unfold Core. cbn [new_frame seedv target].
    destruct kd; cbn [start fst snd]; [rewrite Hh; reflexivity|left; reflexivity]. }
  destruct (IH body (new_frame (VInt (decide (hist st)))) st m0 (start kd) a1 (nxt st) Ha1 Hag0 (fun _ => HI')) as (G1 & G2 & G3 & G4).
  pose proof (exec_nxt_mono k body (new_frame (VInt (decide (hist st)))) st) as Hmono.
  fold st' in G1, G2, G4, Hmono. fold m1 in G1, G2.
  assert (Hold : forall o, o < nxt st -> heap st' o = heap st o).
  { intros o Ho. apply G4; [exact Ho|]. cbn. discriminate. }
  split; [destruct G1 as [G1a G1b]; split; cbn [ahist astatus]; assumption|].
  split.
  { intros HR. split; [lia|]. split; [exact Hwf|]. unfold Core in *. cbn [ag].
    destruct (target (seedv fr)) as [r|] eqn:Ht.
    - destruct Hcore as (Hrn & Hg & Hb). split; [lia|]. split; [|exact Hb]. rewrite Hold; [exact Hg|exact Hrn].
    - destruct (seedv fr) eqn:Hv; try contradiction. destruct (fst a) eqn:Hu; [|exact Hcore].
      destruct Hcore as [He|[r (Hr & Hb & Hg)]]; [left; exact He|]. right. exists r.
      split; [lia|]. split; [exact Hb|]. rewrite Hold; [exact Hg|lia]. }
  split; [reflexivity|].
  intros o Ho _. apply Hold. lia.
Qed.

(* (2) refinement of the reference machine + footprint *)
Lemma exec_refines : forall fuel c fr st m a a' n0,
  check P c a = Some a' ->
  agree st m ->
  (status st = Running -> Inv n0 a fr st (ag m)) ->
  agree (snd (exec fuel c fr st)) (aexec fuel c m) /\
  (status (snd (exec fuel c fr st)) = Running ->
     Inv n0 a' (fst (exec fuel c fr st)) (snd (exec fuel c fr st)) (ag (aexec fuel c m))) /\
  seedv (fst (exec fuel c fr st)) = seedv fr /\
  (forall o, o < n0 -> target (seedv fr) <> Some o -> heap (snd (exec fuel c fr st)) o = heap st o).
Proof.
  induction fuel as [|k IH]; intros c fr st m a a' n0 Hc Hag Hinv; pose proof Hag as [Hh Hs].
  - cbn. unfold stop, astop. rewrite <- Hs.
    destruct (status st) eqn:E; cbn; repeat split; auto; try congruence; intros HR; cbn in HR; congruence.
  - destruct (status st) eqn:Est.
    2,3: rewrite exec_stopped by (rewrite Est; discriminate); rewrite aexec_stopped by (rewrite <- Hs; discriminate).
    2,3: cbn; split; [exact Hag|]; split; [intros HR; congruence|]; split; reflexivity.
    assert (Ham : astatus m = Running) by (rewrite <- Hs; reflexivity).
    destruct (Hinv eq_refl) as (Hn & Hwf & Hcore).
    destruct c; cbn [EffectLang.exec EffectLang.aexec]; rewrite Est, Ham; cbn [check] in Hc.
    + (* Skip *)
      inversion Hc; subst a'. cbn [fst snd]. split; [exact Hag|]. split; [intros _; exact (conj Hn (conj Hwf Hcore))|].
      split; reflexivity.
    + (* GetRng *)
      destruct e; try discriminate.
      * (* x = get_rng(seed) *)
        destruct a as [u B]; cbn [fst snd] in *. destruct u; [discriminate|]. inversion Hc; subst a'.
        rewrite (Hwf eq_refl) in *. cbn [eval]. unfold Core in Hcore. cbn [fst snd] in Hcore.
        destruct (target (seedv fr)) as [r|] eqn:Ht.
        -- rewrite (get_rng_target _ _ st Ht). cbn [fst snd]. destruct Hcore as (Hrn & Hg & Hb).
           split; [exact Hag|]. split.
           { intros _. split; [exact Hn|]. split; [intros HF; discriminate HF|].
             unfold Core. cbn [bind seedv fst snd]. rewrite Ht. split; [exact Hrn|]. split; [exact Hg|apply binds_bind; exact Hb]. }
           split; reflexivity.
        -- destruct (seedv fr) eqn:Hv; try contradiction. cbn [EffectLang.get_rng fst snd].
           split; [split; cbn; congruence|]. split.
           { intros _. split; [cbn; lia|]. split; [intros HF; discriminate HF|].
             unfold Core. cbn [bind seedv fst snd]. rewrite Hv. cbn [target]. right. exists (nxt st).
             split; [split; [exact Hn|cbn; lia]|]. split; [apply binds_bind; apply binds_nil|].
             cbn [heap]. unfold upd. rewrite Nat.eqb_refl. symmetry. exact Hcore. }
           split; [cbn; exact Hv|]. intros o Ho _. cbn [heap]. unfold upd.
           destruct (Nat.eqb_spec o (nxt st)); [lia|reflexivity].
      * (* x = get_rng(y) / x = y for a name y holding the rng *)
        destruct (mem x0 (snd a)) eqn:Hm; [|discriminate]. inversion Hc; subst a'. cbn [eval fst snd].
        assert (Hu : fst a = true).
        { destruct (fst a) eqn:Hu; [reflexivity|]. rewrite (Hwf eq_refl) in Hm. discriminate Hm. }
        unfold Core in Hcore. destruct (target (seedv fr)) as [r|] eqn:Ht.
        -- destruct Hcore as (Hrn & Hg & Hb). rewrite (Hb _ Hm). cbn [EffectLang.get_rng fst snd].
           split; [exact Hag|]. split.
           { intros _. split; [exact Hn|]. split; [cbn [fst snd]; intros HF; congruence|].
             unfold Core. cbn [bind seedv fst snd]. rewrite Ht. split; [exact Hrn|]. split; [exact Hg|apply binds_bind; exact Hb]. }
           split; reflexivity.
        -- destruct (seedv fr) eqn:Hv; try contradiction. rewrite Hu in Hcore.
           destruct Hcore as [He|[r (Hr & Hb & Hg)]]; [rewrite He in Hm; discriminate Hm|].
           rewrite (Hb _ Hm). cbn [EffectLang.get_rng fst snd].
           split; [exact Hag|]. split.
           { intros _. split; [exact Hn|]. split; [cbn [fst snd]; intros HF; congruence|].
             unfold Core. cbn [bind seedv fst snd]. rewrite Hv, Hu. cbn [target]. right. exists r.
             split; [exact Hr|]. split; [apply binds_bind; exact Hb|exact Hg]. }
           split; [cbn; exact Hv|]. reflexivity.
    + (* DrawLocal *)
      destruct (mem x (snd a)) eqn:Hm; [|discriminate]. inversion Hc; subst a'. cbn [fst snd].
      assert (Hu : fst a = true).
      { destruct (fst a) eqn:Hu; [reflexivity|]. rewrite (Hwf eq_refl) in Hm. discriminate Hm. }
      unfold Core in Hcore. destruct (target (seedv fr)) as [r|] eqn:Ht.
      * destruct Hcore as (Hrn & Hg & Hb). rewrite (Hb _ Hm). cbn [EffectLang.draw]. unfold EffectLang.adraw.
        rewrite Hg, Hh. split; [split; cbn; [reflexivity|congruence]|]. split.
        { intros _. split; [exact Hn|]. split; [exact Hwf|]. unfold Core. rewrite Ht. cbn [heap ag nxt].
          split; [exact Hrn|]. split; [unfold upd; rewrite Nat.eqb_refl; reflexivity|exact Hb]. }
        split; [reflexivity|]. intros o Ho Hne. cbn [heap]. unfold upd.
        destruct (Nat.eqb_spec o r); [subst o; contradiction Hne; reflexivity|reflexivity].
      * destruct (seedv fr) eqn:Hv; try contradiction. rewrite Hu in Hcore.
        destruct Hcore as [He|[r (Hr & Hb & Hg)]]; [rewrite He in Hm; discriminate Hm|].
        rewrite (Hb _ Hm). cbn [EffectLang.draw]. unfold EffectLang.adraw.
        rewrite Hg, Hh. split; [split; cbn; [reflexivity|congruence]|]. split.
        { intros _. split; [exact Hn|]. split; [exact Hwf|]. unfold Core. rewrite Hv, Hu. cbn [target heap ag nxt].
          right. exists r. split; [exact Hr|]. split; [exact Hb|]. unfold upd. rewrite Nat.eqb_refl. reflexivity. }
        split; [reflexivity|]. intros o Ho _. cbn [heap]. unfold upd.
        destruct (Nat.eqb_spec o r); [lia|reflexivity].
    + discriminate.
    + discriminate.
    + discriminate.
    + (* Call *)
      destruct e; try discriminate; cbn [derived].
      * (* f(..., seed=seed): the raw seed is handed on *)
        destruct a as [u B]; cbn [fst snd] in *. destruct u; [discriminate|].
        destruct (lookup P f) as [[kd body]|] eqn:El; [|discriminate]. inversion Hc; subst a'.
        rewrite (Hwf eq_refl) in *. destruct (Hall _ _ _ El) as [a1 Ha1]. cbn [eval].
        assert (HI' : Inv n0 (start kd) (new_frame (seedv fr)) st (ag m)).
        { split; [exact Hn|]. split; [destruct kd; reflexivity|].
          unfold Core in *. cbn [new_frame seedv fst snd] in *. destruct (target (seedv fr)) as [r|].
          - split; [apply Hcore|]. split; [apply Hcore|]. destruct kd; apply binds_nil.
          - destruct (seedv fr); try contradiction. destruct kd; cbn [start fst snd]; [exact Hcore|left; reflexivity]. }
        destruct (IH body (new_frame (seedv fr)) st m (start kd) a1 n0 Ha1 Hag (fun _ => HI')) as (G1 & G2 & G3 & G4).
        cbn [fst snd]. split; [exact G1|]. split.
        { intros HR. destruct (G2 HR) as (Gn & Gwf & Gc). split; [exact Gn|]. split; [intros HF; discriminate HF|].
          unfold Core in *. rewrite G3 in Gc. cbn [new_frame seedv fst snd] in *.
          destruct (target (seedv fr)) as [r|]; [split; [apply Gc|split; [apply Gc|apply binds_nil]]|].
          destruct (seedv fr); try contradiction. left; reflexivity. }
        split; [reflexivity|]. exact G4.
      * (* f(..., seed=rng) *)
        destruct (mem x (snd a)) eqn:Hm; [|discriminate].
        destruct (lookup P f) as [[kd body]|] eqn:El; [|discriminate]. inversion Hc; subst a'.
        destruct (Hall _ _ _ El) as [a1 Ha1]. cbn [eval].
        assert (Hu : fst a = true).
        { destruct (fst a) eqn:Hu; [reflexivity|]. rewrite (Hwf eq_refl) in Hm. discriminate Hm. }
        assert (Hr : exists r, env fr x = VObj r /\ heap st r = ag m /\ r < nxt st /\
                     (forall o, o < n0 -> target (seedv fr) <> Some o -> o <> r) /\
                     (forall (st' : state) g', nxt st <= nxt st' -> heap st' r = g' -> Inv n0 a fr st' g')).
        { unfold Core in Hcore. destruct (target (seedv fr)) as [r|] eqn:Ht.
          - destruct Hcore as (Hrn & Hg & Hb). exists r. split; [exact (Hb _ Hm)|]. split; [exact Hg|]. split; [exact Hrn|]. split.
            + intros o _ Hne Heq. subst o. contradiction Hne; reflexivity.
            + intros st' g' Hn' Hg'. split; [lia|]. split; [exact Hwf|]. unfold Core. rewrite Ht.
              split; [lia|]. split; assumption.
          - destruct (seedv fr) eqn:Hv; try contradiction. rewrite Hu in Hcore.
            destruct Hcore as [He|[r (Hr & Hb & Hg)]]; [rewrite He in Hm; discriminate Hm|].
            exists r. split; [exact (Hb _ Hm)|]. split; [exact Hg|]. split; [lia|]. split.
            + intros o Ho _. lia.
            + intros st' g' Hn' Hg'. split; [lia|]. split; [exact Hwf|]. unfold Core. rewrite Hv, Hu. cbn [target].
              right. exists r. split; [lia|]. split; assumption. }
        destruct Hr as (r & Hx & Hg & Hrn & Hfoot & Hback). rewrite Hx.
        assert (HI' : Inv n0 (start kd) (new_frame (VObj r)) st (ag m)).
        { split; [exact Hn|]. split; [destruct kd; reflexivity|]. unfold Core. cbn [new_frame seedv target].
          split; [exact Hrn|]. split; [exact Hg|]. destruct kd; apply binds_nil. }
        destruct (IH body (new_frame (VObj r)) st m (start kd) a1 n0 Ha1 Hag (fun _ => HI')) as (G1 & G2 & G3 & G4).
        pose proof (exec_nxt_mono k body (new_frame (VObj r)) st) as Hmono.
        cbn [fst snd]. split; [exact G1|]. split.
        { intros HR. destruct (G2 HR) as (Gn & Gwf & Gc). unfold Core in Gc. rewrite G3 in Gc.
          cbn [new_frame seedv target] in Gc. apply Hback; [exact Hmono|apply Gc]. }
        split; [reflexivity|]. intros o Ho Hne. apply G4; [exact Ho|]. cbn [new_frame seedv target].
        intros HF. inversion HF. subst o. exact (Hfoot r Ho Hne eq_refl).
      * (* f(...) without a seed: only generator-free functions *)
        destruct (lookup P f) as [[[|] body]|] eqn:El; try discriminate. inversion Hc; subst a'.
        destruct (Hall _ _ _ El) as [a1 Ha1]. cbn [start] in Ha1.
        destruct (pure_refines k body (new_frame (eval gstate decide ENone fr st)) st m a1 Ha1 Hag) as (_ & H1 & H2 & H3 & H4).
        cbn [fst snd]. split; [exact H1|]. split.
        { intros _. rewrite H4. eapply Inv_heap_irrel; [exact H2|exact H3|]. exact (conj Hn (conj Hwf Hcore)). }
        split; [reflexivity|]. intros o _ _. rewrite H2. reflexivity.
      * (* f(..., seed=<int drawn from the rng>): the callee runs on a fresh sub-stream *)
        destruct (mem x (snd a)) eqn:Hm; [|discriminate].
        destruct (lookup P f) as [[kd body]|] eqn:El; [|discriminate]. inversion Hc; subst a'.
        exact (sub_call k IH f kd body fr st m a n0 El Hag Est Ham Hn Hwf Hcore).
      * (* f(..., seed=<int computed from the arguments>) while the raw seed is unused *)
        destruct (fst a) eqn:Hu; [discriminate|].
        destruct (lookup P f) as [[kd body]|] eqn:El; [|discriminate]. inversion Hc; subst a'.
        exact (sub_call k IH f kd body fr st m a n0 El Hag Est Ham Hn (fun _ => Hwf eq_refl) Hcore).
    + (* Seq *)
      destruct (check P c1 a) as [a1|] eqn:E1; [|discriminate]. cbn zeta.
      destruct (IH c1 fr st m a a1 n0 E1 Hag (fun _ => conj Hn (conj Hwf Hcore))) as (G1 & G2 & G3 & G4).
      destruct (IH c2 (fst (exec k c1 fr st)) (snd (exec k c1 fr st)) (aexec k c1 m) a1 a' n0 Hc G1 G2) as (K1 & K2 & K3 & K4).
      split; [exact K1|]. split; [exact K2|]. split; [congruence|].
      intros o Ho Hne. rewrite K4; [apply G4; assumption|exact Ho|rewrite G3; exact Hne].
    + (* Choice *)
      destruct (check P c1 a) as [a1|] eqn:E1; [|discriminate].
      destruct (check P c2 a) as [a2|] eqn:E2; [|discriminate]. inversion Hc; subst a'.
      cbn zeta. rewrite <- Hh.
      pose proof (agree_record (EDec (decide (hist st))) st m Hag) as Hr.
      assert (HI0 : status (record gstate (EDec (decide (hist st))) st) = Running ->
                    Inv n0 a fr (record gstate (EDec (decide (hist st))) st) (ag (arecord gstate (EDec (decide (hist st))) m))).
      { intros _. eapply Inv_heap_irrel; [reflexivity|reflexivity|]. exact (conj Hn (conj Hwf Hcore)). }
      destruct (Nat.eqb (decide (hist st)) 0).
      * destruct (IH c1 fr _ _ a a1 n0 E1 Hr HI0) as (G1 & G2 & G3 & G4).
        split; [exact G1|]. split; [|split; [exact G3|exact G4]].
        intros HR. pose proof (G2 HR) as GI. eapply Inv_weaken; [exact GI| | |]; cbn [fst snd].
        -- intros ->. reflexivity.
        -- intros z Hz. apply inter_mem in Hz. apply Hz.
        -- intros HF. apply orb_false_iff in HF. destruct HF as [HF _]. apply inter_nil_l. apply GI. exact HF.
      * destruct (IH c2 fr _ _ a a2 n0 E2 Hr HI0) as (G1 & G2 & G3 & G4).
        split; [exact G1|]. split; [|split; [exact G3|exact G4]].
        intros HR. pose proof (G2 HR) as GI. eapply Inv_weaken; [exact GI| | |]; cbn [fst snd].
        -- intros ->. apply orb_true_r.
        -- intros z Hz. apply inter_mem in Hz. apply Hz.
        -- intros HF. apply orb_false_iff in HF. destruct HF as [_ HF]. apply inter_nil_r. apply GI. exact HF.
    + (* Loop *)
      destruct (check P c a) as [a1|] eqn:E1; [|discriminate].
      destruct (Bool.eqb (fst a1) (fst a)) eqn:Eb; [|discriminate]. inversion Hc; subst a'.
      apply eqb_prop in Eb.
      cbn zeta. rewrite <- Hh.
      pose proof (agree_record (EDec (decide (hist st))) st m Hag) as Hr.
      assert (HI0 : Inv n0 a fr (record gstate (EDec (decide (hist st))) st) (ag (arecord gstate (EDec (decide (hist st))) m))).
      { eapply Inv_heap_irrel; [reflexivity|reflexivity|]. exact (conj Hn (conj Hwf Hcore)). }
      destruct (Nat.eqb (decide (hist st)) 0).
      * cbn [fst snd]. split; [exact Hr|]. split; [intros _; exact HI0|]. split; reflexivity.
      * destruct (IH c fr _ _ a a1 n0 E1 Hr (fun _ => HI0)) as (G1 & G2 & G3 & G4).
        assert (Hl : check P (Loop c) a = Some a).
        { cbn [check]. rewrite E1, Eb, Bool.eqb_reflx. reflexivity. }
        assert (G2' : status (snd (exec k c fr (record gstate (EDec (decide (hist st))) st))) = Running ->
                      Inv n0 a (fst (exec k c fr (record gstate (EDec (decide (hist st))) st)))
                          (snd (exec k c fr (record gstate (EDec (decide (hist st))) st)))
                          (ag (aexec k c (arecord gstate (EDec (decide (hist st))) m)))).
        { intros HR. eapply Inv_weaken; [exact (G2 HR)| | |].
          - intros H1. rewrite <- Eb. exact H1.
          - intros z Hz. eapply check_grows; [exact E1|exact Hz].
          - exact Hwf. }
        destruct (IH (Loop c) _ _ _ a a n0 Hl G1 G2') as (K1 & K2 & K3 & K4).
        split; [exact K1|]. split; [exact K2|]. split; [congruence|].
        intros o Ho Hne. rewrite K4; [apply G4; assumption|exact Ho|rewrite G3; exact Hne].
Qed.

End Proofs.

(* ------------------------------------------------------------------ (3) the clauses of C05 *)
Section Sound.
Variable gstate : Type.
Variable next : gstate -> nat -> nat * gstate.
Variable rs_new : nat -> option gstate.
Variable py_fallback : nat -> nat.
Variable rs_new32 : nat -> gstate.
Variable decide : list ev -> nat.
Variable P : program.
Hypothesis Hsafe : prog_safe P = true.

Notation run := (run_fn gstate next rs_new py_fallback rs_new32 decide P).
Notation aexec := (aexec gstate next rs_new py_fallback rs_new32 decide P).
Notation stream_of := (stream_of gstate rs_new py_fallback rs_new32).
Notation state := (state gstate).

(* the object a seed value denotes exists in the heap (objects below [nxt] are allocated) *)
Definition wf_seed (v : value) (st : state) : Prop :=
  match target v with Some r => r < nxt st | None => True end.

Lemma Inv_init : forall k v (st : state), v <> VBad -> wf_seed v st ->
  Inv gstate rs_new py_fallback rs_new32 (nxt st) (start k) (new_frame v) st (stream_of v st).
Proof.
  intros k v st Hv Hw. split; [apply le_n|]. split; [destruct k; reflexivity|].
  unfold Core. cbn [new_frame seedv]. unfold wf_seed in Hw.
  destruct v; cbn [target stream_of] in *; try (split; [exact Hw|]; split; [reflexivity|destruct k; apply binds_nil]).
  - destruct k; cbn [start fst snd]; [reflexivity|left; reflexivity].
  - contradiction Hv; reflexivity.
Qed.

(* a checked function behaves like the reference machine on the stream its seed denotes, and
   touches no generator object that existed before the call except the one its seed denotes *)
Lemma run_refines : forall fuel f k c v (st : state),
  lookup P f = Some (k, c) -> v <> VBad -> wf_seed v st ->
  observable (run fuel f v st) =
    (ahist (aexec fuel c (mkA (stream_of v st) (hist st) (status st))),
     astatus (aexec fuel c (mkA (stream_of v st) (hist st) (status st)))) /\
  (forall o, o < nxt st -> target v <> Some o -> heap (run fuel f v st) o = heap st o).
Proof.
  intros fuel f k c v st Hl Hv Hw. unfold run_fn. rewrite Hl.
  destruct (all_safe_checked P Hsafe f k c Hl) as [a' Ha'].
  pose proof (exec_refines gstate next rs_new py_fallback rs_new32 decide P (all_safe_checked P Hsafe)
                fuel c (new_frame v) st (mkA (stream_of v st) (hist st) (status st)) (start k) a' (nxt st) Ha'
                (conj eq_refl eq_refl) (fun _ => Inv_init k v st Hv Hw)) as (G1 & _ & _ & G4).
  split; [|exact G4]. destruct G1 as [G1 G1']. unfold observable. rewrite G1, G1'. reflexivity.
Qed.

(* two calls whose seeds denote the same stream are indistinguishable, whatever else differs
   (the global generators, the environment, the other objects, the allocation counter) *)
Lemma run_obs_eq : forall fuel f v1 v2 (st1 st2 : state),
  v1 <> VBad -> v2 <> VBad -> wf_seed v1 st1 -> wf_seed v2 st2 ->
  hist st1 = hist st2 -> status st1 = status st2 ->
  stream_of v1 st1 = stream_of v2 st2 ->
  observable (run fuel f v1 st1) = observable (run fuel f v2 st2).
Proof.
  intros fuel f v1 v2 st1 st2 H1 H2 W1 W2 Hh Hs Hg.
  destruct (lookup P f) as [[k c]|] eqn:Hl.
  - destruct (run_refines fuel f k c v1 st1 Hl H1 W1) as [E1 _].
    destruct (run_refines fuel f k c v2 st2 Hl H2 W2) as [E2 _].
    rewrite E1, E2, Hh, Hs, Hg. reflexivity.
  - unfold run_fn, observable. rewrite Hl. cbn. rewrite Hh. reflexivity.
Qed.

Lemma run_footprint : forall fuel f v (st : state) o,
  v <> VBad -> wf_seed v st -> o < nxt st -> target v <> Some o -> heap (run fuel f v st) o = heap st o.
Proof.
  intros fuel f v st o Hv Hw Ho Hne. destruct (lookup P f) as [[k c]|] eqn:Hl.
  - destruct (run_refines fuel f k c v st Hl Hv Hw) as [_ E]. apply E; assumption.
  - unfold run_fn. rewrite Hl. reflexivity.
Qed.

End Sound.

(* seeds a caller can pass: a number, or one of the caller's own RandomState instances (objects 0, 1, 2 are
   numpy's global generator, Python's, and the environment) *)
Definition seed_given (v : value) : Prop := (exists s, v = VInt s) \/ (exists o, v = VObj o /\ 3 <= o).

(* [nxt st] is the allocation counter: objects below it exist.  [3 <= nxt st]: the three reserved objects exist;
   [o < nxt st]: the caller's RandomState exists. *)
Theorem seed_safe_sound :
  forall (gstate : Type) (next : gstate -> nat -> nat * gstate)
         (rs_new : nat -> option gstate) (py_fallback : nat -> nat) (rs_new32 : nat -> gstate)
         (A : Type) (D : A -> list ev -> nat)
         (P : program), prog_safe P = true ->
  forall (f : fname) (args : A) (fuel : nat),
  let run := run_fn gstate next rs_new py_fallback rs_new32 (D args) P fuel f in
  let fresh := mk gstate rs_new py_fallback rs_new32 in
  (* (1) with a seed, numpy's global generator (object 0) and Python's (object 1) are left as found *)
  (forall v st, seed_given v -> 3 <= nxt st -> wf_seed gstate v st ->
     heap (run v st) 0 = heap st 0 /\ heap (run v st) 1 = heap st 1) /\
  (* (2) same arguments + same seed => same draws, decisions and outcome, whatever the global
         generators, the environment (object 2) and the rest of the heap contain *)
  (forall s st1 st2, hist st1 = hist st2 -> status st1 = status st2 ->
     observable (run (VInt s) st1) = observable (run (VInt s) st2)) /\
  (forall o st1 st2, hist st1 = hist st2 -> status st1 = status st2 -> o < nxt st1 -> o < nxt st2 ->
     heap st1 o = heap st2 o ->
     observable (run (VObj o) st1) = observable (run (VObj o) st2)) /\
  (* (3) an integer seed and a RandomState constructed from it are indistinguishable *)
  (forall s o st1 st2, hist st1 = hist st2 -> status st1 = status st2 -> o < nxt st2 -> heap st2 o = fresh s ->
     observable (run (VInt s) st1) = observable (run (VObj o) st2)) /\
  (* (4) without a seed the outcome is a function of the arguments and numpy's global generator
         only, and Python's generator is not touched *)
  (forall st1 st2, hist st1 = hist st2 -> status st1 = status st2 -> 3 <= nxt st1 -> 3 <= nxt st2 ->
     heap st1 0 = heap st2 0 ->
     observable (run VNone st1) = observable (run VNone st2)) /\
  (forall st, 3 <= nxt st -> heap (run VNone st) 1 = heap st 1).
Proof.
  intros gstate next rs_new py_fallback rs_new32 A D P Hsafe f args fuel run fresh. unfold run, fresh.
  split; [|split; [|split; [|split; [|split]]]].
  - intros v st Hv Hn Hw. split; apply (run_footprint gstate next rs_new py_fallback rs_new32 (D args) P Hsafe);
      try exact Hw; try lia; destruct Hv as [[s ->]|[o [-> Ho]]]; cbn; try discriminate; intros HF; inversion HF; lia.
  - intros s st1 st2 Hh Hs. apply (run_obs_eq gstate next rs_new py_fallback rs_new32 (D args) P Hsafe);
      try discriminate; try exact I; auto.
  - intros o st1 st2 Hh Hs Ho1 Ho2 Hg. apply (run_obs_eq gstate next rs_new py_fallback rs_new32 (D args) P Hsafe);
      try discriminate; auto.
  - intros s o st1 st2 Hh Hs Ho Hg. apply (run_obs_eq gstate next rs_new py_fallback rs_new32 (D args) P Hsafe);
      try discriminate; try exact I; auto.
  - intros st1 st2 Hh Hs Hn1 Hn2 Hg. apply (run_obs_eq gstate next rs_new py_fallback rs_new32 (D args) P Hsafe);
      try discriminate; unfold wf_seed; cbn [target]; try lia; auto.
  - intros st Hn. apply (run_footprint gstate next rs_new py_fallback rs_new32 (D args) P Hsafe);
      try lia; unfold wf_seed; cbn; try lia; discriminate.
Qed.

(* ------------------------------------------------------------------ non-vacuity and refutations
   A concrete toy generator: the state is a counter, a draw returns it and increments it;
   RandomState(s) starts at 100*s.  Object o of the initial heap holds the counter 10*o
   (object 0 = numpy's global, 1 = Python's, 2 = the environment); object 3 is a caller's RandomState(7). *)
Module Toy.
Definition tnext (g p : nat) : nat * nat := (g, S g).
Definition trs (s : nat) : option nat := Some (100 * s).
Definition st0 : state nat := mkState (fun o => if Nat.eqb o 3 then 700 else 10 * o) 4 [] Running.
Definition st0' : state nat := mkState (fun o => if Nat.eqb o 3 then 700 else 10 * o + 5) 9 [] Running.
(* an oracle that depends on the history only: alternate while the history is short, then stop *)
Definition dec (h : list ev) : nat :=
  if Nat.ltb (List.length h) 12 then (if Nat.even (List.length h) then 1 else 0) else 0.
Definition trun := run_fn nat tnext trs (fun s => s) (fun s => s) dec.

(* the shape of bct's rewiring routines: rng = get_rng(seed); loop { rng.randint; helper(n, rng) },
   the helper recursing with the rng object like pick_four_unique_nodes_quickly *)
Definition good : program :=
  [ ("pick4", (Seeded, Seq (GetRng "rng" ESeed) (Seq (DrawLocal "rng") (Choice (Call "pick4" (EVar "rng")) Skip))));
    ("clean", (Pure, Loop Skip));
    ("randmio", (Seeded, Seq (Call "clean" ENone)
                        (Seq (GetRng "rng" ESeed) (Loop (Seq (DrawLocal "rng") (Call "pick4" (EVar "rng"))))))) ].

Example good_safe : prog_safe good = true.
Proof. vm_compute. reflexivity. Qed.

(* the theorem is not vacuous: the accepted program really draws (700, 701, 702 from RandomState(7), one of them in the recursive call),
   identically for seed 7 in two different worlds and for the object RandomState(7) *)
Example good_nonvacuous :
  observable (trun good 50 "randmio" (VInt 7) st0)
    = ([EDec 0; EDec 1; EDraw 702; EDec 1; EDec 0; EDraw 701; EDec 0; EDraw 700; EDec 0; EDec 1; EDec 0; EDec 1], Running)
  /\ observable (trun good 50 "randmio" (VInt 7) st0') = observable (trun good 50 "randmio" (VInt 7) st0)
  /\ observable (trun good 50 "randmio" (VObj 3) st0) = observable (trun good 50 "randmio" (VInt 7) st0)
  /\ heap (trun good 50 "randmio" (VInt 7) st0) 0 = 0.
Proof. vm_compute. repeat split. Qed.

(* UNSAFE 1: one stray np.random call.  Rejected, and clause (1) really fails. *)
Definition stray : program :=
  [ ("f", (Seeded, Seq (GetRng "rng" ESeed) (Seq (DrawLocal "rng") DrawNpGlobal))) ].
Example stray_rejected : seed_safe stray "f" = false.
Proof. vm_compute. reflexivity. Qed.
Example stray_refuted : heap (trun stray 50 "f" (VInt 7) st0) 0 <> heap st0 0.
Proof. vm_compute. discriminate. Qed.

(* UNSAFE 2: the raw seed handed to two nested calls (re-seeding).  Still reproducible and the
   global generator is untouched, but an integer seed restarts the stream for the second call
   whereas a RandomState object continues it: clause (3) really fails.  Rejected. *)
Definition reseed : program :=
  [ ("g", (Seeded, Seq (GetRng "rng" ESeed) (DrawLocal "rng")));
    ("f", (Seeded, Seq (Call "g" ESeed) (Call "g" ESeed))) ].
Example reseed_rejected : seed_safe reseed "f" = false /\ seed_safe reseed "g" = true.
Proof. vm_compute. split; reflexivity. Qed.
Example reseed_refuted :
  observable (trun reseed 50 "f" (VInt 7) st0) <> observable (trun reseed 50 "f" (VObj 3) st0).
Proof. vm_compute. discriminate. Qed.

(* UNSAFE 3: a seeded routine calling a drawing routine without forwarding anything:
   clause (2) fails (the result depends on the global generator).  Rejected. *)
Definition forgot : program :=
  [ ("g", (Seeded, Seq (GetRng "rng" ESeed) (DrawLocal "rng")));
    ("f", (Seeded, Call "g" ENone)) ].
Example forgot_rejected : seed_safe forgot "f" = false.
Proof. vm_compute. reflexivity. Qed.
Example forgot_refuted :
  observable (trun forgot 50 "f" (VInt 7) st0) <> observable (trun forgot 50 "f" (VInt 7) st0').
Proof. vm_compute. discriminate. Qed.

(* the shape of bct.nbs_parallel: seeds for the tasks are drawn from THE rng, every task starts its own
   generator from its number ([perm] falls back to a number computed from its arguments when handed None:
   the rest of its body is the function [perm_rest]) *)
Definition par : program :=
  [ ("perm_rest", (Seeded, Seq (GetRng "rng" ESeed) (Choice (DrawLocal "rng") (Seq (DrawLocal "rng") (DrawLocal "rng")))));
    ("perm", (Seeded, Choice (Call "perm_rest" ESeed) (Call "perm_rest" EComputed)));
    ("nbs_par", (Seeded, Seq (GetRng "t" ESeed) (Seq (DrawLocal "t") (Loop (Call "perm" (EDrawn "t")))))) ].

Example par_safe : prog_safe par = true.
Proof. vm_compute. reflexivity. Qed.

(* two tasks: the first starts RandomState(0) (draws 0, 1), the second RandomState(4) (draws 400, 401: [perm]'s
   fall-back branch); the caller's stream 700.. is consumed once, before the loop; identical in another world,
   identical for the object RandomState(7), which is advanced by exactly that one draw; the global generator
   is untouched *)
Definition dec2 (h : list ev) : nat := nth (List.length h) [1;0;1;0;1;2;0;2;0;1;3;4;0;7;0;0;0;0] 0.
Definition trun2 := run_fn nat tnext trs (fun s => s) (fun s => s) dec2.
Example par_nonvacuous :
  observable (trun2 par 50 "nbs_par" (VInt 7) st0)
    = ([EDec 0; EDraw 401; EDec 0; EDraw 400; EDec 0; EDec 4; EDec 3; EDec 1; EDraw 1; EDec 2;
        EDraw 0; EDec 2; EDec 1; EDec 0; EDec 1; EDraw 700; EDec 1], Running)
  /\ observable (trun2 par 50 "nbs_par" (VInt 7) st0') = observable (trun2 par 50 "nbs_par" (VInt 7) st0)
  /\ observable (trun2 par 50 "nbs_par" (VObj 3) st0) = observable (trun2 par 50 "nbs_par" (VInt 7) st0)
  /\ heap (trun2 par 50 "nbs_par" (VInt 7) st0) 0 = 0 /\ heap (trun2 par 50 "nbs_par" (VObj 3) st0) 3 = 701.
Proof. vm_compute. repeat split. Qed.

(* UNSAFE 4: a value read from the environment (time.time(), hash of a str, np.empty, rng.seed()):
   clause (2) fails (two runs with equal arguments and seed differ).  Rejected. *)
Definition nondet : program :=
  [ ("f", (Seeded, Seq (GetRng "rng" ESeed) (Seq (DrawLocal "rng") NonDet))) ].
Example nondet_rejected : seed_safe nondet "f" = false.
Proof. vm_compute. reflexivity. Qed.
Example nondet_refuted :
  observable (trun nondet 50 "f" (VInt 7) st0) <> observable (trun nondet 50 "f" (VInt 7) st0').
Proof. vm_compute. discriminate. Qed.

(* UNSAFE 5: a sub-stream started from a computed number inside a routine WITHOUT a seed is not what [Pure]
   promises (the routine allocates a generator); a computed seed after the raw seed was consumed and no rng
   name is in scope is rejected as well.  (Rejections only: these are restrictions of the checker.) *)
Definition sub_in_pure : program :=
  [ ("g", (Seeded, Seq (GetRng "rng" ESeed) (DrawLocal "rng")));
    ("f", (Pure, Call "g" EComputed)) ].
Example sub_in_pure_rejected : seed_safe sub_in_pure "f" = false.
Proof. vm_compute. reflexivity. Qed.
End Toy.
