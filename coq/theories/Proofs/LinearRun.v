(* Proofs/LinearRun.v — the executable second oracle is tied to the theorems: whenever the run's own check of the
   solver's result passes (flag hyp = true), the vector / matrix it prints IS the one the defining equations determine,
   i.e. what ANY routine solving those equations (LAPACK included, up to rounding) must return.  The elimination
   `gauss_solve` itself is not verified and does not need to be. *)
From Coq Require Import QArith Qabs Qfield Lia Lqa Arith List Bool.
From BCT Require Import Base.Mat Base.SumQ Model.Linear Proofs.Linear Proofs.LinearFull Proofs.LinearMarkov Proofs.LinearDim Proofs.LinearExist.
Import ListNotations.
Open Scope Q_scope.

Lemma all_eq_spec n (f g : vec Q) : all_eq n f g = true <-> forall i, (i < n)%nat -> f i == g i.
Proof.
  unfold all_eq. rewrite forallb_forall. split.
  - intros H i Hi. apply Qeq_bool_iff. apply H. apply in_seq. lia.
  - intros H i Hi. apply in_seq in Hi. apply Qeq_bool_iff. apply H. lia.
Qed.

Lemma all_eq2_spec n (F G : mat Q) : all_eq2 n F G = true <-> forall i j, (i < n)%nat -> (j < n)%nat -> F i j == G i j.
Proof.
  unfold all_eq2. rewrite forallb_forall. split.
  - intros H i j Hi Hj. apply (proj1 (all_eq_spec n (F i) (G i))); [|exact Hj]. apply H. apply in_seq. lia.
  - intros H i Hi. apply in_seq in Hi. apply all_eq_spec. intros j Hj. apply H; lia.
Qed.

Lemma nth_redv n (f : vec Q) i : (i < n)%nat -> nth i (redv n f) 0 == f i.
Proof. intros Hi. unfold redv. rewrite (nth_to_list 0 n _ i Hi). apply Qred_correct. Qed.

Lemma nth_redm n (F : mat Q) i j : (i < n)%nat -> (j < n)%nat -> nth j (nth i (redm n F) []) 0 == F i j.
Proof.
  intros Hi Hj. change (tab 0 n n (fun i j => Qred (F i j)) i j == F i j). rewrite (tab_spec 0 n n _ i j Hi Hj). apply Qred_correct.
Qed.

Theorem run_pagerank_c_sound (A : list (list Q)) (d : Q) (falff : option (list Q)) eqn r s dg :
  let n := length A in
  let f := pr_prior n (match falff with None => None | Some g => Some (qv g) end) in
  run_pagerank_c A d falff = Some (true, eqn, r, s, dg) ->
  0 <= d -> d < 1 -> (forall i j, (i < n)%nat -> (j < n)%nat -> 0 <= qm A i j) ->
  forall r', (forall i, (i < n)%nat -> mvecQ n (pr_B n (qm A) d) r' i == pr_b d f i) ->
  forall i, (i < n)%nat -> nth i r 0 == pr_norm n r' i.
Proof.
  intros n f Hrun Hd0 Hd1 HA r' Hr' i Hi. unfold run_pagerank_c in Hrun. fold n in Hrun.
  destruct (gauss_solve n 1 _ _) as [r1|] eqn:EG; [|discriminate].
  set (rv := tabv 0 n (fun i => r1 i O)) in *.
  inversion Hrun as [[Hhyp Heqn Hr Hs Hdg]]. clear Hrun Heqn Hs Hdg.
  pose proof (proj1 (all_eq_spec _ _ _) Hhyp) as Hh. clear Hhyp. rename Hh into Hhyp.
  assert (Hrv : forall k, (k < n)%nat -> mvecQ n (pr_B n (qm A) d) rv k == pr_b d f k).
  { intros k Hk. specialize (Hhyp k Hk). unfold pr_b in *. rewrite (tabv_spec 0 n _ k Hk) in Hhyp. fold f in Hhyp.
    rewrite <- Hhyp. unfold mvecQ. apply sumQ_ext. intros j Hj.
    rewrite (tab_spec 0 n n _ k j Hk Hj). rewrite (tab_spec 0 n n _ k j Hk Hj). reflexivity. }
  pose proof (pagerank_unique n (qm A) d (pr_b d f) rv r' Hd0 Hd1 HA Hrv Hr') as HU.
  rewrite (nth_redv n _ i Hi). rewrite (tabv_spec 0 n _ i Hi). unfold pr_norm.
  rewrite (HU i Hi). rewrite (sumQ_ext rv r' n HU). reflexivity.
Qed.

Theorem run_mfpt_c_sound (A : list (list Q)) eqn M E g :
  let n := length A in
  let P := transP n (qm A) in
  run_mfpt_c A = Some (true, eqn, M, E, g) ->
  (2 <= n)%nat -> (forall i j, (i < n)%nat -> (j < n)%nat -> 0 <= qm A i j) -> irreducible n (qm A) ->
  forall (w : vec Q) (Z : mat Q),
    stationary n P w -> sumQ w n == 1 ->
    (forall i j, (i < n)%nat -> (j < n)%nat -> mmulQ n (fundA P w) Z i j == delta i j) ->
  (forall i j, (i < n)%nat -> (j < n)%nat ->
     nth j (nth i M []) 0 == mfpt w Z i j /\ nth j (nth i E []) 0 == ediff (mfpt w Z) i j) /\
  g == gediff n (ediff (mfpt w Z)).
Proof.
  intros n P Hrun Hn HA Hirr w Z Hs H1 HZ. unfold run_mfpt_c in Hrun. fold n in Hrun.
  destruct (gauss_solve n 1 _ _) as [w1|] eqn:EG1; [|discriminate].
  destruct (gauss_solve n n _ _) as [Z0|] eqn:EG2; [|discriminate].
  unfold run_mfpt in Hrun. fold n in Hrun.
  set (wl := to_list n (fun i => w1 i O)) in *.
  set (Pt := tab 0 n n (transP n (qm A))) in *.
  set (wv := qv wl) in *. set (Zm := qm (to_rows n n Z0)) in *.
  injection Hrun as Hhyp Heqn HM HE Hg. clear Heqn. rewrite <- HM, <- HE, <- Hg. clear HM HE Hg.
  apply andb_true_iff in Hhyp. destruct Hhyp as [Hhyp _].
  apply andb_true_iff in Hhyp. destruct Hhyp as [Hhyp H3].
  apply andb_true_iff in Hhyp. destruct Hhyp as [H1' H2'].
  pose proof (proj1 (all_eq_spec _ _ _) H1') as S1. pose proof (proj1 (all_eq2_spec _ _ _) H3) as S3.
  apply Qeq_bool_iff in H2'.
  assert (HPt : forall i j, (i < n)%nat -> (j < n)%nat -> Pt i j = P i j) by (intros; apply tab_spec; assumption).
  assert (Hin : mfpt_inputs n (qm A) wv Zm).
  { split; [|split; [exact H2'|]].
    - intros j Hj. rewrite <- (S1 j Hj). apply sumQ_ext. intros i Hi. rewrite (HPt i j Hi Hj). reflexivity.
    - intros i j Hi Hj. rewrite <- (S3 i j Hi Hj). unfold mmulQ. apply sumQ_ext. intros k Hk.
      unfold fundA. rewrite (HPt i k Hi Hk). reflexivity. }
  assert (Hn0 : (0 < n)%nat) by lia.
  pose proof (irreducible_rowsum_pos n (qm A) Hn HA Hirr) as Hrow.
  assert (Hd : mfpt_inputs n (qm A) w Z) by (split; [exact Hs|split; [exact H1|exact HZ]]).
  destruct (mfpt_connected n (qm A) HA Hrow Hirr w Z Hd) as (_ & _ & _ & _ & _ & HU).
  specialize (HU wv Zm Hin).
  assert (HMm : forall i j, (i < n)%nat -> (j < n)%nat -> tab 0 n n (mfpt wv Zm) i j == mfpt w Z i j).
  { intros i j Hi Hj. rewrite (tab_spec 0 n n _ i j Hi Hj). apply HU; assumption. }
  assert (HEe : forall i j, (i < n)%nat -> (j < n)%nat ->
            tab 0 n n (ediff (tab 0 n n (mfpt wv Zm))) i j == ediff (mfpt w Z) i j).
  { intros i j Hi Hj. rewrite (tab_spec 0 n n _ i j Hi Hj). unfold ediff. destruct (Nat.eqb i j); [reflexivity|].
    rewrite (HMm i j Hi Hj). reflexivity. }
  split.
  - intros i j Hi Hj. split.
    + rewrite (nth_redm n _ i j Hi Hj). apply HMm; assumption.
    + rewrite (nth_redm n _ i j Hi Hj). apply HEe; assumption.
  - change (Qred (gediff n (tab 0 n n (ediff (tab 0 n n (mfpt wv Zm))))) == gediff n (ediff (mfpt w Z))).
    rewrite Qred_correct. unfold gediff. rewrite (sum2Q_ext _ (ediff (mfpt w Z)) n HEe). reflexivity.
Qed.
