(* Proofs/DistanceAgree.v — totality of distance_wei (and of the efficiency wrappers); breadthdist / reachdist in
   the generic "minimum over all walks" form; agreement of ALL five routines on a binary matrix. *)
From Coq Require Import QArith List Arith Bool ZArith Lia Lqa.
From BCT Require Import Base.Mat Base.ListX Model.Distance Proofs.DistanceBase Proofs.DistanceFloyd Proofs.DistanceBin
  Proofs.DistanceOther Proofs.DistanceReach Proofs.DistanceWei Proofs.DistanceFull Proofs.DistanceBFS.
Import ListNotations.
Open Scope Q_scope.

(* ====================== totality of distance_wei ====================== *)
Lemma fold_omin_in l : forall a, fold_left omin l a = a \/ In (fold_left omin l a) l.
Proof.
  induction l as [|b r IH]; intros a; cbn [fold_left]; [left; reflexivity|].
  destruct (IH (omin a b)) as [E|Hin]; [|right; right; exact Hin].
  rewrite E. unfold omin. destruct (oltb b a); [right; left; reflexivity|left; reflexivity].
Qed.

Lemma filter_length_lt_in {A} (f g : A -> bool) l u :
  (forall x, In x l -> g x = true -> f x = true) -> In u l -> f u = true -> g u = false ->
  (length (filter g l) < length (filter f l))%nat.
Proof.
  induction l as [|a r IH]; intros Hgf Hin Hf Hg; [destruct Hin|].
  assert (Hgf' : forall x, In x r -> g x = true -> f x = true) by (intros x Hx; apply Hgf; right; exact Hx).
  assert (Hle : (length (filter g r) <= length (filter f r))%nat).
  { clear IH Hin. induction r as [|b r IHr]; cbn [filter length]; [lia|].
    assert (IHr' : (length (filter g r) <= length (filter f r))%nat).
    { apply IHr; intros x Hx; [apply Hgf; destruct Hx as [->|Hx]; [left; reflexivity|right; right; exact Hx]|apply Hgf'; right; exact Hx]. }
    destruct (g b) eqn:Eg; [rewrite (Hgf' b (or_introl eq_refl) Eg); cbn [length]; lia|]. destruct (f b); cbn [length]; lia. }
  cbn [filter]. destruct Hin as [->|Hin].
  - rewrite Hf, Hg. cbn [length]. lia.
  - specialize (IH Hgf' Hin Hf Hg). destruct (g a) eqn:Eg; [rewrite (Hgf a (or_introl eq_refl) Eg); cbn [length]; lia|].
    destruct (f a); cbn [length]; lia.
Qed.

(* every round makes at least one temporary node permanent (V always contains one), so n rounds suffice *)
Lemma dw_loop_total n G fuel : forall S DB V,
  (exists v, In v V /\ (v < n)%nat /\ S v = true) ->
  (length (filter S (seq 0 n)) <= fuel)%nat ->
  exists R, dw_loop fuel n G S DB V = Some R.
Proof.
  induction fuel as [|f IH]; intros S DB V [v [HvV [Hvn HSv]]] Hf.
  - exfalso. assert (Hin : In v (filter S (seq 0 n))) by (apply filter_In; split; [apply in_seq; lia|exact HSv]).
    destruct (filter S (seq 0 n)); [destruct Hin|cbn [length] in Hf; lia].
  - cbn [dw_loop].
    set (S1 := tabv false n (fun w => (S w && negb (nmem w V))%bool)).
    set (DB1 := fold_left (dw_relax n G S1) V DB).
    assert (Hlt : (length (filter S1 (seq 0 n)) < length (filter S (seq 0 n)))%nat).
    { apply (filter_length_lt_in S S1 (seq 0 n) v).
      - intros x Hx. apply in_seq in Hx. unfold S1. rewrite tabv_spec by lia. intros H. apply andb_true_iff in H. tauto.
      - apply in_seq. lia.
      - exact HSv.
      - unfold S1. rewrite tabv_spec by exact Hvn. apply nmem_In in HvV. rewrite HvV. apply andb_false_r. }
    destruct (filter S1 (seq 0 n)) as [|t ts] eqn:Et; [eexists; reflexivity|].
    destruct (fold_left omin (map (fst DB1) (t :: ts)) None) as [m|] eqn:Em; [|eexists; reflexivity].
    apply IH; [|rewrite Et; lia].
    destruct (fold_omin_in (map (fst DB1) (t :: ts)) None) as [E|Hin]; [rewrite Em in E; discriminate|].
    rewrite Em in Hin. apply in_map_iff in Hin. destruct Hin as [z [Ez Hz]].
    rewrite <- Et in Hz. apply filter_In in Hz. destruct Hz as [Hz HSz]. apply in_seq in Hz.
    exists z. split; [|split; [lia|exact HSz]].
    apply filter_In. split; [apply in_seq; lia|]. rewrite Ez. cbn [oeqb]. apply Qeq_bool_iff. reflexivity.
Qed.

Theorem distance_wei_total n G : exists DB, distance_wei n G = Some DB.
Proof.
  unfold distance_wei.
  destruct (all_some_total (dw_row n G) (seq 0 n)) as [rows ->]; [|eexists; reflexivity].
  intros i Hi. apply in_seq in Hi. unfold dw_row. apply dw_loop_total.
  - exists i. split; [left; reflexivity|]. split; [lia|reflexivity].
  - pose proof (filter_length_le (fun _ : nat => true) (seq 0 n)) as H. rewrite seq_length in H. lia.
Qed.

Theorem efficiency_bin_total n A : exists e, efficiency_bin n A = Some e.
Proof. unfold efficiency_bin. destruct (distance_bin_total n A) as [D ->]. eexists; reflexivity. Qed.
Theorem efficiency_wei_total n W : exists e, efficiency_wei n W = Some e.
Proof. unfold efficiency_wei. destruct (distance_wei_total n (invertQ W)) as [[D B] ->]. eexists; reflexivity. Qed.

(* ====================== breadthdist in the generic form ====================== *)
Theorem breadthdist_dist_correct n C R D : breadthdist n C = Some (R, D) ->
  (forall i j, (i < n)%nat -> (j < n)%nat -> is_min_dist n (Lbin C) i j (olen_of_nat (D i j))) /\
  (forall i j, (i < n)%nat -> (j < n)%nat -> (R i j = true <-> reachable n (Lbin C) i j)).
Proof.
  intros Hrun. split; intros i j Hi Hj; destruct (breadthdist_correct n C R D Hrun i j Hi Hj) as [Hb [Hsd [Hnone HR]]].
  - destruct (D i j) as [d|] eqn:Ed; cbn [olen_of_nat].
    + apply (sd_min_dist n C i j d). apply Hsd. reflexivity.
    + apply nowalk_min_dist. apply Hnone. reflexivity.
  - rewrite HR, reachable_hasw. split.
    + intros Hfin. destruct (D i j) as [d|] eqn:Ed; [|congruence]. exists d. apply (Hsd d). reflexivity.
    + intros [e W] Hn. exact (proj1 Hnone Hn e W).
Qed.

(* ====================== agreement ====================== *)
Lemma nq_inj a b : nq a == nq b -> a = b.
Proof. unfold nq, Qeq, inject_Z. cbn [Qnum Qden]. lia. Qed.
Lemma olen_of_nat_inj a b : oeq (olen_of_nat a) (olen_of_nat b) -> a = b.
Proof. destruct a, b; cbn; intros H; try tauto. apply nq_inj in H. congruence. Qed.

(* breadthdist and reachdist return the same matrices, diagonal included (both: shortest cycle / infinity there) *)
Theorem agree_breadth_reach n A Rb Db Rr Dr : breadthdist n A = Some (Rb, Db) -> reachdist n A = Some (Rr, Dr) ->
  forall i j, (i < n)%nat -> (j < n)%nat -> Dr i j = option_map Z.of_nat (Db i j) /\ Rb i j = Rr i j.
Proof.
  intros Hb Hr i j Hi Hj.
  destruct (breadthdist_correct n A Rb Db Hb i j Hi Hj) as [_ [Hsd [Hnone HR]]].
  destruct (reachdist_correct n A Rr Dr Hr i j Hi Hj) as [_ [Hsd' [Hnone' HR']]].
  assert (E : Dr i j = option_map Z.of_nat (Db i j)).
  { destruct (Db i j) as [k|] eqn:Ek; cbn [option_map].
    - apply Hsd'. apply Hsd. reflexivity.
    - apply Hnone'. apply Hnone. reflexivity. }
  split; [exact E|].
  assert (Hiff : Rb i j = true <-> Rr i j = true).
  { rewrite HR, HR', E. destruct (Db i j); cbn [option_map]; split; congruence. }
  destruct (Rb i j), (Rr i j); try reflexivity.
  - destruct Hiff as [H _]. discriminate (H eq_refl).
  - destruct Hiff as [_ H]. discriminate (H eq_refl).
Qed.

(* the 0/1 matrix as distance_wei sees it *)
Definition Gbin (A : mat Z) : mat Q := fun i j => if Z.eqb (A i j) 0 then 0 else 1.
Lemma Lg_Gbin A i j : Lg (Gbin A) i j = Lbin A i j.
Proof. unfold Lg, Gbin, Lbin. destruct (A i j =? 0)%Z; reflexivity. Qed.
Lemma wl_ext L L' : (forall i j, L i j = L' i j) -> forall mid i j, wl L i mid j = wl L' i mid j.
Proof. intros E mid. induction mid as [|m r IH]; intros i j; cbn [wl]; [apply E|]. rewrite E, IH. reflexivity. Qed.
Lemma is_min_dist_ext n L L' i j d : (forall i j, L i j = L' i j) -> is_min_dist n L i j d -> is_min_dist n L' i j d.
Proof.
  intros E. destruct d as [x|]; cbn [is_min_dist].
  - intros [[mid [B [y [W Ey]]]] Hmin]. split.
    + exists mid. split; [exact B|]. exists y. split; [rewrite <- (wl_ext L L' E); exact W|exact Ey].
    + intros mid' y' B' W'. apply (Hmin mid' y' B'). rewrite (wl_ext L L' E). exact W'.
  - intros H mid B. rewrite <- (wl_ext L L' E). apply H. exact B.
Qed.

(* ALL five routines on the same binary matrix: every one equals distance_bin off the diagonal (hence every pair
   agrees), the two reach flags are equal and true exactly on finite entries, and the edge-count outputs of
   distance_wei and distance_wei_floyd equal the distance *)
Theorem agree_binary_all n A Dbin Rb Db Rr Dr Dw Bw :
  distance_bin n A = Some Dbin -> breadthdist n A = Some (Rb, Db) -> reachdist n A = Some (Rr, Dr) ->
  distance_wei n (Gbin A) = Some (Dw, Bw) ->
  forall i j, (i < n)%nat -> (j < n)%nat -> i <> j ->
    Db i j = Dbin i j /\
    Dr i j = option_map Z.of_nat (Dbin i j) /\
    oeq (Dw i j) (olen_of_nat (Dbin i j)) /\
    oeq (spl (floyd n (Lbin A)) i j) (olen_of_nat (Dbin i j)) /\
    Rb i j = Rr i j /\ (Rb i j = true <-> Dbin i j <> None) /\
    (forall k, Dbin i j = Some k -> Bw i j = k /\ hops (floyd n (Lbin A)) i j = k).
Proof.
  intros Hbin Hb Hr Hw i j Hi Hj Hne.
  pose proof (distance_bin_correct n A Dbin Hbin i j Hi Hj Hne) as Mbin. cbv beta in Mbin.
  pose proof (proj1 (breadthdist_dist_correct n A Rb Db Hb) i j Hi Hj) as Mb.
  destruct (agree_breadth_reach n A Rb Db Rr Dr Hb Hr i j Hi Hj) as [Ebr ERR].
  assert (HGpos : forall a b, (a < n)%nat -> (b < n)%nat -> 0 <= Gbin A a b).
  { intros a b _ _. unfold Gbin. destruct (A a b =? 0)%Z; lra. }
  destruct (distance_wei_correct n (Gbin A) Dw Bw HGpos Hw) as [Mw [HB _]].
  assert (Mw' : is_min_dist n (Lbin A) i j (Dw i j)).
  { apply (is_min_dist_ext n (Lg (Gbin A))); [apply Lg_Gbin|apply Mw; assumption]. }
  assert (E1 : Db i j = Dbin i j) by (apply olen_of_nat_inj; apply (is_min_dist_unique n (Lbin A) i j); assumption).
  assert (Ew : oeq (Dw i j) (olen_of_nat (Dbin i j))) by (apply (is_min_dist_unique n (Lbin A) i j); assumption).
  pose proof (agree_floyd_bin n A Dbin Hbin i j Hi Hj Hne) as Ef.
  split; [exact E1|]. split; [rewrite Ebr, E1; reflexivity|]. split; [exact Ew|]. split; [exact Ef|].
  split; [exact ERR|]. split.
  - rewrite <- E1. apply (breadthdist_reach_flag n A Rb Db Hb).
  - intros k Ek. rewrite Ek in Ew, Ef. cbn [olen_of_nat] in Ew, Ef. split.
    + destruct (Dw i j) as [x|] eqn:Ex; [|cbn in Ew; contradiction]. cbn in Ew.
      destruct (HB i j x Hi Hj Hne Ex) as [mid [Bm [Hl W]]].
      rewrite (wl_ext _ _ (Lg_Gbin A)) in W. pose proof (wl_bin A mid i j) as W'.
      destruct (wl (Lbin A) i mid j) as [y|]; [|cbn in W; contradiction]. cbn in W. destruct W' as [_ Ey].
      transitivity (S (length mid)); [symmetry; exact Hl|]. apply nq_inj. rewrite <- Ey, W, Ew. reflexivity.
    + destruct (spl (floyd n (Lbin A)) i j) as [x|] eqn:Ex; [|cbn in Ef; contradiction]. cbn in Ef.
      destruct (floyd_hops_min_path n (Lbin A) (Lbin_nonneg n A) i j x Hi Hj Hne Ex) as [mid [Bm [Hl W]]].
      pose proof (wl_bin A mid i j) as W'.
      destruct (wl (Lbin A) i mid j) as [y|]; [|cbn in W; contradiction]. cbn in W. destruct W' as [_ Ey].
      transitivity (S (length mid)); [symmetry; exact Hl|]. apply nq_inj. rewrite <- Ey, W, Ef. reflexivity.
Qed.
