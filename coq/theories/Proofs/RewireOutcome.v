(* Proofs/RewireOutcome.v — which ending a call takes (Model/Rewire.v: outcome), as far as it is decided by the
   input alone: zero requested rewirings, or no edge at all, always RETURN the (re-indexed) input — the code's
   `itr *= k; for it in range(itr)` then has nothing to do — and n < 2 raises (ZeroDivisionError of max_attempts). *)
From Coq Require Import ZArith List Arith Bool Lia QArith.
From BCT Require Import Base.Mat Base.ListX Model.Components Model.Rewire Proofs.RewireSwap Proofs.RewireInv Proofs.RewireRun Proofs.RewireDiag.
Import ListNotations.
Open Scope Z_scope.

Lemma init_state_k src n R : snd (init_state src n R) = count_edges src n R.
Proof. reflexivity. Qed.
Lemma init_state_R src n R : sR (fst (init_state src n R)) = R.
Proof. reflexivity. Qed.

Lemma iterate_zero v k ma itr st s tr : (itr = O \/ k = O) -> iterate v k ma (itr * k) st s tr = Some (st, s, tr).
Proof. intros [->| ->]; [reflexivity|apply iterate_k0]. Qed.

(* the six routines without a permutation *)
Theorem run_nothing_to_do r n R0 itr D s0 :
  is_latt r = false -> precheck r n R0 = true -> (2 <= n)%nat ->
  (itr = O \/ count_edges (if is_und r then ELtril else ELall) n R0 = O) ->
  exists res, run_routine r n R0 itr D s0 = Done res /\
    r_out res = R0 /\ r_rp res = R0 /\ r_eff res = O /\ r_trace res = [] /\ r_left res = length s0.
Proof.
  intros L Pc Hn Hz. unfold run_routine. rewrite Pc, L. cbn [negb].
  destruct (init_state (if is_und r then ELtril else ELall) n R0) as [st0 k] eqn:Ei.
  assert (Ek: k = count_edges (if is_und r then ELtril else ELall) n R0) by (rewrite <- init_state_k, Ei; reflexivity).
  assert (ER: sR st0 = R0) by (rewrite <- (init_state_R (if is_und r then ELtril else ELall) n R0), Ei; reflexivity).
  destruct (Nat.ltb n 2) eqn:En; [apply Nat.ltb_lt in En; lia|].
  rewrite iterate_zero by (rewrite Ek; exact Hz).
  eexists. split; [reflexivity|]. cbn [r_out r_rp r_eff r_trace r_left length]. rewrite ER. auto.
Qed.

(* the four latticisers: the permutation is drawn first, the result is the permuted input put back *)
Theorem run_nothing_to_do_latt r n R0 itr D p s1 :
  is_latt r = true -> precheck r n R0 = true -> (2 <= n)%nat ->
  let R1 := tab 0 n n (conj_perm (of_list O p) R0) in
  (itr = O \/ count_edges (if is_und r then ELtril else ELall) n R1 = O) ->
  exists res, run_routine r n R0 itr D (DPerm p :: s1) = Done res /\
    r_rp res = R1 /\ r_perm res = p /\ r_eff res = O /\ r_trace res = [] /\ r_left res = length s1 /\
    r_out res = (fun x y => R1 (index_of x p) (index_of y p)).
Proof.
  intros L Pc Hn R1 Hz. unfold run_routine. rewrite Pc, L. cbn [negb]. fold R1.
  destruct (init_state (if is_und r then ELtril else ELall) n R1) as [st0 k] eqn:Ei.
  assert (Ek: k = count_edges (if is_und r then ELtril else ELall) n R1) by (rewrite <- init_state_k, Ei; reflexivity).
  assert (ER: sR st0 = R1) by (rewrite <- (init_state_R (if is_und r then ELtril else ELall) n R1), Ei; reflexivity).
  destruct (Nat.ltb n 2) eqn:En; [apply Nat.ltb_lt in En; lia|].
  rewrite iterate_zero by (rewrite Ek; exact Hz).
  eexists. split; [reflexivity|]. cbn [r_out r_rp r_perm r_eff r_trace r_left length]. rewrite ER. auto 10.
Qed.

(* fewer than two nodes: the code divides by n * (n - 1) *)
Theorem run_small_raises r n R0 itr D s0 :
  (n < 2)%nat -> precheck r n R0 = true -> is_latt r = false -> run_routine r n R0 itr D s0 = Raises.
Proof.
  intros Hn Pc L. unfold run_routine. rewrite Pc, L. cbn [negb].
  destruct (init_state _ n R0) as [st0 k]. apply Nat.ltb_lt in Hn. rewrite Hn. reflexivity.
Qed.

(* a call that returns had at least two nodes and passed the checks *)
Theorem run_done_inv r n R0 itr D s0 res :
  run_routine r n R0 itr D s0 = Done res -> precheck r n R0 = true /\ (2 <= n)%nat.
Proof.
  intros H. destruct (run_routine_unfold _ _ _ _ _ _ _ H) as (s1 & st0 & k & stf & s2 & Pc & _ & _ & Hn & _). auto.
Qed.

(* randomize_graph_partial_und: maxswap = 0 returns the input; no edge and maxswap > 0 raises *)
Theorem run_partial_nothing_to_do n A B s0 :
  exists res, run_partial_und n A B 0 s0 = Done res /\ r_out res = A /\ r_trace res = [] /\ r_left res = length s0.
Proof.
  unfold run_partial_und. destruct (init_state ELtriu1 n A) as [st0 k] eqn:Ei.
  assert (ER: sR st0 = A) by (rewrite <- (init_state_R ELtriu1 n A), Ei; reflexivity).
  rewrite Nat.eqb_refl, andb_false_r.
  replace (until_swaps (mkvar true (mask_guard B)) k (length s0) 0 st0 s0 []) with (Some (st0, s0, @nil event))
    by (destruct (length s0); reflexivity).
  eexists. split; [reflexivity|]. cbn [r_out r_trace r_left length]. rewrite ER. auto.
Qed.
Theorem run_partial_no_edge_raises n A B maxswap s0 :
  count_edges ELtriu1 n A = O -> maxswap <> O -> run_partial_und n A B maxswap s0 = Raises.
Proof.
  intros Hk Hm. unfold run_partial_und. destruct (init_state ELtriu1 n A) as [st0 k] eqn:Ei.
  assert (Ek: k = count_edges ELtriu1 n A) by (rewrite <- init_state_k, Ei; reflexivity).
  rewrite Ek, Hk. apply Nat.eqb_neq in Hm. rewrite Hm. reflexivity.
Qed.

(* randomize_graph_partial_und in the caller's vocabulary (what Good/Same say, spelled out); the diagonal is carried over *)
Theorem run_partial_caller n A B maxswap s0 res :
  run_partial_und n A B maxswap s0 = Done res ->
  (forall x y, A x y = A y x) ->
  (forall x, outdeg n (r_out res) x = outdeg n A x) /\
  (forall y, indeg n (r_out res) y = indeg n A y) /\
  (forall w, wcount n (r_out res) w = wcount n A w) /\
  (forall x, r_out res x x = A x x) /\
  (forall x y, r_out res x y = r_out res y x) /\
  (maxswap = O -> r_out res = A).
Proof.
  intros H Hs.
  destruct (run_partial_good _ _ _ _ _ _ H Hs) as (k & st & Eo & [HI HS] & _ & Hz).
  destruct (run_partial_diag _ _ _ _ _ _ H Hs) as [Hdg _].
  destruct HS as [S1 S2 S3 S4 S5].
  split; [rewrite Eo; exact S1|]. split; [rewrite Eo; exact S2|]. split; [rewrite Eo; exact S3|].
  split; [exact Hdg|].
  split; [rewrite Eo; intros x y; apply (inv_sym _ _ _ _ HI eq_refl)|].
  exact Hz.
Qed.
