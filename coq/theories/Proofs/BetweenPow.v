(* Proofs/BetweenPow.v — betweenness_bin (matrix-power algorithm), in FULL.
   Forward phase: NSPd holds the numbers of minimum-length walks of exactly d connections, NPd = NSPd_(d-1) . G the
   numbers of d-walks whose first d-1 connections are a minimum-length walk (`NPd = np.dot(NSPd, G)`: only
   minimum-length walks are extended; on the entries that `* (L == 0)` keeps this is the entry of the d-th power of G,
   ext_shortest), NSP / L the numbers of minimum-length walks / the distances found so far (matrix-power induction);
   the loop ends within n+1 rounds with L = dist_spec and NSP = sigma.
   Back-propagation: pass d completes the dependencies DP[i,j] of the nodes j at distance d-1 from i (Brandes'
   recursion over the tight connections), so that finally DP[i,j] = delta_i(j) and the column sums are BC_spec. *)
From Coq Require Import QArith Qring Qfield Lia Lqa List Arith Bool ZArith Permutation.
From BCT Require Import Base.Mat Base.SumQ Base.ListX Model.Between
  Proofs.BetweenAccum Proofs.BetweenReady Proofs.BetweenQueue Proofs.BetweenBin Proofs.BetweenSpec Proofs.BetweenPaths
  Proofs.BetweenTight Proofs.BetweenLast Proofs.BetweenCount Proofs.BetweenFull Proofs.BetweenBfs.
Import ListNotations.
Open Scope Z_scope.

(* ---------- facts about the specification ---------- *)
Lemma dist_edge_le n G u v j e : nonneg_len n G -> (j < n)%nat -> dist_spec n G u v = Some e -> G v j <> 0 ->
  exists e', dist_spec n G u j = Some e' /\ e' <= e + G v j.
Proof.
  intros HG Hj Ev Hg.
  assert (Hpv : exists p, In p (spaths n G u v)).
  { unfold dist_spec in Ev. destruct (spaths n G u v) as [|p L]; [discriminate|]. exists p. left; reflexivity. }
  destruct Hpv as (p & Hp). destruct (spaths_wft n G u v p Hp) as [Hw _].
  destruct (walk_snoc n G u v j p Hw Hj Hg) as [H1 H2].
  rewrite (dist_spec_of_In n G u v p Hp) in Ev. inversion Ev as [Hlen].
  pose proof (dist_spec_correct n G u j HG) as Hd. destruct (dist_spec n G u j) as [dj|].
  - destruct Hd as [_ Hmin]. specialize (Hmin _ H1). exists dj. split; [reflexivity|lia].
  - exfalso. apply Hd. exists (p ++ [j]). exact H1.
Qed.

Lemma sigma_self n G u : nonneg_len n G -> (u < n)%nat -> sigma n G u u = 1.
Proof.
  intros HG Hu. rewrite (sigma_last n G u u HG Hu Hu), Nat.eqb_refl.
  rewrite (sumn_ext _ (fun _ => 0)); [rewrite sumn_zero; reflexivity|].
  intros v Hv. rewrite (tightb_source n G u v HG Hu Hv). reflexivity.
Qed.

Lemma sigma_pos n G u x e : dist_spec n G u x = Some e -> 0 < sigma n G u x.
Proof.
  unfold dist_spec, sigma, zlen. destruct (spaths n G u x); [discriminate|]. intros _. cbn [length]. lia.
Qed.
Lemma sigma_unreach n G u x : dist_spec n G u x = None -> sigma n G u x = 0.
Proof. unfold dist_spec, sigma, zlen. destruct (spaths n G u x); [reflexivity|discriminate]. Qed.

Lemma dist_lt_n n G u x e : binary n G -> dist_spec n G u x = Some e -> e < Z.of_nat n.
Proof.
  intros HB E. unfold dist_spec in E. destruct (spaths n G u x) as [|p L] eqn:Es; [discriminate|].
  assert (Hp : In p (spaths n G u x)) by (rewrite Es; left; reflexivity). inversion E; subst e.
  destruct (spaths_wft n G u x p Hp) as [Hw Hc]. apply wft_iff in Hw. destruct Hw as (_ & _ & Hi & Ho).
  apply cands_In in Hc. rewrite (wlen_bin n G p HB Hi Ho). lia.
Qed.

(* ---------- matrix powers count minimum-length walks ---------- *)
Definition idm : mat Z := fun i j => b2z (Nat.eqb i j).
Fixpoint mpow (n : nat) (G : mat Z) (d : nat) : mat Z :=
  match d with O => idm | S d' => mmulZ n (mpow n G d') G end.

Lemma pow_sigma n G : binary n G -> forall dn i j, (i < n)%nat -> (j < n)%nat ->
  ((dist_spec n G i j = None \/ exists e, dist_spec n G i j = Some e /\ Z.of_nat dn < e) -> mpow n G dn i j = 0) /\
  (dist_spec n G i j = Some (Z.of_nat dn) -> mpow n G dn i j = sigma n G i j).
Proof.
  intros HB. pose proof (binary_nonneg n G HB) as HG.
  induction dn as [|dn IH]; intros i j Hi Hj.
  - cbn [mpow]. unfold idm. split.
    + intros H. destruct (Nat.eqb_spec i j) as [<-|]; [|reflexivity]. exfalso.
      rewrite (dist_self n G i HG Hi) in H. destruct H as [H|(e & H & Hlt)]; [discriminate|]. inversion H. lia.
    + intros E. pose proof (dist_zero_source n G i j HG E). subst j. rewrite Nat.eqb_refl. symmetry. apply sigma_self; assumption.
  - cbn [mpow]. unfold mmulZ. split.
    + intros H. rewrite (sumn_ext _ (fun _ => 0)); [apply sumn_zero|]. intros v Hv.
      destruct (Z.eq_dec (G v j) 0) as [->|Hg]; [lia|].
      rewrite (proj1 (IH i v Hi Hv)); [lia|].
      destruct (dist_spec n G i v) as [e|] eqn:Ev; [|left; reflexivity]. right. exists e. split; [reflexivity|].
      destruct (dist_edge_le n G i v j e HG Hj Ev Hg) as (e' & E' & Hle).
      destruct (HB v j Hv Hj) as [H0|H1]; [contradiction|].
      destruct H as [H|(e2 & H & Hlt)]; [congruence|]. assert (e2 = e') by congruence. lia.
    + intros E. assert (Hji : j <> i).
      { intros ->. rewrite (dist_self n G i HG Hi) in E. injection E as E'. lia. }
      rewrite (sigma_last n G i j HG Hi Hj). destruct (Nat.eqb_spec j i); [contradiction|]. rewrite Z.add_0_l.
      apply sumn_ext. intros v Hv. destruct (tightb n G i v j) eqn:Et.
      * destruct (tightb_bin n G i v j HB Hv Hj Et) as (Hg1 & dv & E1 & E2). rewrite E in E2. inversion E2.
        assert (dv = Z.of_nat dn) by lia. subst dv. rewrite (proj2 (IH i v Hi Hv) E1), Hg1. lia.
      * destruct (Z.eq_dec (G v j) 0) as [->|Hg]; [lia|]. destruct (HB v j Hv Hj) as [H0|H1]; [contradiction|].
        rewrite (proj1 (IH i v Hi Hv)); [lia|].
        destruct (dist_spec n G i v) as [e|] eqn:Ev; [|left; reflexivity]. right. exists e. split; [reflexivity|].
        destruct (dist_edge_le n G i v j e HG Hj Ev Hg) as (e' & E' & Hle). rewrite E in E'. inversion E'.
        destruct (Z.eq_dec e (Z.of_nat dn)) as [->|Hne]; [|lia]. exfalso.
        assert (tightb n G i v j = true); [|congruence]. apply tightb_true.
        split; [unfold edge; apply negb_true_iff, Z.eqb_neq; exact Hg|]. exists (Z.of_nat dn). split; [exact Ev|].
        rewrite E, H1. f_equal. lia.
Qed.

(* ---------- the forward loop ---------- *)
Section Forward.
Variables (n : nat) (G : mat Z).
Hypothesis HB : binary n G.
Let G0 := tab 0 n n G.

Definition NSPd_spec (d : Z) (i j : nat) : Z :=
  match dist_spec n G i j with Some e => if Z.eqb e d then sigma n G i j else 0 | None => 0 end.
Definition L_spec (d : Z) (i j : nat) : Z :=
  if Nat.eqb i j then 1 else match dist_spec n G i j with Some e => if Z.leb e d then e else 0 | None => 0 end.
Definition NSP_spec (d : Z) (i j : nat) : Z :=
  if Nat.eqb i j then 1 else match dist_spec n G i j with Some e => if Z.leb e d then sigma n G i j else 0 | None => 0 end.

Definition FI (dn : nat) (NPd NSPd NSP L : mat Z) : Prop :=
  (forall i j, (i < n)%nat -> (j < n)%nat -> i <> j ->
     (forall e, dist_spec n G i j = Some e -> Z.of_nat dn <= e) -> NPd i j = mpow n G dn i j) /\
  (forall i j, (i < n)%nat -> (j < n)%nat -> i <> j -> NSPd i j = NSPd_spec (Z.of_nat dn) i j) /\
  ((2 <= dn)%nat -> forall i, (i < n)%nat -> NSPd i i = 0) /\
  (forall i j, (i < n)%nat -> (j < n)%nat -> L i j = L_spec (Z.of_nat dn) i j) /\
  (forall i j, (i < n)%nat -> (j < n)%nat -> NSP i j = NSP_spec (Z.of_nat dn) i j).

Lemma anynz_false X : anynz n X = false -> forall i j, (i < n)%nat -> (j < n)%nat -> X i j = 0.
Proof.
  intros H i j Hi Hj. unfold anynz in H. destruct (Z.eq_dec (X i j) 0) as [E|E]; [exact E|exfalso].
  assert (existsb (fun c => nzb (X (fst c) (snd c))) (cells n) = true); [|congruence].
  apply existsb_exists. exists (i, j). split; [apply cells_In; auto|]. cbn [fst snd]. unfold nzb.
  apply negb_true_iff, Z.eqb_neq. exact E.
Qed.
Lemma anynz_true X : anynz n X = true -> exists i j, (i < n)%nat /\ (j < n)%nat /\ X i j <> 0.
Proof.
  intros H. unfold anynz in H. apply existsb_exists in H. destruct H as [[i j] [Hc E]]. apply cells_In in Hc.
  cbn [fst snd] in E. unfold nzb in E. apply negb_true_iff, Z.eqb_neq in E. exists i, j. tauto.
Qed.

(* mpow (dn+1) against the distance: the entries the loop looks at *)
Lemma pow_next dn i j : (i < n)%nat -> (j < n)%nat -> i <> j ->
  (forall e, dist_spec n G i j = Some e -> Z.of_nat dn <= e) ->
  mpow n G dn i j = NSPd_spec (Z.of_nat dn) i j.
Proof.
  intros Hi Hj Hij Hge. unfold NSPd_spec. destruct (pow_sigma n G HB dn i j Hi Hj) as [P1 P2].
  destruct (dist_spec n G i j) as [e|] eqn:E.
  - destruct (Z.eqb_spec e (Z.of_nat dn)) as [->|Hne]; [apply P2; reflexivity|].
    apply P1. right. exists e. split; [reflexivity|]. specialize (Hge e eq_refl). lia.
  - apply P1. left; reflexivity.
Qed.

(* one more connection after the minimum-length dn-walks: on the pairs that are farther apart than dn (the entries
   that `* (L == 0)` keeps) the product is the entry of G^(dn+1) - a walk of dn+1 connections to such a node is a
   minimum-length walk, and so is its prefix of dn connections.  X is NSPd: its diagonal is not looked at. *)
Lemma ext_shortest dn X : (1 <= dn)%nat ->
  (forall i k, (i < n)%nat -> (k < n)%nat -> i <> k -> X i k = NSPd_spec (Z.of_nat dn) i k) ->
  forall i j, (i < n)%nat -> (j < n)%nat -> i <> j ->
  (forall e, dist_spec n G i j = Some e -> Z.of_nat dn < e) ->
  mmulZ n X G i j = mpow n G (S dn) i j.
Proof.
  intros Hdn HX i j Hi Hj Hij Hgt. pose proof (binary_nonneg n G HB) as HG.
  cbn [mpow]. unfold mmulZ. apply sumn_ext. intros k Hk.
  destruct (Z.eq_dec (G k j) 0) as [->|Hg]; [rewrite !Z.mul_0_r; reflexivity|]. f_equal.
  assert (Hge : forall e, dist_spec n G i k = Some e -> Z.of_nat dn <= e).
  { intros e Ek. destruct (dist_edge_le n G i k j e HG Hj Ek Hg) as (e' & E' & Hle). specialize (Hgt e' E').
    destruct (HB k j Hk Hj) as [H0|H1]; [contradiction|]. lia. }
  assert (Hik : i <> k).
  { intros <-. specialize (Hge 0 (dist_self n G i HG Hi)). lia. }
  rewrite (HX i k Hi Hk Hik). symmetry. apply pow_next; auto.
Qed.

Lemma ext_shortest_counts dn X : (1 <= dn)%nat ->
  (forall i k, (i < n)%nat -> (k < n)%nat -> i <> k -> X i k = NSPd_spec (Z.of_nat dn) i k) ->
  forall i j, (i < n)%nat -> (j < n)%nat -> i <> j ->
  (forall e, dist_spec n G i j = Some e -> Z.of_nat dn < e) ->
  mmulZ n X G i j = NSPd_spec (Z.of_nat (S dn)) i j.
Proof.
  intros Hdn HX i j Hi Hj Hij Hgt. rewrite (ext_shortest dn X Hdn HX i j Hi Hj Hij Hgt).
  apply pow_next; auto. intros e E. specialize (Hgt e E). lia.
Qed.

Lemma FI_step dn NPd NSPd NSP L : (1 <= dn)%nat -> FI dn NPd NSPd NSP L ->
  let d1 := Z.of_nat dn + 1 in
  let NPd1 := tab 0 n n (mmulZ n NSPd G0) in
  let NSPd1 := tab 0 n n (fun i j => NPd1 i j * b2z (Z.eqb (L i j) 0)) in
  let NSP1 := tab 0 n n (fun i j => NSP i j + NSPd1 i j) in
  let L1 := tab 0 n n (fun i j => L i j + d1 * b2z (nzb (NSPd1 i j))) in
  FI (S dn) NPd1 NSPd1 NSP1 L1.
Proof.
  intros Hdn (F1 & F2 & F3 & F4 & F5) d1 NPd1 NSPd1 NSP1 L1.
  pose proof (binary_nonneg n G HB) as HG.
  assert (Hd1 : d1 = Z.of_nat (S dn)) by (unfold d1; lia).
  assert (E1 : forall i j, (i < n)%nat -> (j < n)%nat -> i <> j ->
            (forall e, dist_spec n G i j = Some e -> Z.of_nat (S dn) <= e) -> NPd1 i j = mpow n G (S dn) i j).
  { intros i j Hi Hj Hij Hge. unfold NPd1. rewrite tab_spec by assumption.
    rewrite <- (ext_shortest dn NSPd Hdn F2 i j Hi Hj Hij); [|intros e E; specialize (Hge e E); lia].
    unfold mmulZ. apply sumn_ext. intros k Hk. unfold G0. rewrite tab_spec by assumption. reflexivity. }
  assert (HL0 : forall i j, (i < n)%nat -> (j < n)%nat ->
            (L i j = 0 <-> i <> j /\ forall e, dist_spec n G i j = Some e -> Z.of_nat dn < e)).
  { intros i j Hi Hj. rewrite (F4 i j Hi Hj). unfold L_spec. destruct (Nat.eqb_spec i j) as [->|Hne].
    - split; [lia|]. intros [H _]. congruence.
    - destruct (dist_spec n G i j) as [e|] eqn:E.
      + assert (He : e <> 0) by (intros ->; apply Hne; symmetry; apply (dist_zero_source n G i j HG E)).
        destruct (Z.leb_spec e (Z.of_nat dn)).
        * split; [intros; contradiction|]. intros [_ H']. specialize (H' e eq_refl). lia.
        * split; [|reflexivity]. intros _. split; [exact Hne|]. intros e' Ee. inversion Ee. lia.
      + split; [|reflexivity]. intros _. split; [exact Hne|]. intros e' Ee. discriminate. }
  assert (E2 : forall i j, (i < n)%nat -> (j < n)%nat ->
            NSPd1 i j = if Nat.eqb i j then 0 else NSPd_spec d1 i j).
  { intros i j Hi Hj. unfold NSPd1. rewrite tab_spec by assumption.
    destruct (Z.eqb_spec (L i j) 0) as [E0|E0]; cbn [b2z].
    - apply (HL0 i j Hi Hj) in E0. destruct E0 as [Hne Hgt]. destruct (Nat.eqb_spec i j); [contradiction|].
      rewrite (E1 i j Hi Hj Hne); [|intros e Ee; specialize (Hgt e Ee); lia].
      rewrite Z.mul_1_r, Hd1. apply pow_next; auto. intros e Ee. specialize (Hgt e Ee). lia.
    - rewrite Z.mul_0_r. destruct (Nat.eqb_spec i j) as [|Hne]; [reflexivity|]. unfold NSPd_spec.
      destruct (dist_spec n G i j) as [e|] eqn:E; [|reflexivity].
      destruct (Z.eqb_spec e d1) as [->|]; [|reflexivity]. exfalso. apply E0. apply (HL0 i j Hi Hj).
      split; [exact Hne|]. intros e' Ee. rewrite E in Ee. injection Ee as Ee'. unfold d1 in *. lia. }
  unfold FI. split; [exact E1|]. split; [|split; [|split]].
  - intros i j Hi Hj Hne. rewrite (E2 i j Hi Hj), <- Hd1. destruct (Nat.eqb_spec i j); [contradiction|reflexivity].
  - intros _ i Hi. rewrite (E2 i i Hi Hi), Nat.eqb_refl. reflexivity.
  - intros i j Hi Hj. unfold L1. rewrite tab_spec by assumption. rewrite (F4 i j Hi Hj), (E2 i j Hi Hj), <- Hd1.
    unfold L_spec, NSPd_spec. destruct (Nat.eqb i j); [change (nzb 0) with false; cbn [b2z]; lia|].
    destruct (dist_spec n G i j) as [e|] eqn:E; [|change (nzb 0) with false; cbn [b2z]; lia].
    pose proof (sigma_pos n G i j e E) as Hpos.
    destruct (Z.eqb_spec e d1) as [->|Hne].
    + unfold nzb. destruct (Z.eqb_spec (sigma n G i j) 0); [lia|]. cbn [negb b2z].
      destruct (Z.leb_spec d1 (Z.of_nat dn)); [lia|]. destruct (Z.leb_spec d1 d1); lia.
    + change (nzb 0) with false. cbn [b2z]. destruct (Z.leb_spec e (Z.of_nat dn)), (Z.leb_spec e d1); lia.
  - intros i j Hi Hj. unfold NSP1. rewrite tab_spec by assumption. rewrite (F5 i j Hi Hj), (E2 i j Hi Hj), <- Hd1.
    unfold NSP_spec, NSPd_spec. destruct (Nat.eqb i j); [lia|].
    destruct (dist_spec n G i j) as [e|] eqn:E; [|lia].
    destruct (Z.eqb_spec e d1) as [->|Hne].
    + destruct (Z.leb_spec d1 (Z.of_nat dn)); [lia|]. destruct (Z.leb_spec d1 d1); lia.
    + destruct (Z.leb_spec e (Z.of_nat dn)), (Z.leb_spec e d1); lia.
Qed.

(* exit: no pair of distinct nodes lies at distance >= d *)
Lemma FI_exit dn NPd NSPd NSP L : (1 <= dn)%nat -> FI dn NPd NSPd NSP L -> anynz n NSPd = false ->
  forall i j e, (i < n)%nat -> (j < n)%nat -> dist_spec n G i j = Some e -> e < Z.of_nat dn.
Proof.
  intros Hdn (F1 & F2 & F3 & F4 & F5) Hz i j e Hi Hj E.
  pose proof (binary_nonneg n G HB) as HG.
  destruct (Z_lt_le_dec e (Z.of_nat dn)) as [Hlt|Hge]; [exact Hlt|exfalso].
  assert (H0 : forall x, (x < n)%nat -> dist_spec n G i x <> Some (Z.of_nat dn)).
  { intros x Hx Ex. assert (Hix : i <> x).
    { intros <-. rewrite (dist_self n G i HG Hi) in Ex. inversion Ex. lia. }
    pose proof (anynz_false NSPd Hz i x Hi Hx) as Hzero. rewrite (F2 i x Hi Hx Hix) in Hzero.
    unfold NSPd_spec in Hzero. rewrite Ex, Z.eqb_refl in Hzero. pose proof (sigma_pos n G i x _ Ex). lia. }
  apply (no_level_beyond n G i (Z.of_nat dn) HB Hi (Nat2Z.is_nonneg dn) H0 (Z.to_nat (e - Z.of_nat dn)) j Hj).
  rewrite E. f_equal. lia.
Qed.

Theorem bb_count_ok : forall fuel dn NPd NSPd NSP L, (1 <= dn)%nat -> FI dn NPd NSPd NSP L ->
  (n + 1 <= fuel + dn)%nat ->
  exists dn' NSP' L', bb_count fuel n G0 (Z.of_nat dn) NPd NSPd NSP L = Some (Z.of_nat dn', NSP', L') /\
    (1 <= dn')%nat /\
    (forall i j, (i < n)%nat -> (j < n)%nat -> L' i j = L_spec (Z.of_nat dn') i j) /\
    (forall i j, (i < n)%nat -> (j < n)%nat -> NSP' i j = NSP_spec (Z.of_nat dn') i j) /\
    (forall i j e, (i < n)%nat -> (j < n)%nat -> dist_spec n G i j = Some e -> e < Z.of_nat dn').
Proof.
  induction fuel as [|f IH]; intros dn NPd NSPd NSP L Hdn HF Hfuel.
  - cbn [bb_count]. destruct (anynz n NSPd) eqn:Ea.
    + exfalso. apply anynz_true in Ea. destruct Ea as (i & j & Hi & Hj & Hnz).
      destruct HF as (F1 & F2 & F3 & F4 & F5).
      destruct (Nat.eq_dec i j) as [<-|Hij]; [rewrite (F3 ltac:(lia) i Hi) in Hnz; congruence|].
      rewrite (F2 i j Hi Hj Hij) in Hnz. unfold NSPd_spec in Hnz.
      destruct (dist_spec n G i j) as [e|] eqn:E; [|congruence].
      destruct (Z.eqb_spec e (Z.of_nat dn)) as [->|]; [|congruence].
      pose proof (dist_lt_n n G i j _ HB E). lia.
    + exists dn, NSP, L. split; [reflexivity|]. destruct HF as (F1 & F2 & F3 & F4 & F5).
      split; [exact Hdn|]. split; [exact F4|]. split; [exact F5|].
      intros i j e Hi Hj E. apply (FI_exit dn NPd NSPd NSP L Hdn (conj F1 (conj F2 (conj F3 (conj F4 F5)))) Ea i j e Hi Hj E).
  - cbn [bb_count]. destruct (anynz n NSPd) eqn:Ea.
    + pose proof (FI_step dn NPd NSPd NSP L Hdn HF) as HF1. cbn zeta in HF1.
      replace (Z.of_nat dn + 1) with (Z.of_nat (S dn)) in * by lia.
      apply (IH (S dn)); [lia|exact HF1|lia].
    + exists dn, NSP, L. split; [reflexivity|]. pose proof HF as (F1 & F2 & F3 & F4 & F5).
      split; [exact Hdn|]. split; [exact F4|]. split; [exact F5|].
      intros i j e Hi Hj E. apply (FI_exit dn NPd NSPd NSP L Hdn HF Ea i j e Hi Hj E).
Qed.

Lemma FI_init : FI 1 G0 G0 (tab 0 n n (bb_init_diag G0)) (tab 0 n n (bb_init_diag G0)).
Proof.
  pose proof (binary_nonneg n G HB) as HG.
  assert (HG1 : forall i j, (i < n)%nat -> (j < n)%nat -> G0 i j = mpow n G 1 i j).
  { intros i j Hi Hj. unfold G0. rewrite tab_spec by assumption. cbn [mpow]. unfold mmulZ, idm.
    rewrite (sumn_split _ n i Hi), Nat.eqb_refl. cbn [b2z].
    rewrite (sumn_ext _ (fun _ => 0)); [rewrite sumn_zero; lia|]. intros k _.
    destruct (Nat.eqb_spec k i); [reflexivity|]. destruct (Nat.eqb_spec i k); [congruence|]. cbn [b2z]. lia. }
  assert (HN : forall i j, (i < n)%nat -> (j < n)%nat -> i <> j -> G0 i j = NSPd_spec 1 i j).
  { intros i j Hi Hj Hij. rewrite (HG1 i j Hi Hj). apply (pow_next 1 i j Hi Hj Hij).
    intros e E. pose proof (dist_spec_nonneg n G i j e HG E).
    destruct (Z.eq_dec e 0) as [->|]; [|cbn; lia]. exfalso. apply Hij. symmetry. apply (dist_zero_source n G i j HG E). }
  assert (Hd1 : forall i j e, i <> j -> dist_spec n G i j = Some e -> 1 <= e).
  { intros i j e Hij E. pose proof (dist_spec_nonneg n G i j e HG E).
    destruct (Z.eq_dec e 0) as [->|]; [|lia]. exfalso. apply Hij. symmetry. apply (dist_zero_source n G i j HG E). }
  assert (Hs1 : forall i j, (i < n)%nat -> (j < n)%nat -> i <> j -> dist_spec n G i j = Some 1 -> sigma n G i j = 1).
  { intros i j Hi Hj Hij E. pose proof (HN i j Hi Hj Hij) as H. unfold NSPd_spec in H. rewrite E, Z.eqb_refl in H.
    unfold G0 in H. rewrite tab_spec in H by assumption. pose proof (sigma_pos n G i j 1 E).
    destruct (HB i j Hi Hj); lia. }
  unfold FI. split; [intros i j Hi Hj _ _; exact (HG1 i j Hi Hj)|]. split; [exact HN|]. split; [intros H; lia|]. split.
  - intros i j Hi Hj. rewrite tab_spec by assumption. unfold bb_init_diag, L_spec.
    destruct (Nat.eqb_spec i j) as [|Hij]; [reflexivity|]. rewrite (HN i j Hi Hj Hij). unfold NSPd_spec.
    destruct (dist_spec n G i j) as [e|] eqn:E; [|reflexivity]. pose proof (Hd1 i j e Hij E).
    change (Z.of_nat 1) with 1. destruct (Z.eqb_spec e 1) as [->|].
    + rewrite (Hs1 i j Hi Hj Hij E). reflexivity.
    + destruct (Z.leb_spec e 1); [lia|reflexivity].
  - intros i j Hi Hj. rewrite tab_spec by assumption. unfold bb_init_diag, NSP_spec.
    destruct (Nat.eqb_spec i j) as [|Hij]; [reflexivity|]. rewrite (HN i j Hi Hj Hij). unfold NSPd_spec.
    destruct (dist_spec n G i j) as [e|] eqn:E; [|reflexivity]. pose proof (Hd1 i j e Hij E).
    change (Z.of_nat 1) with 1. destruct (Z.eqb_spec e 1) as [->|]; [reflexivity|]. destruct (Z.leb_spec e 1); [lia|reflexivity].
Qed.
End Forward.

(* what the forward loop's product holds: G^d counts the minimum-length walks where dist = d (0 beyond), and the
   product that the loop forms - NSPd . G, minimum-length walks of dn connections extended by one - has, on every
   pair farther apart than dn (the entries kept by `* (L == 0)`), the entry of G^(dn+1), i.e. the number of
   minimum-length walks of dn+1 connections *)
Theorem pow_sigma_ext n G : binary n G -> forall dn i j, (i < n)%nat -> (j < n)%nat ->
  ((dist_spec n G i j = None \/ exists e, dist_spec n G i j = Some e /\ Z.of_nat dn < e) -> mpow n G dn i j = 0) /\
  (dist_spec n G i j = Some (Z.of_nat dn) -> mpow n G dn i j = sigma n G i j) /\
  (forall X, (1 <= dn)%nat -> i <> j ->
     (forall a k, (a < n)%nat -> (k < n)%nat -> a <> k -> X a k = NSPd_spec n G (Z.of_nat dn) a k) ->
     (forall e, dist_spec n G i j = Some e -> Z.of_nat dn < e) ->
     mmulZ n X G i j = mpow n G (S dn) i j /\ mmulZ n X G i j = NSPd_spec n G (Z.of_nat (S dn)) i j).
Proof.
  intros HB dn i j Hi Hj. destruct (pow_sigma n G HB dn i j Hi Hj) as [P1 P2].
  split; [exact P1|]. split; [exact P2|]. intros X Hdn Hij HX Hgt. split.
  - apply (ext_shortest n G HB dn X Hdn HX i j Hi Hj Hij Hgt).
  - apply (ext_shortest_counts n G HB dn X Hdn HX i j Hi Hj Hij Hgt).
Qed.

(* ---------- per-source dependencies over the tight connections ---------- *)
Open Scope Q_scope.
Definition Pm (n : nat) (G : mat Z) (i : nat) : mat bool := fun w v => tightb n G i v w.
Definition potd (n : nat) (G : mat Z) (i x : nat) : Z := match dist_spec n G i x with Some e => e | None => 0%Z end.
Definition cdag (n : nat) (G : mat Z) (i : nat) : nat -> nat -> Q := dag_count n (Pm n G i) (potd n G i).
Definition dlt (n : nat) (G : mat Z) (i j : nat) : Q := delta n (sigma n G i) (cdag n G i) j.

Section Back.
Variables (n : nat) (G : mat Z).
Hypothesis HB : binary n G.
Let HG : nonneg_len n G := binary_nonneg n G HB.

Lemma Pm_pot i : forall w v, (w < n)%nat -> (v < n)%nat -> Pm n G i w v = true -> (potd n G i v < potd n G i w)%Z.
Proof.
  intros w v Hw Hv E. destruct (tightb_incr n G i v w HG Hv Hw E) as (dv & dw & E1 & E2 & Hlt).
  unfold potd. rewrite E1, E2. lia.
Qed.
Lemma potd_lo i t : (t < n)%nat -> (0 <= potd n G i t)%Z.
Proof. intros _. unfold potd. destruct (dist_spec n G i t) eqn:E; [apply (dist_spec_nonneg n G i t z HG E)|lia]. Qed.
Lemma sigma_rec i : (i < n)%nat -> forall x, (x < n)%nat -> x <> i ->
  sigma n G i x = sumn (fun v => (b2z (Pm n G i x v) * sigma n G i v)%Z) n.
Proof.
  intros Hi x Hx Hxi. rewrite (sigma_last n G i x HG Hi Hx). destruct (Nat.eqb_spec x i); [contradiction|].
  rewrite Z.add_0_l. apply sumn_ext. intros v _. unfold Pm. destruct (tightb n G i v x); cbn [b2z]; lia.
Qed.
Lemma Pm_pos i : forall w v, (w < n)%nat -> (v < n)%nat -> Pm n G i w v = true -> (0 < sigma n G i w)%Z.
Proof.
  intros w v Hw Hv E. destruct (tightb_incr n G i v w HG Hv Hw E) as (dv & dw & _ & E2 & _).
  apply (sigma_pos n G i w dw E2).
Qed.

Lemma dlt_rec i j : (i < n)%nat -> (j < n)%nat ->
  dlt n G i j == sumQ (fun w => ind (Pm n G i w j) * (zq (sigma n G i j) / zq (sigma n G i w) * (1 + dlt n G i w))) n.
Proof.
  intros Hi Hj. unfold dlt, cdag.
  apply (delta_rec n (Pm n G i) (sigma n G i) (dag_count n (Pm n G i) (potd n G i))).
  - intros v _. apply dag_count_refl.
  - apply dag_count_step. apply Pm_pot.
  - apply dag_count_acyc. apply Pm_pot.
  - apply Pm_pos.
  - exact Hj.
Qed.

Lemma dlt_spec i j : (i < n)%nat -> (j < n)%nat ->
  (if Nat.eqb j i then 0 else dlt n G i j) ==
  sumQ (fun t => if neb i j && neb t j then frac (sigma_through n G i t j) (sigma n G i t) else 0) n.
Proof.
  intros Hi Hj. unfold dlt, cdag.
  apply (node_spec n G i (Pm n G i) (sigma n G i) (potd n G i) 0%Z HG Hi (Pm_pot i) (potd_lo i)).
  - intros w v _ _. reflexivity.
  - apply sigma_self; assumption.
  - apply sigma_rec; exact Hi.
  - exact Hj.
Qed.

Lemma dlt_unreach i j : dist_spec n G i j = None -> dlt n G i j == 0.
Proof.
  intros E. unfold dlt, delta. cbn zeta. apply sumQ_zero'. intros t _. destruct (Nat.eqb t j); [reflexivity|].
  rewrite (sigma_unreach n G i j E). unfold zq, Qdiv. change (inject_Z 0) with 0. ring.
Qed.

Definition far (i j : nat) (m : Z) : bool :=
  negb (Nat.eqb i j) && match dist_spec n G i j with Some e => Z.leb m e | None => false end.
Definition InvB (m : Z) (DP : mat Q) : Prop :=
  forall i j, (i < n)%nat -> (j < n)%nat -> DP i j == if far i j m then dlt n G i j else 0.

Variables (Lf : mat (option Z)) (NSPf : mat Z).
Hypothesis HLf : forall i j, (i < n)%nat -> (j < n)%nat -> Lf i j = dist_spec n G i j.
Hypothesis HNf : forall i j e, (i < n)%nat -> (j < n)%nat -> dist_spec n G i j = Some e -> NSPf i j = sigma n G i j.
Let G0 := tab 0%Z n n G.

Lemma back_pass d DP : (2 <= d)%Z -> InvB d DP -> InvB (d - 1) (bb_back n G0 Lf NSPf DP d).
Proof.
  intros Hd H i j Hi Hj. unfold bb_back. rewrite tab_spec by assumption. rewrite Qred_correct, (HLf i j Hi Hj).
  unfold far. destruct (dist_spec n G i j) as [e|] eqn:Eij.
  2:{ cbn [xeq indq]. rewrite (H i j Hi Hj). unfold far. rewrite Eij. rewrite andb_false_r. ring. }
  destruct (Z.eq_dec e (d - 1)) as [->|Hne].
  2:{ assert (xeq (Some e) (Some (d - 1)%Z) = false) as -> by (cbn [xeq]; apply Z.eqb_neq; exact Hne).
      cbn [indq]. rewrite (H i j Hi Hj). unfold far. rewrite Eij.
      assert ((d - 1 <=? e)%Z = (d <=? e)%Z) as ->; [|ring].
      destruct (Z.leb_spec (d - 1) e), (Z.leb_spec d e); try reflexivity; lia. }
  assert (Hij : i <> j).
  { intros <-. rewrite (dist_self n G i HG Hi) in Eij. injection Eij as E'. lia. }
  assert (xeq (Some (d - 1)%Z) (Some (d - 1)%Z) = true) as -> by (cbn [xeq]; apply Z.eqb_refl).
  destruct (Nat.eqb_spec i j) as [|_]; [contradiction|]. cbn [negb andb indq].
  assert ((d - 1 <=? d - 1)%Z = true) as -> by (apply Z.leb_le; lia).
  assert (E0 : DP i j == 0).
  { rewrite (H i j Hi Hj). unfold far. rewrite Eij. assert ((d <=? d - 1)%Z = false) as -> by (apply Z.leb_gt; lia).
    rewrite andb_false_r. reflexivity. }
  rewrite E0, (HNf i j _ Hi Hj Eij), (dlt_rec i j Hi Hj), Qplus_0_l, <- sumQ_scal_r.
  apply sumQ_ext. intros k Hk. rewrite tab_spec by assumption. rewrite (HLf i k Hi Hk).
  unfold G0. rewrite tab_spec by assumption. unfold Pm.
  destruct (dist_spec n G i k) as [ek|] eqn:Eik.
  2:{ cbn [xeq indq]. assert (tightb n G i j k = false) as ->.
      { destruct (tightb n G i j k) eqn:Et; [|reflexivity]. apply tightb_true in Et. destruct Et as [_ (dv & _ & E2)]. congruence. }
      cbn [ind]. unfold Qdiv. ring. }
  destruct (Z.eq_dec ek d) as [->|Hnek].
  2:{ assert (xeq (Some ek) (Some d) = false) as -> by (cbn [xeq]; apply Z.eqb_neq; exact Hnek).
      assert (tightb n G i j k = false) as ->.
      { destruct (tightb n G i j k) eqn:Et; [|reflexivity]. exfalso.
        destruct (tightb_bin n G i j k HB Hj Hk Et) as (_ & dv & E1 & E2). rewrite Eij in E1. rewrite Eik in E2.
        injection E1 as E1. injection E2 as E2. lia. }
      cbn [indq ind]. unfold Qdiv. ring. }
  assert (xeq (Some d) (Some d) = true) as -> by (cbn [xeq]; apply Z.eqb_refl). cbn [indq].
  assert (Hik : i <> k).
  { intros <-. rewrite (dist_self n G i HG Hi) in Eik. injection Eik as E'. lia. }
  assert (Ek : DP i k == dlt n G i k).
  { rewrite (H i k Hi Hk). unfold far. rewrite Eik. destruct (Nat.eqb_spec i k); [contradiction|].
    assert ((d <=? d)%Z = true) as -> by (apply Z.leb_le; lia). reflexivity. }
  rewrite Ek, (HNf i k _ Hi Hk Eik).
  destruct (HB j k Hj Hk) as [Hg|Hg].
  - assert (tightb n G i j k = false) as ->.
    { destruct (tightb n G i j k) eqn:Et; [|reflexivity]. apply tightb_true in Et. destruct Et as [He _].
      unfold edge in He. rewrite Hg in He. discriminate. }
    rewrite Hg. cbn [ind]. unfold zq at 2. change (inject_Z 0) with 0. unfold Qdiv. ring.
  - assert (tightb n G i j k = true) as ->.
    { apply tightb_true. split; [unfold edge; rewrite Hg; reflexivity|]. exists (d - 1)%Z. split; [exact Eij|].
      rewrite Eik, Hg. f_equal. lia. }
    rewrite Hg. cbn [ind]. unfold zq at 2. change (inject_Z 1) with 1. unfold Qdiv. ring.
Qed.

Lemma back_fold : forall k DP, InvB (Z.of_nat k + 1) DP ->
  InvB 1 (fold_left (bb_back n G0 Lf NSPf) (rev (map (fun x => Z.of_nat x) (seq 2 k))) DP).
Proof.
  induction k as [|k IH]; intros DP H.
  - cbn [seq map rev fold_left]. exact H.
  - rewrite seq_S, map_app, rev_app_distr. cbn [map rev app fold_left]. apply IH.
    replace (Z.of_nat k + 1)%Z with (Z.of_nat (2 + k) - 1)%Z by lia. apply back_pass; [lia|].
    replace (Z.of_nat (2 + k)) with (Z.of_nat (S k) + 1)%Z by lia. exact H.
Qed.

Lemma back_init m : (1 <= m)%Z -> (forall i j e, (i < n)%nat -> (j < n)%nat -> dist_spec n G i j = Some e -> (e <= m)%Z) ->
  InvB m (fun _ _ => 0).
Proof.
  intros Hm Hall i j Hi Hj. unfold far. destruct (Nat.eqb i j); cbn [negb andb]; [reflexivity|].
  destruct (dist_spec n G i j) as [e|] eqn:E; [|reflexivity]. destruct (Z.leb_spec m e); [|reflexivity].
  rewrite (dlt_rec i j Hi Hj). symmetry. apply sumQ_zero'. intros w Hw. unfold Pm.
  destruct (tightb n G i j w) eqn:Et; cbn [ind]; [exfalso|ring].
  destruct (tightb_bin n G i j w HB Hj Hw Et) as (_ & dv & E1 & E2). rewrite E in E1. injection E1 as <-.
  pose proof (Hall i w _ Hi Hw E2). pose proof (Hall i j _ Hi Hj E). lia.
Qed.
End Back.

(* ---------- betweenness_bin returns the specification ---------- *)
Theorem bc_bin_correct n G : binary n G ->
  exists BC, betweenness_bin n G = Some BC /\ forall v, (v < n)%nat -> BC v == BC_spec n G v.
Proof.
  intros HB. pose proof (binary_nonneg n G HB) as HG. unfold betweenness_bin.
  destruct (bb_count_ok n G HB (S n) 1 _ _ _ _ (le_n 1) (FI_init n G HB)) as (dn & NSP & L & E & Hdn & HL & HN & Hall); [lia|].
  change (Z.of_nat 1) with 1%Z in E. rewrite E.
  set (Lf := tab None n n (bb_Lfin L)). set (NSPf := tab 0%Z n n (bb_NSPfin NSP)).
  assert (Hne0 : forall i j e, i <> j -> dist_spec n G i j = Some e -> (1 <= e)%Z).
  { intros i j e Hij Ee. pose proof (dist_spec_nonneg n G i j e HG Ee).
    destruct (Z.eq_dec e 0) as [->|]; [|lia]. exfalso. apply Hij. symmetry. apply (dist_zero_source n G i j HG Ee). }
  assert (HLf : forall i j, (i < n)%nat -> (j < n)%nat -> Lf i j = dist_spec n G i j).
  { intros i j Hi Hj. unfold Lf. rewrite tab_spec by assumption. unfold bb_Lfin. rewrite (HL i j Hi Hj). unfold L_spec.
    destruct (Nat.eqb_spec i j) as [<-|Hij]; [symmetry; apply dist_self; assumption|].
    destruct (dist_spec n G i j) as [e|] eqn:Ee; [|reflexivity].
    pose proof (Hall i j e Hi Hj Ee). pose proof (Hne0 i j e Hij Ee).
    destruct (Z.leb_spec e (Z.of_nat dn)); [|lia]. destruct (Z.eqb_spec e 0); [lia|reflexivity]. }
  assert (HNf : forall i j e, (i < n)%nat -> (j < n)%nat -> dist_spec n G i j = Some e -> NSPf i j = sigma n G i j).
  { intros i j e Hi Hj Ee. unfold NSPf. rewrite tab_spec by assumption. unfold bb_NSPfin. rewrite (HN i j Hi Hj). unfold NSP_spec.
    destruct (Nat.eqb_spec i j) as [<-|Hij]; [cbn; symmetry; apply sigma_self; assumption|].
    rewrite Ee. pose proof (Hall i j e Hi Hj Ee). destruct (Z.leb_spec e (Z.of_nat dn)); [|lia].
    pose proof (sigma_pos n G i j e Ee). destruct (Z.eqb_spec (sigma n G i j) 0); [lia|reflexivity]. }
  eexists. split; [reflexivity|]. intros v Hv. cbn beta.
  set (k := (Z.to_nat (Z.of_nat dn - 1) - 1)%nat).
  assert (Hinit : InvB n G (Z.of_nat k + 1) (fun _ _ => 0)).
  { apply (back_init n G HB); [lia|]. intros i j e Hi Hj Ee. pose proof (Hall i j e Hi Hj Ee). unfold k. lia. }
  pose proof (back_fold n G HB Lf NSPf HLf HNf k _ Hinit) as Hfin. fold k.
  unfold down_range. fold k.
  unfold BC_spec. apply sumQ_ext. intros i Hi.
  rewrite (Hfin i v Hi Hv), <- (dlt_spec n G HB i v Hi Hv). unfold far.
  destruct (Nat.eqb_spec i v) as [->|Hiv].
  - rewrite Nat.eqb_refl. reflexivity.
  - destruct (Nat.eqb_spec v i) as [->|_]; [congruence|]. cbn [negb andb].
    destruct (dist_spec n G i v) as [e|] eqn:Ee.
    + pose proof (Hne0 i v e Hiv Ee). destruct (Z.leb_spec 1 e); [reflexivity|lia].
    + symmetry. apply dlt_unreach. exact Ee.
Qed.

(* the forward phase of betweenness_bin on its own: distances and numbers of minimum-length walks *)
Theorem bb_forward_correct n G : binary n G ->
  let G0 := tab 0%Z n n G in
  exists dn NSP L,
    bb_count (S n) n G0 1%Z G0 G0 (tab 0%Z n n (bb_init_diag G0)) (tab 0%Z n n (bb_init_diag G0)) = Some (Z.of_nat dn, NSP, L) /\
    (1 <= dn)%nat /\
    (forall i j e, (i < n)%nat -> (j < n)%nat -> dist_spec n G i j = Some e -> (e < Z.of_nat dn)%Z) /\
    (forall i j, (i < n)%nat -> (j < n)%nat ->
       tab None n n (bb_Lfin L) i j = dist_spec n G i j /\
       tab 0%Z n n (bb_NSPfin NSP) i j = if isinf (dist_spec n G i j) then 1%Z else sigma n G i j).
Proof.
  intros HB G0. pose proof (binary_nonneg n G HB) as HG.
  destruct (bb_count_ok n G HB (S n) 1 _ _ _ _ (le_n 1) (FI_init n G HB)) as (dn & NSP & L & E & Hdn & HL & HN & Hall); [lia|].
  change (Z.of_nat 1) with 1%Z in E. exists dn, NSP, L. split; [exact E|]. split; [exact Hdn|]. split; [exact Hall|].
  assert (Hne0 : forall i j e, i <> j -> dist_spec n G i j = Some e -> (1 <= e)%Z).
  { intros i j e Hij Ee. pose proof (dist_spec_nonneg n G i j e HG Ee).
    destruct (Z.eq_dec e 0) as [->|]; [|lia]. exfalso. apply Hij. symmetry. apply (dist_zero_source n G i j HG Ee). }
  intros i j Hi Hj. rewrite !tab_spec by assumption. unfold bb_Lfin, bb_NSPfin. rewrite (HL i j Hi Hj), (HN i j Hi Hj).
  unfold L_spec, NSP_spec. destruct (Nat.eqb_spec i j) as [<-|Hij].
  - rewrite (dist_self n G i HG Hi). cbn [isinf]. rewrite (sigma_self n G i HG Hi). split; reflexivity.
  - destruct (dist_spec n G i j) as [e|] eqn:Ee; cbn [isinf]; [|split; reflexivity].
    pose proof (Hall i j e Hi Hj Ee). pose proof (Hne0 i j e Hij Ee). pose proof (sigma_pos n G i j e Ee).
    destruct (Z.leb_spec e (Z.of_nat dn)); [|lia]. destruct (Z.eqb_spec e 0); [lia|].
    destruct (Z.eqb_spec (sigma n G i j) 0); [lia|]. split; reflexivity.
Qed.

(* ---------- consequences: the two binary routines agree; on 0/1 matrices the weighted routines return what the
   binary routines return (the connection lengths being the 0/1 entries themselves) ---------- *)
Theorem ebc_node_vector_eq_bc_bin n G : binary n G ->
  match edge_betweenness_bin n G, betweenness_bin n G with
  | Some (_, BC), Some BC' => forall i, (i < n)%nat -> BC i == BC' i
  | _, _ => False end.
Proof.
  intros HB. destruct (ebc_bin_correct n G HB) as (EBC & BC & E1 & H1 & _).
  destruct (bc_bin_correct n G HB) as (BC' & E2 & H2). rewrite E1, E2.
  intros i Hi. rewrite (H1 i Hi), (H2 i Hi). reflexivity.
Qed.

Theorem wei_eq_bin_on_binary n G : binary n G ->
  (exists BCw BCb, betweenness_wei n G = Some BCw /\ betweenness_bin n G = Some BCb /\
     forall v, (v < n)%nat -> BCw v == BCb v) /\
  (exists Ew Bw Eb Bb, edge_betweenness_wei n G = Some (Ew, Bw) /\ edge_betweenness_bin n G = Some (Eb, Bb) /\
     (forall v, (v < n)%nat -> Bw v == Bb v) /\
     (forall x y, (x < n)%nat -> (y < n)%nat -> Ew x y == Eb x y)).
Proof.
  intros HB. pose proof (binary_nonneg n G HB) as HG. split.
  - destruct (bc_wei_correct n G HG) as (BCw & E1 & H1). destruct (bc_bin_correct n G HB) as (BCb & E2 & H2).
    exists BCw, BCb. split; [exact E1|]. split; [exact E2|]. intros v Hv. rewrite (H1 v Hv), (H2 v Hv). reflexivity.
  - destruct (ebc_wei_correct n G HG) as (Ew & Bw & E1 & H1 & H1'). destruct (ebc_bin_correct n G HB) as (Eb & Bb & E2 & H2 & H2').
    exists Ew, Bw, Eb, Bb. split; [exact E1|]. split; [exact E2|]. split.
    + intros v Hv. rewrite (H1 v Hv), (H2 v Hv). reflexivity.
    + intros x y Hx Hy. rewrite (H1' x y Hx Hy), (H2' x y Hx Hy). reflexivity.
Qed.

(* non-vacuity: a 4-cycle with a chord, as a 0/1 matrix *)
Definition bin_example : list (list Z) := [[0;1;0;1]; [1;0;1;1]; [0;1;0;1]; [1;1;1;0]]%Z.
Example bin_example_ok : binary 4 (of_rows 0%Z bin_example) /\
  run_bc_bin bin_example = Some [0; 1; 0; 1] /\ run_bc_wei bin_example = Some [0; 1; 0; 1] /\
  option_map snd (run_ebc_bin bin_example) = Some [0; 1; 0; 1] /\
  snd (fst (run_spec bin_example)) = [0; 1; 0; 1].
Proof.
  split.
  - intros i j Hi Hj. do 4 (destruct i as [|i]; [do 4 (destruct j as [|j]; [vm_compute; auto|]); try (exfalso; lia)|]). exfalso; lia.
  - vm_compute. repeat split.
Qed.

Print Assumptions bc_bin_correct.
Print Assumptions wei_eq_bin_on_binary.
