(* Proofs/LinearSpectralReal.v — C18, eigenvector_centrality_und over Coq's REALS: the theorem of
   Proofs/LinearSpectralFull.v (abs of a top eigenvector of a symmetric non-negative matrix is a non-negative eigenvector
   for the same eigenvalue, of the same norm) for REAL matrices, eigenvalues and eigenvectors - the generic case, in
   which lam_max and u are irrational and the rational theorem has no instance.  Same algebra (finite sums over the grid
   [0,n), a quadratic in t that is >= 0 for all t has no linear part); sumR / deltaR are those of Proofs/LinearReal.v.
   Over R the Rayleigh bound  forall x, x^T A x <= lam x^T x  IS "lam is the largest eigenvalue of the symmetric A"
   (spectral theorem, not proved here and not needed: the bound is the specification of what argmax(vals) selects). *)
From Coq Require Import Reals Lra Lia Arith List.
From BCT Require Import Proofs.LinearReal.
Local Open Scope R_scope.

Definition mvecR (n : nat) (A : nat -> nat -> R) (x : nat -> R) : nat -> R := fun i => sumR (fun j => A i j * x j) n.
Definition bformR (n : nat) (A : nat -> nat -> R) (x y : nat -> R) : R := sumR (fun i => x i * mvecR n A y i) n.
Definition qformR (n : nat) (A : nat -> nat -> R) (x : nat -> R) : R := bformR n A x x.
Definition dotR (n : nat) (x y : nat -> R) : R := sumR (fun i => x i * y i) n.
Definition normsqR (n : nat) (x : nat -> R) : R := dotR n x x.
Definition vabsR (u : nat -> R) : nat -> R := fun i => Rabs (u i).
Definition vlineR (x y : nat -> R) (t : R) : nat -> R := fun i => x i + t * y i.

Lemma sumR_deltaR_r f n i : (i < n)%nat -> sumR (fun k => f k * deltaR k i) n = f i.
Proof.
  induction n as [|m IH]; intros Hi; [lia|]. cbn [sumR]. unfold deltaR at 2.
  destruct (Nat.eqb_spec m i) as [->|Hne].
  - rewrite (sumR_ext _ (fun _ => 0)); [rewrite sumR_zero; ring|].
    intros k Hk. unfold deltaR. destruct (Nat.eqb_spec k i); [lia|ring].
  - rewrite IH by lia. ring.
Qed.
Lemma sumR_deltaR_l f n i : (i < n)%nat -> sumR (fun k => deltaR k i * f k) n = f i.
Proof. intros Hi. rewrite <- (sumR_deltaR_r f n i Hi). apply sumR_ext. intros; ring. Qed.

Lemma mvecR_line n A x y t i : mvecR n A (vlineR x y t) i = mvecR n A x i + t * mvecR n A y i.
Proof. unfold mvecR, vlineR. rewrite <- sumR_scal, <- sumR_add. apply sumR_ext. intros j _. ring. Qed.

Lemma qformR_line n A x y t :
  qformR n A (vlineR x y t) = qformR n A x + t * (bformR n A x y + bformR n A y x) + t * t * qformR n A y.
Proof.
  unfold qformR, bformR. rewrite <- sumR_add, <- !sumR_scal, <- !sumR_add. apply sumR_ext. intros i _.
  rewrite (mvecR_line n A x y t i). unfold vlineR. ring.
Qed.

Lemma normsqR_line n x y t :
  normsqR n (vlineR x y t) = normsqR n x + t * (2 * dotR n x y) + t * t * normsqR n y.
Proof.
  unfold normsqR, dotR, vlineR. rewrite <- !sumR_scal, <- !sumR_add. apply sumR_ext. intros i _. ring.
Qed.

Lemma bformR_sym n A x y : (forall i j, (i < n)%nat -> (j < n)%nat -> A i j = A j i) -> bformR n A x y = bformR n A y x.
Proof.
  intros As. unfold bformR, mvecR.
  rewrite (sumR_ext (fun i => x i * sumR (fun j => A i j * y j) n) (fun i => sumR (fun j => x i * (A i j * y j)) n))
    by (intros i _; rewrite sumR_scal; reflexivity).
  rewrite (sumR_ext (fun i => y i * sumR (fun j => A i j * x j) n) (fun i => sumR (fun j => y i * (A i j * x j)) n))
    by (intros i _; rewrite sumR_scal; reflexivity).
  rewrite sumR_fubini. apply sumR_ext. intros j Hj. apply sumR_ext. intros i Hi. rewrite (As i j Hi Hj). ring.
Qed.

Lemma quadratic_nonneg_linear_zeroR (c d : R) : (forall t : R, 0 <= 2 * t * c + t * t * d) -> c = 0.
Proof.
  intros H. assert (Hc : 0 <= c * c) by nra.
  assert (Z : c * c = 0).
  { destruct (Rlt_le_dec 0 d) as [Hd|Hd].
    - pose proof (H (- (c * / d))) as H1.
      assert (Hk : 0 < / d) by (apply Rinv_0_lt_compat; exact Hd).
      assert (E : 2 * - (c * / d) * c + - (c * / d) * - (c * / d) * d = - (c * c * / d)) by (field; lra).
      rewrite E in H1. assert (P : 0 <= c * c * / d) by (apply Rmult_le_pos; lra).
      assert (Z : c * c * / d = 0) by lra. apply Rmult_integral in Z. destruct Z; [assumption|lra].
    - pose proof (H (- c)) as H1.
      assert (P : 0 <= c * c * - d) by (apply Rmult_le_pos; lra).
      assert (E : 2 * - c * c + - c * - c * d = - (2 * (c * c)) - c * c * - d) by ring.
      rewrite E in H1. lra. }
  apply Rmult_integral in Z. destruct Z; assumption.
Qed.

Section RayleighMaxR.
Variables (n : nat) (A : nat -> nat -> R) (lam : R).
Hypothesis Asym : forall i j, (i < n)%nat -> (j < n)%nat -> A i j = A j i.
Hypothesis Hray : forall x : nat -> R, qformR n A x <= lam * normsqR n x.

Lemma rayleigh_first_orderR (x y : nat -> R) : qformR n A x = lam * normsqR n x -> lam * dotR n x y = bformR n A y x.
Proof.
  intros Hx.
  assert (Q : forall t : R, 0 <= 2 * t * (lam * dotR n x y - bformR n A y x) + t * t * (lam * normsqR n y - qformR n A y)).
  { intros t. pose proof (Hray (vlineR x y t)) as Rr.
    rewrite (qformR_line n A x y t), (normsqR_line n x y t), (bformR_sym n A x y Asym) in Rr.
    assert (E : 2 * t * (lam * dotR n x y - bformR n A y x) + t * t * (lam * normsqR n y - qformR n A y)
                = lam * (normsqR n x + t * (2 * dotR n x y) + t * t * normsqR n y)
                   - (qformR n A x + t * (bformR n A y x + bformR n A y x) + t * t * qformR n A y)).
    { rewrite Hx. ring. }
    rewrite E. lra. }
  apply quadratic_nonneg_linear_zeroR in Q. lra.
Qed.

(* a vector attaining the Rayleigh bound of a symmetric matrix is an eigenvector *)
Theorem rayleigh_max_is_eigvecR (x : nat -> R) : qformR n A x = lam * normsqR n x ->
  forall i, (i < n)%nat -> mvecR n A x i = lam * x i.
Proof.
  intros Hx i Hi. pose proof (rayleigh_first_orderR x (fun k => deltaR k i) Hx) as F.
  unfold dotR, bformR in F. rewrite (sumR_deltaR_r x n i Hi) in F.
  rewrite (sumR_deltaR_l (fun k => mvecR n A x k) n i Hi) in F. symmetry. exact F.
Qed.
End RayleighMaxR.

Theorem eigvec_abs_okR : forall n (A : nat -> nat -> R) (u : nat -> R) (lam : R),
  (forall i j, (i < n)%nat -> (j < n)%nat -> 0 <= A i j) ->
  (forall i j, (i < n)%nat -> (j < n)%nat -> A i j = A j i) ->
  (forall i, (i < n)%nat -> mvecR n A u i = lam * u i) ->
  (forall x : nat -> R, qformR n A x <= lam * normsqR n x) ->
  (forall i, 0 <= vabsR u i) /\
  normsqR n (vabsR u) = normsqR n u /\
  (forall i, (i < n)%nat -> mvecR n A (vabsR u) i = lam * vabsR u i).
Proof.
  intros n A u lam Ann Asym Hu Hray.
  assert (Nabs : normsqR n (vabsR u) = normsqR n u).
  { unfold normsqR, dotR, vabsR. apply sumR_ext. intros i _. rewrite <- Rabs_mult. apply Rabs_pos_eq. nra. }
  split; [intros i; apply Rabs_pos|]. split; [exact Nabs|].
  apply (rayleigh_max_is_eigvecR n A lam Asym Hray). apply Rle_antisym; [apply Hray|].
  rewrite Nabs.
  assert (Qu : qformR n A u = lam * normsqR n u).
  { unfold qformR, bformR, normsqR, dotR. rewrite <- sumR_scal. apply sumR_ext. intros i Hi. rewrite (Hu i Hi). ring. }
  rewrite <- Qu. unfold qformR, bformR, mvecR. apply sumR_le. intros i Hi.
  rewrite <- !sumR_scal. apply sumR_le. intros j Hj. unfold vabsR.
  replace (u i * (A i j * u j)) with (A i j * (u i * u j)) by ring.
  replace (Rabs (u i) * (A i j * Rabs (u j))) with (A i j * Rabs (u i * u j)) by (rewrite Rabs_mult; ring).
  apply Rmult_le_compat_l; [apply Ann; assumption|apply Rle_abs].
Qed.

(* non-vacuity with an IRRATIONAL eigenpair: the path 0-1-2, lam = sqrt 2, u = (-1, -sqrt 2, -1):
   A u = lam u, the Rayleigh bound holds (sqrt2 (a^2+b^2+c^2) - 2b(a+c) = (sqrt2 a - b)^2/sqrt2 + (sqrt2 c - b)^2/sqrt2),
   and |u| = (1, sqrt 2, 1) is the Perron vector *)
Definition P3R : nat -> nat -> R := fun i j =>
  match i, j with 0%nat, 1%nat => 1 | 1%nat, 0%nat => 1 | 1%nat, 2%nat => 1 | 2%nat, 1%nat => 1 | _, _ => 0 end.
Definition P3uR : nat -> R := fun i => match i with 1%nat => - sqrt 2 | _ => - (1) end.

Example eigvec_abs_okR_nonvacuous :
  (forall i j, (i < 3)%nat -> (j < 3)%nat -> 0 <= P3R i j) /\
  (forall i j, (i < 3)%nat -> (j < 3)%nat -> P3R i j = P3R j i) /\
  (forall i, (i < 3)%nat -> mvecR 3 P3R P3uR i = sqrt 2 * P3uR i) /\
  (forall x : nat -> R, qformR 3 P3R x <= sqrt 2 * normsqR 3 x) /\
  (forall i, (i < 3)%nat -> mvecR 3 P3R (vabsR P3uR) i = sqrt 2 * vabsR P3uR i).
Proof.
  assert (S2 : sqrt 2 * sqrt 2 = 2) by (apply sqrt_sqrt; lra).
  assert (S0 : 0 < sqrt 2) by (apply sqrt_lt_R0; lra).
  assert (H1 : forall i j, (i < 3)%nat -> (j < 3)%nat -> 0 <= P3R i j).
  { intros i j Hi Hj. destruct i as [|[|[|i]]]; [| | |lia]; (destruct j as [|[|[|j]]]; [| | |lia]); cbn [P3R]; lra. }
  assert (H2 : forall i j, (i < 3)%nat -> (j < 3)%nat -> P3R i j = P3R j i).
  { intros i j Hi Hj. destruct i as [|[|[|i]]]; [| | |lia]; (destruct j as [|[|[|j]]]; [| | |lia]); reflexivity. }
  assert (H3 : forall i, (i < 3)%nat -> mvecR 3 P3R P3uR i = sqrt 2 * P3uR i).
  { intros i Hi. destruct i as [|[|[|i]]]; [| | |lia]; unfold mvecR, P3R, P3uR; cbn [sumR]; nra. }
  assert (H4 : forall x : nat -> R, qformR 3 P3R x <= sqrt 2 * normsqR 3 x).
  { intros x. unfold qformR, bformR, normsqR, dotR, mvecR, P3R. cbn [sumR].
    set (a := x 0%nat). set (b := x 1%nat). set (c := x 2%nat).
    assert (Sq : forall y : R, 0 <= y * y) by (intros y; nra).
    pose proof (Sq (sqrt 2 * a - b)) as Q1. pose proof (Sq (sqrt 2 * c - b)) as Q2.
    replace ((sqrt 2 * a - b) * (sqrt 2 * a - b)) with ((sqrt 2 * sqrt 2) * (a * a) - 2 * (sqrt 2 * (a * b)) + b * b) in Q1 by ring.
    replace ((sqrt 2 * c - b) * (sqrt 2 * c - b)) with ((sqrt 2 * sqrt 2) * (c * c) - 2 * (sqrt 2 * (c * b)) + b * b) in Q2 by ring.
    rewrite S2 in Q1, Q2.
    (* multiply the goal by sqrt 2 > 0 *)
    apply (Rmult_le_reg_l (sqrt 2)); [exact S0|].
    assert (E : sqrt 2 * (sqrt 2 * (0 + a * a + b * b + c * c)) = 2 * (a * a + b * b + c * c)) by (rewrite <- Rmult_assoc, S2; ring).
    rewrite E.
    replace (sqrt 2 * (0 + a * (0 + 0 * a + 1 * b + 0 * c) + b * (0 + 1 * a + 0 * b + 1 * c) + c * (0 + 0 * a + 1 * b + 0 * c)))
      with (2 * (sqrt 2 * (a * b)) + 2 * (sqrt 2 * (c * b))) by ring.
    lra. }
  split; [exact H1|]. split; [exact H2|]. split; [exact H3|]. split; [exact H4|].
  exact (proj2 (proj2 (eigvec_abs_okR 3 P3R P3uR (sqrt 2) H1 H2 H3 H4))).
Qed.
