(* Proofs/NbsReal.v — the square-root-free decision [ratio_gt] of Model/Nbs.v is the comparison
   `thr < v / sqrt d2` over the real numbers.  This file (and only this file of C19) uses Coq's
   axiomatised reals; Print Assumptions lists the standard-library axioms it inherits. *)
From Coq Require Import QArith Qreals Reals Lra Lqa Psatz Bool Arith Lia.
From BCT Require Import Model.Nbs Proofs.Nbs.

Lemma ratio_gt_prop v d2 thr :
  ratio_gt v d2 thr = true <->
  ((0 <= thr /\ 0 < v /\ thr * thr * d2 < v * v) \/ (thr < 0 /\ (0 <= v \/ v * v < thr * thr * d2)))%Q.
Proof.
  unfold ratio_gt, sq. destruct (Qle_bool 0 thr) eqn:Et.
  - apply Qle_bool_iff in Et. rewrite andb_true_iff, !qlt_true. split.
    + intros H. left. tauto.
    + intros [H|[H _]]; [tauto|lra].
  - assert (Et' : (thr < 0)%Q).
    { apply Qnot_le_lt. intros H. apply Qle_bool_iff in H. congruence. }
    rewrite orb_true_iff, qlt_true, Qle_bool_iff. split.
    + intros H. right. tauto.
    + intros [[H _]|[_ H]]; [lra|exact H].
Qed.

Local Open Scope R_scope.

Lemma lt_div_iff T V s : 0 < s -> (T * s < V <-> T < V / s).
Proof.
  intros Hs. split; intros H.
  - apply (Rmult_lt_reg_r s); [exact Hs|]. unfold Rdiv. rewrite Rmult_assoc, Rinv_l by lra. lra.
  - apply (Rmult_lt_compat_r s _ _ Hs) in H. unfold Rdiv in H. rewrite Rmult_assoc, Rinv_l in H by lra. lra.
Qed.

Lemma real_decision V D T s : 0 < s -> s * s = D ->
  (((0 <= T /\ 0 < V /\ T * T * D < V * V) \/ (T < 0 /\ (0 <= V \/ V * V < T * T * D))) <-> T < V / s).
Proof.
  intros Hs Hd. rewrite <- (lt_div_iff T V s Hs). subst D.
  replace (T * T * (s * s)) with ((T * s) * (T * s)) by ring.
  assert (Hsign : (0 <= T -> 0 <= T * s) /\ (T < 0 -> T * s < 0)) by (split; intros; nra).
  destruct Hsign as [Hp Hn]. set (p := T * s) in *. split.
  - intros [(H1 & H2 & H3)|(H1 & [H2|H2])].
    + specialize (Hp H1). nra.
    + specialize (Hn H1). lra.
    + specialize (Hn H1). nra.
  - intros H. destruct (Rle_lt_dec 0 T) as [HT|HT].
    + left. specialize (Hp HT). split; [exact HT|]. split; nra.
    + right. specialize (Hn HT). split; [exact HT|].
      destruct (Rle_lt_dec 0 V) as [HV|HV]; [left; exact HV|right; nra].
Qed.

Theorem ratio_gt_real v d2 thr : (0 < d2)%Q ->
  (ratio_gt v d2 thr = true <-> Q2R thr < Q2R v / sqrt (Q2R d2)).
Proof.
  intros Hd. rewrite ratio_gt_prop.
  assert (HD : 0 < Q2R d2) by (replace 0 with (Q2R 0) by (unfold Q2R; simpl; lra); apply Qlt_Rlt; exact Hd).
  rewrite <- (real_decision (Q2R v) (Q2R d2) (Q2R thr) (sqrt (Q2R d2)) (sqrt_lt_R0 _ HD) (sqrt_sqrt _ (Rlt_le _ _ HD))).
  assert (Z0 : Q2R 0 = 0) by (unfold Q2R; simpl; lra).
  assert (L : forall a b : Q, (a < b)%Q <-> Q2R a < Q2R b) by (intros; split; [apply Qlt_Rlt|apply Rlt_Qlt]).
  assert (LE : forall a b : Q, (a <= b)%Q <-> Q2R a <= Q2R b) by (intros; split; [apply Qle_Rle|apply Rle_Qle]).
  rewrite !L, !LE, !Q2R_mult, Z0. tauto.
Qed.

(* the decisions of the model, written with the square root, away from the degenerate cases *)
Theorem supra2_real tl thr x y :
  (2 <= length x)%nat -> (2 <= length y)%nat -> (0 < pooled_d2 x y)%Q ->
  (supra2 tl thr x y = true <->
   Q2R thr < Q2R (tailv tl (lmean x - lmean y)) / sqrt (Q2R (pooled_d2 x y))).
Proof.
  intros Hx Hy Hd. unfold supra2. cbv zeta.
  destruct (Nat.ltb_spec (length x) 2) as [H|_]; [lia|].
  destruct (Nat.ltb_spec (length y) 2) as [H|_]; [lia|].
  cbn [orb]. destruct (Qeq_bool (pooled_d2 x y) 0) eqn:E.
  - apply Qeq_bool_iff in E. rewrite E in Hd. exfalso. exact (Qlt_irrefl 0 Hd).
  - apply ratio_gt_real. exact Hd.
Qed.

Theorem supra_p_real tl thr x y :
  (2 <= length (diffs x y))%nat -> ~ (paired_ss (diffs x y) == 0)%Q ->
  (0 < paired_ss (diffs x y) / qn (length (diffs x y) - 1) / qn (length (diffs x y)))%Q ->
  (supra_p tl thr x y = true <->
   Q2R thr < Q2R (tailv tl (lmean (diffs x y)))
             / sqrt (Q2R (paired_ss (diffs x y) / qn (length (diffs x y) - 1) / qn (length (diffs x y))))).
Proof.
  intros Hn Hss Hd. unfold supra_p. cbv zeta.
  destruct (Nat.ltb_spec (length (diffs x y)) 2) as [H|_]; [lia|].
  destruct (Qeq_bool (paired_ss (diffs x y)) 0) eqn:E.
  - apply Qeq_bool_iff in E. contradiction.
  - apply ratio_gt_real. exact Hd.
Qed.
