(* Proofs/ModularitySelect.v — C07: the decision rule of the optimisers (Model/ModularitySelect.v) yields good runs.
   * argmax_first = first index of the maximum (NumPy's tie rule);
   * select: a chosen target is a module slot of the level, is not the node's own module, its exact gain exceeds the
     threshold, is maximal, and is the first maximal one; no choice = no slot's gain exceeds the threshold;
   * every move list produced by sweep / sweeps from ANY permutation list is a [good_run] (for a threshold >= 0), and the
     state sweeps returns is the replay of that move list. No hypothesis on the run remains. *)
From Coq Require Import QArith Qring Lia Lqa Arith List Bool ZArith Setoid.
From BCT Require Import Base.Mat Base.SumQ Base.ListX Model.Modularity Model.ModularitySelect Proofs.ModularitySums
  Proofs.ModularityQ Proofs.ModularityGain.
Import ListNotations.
Open Scope Q_scope.

Lemma Qltb_t a b : Qltb a b = true -> a < b.
Proof.
  unfold Qltb. intros H. apply Qnot_le_lt. intro L. apply Qle_bool_iff in L. rewrite L in H. discriminate.
Qed.
Lemma Qltb_f a b : Qltb a b = false -> b <= a.
Proof. unfold Qltb. intros H. apply Qle_bool_iff. destruct (Qle_bool b a); [reflexivity|discriminate]. Qed.

(* ---------- argmax ---------- *)
Definition is_first_max (L : list Q) (mb : nat) (mx : Q) : Prop :=
  (mb < length L)%nat /\ nth mb L 0 = mx /\ (forall j, (j < length L)%nat -> nth j L 0 <= mx) /\
  (forall j, (j < mb)%nat -> nth j L 0 < mx).

Lemma argmax_from_spec l : forall pre best bv,
  (best < length pre)%nat -> nth best pre 0 = bv ->
  (forall j, (j < length pre)%nat -> nth j pre 0 <= bv) -> (forall j, (j < best)%nat -> nth j pre 0 < bv) ->
  is_first_max (pre ++ l) (fst (argmax_from (length pre) best bv l)) (snd (argmax_from (length pre) best bv l)).
Proof.
  induction l as [|x r IH]; intros pre best bv Hb Hn Hle Hlt; cbn [argmax_from].
  - rewrite app_nil_r. cbn [fst snd]. repeat split; assumption.
  - assert (EL : length (pre ++ [x]) = S (length pre)) by (rewrite app_length; cbn [length]; lia).
    replace (pre ++ x :: r) with ((pre ++ [x]) ++ r) by (rewrite <- app_assoc; reflexivity).
    destruct (Qltb bv x) eqn:E.
    + apply Qltb_t in E. rewrite <- EL. apply IH.
      * rewrite EL. lia.
      * rewrite app_nth2 by lia. rewrite Nat.sub_diag. reflexivity.
      * intros j Hj. rewrite EL in Hj. destruct (Nat.eq_dec j (length pre)) as [->|Hne].
        -- rewrite app_nth2 by lia. rewrite Nat.sub_diag. cbn [nth]. apply Qle_refl.
        -- rewrite app_nth1 by lia. specialize (Hle j ltac:(lia)). lra.
      * intros j Hj. rewrite app_nth1 by lia. specialize (Hle j Hj). lra.
    + apply Qltb_f in E. rewrite <- EL. apply IH.
      * rewrite EL. lia.
      * rewrite app_nth1 by lia. exact Hn.
      * intros j Hj. rewrite EL in Hj. destruct (Nat.eq_dec j (length pre)) as [->|Hne].
        -- rewrite app_nth2 by lia. rewrite Nat.sub_diag. cbn [nth]. exact E.
        -- rewrite app_nth1 by lia. apply Hle. lia.
      * intros j Hj. rewrite app_nth1 by lia. apply Hlt. exact Hj.
Qed.

Theorem argmax_first_spec L mb mx : argmax_first L = Some (mb, mx) -> is_first_max L mb mx.
Proof.
  destruct L as [|x r]; cbn [argmax_first]; [discriminate|]. intros E. injection E as E.
  pose proof (argmax_from_spec r [x] O x) as H. cbn [length] in H. rewrite E in H. cbn [fst snd app] in H.
  apply H; [lia|reflexivity| |intros j Hj; lia].
  intros j Hj. assert (j = O) by lia. subst j. cbn [nth]. apply Qle_refl.
Qed.

Lemma argmax_first_none L : argmax_first L = None -> L = [].
Proof. destruct L; [reflexivity|discriminate]. Qed.

(* ---------- select ---------- *)
Section SelectProofs.
Variable N : nat.
Variable thr : Q.
Variable maxit : option nat.
Variable gain : state -> nat -> nat -> Q.
Variable move : state -> nat -> nat -> state.
Variable skey : state -> nat -> nat -> list Q.

Lemma dq_length st u : length (dq_vec N gain st u) = N.
Proof. unfold dq_vec. rewrite map_length, seq_length. reflexivity. Qed.

Lemma dq_nth st u t : (t < N)%nat ->
  nth t (dq_vec N gain st u) 0 = if Nat.eqb t (lab st u) then 0 else Qred (gain st u t).
Proof.
  intros Ht. unfold dq_vec.
  exact (nth_map_seq (fun t0 => if Nat.eqb t0 (lab st u) then 0 else Qred (gain st u t0)) 0 N t Ht).
Qed.

(* what the code's rule guarantees about the chosen target, and about declining to move *)
Theorem select_some st u mb : select N thr gain skey st u = Some mb ->
  (mb < N)%nat /\
  (0 <= thr -> lab st u <> mb /\ thr < gain st u mb) /\
  (forall t, (t < N)%nat -> t <> lab st u -> mb <> lab st u -> gain st u t <= gain st u mb) /\
  (forall t, (t < mb)%nat -> t <> lab st u -> mb <> lab st u -> gain st u t < gain st u mb).
Proof.
  unfold select, decide. cbv zeta.
  destruct (argmax_first (dq_vec N gain st u)) as [[m mx]|] eqn:EA; [|cbn [fst]; discriminate].
  destruct (Qltb thr mx) eqn:ET; cbn [fst]; [|discriminate]. intros E. injection E as ->.
  apply Qltb_t in ET. destruct (argmax_first_spec _ _ _ EA) as (Hl & Hn & Hmax & Hfirst).
  rewrite dq_length in Hl, Hmax. rewrite (dq_nth st u mb Hl) in Hn.
  split; [exact Hl|]. split; [|split].
  - intros H0. destruct (Nat.eqb_spec mb (lab st u)) as [Eq|Ne].
    + exfalso. rewrite <- Hn in ET. lra.
    + split; [congruence|]. rewrite <- Hn in ET. rewrite Qred_correct in ET. exact ET.
  - intros t Ht Hne Hmb. specialize (Hmax t Ht). rewrite (dq_nth st u t Ht) in Hmax.
    destruct (Nat.eqb_spec t (lab st u)); [contradiction|]. destruct (Nat.eqb_spec mb (lab st u)); [contradiction|].
    rewrite <- Hn, !Qred_correct in Hmax. exact Hmax.
  - intros t Ht Hne Hmb. specialize (Hfirst t Ht). rewrite (dq_nth st u t ltac:(lia)) in Hfirst.
    destruct (Nat.eqb_spec t (lab st u)); [contradiction|]. destruct (Nat.eqb_spec mb (lab st u)); [contradiction|].
    rewrite <- Hn, !Qred_correct in Hfirst. exact Hfirst.
Qed.

Theorem select_none st u : select N thr gain skey st u = None ->
  forall t, (t < N)%nat -> t <> lab st u -> gain st u t <= thr.
Proof.
  unfold select, decide. cbv zeta. intros E t Ht Hne.
  destruct (argmax_first (dq_vec N gain st u)) as [[m mx]|] eqn:EA.
  - destruct (Qltb thr mx) eqn:ET; cbn [fst] in E; [discriminate|]. apply Qltb_f in ET.
    destruct (argmax_first_spec _ _ _ EA) as (_ & _ & Hmax & _). rewrite dq_length in Hmax.
    specialize (Hmax t Ht). rewrite (dq_nth st u t Ht) in Hmax.
    destruct (Nat.eqb_spec t (lab st u)); [contradiction|]. rewrite Qred_correct in Hmax. lra.
  - apply argmax_first_none in EA. pose proof (dq_length st u) as HL. rewrite EA in HL. cbn [length] in HL. lia.
Qed.

Hypothesis thr_nonneg : 0 <= thr.

Lemma select_legal st u mb : (u < N)%nat -> select N thr gain skey st u = Some mb ->
  legal N st u mb /\ 0 < gain st u mb.
Proof.
  intros Hu E. destruct (select_some st u mb E) as (Hm & H & _). destruct (H thr_nonneg) as [Hne Hg].
  split; [split; [exact Hu|split; [exact Hm|exact Hne]]|lra].
Qed.

(* ---------- sweep / sweeps produce good runs ---------- *)
Lemma run_moves_app a : forall b st, run_moves move st (a ++ b) = run_moves move (run_moves move st a) b.
Proof. induction a as [|[u mb] r IH]; intros b st; cbn [app run_moves]; [reflexivity|apply IH]. Qed.

Lemma good_run_app a : forall b st, good_run N gain move st a -> good_run N gain move (run_moves move st a) b ->
  good_run N gain move st (a ++ b).
Proof.
  induction a as [|[u mb] r IH]; intros b st Ha Hb; cbn [app run_moves] in *; [exact Hb|].
  inversion Ha as [|? ? ? ? Hl Hg Hr]; subst. constructor; [exact Hl|exact Hg|apply IH; assumption].
Qed.

Lemma sweep_good perm : forall st,
  good_run N gain move st (moves_of (fst (sweep N thr gain move skey st perm))) /\
  snd (sweep N thr gain move skey st perm) = run_moves move st (moves_of (fst (sweep N thr gain move skey st perm))).
Proof.
  induction perm as [|u r IH]; intros st; cbn [sweep].
  - cbn [fst snd moves_of flat_map run_moves]. split; [constructor|reflexivity].
  - destruct (Nat.ltb_spec u N) as [Hu|Hu]; [|apply IH]. cbv zeta. cbn [fst snd].
    unfold moves_of. cbn [flat_map fst snd]. fold (select N thr gain skey st u).
    destruct (select N thr gain skey st u) as [mb|] eqn:E.
    + destruct (IH (move st u mb)) as [G F]. destruct (select_legal st u mb Hu E) as [Hl Hg].
      cbn [app run_moves]. split; [constructor; [exact Hl|exact Hg|exact G]|exact F].
    + cbn [app]. apply IH.
Qed.

Theorem sweeps_good perms : forall it st,
  let r := sweeps N thr maxit gain move skey it st perms in
  good_run N gain move st (lvl_moves (fst (fst r))) /\ snd (fst r) = run_moves move st (lvl_moves (fst (fst r))).
Proof.
  induction perms as [|p r IH]; intros it st; cbn [sweeps].
  - cbn [fst snd]. unfold lvl_moves. cbn [map concat run_moves]. split; [constructor|reflexivity].
  - destruct (over maxit it).
    + cbn [fst snd]. unfold lvl_moves. cbn [map concat run_moves]. split; [constructor|reflexivity].
    + cbv zeta. destruct (sweep_good p st) as [G F].
      destruct (moves_of (fst (sweep N thr gain move skey st p))) as [|m ms] eqn:EM.
      * cbn [fst snd]. unfold lvl_moves. cbn [map concat]. rewrite EM. cbn [app]. split; [constructor|exact F].
      * cbn [fst snd]. unfold lvl_moves. cbn [map concat]. rewrite EM.
        specialize (IH (S it) (snd (sweep N thr gain move skey st p))). cbv zeta in IH. destruct IH as [G2 F2].
        fold (lvl_moves (fst (fst (sweeps N thr maxit gain move skey (S it) (snd (sweep N thr gain move skey st p)) r)))).
        split.
        -- apply good_run_app; [exact G|rewrite <- F; exact G2].
        -- rewrite run_moves_app, <- F. exact F2.
Qed.

(* the leftover permutations are a suffix that is strictly shorter whenever a sweep was executed *)
Lemma sweeps_rest perms : forall it st,
  (length (fst (snd (sweeps N thr maxit gain move skey it st perms))) <= length perms)%nat.
Proof.
  induction perms as [|p r IH]; intros it st; cbn [sweeps]; [cbn; lia|].
  destruct (over maxit it); [cbn [fst snd length]; lia|]. cbv zeta.
  destruct (moves_of (fst (sweep N thr gain move skey st p))); cbn [fst snd length]; [lia|].
  specialize (IH (S it) (snd (sweep N thr gain move skey st p))). lia.
Qed.
End SelectProofs.
