(* Proofs/EquivModelsWalks.v — C04 for the statement-level model of findwalks (Model/Walks.v: the loop
   `for q in range(2, n): CIJpwr = dot(CIJpwr, CIJ)`), via C18: Wq[:,:,q] = (binarized A)^q, and the q-th power of
   the renumbered matrix is the renumbered q-th power. *)
From Coq Require Import ZArith Lia Arith List Bool.
From BCT Require Import Base.Mat Base.ListX Model.SymTerm Proofs.EquivModels Model.Walks Proofs.Walks.
Import ListNotations.
Open Scope Z_scope.

Section WalksEquiv.
Variables (n : nat) (p : nat -> nat).
Hypothesis Hp : perm_on n p.

Lemma mpowZ_pm (A : mat Z) : forall q i j, mpowZ n (binz (pm p A)) q i j = mpowZ n (binz A) q (p i) (p j).
Proof.
  induction q as [|q IH]; intros i j; cbn [mpowZ].
  - unfold eyeZ. destruct (Nat.eqb i j) eqn:E.
    + apply Nat.eqb_eq in E. subst j. rewrite Nat.eqb_refl. reflexivity.
    + apply Nat.eqb_neq in E. destruct (Nat.eqb (p i) (p j)) eqn:E2; [|reflexivity].
      apply Nat.eqb_eq in E2. exfalso. apply E. apply (perm_inj n p _ _ Hp E2).
  - unfold mmulZ.
    rewrite <- (sumn_reindex n p (fun x => mpowZ n (binz A) q (p i) x * binz A x (p j)) Hp).
    apply sumn_ext. intros k _. rewrite IH. reflexivity.
Qed.

Lemma sum2_reindex (f : nat -> nat -> Z) : sum2 (fun i j => f (p i) (p j)) n = sum2 f n.
Proof.
  unfold sum2. rewrite (sumn_reindex n p (fun x => sumn (fun j => f x (p j)) n) Hp).
  apply sumn_ext. intros i _. apply (sumn_reindex n p (f i) Hp).
Qed.

(* findwalks on the renumbered network: refused together (n < 2); otherwise every slice Wq[:,:,q] is permuted on both
   node axes and the walk-length distribution wlq and the total twalk are unchanged *)
Theorem findwalks_model_equivariant (A : mat Z) :
  (findwalks n (pm p A) = None <-> findwalks n A = None) /\
  forall Wq' Wq, findwalks n (pm p A) = Some Wq' -> findwalks n A = Some Wq ->
    (forall q i j, (q < n)%nat -> (i < n)%nat -> (j < n)%nat -> Wq' q i j = Wq q (p i) (p j)) /\
    (forall q, (q < n)%nat -> wlq n Wq' q = wlq n Wq q) /\
    twalk n Wq' = twalk n Wq.
Proof.
  split; [rewrite !findwalks_rejects; tauto|].
  intros Wq' Wq H' H.
  destruct (findwalks_power n (pm p A) Wq' H') as [_ [Z' P']]. destruct (findwalks_power n A Wq H) as [_ [Z0 P0]].
  assert (E : forall q i j, (q < n)%nat -> (i < n)%nat -> (j < n)%nat -> Wq' q i j = Wq q (p i) (p j)).
  { intros q i j Hq Hi Hj. pose proof (perm_lt n p i Hp Hi) as Hpi. pose proof (perm_lt n p j Hp Hj) as Hpj.
    destruct q as [|q].
    - rewrite (Z' i j Hi Hj), (Z0 (p i) (p j) Hpi Hpj). reflexivity.
    - rewrite (proj1 (P' (S q) i j (conj (le_n_S _ _ (Nat.le_0_l q)) Hq) Hi Hj)).
      rewrite (proj1 (P0 (S q) (p i) (p j) (conj (le_n_S _ _ (Nat.le_0_l q)) Hq) Hpi Hpj)). apply mpowZ_pm. }
  assert (EW : forall q, (q < n)%nat -> wlq n Wq' q = wlq n Wq q).
  { intros q Hq. unfold wlq. rewrite <- (sum2_reindex (Wq q)). apply sum2_ext. intros i j Hi Hj. apply E; assumption. }
  split; [exact E|]. split; [exact EW|]. unfold twalk. apply sumn_ext. exact EW.
Qed.
End WalksEquiv.
