(* Proofs/ModularityGain.v — C07: bookkeeping invariant, exactness of the gain formulas, monotone runs. *)
From Coq Require Import QArith Qring Qfield Lia Lqa Arith List Bool ZArith Setoid Morphisms.
From BCT Require Import Base.Mat Base.SumQ Base.ListX Model.Modularity Proofs.ModularitySums Proofs.ModularityQ.
Import ListNotations.
Open Scope Q_scope.

(* ---------- module sums under a label update ---------- *)
Lemma is_vupd lb u mb j t :
  is_ (vupd lb u mb j) t == is_ (lb j) t + is_ u j * (is_ mb t - is_ (lb u) t).
Proof.
  unfold vupd, is_, ind. rewrite (Nat.eqb_sym j u).
  destruct (Nat.eqb_spec u j) as [->|Hne]; cbv iota.
  - destruct (Nat.eqb (lb j) t), (Nat.eqb mb t); ring.
  - destruct (Nat.eqb (lb j) t); ring.
Qed.

Lemma msum_lab_ext n lb lb' t f : (forall j, (j < n)%nat -> lb j = lb' j) -> msum n lb t f == msum n lb' t f.
Proof. intros H. apply sumQ_ext; intros j Hj. rewrite (H j Hj). reflexivity. Qed.

Lemma msum_vupd n lb u mb t f : (u < n)%nat ->
  msum n (vupd lb u mb) t f == msum n lb t f + (is_ mb t - is_ (lb u) t) * f u.
Proof.
  intros Hu. unfold msum.
  rewrite (sumQ_ext _ (fun j => is_ (lb j) t * f j + is_ u j * ((is_ mb t - is_ (lb u) t) * f j))).
  - rewrite sumQ_add. rewrite (collapse (fun j => (is_ mb t - is_ (lb u) t) * f j) n u Hu). reflexivity.
  - intros j Hj. rewrite is_vupd. ring.
Qed.

Lemma msum_lin n lb t a b x y :
  msum n lb t (fun j => a * x j + b * y j) == a * msum n lb t x + b * msum n lb t y.
Proof.
  unfold msum. rewrite <- !sumQ_scal, <- sumQ_add. apply sumQ_ext; intros; ring.
Qed.

Lemma set_lab_spec N lb u mb j : (j < N)%nat -> set_lab N lb u mb j = vupd lb u mb j.
Proof. intros H. unfold set_lab. apply tabv_spec; exact H. Qed.

(* ---------- one channel: the move keeps knm, km equal to the sums recomputed from the labels ---------- *)
Lemma chan_inv_lab_ext n K M deg lb lb' c : (forall j, (j < n)%nat -> lb j = lb' j) ->
  chan_inv n K M deg lb c -> chan_inv n K M deg lb' c.
Proof.
  intros H [H1 H2]. split.
  - intros i t Hi Ht. rewrite (H1 i t Hi Ht), !knm_of_spec. apply msum_lab_ext; exact H.
  - intros t Ht. rewrite (H2 t Ht), !km_of_spec. apply msum_lab_ext; exact H.
Qed.

Lemma chan_move_inv n N M deg lb c u mb : (n <= N)%nat -> (u < n)%nat ->
  chan_inv n N M deg lb c ->
  chan_inv n N M deg (set_lab N lb u mb) (chan_move N (fun i => M i u) (deg u) (lb u) mb c).
Proof.
  intros HnN Hu [H1 H2].
  apply (chan_inv_lab_ext n N M deg (vupd lb u mb)).
  { intros j Hj. symmetry. apply set_lab_spec. lia. }
  split.
  - intros i t Hi Ht. unfold chan_move. cbn [knm]. rewrite tabQ_spec by lia.
    rewrite knm_of_spec, (msum_vupd n lb u mb t (fun j => M i j) Hu), <- knm_of_spec, <- (H1 i t Hi Ht).
    unfold is_, ind. rewrite (Nat.eqb_sym mb t), (Nat.eqb_sym (lb u) t).
    destruct (Nat.eqb t (lb u)), (Nat.eqb t mb); ring.
  - intros t Ht. unfold chan_move. cbn [km]. rewrite tabvQ_spec by lia.
    rewrite km_of_spec, (msum_vupd n lb u mb t deg Hu), <- km_of_spec, <- (H2 t Ht).
    unfold is_, ind. rewrite (Nat.eqb_sym mb t), (Nat.eqb_sym (lb u) t).
    destruct (Nat.eqb t (lb u)), (Nat.eqb t mb); ring.
Qed.

(* ---------- initial states ---------- *)
(* Louvain levels: m = arange(n)+1, knm = W.copy(), km = k.copy() *)
Lemma init_chan_singletons n M deg :
  chan_inv n n M deg (tabv O n ident) (mkchan (tabQ n n M) deg).
Proof.
  apply (chan_inv_lab_ext n n M deg ident).
  { intros j Hj. symmetry. apply tabv_spec; exact Hj. }
  split.
  - intros i t Hi Ht. cbn [knm]. rewrite tabQ_spec by assumption. rewrite knm_of_spec. unfold msum, ident.
    rewrite (collapse' (fun j => M i j) n t Ht). reflexivity.
  - intros t Ht. cbn [km]. rewrite km_of_spec. unfold msum, ident.
    rewrite (collapse' deg n t Ht). reflexivity.
Qed.

(* finetune-style initialisation from a partition: knm[:,m] = sum(M[:, ci==m+1], axis=1) *)
Lemma colsum_knm_of n M lb t :
  sumQ (fun i => knm_of n M lb i t) n == msum n lb t (fun j => sumQ (fun i => M i j) n).
Proof.
  rewrite (sumQ_ext _ (fun i => sumQ (fun j => is_ (lb j) t * M i j) n)) by (intros; apply knm_of_spec).
  rewrite sumQ_fubini. unfold msum. apply sumQ_ext; intros j Hj. rewrite sumQ_scal. reflexivity.
Qed.

(* ---------- the effect of one move on a pair objective ---------- *)
Lemma delta_vupd lb u mb i j : lb u <> mb ->
  delta (vupd lb u mb) i j - delta lb i j ==
  is_ u i * ((1 - is_ u j) * (is_ (lb j) mb - is_ (lb j) (lb u))) +
  is_ u j * ((1 - is_ u i) * (is_ (lb i) mb - is_ (lb i) (lb u))).
Proof.
  intros Hne. unfold delta, vupd, is_, ind. rewrite (Nat.eqb_sym i u), (Nat.eqb_sym j u).
  destruct (Nat.eqb_spec u i) as [<-|Hi]; destruct (Nat.eqb_spec u j) as [<-|Hj]; cbv iota.
  - rewrite !Nat.eqb_refl. ring.
  - rewrite (Nat.eqb_sym mb (lb j)), (Nat.eqb_sym (lb u) (lb j)). destruct (Nat.eqb (lb j) mb), (Nat.eqb (lb j) (lb u)); ring.
  - destruct (Nat.eqb (lb i) mb), (Nat.eqb (lb i) (lb u)); ring.
  - destruct (Nat.eqb (lb i) (lb j)); ring.
Qed.

Lemma row_part n lb u mb (f : vec Q) : (u < n)%nat -> lb u <> mb ->
  sumQ (fun j => (1 - is_ u j) * (is_ (lb j) mb - is_ (lb j) (lb u)) * f j) n ==
  msum n lb mb f - msum n lb (lb u) f + f u.
Proof.
  intros Hu Hne. unfold msum.
  rewrite (sumQ_ext _ (fun j => (is_ (lb j) mb * f j - is_ (lb j) (lb u) * f j) -
                                is_ u j * ((is_ (lb j) mb - is_ (lb j) (lb u)) * f j))) by (intros; ring).
  rewrite sumQ_sub, sumQ_sub.
  rewrite (collapse (fun j => (is_ (lb j) mb - is_ (lb j) (lb u)) * f j) n u Hu).
  rewrite is_refl, (is_neq (lb u) mb Hne). ring.
Qed.

Theorem obj_move n B lb u mb : (u < n)%nat -> lb u <> mb ->
  obj n B (vupd lb u mb) - obj n B lb ==
  (msum n lb mb (fun j => B u j) - msum n lb (lb u) (fun j => B u j) + B u u) +
  (msum n lb mb (fun i => B i u) - msum n lb (lb u) (fun i => B i u) + B u u).
Proof.
  intros Hu Hne. rewrite !obj_spec. rewrite <- (row_part n lb u mb (fun j => B u j) Hu Hne).
  rewrite <- (row_part n lb u mb (fun i => B i u) Hu Hne).
  unfold sum2Q. rewrite <- sumQ_sub.
  rewrite (sumQ_ext _ (fun i =>
     is_ u i * sumQ (fun j => (1 - is_ u j) * (is_ (lb j) mb - is_ (lb j) (lb u)) * B i j) n +
     sumQ (fun j => is_ u j * ((1 - is_ u i) * (is_ (lb i) mb - is_ (lb i) (lb u)) * B i j)) n)).
  - rewrite sumQ_add.
    rewrite (collapse (fun i => sumQ (fun j => (1 - is_ u j) * (is_ (lb j) mb - is_ (lb j) (lb u)) * B i j) n) n u Hu).
    apply Qplus_comp; [reflexivity|].
    rewrite sumQ_fubini.
    rewrite (sumQ_ext _ (fun j => is_ u j * sumQ (fun i => (1 - is_ u i) * (is_ (lb i) mb - is_ (lb i) (lb u)) * B i j) n)).
    + apply (collapse (fun j => sumQ (fun i => (1 - is_ u i) * (is_ (lb i) mb - is_ (lb i) (lb u)) * B i j) n) n u Hu).
    + intros j Hj. rewrite <- sumQ_scal. apply sumQ_ext; intros; ring.
  - intros i Hi. rewrite <- sumQ_sub. rewrite <- sumQ_scal, <- sumQ_add. apply sumQ_ext; intros j Hj.
    assert (E : delta (vupd lb u mb) i j * B i j - delta lb i j * B i j ==
                (delta (vupd lb u mb) i j - delta lb i j) * B i j) by ring.
    rewrite E, (delta_vupd lb u mb i j Hne). ring.
Qed.

(* ---------- master lemma: one move on  sum_same (M_ij - g R_i C_j / s) ---------- *)
Lemma Qhalf_obj n M g s lb :
  Qhalf n M g s lb == obj n (fun i j => M i j - g * sumQ (fun t => M i t) n * sumQ (fun t => M t j) n / s) lb.
Proof. rewrite Qhalf_spec, obj_spec. apply sum2Q_ext; intros; ring. Qed.

Section HalfMove.
Variables (n : nat) (M : mat Q) (g s : Q) (lb : vec nat) (u mb : nat).
Hypothesis Hu : (u < n)%nat.
Hypothesis Hne : lb u <> mb.
Let R := fun i => sumQ (fun t => M i t) n.
Let C := fun j => sumQ (fun t => M t j) n.
Let ma := lb u.

Lemma Qhalf_move :
  Qhalf n M g s (vupd lb u mb) - Qhalf n M g s lb ==
  ((msum n lb mb (fun j => M u j) - msum n lb ma (fun j => M u j) + M u u)
     - g * R u * (msum n lb mb C - msum n lb ma C + C u) / s) +
  ((msum n lb mb (fun i => M i u) - msum n lb ma (fun i => M i u) + M u u)
     - g * C u * (msum n lb mb R - msum n lb ma R + R u) / s).
Proof.
  rewrite !Qhalf_obj. rewrite (obj_move n _ lb u mb Hu Hne). fold ma.
  assert (Er : forall t, msum n lb t (fun j => M u j - g * sumQ (fun t0 => M u t0) n * sumQ (fun t0 => M t0 j) n / s) ==
                         msum n lb t (fun j => M u j) - g * R u * msum n lb t C / s).
  { intros t. rewrite <- (msum_ext n lb t (fun j => 1 * M u j + (- g * R u * / s) * C j)).
    - rewrite (msum_lin n lb t 1 (- g * R u * / s) (fun j => M u j) C). unfold Qdiv. ring.
    - intros j _. unfold R, C, Qdiv. ring. }
  assert (Ec : forall t, msum n lb t (fun i => M i u - g * sumQ (fun t0 => M i t0) n * sumQ (fun t0 => M t0 u) n / s) ==
                         msum n lb t (fun i => M i u) - g * C u * msum n lb t R / s).
  { intros t. rewrite <- (msum_ext n lb t (fun i => 1 * M i u + (- g * C u * / s) * R i)).
    - rewrite (msum_lin n lb t 1 (- g * C u * / s) (fun i => M i u) R). unfold Qdiv. ring.
    - intros i _. unfold R, C, Qdiv. ring. }
  rewrite !Er, !Ec. unfold R, C, Qdiv. ring.
Qed.
End HalfMove.

Lemma Qhalf_lab_ext n M g s lb lb' : (forall j, (j < n)%nat -> lb j = lb' j) -> Qhalf n M g s lb == Qhalf n M g s lb'.
Proof.
  intros H. rewrite !Qhalf_spec. apply sum2Q_ext; intros i j Hi Hj. unfold delta. rewrite (H i Hi), (H j Hj). reflexivity.
Qed.
Lemma obj_lab_ext n B lb lb' : (forall j, (j < n)%nat -> lb j = lb' j) -> obj n B lb == obj n B lb'.
Proof.
  intros H. rewrite !obj_spec. apply sum2Q_ext; intros i j Hi Hj. unfold delta. rewrite (H i Hi), (H j Hj). reflexivity.
Qed.
Lemma Qdir_lab_ext n W g lb lb' : (forall j, (j < n)%nat -> lb j = lb' j) -> Qdir n W g lb == Qdir n W g lb'.
Proof. intros H. rewrite !Qdir_Qhalf. rewrite (Qhalf_lab_ext n W g _ lb lb' H). reflexivity. Qed.

(* ---------- bookkeeping invariants of the four families ---------- *)
(* K = number of module slots = n in every (repaired) routine *)
Definition Bk_inv_und (n : nat) (W : mat Q) (k : vec Q) (st : state) : Prop :=
  lab_lt n n (lab st) /\ chan_inv n n W k (lab st) (ca st).
Definition Bk_inv_dir (n : nat) (W : mat Q) (ko ki : vec Q) (st : state) : Prop :=
  lab_lt n n (lab st) /\ chan_inv n n W ko (lab st) (ca st) /\ chan_inv n n (transp W) ki (lab st) (cb st).
Definition Bk_inv_sign (n : nat) (W0 W1 : mat Q) (kn0 kn1 : vec Q) (st : state) : Prop :=
  lab_lt n n (lab st) /\ chan_inv n n W0 kn0 (lab st) (ca st) /\ chan_inv n n W1 kn1 (lab st) (cb st).
Definition Bk_inv_B (n : nat) (B : mat Q) (H : vec Q) (st : state) : Prop :=
  lab_lt n n (lab st) /\ chan_inv n n B H (lab st) (ca st).
(* a move the code can make: node u < n to a module slot mb < n different from its own *)
Definition legal (n : nat) (st : state) (u mb : nat) : Prop := (u < n)%nat /\ (mb < n)%nat /\ lab st u <> mb.
(* (probtune's random moves may have mb = ma; the bookkeeping lemmas below do not need lab st u <> mb) *)

Lemma lab_lt_set n lb u mb : lab_lt n n lb -> (mb < n)%nat -> lab_lt n n (set_lab n lb u mb).
Proof.
  intros H Hm j Hj. rewrite set_lab_spec by exact Hj. unfold vupd. destruct (Nat.eqb j u); [exact Hm|apply H; exact Hj].
Qed.

Theorem move_preserves_bk_inv_und n W k st u mb : (u < n)%nat -> (mb < n)%nat ->
  Bk_inv_und n W k st -> Bk_inv_und n W k (move_und n W k st u mb).
Proof.
  intros Hu Hm [Hl Hc]. split; cbn [move_und lab ca].
  - apply lab_lt_set; assumption.
  - apply (chan_move_inv n n W k (lab st) (ca st) u mb (le_n n) Hu Hc).
Qed.

Theorem move_preserves_bk_inv_dir n W ko ki st u mb : (u < n)%nat -> (mb < n)%nat ->
  Bk_inv_dir n W ko ki st -> Bk_inv_dir n W ko ki (move_dir false n W ko ki st u mb).
Proof.
  intros Hu Hm (Hl & Ha & Hb). split; [|split]; cbn [move_dir lab ca cb].
  - apply lab_lt_set; assumption.
  - apply (chan_move_inv n n W ko (lab st) (ca st) u mb (le_n n) Hu Ha).
  - apply (chan_move_inv n n (transp W) ki (lab st) (cb st) u mb (le_n n) Hu Hb).
Qed.

Theorem move_preserves_bk_inv_sign n W0 W1 kn0 kn1 st u mb : (u < n)%nat -> (mb < n)%nat ->
  Bk_inv_sign n W0 W1 kn0 kn1 st -> Bk_inv_sign n W0 W1 kn0 kn1 (move_sign n W0 W1 kn0 kn1 st u mb).
Proof.
  intros Hu Hm (Hl & Ha & Hb). split; [|split]; cbn [move_sign lab ca cb].
  - apply lab_lt_set; assumption.
  - apply (chan_move_inv n n W0 kn0 (lab st) (ca st) u mb (le_n n) Hu Ha).
  - apply (chan_move_inv n n W1 kn1 (lab st) (cb st) u mb (le_n n) Hu Hb).
Qed.

Theorem move_preserves_bk_inv_B n B H st u mb : (u < n)%nat -> (mb < n)%nat ->
  Bk_inv_B n B H st -> Bk_inv_B n B H (move_B n B H st u mb).
Proof.
  intros Hu Hm [Hl Hc]. split; cbn [move_B lab ca].
  - apply lab_lt_set; assumption.
  - apply (chan_move_inv n n B H (lab st) (ca st) u mb (le_n n) Hu Hc).
Qed.

(* ---------- initial invariants ---------- *)
Lemma lab_lt_ident n : lab_lt n n (tabv O n ident).
Proof. intros j Hj. rewrite tabv_spec by exact Hj. exact Hj. Qed.

(* Louvain levels (und / dir repaired / sign / community_louvain after the first level) *)
Theorem init_bk_inv_louvain_und n W k : Bk_inv_und n W k (mkst (tabv O n ident) (mkchan (tabQ n n W) k) chan0).
Proof. split; [apply lab_lt_ident|apply init_chan_singletons]. Qed.

Theorem init_bk_inv_louvain_sign n W0 W1 kn0 kn1 :
  Bk_inv_sign n W0 W1 kn0 kn1 (mkst (tabv O n ident) (mkchan (tabQ n n W0) kn0) (mkchan (tabQ n n W1) kn1)).
Proof. split; [apply lab_lt_ident|split; apply init_chan_singletons]. Qed.

Theorem init_bk_inv_louvain_dirfix n W ko ki :
  Bk_inv_dir n W ko ki (mkst (tabv O n ident) (mkchan (tabQ n n W) ko) (mkchan (tabQ n n (transp W)) ki)).
Proof. split; [apply lab_lt_ident|split; apply init_chan_singletons]. Qed.

(* finetune-style: from an arbitrary partition lab0 with labels < n *)
Lemma init_chan_finetune n M lb : lab_lt n n lb ->
  let knm0 := tabQ n n (knm_of n M lb) in
  (forall i t, (i < n)%nat -> (t < n)%nat -> knm0 i t == knm_of n M lb i t) /\
  (forall i, (i < n)%nat -> tabvQ n (rowsum n knm0) i == sumQ (fun j => M i j) n) /\
  (forall t, (t < n)%nat -> tabvQ n (colsum n knm0) t == msum n lb t (fun j => sumQ (fun i => M i j) n)).
Proof.
  intros Hl knm0. split; [|split].
  - intros i t Hi Ht. apply tabQ_spec; assumption.
  - intros i Hi. rewrite tabvQ_spec by exact Hi. rewrite rowsum_spec.
    rewrite (sumQ_ext _ (fun t => knm_of n M lb i t)) by (intros; apply tabQ_spec; auto).
    apply rowsum_knm_of; exact Hl.
  - intros t Ht. rewrite tabvQ_spec by exact Ht. rewrite colsum_spec.
    rewrite (sumQ_ext _ (fun i => knm_of n M lb i t)) by (intros; apply tabQ_spec; auto).
    apply colsum_knm_of.
Qed.

Theorem init_bk_inv_finetune_und n W lab0 : lab_lt n n lab0 -> sym_on n W ->
  Bk_inv_und n W (snd (finetune_und_init n W lab0)) (fst (finetune_und_init n W lab0)) /\
  (forall i, (i < n)%nat -> snd (finetune_und_init n W lab0) i == sumQ (fun j => W i j) n).
Proof.
  intros Hl Hs. destruct (init_chan_finetune n W lab0 Hl) as (E1 & E2 & E3).
  unfold finetune_und_init. cbn [fst snd]. split; [split; [exact Hl|split]|exact E2]; cbn [lab ca knm km].
  - exact E1.
  - intros t Ht. rewrite (E3 t Ht), km_of_spec. apply msum_ext. intros j Hj. rewrite (E2 j Hj).
    apply sym_rowcol; assumption.
Qed.

Theorem init_bk_inv_finetune_dir n W lab0 : lab_lt n n lab0 ->
  let r := finetune_dir_init n W lab0 in
  Bk_inv_dir n W (fst (snd r)) (snd (snd r)) (fst r) /\
  (forall i, (i < n)%nat -> fst (snd r) i == sumQ (fun j => W i j) n) /\
  (forall i, (i < n)%nat -> snd (snd r) i == sumQ (fun j => W j i) n).
Proof.
  intros Hl r.
  destruct (init_chan_finetune n W lab0 Hl) as (E1 & E2 & E3).
  destruct (init_chan_finetune n (transp W) lab0 Hl) as (F1 & F2 & F3).
  subst r. unfold finetune_dir_init. cbn [fst snd]. split; [split; [exact Hl|split; split]|split; [exact E2|exact F2]]; cbn [lab ca cb knm km].
  - exact E1.
  - intros t Ht. rewrite (F3 t Ht), km_of_spec. apply msum_ext. intros j Hj. rewrite (E2 j Hj). reflexivity.
  - exact F1.
  - intros t Ht. rewrite (E3 t Ht), km_of_spec. apply msum_ext. intros j Hj. rewrite (F2 j Hj). reflexivity.
Qed.

Theorem init_bk_inv_finetune_sign n W0 W1 s0 s1 d0 d1 lab0 : lab_lt n n lab0 -> sym_on n W0 -> sym_on n W1 ->
  let p := mksp W0 W1 s0 s1 d0 d1 in
  let r := sign_init n p lab0 in
  Bk_inv_sign n W0 W1 (fst (snd r)) (snd (snd r)) (fst r) /\
  (forall i, (i < n)%nat -> fst (snd r) i == sumQ (fun j => W0 i j) n) /\
  (forall i, (i < n)%nat -> snd (snd r) i == sumQ (fun j => W1 i j) n).
Proof.
  intros Hl Hs0 Hs1 p r.
  destruct (init_chan_finetune n W0 lab0 Hl) as (E1 & E2 & E3).
  destruct (init_chan_finetune n W1 lab0 Hl) as (F1 & F2 & F3).
  subst r p. unfold sign_init. cbn [fst snd sW0 sW1]. split; [split; [exact Hl|split; split]|split; [exact E2|exact F2]]; cbn [lab ca cb knm km].
  - exact E1.
  - intros t Ht. rewrite (E3 t Ht), km_of_spec. apply msum_ext. intros j Hj. rewrite (E2 j Hj). apply sym_rowcol; assumption.
  - exact F1.
  - intros t Ht. rewrite (F3 t Ht), km_of_spec. apply msum_ext. intros j Hj. rewrite (F2 j Hj). apply sym_rowcol; assumption.
Qed.

(* ---------- exactness of the gain formulas ---------- *)
Lemma chan_knm n K M deg lb c i t : chan_inv n K M deg lb c -> (i < n)%nat -> (t < K)%nat ->
  knm c i t == msum n lb t (fun j => M i j).
Proof. intros [H _] Hi Ht. rewrite (H i t Hi Ht). apply knm_of_spec. Qed.
Lemma chan_km n K M deg lb c t : chan_inv n K M deg lb c -> (t < K)%nat -> km c t == msum n lb t deg.
Proof. intros [_ H] Ht. rewrite (H t Ht). apply km_of_spec. Qed.

(* directed: (dq_o + dq_i)/2 = (s/2) * (Q(after) - Q(before)), for ALL W *)
Theorem gain_exact_dir n W g ko ki st u mb :
  let s := stot n W in ~ s == 0 ->
  (forall i, (i < n)%nat -> ko i == sumQ (fun j => W i j) n) ->
  (forall i, (i < n)%nat -> ki i == sumQ (fun j => W j i) n) ->
  Bk_inv_dir n W ko ki st -> legal n st u mb ->
  gain_dir W g s ko ki st u mb == (s / 2) * (Qdir n W g (vupd (lab st) u mb) - Qdir n W g (lab st)).
Proof.
  intros s Hs Hko Hki (Hl & Ha & Hb) (Hu & Hm & Hne).
  rewrite !Qdir_Qhalf. fold s.
  assert (E : (1 / s) * Qhalf n W g s (vupd (lab st) u mb) - (1 / s) * Qhalf n W g s (lab st) ==
              (1 / s) * (Qhalf n W g s (vupd (lab st) u mb) - Qhalf n W g s (lab st))) by ring.
  rewrite E, (Qhalf_move n W g s (lab st) u mb Hu Hne). clear E.
  unfold gain_dir. cbv zeta.
  pose proof (Hl u Hu) as Hma.
  rewrite !(chan_knm n n W ko (lab st) (ca st) u _ Ha Hu) by assumption.
  rewrite !(chan_knm n n (transp W) ki (lab st) (cb st) u _ Hb Hu) by assumption.
  rewrite !(chan_km n n W ko (lab st) (ca st) _ Ha) by assumption.
  rewrite !(chan_km n n (transp W) ki (lab st) (cb st) _ Hb) by assumption.
  rewrite (Hko u Hu), (Hki u Hu).
  rewrite (msum_ext n (lab st) mb ko (fun i => sumQ (fun t => W i t) n)) by (intros; apply Hko; auto).
  rewrite (msum_ext n (lab st) (lab st u) ko (fun i => sumQ (fun t => W i t) n)) by (intros; apply Hko; auto).
  rewrite (msum_ext n (lab st) mb ki (fun j => sumQ (fun t => W t j) n)) by (intros; apply Hki; auto).
  rewrite (msum_ext n (lab st) (lab st u) ki (fun j => sumQ (fun t => W t j) n)) by (intros; apply Hki; auto).
  unfold transp. field. exact Hs.
Qed.

(* undirected: dq = (s/2) * (Q(after) - Q(before)), W symmetric *)
Lemma chan_inv_transp_sym n K W deg lb c : sym_on n W -> chan_inv n K W deg lb c -> chan_inv n K (transp W) deg lb c.
Proof.
  intros Hs [H1 H2]. split; [|exact H2]. intros i t Hi Ht. rewrite (H1 i t Hi Ht), !knm_of_spec.
  apply msum_ext. intros j Hj. unfold transp. apply Hs; assumption.
Qed.

Theorem gain_exact_und n W g k st u mb :
  let s := stot n W in ~ s == 0 -> sym_on n W ->
  (forall i, (i < n)%nat -> k i == sumQ (fun j => W i j) n) ->
  Bk_inv_und n W k st -> legal n st u mb ->
  gain_und W g s k st u mb == (s / 2) * (Qund n W g (vupd (lab st) u mb) - Qund n W g (lab st)).
Proof.
  intros s Hs Hsym Hk [Hl Hc] Hleg.
  rewrite !(Qund_Qdir n W g _ Hsym).
  pose (st' := mkst (lab st) (ca st) (ca st)).
  assert (Hinv : Bk_inv_dir n W k k st').
  { split; [exact Hl|split; [exact Hc|]]. apply chan_inv_transp_sym; assumption. }
  assert (Hki : forall i, (i < n)%nat -> k i == sumQ (fun j => W j i) n).
  { intros i Hi. rewrite (Hk i Hi). symmetry. apply sym_rowcol; assumption. }
  pose proof (gain_exact_dir n W g k k st' u mb Hs Hk Hki Hinv Hleg) as E.
  unfold st' in E. cbn [lab] in E. fold s in E. rewrite <- E.
  unfold gain_und, gain_dir. cbn [lab ca cb]. field. exact Hs.
Qed.

(* signed: d0*dq0 - d1*dq1 = (1/2) * (Q(after) - Q(before)) for every qtype (any d0, d1, s0, s1), W0, W1 symmetric *)
Definition Qsign_gen (n : nat) (W0 W1 : mat Q) (g s0 s1 d0 d1 : Q) (lb : vec nat) : Q :=
  d0 * Qhalf n W0 g s0 lb - d1 * Qhalf n W1 g s1 lb.
Lemma Qsign_is_gen n W g qt lb :
  Qsign n W g qt lb =
  Qsign_gen n (pospart W) (negpart W) g (adj (stot n (pospart W))) (adj (stot n (negpart W)))
    (sign_d0 qt (stot n (pospart W)) (stot n (negpart W))) (sign_d1 qt (stot n (pospart W)) (stot n (negpart W))) lb.
Proof. reflexivity. Qed.

Lemma half_gain_sym n M g s kn lb c u mb : sym_on n M ->
  (forall i, (i < n)%nat -> kn i == sumQ (fun j => M i j) n) ->
  lab_lt n n lb -> chan_inv n n M kn lb c -> (u < n)%nat -> (mb < n)%nat -> lb u <> mb ->
  Qhalf n M g s (vupd lb u mb) - Qhalf n M g s lb ==
  2 * ((knm c u mb + M u u - knm c u (lb u)) - g * kn u * (km c mb + kn u - km c (lb u)) / s).
Proof.
  intros Hsym Hk Hl Hc Hu Hm Hne. rewrite (Qhalf_move n M g s lb u mb Hu Hne).
  pose proof (Hl u Hu) as Hma.
  rewrite !(chan_knm n n M kn lb c u _ Hc Hu) by assumption.
  rewrite !(chan_km n n M kn lb c _ Hc) by assumption.
  rewrite (Hk u Hu).
  assert (Ecol : forall t, msum n lb t (fun i => M i u) == msum n lb t (fun j => M u j)).
  { intros t. apply msum_ext. intros j Hj. apply Hsym; assumption. }
  assert (EC : forall t, msum n lb t (fun j => sumQ (fun t0 => M t0 j) n) == msum n lb t (fun i => sumQ (fun t0 => M i t0) n)).
  { intros t. apply msum_ext. intros j Hj. apply sym_rowcol; assumption. }
  assert (Ek : forall t, msum n lb t kn == msum n lb t (fun i => sumQ (fun t0 => M i t0) n)).
  { intros t. apply msum_ext. intros j Hj. apply Hk; assumption. }
  rewrite !Ecol, !EC, !Ek. rewrite (sym_rowcol n M u Hsym Hu). unfold Qdiv. ring.
Qed.

Theorem gain_exact_sign n W0 W1 g s0 s1 d0 d1 kn0 kn1 st u mb : sym_on n W0 -> sym_on n W1 ->
  (forall i, (i < n)%nat -> kn0 i == sumQ (fun j => W0 i j) n) ->
  (forall i, (i < n)%nat -> kn1 i == sumQ (fun j => W1 i j) n) ->
  Bk_inv_sign n W0 W1 kn0 kn1 st -> legal n st u mb ->
  gain_sign W0 W1 g s0 s1 d0 d1 kn0 kn1 st u mb ==
  (1 / 2) * (Qsign_gen n W0 W1 g s0 s1 d0 d1 (vupd (lab st) u mb) - Qsign_gen n W0 W1 g s0 s1 d0 d1 (lab st)).
Proof.
  intros Hs0 Hs1 Hk0 Hk1 (Hl & Ha & Hb) (Hu & Hm & Hne). unfold Qsign_gen.
  assert (E : d0 * Qhalf n W0 g s0 (vupd (lab st) u mb) - d1 * Qhalf n W1 g s1 (vupd (lab st) u mb) -
              (d0 * Qhalf n W0 g s0 (lab st) - d1 * Qhalf n W1 g s1 (lab st)) ==
              d0 * (Qhalf n W0 g s0 (vupd (lab st) u mb) - Qhalf n W0 g s0 (lab st)) -
              d1 * (Qhalf n W1 g s1 (vupd (lab st) u mb) - Qhalf n W1 g s1 (lab st))) by ring.
  rewrite E. clear E.
  rewrite (half_gain_sym n W0 g s0 kn0 (lab st) (ca st) u mb Hs0 Hk0 Hl Ha Hu Hm Hne).
  rewrite (half_gain_sym n W1 g s1 kn1 (lab st) (cb st) u mb Hs1 Hk1 Hl Hb Hu Hm Hne).
  unfold gain_sign. cbv zeta. change (1 / 2) with (1 # 2). unfold Qdiv. ring.
Qed.

(* community_louvain: dQ = Hnm[u,mb] - Hnm[u,ma] + B[u,u] = (1/2) * (obj(after) - obj(before)), B symmetric *)
Theorem gain_exact_louvainB n B H st u mb : sym_on n B ->
  Bk_inv_B n B H st -> legal n st u mb ->
  gain_B B st u mb == (1 / 2) * (obj n B (vupd (lab st) u mb) - obj n B (lab st)).
Proof.
  intros Hsym [Hl Hc] (Hu & Hm & Hne). rewrite (obj_move n B (lab st) u mb Hu Hne).
  pose proof (Hl u Hu) as Hma. unfold gain_B. cbv zeta.
  rewrite !(chan_knm n n B H (lab st) (ca st) u _ Hc Hu) by assumption.
  assert (Ecol : forall t, msum n (lab st) t (fun i => B i u) == msum n (lab st) t (fun j => B u j)).
  { intros t. apply msum_ext. intros j Hj. apply Hsym; assumption. }
  rewrite !Ecol. field.
Qed.

(* ---------- any sequence of moves with positive exact gain never lowers Q ---------- *)
Section Monotone.
Variable n : nat.
Variable inv : state -> Prop.
Variable gain : state -> nat -> nat -> Q.
Variable move : state -> nat -> nat -> state.
Variable Qof : vec nat -> Q.
Variable c : Q.
Hypothesis c_pos : 0 < c.
Hypothesis Qof_ext : forall lb lb', (forall j, (j < n)%nat -> lb j = lb' j) -> Qof lb == Qof lb'.
Hypothesis move_lab : forall st u mb j, (j < n)%nat -> lab (move st u mb) j = vupd (lab st) u mb j.
Hypothesis inv_move : forall st u mb, inv st -> legal n st u mb -> inv (move st u mb).
Hypothesis gain_exact : forall st u mb, inv st -> legal n st u mb ->
  gain st u mb == c * (Qof (vupd (lab st) u mb) - Qof (lab st)).

(* a run of the optimiser: every move is legal and its EXACT gain is positive (floats only choose which one) *)
Inductive good_run : state -> list (nat * nat) -> Prop :=
| good_nil : forall st, good_run st []
| good_cons : forall st u mb r, legal n st u mb -> 0 < gain st u mb -> good_run (move st u mb) r ->
              good_run st ((u, mb) :: r).

Lemma step_increases st u mb : inv st -> legal n st u mb -> 0 < gain st u mb ->
  Qof (lab st) < Qof (lab (move st u mb)).
Proof.
  intros Hi Hl Hg. rewrite (gain_exact st u mb Hi Hl) in Hg.
  rewrite (Qof_ext (lab (move st u mb)) (vupd (lab st) u mb)) by (intros; apply move_lab; assumption).
  set (x := Qof (vupd (lab st) u mb)) in *. set (y := Qof (lab st)) in *.
  destruct (Qlt_le_dec y x) as [H|H]; [exact H|]. exfalso.
  assert (c * (x - y) <= 0). { rewrite <- (Qmult_0_r c). apply Qmult_le_l; [exact c_pos|lra]. }
  lra.
Qed.

Theorem moves_monotone_gen ms : forall st, inv st -> good_run st ms ->
  inv (run_moves move st ms) /\ Qof (lab st) <= Qof (lab (run_moves move st ms)) /\
  (ms <> [] -> Qof (lab st) < Qof (lab (run_moves move st ms))).
Proof.
  induction ms as [|[u mb] r IH]; intros st Hi Hr; cbn [run_moves].
  - split; [exact Hi|]. split; [lra|congruence].
  - inversion Hr as [|? ? ? ? Hl Hg Hr']; subst.
    pose proof (step_increases st u mb Hi Hl Hg) as Hstep.
    destruct (IH (move st u mb) (inv_move st u mb Hi Hl) Hr') as (I & L & _).
    split; [exact I|]. split; [lra|intros _; lra].
Qed.
End Monotone.

(* instances *)
Lemma set_lab_move n lb u mb j : (j < n)%nat -> set_lab n lb u mb j = vupd lb u mb j.
Proof. apply set_lab_spec. Qed.

Lemma Qund_lab_ext n W g lb lb' : (forall j, (j < n)%nat -> lb j = lb' j) -> Qund n W g lb == Qund n W g lb'.
Proof.
  intros H. rewrite !Qund_spec. apply Qmult_comp; [reflexivity|]. apply sum2Q_ext; intros i j Hi Hj.
  unfold delta. rewrite (H i Hi), (H j Hj). reflexivity.
Qed.

Lemma half_pos s : 0 < s -> 0 < s / 2.
Proof. intros H. apply Qlt_shift_div_l; lra. Qed.

Theorem moves_monotone_und n W g k ms st :
  let s := stot n W in 0 < s -> sym_on n W ->
  (forall i, (i < n)%nat -> k i == sumQ (fun j => W i j) n) ->
  Bk_inv_und n W k st -> good_run n (gain_und W g s k) (move_und n W k) st ms ->
  let fin := run_moves (move_und n W k) st ms in
  Bk_inv_und n W k fin /\ Qund n W g (lab st) <= Qund n W g (lab fin) /\
  (ms <> [] -> Qund n W g (lab st) < Qund n W g (lab fin)).
Proof.
  intros s Hs Hsym Hk Hi Hr.
  apply (moves_monotone_gen n (Bk_inv_und n W k) (gain_und W g s k) (move_und n W k) (Qund n W g) (s / 2)
           (half_pos s Hs) (Qund_lab_ext n W g)); try assumption.
  - intros st0 u mb j Hj. apply set_lab_move; exact Hj.
  - intros st0 u mb H0 (Hu & Hm & _). apply move_preserves_bk_inv_und; assumption.
  - intros st0 u mb H0 Hl. apply gain_exact_und; try assumption. intro E. fold s in E. rewrite E in Hs. lra.
Qed.

Theorem moves_monotone_dir n W g ko ki ms st :
  let s := stot n W in 0 < s ->
  (forall i, (i < n)%nat -> ko i == sumQ (fun j => W i j) n) ->
  (forall i, (i < n)%nat -> ki i == sumQ (fun j => W j i) n) ->
  Bk_inv_dir n W ko ki st -> good_run n (gain_dir W g s ko ki) (move_dir false n W ko ki) st ms ->
  let fin := run_moves (move_dir false n W ko ki) st ms in
  Bk_inv_dir n W ko ki fin /\ Qdir n W g (lab st) <= Qdir n W g (lab fin) /\
  (ms <> [] -> Qdir n W g (lab st) < Qdir n W g (lab fin)).
Proof.
  intros s Hs Hko Hki Hi Hr.
  apply (moves_monotone_gen n (Bk_inv_dir n W ko ki) (gain_dir W g s ko ki) (move_dir false n W ko ki) (Qdir n W g) (s / 2)
           (half_pos s Hs) (Qdir_lab_ext n W g)); try assumption.
  - intros st0 u mb j Hj. apply set_lab_move; exact Hj.
  - intros st0 u mb H0 (Hu & Hm & _). apply move_preserves_bk_inv_dir; assumption.
  - intros st0 u mb H0 Hl. apply gain_exact_dir; try assumption. intro E. fold s in E. rewrite E in Hs. lra.
Qed.

Lemma Qsign_gen_lab_ext n W0 W1 g s0 s1 d0 d1 lb lb' : (forall j, (j < n)%nat -> lb j = lb' j) ->
  Qsign_gen n W0 W1 g s0 s1 d0 d1 lb == Qsign_gen n W0 W1 g s0 s1 d0 d1 lb'.
Proof. intros H. unfold Qsign_gen. rewrite (Qhalf_lab_ext n W0 g s0 lb lb' H), (Qhalf_lab_ext n W1 g s1 lb lb' H). reflexivity. Qed.

Theorem moves_monotone_sign n W0 W1 g s0 s1 d0 d1 kn0 kn1 ms st : sym_on n W0 -> sym_on n W1 ->
  (forall i, (i < n)%nat -> kn0 i == sumQ (fun j => W0 i j) n) ->
  (forall i, (i < n)%nat -> kn1 i == sumQ (fun j => W1 i j) n) ->
  Bk_inv_sign n W0 W1 kn0 kn1 st ->
  good_run n (gain_sign W0 W1 g s0 s1 d0 d1 kn0 kn1) (move_sign n W0 W1 kn0 kn1) st ms ->
  let fin := run_moves (move_sign n W0 W1 kn0 kn1) st ms in
  let Qs := Qsign_gen n W0 W1 g s0 s1 d0 d1 in
  Bk_inv_sign n W0 W1 kn0 kn1 fin /\ Qs (lab st) <= Qs (lab fin) /\ (ms <> [] -> Qs (lab st) < Qs (lab fin)).
Proof.
  intros Hs0 Hs1 Hk0 Hk1 Hi Hr.
  apply (moves_monotone_gen n (Bk_inv_sign n W0 W1 kn0 kn1) (gain_sign W0 W1 g s0 s1 d0 d1 kn0 kn1)
           (move_sign n W0 W1 kn0 kn1) (Qsign_gen n W0 W1 g s0 s1 d0 d1) (1 / 2)); try assumption.
  - reflexivity.
  - apply Qsign_gen_lab_ext.
  - intros st0 u mb j Hj. apply set_lab_move; exact Hj.
  - intros st0 u mb H0 (Hu & Hm & _). apply move_preserves_bk_inv_sign; assumption.
  - intros st0 u mb H0 Hl. apply gain_exact_sign; assumption.
Qed.

Theorem moves_monotone_louvainB n B H ms st : sym_on n B ->
  Bk_inv_B n B H st -> good_run n (gain_B B) (move_B n B H) st ms ->
  let fin := run_moves (move_B n B H) st ms in
  Bk_inv_B n B H fin /\ obj n B (lab st) <= obj n B (lab fin) /\ (ms <> [] -> obj n B (lab st) < obj n B (lab fin)).
Proof.
  intros Hsym Hi Hr.
  apply (moves_monotone_gen n (Bk_inv_B n B H) (gain_B B) (move_B n B H) (obj n B) (1 / 2)); try assumption.
  - reflexivity.
  - apply obj_lab_ext.
  - intros st0 u mb j Hj. apply set_lab_move; exact Hj.
  - intros st0 u mb H0 (Hu & Hm & _). apply move_preserves_bk_inv_B; assumption.
  - intros st0 u mb H0 Hl. apply (gain_exact_louvainB n B H); assumption.
Qed.

(* ---------- whole runs of the finetune routines: never worse than the start; restart from own output ---------- *)
Lemma uniq_sorted_length l : (length (uniq_sorted l) <= length l)%nat.
Proof.
  induction l as [|a l IH]; cbn [uniq_sorted fold_right length]; [lia|]. fold (uniq_sorted l).
  assert (H : forall x m, (length (insert_uniq x m) <= S (length m))%nat).
  { intros x m. induction m as [|b m IHm]; cbn [insert_uniq length]; [lia|].
    destruct (x <? b)%Z; [cbn [length]; lia|]. destruct (x =? b)%Z; cbn [length]; lia. }
  specialize (H a (uniq_sorted l)). lia.
Qed.

Lemma init_lab_lt n ci : lab_lt n n (init_lab n ci).
Proof.
  intros u Hu. unfold init_lab. rewrite tabv_spec by exact Hu.
  pose proof (relabel0_lt n (of_list 0%Z ci) u Hu) as H. unfold nlab in H.
  pose proof (uniq_sorted_length (to_list n (of_list 0%Z ci))) as H2. rewrite to_list_length in H2. lia.
Qed.

(* the internal labels describe the partition of the given (arbitrary integer) labels *)
Lemma init_lab_same_partition n ci u v : (u < n)%nat -> (v < n)%nat ->
  (init_lab n ci u = init_lab n ci v <-> nth u ci 0%Z = nth v ci 0%Z).
Proof.
  intros Hu Hv. unfold init_lab. rewrite !tabv_spec by assumption.
  apply (relabel0_same_partition n (of_list 0%Z ci) u v Hu Hv).
Qed.

Theorem finetune_und_never_worse n W g lab0 ms :
  let s := stot n W in 0 < s -> sym_on n W -> lab_lt n n lab0 ->
  let st0 := fst (finetune_und_init n W lab0) in
  let k := snd (finetune_und_init n W lab0) in
  good_run n (gain_und W g s k) (move_und n W k) st0 ms ->
  Qund n W g lab0 <= Qund n W g (lab (run_moves (move_und n W k) st0 ms)).
Proof.
  intros s Hs Hsym Hl st0 k Hr.
  destruct (init_bk_inv_finetune_und n W lab0 Hl Hsym) as [Hinv Hk].
  destruct (moves_monotone_und n W g k ms st0 Hs Hsym Hk Hinv Hr) as (_ & Hle & _). exact Hle.
Qed.

Theorem finetune_dir_never_worse n W g lab0 ms :
  let s := stot n W in 0 < s -> lab_lt n n lab0 ->
  let r := finetune_dir_init n W lab0 in
  good_run n (gain_dir W g s (fst (snd r)) (snd (snd r))) (move_dir false n W (fst (snd r)) (snd (snd r))) (fst r) ms ->
  Qdir n W g lab0 <= Qdir n W g (lab (run_moves (move_dir false n W (fst (snd r)) (snd (snd r))) (fst r) ms)).
Proof.
  intros s Hs Hl r Hr.
  destruct (init_bk_inv_finetune_dir n W lab0 Hl) as (Hinv & Hko & Hki). fold r in Hinv, Hko, Hki.
  destruct (moves_monotone_dir n W g _ _ ms (fst r) Hs Hko Hki Hinv Hr) as (_ & Hle & _). exact Hle.
Qed.

Theorem finetune_sign_never_worse n W0 W1 g s0 s1 d0 d1 lab0 ms : sym_on n W0 -> sym_on n W1 -> lab_lt n n lab0 ->
  let p := mksp W0 W1 s0 s1 d0 d1 in
  let r := sign_init n p lab0 in
  good_run n (gain_sign W0 W1 g s0 s1 d0 d1 (fst (snd r)) (snd (snd r))) (move_sign n W0 W1 (fst (snd r)) (snd (snd r))) (fst r) ms ->
  Qsign_gen n W0 W1 g s0 s1 d0 d1 lab0 <=
  Qsign_gen n W0 W1 g s0 s1 d0 d1 (lab (run_moves (move_sign n W0 W1 (fst (snd r)) (snd (snd r))) (fst r) ms)).
Proof.
  intros Hs0 Hs1 Hl p r Hr.
  destruct (init_bk_inv_finetune_sign n W0 W1 s0 s1 d0 d1 lab0 Hl Hs0 Hs1) as (Hinv & Hk0 & Hk1). fold p r in Hinv, Hk0, Hk1.
  destruct (moves_monotone_sign n W0 W1 g s0 s1 d0 d1 _ _ ms (fst r) Hs0 Hs1 Hk0 Hk1 Hinv Hr) as (_ & Hle & _). exact Hle.
Qed.

(* feeding a routine's own output (ANY integer label list ci_out, whatever produced it) back as the start:
   the internal start labels describe exactly the partition ci_out, and the run cannot end below it *)
Corollary idempotent_restart n W g ci_out ms :
  let s := stot n W in 0 < s -> sym_on n W ->
  let lab0 := init_lab n ci_out in
  let st0 := fst (finetune_und_init n W lab0) in
  let k := snd (finetune_und_init n W lab0) in
  good_run n (gain_und W g s k) (move_und n W k) st0 ms ->
  (forall u v, (u < n)%nat -> (v < n)%nat -> (lab0 u = lab0 v <-> nth u ci_out 0%Z = nth v ci_out 0%Z)) /\
  Qund n W g lab0 <= Qund n W g (lab (run_moves (move_und n W k) st0 ms)).
Proof.
  intros s Hs Hsym lab0 st0 k Hr. split.
  - intros u v Hu Hv. apply init_lab_same_partition; assumption.
  - apply finetune_und_never_worse; try assumption. apply init_lab_lt.
Qed.

(* ---------- one Louvain level, seen from the original network ---------- *)
Lemma Qdir_W_ext n W W' g lb : (forall i j, (i < n)%nat -> (j < n)%nat -> W i j == W' i j) -> Qdir n W g lb == Qdir n W' g lb.
Proof.
  intros H. rewrite !Qdir_Qhalf.
  rewrite (Qhalf_ext n W W' g (stot n W) (stot n W') lb H (stot_ext n W W' H)).
  apply Qmult_comp; [|reflexivity]. rewrite (stot_ext n W W' H). reflexivity.
Qed.

(* W1 = the aggregated matrix the level works on (the code's tabulated, mirrored blocks are == agg on the grid),
   lb1 = module of every original node before the level, the level's moves have positive exact gain:
   the partition after the level, read on the ORIGINAL network, is at least as good as the one before *)
Theorem level_monotone n K W W1 g lb1 k ms :
  lab_lt n K lb1 -> sym_on n W -> 0 < stot n W ->
  (forall a b, (a < K)%nat -> (b < K)%nat -> W1 a b == agg n W lb1 a b) ->
  (forall i, (i < K)%nat -> k i == sumQ (fun j => W1 i j) K) ->
  let st0 := mkst (tabv O K ident) (mkchan (tabQ K K W1) k) chan0 in
  good_run K (gain_und W1 g (stot K W1) k) (move_und K W1 k) st0 ms ->
  let fin := run_moves (move_und K W1 k) st0 ms in
  Qund n W g lb1 <= Qund n W g (fun i => lab fin (lb1 i)) /\
  (ms <> [] -> Qund n W g lb1 < Qund n W g (fun i => lab fin (lb1 i))).
Proof.
  intros Hl Hsym Hs HW1 Hk st0 Hr fin.
  assert (Hsym1 : sym_on K W1).
  { intros a b Ha Hb. rewrite (HW1 a b Ha Hb), (HW1 b a Hb Ha). apply agg_sym; exact Hsym. }
  assert (Es : stot K W1 == stot n W).
  { rewrite (stot_ext K W1 (agg n W lb1) HW1). apply stot_agg; exact Hl. }
  assert (Hs1 : 0 < stot K W1) by (rewrite Es; exact Hs).
  destruct (moves_monotone_und K W1 g k ms st0 Hs1 Hsym1 Hk (init_bk_inv_louvain_und K W1 k) Hr) as ((Hlf & _) & Hle & Hlt).
  fold fin in Hlf, Hle, Hlt.
  assert (Q0 : Qund K W1 g (lab st0) == Qund n W g lb1).
  { rewrite (Qund_Qdir K W1 g _ Hsym1), (Qund_Qdir n W g _ Hsym), (Qdir_W_ext K W1 (agg n W lb1) g _ HW1).
    rewrite (aggregate_preserves_Q n K K W g lb1 (lab st0) Hl) by (cbn [st0 lab]; apply lab_lt_ident).
    apply Qdir_lab_ext. intros j Hj. cbn [st0 lab]. rewrite tabv_spec by (apply Hl; exact Hj). reflexivity. }
  assert (Q1 : Qund K W1 g (lab fin) == Qund n W g (fun i => lab fin (lb1 i))).
  { rewrite (Qund_Qdir K W1 g _ Hsym1), (Qund_Qdir n W g _ Hsym), (Qdir_W_ext K W1 (agg n W lb1) g _ HW1).
    apply (aggregate_preserves_Q n K K W g lb1 (lab fin) Hl Hlf). }
  rewrite <- Q0, <- Q1. split; assumption.
Qed.

(* the matrix and degree vector modularity_louvain_und actually builds satisfy the hypotheses of level_monotone *)
Lemma louvain_und_level_hyps n K W lb1 : lab_lt n K lb1 -> sym_on n W ->
  let W1 := tabQ K K (agg_upper n W lb1) in
  let k := tabvQ K (colsum K W1) in
  (forall a b, (a < K)%nat -> (b < K)%nat -> W1 a b == agg n W lb1 a b) /\
  (forall i, (i < K)%nat -> k i == sumQ (fun j => W1 i j) K).
Proof.
  intros Hl Hsym W1 k.
  assert (HW1 : forall a b, (a < K)%nat -> (b < K)%nat -> W1 a b == agg n W lb1 a b).
  { intros a b Ha Hb. unfold W1. rewrite tabQ_spec by assumption. apply agg_upper_sym; exact Hsym. }
  split; [exact HW1|]. intros i Hi. unfold k. rewrite tabvQ_spec by exact Hi. rewrite colsum_spec.
  apply sumQ_ext; intros j Hj. rewrite (HW1 j i Hj Hi), (HW1 i j Hi Hj). apply agg_sym; exact Hsym.
Qed.

(* ---------- hierarchy rule: the retained levels increase strictly (by at least 1e-10) ---------- *)
Fixpoint incr_from (prev : Q) (l : list Q) : Prop :=
  match l with [] => True | q :: r => prev + eps <= q /\ prev < q /\ incr_from q r end.

Lemma Qltb_false a b : Qltb a b = false -> b <= a.
Proof. unfold Qltb. intros H. apply Qle_bool_iff. destruct (Qle_bool b a); [reflexivity|discriminate]. Qed.

Theorem levels_strict qs : forall prev, incr_from prev (retained_from prev qs).
Proof.
  induction qs as [|q r IH]; intros prev; cbn [retained_from]; [exact I|].
  destruct (Qltb (q - prev) eps) eqn:E; [exact I|]. cbn [incr_from].
  apply Qltb_false in E. assert (0 < eps) by reflexivity. split; [lra|]. split; [lra|apply IH].
Qed.

Theorem retained_prefix qs : forall prev, exists rest, qs = retained_from prev qs ++ rest.
Proof.
  induction qs as [|q r IH]; intros prev; cbn [retained_from]; [exists []; reflexivity|].
  destruct (Qltb (q - prev) eps); [exists (q :: r); reflexivity|].
  destruct (IH q) as [rest E]. exists rest. cbn [app]. f_equal. exact E.
Qed.

(* ---------- modularity_louvain_dir AS IT IS ---------- *)
Definition louvain_dir_state0 (n : nat) (W : mat Q) : state * (vec Q * vec Q) :=
  let ko := tabvQ n (rowsum n W) in
  let ki := tabvQ n (colsum n W) in
  (mkst (tabv O n ident) (mkchan (tabQ n n W) ko) (mkchan (tabQ n n W) ki), (ko, ki)).

(* statement that holds for every other routine (move_preserves_bk_inv + init_bk_inv): *)
Definition louvain_dir_bk_full_statement : Prop :=
  forall rows ms,
  let n := length rows in let W := tabQ n n (of_rows 0 rows) in
  let st0 := fst (louvain_dir_state0 n W) in
  let ko := fst (snd (louvain_dir_state0 n W)) in let ki := snd (snd (louvain_dir_state0 n W)) in
  Bk_inv_dir n W ko ki (run_moves (move_dir true n W ko ki) st0 ms).

(* witness: W = [[0,1,2],[0,0,2],[0,1,0]], the first recorded move (node 2 -> module 1): knm_o[0,1] is 1, the sum
   recomputed from the labels is 3 (the code added W[2,:] where W[:,2] belongs) *)
Lemma louvain_dir_bk_refuted : ~ louvain_dir_bk_full_statement.
Proof.
  intros H. specialize (H [[0; 1; 2]; [0; 0; 2]; [0; 1; 0]] [(2, 1)]%nat).
  cbv zeta in H. destruct H as (_ & [Ha _] & _).
  assert (H0 : (0 < 3)%nat) by lia. assert (H1 : (1 < 3)%nat) by lia.
  specialize (Ha 0%nat 1%nat H0 H1). vm_compute in Ha. discriminate Ha.
Qed.

(* statement that holds for every other routine: a run whose every (model-exact) gain is positive does not end below
   its start *)
Definition louvain_dir_monotone_full_statement : Prop :=
  forall rows g lv, let r := run_louvain_dir rows g lv in
  all_gains_pos r = true -> ret_qstart r <= ret_qdef r.

(* witness: W = [[0,0,0,0],[0,0,0,2],[1,0,0,0],[0,0,2,0]], gamma = 1, move sequence recorded from the implementation
   (seed 782): all replayed gains positive, Q(singletons) = -6/25, Q(returned labels (1,1,1,2)) = -8/25 *)
Lemma louvain_dir_monotone_refuted : ~ louvain_dir_monotone_full_statement.
Proof.
  intros H.
  specialize (H [[0; 0; 0; 0]; [0; 0; 0; 2]; [1; 0; 0; 0]; [0; 0; 2; 0]] 1
                [[(1, 3); (3, 2); (2, 0)]; [(2, 0); (1, 3)]; [(1, 3)]]%nat).
  vm_compute in H. specialize (H eq_refl). apply H. reflexivity.
Qed.
