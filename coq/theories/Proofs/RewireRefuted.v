(* Proofs/RewireRefuted.v — (1) regression example for the repaired defect: the undirected engine routines on a symmetric
   input with a NON-EMPTY DIAGONAL.  Up to /repo 9391a5f `np.where(np.tril(R))` listed the self-connection (a,a) as an edge
   and the output could be asymmetric with a changed degree (the former C01_und_selfloop_refuted); since fabf520 the edge list
   is the strict lower triangle, the general theorems (Proofs/RewireDiag.v, C01_run_caller without an empty-diagonal
   hypothesis) cover such input, and the recorded run below shows they are not vacuous there.
   (2) Where the property text is still FALSE of the (faithful) model: randomize_graph_partial_und with an ASYMMETRIC mask:
   only B[a,d] and B[c,b] are tested, the mirrored cells (d,a), (b,c) are filled as well. *)
From Coq Require Import ZArith List Arith Bool Lia QArith.
From BCT Require Import Base.Mat Base.ListX Model.Rewire Proofs.RewireSwap Proofs.RewireInv Proofs.RewireGuards.
Import ListNotations.
Open Scope Z_scope.

(* a matrix given by its upper triangle (symmetric by construction, also outside the grid) *)
Definition symm (M : mat Z) : mat Z := fun x y => if Nat.leb x y then M x y else M y x.
Lemma symm_sym M x y : symm M x y = symm M y x.
Proof.
  unfold symm. destruct (Nat.leb_spec x y); destruct (Nat.leb_spec y x); try reflexivity; try lia.
  assert (x = y) by lia. subst. reflexivity.
Qed.

(* the 6-ring with self-connections at nodes 0 (weight 5) and 3 (weight -2) *)
Definition ring6_loops : mat Z :=
  symm (of_rows 0 [[5;1;0;0;0;1];[1;0;1;0;0;0];[0;1;0;1;0;0];[0;0;1;-2;1;0];[0;0;0;1;0;1];[1;0;0;0;1;0]]).

(* randmio_und(ring6_loops, itr=1, seed=317) of the repaired implementation, replayed: k = 6 edges (the two
   self-connections are not in the list), five rewirings, every draw consumed; the result is symmetric, node 3 keeps its
   degree, both self-connections are where they were *)
Example und_selfloop_regression :
  exists (res : result),
    (forall x y, ring6_loops x y = ring6_loops y x) /\
    run_routine Randmio_und 6 ring6_loops 1 None
      [DInt 2; DInt 3; DInt 3; DInt 2; DInt 4; DInt 4; DInt 0; DInt 4; DInt 5; DInt 4; DInt 1;
       DFlt (341786159042917#4503599627370496)%Q; DInt 4; DInt 1; DFlt (690379919946293#4503599627370496)%Q; DInt 5; DInt 0;
       DFlt (8724502045028273#9007199254740992)%Q; DInt 1; DInt 3; DFlt (2348061004603971#9007199254740992)%Q; DInt 2; DInt 2;
       DInt 1; DInt 2; DInt 3; DInt 1; DInt 4; DFlt (986956410783429#9007199254740992)%Q; DInt 5; DInt 5; DInt 3;
       DFlt (7735993462547449#9007199254740992)%Q; DInt 4; DInt 4; DInt 2; DFlt (8270051156263119#9007199254740992)%Q]
      = Done res /\ r_eff res = 5%nat /\ r_left res = O /\
    r_out res 0%nat 0%nat = 5 /\ r_out res 3%nat 3%nat = -2 /\
    outdeg 6 (r_out res) 3 = outdeg 6 ring6_loops 3.
Proof.
  match goal with |- exists res, _ /\ ?run = _ /\ _ =>
    let v := eval vm_compute in (outcome_result run) in
    match v with Some ?r => exists r | _ => fail "the run does not return" end end.
  split; [intros x y; apply symm_sym|].
  repeat split; vm_compute; reflexivity.
Qed.

(* (2) one accepted swap under a mask that marks only the cell (3,0): the swap 0-1, 2-3 -> 0-3, 2-1 passes the mask
   test (it looks at B[0,3] and B[2,1]) and fills the cell (3,0) *)
Definition mx_A : mat Z := symm (of_rows 0 [[0;1;0;0];[1;0;0;0];[0;0;0;1];[0;0;1;0]]).
Definition mx_B : mat Z := of_rows 0 [[0;0;0;0];[0;0;0;0];[0;0;0;0];[1;0;0;0]].
Theorem mask_asym_refuted :
  exists (A B : mat Z) (a b c d : nat),
    (forall x y, A x y = A y x) /\ four_ok a b c d = true /\ A a b <> 0 /\ A c d <> 0 /\ A a d = 0 /\ A c b = 0 /\
    mask_guard B A a b c d = true /\
    ~ MaskOK A B (swap_und A a b c d).
Proof.
  exists mx_A, mx_B, 0%nat, 1%nat, 2%nat, 3%nat.
  split; [intros x y; apply symm_sym|]. split; [reflexivity|].
  split; [vm_compute; discriminate|]. split; [vm_compute; discriminate|].
  split; [reflexivity|]. split; [reflexivity|]. split; [reflexivity|].
  intros H. specialize (H 3%nat 0%nat). vm_compute in H.
  assert (E: (1 = 0)%Z) by (apply H; [reflexivity|discriminate]). discriminate.
Qed.
