(* Proofs/RewireRefuted.v — two places where the property text is FALSE of the (faithful) model, with concrete
   witnesses that replay on the implementation:
   (1) the four undirected engine routines on a symmetric input with a NON-EMPTY DIAGONAL: `np.where(np.tril(R))`
       lists the self-connection (a,a) as an edge, the four-distinct test lets it through (a = b is not tested), and
       `R[d,a] = R[b,a]` then reads the cell `R[a,b] = 0` has just cleared: the output is asymmetric and a degree changes;
   (2) randomize_graph_partial_und with an ASYMMETRIC mask: only B[a,d] and B[c,b] are tested, the mirrored cells
       (d,a), (b,c) are filled as well. *)
From Coq Require Import ZArith List Arith Bool Lia QArith.
From BCT Require Import Base.Mat Base.ListX Model.Rewire Proofs.RewireSwap Proofs.RewireInv Proofs.RewireGuards.
Import ListNotations.
Open Scope Z_scope.

(* a matrix given by its upper triangle (symmetric by construction, also outside the grid) *)
Definition symm (M : mat Z) : mat Z := fun x y => if Nat.leb x y then M x y else M y x.
Lemma symm_sym M x y : symm M x y = symm M y x.
Proof.
  unfold symm. destruct (Nat.leb_spec x y); destruct (Nat.leb_spec y x); try reflexivity; try lia.
  assert (x = y) by lia. subst. reflexivity.
Qed.

(* the 6-ring with self-connections at nodes 0 and 3 *)
Definition ring6_loops : mat Z :=
  symm (of_rows 0 [[1;1;0;0;0;1];[1;0;1;0;0;0];[0;1;0;1;0;0];[0;0;1;1;1;0];[0;0;0;1;0;1];[1;0;0;0;1;0]]).

(* randmio_und(ring6_loops, itr=1, seed=317) of the implementation, replayed: the run returns (8 rewirings, every
   draw consumed), the result has R[4,3] = 1 but R[3,4] = 0, and node 3 has lost a connection *)
Theorem und_selfloop_refuted :
  exists (R0 : mat Z) (s0 : stream) (res : result),
    (forall x y, R0 x y = R0 y x) /\
    run_routine Randmio_und 6 R0 1 None s0 = Done res /\ r_left res = O /\
    r_out res 4%nat 3%nat <> r_out res 3%nat 4%nat /\
    outdeg 6 (r_out res) 3 <> outdeg 6 R0 3.
Proof.
  exists ring6_loops.
  exists [DInt 7; DInt 2; DFlt (6541948403153603#9007199254740992)%Q; DInt 3; DInt 6; DFlt (1298727859311029#2251799813685248)%Q;
          DInt 4; DInt 4; DInt 0; DFlt (2186871891104597#9007199254740992)%Q; DInt 5; DInt 4; DInt 6; DInt 1; DInt 6; DInt 2;
          DFlt (1836661729906849#9007199254740992)%Q; DInt 7; DInt 5; DFlt (211272780533021#281474976710656)%Q; DInt 6; DInt 7;
          DInt 7; DInt 6; DInt 7; DInt 0; DFlt (8724502045028273#9007199254740992)%Q; DInt 1; DInt 3;
          DFlt (2348061004603971#9007199254740992)%Q; DInt 6; DInt 6; DInt 2; DFlt (3085800870382869#9007199254740992)%Q].
  match goal with |- exists res, _ /\ ?run = _ /\ _ =>
    let v := eval vm_compute in (outcome_result run) in
    match v with Some ?r => exists r | _ => fail "the run does not return" end end.
  split; [intros x y; apply symm_sym|].
  split; [vm_compute; reflexivity|].
  split; [vm_compute; reflexivity|].
  split; vm_compute; discriminate.
Qed.

(* the same at the level of one swap: with a = b (a self-connection picked as first edge) the mirrored writes of the
   undirected swap destroy symmetry *)
Theorem und_selfloop_swap_refuted :
  exists (R : mat Z) (a b c d : nat),
    (forall x y, R x y = R y x) /\ a = b /\ four_ok a b c d = true /\ R a b <> 0 /\ R c d <> 0 /\ R a d = 0 /\ R c b = 0 /\
    swap_und R a b c d d a <> swap_und R a b c d a d.
Proof.
  exists ring6_loops, 0%nat, 0%nat, 3%nat, 2%nat.
  split; [intros x y; apply symm_sym|]. split; [reflexivity|]. split; [reflexivity|].
  repeat split; vm_compute; discriminate.
Qed.

(* (2) one accepted swap under a mask that marks only the cell (3,0): the swap 0-1, 2-3 -> 0-3, 2-1 passes the mask
   test (it looks at B[0,3] and B[2,1]) and fills the cell (3,0) *)
Definition mx_A : mat Z := symm (of_rows 0 [[0;1;0;0];[1;0;0;0];[0;0;0;1];[0;0;1;0]]).
Definition mx_B : mat Z := of_rows 0 [[0;0;0;0];[0;0;0;0];[0;0;0;0];[1;0;0;0]].
Theorem mask_asym_refuted :
  exists (A B : mat Z) (a b c d : nat),
    (forall x y, A x y = A y x) /\ four_ok a b c d = true /\ A a b <> 0 /\ A c d <> 0 /\ A a d = 0 /\ A c b = 0 /\
    mask_guard B A a b c d = true /\
    ~ MaskOK A B (swap_und A a b c d).
Proof.
  exists mx_A, mx_B, 0%nat, 1%nat, 2%nat, 3%nat.
  split; [intros x y; apply symm_sym|]. split; [reflexivity|].
  split; [vm_compute; discriminate|]. split; [vm_compute; discriminate|].
  split; [reflexivity|]. split; [reflexivity|]. split; [reflexivity|].
  intros H. specialize (H 3%nat 0%nat). vm_compute in H.
  assert (E: (1 = 0)%Z) by (apply H; [reflexivity|discriminate]). discriminate.
Qed.
