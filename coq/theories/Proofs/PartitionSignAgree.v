(* Proofs/PartitionSignAgree.v — the two independent transcriptions of modularity_und_sign(W, ci, qtype)
   (Model/Partition.v: modularity_und_sign_q, rank-based relabelling, module sums 1..K;
    Model/Modularity.v: sign_params / sign_init / sign_closing, and the definitional Qsign)
   compute the same rational number. *)
From Coq Require Import QArith Qring Qfield Lia Lqa Arith List Bool ZArith.
From BCT Require Import Base.Mat Base.SumQ Base.ListX Model.Partition Proofs.Partition.
From BCT Require Model.Modularity Proofs.ModularitySums Proofs.ModularityQ.
Import ListNotations.
Open Scope Q_scope.

Definition conv_qtype (qt : qtype) : Modularity.qtype :=
  match qt with
  | Qsta => Modularity.Qsta | Qpos => Modularity.Qpos | Qsmp => Modularity.Qsmp
  | Qgja => Modularity.Qgja | Qneg => Modularity.Qneg
  end.

(* ---------- positive / negative parts ---------- *)
Lemma pos_part_pospart W i j : pos_part W i j = Modularity.pospart W i j.
Proof. reflexivity. Qed.

Lemma qpos_opp w : qpos (- w) = Modularity.Qltb w 0.
Proof.
  unfold qpos, Modularity.Qltb. f_equal.
  destruct (Qle_bool (- w) 0) eqn:E1, (Qle_bool 0 w) eqn:E2; try reflexivity.
  - apply Qle_bool_iff in E1. assert (H : 0 <= w) by lra. apply Qle_bool_iff in H. congruence.
  - apply Qle_bool_iff in E2. assert (H : - w <= 0) by lra. apply Qle_bool_iff in H. congruence.
Qed.

Lemma neg_part_negpart W i j : neg_part W i j = Modularity.negpart W i j.
Proof. unfold neg_part, Modularity.negpart. rewrite qpos_opp. reflexivity. Qed.

(* ---------- normal form of transcription (A) ---------- *)
(* one channel of (A): sum over same-module pairs of W0 - Kn Kn' / s, Kn = np.sum(Knm, axis=1) over the modules 1..K *)
Definition halfA (n : nat) (W0 : mat Q) (c : vec nat) (s : Q) : Q :=
  let K := vmax n c in
  let Kn := fun i => sumM K (fun m => sumQ (fun j => ind (Nat.eqb (c j) m) * W0 i j) n) in
  sum2Q (fun i j => (W0 i j - Kn i * Kn j / s) * ind (Nat.eqb (c i) (c j))) n.

Lemma mus_form n W ci qt :
  let s0 := sum2Q (pos_part W) n in let s1 := sum2Q (neg_part W) n in
  modularity_und_sign_q n W ci qt ==
  Modularity.sign_d0 (conv_qtype qt) s0 s1 * halfA n (pos_part W) (relabel n ci) (Modularity.adj s0)
  - Modularity.sign_d1 (conv_qtype qt) s0 s1 * halfA n (neg_part W) (relabel n ci) (Modularity.adj s1).
Proof.
  cbv zeta. unfold modularity_und_sign_q, Modularity.sign_d0, Modularity.sign_d1, Modularity.adj, halfA. cbv zeta.
  destruct (Qeq_bool (sum2Q (pos_part W) n) 0); destruct (Qeq_bool (sum2Q (neg_part W) n) 0);
    destruct qt; reflexivity.
Qed.

(* ---------- the two relabellings induce the same indicator on the nodes ---------- *)
Definition lab_of (n : nat) (ci : vec Z) : vec nat := tabv O n (Modularity.relabel0 n ci).

Lemma lab_of_init_lab n cil : lab_of n (of_list 0%Z cil) = Modularity.init_lab n cil.
Proof. reflexivity. Qed.

Lemma lab_of_same_part n ci : same_part n ci (lab_of n ci).
Proof.
  intros i j Hi Hj. unfold lab_of. rewrite !tabv_spec by assumption.
  symmetry. apply ModularitySums.relabel0_same_partition; assumption.
Qed.

Lemma same_delta n ci (lab : vec nat) i j : same_part n ci lab -> (i < n)%nat -> (j < n)%nat ->
  ind (Nat.eqb (relabel n ci i) (relabel n ci j)) = Modularity.delta lab i j.
Proof.
  intros Hp Hi Hj. unfold Modularity.delta, Modularity.is_. f_equal.
  destruct (Nat.eqb_spec (relabel n ci i) (relabel n ci j)) as [E|E], (Nat.eqb_spec (lab i) (lab j)) as [E'|E'];
    try reflexivity; exfalso.
  - apply E'. apply (Hp i j Hi Hj). apply (relabel_same n ci i j Hi Hj). exact E.
  - apply E. apply (relabel_same n ci i j Hi Hj). apply (Hp i j Hi Hj). exact E'.
Qed.

Lemma uniq_sorted_length l : (length (Modularity.uniq_sorted l) <= length l)%nat.
Proof.
  induction l as [|a l IH]; cbn [Modularity.uniq_sorted fold_right length]; [lia|]. fold (Modularity.uniq_sorted l).
  assert (H : forall x m, (length (Modularity.insert_uniq x m) <= S (length m))%nat).
  { intros x m. induction m as [|b m IHm]; cbn [Modularity.insert_uniq length]; [lia|].
    destruct (x <? b)%Z; [cbn [length]; lia|]. destruct (x =? b)%Z; cbn [length]; lia. }
  specialize (H a (Modularity.uniq_sorted l)). lia.
Qed.

Lemma lab_of_lt n ci : ModularityQ.lab_lt n n (lab_of n ci).
Proof.
  intros u Hu. unfold lab_of. rewrite tabv_spec by exact Hu.
  pose proof (ModularitySums.relabel0_lt n ci u Hu) as H. unfold Modularity.nlab in H.
  pose proof (uniq_sorted_length (to_list n ci)) as H2. rewrite to_list_length in H2. lia.
Qed.

(* ---------- one channel: (A) with its module sums = the closing formula of (B) with gamma = 1 ---------- *)
Lemma half_agree n (W0 W0' : mat Q) ci (lab : vec nat) (kn : vec Q) s s' : same_part n ci lab ->
  (forall i j, (i < n)%nat -> (j < n)%nat -> W0 i j == W0' i j) -> s == s' ->
  (forall i, (i < n)%nat -> kn i == sumQ (fun t => W0' i t) n) ->
  halfA n W0 (relabel n ci) s == Modularity.closing_outer n W0' kn 1 s' lab.
Proof.
  intros Hp HW Hs Hk. unfold halfA, Modularity.closing_outer. cbv zeta. symmetry.
  apply ModularitySums.sum2R_ext_Q. intros i j Hi Hj.
  rewrite (Hk i Hi), (Hk j Hj).
  rewrite (node_degree_collapse n (vmax n (relabel n ci)) (relabel n ci) (fun t => W0 i t) (relabel_canon n ci)).
  rewrite (node_degree_collapse n (vmax n (relabel n ci)) (relabel n ci) (fun t => W0 j t) (relabel_canon n ci)).
  rewrite (same_delta n ci lab i j Hp Hi Hj).
  rewrite (sumQ_ext (fun t => W0 i t) (fun t => W0' i t)) by (intros; apply HW; auto).
  rewrite (sumQ_ext (fun t => W0 j t) (fun t => W0' j t)) by (intros; apply HW; auto).
  rewrite (HW i j Hi Hj), Hs. unfold Qdiv. ring.
Qed.

(* ---------- (A) = the statement-level closing formula of (B) ---------- *)
(* for every 0-based label vector with values < n that describes the partition of ci; no symmetry needed *)
Theorem und_sign_models_agree_closing_gen : forall n W ci qt (lab : vec nat),
  same_part n ci lab -> ModularityQ.lab_lt n n lab ->
  let p := Modularity.sign_params n W (conv_qtype qt) in
  let kn := snd (Modularity.sign_init n p lab) in
  modularity_und_sign_q n W ci qt == Modularity.sign_closing n p (fst kn) (snd kn) 1 lab.
Proof.
  intros n W ci qt lab Hp Hl p kn. rewrite mus_form. cbv zeta. unfold Modularity.sign_closing.
  assert (H0 : forall i j, (i < n)%nat -> (j < n)%nat -> pos_part W i j == Modularity.sW0 p i j).
  { intros i j Hi Hj. symmetry. exact (ModularitySums.tabQ_spec n n (Modularity.pospart W) i j Hi Hj). }
  assert (H1 : forall i j, (i < n)%nat -> (j < n)%nat -> neg_part W i j == Modularity.sW1 p i j).
  { intros i j Hi Hj. rewrite neg_part_negpart. symmetry.
    exact (ModularitySums.tabQ_spec n n (Modularity.negpart W) i j Hi Hj). }
  assert (E0 : sum2Q (pos_part W) n == Modularity.stot n (Modularity.sW0 p)).
  { rewrite ModularitySums.stot_spec. apply sum2Q_ext; exact H0. }
  assert (E1 : sum2Q (neg_part W) n == Modularity.stot n (Modularity.sW1 p)).
  { rewrite ModularitySums.stot_spec. apply sum2Q_ext; exact H1. }
  rewrite (half_agree n (pos_part W) (Modularity.sW0 p) ci lab (fst kn) _ (Modularity.ss0 p) Hp H0
             (ModularityQ.adj_comp _ _ E0)).
  2:{ intros i Hi. subst kn. unfold Modularity.sign_init. cbn [fst snd].
      rewrite ModularitySums.tabvQ_spec by exact Hi. rewrite ModularitySums.rowsum_spec.
      rewrite (sumQ_ext _ (fun t => Modularity.knm_of n (Modularity.sW0 p) lab i t))
        by (intros; apply ModularitySums.tabQ_spec; auto).
      apply ModularityQ.rowsum_knm_of; exact Hl. }
  rewrite (half_agree n (neg_part W) (Modularity.sW1 p) ci lab (snd kn) _ (Modularity.ss1 p) Hp H1
             (ModularityQ.adj_comp _ _ E1)).
  2:{ intros i Hi. subst kn. unfold Modularity.sign_init. cbn [fst snd].
      rewrite ModularitySums.tabvQ_spec by exact Hi. rewrite ModularitySums.rowsum_spec.
      rewrite (sumQ_ext _ (fun t => Modularity.knm_of n (Modularity.sW1 p) lab i t))
        by (intros; apply ModularitySums.tabQ_spec; auto).
      apply ModularityQ.rowsum_knm_of; exact Hl. }
  rewrite (ModularityQ.sign_d0_comp (conv_qtype qt) _ _ _ _ E0 E1),
          (ModularityQ.sign_d1_comp (conv_qtype qt) _ _ _ _ E0 E1).
  reflexivity.
Qed.

(* the labelling (B) starts from: lab0 = init_lab n ci, i.e. the 0-based np.unique inverse of ci *)
Theorem und_sign_models_agree_closing : forall n W ci qt,
  let lb := tabv O n (Modularity.relabel0 n ci) in
  let p := Modularity.sign_params n W (conv_qtype qt) in
  let kn := snd (Modularity.sign_init n p lb) in
  modularity_und_sign_q n W ci qt == Modularity.sign_closing n p (fst kn) (snd kn) 1 lb.
Proof.
  intros n W ci qt.
  exact (und_sign_models_agree_closing_gen n W ci qt (lab_of n ci) (lab_of_same_part n ci) (lab_of_lt n ci)).
Qed.

(* list interface, exactly the terms of run_mus (A) and run_und_sign (B) *)
Theorem und_sign_models_agree_closing_list : forall n W (cil : list Z) qt,
  let lb := Modularity.init_lab n cil in
  let p := Modularity.sign_params n W (conv_qtype qt) in
  let kn := snd (Modularity.sign_init n p lb) in
  modularity_und_sign_q n W (of_list 0%Z cil) qt == Modularity.sign_closing n p (fst kn) (snd kn) 1 lb.
Proof. intros n W cil qt. exact (und_sign_models_agree_closing n W (of_list 0%Z cil) qt). Qed.

(* ---------- (A) = the definitional signed modularity of (B), for symmetric W ---------- *)
Theorem und_sign_models_agree : forall n W ci qt, ModularityQ.sym_on n W ->
  let lb := tabv O n (Modularity.relabel0 n ci) in
  modularity_und_sign_q n W ci qt == Modularity.Qsign n W 1 (conv_qtype qt) lb.
Proof.
  intros n W ci qt Hs lb.
  rewrite (und_sign_models_agree_closing n W ci qt). cbv zeta.
  exact (ModularityQ.given_partition_returns_Q_sign n W (conv_qtype qt) (lab_of n ci) (lab_of_lt n ci) Hs).
Qed.

Theorem und_sign_models_agree_list : forall n W (cil : list Z) qt, ModularityQ.sym_on n W ->
  modularity_und_sign_q n W (of_list 0%Z cil) qt ==
  Modularity.Qsign n W 1 (conv_qtype qt) (Modularity.init_lab n cil).
Proof. intros n W cil qt Hs. exact (und_sign_models_agree n W (of_list 0%Z cil) qt Hs). Qed.

(* Qsign depends on the label vector only through the partition it induces on 0..n-1 *)
Lemma Qsign_partition_invariant n W g qt (lb lb' : vec nat) : same_part n lb lb' ->
  Modularity.Qsign n W g qt lb == Modularity.Qsign n W g qt lb'.
Proof.
  intros H. unfold Modularity.Qsign. cbv zeta.
  assert (E : forall M s, Modularity.Qhalf n M g s lb == Modularity.Qhalf n M g s lb').
  { intros M s. rewrite !ModularityQ.Qhalf_spec. apply sum2Q_ext; intros i j Hi Hj.
    rewrite (ModularityQ.delta_same_partition n lb lb' H i j Hi Hj). reflexivity. }
  rewrite !E. reflexivity.
Qed.

(* ... hence for ANY label vector (any values, any range) describing the partition of ci *)
Theorem und_sign_models_agree_any_lab : forall n W ci qt (lab : vec nat),
  ModularityQ.sym_on n W -> same_part n ci lab ->
  modularity_und_sign_q n W ci qt == Modularity.Qsign n W 1 (conv_qtype qt) lab.
Proof.
  intros n W ci qt lab Hs Hp. rewrite (und_sign_models_agree n W ci qt Hs). cbv zeta.
  apply Qsign_partition_invariant. intros i j Hi Hj.
  rewrite <- (lab_of_same_part n ci i j Hi Hj). apply Hp; assumption.
Qed.

(* ---------- non-vacuity: symmetric signed 4x4 matrix, non-contiguous labels 5 5 9 2, all five qtypes ---------- *)
Example und_sign_models_agree_nonvacuous :
  let W := of_rows 0 [[0; 2; -(1); 3]; [2; 0; 1; -(2)]; [-(1); 1; 0; 1#2]; [3; -(2); 1#2; 0]] in
  let cil := [5; 5; 9; 2]%Z in
  let ci := of_list 0%Z cil in
  let lb := tabv O 4 (Modularity.relabel0 4 ci) in
  let qts := [Qsta; Qpos; Qsmp; Qgja; Qneg] in
  let expected := [-655 # 19266; -53 # 338; 353 # 1521; 23 # 1482; 7 # 18] in
  ModularityQ.sym_on 4 W /\
  to_list 4 (relabel 4 ci) = [2; 2; 3; 1]%nat /\ to_list 4 lb = [1; 1; 2; 0]%nat /\
  map (fun qt => Qred (modularity_und_sign_q 4 W ci qt)) qts = expected /\
  map (fun qt => let p := Modularity.sign_params 4 W (conv_qtype qt) in
                 let kn := snd (Modularity.sign_init 4 p lb) in
                 Qred (Modularity.sign_closing 4 p (fst kn) (snd kn) 1 lb)) qts = expected /\
  map (fun qt => Qred (Modularity.Qsign 4 W 1 (conv_qtype qt) lb)) qts = expected /\
  (* the label vector 7 7 0 3 (not the canonical one, values not below n) gives the same numbers *)
  map (fun qt => Qred (Modularity.Qsign 4 W 1 (conv_qtype qt) (of_list O [7; 7; 0; 3]%nat))) qts = expected /\
  Forall (fun q => ~ q == 0) expected.
Proof.
  cbv zeta. split; [|repeat split; try (vm_compute; reflexivity)].
  - intros i j Hi Hj.
    destruct i as [|[|[|[|i]]]]; try lia; destruct j as [|[|[|[|j]]]]; try lia; vm_compute; reflexivity.
  - repeat constructor; intros H; vm_compute in H; discriminate H.
Qed.
