(* Proofs/Paths.v — retrieve_shortest_path on the Floyd–Warshall output returns a real shortest path;
   every navigation_wu path is a walk with the reported three lengths. *)
From Coq Require Import QArith List Arith Bool ZArith Lia Lqa.
From BCT Require Import Base.Mat Base.ListX Model.Distance Model.Paths
  Proofs.DistanceBase Proofs.DistanceFloyd Proofs.DistanceOther.
Import ListNotations.
Open Scope Q_scope.

(* ====================== retrieve_shortest_path ====================== *)
Section Retrieve.
Variable n : nat.
Variable L : mat len.
Hypothesis Hnn : nonneg n L.
Let F := FW n L.

Lemma follow_walk t (Ht : (t < n)%nat) : forall h s x, (s < n)%nat -> s <> t ->
  spl F s t = Some x -> hops F s t = h ->
  exists mid, follow (pmat F) t s h = mid ++ [t] /\ below n mid /\ S (length mid) = h /\
              oeq (wl L s mid t) (Some x).
Proof.
  induction h as [|h IH]; intros s x Hs Hne HS Hh.
  - destruct (floyd_path_step n L Hnn s t x Hs Ht Hne HS) as [_ [[_ [H _]]|[_ [H _]]]]; fold F in H; lia.
  - destruct (floyd_path_step n L Hnn s t x Hs Ht Hne HS) as [Hpn [[Pj [H1 Hl]]|[Pne [H1 Hl]]]];
      fold F in Hpn, H1, Hl; cbn [follow].
    + fold F in Pj. exists []. rewrite Pj. assert (h = 0%nat) by lia. subst h. cbn [follow app length].
      split; [reflexivity|]. split; [apply below_nil|]. split; [reflexivity|]. cbn [wl]. exact Hl.
    + fold F in Pne. set (p := pmat F s t) in *.
      destruct (L s p) as [l|] eqn:El; [|cbn in Hl; contradiction].
      destruct (spl F p t) as [y|] eqn:Ey; [|cbn in Hl; contradiction]. cbn in Hl.
      destruct (IH p y Hpn Pne Ey ltac:(lia)) as [mid [Ef [B [Hlen W]]]].
      exists (p :: mid). rewrite Ef. split; [reflexivity|]. split; [apply below_cons; auto|].
      split; [cbn [length]; lia|]. cbn [wl]. rewrite El.
      destruct (wl L p mid t) as [w|]; cbn in *; [lra|contradiction].
Qed.

(* finite SPL: the returned sequence is s :: mid ++ [t], a walk along existing connections (wl is Some),
   with exactly hops[s,t] edges and total length SPL[s,t] *)
Theorem retrieve_valid : forall s t x, (s < n)%nat -> (t < n)%nat -> s <> t -> spl F s t = Some x ->
  exists mid, retrieve s t (hops F) (pmat F) = s :: mid ++ [t] /\ below n mid /\
              S (length mid) = hops F s t /\ oeq (wl L s mid t) (Some x).
Proof.
  intros s t x Hs Ht Hne HS.
  destruct (follow_walk t Ht (hops F s t) s x Hs Hne HS eq_refl) as [mid [Ef [B [Hl W]]]].
  exists mid. unfold retrieve. destruct (Nat.eqb_spec (hops F s t) 0) as [E|_]; [lia|].
  rewrite Ef. auto.
Qed.

(* empty exactly when the target is unreachable *)
Theorem retrieve_empty_iff : forall s t, (s < n)%nat -> (t < n)%nat -> s <> t ->
  (retrieve s t (hops F) (pmat F) = [] <-> ~ reachable n L s t).
Proof.
  intros s t Hs Ht Hne.
  destruct (floyd_reach_iff_finite n L Hnn s t Hs Ht Hne) as [_ R2]. fold F in R2.
  unfold retrieve. destruct (Nat.eqb_spec (hops F s t) 0) as [E|E].
  - split; [intros _|reflexivity]. intros Hr. apply R2 in Hr. contradiction.
  - split; [discriminate|]. intros Hr. exfalso. apply Hr. apply R2. exact E.
Qed.

(* the path is a SHORTEST path: its length is the minimum over all walks *)
Theorem retrieve_shortest : forall s t x, (s < n)%nat -> (t < n)%nat -> s <> t -> spl F s t = Some x ->
  forall mid y, below n mid -> wl L s mid t = Some y -> x <= y.
Proof.
  intros s t x Hs Ht Hne HS. pose proof (floyd_correct n L Hnn s t Hs Ht Hne) as C. fold F in C.
  rewrite HS in C. cbn [is_min_dist] in C. exact (proj2 C).
Qed.
End Retrieve.

(* ====================== navigation_wu ====================== *)
(* consecutive nodes are joined by nonzero entries of L *)
Fixpoint chain (L : mat Q) (l : list nat) : Prop :=
  match l with
  | a :: ((b :: _) as r) => ~ L a b == 0 /\ chain L r
  | _ => True
  end.
(* sum of M over consecutive pairs *)
Fixpoint lsum (M : mat Q) (l : list nat) : Q :=
  match l with
  | a :: ((b :: _) as r) => M a b + lsum M r
  | _ => 0
  end.

Lemma chain_snoc L p c x : chain L (p ++ [c]) -> ~ L c x == 0 -> chain L ((p ++ [c]) ++ [x]).
Proof.
  induction p as [|a p IH]; intros H Hx.
  - cbn. auto.
  - destruct p as [|b p].
    + cbn in *. tauto.
    + cbn [app chain] in *. destruct H as [H1 H2]. split; [exact H1|]. apply IH; assumption.
Qed.
Lemma lsum_snoc M p c x : lsum M ((p ++ [c]) ++ [x]) == lsum M (p ++ [c]) + M c x.
Proof.
  induction p as [|a p IH].
  - cbn. ring.
  - destruct p as [|b p].
    + cbn. ring.
    + cbn [app lsum] in *. rewrite IH. ring.
Qed.
Lemma last_snoc {A} (l : list A) x d : last (l ++ [x]) d = x.
Proof. induction l as [|a l IH]; [reflexivity|]. cbn [app]. destruct (l ++ [x]) eqn:E; [destruct l; discriminate|exact IH]. Qed.

Lemma argmin_first_in f v0 r : In (argmin_first f v0 r) (v0 :: r).
Proof.
  unfold argmin_first. revert v0. induction r as [|v r IH]; intros v0; cbn [fold_left]; [left; reflexivity|].
  destruct (qltb (f v) (f v0)).
  - destruct (IH v) as [H|H]; [right; left; exact H|right; right; exact H].
  - destruct (IH v0) as [H|H]; [left; exact H|right; right; exact H].
Qed.
(* it is a minimiser (np.argmin) *)
Lemma argmin_first_min f v0 r : forall v, In v (v0 :: r) -> f (argmin_first f v0 r) <= f v.
Proof.
  unfold argmin_first. revert v0. induction r as [|w r IH]; intros v0 v Hin; cbn [fold_left].
  - destruct Hin as [<-|[]]. lra.
  - destruct (qltb (f w) (f v0)) eqn:E; qb.
    + destruct Hin as [<-|[<-|Hin]].
      * pose proof (IH w w (or_introl eq_refl)). lra.
      * apply IH. left; reflexivity.
      * apply IH. right; exact Hin.
    + destruct Hin as [<-|[<-|Hin]].
      * apply IH. left; reflexivity.
      * pose proof (IH v0 v0 (or_introl eq_refl)). lra.
      * apply IH. right; exact Hin.
Qed.

Lemma neighbors_spec n L c v : In v (neighbors n L c) <-> (v < n)%nat /\ ~ L c v == 0.
Proof.
  unfold neighbors. rewrite filter_In, in_seq, negb_true_iff. split.
  - intros [H1 H2]. apply Qeq_bool_neq in H2. split; [lia|exact H2].
  - intros [H1 H2]. split; [lia|]. destruct (Qeq_bool (L c v) 0) eqn:E; [|reflexivity].
    apply Qeq_bool_iff in E. contradiction.
Qed.

Section Nav.
Variable n : nat.
Variables L D : mat Q.
Variable mh : option nat.

(* what holds of the accumulators at the head of the while loop *)
Definition navinv (i curr : nat) (path : list nat) (pb : nat) (pw pd : Q) : Prop :=
  exists p, path = p ++ [curr] /\ hd curr path = i /\ chain L path /\ Forall (fun v => (v < n)%nat) path /\
            S pb = length path /\ pw == lsum L path /\ pd == lsum D path.

Definition navpost (i j : nat) (r : navres) : Prop :=
  hd j (nv_path r) = i /\ nv_path r <> [] /\ chain L (nv_path r) /\ Forall (fun v => (v < n)%nat) (nv_path r) /\
  match nv_bin r, nv_wei r, nv_dis r with
  | Some b, Some w, Some d => last (nv_path r) i = j /\ S b = length (nv_path r) /\
                              w == lsum L (nv_path r) /\ d == lsum D (nv_path r)
  | None, None, None => last (nv_path r) i <> j          (* failed: all three infinite, target not reached *)
  | _, _, _ => False                                     (* never infinite in some but not all three *)
  end.

Lemma nav_loop_inv fuel : forall target curr last path pb pw pd i r,
  navinv i curr path pb pw pd ->
  nav_loop fuel n L D mh target curr last path pb pw pd = Some r -> navpost i target r.
Proof.
  induction fuel as [|f IH]; intros target curr lst path pb pw pd i r [p [Ep [Hhd [Hc [Hb [Hlen [Hw Hd]]]]]]] Hrun.
  - cbn [nav_loop] in Hrun. destruct (Nat.eqb_spec curr target) as [->|Hne]; [|discriminate].
    injection Hrun as <-. unfold navpost. cbn [nv_path nv_bin nv_wei nv_dis].
    split; [subst path; destruct p; cbn in *; auto|].
    split; [subst path; destruct p; discriminate|]. split; [exact Hc|]. split; [exact Hb|].
    split; [subst path; apply last_snoc|]. auto.
  - cbn [nav_loop] in Hrun. destruct (Nat.eqb_spec curr target) as [->|Hne].
    + injection Hrun as <-. unfold navpost. cbn [nv_path nv_bin nv_wei nv_dis].
      split; [subst path; destruct p; cbn in *; auto|].
      split; [subst path; destruct p; discriminate|]. split; [exact Hc|]. split; [exact Hb|].
      split; [subst path; apply last_snoc|]. auto.
    + assert (Hfail : navpost i target (nav_failed path)).
      { unfold navpost, nav_failed. cbn [nv_path nv_bin nv_wei nv_dis]. split; [subst path; destruct p; cbn in *; auto|].
        split; [subst path; destruct p; discriminate|]. split; [exact Hc|]. split; [exact Hb|].
        subst path. rewrite last_snoc. exact Hne. }
      destruct (neighbors n L curr) as [|v0 rr] eqn:En; [injection Hrun as <-; exact Hfail|].
      set (next := argmin_first (fun v => D target v) v0 rr) in *.
      destruct (_ || _)%bool; [injection Hrun as <-; exact Hfail|].
      assert (Hin : In next (neighbors n L curr)) by (rewrite En; apply argmin_first_in).
      apply neighbors_spec in Hin. destruct Hin as [Hnn Hnz].
      apply (IH _ _ _ _ _ _ _ i r) in Hrun; [exact Hrun|].
      exists path. split; [reflexivity|]. subst path.
      split; [destruct p; cbn in *; auto|].
      split; [apply chain_snoc; assumption|].
      split; [apply Forall_app; split; [exact Hb|constructor; [exact Hnn|constructor]]|].
      split; [rewrite app_length; cbn [length]; lia|].
      split; rewrite lsum_snoc; [rewrite Hw|rewrite Hd]; reflexivity.
Qed.

(* every recorded path (successful or not) starts at i and is a walk along nonzero entries of L inside
   {0..n-1}; for a successful navigation it ends at j and the three reported lengths are its hop count,
   its summed connection length and its summed nodal distance *)
Theorem nav_walk_valid : forall fuel i j r, (i < n)%nat ->
  nav_pair fuel n L D mh i j = Some r -> navpost i j r.
Proof.
  intros fuel i j r Hi Hrun. unfold nav_pair in Hrun.
  apply (nav_loop_inv fuel j i i [i] 0%nat 0 0 i r); [|exact Hrun].
  exists []. cbn. split; [reflexivity|]. split; [reflexivity|]. split; [exact Logic.I|].
  split; [constructor; [exact Hi|constructor]|]. split; [reflexivity|]. split; reflexivity.
Qed.

(* the greedy choice: every step goes to a neighbour of the current node that is closest to the target *)
Theorem nav_step_greedy : forall target c v0 rr, neighbors n L c = v0 :: rr ->
  let next := argmin_first (fun v => D target v) v0 rr in
  In next (neighbors n L c) /\ forall v, In v (neighbors n L c) -> D target next <= D target v.
Proof.
  intros target c v0 rr En next. rewrite En. split; [apply argmin_first_in|].
  intros v Hv. apply (argmin_first_min (fun v => D target v) v0 rr v Hv).
Qed.
End Nav.

(* success ratio = (number of ordered pairs that succeeded) / (n^2 - n) *)
Lemma filter_split_length {A} (f : A -> bool) l :
  (length (filter f l) + length (filter (fun x => negb (f x)) l) = length l)%nat.
Proof. induction l as [|a l IH]; [reflexivity|]. cbn [filter]. destruct (f a); cbn [negb length]; lia. Qed.

Lemma all_some_length {T} (l : list (option T)) rs : all_some l = Some rs -> length rs = length l.
Proof.
  revert rs. induction l as [|a l IH]; intros rs H; cbn [all_some] in H.
  - injection H as <-. reflexivity.
  - destruct a; [|discriminate]. destruct (all_some l); [|discriminate]. injection H as <-.
    cbn [length]. rewrite (IH l0 eq_refl). reflexivity.
Qed.

Lemma all_some_In {T U} (f : U -> option T) l rs : all_some (map f l) = Some rs ->
  forall r, In r rs -> exists c, In c l /\ f c = Some r.
Proof.
  revert rs. induction l as [|a l IH]; intros rs H r Hr; cbn [map all_some] in H.
  - injection H as <-. destruct Hr.
  - destruct (f a) as [x|] eqn:Ea; [|discriminate].
    destruct (all_some (map f l)) as [rs'|] eqn:Er; [|discriminate]. injection H as <-.
    destruct Hr as [<-|Hr].
    + exists a. split; [left; reflexivity|exact Ea].
    + destruct (IH rs' eq_refl r Hr) as [c [Hc Hf]]. exists c. split; [right; exact Hc|exact Hf].
Qed.

Theorem nav_success_ratio fuel n L D mh sr rs : (2 <= n)%nat ->
  navigation_wu fuel n L D mh = Some (sr, rs) ->
  length rs = (n * n - n)%nat /\
  sr == nq (length (filter (fun r => negb (is_fail r)) rs)) / nq (n * n - n).
Proof.
  intros Hn. unfold navigation_wu.
  destruct (all_some _) as [rs'|] eqn:Er; [|discriminate]. intros H. injection H as <- <-.
  pose proof (all_some_length _ _ Er) as Hl. rewrite map_length, offdiag_length in Hl.
  split; [exact Hl|].
  pose proof (filter_split_length is_fail rs') as Hs. rewrite Hl in Hs.
  set (a := length (filter is_fail rs')) in *. set (b := length (filter (fun r => negb (is_fail r)) rs')) in *.
  assert (Hpos : (0 < n * n - n)%nat) by nia.
  assert (E : nq (n * n - n) == nq a + nq b).
  { rewrite <- Hs. unfold nq. rewrite Nat2Z.inj_add, inject_Z_plus. reflexivity. }
  assert (E2 : nq (a + n) == nq a + nq n).
  { unfold nq. rewrite Nat2Z.inj_add, inject_Z_plus. reflexivity. }
  assert (Hnz : ~ nq (n * n - n) == 0).
  { unfold nq. intros H0. assert (inject_Z 0 < inject_Z (Z.of_nat (n * n - n))) by (rewrite <- Zlt_Qlt; lia).
    rewrite H0 in H. unfold inject_Z in H. lra. }
  rewrite E2. field_simplify_eq; [|exact Hnz]. rewrite E. ring.
Qed.

(* all results satisfy nav_walk_valid's postcondition, pair by pair in row-major order *)
Theorem nav_all_valid fuel n L D mh sr rs : navigation_wu fuel n L D mh = Some (sr, rs) ->
  forall r, In r rs -> exists i j, (i < n)%nat /\ (j < n)%nat /\ i <> j /\
    nav_pair fuel n L D mh i j = Some r /\ navpost n L D i j r.
Proof.
  unfold navigation_wu. destruct (all_some _) as [rs'|] eqn:Er; [|discriminate].
  intros H. injection H as _ <-. intros r Hr.
  destruct (all_some_In _ _ _ Er r Hr) as [[i j] [Hc Hf]]. cbn [fst snd] in Hf.
  apply offdiag_spec in Hc. destruct Hc as [Hi [Hj Hne]].
  exists i, j. split; [exact Hi|]. split; [exact Hj|]. split; [exact Hne|]. split; [exact Hf|].
  apply (nav_walk_valid n L D mh fuel i j r Hi Hf).
Qed.

(* retrieve_shortest_path after each transform of distance_wei_floyd *)
Section RetrieveTransforms.
Variable nlog : Q -> Q.
Hypothesis Hlog : forall w, 0 < w -> w <= 1 -> 0 <= nlog w.

Theorem retrieve_valid_transforms n A tr :
  (forall i j, (i < n)%nat -> (j < n)%nat -> 0 <= A i j) ->
  (tr = TLog -> forall i j, (i < n)%nat -> (j < n)%nat -> A i j <= 1) ->
  let F := distance_wei_floyd nlog n A tr in
  forall s t, (s < n)%nat -> (t < n)%nat -> s <> t ->
  (forall x, spl F s t = Some x ->
     exists mid, retrieve s t (hops F) (pmat F) = s :: mid ++ [t] /\ below n mid /\
                 S (length mid) = hops F s t /\ oeq (wl (lengths nlog tr A) s mid t) (Some x)) /\
  (retrieve s t (hops F) (pmat F) = [] <-> ~ reachable n (lengths nlog tr A) s t).
Proof.
  intros HA H1 F s t Hs Ht Hne.
  assert (Hnn : nonneg n (lengths nlog tr A)).
  { apply lengths_nonneg; [exact HA|]. intros Etr i j Hi Hj Hnz. apply Hlog; [|apply H1; assumption].
    specialize (HA i j Hi Hj). destruct (Qlt_le_dec 0 (A i j)); [assumption|exfalso; apply Hnz; lra]. }
  split.
  - intros x HS. exact (retrieve_valid n (lengths nlog tr A) Hnn s t x Hs Ht Hne HS).
  - exact (retrieve_empty_iff n (lengths nlog tr A) Hnn s t Hs Ht Hne).
Qed.
End RetrieveTransforms.
