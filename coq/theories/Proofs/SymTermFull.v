(* Proofs/SymTermFull.v — C04, the two LAPACK measures: the FULL statements (what the routine returns commutes with the
   renumbering), stated on the equation TERMS of Model/SymTerm.v and proved through C18's model (Model/Linear.v):
   (a) the residual terms denote C18's systems; (b) Proofs/EquivModelsLinear.v (uniqueness of the PageRank solution
   for 0 <= d < 1, A >= 0; uniqueness of the non-negative eigenvector of a connected undirected network). *)
From Coq Require Import QArith Qring Lia Lqa Arith List Bool.
From BCT Require Import Base.Mat Base.SumQ Model.SymTerm Proofs.SymTerm Proofs.SymTermLib.
From BCT Require Import Model.Linear Proofs.Linear Proofs.EquivModels Proofs.EquivModelsLinear.
Import ListNotations.
Open Scope Q_scope.

(* ---------- (a) what the two residual terms denote ---------- *)
Lemma pagerank_residual_denote prims n A r d i : (i < n)%nat ->
  pagerank_residual prims n A r d i == mvecQ n (pr_B n A d) r i - pr_b d (uniform n) i.
Proof.
  intros Hi. unfold pagerank_residual, eval_v, eval, t_pagerank_residual. cbn [semp].
  set (Dv := tabv 0 n (vbody prims n _ _ _ _)).
  assert (HD : forall k, (k < n)%nat -> Dv k == pr_deg n A k).
  { intros k Hk. unfold Dv. rewrite (tabv_spec 0 n _ k Hk). unfold vbody. cbn [sem]. rewrite Qred_correct.
    unfold pr_deg, colsumQ. cbv zeta. unfold A_, c1. cbn [sem alook fst snd Nat.eqb k_ i_]. unfold mget. cbn [alook fst snd Nat.eqb].
    rewrite (Qeq_bool_proper _ _ (Qred_correct _)).
    destruct (Qeq_bool (sumQ (fun k0 => A k0 k) n) 0); [reflexivity|apply Qred_correct]. }
  unfold vbody. cbn [sem binop_sem inputs_s length seq combine]. rewrite !Qred_correct.
  unfold A_, c1. cbn [sem alook fst snd Nat.eqb k_ i_]. unfold mget, vget, sget. cbn [alook fst snd Nat.eqb].
  unfold mvecQ, pr_B, pr_M, pr_b, uniform.
  rewrite (sumQ_ext (fun j => (delta i j - d * (A i j * (1 / pr_deg n A j))) * r j)
                    (fun j => delta i j * r j - d * (A i j / Dv j * r j))).
  2:{ intros j Hj. rewrite (HD j Hj). unfold Qdiv. ring. }
  rewrite sumQ_sub, sumQ_scal, (sumQ_delta_l r n i Hi). unfold Qdiv. ring.
Qed.

Lemma eigen_residual_denote prims n A v lam i :
  eigen_residual prims n A v lam i == mvecQ n A v i - lam * v i.
Proof.
  unfold eigen_residual, eval_v, eval, t_eigen_residual. cbn [semp]. unfold vbody.
  cbn [sem binop_sem inputs_s length seq combine]. rewrite !Qred_correct.
  unfold A_. cbn [sem alook fst snd Nat.eqb k_ i_]. unfold mget, vget, sget. cbn [alook fst snd Nat.eqb]. reflexivity.
Qed.

Lemma solves_pagerank_iff prims n A r d :
  solves_pagerank prims n A r d <-> (forall i, (i < n)%nat -> mvecQ n (pr_B n A d) r i == pr_b d (uniform n) i).
Proof.
  unfold solves_pagerank. split; intros H i Hi; specialize (H i Hi); rewrite (pagerank_residual_denote prims n A r d i Hi) in *; lra.
Qed.
Lemma is_eigenvector_iff prims n A v lam : is_eigenvector prims n A v lam <-> eigvec n A v lam.
Proof.
  unfold is_eigenvector, eigvec. split; intros H i Hi; specialize (H i Hi); rewrite (eigen_residual_denote prims n A v lam i) in *; lra.
Qed.

(* ---------- (b) the full statements ---------- *)
Section Full.
Variable prims : nat -> Q -> Q.
Variables (n : nat) (p : nat -> nat).
Hypothesis Hp : perm_on n p.

Definition nonneg_mat (A : mat Q) : Prop := forall i j, (i < n)%nat -> (j < n)%nat -> 0 <= A i j.
Definition symmetric_mat (A : mat Q) : Prop := forall i j, (i < n)%nat -> (j < n)%nat -> A i j == A j i.

(* pagerank_centrality(A, d) (default falff): ANY routine that, on non-negative matrices and damping factors
   0 <= d < 1, returns r' / sum(r') for some solution r' of (I - d A D^-1) r' = (1-d)/N commutes with every renumbering.
   (The earlier text of this statement quantified over all A, d - singular systems such as d = 1 included - and left
   out the final `r /= np.sum(r)`; it was false.) *)
Definition pagerank_full_statement : Prop :=
  forall (solver : mat Q -> Q -> vec Q),
    (forall A d, nonneg_mat A -> 0 <= d -> d < 1 -> solves_pagerank prims n A (solver A d) d) ->
  forall A d, nonneg_mat A -> 0 <= d -> d < 1 ->
  forall i, (i < n)%nat ->
    solver (pm p A) d i == solver A d (p i) /\
    pr_norm n (solver (pm p A) d) i == pr_norm n (solver A d) (p i).
Theorem pagerank_full : pagerank_full_statement.
Proof.
  intros solver Hs A d HA Hd0 Hd1 i Hi.
  assert (HA' : nonneg_mat (pm p A)).
  { intros a b Ha Hb. apply HA; [apply (EquivModels.perm_lt n p a Hp Ha)|apply (EquivModels.perm_lt n p b Hp Hb)]. }
  pose proof (proj1 (solves_pagerank_iff prims n _ _ d) (Hs (pm p A) d HA' Hd0 Hd1)) as S'.
  pose proof (proj1 (solves_pagerank_iff prims n _ _ d) (Hs A d HA Hd0 Hd1)) as S.
  destruct (pagerank_model_equivariant n p Hp A d None (solver (pm p A) d) (solver A d) Hd0 Hd1 HA S' S) as [E1 E2].
  split; [apply E1; exact Hi|apply E2; exact Hi].
Qed.

(* eigenvector_centrality_und on connected undirected non-negative networks: ANY routine that returns there a
   non-negative, non-zero eigenvector of fixed norm (for whichever eigenvalue it picks) commutes with every renumbering,
   and so does the eigenvalue.  (The earlier text asked only `is_eigenvector`; the zero vector and every multiple
   satisfy that, so it was false for every n >= 2.) *)
Definition eigenvector_full_statement : Prop :=
  forall (solver : mat Q -> vec Q) (lam : mat Q -> Q) (norm2 : Q),
    (forall A, symmetric_mat A -> nonneg_mat A -> irreducible n A ->
       is_eigenvector prims n A (solver A) (lam A) /\ nonneg_vec n (solver A) /\
       (exists i, (i < n)%nat /\ ~ solver A i == 0) /\ normsq n (solver A) == norm2) ->
  forall A, symmetric_mat A -> nonneg_mat A -> irreducible n A ->
    lam (pm p A) == lam A /\ forall i, (i < n)%nat -> solver (pm p A) i == solver A (p i).
Theorem eigenvector_full : eigenvector_full_statement.
Proof.
  intros solver lam norm2 Hs A As Ann Ac.
  assert (As' : symmetric_mat (pm p A)).
  { intros a b Ha Hb. apply As; [apply (EquivModels.perm_lt n p a Hp Ha)|apply (EquivModels.perm_lt n p b Hp Hb)]. }
  assert (Ann' : nonneg_mat (pm p A)).
  { intros a b Ha Hb. apply Ann; [apply (EquivModels.perm_lt n p a Hp Ha)|apply (EquivModels.perm_lt n p b Hp Hb)]. }
  destruct (Hs A As Ann Ac) as [E [P [[i0 [Hi0 N]] Nm]]].
  destruct (Hs (pm p A) As' Ann' (irreducible_pm n p Hp A Ac)) as [E' [P' [N' Nm']]].
  apply is_eigenvector_iff in E. apply is_eigenvector_iff in E'.
  assert (Hn : (0 < n)%nat) by lia.
  destruct (eigenvector_model_equivariant n p Hp A (solver A) (solver (pm p A)) (lam A) (lam (pm p A)) Hn As Ann Ac
              P E (ex_intro _ i0 (conj Hi0 N)) P' E' N') as [El [_ Ev]].
  split; [exact El|]. apply Ev. rewrite Nm, Nm'. reflexivity.
Qed.
End Full.
