(* Proofs/Signed.v — pick4 and the signed four-cell swap (Model/Signed.v) *)
From Coq Require Import ZArith List Arith Lia Bool.
From BCT Require Import Base.Mat Base.ListX Model.Signed.
Import ListNotations.
Open Scope Z_scope.

(* case split on every Nat.eqb, pruning contradictory branches at once *)
Ltac eqbc :=
  repeat match goal with
  | |- context[Nat.eqb ?u ?v] =>
    destruct (Nat.eqb_spec u v); [subst|]; cbn [andb orb negb]; try congruence
  end; try congruence; try reflexivity.

(* ---------- pick_four_unique_nodes_quickly ---------- *)
Lemma to_nat_mod_lt k n : (0 < n)%nat -> (Z.to_nat (k mod Z.of_nat n) < n)%nat.
Proof.
  intros Hn. assert (HN : 0 < Z.of_nat n) by lia.
  pose proof (Z.mod_pos_bound k (Z.of_nat n) HN) as Hb.
  remember (k mod Z.of_nat n) as m. lia.
Qed.

Lemma digits4_lt n x a b c d : (0 < n)%nat -> digits4 n x = (a, b, c, d) ->
  (a < n /\ b < n /\ c < n /\ d < n)%nat.
Proof.
  intros Hn H. unfold digits4 in H. injection H as Ha Hb Hc Hd. subst a b c d.
  repeat split; apply to_nat_mod_lt; exact Hn.
Qed.

Lemma distinct4_spec a b c d : distinct4 (a, b, c, d) = true ->
  (a <> b /\ a <> c /\ a <> d /\ b <> c /\ b <> d /\ c <> d)%nat.
Proof. unfold distinct4. rewrite !andb_true_iff, !negb_true_iff, !Nat.eqb_neq. tauto. Qed.

Lemma pick4_good n s q s' : (0 < n)%nat -> pick4 n s = Some (q, s') ->
  goodq n q /\ (length s' < length s)%nat.
Proof.
  intros Hn. induction s as [|x r IH]; cbn [pick4]; [discriminate|].
  destruct (distinct4 (digits4 n x)) eqn:E.
  - intros H. injection H as Hq Hs. subst q s'.
    destruct (digits4 n x) as [[[a b] c] d] eqn:Ed. split; [|cbn [length]; lia].
    unfold goodq. split; [eapply digits4_lt; eauto|apply distinct4_spec; exact E].
  - intros H. destruct (IH H) as [A B]. split; [exact A|cbn [length]; lia].
Qed.

Theorem pick4_distinct n s a b c d s' : (0 < n)%nat -> pick4 n s = Some ((a, b, c, d), s') ->
  (a < n /\ b < n /\ c < n /\ d < n)%nat /\
  (a <> b /\ a <> c /\ a <> d /\ b <> c /\ b <> d /\ c <> d) /\ (length s' < length s)%nat.
Proof. intros Hn H. destruct (pick4_good n s _ s' Hn H) as [[A B] C]. auto. Qed.

(* the nodes really are the base-n digits of the accepted draw *)
Lemma pick4_digits n s q s' : pick4 n s = Some (q, s') ->
  exists pre x, s = pre ++ x :: s' /\ q = digits4 n x /\ distinct4 q = true /\
                Forall (fun y => distinct4 (digits4 n y) = false) pre.
Proof.
  induction s as [|x r IH]; cbn [pick4]; [discriminate|].
  destruct (distinct4 (digits4 n x)) eqn:E.
  - intros H. injection H as Hq Hs. subst q s'. exists [], x. cbn [app]. auto.
  - intros H. destruct (IH H) as (pre & y & -> & Hq & Hd & Hf).
    exists (x :: pre), y. cbn [app]. auto.
Qed.

(* ---------- the rewiring condition ---------- *)
Lemma cond4_spec R a b c d : cond4 R (a, b, c, d) = true ->
  Z.sgn (R a b) = Z.sgn (R c d) /\ Z.sgn (R a d) = Z.sgn (R c b) /\ Z.sgn (R a b) <> Z.sgn (R a d).
Proof.
  unfold cond4. rewrite !andb_true_iff, negb_true_iff, !Z.eqb_eq, Z.eqb_neq. tauto.
Qed.

(* ---------- sums as functions of rows / columns ---------- *)
Lemma total_rows phi R n : total phi R n = sumn (fun i => rowsum phi R n i) n.
Proof. reflexivity. Qed.
Lemma total_cols phi R n : total phi R n = sumn (fun j => colsum phi R n j) n.
Proof. unfold total, sum2, colsum. rewrite sumn_fubini. reflexivity. Qed.

(* ---------- directed swap ---------- *)
Section Dir.
Variables (n : nat) (R : mat Z) (a b c d : nat).
Hypothesis Hg : goodq n (a, b, c, d).

(* every row keeps its multiset of entries (for every statistic phi) *)
Lemma swap_dir_row phi i : rowsum phi (swap_dir R (a, b, c, d)) n i = rowsum phi R n i.
Proof.
  destruct Hg as [(Ha & Hb & Hc & Hd) (Hab & Hac & Had & Hbc & Hbd & Hcd)]. unfold rowsum.
  destruct (Nat.eq_dec i a) as [->|Hia]; [|destruct (Nat.eq_dec i c) as [->|Hic]].
  - apply (sumn_swap2 _ _ n b d); auto; unfold swap_dir, upd.
    + eqbc.
    + eqbc.
    + intros j Hjb Hjd. eqbc.
  - apply (sumn_swap2 _ _ n b d); auto; unfold swap_dir, upd.
    + eqbc.
    + eqbc.
    + intros j Hjb Hjd. eqbc.
  - apply sumn_ext. intros j _. unfold swap_dir, upd. eqbc.
Qed.

Lemma swap_dir_total phi : total phi (swap_dir R (a, b, c, d)) n = total phi R n.
Proof. rewrite !total_rows. apply sumn_ext. intros i _. apply swap_dir_row. Qed.

Lemma swap_dir_diag i : swap_dir R (a, b, c, d) i i = R i i.
Proof.
  destruct Hg as [_ (Hab & Hac & Had & Hbc & Hbd & Hcd)]. unfold swap_dir, upd. eqbc.
Qed.

Hypothesis Hc4 : cond4 R (a, b, c, d) = true.

(* every column keeps its number of entries of each sign *)
Lemma swap_dir_col phi j : sgn_only phi ->
  colsum phi (swap_dir R (a, b, c, d)) n j = colsum phi R n j.
Proof.
  intros Hphi.
  destruct Hg as [(Ha & Hb & Hc & Hd) (Hab & Hac & Had & Hbc & Hbd & Hcd)].
  destruct (cond4_spec _ _ _ _ _ Hc4) as (S1 & S2 & _). unfold colsum.
  destruct (Nat.eq_dec j b) as [->|Hjb]; [|destruct (Nat.eq_dec j d) as [->|Hjd]].
  - apply (sumn_swap2 _ _ n a c); auto; unfold swap_dir, upd.
    + eqbc. apply Hphi. exact S2.
    + eqbc. apply Hphi. symmetry. exact S1.
    + intros i Hia Hic. eqbc.
  - apply (sumn_swap2 _ _ n a c); auto; unfold swap_dir, upd.
    + eqbc. apply Hphi. exact S1.
    + eqbc. apply Hphi. symmetry. exact S2.
    + intros i Hia Hic. eqbc.
  - apply sumn_ext. intros i _. unfold swap_dir, upd. eqbc.
Qed.
End Dir.

(* ---------- undirected swap = directed swap followed by its mirror image ---------- *)
Definition swap_col (T : mat Z) (q : quad) : mat Z :=
  let '(a, b, c, d) := q in
  let x1 := T b a in let x2 := T d a in let x3 := T d c in let x4 := T b c in
  upd (upd (upd (upd T d a x1) b a x2) b c x3) d c x4.

Section Und.
Variables (n : nat) (R : mat Z) (a b c d : nat).
Hypothesis Hg : goodq n (a, b, c, d).
Hypothesis Hsym : symn n R.

Lemma swap_und_decomp i j :
  swap_und R (a, b, c, d) i j = swap_col (swap_dir R (a, b, c, d)) (a, b, c, d) i j.
Proof.
  destruct Hg as [(Ha & Hb & Hc & Hd) (Hab & Hac & Had & Hbc & Hbd & Hcd)].
  unfold swap_und, swap_col, swap_dir, upd. eqbc; apply Hsym; assumption.
Qed.

Lemma swap_col_col (T : mat Z) phi j :
  colsum phi (swap_col T (a, b, c, d)) n j = colsum phi T n j.
Proof.
  destruct Hg as [(Ha & Hb & Hc & Hd) (Hab & Hac & Had & Hbc & Hbd & Hcd)]. unfold colsum.
  destruct (Nat.eq_dec j a) as [->|Hja]; [|destruct (Nat.eq_dec j c) as [->|Hjc]].
  - apply (sumn_swap2 _ _ n b d); auto; unfold swap_col, upd.
    + eqbc.
    + eqbc.
    + intros i Hib Hid. eqbc.
  - apply (sumn_swap2 _ _ n b d); auto; unfold swap_col, upd.
    + eqbc.
    + eqbc.
    + intros i Hib Hid. eqbc.
  - apply sumn_ext. intros i _. unfold swap_col, upd. eqbc.
Qed.

Lemma swap_und_total phi : total phi (swap_und R (a, b, c, d)) n = total phi R n.
Proof.
  transitivity (total phi (swap_col (swap_dir R (a, b, c, d)) (a, b, c, d)) n).
  - apply sum2_ext. intros i j _ _. rewrite swap_und_decomp. reflexivity.
  - rewrite total_cols.
    rewrite (sumn_ext _ (fun j => colsum phi (swap_dir R (a, b, c, d)) n j)).
    + rewrite <- total_cols. apply swap_dir_total. exact Hg.
    + intros j _. apply swap_col_col.
Qed.

Lemma swap_und_diag i : swap_und R (a, b, c, d) i i = R i i.
Proof.
  destruct Hg as [_ (Hab & Hac & Had & Hbc & Hbd & Hcd)]. unfold swap_und, upd. eqbc.
Qed.

Lemma swap_und_sym : symn n (swap_und R (a, b, c, d)).
Proof.
  destruct Hg as [(Ha & Hb & Hc & Hd) (Hab & Hac & Had & Hbc & Hbd & Hcd)].
  intros i j Hi Hj. unfold swap_und, upd. eqbc; try (apply Hsym; assumption); symmetry; apply Hsym; assumption.
Qed.

Hypothesis Hc4 : cond4 R (a, b, c, d) = true.

Lemma swap_und_row phi i : sgn_only phi ->
  rowsum phi (swap_und R (a, b, c, d)) n i = rowsum phi R n i.
Proof.
  intros Hphi.
  destruct Hg as [(Ha & Hb & Hc & Hd) (Hab & Hac & Had & Hbc & Hbd & Hcd)].
  destruct (cond4_spec _ _ _ _ _ Hc4) as (S1 & S2 & _). unfold rowsum.
  assert (Eba : R b a = R a b) by (apply Hsym; assumption).
  assert (Ebc : R b c = R c b) by (apply Hsym; assumption).
  assert (Eda : R d a = R a d) by (apply Hsym; assumption).
  assert (Edc : R d c = R c d) by (apply Hsym; assumption).
  destruct (Nat.eq_dec i a) as [->|Hia]; [|destruct (Nat.eq_dec i c) as [->|Hic];
    [|destruct (Nat.eq_dec i b) as [->|Hib]; [|destruct (Nat.eq_dec i d) as [->|Hid]]]].
  - apply (sumn_swap2 _ _ n b d); auto; unfold swap_und, upd.
    + eqbc.
    + eqbc.
    + intros j Hjb Hjd. eqbc.
  - apply (sumn_swap2 _ _ n b d); auto; unfold swap_und, upd.
    + eqbc.
    + eqbc.
    + intros j Hjb Hjd. eqbc.
  - (* row b: (b,a) := r_ad, (b,c) := r_cd *)
    apply (sumn_swap2 _ _ n a c); auto; unfold swap_und, upd.
    + eqbc. apply Hphi. rewrite Ebc. exact S2.
    + eqbc. apply Hphi. rewrite Eba. symmetry. exact S1.
    + intros j Hja Hjc. eqbc.
  - (* row d: (d,a) := r_ab, (d,c) := r_cb *)
    apply (sumn_swap2 _ _ n a c); auto; unfold swap_und, upd.
    + eqbc. apply Hphi. rewrite Edc. exact S1.
    + eqbc. apply Hphi. rewrite Eda. symmetry. exact S2.
    + intros j Hja Hjc. eqbc.
  - apply sumn_ext. intros j _. unfold swap_und, upd. eqbc.
Qed.

Lemma swap_und_col phi j : sgn_only phi -> (j < n)%nat ->
  colsum phi (swap_und R (a, b, c, d)) n j = colsum phi R n j.
Proof.
  intros Hphi Hj. unfold colsum.
  rewrite (sumn_ext _ (fun i => phi (swap_und R (a, b, c, d) j i))).
  - rewrite (sumn_ext (fun i => phi (R i j)) (fun i => phi (R j i))).
    + apply swap_und_row. exact Hphi.
    + intros i Hi. rewrite (Hsym i j Hi Hj). reflexivity.
  - intros i Hi. rewrite (swap_und_sym i j Hi Hj). reflexivity.
Qed.
End Und.

(* ---------- signed_step_inv: one accepted swap, either routine ---------- *)
Theorem signed_step_inv und n R q :
  pre und n R -> goodq n q -> cond4 R q = true -> sinv und n R (swap4 und R q).
Proof.
  intros Hpre Hg Hc4. destruct q as [[[a b] c] d]. destruct und; cbn [swap4].
  - assert (Hsym : symn n R) by (apply Hpre; reflexivity).
    split; [|split; [|split; [|split]]].
    + intros phi Hphi i _. apply swap_und_row; assumption.
    + intros phi Hphi j Hj. apply swap_und_col; assumption.
    + intros phi. apply swap_und_total; assumption.
    + intros i _. apply (swap_und_diag n); assumption.
    + intros _. apply swap_und_sym; assumption.
  - split; [|split; [|split; [|split]]].
    + intros phi _ i _. apply swap_dir_row; assumption.
    + intros phi Hphi j _. apply swap_dir_col; assumption.
    + intros phi. apply swap_dir_total; assumption.
    + intros i _. apply (swap_dir_diag n); assumption.
    + discriminate.
Qed.

(* ---------- sinv is a preorder, insensitive to re-tabulation ---------- *)
Lemma sinv_refl und n R : pre und n R -> sinv und n R R.
Proof. intros H. repeat split; auto. Qed.

Lemma sinv_trans und n R1 R2 R3 : sinv und n R1 R2 -> sinv und n R2 R3 -> sinv und n R1 R3.
Proof.
  intros (A1 & A2 & A3 & A4 & A5) (B1 & B2 & B3 & B4 & B5).
  split; [|split; [|split; [|split]]].
  - intros phi Hp i Hi. rewrite B1, A1; auto.
  - intros phi Hp j Hj. rewrite B2, A2; auto.
  - intros phi. rewrite B3, A3; auto.
  - intros i Hi. rewrite B4, A4; auto.
  - exact B5.
Qed.

Definition eqn (n : nat) (R R' : mat Z) : Prop := forall i j, (i < n)%nat -> (j < n)%nat -> R' i j = R i j.

Lemma sinv_eqn und n R R1 R2 : eqn n R1 R2 -> sinv und n R R1 -> sinv und n R R2.
Proof.
  intros He (A1 & A2 & A3 & A4 & A5).
  split; [|split; [|split; [|split]]].
  - intros phi Hp i Hi. rewrite <- A1 by assumption. apply sumn_ext. intros j Hj. rewrite He; auto.
  - intros phi Hp j Hj. rewrite <- A2 by assumption. apply sumn_ext. intros i Hi. rewrite He; auto.
  - intros phi. rewrite <- A3. apply sum2_ext. intros i j Hi Hj. rewrite He; auto.
  - intros i Hi. rewrite He; auto.
  - intros Hu i j Hi Hj. rewrite !He by assumption. apply A5; assumption.
Qed.

Lemma eqn_tab n R : eqn n R (tab 0 n n R).
Proof. intros i j Hi Hj. apply tab_spec; assumption. Qed.

Lemma sinv_pre und n R R' : sinv und n R R' -> pre und n R'.
Proof. intros (_ & _ & _ & _ & A5). exact A5. Qed.

(* ---------- lifting to the attempt loop and to whole runs ---------- *)
Lemma attempt_sinv und n fuel : forall R s R' q s', (0 < n)%nat -> pre und n R ->
  attempt und n fuel R s = Swapped R' q s' ->
  sinv und n R R' /\ goodq n q /\ cond4 R q = true /\ eqn n (swap4 und R q) R' /\
  (length s' < length s)%nat.
Proof.
  induction fuel as [|f IH]; intros R s R' q s' Hn Hpre; cbn [attempt]; [discriminate|].
  destruct (pick4 n s) as [[q0 s0]|] eqn:Ep; [|discriminate].
  destruct (pick4_good n s q0 s0 Hn Ep) as [Hg Hlen].
  destruct (cond4 R q0) eqn:Ec.
  - intros H. injection H as HR Hq Hs. subst R' q s'.
    split; [|split; [exact Hg|split; [exact Ec|split; [apply eqn_tab|exact Hlen]]]].
    apply (sinv_eqn und n R (swap4 und R q0)); [apply eqn_tab|].
    apply signed_step_inv; assumption.
  - intros H. destruct (IH R s0 R' q s' Hn Hpre H) as (A & B & C & D & E).
    split; [exact A|split; [exact B|split; [exact C|split; [exact D|lia]]]].
Qed.

Theorem signed_run_inv und n k : forall R0 R s Rf sf tr, (0 < n)%nat ->
  sinv und n R0 R -> iterate und n k R s = (Rf, sf, tr) ->
  sinv und n R0 Rf /\ Forall (fun e => sinv und n R0 (snd e)) tr.
Proof.
  induction k as [|k IH]; intros R0 R s Rf sf tr Hn Hinv; cbn [iterate].
  - intros H. injection H as H1 H2 H3. subst. split; [exact Hinv|constructor].
  - destruct (attempt und n (S (max_att und n)) R s) as [R' q s'|s'|] eqn:Ea.
    + destruct (iterate und n k R' s') as [[Rf' sf'] tr'] eqn:Ei.
      intros H. injection H as H1 H2 H3. subst Rf sf tr.
      destruct (attempt_sinv und n _ R s R' q s' Hn (sinv_pre _ _ _ _ Hinv) Ea) as (A & _).
      assert (Hinv' : sinv und n R0 R') by (eapply sinv_trans; eauto).
      destruct (IH R0 R' s' Rf' sf' tr' Hn Hinv' Ei) as [B C].
      split; [exact B|]. constructor; [exact Hinv'|exact C].
    + apply IH; assumption.
    + intros H. injection H as H1 H2 H3. subst. split; [exact Hinv|constructor].
Qed.

Corollary randmio_signed_inv und n R itr s Rf sf tr : (0 < n)%nat -> pre und n R ->
  randmio_signed und n R itr s = (Rf, sf, tr) ->
  sinv und n R Rf /\ Forall (fun e => sinv und n R (snd e)) tr.
Proof.
  intros Hn Hpre H. unfold randmio_signed in H. destruct (n <? 4)%nat.
  - injection H as <- _ <-. split; [apply sinv_refl; exact Hpre|constructor].
  - eapply signed_run_inv; eauto. apply sinv_refl. exact Hpre.
Qed.

(* ---------- the sign indicators are sign-only statistics ---------- *)
Lemma ipos_sgn_only : sgn_only ipos.
Proof. intros x y H. unfold ipos. destruct x, y; cbn in *; congruence. Qed.
Lemma ineg_sgn_only : sgn_only ineg.
Proof. intros x y H. unfold ineg. destruct x, y; cbn in *; congruence. Qed.

(* ---------- the invariant spelled out in the words of the property ---------- *)
Definition same_signed_degrees (n : nat) (R R' : mat Z) : Prop :=
  forall i, (i < n)%nat ->
    pos_out R' n i = pos_out R n i /\ neg_out R' n i = neg_out R n i /\
    pos_in R' n i = pos_in R n i /\ neg_in R' n i = neg_in R n i.
Definition same_entries (n : nat) (R R' : mat Z) : Prop := forall w, cnt w R' n = cnt w R n.
Definition same_diag (n : nat) (R R' : mat Z) : Prop := forall i, (i < n)%nat -> R' i i = R i i.

Lemma sinv_explicit und n R R' : sinv und n R R' ->
  same_signed_degrees n R R' /\ same_entries n R R' /\ same_diag n R R' /\ (und = true -> symn n R').
Proof.
  intros (A1 & A2 & A3 & A4 & A5). split; [|split; [|split]]; auto.
  - intros i Hi. unfold pos_out, neg_out, pos_in, neg_in.
    repeat split; [apply A1|apply A1|apply A2|apply A2]; auto using ipos_sgn_only, ineg_sgn_only.
  - intros w. apply A3.
Qed.

(* the routine can only ever return on networks with at least four nodes: for n <= 3 the Python
   recursion never ends (RecursionError), the model exhausts every stream *)
Lemma pick4_needs_4 n s q s' : (0 < n)%nat -> pick4 n s = Some (q, s') -> (4 <= n)%nat.
Proof.
  intros Hn H. destruct (pick4_good n s q s' Hn H) as [Hg _].
  destruct q as [[[a b] c] d]. destruct Hg as [(Ha & Hb & Hc & Hd) (Hab & Hac & Had & Hbc & Hbd & Hcd)]. lia.
Qed.
