(* Proofs/EquivModelsExpm.v — C04 for subgraph_centrality, FULL (replaces the `_partial` statement about truncations).

     centrality.py subgraph_centrality : vals, vecs = eigh(CIJ); return dot(vecs*vecs, exp(vals))    = diag(expm(CIJ))

   C18 (Proofs/LinearReal.v) defines the matrix exponential from the matrix ALONE over Coq's reals: expmR n A i j is the
   sum of the series sum_m (A^m)_ij / m! (stdlib `infinite_sum`; total: the series converges for every real matrix) and
   proves that its diagonal is the expression the code returns for ANY output (V, lam) of eigh (A v_k = lam_k v_k,
   V V^T = I).  Here:
     (a) a sum over the grid [0,n) is invariant under a bijection of the grid (over R; the Q version is
         Proofs/SymTerm.sumQ_reindex, same proof through Permutation (map p (seq 0 n)) (seq 0 n));
     (b) matrix powers commute with a simultaneous renumbering of rows and columns: (p.A)^m = p.(A^m) (induction on m,
         the inner sum re-indexed by (a)); hence so does every term and every partial sum of the exponential series;
     (c) two sums of the same series are equal (stdlib uniqueness_sum): expm(p.A) = p.expm(A) entrywise, in particular the
         diagonal - subgraph centrality - is permuted with the nodes;
     (d) at the level of the code: for ANY eigh output (V, lam) for A and ANY eigh output (V', lam') for the renumbered
         matrix - the two calls are unrelated LAPACK runs, the bases of a degenerate eigenspace may differ arbitrarily,
         the order of the eigenvalues too - the returned vectors agree up to the renumbering; with p = identity: the result
         does not depend on the arbitrary basis / ordering eigh picks (the anchor of the property). *)
From Coq Require Import QArith Qreals Reals Lra Lia Arith List Permutation.
From BCT Require Import Base.Mat Base.SumQ Model.SymTerm Proofs.LinearReal.
From BCT Require Proofs.SymTerm.
Import ListNotations.
Local Open Scope R_scope.

(* ---------- (a) ---------- *)
Lemma fold_Rplus_perm (f : nat -> R) l l' : Permutation l l' ->
  fold_right Rplus 0 (map f l) = fold_right Rplus 0 (map f l').
Proof.
  induction 1 as [|a l l' _ IH|a b l|l l' l'' _ IH1 _ IH2]; cbn [map fold_right].
  - reflexivity.
  - rewrite IH. reflexivity.
  - ring.
  - rewrite IH1. exact IH2.
Qed.

Lemma sumR_reindex n p (f : nat -> R) : perm_on n p -> sumR (fun k => f (p k)) n = sumR f n.
Proof.
  intros Hp. rewrite <- !fold_seq_sumR. rewrite <- (map_map p f). apply fold_Rplus_perm.
  apply Proofs.SymTerm.perm_map_seq. exact Hp.
Qed.

(* ---------- (b) ---------- *)
Section ExpmEquiv.
Variables (n : nat) (p : nat -> nat).
Hypothesis Hp : perm_on n p.

Lemma deltaR_pm i j : deltaR (p i) (p j) = deltaR i j.
Proof.
  unfold deltaR. destruct (Nat.eqb_spec i j) as [->|Hne]; [rewrite Nat.eqb_refl; reflexivity|].
  destruct (Nat.eqb_spec (p i) (p j)) as [E|_]; [|reflexivity]. apply (proj2 Hp) in E. contradiction.
Qed.

Theorem mpowR_pm (A : nat -> nat -> R) : forall m i j, mpowR n (pm p A) m i j = mpowR n A m (p i) (p j).
Proof.
  induction m as [|m IH]; intros i j; cbn [mpowR].
  - symmetry. apply deltaR_pm.
  - unfold mmulR.
    rewrite (sumR_ext _ (fun k => (fun x => A (p i) x * mpowR n A m x (p j)) (p k))).
    + apply (sumR_reindex n p (fun x => A (p i) x * mpowR n A m x (p j)) Hp).
    + intros k _. cbv beta. rewrite (IH k j). reflexivity.
Qed.

Lemma expm_term_pm A i j m : expm_term n (pm p A) i j m = expm_term n A (p i) (p j) m.
Proof. unfold expm_term. rewrite mpowR_pm. reflexivity. Qed.

Lemma expm_partial_pm A M i j : expm_partial n (pm p A) M i j = expm_partial n A M (p i) (p j).
Proof. unfold expm_partial. apply sum_eq. intros m _. apply expm_term_pm. Qed.

Lemma perm_ltR i : (i < n)%nat -> (p i < n)%nat.
Proof. intros Hi. apply (proj1 (proj1 Hp i)). exact Hi. Qed.

(* ---------- (c) ---------- *)
Theorem expmR_pm (A : nat -> nat -> R) i j : (i < n)%nat -> (j < n)%nat ->
  expmR n (pm p A) i j = expmR n A (p i) (p j).
Proof.
  intros Hi Hj. apply (uniqueness_sum (expm_term n A (p i) (p j))).
  - pose proof (expmR_is_expm n (pm p A) i j Hi Hj) as H.
    intros eps He. destruct (H eps He) as [N HN]. exists N. intros M HM.
    specialize (HN M HM). fold (expm_partial n (pm p A) M i j) in HN. rewrite expm_partial_pm in HN. exact HN.
  - exact (expmR_is_expm n A (p i) (p j) (perm_ltR i Hi) (perm_ltR j Hj)).
Qed.

(* subgraph centrality as a function of the matrix alone: the diagonal of the matrix exponential *)
Definition subgraphR (A : nat -> nat -> R) : nat -> R := fun i => expmR n A i i.

Theorem subgraph_expm_equivariant (A : nat -> nat -> R) :
  (forall i j, (i < n)%nat -> (j < n)%nat -> expmR n (pm p A) i j = expmR n A (p i) (p j)) /\
  (forall i, (i < n)%nat -> subgraphR (pm p A) i = pv p (subgraphR A) i).
Proof.
  split; [intros i j; apply expmR_pm|]. intros i Hi. unfold subgraphR, pv. apply expmR_pm; exact Hi.
Qed.

(* ---------- (d) the code's expression, for unrelated eigh outputs of the two calls ---------- *)
Definition eigh_spec (A V : nat -> nat -> R) (lam : nat -> R) : Prop :=
  (forall i k, (i < n)%nat -> (k < n)%nat -> sumR (fun l => A i l * V l k) n = lam k * V i k) /\
  (forall i j, (i < n)%nat -> (j < n)%nat -> sumR (fun k => V i k * V j k) n = deltaR i j).
(* np.dot(vecs * vecs, np.exp(vals)) *)
Definition subgraph_code (V : nat -> nat -> R) (lam : nat -> R) : nat -> R :=
  fun i => sumR (fun k => V i k * V i k * exp (lam k)) n.

Theorem subgraph_code_equivariant (A V V' : nat -> nat -> R) (lam lam' : nat -> R) :
  eigh_spec A V lam -> eigh_spec (pm p A) V' lam' ->
  forall i, (i < n)%nat -> subgraph_code V' lam' i = subgraph_code V lam (p i).
Proof.
  intros [H1 H2] [H1' H2'] i Hi.
  destruct (subgraph_expmR n A V lam H1 H2) as [_ [_ [_ D]]].
  destruct (subgraph_expmR n (pm p A) V' lam' H1' H2') as [_ [_ [_ D']]].
  unfold subgraph_code. rewrite <- (D' i Hi), <- (D (p i) (perm_ltR i Hi)). apply expmR_pm; exact Hi.
Qed.
End ExpmEquiv.

(* the identity renumbering: two eigh outputs for the SAME matrix (different bases of a degenerate eigenspace, different
   order or signs of the eigenvectors) give the same centrality *)
Theorem subgraph_code_basis_independent n (A V V' : nat -> nat -> R) (lam lam' : nat -> R) :
  eigh_spec n A V lam -> eigh_spec n A V' lam' ->
  forall i, (i < n)%nat -> subgraph_code n V' lam' i = subgraph_code n V lam i.
Proof.
  intros [H1 H2] [H1' H2'] i Hi.
  destruct (subgraph_expmR n A V lam H1 H2) as [_ [_ [_ D]]].
  destruct (subgraph_expmR n A V' lam' H1' H2') as [_ [_ [_ D']]].
  unfold subgraph_code. rewrite <- (D' i Hi), <- (D i Hi). reflexivity.
Qed.

(* non-vacuity: K_2 with the irrational eigenbasis of Proofs/LinearReal.v and the swap of the two nodes; the renumbered
   matrix with the SAME basis but the eigenpairs listed in the other order *)
Definition swap2 (i : nat) : nat := match i with 0%nat => 1%nat | 1%nat => 0%nat | _ => i end.
Lemma swap2_perm : perm_on 2 swap2.
Proof.
  split.
  - intros i. destruct i as [|[|i]]; cbn [swap2]; lia.
  - intros i j. destruct i as [|[|i]]; destruct j as [|[|j]]; cbn [swap2]; lia.
Qed.
Example subgraph_expm_equivariant_nonvacuous :
  perm_on 2 swap2 /\ eigh_spec 2 K2 K2V K2lam /\
  (forall i, (i < 2)%nat -> subgraphR 2 (pm swap2 K2) i = ((exp 1 + exp (-1)) / 2)).
Proof.
  destruct subgraph_expm_nonvacuous as [H1 [H2 H3]].
  split; [exact swap2_perm|]. split; [split; assumption|].
  intros i Hi. rewrite (proj2 (subgraph_expm_equivariant 2 swap2 swap2_perm K2) i Hi).
  unfold pv, subgraphR. apply H3. destruct i as [|[|i]]; cbn [swap2]; lia.
Qed.
