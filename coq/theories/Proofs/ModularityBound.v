(* Proofs/ModularityBound.v — C02: the modularity of ANY partition of a symmetric non-negative network is >= -gamma/2
   (0 <= gamma <= 2). Consequence for modularity_louvain_und: q[1] >= -gamma/2, so for gamma <= 19/10 the stopping rule
   q[h] - q[h-1] < 1e-10 (q[0] = -1) cannot fire at the first level: whenever the level count obeys the code's own stopping
   rule at least two levels are computed and the routine returns a COMPUTED level — the hypothesis of
   louvain_und_run_q then follows from the domain of the property. *)
From Coq Require Import QArith Qring Qfield Lia Lqa Arith List Bool ZArith Setoid Morphisms.
From BCT Require Import Base.Mat Base.SumQ Base.ListX Model.Modularity Proofs.ModularitySums Proofs.ModularityQ
  Proofs.ModularityGain Proofs.ModularityRun.
Import ListNotations.
Open Scope Q_scope.

Definition nonneg_on (n : nat) (W : mat Q) : Prop := forall i j, (i < n)%nat -> (j < n)%nat -> 0 <= W i j.

(* ---------- one diagonal term ---------- *)
(* d = w_tt, k = degree of t, s = total weight *)
Lemma term_bound_s (s d k g : Q) : 0 < s -> 0 <= d -> d <= k -> k <= s -> 2 * k - d <= s -> 0 <= g -> g <= 2 ->
  0 <= s * d - g * (k * k) + g * (1 # 2) * k * s.
Proof.
  intros Hs Hd Hdk Hks Hrow Hg0 Hg2.
  assert (Hk : 0 <= k) by lra.
  destruct (Qlt_le_dec s (2 * k)) as [Hlt|Hle].
  - assert (A : 0 <= (2 * k - s) * (s - g * (1 # 2) * k)).
    { apply Qmult_le_0_compat; [lra|]. assert (0 <= (2 - g) * k) by (apply Qmult_le_0_compat; lra). lra. }
    assert (B : 0 <= s * (d - (2 * k - s))) by (apply Qmult_le_0_compat; lra).
    assert (E : s * d - g * (k * k) + g * (1 # 2) * k * s ==
                (2 * k - s) * (s - g * (1 # 2) * k) + s * (d - (2 * k - s))) by ring.
    rewrite E. lra.
  - assert (A : 0 <= s * d) by (apply Qmult_le_0_compat; lra).
    assert (B : 0 <= g * (k * (s * (1 # 2) - k))).
    { apply Qmult_le_0_compat; [lra|]. apply Qmult_le_0_compat; lra. }
    assert (E : s * d - g * (k * k) + g * (1 # 2) * k * s == s * d + g * (k * (s * (1 # 2) - k))) by ring.
    rewrite E. lra.
Qed.

Lemma term_bound (s d k g : Q) : 0 < s -> 0 <= d -> d <= k -> k <= s -> 2 * k - d <= s -> 0 <= g -> g <= 2 ->
  - (g * (1 # 2)) * k <= d - g * (k * k) / s.
Proof.
  intros Hs Hd Hdk Hks Hrow Hg0 Hg2.
  pose proof (term_bound_s s d k g Hs Hd Hdk Hks Hrow Hg0 Hg2) as H.
  assert (E : d - g * (k * k) / s + g * (1 # 2) * k == (s * d - g * (k * k) + g * (1 # 2) * k * s) / s).
  { field. intro Z. rewrite Z in Hs. lra. }
  assert (P : 0 <= d - g * (k * k) / s + g * (1 # 2) * k).
  { rewrite E. apply Qle_shift_div_l; [exact Hs|]. lra. }
  lra.
Qed.

(* ---------- sums of non-negative terms ---------- *)
Lemma sumQ_ge_term f n t : (forall i, (i < n)%nat -> 0 <= f i) -> (t < n)%nat -> f t <= sumQ f n.
Proof.
  intros Hf Ht. rewrite <- (collapse f n t Ht).
  apply sumQ_le. intros u Hu. unfold is_, ind. destruct (Nat.eqb t u); [|specialize (Hf u Hu)]; lra.
Qed.

Section DiagBound.
Variables (K : nat) (w : mat Q) (g s : Q).
Hypothesis Hsym : sym_on K w.
Hypothesis Hnn : nonneg_on K w.
Hypothesis Hs : s == sum2Q w K.
Hypothesis Hpos : 0 < s.
Hypothesis Hg0 : 0 <= g.
Hypothesis Hg2 : g <= 2.
Let k := fun t => sumQ (fun v => w t v) K.

Lemma k_nonneg t : (t < K)%nat -> 0 <= k t.
Proof. intros Ht. unfold k. apply sumQ_nonneg. intros v Hv. apply Hnn; assumption. Qed.

Lemma k_total : sumQ k K == s.
Proof. rewrite Hs. reflexivity. Qed.

Lemma diag_le_k t : (t < K)%nat -> w t t <= k t.
Proof. intros Ht. unfold k. apply (sumQ_ge_term (fun v => w t v) K t); [intros; apply Hnn; assumption|exact Ht]. Qed.

Lemma k_le_s t : (t < K)%nat -> k t <= s.
Proof. intros Ht. rewrite <- k_total. apply (sumQ_ge_term k K t); [intros; apply k_nonneg; assumption|exact Ht]. Qed.

(* row t and column t together fit into the total *)
Lemma cross_le_s t : (t < K)%nat -> 2 * k t - w t t <= s.
Proof.
  intros Ht. rewrite <- k_total.
  assert (E : 2 * k t - w t t == sumQ (fun a => w a t + is_ a t * (k t - w t t)) K).
  { rewrite sumQ_add. rewrite (collapse' (fun _ => k t - w t t) K t Ht).
    rewrite (sumQ_ext (fun a => w a t) (fun a => w t a)) by (intros a Ha; apply Hsym; assumption). unfold k. ring. }
  rewrite E. apply sumQ_le. intros a Ha. unfold is_, ind. destruct (Nat.eqb_spec a t) as [->|Hne].
  - lra.
  - assert (w a t <= k a) by (unfold k; apply (sumQ_ge_term (fun v => w a v) K t); [intros; apply Hnn; assumption|exact Ht]). lra.
Qed.

(* trace(w)/s - g*sum(dot(w/s,w/s)) >= -g/2 *)
Lemma closing_lower_bound : - (g * (1 # 2)) <= closing K w g s.
Proof.
  rewrite closing_closing_raw. unfold closing_raw. rewrite trace_spec, sumdot_spec.
  rewrite (sumQ_ext (fun t => sumQ (fun u => w u t) K * sumQ (fun v => w t v) K) (fun t => k t * k t)).
  2:{ intros t Ht. unfold k. rewrite (sumQ_ext (fun u => w u t) (fun u => w t u)) by (intros u Hu; apply Hsym; assumption). reflexivity. }
  assert (B : - (g * (1 # 2)) * s <= sumQ (fun t => w t t) K - g * sumQ (fun t => k t * k t) K / s).
  { rewrite <- k_total at 1. rewrite <- sumQ_scal.
    assert (E : sumQ (fun t => w t t) K - g * sumQ (fun t => k t * k t) K / s ==
                sumQ (fun t => w t t - g * (k t * k t) / s) K).
    { rewrite sumQ_sub.
      rewrite (sumQ_ext (fun t => g * (k t * k t) / s) (fun t => (g * / s) * (k t * k t))) by (intros; unfold Qdiv; ring).
      rewrite sumQ_scal. unfold Qdiv. ring. }
    rewrite E. apply sumQ_le. intros t Ht.
    apply term_bound; try assumption; [apply Hnn; assumption|apply diag_le_k; exact Ht|apply k_le_s; exact Ht|apply cross_le_s; exact Ht]. }
  apply Qle_shift_div_l; [exact Hpos|]. lra.
Qed.
End DiagBound.

(* ---------- any partition of a symmetric non-negative network ---------- *)
Lemma agg_nonneg n W lb a b : nonneg_on n W -> 0 <= agg n W lb a b.
Proof.
  intros Hnn. rewrite agg_spec. apply sumQ_nonneg. intros i Hi. apply sumQ_nonneg. intros j Hj.
  specialize (Hnn i j Hi Hj). unfold is_, ind. destruct (Nat.eqb (lb i) a), (Nat.eqb (lb j) b); lra.
Qed.

Theorem Qund_lower_bound n K W g lb : sym_on n W -> nonneg_on n W -> 0 < stot n W -> 0 <= g -> g <= 2 ->
  lab_lt n K lb -> - (g * (1 # 2)) <= Qund n W g lb.
Proof.
  intros Hsym Hnn Hpos Hg0 Hg2 Hl.
  rewrite (Qund_Qdir n W g lb Hsym), <- (q_closing_dir_eq_def n K W g lb Hl).
  apply closing_lower_bound; try assumption.
  - intros a b _ _. apply agg_sym. exact Hsym.
  - intros a b _ _. apply agg_nonneg. exact Hnn.
  - rewrite <- stot_spec. symmetry. apply stot_agg. exact Hl.
Qed.

(* ---------- modularity_louvain_und: the stopping rule cannot fire at the first level ---------- *)
Definition nonneg_rows (rows : list (list Q)) : Prop := nonneg_on (length rows) (of_rows 0 rows).
(* the q's of the computed levels obey the code's loop: every level but the last passed q[h]-q[h-1] >= 1e-10, the last
   did not *)
Definition stop_rule_ok (qs : list Q) : Prop := retained qs = removelast qs.
Definition level_qs (r : result_t) : list Q := map (fun l : level_t => fst (snd (snd l))) (fst r).

Lemma Qltb_lt a b : Qltb a b = true -> a < b.
Proof.
  unfold Qltb. intros H. apply Qnot_le_lt. intros Hle. apply Qle_bool_iff in Hle. rewrite Hle in H. discriminate H.
Qed.

Lemma stop_rule_two q1 tl : stop_rule_ok (q1 :: tl) -> - (1) + eps <= q1 -> tl <> [].
Proof.
  unfold stop_rule_ok, retained. cbn [retained_from]. intros H Hq E. subst tl. cbn [removelast] in H.
  destruct (Qltb (q1 - - (1)) eps) eqn:Z; [|discriminate H].
  apply Qltb_lt in Z. lra.
Qed.

Lemma rowsW_nonneg rows : nonneg_rows rows -> nonneg_on (length rows) (rowsW rows).
Proof. intros H i j Hi Hj. unfold rowsW. rewrite tabQ_spec by assumption. apply H; assumption. Qed.

Lemma labels_exact_lt n0 l k : labels_exact n0 l k -> lab_lt n0 (S k) (fun x => nth x l O).
Proof. intros (_ & H & _) x Hx. specialize (H x Hx). lia. Qed.

Theorem louvain_und_levels_bounded rows g lv : sym_rows rows -> nonneg_rows rows ->
  0 < stot (length rows) (rowsW rows) -> 0 <= g -> g <= 2 ->
  Forall (fun q => - (g * (1 # 2)) <= q) (level_qs (run_louvain_und rows g lv)).
Proof.
  intros Hs Hnn Hpos Hg0 Hg2. unfold level_qs. rewrite run_louvain_und_eq. cbn [fst]. rewrite map_map.
  pose proof (und_res_ok rows g lv Hs) as HF.
  induction HF as [|e l He _ IH]; cbn [map]; constructor; [|exact IH].
  destruct He as ([k Hk] & Eq & E1 & _). unfold lvl_q in E1. rewrite E1, Eq, Qred_correct.
  apply (Qund_lower_bound _ (S k)); try assumption; [apply rowsW_sym; exact Hs|apply rowsW_nonneg; exact Hnn|apply labels_exact_lt; exact Hk].
Qed.

(* C02, whole run, hypothesis-free in the domain of the property: symmetric non-negative W with positive total weight,
   0 <= gamma <= 19/10, level count as the code's stopping rule dictates (on the exact q's) *)
Theorem louvain_und_run_q_domain rows g lv : sym_rows rows -> nonneg_rows rows ->
  0 < stot (length rows) (rowsW rows) -> 0 <= g -> g <= 19 # 10 -> lv <> [] ->
  stop_rule_ok (level_qs (run_louvain_und rows g lv)) ->
  let r := run_louvain_und rows g lv in ret_q r = ret_qdef r.
Proof.
  intros Hs Hnn Hpos Hg0 Hg Hne Hstop. apply louvain_und_run_q; [exact Hs|].
  assert (Hg2 : g <= 2) by lra.
  pose proof (louvain_und_levels_bounded rows g lv Hs Hnn Hpos Hg0 Hg2) as HB.
  assert (HL : length (level_qs (run_louvain_und rows g lv)) = length lv).
  { unfold level_qs. rewrite run_louvain_und_eq. cbn [fst]. rewrite !map_length. unfold und_res. apply louvain_und_levels_length. }
  destruct (level_qs (run_louvain_und rows g lv)) as [|q1 tl] eqn:E.
  - destruct lv; [congruence|discriminate HL].
  - inversion HB as [|? ? Hq1 _]; subst.
    assert (Hge : - (1) + eps <= q1). { unfold eps. assert (- (19 # 20) <= - (g * (1 # 2))) by lra. assert (- (1) + (1 # 10000000000) <= - (19 # 20)) by (unfold Qle; cbn; lia). lra. }
    pose proof (stop_rule_two q1 tl Hstop Hge) as Htl. rewrite <- HL. destruct tl; [congruence|cbn [length]; lia].
Qed.

Example louvain_und_run_q_domain_nonvacuous :
  sym_rows ex_rows /\ nonneg_rows ex_rows /\ 0 < stot (length ex_rows) (rowsW ex_rows) /\ ex_lv <> [] /\
  stop_rule_ok (level_qs (run_louvain_und ex_rows 1 ex_lv)) /\ level_qs (run_louvain_und ex_rows 1 ex_lv) = [5 # 14; 5 # 14].
Proof.
  split; [unfold sym_rows; sym6|]. split.
  - intros i j Hi Hj. do 6 (destruct i as [|i]; [do 6 (destruct j as [|j]; [vm_compute; discriminate|]); exfalso; cbn in Hj; lia|]). exfalso; cbn in Hi; lia.
  - split; [vm_compute; reflexivity|]. split; [discriminate|]. split; vm_compute; reflexivity.
Qed.
