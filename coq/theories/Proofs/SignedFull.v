(* Proofs/SignedFull.v — randmio_*_signed: the diagonal clause (empty in => empty out; self-connections
   are kept, which refutes "the diagonal is empty" for every input that has one) and networks with fewer
   than four nodes (returned unchanged). *)
From Coq Require Import ZArith List Arith Lia Bool.
From BCT Require Import Base.Mat Base.ListX Model.Signed Proofs.Signed.
Import ListNotations.
Open Scope Z_scope.

(* ---------- the diagonal ---------- *)
Theorem signed_run_diag_kept und n R itr s Rf sf tr : (0 < n)%nat -> pre und n R ->
  randmio_signed und n R itr s = (Rf, sf, tr) ->
  (forall i, (i < n)%nat -> Rf i i = R i i) /\
  Forall (fun e => forall i, (i < n)%nat -> snd e i i = R i i) tr.
Proof.
  intros Hn Hp H. destruct (randmio_signed_inv und n R itr s Rf sf tr Hn Hp H) as [A B].
  split; [destruct A as (_ & _ & _ & A4 & _); exact A4|].
  eapply Forall_impl; [|exact B]. intros e (_ & _ & _ & A4 & _). exact A4.
Qed.

(* the corollary that is true: an empty diagonal stays empty (final matrix and every intermediate state) *)
Theorem signed_run_diag_empty und n R itr s Rf sf tr : (0 < n)%nat -> pre und n R ->
  (forall i, (i < n)%nat -> R i i = 0) ->
  randmio_signed und n R itr s = (Rf, sf, tr) ->
  (forall i, (i < n)%nat -> Rf i i = 0) /\
  Forall (fun e => forall i, (i < n)%nat -> snd e i i = 0) tr.
Proof.
  intros Hn Hp Hd H. destruct (signed_run_diag_kept und n R itr s Rf sf tr Hn Hp H) as [A B].
  split; [intros i Hi; rewrite (A i Hi); auto|].
  eapply Forall_impl; [|exact B]. intros e He i Hi. cbv beta in He. rewrite (He i Hi). auto.
Qed.

(* the clause as the property text has it, for every input of the quantifier *)
Definition diag_clause_full : Prop :=
  forall und n R itr s Rf sf tr, (0 < n)%nat -> pre und n R ->
    randmio_signed und n R itr s = (Rf, sf, tr) -> forall i, (i < n)%nat -> Rf i i = 0.

(* every self-connection of the input is still there in the output: the clause fails for EVERY input that has one *)
Theorem signed_run_selfloop_kept und n R itr s Rf sf tr i : (0 < n)%nat -> pre und n R ->
  randmio_signed und n R itr s = (Rf, sf, tr) -> (i < n)%nat -> R i i <> 0 -> Rf i i <> 0.
Proof.
  intros Hn Hp H Hi Hne. destruct (signed_run_diag_kept und n R itr s Rf sf tr Hn Hp H) as [A _].
  rewrite (A i Hi). exact Hne.
Qed.

Definition refute_R : mat Z :=
  of_rows 0 [[3; 2; -1; 0; 3]; [2; 0; 0; -2; 1]; [-1; 0; -1; 1; -2]; [0; -2; 1; 0; 0]; [3; 1; -2; 0; 0]]%list.

Lemma refute_R_sym : symn 5 refute_R.
Proof.
  intros i j Hi Hj.
  do 5 (destruct i as [|i]; [do 5 (destruct j as [|j]; [reflexivity|]); lia|]). lia.
Qed.

Theorem diag_clause_refuted : ~ diag_clause_full.
Proof.
  intros H.
  destruct (randmio_signed true 5 refute_R 1 [430; 6; 38]%list) as [[Rf sf] tr] eqn:E.
  assert (Hp : pre true 5 refute_R) by (intros _; exact refute_R_sym).
  assert (Hn : (0 < 5)%nat) by lia.
  pose proof (H true 5%nat refute_R 1%nat [430; 6; 38]%list Rf sf tr Hn Hp E 0%nat Hn) as H0.
  apply (signed_run_selfloop_kept true 5 refute_R 1 _ Rf sf tr 0 Hn Hp E Hn); [|exact H0].
  vm_compute. discriminate.
Qed.

(* ---------- fewer than four nodes: `if n < 4: return R, 0` ---------- *)
(* the call returns the input unchanged, with no swap and no draw consumed, for every itr and stream *)
Theorem small_n_returns_input und n R itr s : (n < 4)%nat ->
  randmio_signed_ret und n R itr s = Some (R, s, []).
Proof.
  intros H4. unfold randmio_signed_ret, randmio_runs_out, randmio_signed.
  destruct (Nat.ltb_spec n 4) as [_|H]; [reflexivity|lia].
Qed.

(* whenever the call returns, its result is the run the invariant theorems speak about *)
Lemma randmio_signed_ret_Some und n R itr s x : randmio_signed_ret und n R itr s = Some x ->
  randmio_signed und n R itr s = x.
Proof. unfold randmio_signed_ret. destruct (randmio_runs_out _ _ _ _ _); [discriminate|]. intros H. injection H. auto. Qed.

(* no iteration requested: the input comes back, for every n *)
Lemma randmio_signed_ret_zero und n R s : randmio_signed_ret und n R 0 s = Some (R, s, []).
Proof.
  unfold randmio_signed_ret, randmio_runs_out, randmio_signed, n_iter.
  destruct (n <? 4)%nat; [reflexivity|]. destruct und; cbn [Nat.mul negb andb]; reflexivity.
Qed.
