(* Proofs/GeneratorsTemplate.v — closed form of the hierarchical template built by makeevenCIJ / makefractalCIJ:
   off the diagonal  template mx i j = 1 + #{ m in 1..mx-1 : i and j lie in the same block of size 2^m },
   hence  mx - (s-1) <= template mx i j  <->  i and j lie in the same block of size 2^s   (1 <= s <= mx):
   the "clusters" of both generators are exactly the diagonal blocks of size 2^sz_cl. *)
From Coq Require Import ZArith List Arith Bool Lia.
From BCT Require Import Base.Mat Base.ListX Model.Generators Proofs.GeneratorsBase Proofs.Generators.
Import ListNotations.
Open Scope Z_scope.

Definition same (m i j : nat) : bool := Nat.eqb (i / 2 ^ m) (j / 2 ^ m).
(* number of levels 1..l at which i and j share a block *)
Definition cntlev (l i j : nat) : Z := sumn (fun m => b2z (same (S m) i j)) l.

Lemma pow2_nz m : (2 ^ m <> 0)%nat.
Proof. pose proof (pow2_pos m). lia. Qed.

Lemma pow2_split l m : (m <= l)%nat -> (2 ^ l = 2 ^ (l - m) * 2 ^ m)%nat.
Proof. intros H. rewrite <- Nat.pow_add_r. f_equal. lia. Qed.

(* shifting both indices by a multiple of the block size does not change block membership *)
Lemma same_shift l m i j : (1 <= m <= l)%nat -> (2 ^ l <= i)%nat -> (2 ^ l <= j)%nat ->
  same m (i - 2 ^ l) (j - 2 ^ l) = same m i j.
Proof.
  intros Hm Hi Hj. unfold same.
  assert (E : forall a, (2 ^ l <= a)%nat -> (a / 2 ^ m = (a - 2 ^ l) / 2 ^ m + 2 ^ (l - m))%nat).
  { intros a Ha. rewrite <- (Nat.div_add _ _ _ (pow2_nz m)). f_equal. rewrite <- (pow2_split l m) by lia. lia. }
  rewrite (E i Hi), (E j Hj).
  destruct (Nat.eqb_spec ((i - 2 ^ l) / 2 ^ m) ((j - 2 ^ l) / 2 ^ m));
  destruct (Nat.eqb_spec ((i - 2 ^ l) / 2 ^ m + 2 ^ (l - m)) ((j - 2 ^ l) / 2 ^ m + 2 ^ (l - m))); try reflexivity; lia.
Qed.

Lemma same_small l i j : (i < 2 ^ l)%nat -> (j < 2 ^ l)%nat -> same l i j = true.
Proof. intros Hi Hj. unfold same. rewrite !Nat.div_small by assumption. reflexivity. Qed.

Lemma same_high l i j : (2 ^ l <= i < 2 ^ S l)%nat -> (2 ^ l <= j < 2 ^ S l)%nat -> same l i j = true.
Proof.
  intros Hi Hj. unfold same.
  assert (E : forall a, (2 ^ l <= a < 2 ^ S l)%nat -> (a / 2 ^ l = 1)%nat).
  { intros a Ha. symmetry. apply (Nat.div_unique a (2 ^ l) 1 (a - 2 ^ l)); cbn [Nat.pow] in Ha; lia. }
  rewrite (E i Hi), (E j Hj). reflexivity.
Qed.

(* indices on different sides of the middle share no block up to that size *)
Lemma same_split l m i j : (m <= l)%nat -> (i < 2 ^ l)%nat -> (2 ^ l <= j)%nat -> same m i j = false /\ same m j i = false.
Proof.
  intros Hm Hi Hj. unfold same.
  assert (H1 : (i / 2 ^ m < 2 ^ (l - m))%nat).
  { apply Nat.div_lt_upper_bound; [apply pow2_nz|]. rewrite Nat.mul_comm. rewrite <- (pow2_split l m Hm). exact Hi. }
  assert (H2 : (2 ^ (l - m) <= j / 2 ^ m)%nat).
  { rewrite <- (Nat.div_mul (2 ^ (l - m)) (2 ^ m) (pow2_nz m)). rewrite <- (pow2_split l m Hm).
    apply Nat.div_le_mono; [apply pow2_nz|exact Hj]. }
  split; [destruct (Nat.eqb_spec (i / 2 ^ m) (j / 2 ^ m))|destruct (Nat.eqb_spec (j / 2 ^ m) (i / 2 ^ m))]; try reflexivity; lia.
Qed.

Lemma cntlev_zero l i j : (forall m, (1 <= m <= l)%nat -> same m i j = false) -> cntlev l i j = 0.
Proof.
  intros H. unfold cntlev. rewrite (sumn_ext _ (fun _ => 0)); [apply sumn_zero|].
  intros m Hm. rewrite H by lia. reflexivity.
Qed.

Theorem tloop_levels : forall l i j, (i < 2 ^ S l)%nat -> (j < 2 ^ S l)%nat ->
  tloop l i j = 2 + cntlev l i j.
Proof.
  induction l; intros i j Hi Hj; [reflexivity|].
  rewrite tloop_S by assumption. unfold tstep. rewrite pow2_half.
  unfold cntlev. cbn [sumn]. fold (cntlev l i j).
  assert (Hpow : (2 ^ S (S l) = 2 * 2 ^ S l)%nat) by reflexivity.
  destruct (Nat.ltb_spec i (2 ^ S l)) as [Hi1|Hi1]; destruct (Nat.ltb_spec j (2 ^ S l)) as [Hj1|Hj1]; cbn [andb].
  - rewrite IHl by assumption. rewrite same_small by assumption. cbn [b2z]. lia.
  - destruct (Nat.leb_spec (2 ^ S l) i); [lia|]. cbn [andb].
    destruct (same_split (S l) (S l) i j (le_n _) Hi1 Hj1) as [E _]. rewrite E. cbn [b2z].
    rewrite (cntlev_zero l i j); [lia|]. intros m Hm. apply (same_split (S l) m i j); lia.
  - destruct (Nat.leb_spec (2 ^ S l) i); destruct (Nat.leb_spec (2 ^ S l) j); cbn [andb]; try lia.
    destruct (same_split (S l) (S l) j i (le_n _) Hj1 Hi1) as [_ E]. rewrite E. cbn [b2z].
    rewrite (cntlev_zero l i j); [lia|]. intros m Hm. apply (same_split (S l) m j i); lia.
  - destruct (Nat.leb_spec (2 ^ S l) i); destruct (Nat.leb_spec (2 ^ S l) j); cbn [andb]; try lia.
    rewrite IHl by lia. rewrite (same_high (S l) i j) by lia. cbn [b2z].
    assert (E : cntlev l (i - 2 ^ S l) (j - 2 ^ S l) = cntlev l i j).
    { unfold cntlev. apply sumn_ext. intros m Hm. rewrite same_shift by lia. reflexivity. }
    rewrite E. lia.
Qed.

(* sharing a block is monotone in the block size *)
Lemma same_mono m i j : same m i j = true -> same (S m) i j = true.
Proof.
  unfold same. intros H. apply Nat.eqb_eq in H. apply Nat.eqb_eq.
  cbn [Nat.pow]. rewrite (Nat.mul_comm 2). rewrite <- !Nat.div_div by (try apply pow2_nz; lia). rewrite H. reflexivity.
Qed.

Lemma same_mono_le m m' i j : (m <= m')%nat -> same m i j = true -> same m' i j = true.
Proof. induction 1 as [|m2 Hle IH]; intros Hs; [exact Hs|apply same_mono; apply IH; exact Hs]. Qed.

(* a monotone 0/1 sequence: its sum over [0,N) is at least N - t exactly when it is already 1 at t *)
Lemma cntlev_threshold N t i j : (t < N)%nat ->
  (Z.of_nat N - Z.of_nat t <= cntlev N i j <-> same (S t) i j = true).
Proof.
  intros Ht. unfold cntlev. split.
  - intros Hge. destruct (same (S t) i j) eqn:E; [reflexivity|]. exfalso.
    (* all levels <= t+1 are 0, so the sum is at most N - t - 1 *)
    assert (Hle : sumn (fun m => b2z (same (S m) i j)) N <= sumn (fun m => if Nat.leb m t then 0 else 1) N).
    { apply sumn_le. intros m Hm. destruct (Nat.leb_spec m t).
      - destruct (same (S m) i j) eqn:E2; [|cbn [b2z]; lia].
        rewrite (same_mono_le (S m) (S t) i j ltac:(lia) E2) in E. discriminate.
      - destruct (same (S m) i j); cbn [b2z]; lia. }
    assert (Hcount : forall K, sumn (fun m => if Nat.leb m t then 0 else 1) K = Z.of_nat (K - S t)).
    { induction K; [reflexivity|]. cbn [sumn]. rewrite IHK. destruct (Nat.leb_spec K t); lia. }
    rewrite Hcount in Hle. lia.
  - intros E.
    assert (Hge : sumn (fun m => if Nat.ltb m t then 0 else 1) N <= sumn (fun m => b2z (same (S m) i j)) N).
    { apply sumn_le. intros m Hm. destruct (Nat.ltb_spec m t).
      - destruct (same (S m) i j); cbn [b2z]; lia.
      - rewrite (same_mono_le (S t) (S m) i j ltac:(lia) E). cbn [b2z]. lia. }
    assert (Hcount : forall K, sumn (fun m => if Nat.ltb m t then 0 else 1) K = Z.of_nat (K - t)).
    { induction K; [reflexivity|]. cbn [sumn]. rewrite IHK. destruct (Nat.ltb_spec K t); lia. }
    rewrite Hcount in Hge. lia.
Qed.

(* the clusters are the diagonal blocks of size 2^s *)
Theorem template_levels mx s i j : (1 <= s <= mx)%nat -> (i < 2 ^ mx)%nat -> (j < 2 ^ mx)%nat -> i <> j ->
  template mx i j = 1 + cntlev (mx - 1) i j /\
  (Z.of_nat mx - (Z.of_nat s - 1) <= template mx i j <-> (i / 2 ^ s = j / 2 ^ s)%nat).
Proof.
  intros Hs Hi Hj Hij.
  assert (Ht : template mx i j = 1 + cntlev (mx - 1) i j).
  { unfold template, eye. destruct (Nat.eqb_spec i j); [contradiction|].
    destruct mx as [|mx']; [lia|]. replace (S mx' - 1)%nat with mx' by lia.
    rewrite tloop_levels by assumption. lia. }
  split; [exact Ht|]. rewrite Ht.
  destruct (Nat.eq_dec s mx) as [->|Hne].
  - (* the whole network is one block *)
    split; [intros _; rewrite !Nat.div_small by assumption; reflexivity|].
    intros _. assert (0 <= cntlev (mx - 1) i j); [|lia].
    unfold cntlev. apply sumn_nonneg. intros m _. destruct (same (S m) i j); cbn [b2z]; lia.
  - pose proof (cntlev_threshold (mx - 1) (s - 1) i j ltac:(lia)) as H.
    replace (S (s - 1)) with s in H by lia. unfold same in H. rewrite Nat.eqb_eq in H.
    rewrite <- H. split; intros; lia.
Qed.

(* makeevenCIJ's cluster mask and makefractalCIJ's zero-exponent cells are the blocks of size 2^sz_cl *)
Corollary even_clusters_blocks mx s i j : (1 <= s <= mx)%nat -> (i < 2 ^ mx)%nat -> (j < 2 ^ mx)%nat -> i <> j ->
  (even_clusters mx (Z.of_nat s) i j = 1 <-> (i / 2 ^ s = j / 2 ^ s)%nat).
Proof.
  intros Hs Hi Hj Hij. destruct (template_levels mx s i j Hs Hi Hj Hij) as [_ H]. rewrite <- H.
  unfold even_clusters. destruct (Z.leb_spec (Z.of_nat mx - (Z.of_nat s - 1)) (template mx i j)); split; intros; lia.
Qed.

Corollary fractal_ee_blocks mx s i j : (1 <= s <= mx)%nat -> (i < 2 ^ mx)%nat -> (j < 2 ^ mx)%nat -> i <> j ->
  (fractal_ee mx (Z.of_nat s) i j = 0 <-> (i / 2 ^ s = j / 2 ^ s)%nat).
Proof.
  intros Hs Hi Hj Hij. destruct (template_levels mx s i j Hs Hi Hj Hij) as [_ H]. rewrite <- H.
  unfold fractal_ee. destruct (Z.ltb_spec 0 (Z.of_nat mx - template mx i j - (Z.of_nat s - 1))); split; intros; lia.
Qed.
