(* Proofs/GeneratorsDeg.v — makerandCIJdegreesfixed: invariant of the stub-matching loop with its repair step.
   After i edges have been placed   CIJ = I + #{t < i : (e0 t, e1 t) = cell}   and every entry is <= 1;
   the targets e1 are only ever permuted.  Hence, when the routine returns, CIJ - I is 0/1 with an empty diagonal,
   its row sums count the out-stubs and its column sums count the in-stubs. *)
From Coq Require Import ZArith List Arith Bool Lia Permutation.
From BCT Require Import Base.Mat Base.ListX Model.Generators Proofs.GeneratorsBase Proofs.Generators.
Import ListNotations.
Open Scope Z_scope.

(* indicator of the cell (x,y), oriented like [upd] *)
Definition dl (x y r c : nat) : Z := if (Nat.eqb r x && Nat.eqb c y)%bool then 1 else 0.

Lemma dl_bounds x y r c : 0 <= dl x y r c <= 1.
Proof. unfold dl. destruct (_ && _)%bool; lia. Qed.

Lemma sumn_change_one f g i s : (s < i)%nat -> (forall t, (t < i)%nat -> t <> s -> g t = f t) ->
  sumn g i = sumn f i - f s + g s.
Proof.
  intros Hs H. rewrite (sumn_split f i s Hs), (sumn_split g i s Hs).
  rewrite (sumn_ext (fun t => if Nat.eqb t s then 0 else g t) (fun t => if Nat.eqb t s then 0 else f t) i); [lia|].
  intros t Ht. destruct (Nat.eqb_spec t s); [reflexivity|]. apply H; assumption.
Qed.

Lemma sumn_swap2_b f g n p q : (p < n)%nat -> (q < n)%nat -> p <> q ->
  g p = f q -> g q = f p -> (forall i, (i < n)%nat -> i <> p -> i <> q -> g i = f i) ->
  sumn g n = sumn f n.
Proof.
  intros Hp Hq Hpq H1 H2 H3.
  rewrite (sumn_split2 f n p q Hp Hq Hpq), (sumn_split2 g n p q Hp Hq Hpq).
  rewrite H1, H2.
  rewrite (sumn_ext (fun i => if Nat.eqb i q then 0 else if Nat.eqb i p then 0 else f i)
                    (fun i => if Nat.eqb i q then 0 else if Nat.eqb i p then 0 else g i) n); [lia|].
  intros i Hi. destruct (Nat.eqb_spec i q); [reflexivity|]. destruct (Nat.eqb_spec i p); [reflexivity|].
  symmetry; apply H3; assumption.
Qed.

(* the three sequential writes of the repair step with switch < i, as one pointwise identity *)
Lemma repair_writes (CIJ : mat Z) a0 a1 b0 b1 r c :
  CIJ a0 b1 = 0 -> CIJ b0 a1 = 0 -> CIJ b0 b1 = 1 ->
  upd (upd (upd CIJ a0 b1 1) b0 b1 0) b0 a1 1 r c = CIJ r c - dl b0 b1 r c + dl b0 a1 r c + dl a0 b1 r c.
Proof.
  intros H1 H2 H3. unfold upd, dl.
  destruct (Nat.eqb_spec r b0); destruct (Nat.eqb_spec c a1); destruct (Nat.eqb_spec c b1);
  destruct (Nat.eqb_spec r a0); subst; cbn [andb]; try lia; try congruence.
Qed.

Lemma place_write (CIJ : mat Z) a0 b1 r c :
  CIJ a0 b1 = 0 -> upd CIJ a0 b1 1 r c = CIJ r c + dl a0 b1 r c.
Proof.
  intros H1. unfold upd, dl. destruct (Nat.eqb_spec r a0); destruct (Nat.eqb_spec c b1); subst; cbn [andb]; lia.
Qed.

Section Deg.
Variables (n k : nat) (e0 e1i : vec nat).
Hypothesis He0 : forall t, (t < k)%nat -> (e0 t < n)%nat.

Definition cnt (e1 : vec nat) (i r c : nat) : Z := sumn (fun t => dl (e0 t) (e1 t) r c) i.
Definition colcnt (e1 : vec nat) (c : nat) : Z := sumn (fun t => if Nat.eqb (e1 t) c then 1 else 0) k.
Definition rowcnt (r : nat) : Z := sumn (fun t => if Nat.eqb (e0 t) r then 1 else 0) k.

Definition Inv (i : nat) (CIJ : mat Z) (e1 : vec nat) : Prop :=
  (forall t, (t < k)%nat -> (e1 t < n)%nat) /\
  (forall r c, (r < n)%nat -> (c < n)%nat -> CIJ r c = eye r c + cnt e1 i r c /\ CIJ r c <= 1) /\
  (forall c, colcnt e1 c = colcnt e1i c).

Lemma cnt_nonneg e1 i r c : 0 <= cnt e1 i r c.
Proof. unfold cnt. apply sumn_nonneg. intros. apply dl_bounds. Qed.

Lemma cnt_S e1 i r c : cnt e1 (S i) r c = cnt e1 i r c + dl (e0 i) (e1 i) r c.
Proof. reflexivity. Qed.

Lemma cnt_ge e1 i s r c : (s < i)%nat -> dl (e0 s) (e1 s) r c <= cnt e1 i r c.
Proof.
  intros Hs. unfold cnt. rewrite (sumn_split _ i s Hs).
  assert (0 <= sumn (fun t => if Nat.eqb t s then 0 else dl (e0 t) (e1 t) r c) i); [|lia].
  apply sumn_nonneg. intros t _. destruct (Nat.eqb t s); [lia|apply dl_bounds].
Qed.

Lemma swap_e1_spec e1 i s t : (t < k)%nat ->
  swap_e1 k e1 i s t = if Nat.eqb t s then e1 i else if Nat.eqb t i then e1 s else e1 t.
Proof. intros Ht. unfold swap_e1. rewrite tabv_spec by exact Ht. unfold vupd. reflexivity. Qed.

Lemma swap_colcnt e1 i s c : (i < k)%nat -> (s < k)%nat -> colcnt (swap_e1 k e1 i s) c = colcnt e1 c.
Proof.
  intros Hi Hs. unfold colcnt. destruct (Nat.eq_dec i s) as [->|Hne].
  - apply sumn_ext. intros t Ht. rewrite swap_e1_spec by exact Ht.
    destruct (Nat.eqb_spec t s); subst; reflexivity.
  - apply (sumn_swap2_b _ _ k i s Hi Hs Hne).
    + rewrite swap_e1_spec by exact Hi. destruct (Nat.eqb_spec i s); [contradiction|]. rewrite Nat.eqb_refl. reflexivity.
    + rewrite swap_e1_spec by exact Hs. rewrite Nat.eqb_refl. reflexivity.
    + intros t Ht H1 H2. rewrite swap_e1_spec by exact Ht. destruct (Nat.eqb_spec t s); [contradiction|].
      destruct (Nat.eqb_spec t i); [contradiction|]. reflexivity.
Qed.

Lemma truthy_false z : truthy z = false <-> z = 0.
Proof. unfold truthy. destruct (Z.eqb_spec z 0); cbn [negb]; split; congruence. Qed.
Lemma truthy_true z : truthy z = true <-> z <> 0.
Proof. unfold truthy. destruct (Z.eqb_spec z 0); cbn [negb]; split; congruence. Qed.

Lemma swap_range e1 i s : (i < k)%nat -> (s < k)%nat ->
  (forall t, (t < k)%nat -> (e1 t < n)%nat) -> forall t, (t < k)%nat -> (swap_e1 k e1 i s t < n)%nat.
Proof.
  intros Hi Hs Hr t Ht. rewrite swap_e1_spec by exact Ht.
  destruct (Nat.eqb t s); [apply Hr; exact Hi|]. destruct (Nat.eqb t i); apply Hr; assumption.
Qed.

(* else-branch: CIJ[e0[i], e1[i]] = 1 *)
Lemma step_plain i CIJ e1 : (i < k)%nat -> Inv i CIJ e1 -> truthy (CIJ (e0 i) (e1 i)) = false ->
  Inv (S i) (tab 0 n n (upd CIJ (e0 i) (e1 i) 1)) e1.
Proof.
  intros Hi (Hr & Hc & Hm) Hz. apply truthy_false in Hz.
  split; [exact Hr|]. split; [|exact Hm].
  intros r c Hr' Hc'. rewrite tab_spec by assumption. rewrite place_write by exact Hz. rewrite cnt_S.
  destruct (Hc r c Hr' Hc') as [E L]. split; [lia|].
  unfold dl. destruct (Nat.eqb_spec r (e0 i)); destruct (Nat.eqb_spec c (e1 i)); cbn [andb]; subst; lia.
Qed.

(* repair with switch > i: only edge i is placed, on the swapped target *)
Lemma step_swap_gt i s CIJ e1 : (i < k)%nat -> (s < k)%nat -> (i < s)%nat -> Inv i CIJ e1 ->
  CIJ (e0 i) (e1 s) = 0 ->
  Inv (S i) (tab 0 n n (upd CIJ (e0 i) (e1 s) 1)) (swap_e1 k e1 i s).
Proof.
  intros Hi Hs His (Hr & Hc & Hm) Hz.
  split; [apply swap_range; assumption|]. split; [|intros c; rewrite swap_colcnt by assumption; apply Hm].
  intros r c Hr' Hc'. rewrite tab_spec by assumption. rewrite place_write by exact Hz. rewrite cnt_S.
  assert (E1 : cnt (swap_e1 k e1 i s) i r c = cnt e1 i r c).
  { unfold cnt. apply sumn_ext. intros t Ht. rewrite swap_e1_spec by lia.
    destruct (Nat.eqb_spec t s); [lia|]. destruct (Nat.eqb_spec t i); [lia|]. reflexivity. }
  assert (E2 : swap_e1 k e1 i s i = e1 s).
  { rewrite swap_e1_spec by exact Hi. destruct (Nat.eqb_spec i s); [lia|]. rewrite Nat.eqb_refl. reflexivity. }
  rewrite E1, E2. destruct (Hc r c Hr' Hc') as [E L]. split; [lia|].
  unfold dl. destruct (Nat.eqb_spec r (e0 i)); destruct (Nat.eqb_spec c (e1 s)); cbn [andb]; subst; lia.
Qed.

Lemma upd3_le1 (CIJ : mat Z) a0 a1 b0 b1 r c : CIJ r c <= 1 ->
  upd (upd (upd CIJ a0 b1 1) b0 b1 0) b0 a1 1 r c <= 1.
Proof. intros H. unfold upd. repeat (destruct (_ && _)%bool; [lia|]). exact H. Qed.

(* repair with switch < i: edge switch is moved to e1[i], edge i takes e1[switch] *)
Lemma step_swap_lt i s CIJ e1 : (i < k)%nat -> (s < i)%nat -> Inv i CIJ e1 ->
  CIJ (e0 i) (e1 s) = 0 -> CIJ (e0 s) (e1 i) = 0 ->
  Inv (S i) (tab 0 n n (upd (upd (upd CIJ (e0 i) (e1 s) 1) (e0 s) (e1 s) 0) (e0 s) (e1 i) 1)) (swap_e1 k e1 i s).
Proof.
  intros Hi Hsi (Hr & Hc & Hm) Hz1 Hz2.
  assert (Hs : (s < k)%nat) by lia.
  split; [apply swap_range; assumption|]. split; [|intros c; rewrite swap_colcnt by assumption; apply Hm].
  assert (Hb : CIJ (e0 s) (e1 s) = 1).
  { destruct (Hc (e0 s) (e1 s) (He0 s Hs) (Hr s Hs)) as [E L].
    pose proof (cnt_ge e1 i s (e0 s) (e1 s) Hsi) as G. unfold dl in G. rewrite !Nat.eqb_refl in G. cbn [andb] in G.
    assert (0 <= eye (e0 s) (e1 s)) by (unfold eye; destruct (Nat.eqb _ _); lia). lia. }
  intros r c Hr' Hc'. rewrite tab_spec by assumption. split; [|apply upd3_le1; apply Hc; assumption].
  rewrite repair_writes by assumption. rewrite cnt_S.
  assert (E2 : swap_e1 k e1 i s i = e1 s).
  { rewrite swap_e1_spec by exact Hi. destruct (Nat.eqb_spec i s); [lia|]. rewrite Nat.eqb_refl. reflexivity. }
  assert (E1 : cnt (swap_e1 k e1 i s) i r c = cnt e1 i r c - dl (e0 s) (e1 s) r c + dl (e0 s) (e1 i) r c).
  { unfold cnt.
    rewrite (sumn_change_one (fun t => dl (e0 t) (e1 t) r c) (fun t => dl (e0 t) (swap_e1 k e1 i s t) r c) i s Hsi).
    - rewrite (swap_e1_spec e1 i s s Hs). rewrite Nat.eqb_refl. reflexivity.
    - intros t Ht Hts. rewrite swap_e1_spec by lia. destruct (Nat.eqb_spec t s); [contradiction|].
      destruct (Nat.eqb_spec t i); [lia|]. reflexivity. }
  rewrite E1, E2. destruct (Hc r c Hr' Hc') as [E _]. lia.
Qed.

(* the repair loop: whenever it finishes, the invariant holds for i+1 *)
Lemma repair_inv i CIJ e1 : (i < k)%nat -> Inv i CIJ e1 -> truthy (CIJ (e0 i) (e1 i)) = true ->
  forall stream tried C' e1' rest,
  repair n k i e0 CIJ e1 tried stream = Done (C', e1', rest) -> Inv (S i) C' e1'.
Proof.
  intros Hi HI Hocc. induction stream as [|x rest0 IH]; intros tried C' e1' rest Hrun; cbn [repair] in Hrun.
  - destruct (Nat.eqb (length tried) k); discriminate.
  - destruct (Nat.eqb (length tried) k); [discriminate|].
    assert (Hs : (x mod k < k)%nat) by (apply Nat.mod_upper_bound; lia).
    set (s := (x mod k)%nat) in *.
    destruct (nmem s tried); [apply (IH _ _ _ _ Hrun)|].
    destruct (truthy (CIJ (e0 i) (e1 s))) eqn:T1; cbn [orb negb] in Hrun; [apply (IH _ _ _ _ Hrun)|].
    destruct (truthy (CIJ (e0 s) (e1 i))) eqn:T2; cbn [orb negb] in Hrun; [apply (IH _ _ _ _ Hrun)|].
    apply truthy_false in T1. apply truthy_false in T2.
    inversion Hrun; subst C' e1' rest; clear Hrun.
    destruct (Nat.ltb_spec s i) as [Hlt|Hge].
    + apply step_swap_lt; assumption.
    + assert (s <> i). { intros ->. apply truthy_true in Hocc. contradiction. }
      apply step_swap_gt; try assumption. lia.
Qed.

Lemma place_inv : forall todo i CIJ e1 stream C e1' rest,
  (i + todo = k)%nat -> Inv i CIJ e1 ->
  place todo n k i e0 CIJ e1 stream = Done (C, e1', rest) -> Inv k C e1'.
Proof.
  induction todo as [|t IH]; intros i CIJ e1 stream C e1' rest Hik HI Hrun; cbn [place] in Hrun.
  - inversion Hrun; subst. replace k with i by lia. exact HI.
  - destruct (truthy (CIJ (e0 i) (e1 i))) eqn:T.
    + destruct (repair n k i e0 CIJ e1 [] stream) as [[[C1 e11] rest1]| |] eqn:R; try discriminate.
      apply (IH (S i) C1 e11 rest1 C e1' rest); [lia| |exact Hrun].
      apply (repair_inv i CIJ e1 ltac:(lia) HI T _ _ _ _ _ R).
    + apply (IH (S i) (tab 0 n n (upd CIJ (e0 i) (e1 i) 1)) e1 stream C e1' rest); [lia| |exact Hrun].
      apply step_plain; [lia|exact HI|exact T].
Qed.

Lemma Inv_init : (forall t, (t < k)%nat -> (e1i t < n)%nat) -> Inv 0 eye e1i.
Proof.
  intros Hr. split; [exact Hr|]. split; [|reflexivity].
  intros r c _ _. unfold cnt. cbn [sumn]. split; [lia|]. unfold eye. destruct (Nat.eqb r c); lia.
Qed.

(* sums of the final count matrix *)
Lemma cnt_row e1 r : (forall t, (t < k)%nat -> (e1 t < n)%nat) ->
  sumn (fun c => cnt e1 k r c) n = rowcnt r.
Proof.
  intros Hr. unfold cnt, rowcnt. rewrite sumn_fubini. apply sumn_ext. intros t Ht.
  unfold dl. destruct (Nat.eqb_spec (e0 t) r) as [E|E].
  - rewrite (sumn_ext _ (fun c => if Nat.eqb c (e1 t) then 1 else 0)).
    + apply sumn_single. apply Hr; exact Ht.
    + intros c _. rewrite <- E. rewrite Nat.eqb_refl. reflexivity.
  - rewrite (sumn_ext _ (fun _ => 0)); [apply sumn_zero|].
    intros c _. destruct (Nat.eqb_spec r (e0 t)); [congruence|reflexivity].
Qed.

Lemma cnt_col e1 c : sumn (fun r => cnt e1 k r c) n = colcnt e1 c.
Proof.
  unfold cnt, colcnt. rewrite sumn_fubini. apply sumn_ext. intros t Ht.
  unfold dl. destruct (Nat.eqb_spec (e1 t) c) as [E|E].
  - rewrite (sumn_ext _ (fun r => if Nat.eqb r (e0 t) then 1 else 0)).
    + apply sumn_single. apply He0; exact Ht.
    + intros r _. rewrite <- E. rewrite Nat.eqb_refl. rewrite andb_true_r. reflexivity.
  - rewrite (sumn_ext _ (fun _ => 0)); [apply sumn_zero|].
    intros r _. destruct (Nat.eqb_spec c (e1 t)); [congruence|]. rewrite andb_false_r. reflexivity.
Qed.

(* what the invariant gives when the loop is over *)
Theorem degfixed_invariant stream C e1' rest :
  (forall t, (t < k)%nat -> (e1i t < n)%nat) ->
  place k n k 0 e0 eye e1i stream = Done (C, e1', rest) ->
  let R := fun i j => C i j - eye i j in
  (forall i j, (i < n)%nat -> (j < n)%nat -> R i j = 0 \/ R i j = 1) /\
  (forall i, (i < n)%nat -> R i i = 0) /\
  (forall r, (r < n)%nat -> sumn (fun c => R r c) n = rowcnt r) /\
  (forall c, (c < n)%nat -> sumn (fun r => R r c) n = colcnt e1i c).
Proof.
  intros Hr Hrun R.
  pose proof (place_inv k 0 eye e1i stream C e1' rest ltac:(lia) (Inv_init Hr) Hrun) as (Hr' & Hc & Hm).
  assert (HR : forall i j, (i < n)%nat -> (j < n)%nat -> R i j = cnt e1' k i j /\ R i j <= 1 - eye i j).
  { intros i j Hi Hj. unfold R. destruct (Hc i j Hi Hj). lia. }
  split; [|split; [|split]].
  - intros i j Hi Hj. destruct (HR i j Hi Hj) as [E L]. pose proof (cnt_nonneg e1' k i j).
    assert (0 <= eye i j) by (unfold eye; destruct (Nat.eqb _ _); lia). lia.
  - intros i Hi. destruct (HR i i Hi Hi) as [E L]. pose proof (cnt_nonneg e1' k i i).
    unfold eye in L. rewrite Nat.eqb_refl in L. lia.
  - intros r Hrr. rewrite <- (cnt_row e1' r Hr'). apply sumn_ext. intros c Hcc. apply HR; assumption.
  - intros c Hcc. rewrite <- Hm. rewrite <- (cnt_col e1' c). apply sumn_ext. intros r Hrr. apply HR; assumption.
Qed.
End Deg.

(* ---------------- from the stub arrays back to the degree sequences ---------------- *)
Definition stubl (d : nat -> nat) (is : list nat) : list nat := flat_map (fun i => repeat i (d i)) is.

Lemma stubl_length d is : length (stubl d is) = fold_right Nat.add O (map d is).
Proof.
  induction is as [|a is IH]; [reflexivity|]. unfold stubl in *. cbn [flat_map map fold_right].
  rewrite app_length, repeat_length, IH. reflexivity.
Qed.

Lemma stubl_In d is x : In x (stubl d is) -> In x is.
Proof.
  unfold stubl. intros H. apply in_flat_map in H. destruct H as [i [Hi Hx]].
  apply repeat_spec in Hx. subst. exact Hi.
Qed.

Lemma count_occ_repeat_eq a m : count_occ Nat.eq_dec (repeat a m) a = m.
Proof. induction m; cbn [repeat count_occ]; [reflexivity|]. destruct (Nat.eq_dec a a); [lia|contradiction]. Qed.
Lemma count_occ_repeat_neq a m r : a <> r -> count_occ Nat.eq_dec (repeat a m) r = O.
Proof. intros H. induction m; cbn [repeat count_occ]; [reflexivity|]. destruct (Nat.eq_dec a r); [contradiction|exact IHm]. Qed.

Lemma stubl_count d is r : NoDup is -> In r is -> count_occ Nat.eq_dec (stubl d is) r = d r.
Proof.
  unfold stubl. induction is as [|a is IH]; intros Hnd Hin; [contradiction|].
  cbn [flat_map]. rewrite count_occ_app. inversion Hnd; subst. destruct Hin as [->|Hin].
  - rewrite count_occ_repeat_eq.
    assert (E : count_occ Nat.eq_dec (flat_map (fun i => repeat i (d i)) is) r = O).
    { apply count_occ_not_In. intros H. apply (stubl_In d is r) in H. contradiction. }
    rewrite E. lia.
  - rewrite count_occ_repeat_neq by (intros ->; contradiction). rewrite IH by assumption. reflexivity.
Qed.

Lemma map_nth_seq (l : list nat) : map (fun i => nth i l O) (seq 0 (length l)) = l.
Proof.
  apply (nth_ext _ _ O O).
  - rewrite map_length, seq_length. reflexivity.
  - intros i Hi. rewrite map_length, seq_length in Hi.
    rewrite (nth_map_seq (fun i => nth i l O) O (length l) i Hi). reflexivity.
Qed.

Lemma sumn_shift f m : sumn f (S m) = f O + sumn (fun t => f (S t)) m.
Proof. induction m; [cbn [sumn]; lia|]. cbn [sumn] in *. rewrite IHm. lia. Qed.

Lemma index_count (l : list nat) r :
  sumn (fun t => if Nat.eqb (nth t l O) r then 1 else 0) (length l) = Z.of_nat (count_occ Nat.eq_dec l r).
Proof.
  induction l as [|a l IH]; [reflexivity|]. cbn [length]. rewrite sumn_shift. cbn [nth count_occ].
  rewrite IH. destruct (Nat.eq_dec a r); destruct (Nat.eqb_spec a r); try contradiction; lia.
Qed.

Lemma stubs_exact n deg k : length deg = n -> fold_right Nat.add O deg = k ->
  stubs n deg k = stubl (fun i => nth i deg O) (seq 0 n).
Proof.
  intros Hn Hk. unfold stubs. fold (stubl (fun i => nth i deg O) (seq 0 n)).
  assert (Hl : length (stubl (fun i => nth i deg O) (seq 0 n)) = k).
  { rewrite stubl_length. rewrite <- Hn. rewrite map_nth_seq. exact Hk. }
  rewrite Hl. rewrite Nat.sub_diag. cbn [repeat]. rewrite app_nil_r.
  rewrite <- Hl. apply firstn_all.
Qed.

Theorem degfixed_rowcol inv outv rp stream R :
  length outv = length inv ->
  fold_right Nat.add O outv = fold_right Nat.add O inv ->
  Permutation rp (seq 0 (fold_right Nat.add O inv)) ->
  degfixed inv outv rp stream = Done R ->
  let n := length inv in
  (forall i j, (i < n)%nat -> (j < n)%nat -> R i j = 0 \/ R i j = 1) /\
  (forall i, (i < n)%nat -> R i i = 0) /\
  (forall r, (r < n)%nat -> sumn (fun c => R r c) n = Z.of_nat (nth r outv O)) /\
  (forall c, (c < n)%nat -> sumn (fun r => R r c) n = Z.of_nat (nth c inv O)).
Proof.
  intros Hlen Hsum Hrp Hrun n. unfold degfixed in Hrun. fold n in Hrun.
  set (k := fold_right Nat.add O inv) in *.
  rewrite (stubs_exact n inv k eq_refl eq_refl) in Hrun.
  rewrite (stubs_exact n outv k Hlen Hsum) in Hrun.
  set (in_inv := stubl (fun i => nth i inv O) (seq 0 n)) in *.
  set (out_inv := stubl (fun i => nth i outv O) (seq 0 n)) in *.
  assert (Hlin : length in_inv = k).
  { unfold in_inv. rewrite stubl_length. unfold n. rewrite map_nth_seq. reflexivity. }
  assert (Hlout : length out_inv = k).
  { unfold out_inv. rewrite stubl_length. unfold n. rewrite <- Hlen. rewrite map_nth_seq. exact Hsum. }
  assert (Hlrp : length rp = k) by (rewrite (Permutation_length Hrp); apply seq_length).
  set (e0 := of_list O out_inv) in *.
  set (tg := map (fun t => nth t in_inv O) rp) in *.
  set (e1 := of_list O tg) in *.
  assert (He0 : forall t, (t < k)%nat -> (e0 t < n)%nat).
  { intros t Ht. unfold e0, of_list. assert (Hin : In (nth t out_inv O) out_inv) by (apply nth_In; lia).
    apply stubl_In in Hin. apply in_seq in Hin. lia. }
  assert (He1 : forall t, (t < k)%nat -> (e1 t < n)%nat).
  { intros t Ht. unfold e1, of_list, tg.
    rewrite (nth_indep _ O (nth O in_inv O)) by (rewrite map_length; lia).
    rewrite (map_nth (fun t => nth t in_inv O) rp O t).
    assert (Hin : In (nth t rp O) rp) by (apply nth_In; lia).
    apply (Permutation_in _ Hrp) in Hin. apply in_seq in Hin.
    assert (Hin2 : In (nth (nth t rp O) in_inv O) in_inv) by (apply nth_In; lia).
    apply stubl_In in Hin2. apply in_seq in Hin2. lia. }
  destruct (place k n k 0 e0 eye e1 stream) as [[[C e1'] rest]| |] eqn:Hp; try discriminate.
  inversion Hrun; subst R; clear Hrun.
  destruct (degfixed_invariant n k e0 e1 He0 stream C e1' rest He1 Hp) as (H1 & H2 & H3 & H4).
  split; [exact H1|]. split; [exact H2|]. split.
  - intros r Hr. rewrite (H3 r Hr). unfold rowcnt, e0, of_list. rewrite <- Hlout. rewrite index_count.
    unfold out_inv. rewrite stubl_count; [reflexivity|apply seq_NoDup|apply in_seq; lia].
  - intros c Hc. rewrite (H4 c Hc). unfold colcnt, e1, of_list.
    assert (Hltg : length tg = k) by (unfold tg; rewrite map_length; exact Hlrp).
    rewrite <- Hltg. rewrite index_count.
    assert (Hperm : Permutation tg in_inv).
    { unfold tg. apply (Permutation_trans (l' := map (fun t => nth t in_inv O) (seq 0 k))).
      - apply Permutation_map. exact Hrp.
      - rewrite <- Hlin. rewrite map_nth_seq. apply Permutation_refl. }
    rewrite (proj1 (Permutation_count_occ Nat.eq_dec tg in_inv) Hperm c).
    unfold in_inv. rewrite stubl_count; [reflexivity|apply seq_NoDup|apply in_seq; lia].
Qed.
