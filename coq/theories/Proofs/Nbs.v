(* Proofs/Nbs.v — lemmas about the model of nbs_bct (Model/Nbs.v).
   Part A: the observed network (support of adj, labels, link counts), on top of the C16 theorems.
   Part B: p-values and null values.
   Part C: symmetries of the t decision (swap groups + tail, reordering subjects) and soundness
           of the square-root-free comparison. *)
From Coq Require Import QArith Qabs List Arith Bool ZArith Lia Lqa Permutation Morphisms.
From BCT Require Import Base.Mat Base.ListX Model.Components Proofs.Components Model.Nbs.
Import ListNotations.
Local Open Scope nat_scope.

(* ====================================================================== Part A *)
Definition upper (sel : list cell) : Prop := forall c, In c sel -> fst c < snd c.

Lemma triu_cells_In n i j : In (i, j) (triu_cells n) <-> i < j /\ j < n.
Proof.
  unfold triu_cells. rewrite filter_In, cells_In. cbn [fst snd]. rewrite Nat.ltb_lt. lia.
Qed.

Lemma selected_incl n mask c : In c (selected n mask) -> In c (triu_cells n).
Proof.
  unfold selected. intros H. apply in_map_iff in H. destruct H as [[c' b] [<- H]].
  apply filter_In in H. destruct H as [H _]. apply in_combine_l in H. exact H.
Qed.

Lemma selected_upper n mask : upper (selected n mask).
Proof. intros [i j] H. apply selected_incl in H. apply triu_cells_In in H. cbn [fst snd]. lia. Qed.

Lemma adj_of_sym sel i j : adj_of sel i j = adj_of sel j i.
Proof. unfold adj_of. apply Z.add_comm. Qed.

Lemma adj_of_nz sel i j : adj_of sel i j <> 0%Z <-> In (i, j) sel \/ In (j, i) sel.
Proof.
  unfold adj_of. rewrite <- !cmem_In.
  destruct (cmem (i, j) sel), (cmem (j, i) sel); cbn [b2z]; split; intros H;
    try (left; reflexivity); try (right; reflexivity); try lia;
    try (exfalso; apply H; reflexivity); try (destruct H; discriminate).
Qed.

Lemma adj_of_one sel u v : upper sel -> adj_of sel u v <> 0%Z -> adj_of sel u v = 1%Z /\ u <> v.
Proof.
  intros Hup H. apply adj_of_nz in H. unfold adj_of.
  destruct H as [H|H]; pose proof (Hup _ H) as Hlt; cbn [fst snd] in Hlt.
  - assert (Hn : cmem (v, u) sel = false).
    { apply cmem_false. intros H'. apply Hup in H'. cbn [fst snd] in H'. lia. }
    apply cmem_In in H. rewrite H, Hn. cbn [b2z]. split; [reflexivity|lia].
  - assert (Hn : cmem (u, v) sel = false).
    { apply cmem_false. intros H'. apply Hup in H'. cbn [fst snd] in H'. lia. }
    apply cmem_In in H. rewrite H, Hn. cbn [b2z]. split; [reflexivity|lia].
Qed.

Lemma gc_adj_some n sel : exists a sz, get_components n (adj_of sel) = Some (a, sz).
Proof.
  destruct (get_components n (adj_of sel)) as [[a sz]|] eqn:E; [eauto|].
  apply asym_rejected in E. destruct E as (i & j & _ & _ & H). exfalso. apply H. apply adj_of_sym.
Qed.

Lemma nodes_of_In l a u : In u (nodes_of l a) <-> u < length a /\ nth u a 0 = l.
Proof. unfold nodes_of. rewrite filter_In, in_seq, Nat.eqb_eq. lia. Qed.

Lemma big_labels_In sz l : In l (big_labels sz) <-> 1 <= l <= length sz /\ 1 < nth (l - 1) sz 0.
Proof.
  unfold big_labels. rewrite in_map_iff. split.
  - intros [i [<- Hi]]. apply filter_In in Hi. destruct Hi as [Hs Hb]. apply in_seq in Hs.
    apply Nat.ltb_lt in Hb. replace (S i - 1) with i by lia. lia.
  - intros [Hl Hb]. exists (l - 1). split; [lia|]. apply filter_In.
    split; [apply in_seq; lia|apply Nat.ltb_lt; exact Hb].
Qed.

Lemma big_labels_NoDup sz : NoDup (big_labels sz).
Proof.
  unfold big_labels. apply FinFun.Injective_map_NoDup; [intros x y H; lia|].
  apply NoDup_filter. apply seq_NoDup.
Qed.

(* what the relabelling loop has multiplied into the cell (u,v) *)
Fixpoint factor (a : list nat) (i : nat) (ind : list nat) (u v : nat) : Z :=
  match ind with
  | [] => 1%Z
  | l :: r =>
      ((if (nmem u (nodes_of l a) && nmem v (nodes_of l a))%bool then Z.of_nat (i + 2) else 1)
       * factor a (S i) r u v)%Z
  end.

Lemma label_loop_adj a ind : forall i adj szl adj',
  label_loop a i ind adj = (szl, adj') -> forall u v, adj' u v = (adj u v * factor a i ind u v)%Z.
Proof.
  induction ind as [|l r IH]; intros i adj szl adj' H u v; cbn [label_loop factor] in *.
  - inversion H; subst. ring.
  - destruct (label_loop a (S i) r (scale_block adj (nodes_of l a) (Z.of_nat (i + 2)))) as [szl' adj''] eqn:E.
    inversion H; subst. rewrite (IH _ _ _ _ E u v). unfold scale_block.
    destruct (nmem u (nodes_of l a) && nmem v (nodes_of l a))%bool; ring.
Qed.

Definition bsum (adj : mat Z) (rows cols : list nat) : Z :=
  fold_right (fun u acc => (row_sum adj u cols + acc)%Z) 0%Z rows.

Lemma row_sum_ext f g u cols : (forall v, In v cols -> f u v = g u v) -> row_sum f u cols = row_sum g u cols.
Proof.
  induction cols as [|c cols IH]; intros H; cbn [row_sum fold_right]; [reflexivity|].
  unfold row_sum in IH. rewrite IH by (intros v Hv; apply H; right; exact Hv).
  rewrite (H c) by (left; reflexivity). reflexivity.
Qed.

Lemma bsum_ext f g rows cols :
  (forall u v, In u rows -> In v cols -> f u v = g u v) -> bsum f rows cols = bsum g rows cols.
Proof.
  induction rows as [|r rows IH]; intros H; cbn [bsum fold_right]; [reflexivity|].
  unfold bsum in IH. rewrite IH by (intros u v Hu Hv; apply H; [right; exact Hu|exact Hv]).
  rewrite (row_sum_ext f g r cols) by (intros v Hv; apply H; [left; reflexivity|exact Hv]). reflexivity.
Qed.

Lemma block_sum_ext f g nodes :
  (forall u v, In u nodes -> In v nodes -> f u v = g u v) -> block_sum f nodes = block_sum g nodes.
Proof. exact (bsum_ext f g nodes nodes). Qed.

Lemma label_loop_szl a ind : forall i adj szl adj',
  NoDup ind -> label_loop a i ind adj = (szl, adj') ->
  szl = map (fun l => half_sum adj (nodes_of l a)) ind.
Proof.
  induction ind as [|l r IH]; intros i adj szl adj' Hnd H; cbn [label_loop] in H.
  - inversion H; reflexivity.
  - destruct (label_loop a (S i) r (scale_block adj (nodes_of l a) (Z.of_nat (i + 2)))) as [szl' adj''] eqn:E.
    inversion H; subst. cbn [map]. f_equal. inversion Hnd as [|? ? Hl Hr]; subst.
    rewrite (IH _ _ _ _ Hr E). apply map_ext_in. intros l' Hl'. unfold half_sum. f_equal. f_equal.
    apply block_sum_ext. intros u v Hu Hv. unfold scale_block.
    destruct (nmem u (nodes_of l a)) eqn:Eu; [|reflexivity]. exfalso.
    apply nmem_In in Eu. apply nodes_of_In in Eu. apply nodes_of_In in Hu.
    assert (l = l') by lia. subst. contradiction.
Qed.

Lemma factor_none a ind : forall i u v,
  (forall l, In l ind -> ~ (In u (nodes_of l a) /\ In v (nodes_of l a))) -> factor a i ind u v = 1%Z.
Proof.
  induction ind as [|l r IH]; intros i u v H; cbn [factor]; [reflexivity|].
  rewrite IH by (intros l' Hl'; apply H; right; exact Hl').
  destruct (nmem u (nodes_of l a)) eqn:Eu; destruct (nmem v (nodes_of l a)) eqn:Ev; cbn [andb]; try reflexivity.
  exfalso. apply (H l); [left; reflexivity|]. split; apply nmem_In; assumption.
Qed.

Lemma factor_at a ind : forall i u v j, NoDup ind -> j < length ind ->
  In u (nodes_of (nth j ind 0) a) -> In v (nodes_of (nth j ind 0) a) ->
  factor a i ind u v = Z.of_nat (i + j + 2).
Proof.
  induction ind as [|l r IH]; intros i u v j Hnd Hj Hu Hv; cbn [length] in Hj; [lia|].
  inversion Hnd as [|? ? Hl Hr]; subst. cbn [factor]. destruct j as [|j]; cbn [nth] in Hu, Hv.
  - apply nmem_In in Hu as Eu. apply nmem_In in Hv as Ev. rewrite Eu, Ev. cbn [andb].
    rewrite factor_none.
    + rewrite Z.mul_1_r. f_equal. lia.
    + intros l' Hl' [Hu' _]. apply nodes_of_In in Hu. apply nodes_of_In in Hu'.
      assert (l = l') by lia. subst. contradiction.
  - assert (Hne : nmem u (nodes_of l a) = false).
    { apply nmem_false. intros Hu'. apply nodes_of_In in Hu. apply nodes_of_In in Hu'.
      apply Hl. replace l with (nth j r 0) by lia. apply nth_In. lia. }
    rewrite Hne. cbn [andb]. rewrite (IH (S i) u v j Hr ltac:(lia) Hu Hv). rewrite Z.mul_1_l. f_equal. lia.
Qed.

Lemma count_label_one l (a : list nat) u : u < length a -> nth u a 0 = l -> 1 <= count_label l a.
Proof.
  intros Hu Hl. unfold count_label.
  assert (Hin : In l (filter (Nat.eqb l) a)).
  { apply filter_In. split; [rewrite <- Hl; apply nth_In; exact Hu|apply Nat.eqb_refl]. }
  destruct (filter (Nat.eqb l) a); [contradiction|cbn [length]; lia].
Qed.

Lemma count_label_two l (a : list nat) u v :
  u < v -> v < length a -> nth u a 0 = l -> nth v a 0 = l -> 2 <= count_label l a.
Proof.
  intros Huv Hv Hlu Hlv. unfold count_label.
  rewrite <- (firstn_skipn v a). rewrite filter_app, app_length.
  assert (H1 : 1 <= length (filter (Nat.eqb l) (firstn v a))).
  { apply (count_label_one l (firstn v a) u).
    - rewrite firstn_length. lia.
    - rewrite <- Hlu. rewrite <- (firstn_skipn v a) at 2. rewrite app_nth1; [reflexivity|rewrite firstn_length; lia]. }
  assert (H2 : 1 <= length (filter (Nat.eqb l) (skipn v a))).
  { apply (count_label_one l (skipn v a) 0).
    - rewrite skipn_length. lia.
    - rewrite <- Hlv. rewrite <- (firstn_skipn v a) at 2. rewrite app_nth2; rewrite firstn_length; [|lia].
      replace (v - Nat.min v (length a)) with 0 by lia. reflexivity. }
  fold (count_label l (firstn v a)) in H1. unfold count_label in H1. lia.
Qed.

(* the observed network *)
Theorem observed_spec n mask szl adjo :
  observed n mask = Some (szl, adjo) ->
  exists a sz, get_components n (adj_of (selected n mask)) = Some (a, sz) /\
    szl = map (fun l => half_sum (adj_of (selected n mask)) (nodes_of l a)) (big_labels sz) /\
    (forall u v, u < n -> v < n ->
       (adj_of (selected n mask) u v = 0%Z -> adjo u v = 0%Z) /\
       (adj_of (selected n mask) u v <> 0%Z ->
          exists j, j < length (big_labels sz) /\ nth j (big_labels sz) 0 = nth u a 0 /\
                    nth u a 0 = nth v a 0 /\ adjo u v = Z.of_nat (j + 1))).
Proof.
  unfold observed. set (sel := selected n mask). intros H.
  destruct sel as [|c0 sel0] eqn:Esel; [discriminate|]. rewrite <- Esel in *.
  destruct (get_components n (adj_of sel)) as [[a sz]|] eqn:Egc; [|discriminate].
  destruct (label_loop a 0 (big_labels sz) (adj_of sel)) as [szl' adj'] eqn:Ell.
  destruct szl' as [|s0 szr] eqn:Eszl; [discriminate|]. rewrite <- Eszl in *. inversion H; subst szl adjo. clear H.
  exists a, sz. split; [reflexivity|]. split.
  - exact (label_loop_szl a _ 0 _ _ _ (big_labels_NoDup sz) Ell).
  - intros u v Hu Hv. pose proof (label_loop_adj a _ 0 _ _ _ Ell u v) as Hadj.
    destruct (components_iff_path n _ a sz Egc) as [Hlen Hiff].
    split.
    + intros H0. unfold dec_nonzero. rewrite Hadj, H0. reflexivity.
    + intros Hnz. destruct (adj_of_one sel u v (selected_upper n mask) Hnz) as [H1 Hne].
      assert (Hsame : nth u a 0 = nth v a 0).
      { apply Hiff; [exact Hu|exact Hv|]. apply (path_step n _ u v v Hu Hv Hnz). apply path_refl. }
      assert (Hl : 1 <= nth u a 0 <= length sz).
      { apply (labels_1_to_m n _ a sz Egc). exists u. split; [exact Hu|reflexivity]. }
      assert (Hbig : In (nth u a 0) (big_labels sz)).
      { apply big_labels_In. split; [exact Hl|].
        rewrite (sizes_are_counts n _ a sz Egc _ Hl).
        destruct (Nat.lt_ge_cases u v) as [Hlt|Hge].
        - apply (count_label_two _ a u v); [exact Hlt|rewrite Hlen; exact Hv|reflexivity|symmetry; exact Hsame].
        - apply (count_label_two _ a v u); [lia|rewrite Hlen; exact Hu|symmetry; exact Hsame|reflexivity]. }
      destruct (In_nth _ _ 0 Hbig) as [j [Hj Hnth]].
      exists j. split; [exact Hj|]. split; [exact Hnth|]. split; [exact Hsame|].
      unfold dec_nonzero. rewrite Hadj, H1.
      rewrite (factor_at a (big_labels sz) 0 u v j (big_labels_NoDup sz) Hj).
      * replace (0 + j + 2) with (S (S j)) by lia. replace (j + 1) with (S j) by lia.
        rewrite !Nat2Z.inj_succ.
        destruct (Z.eqb_spec (1 * Z.succ (Z.succ (Z.of_nat j))) 0); lia.
      * apply nodes_of_In. rewrite Hlen. split; [exact Hu|symmetry; exact Hnth].
      * apply nodes_of_In. rewrite Hlen. split; [exact Hv|rewrite <- Hsame; symmetry; exact Hnth].
Qed.

(* which cells are selected: exactly the upper-triangle cells whose decision is true *)
Definition evec (xs : list (mat Q)) (c : cell) : list Q := map (fun X : mat Q => X (fst c) (snd c)) xs.

Lemma selected_filter_gen (f : list Q -> list Q -> bool) (g h : cell -> list Q) (l : list cell) :
  map fst (filter snd (combine l (map (fun p => f (fst p) (snd p)) (combine (map g l) (map h l)))))
  = filter (fun c => f (g c) (h c)) l.
Proof.
  induction l as [|c l IH]; cbn [map combine filter fst snd]; [reflexivity|].
  destruct (f (g c) (h c)); cbn [map fst]; rewrite IH; reflexivity.
Qed.

Lemma selected_tmask n paired tl thr xs ys :
  selected n (tmask paired tl thr (vectorize n xs) (vectorize n ys))
  = filter (fun c => supra paired tl thr (evec xs c) (evec ys c)) (triu_cells n).
Proof. unfold selected, tmask, vectorize. apply (selected_filter_gen (supra paired tl thr) (evec xs) (evec ys)). Qed.

(* u and v are joined by a suprathreshold connection *)
Definition supra_conn (n : nat) (paired : bool) (tl : tail) (thr : Q) (xs ys : list (mat Q)) (u v : nat) : Prop :=
  (u < v /\ v < n /\ supra paired tl thr (evec xs (u, v)) (evec ys (u, v)) = true) \/
  (v < u /\ u < n /\ supra paired tl thr (evec xs (v, u)) (evec ys (v, u)) = true).

Lemma adj_of_supra n paired tl thr xs ys u v :
  adj_of (selected n (tmask paired tl thr (vectorize n xs) (vectorize n ys))) u v <> 0%Z
  <-> supra_conn n paired tl thr xs ys u v.
Proof.
  rewrite adj_of_nz, selected_tmask, !filter_In, !triu_cells_In. unfold supra_conn. tauto.
Qed.

Lemma nbs_some n xs ys thr tl paired draws pv adj null :
  nbs n xs ys thr tl paired draws = Some (pv, adj, null) ->
  exists szl,
    observed n (tmask paired tl thr (vectorize n xs) (vectorize n ys)) = Some (szl, adj) /\
    null_loop n paired tl thr (length xs) (length ys) (vectorize n xs) (vectorize n ys) draws = Some null /\
    draws <> [] /\ pv = pvals_of szl null (length draws).
Proof.
  unfold nbs. destruct (paired && negb (length xs =? length ys))%bool; [discriminate|].
  destruct (observed n _) as [[szl adj0]|]; [|discriminate].
  destruct (null_loop n paired tl thr _ _ _ _ draws) as [null0|]; [|discriminate].
  destruct draws as [|d r]; [discriminate|]. intros H. inversion H; subst.
  exists szl. repeat split. discriminate.
Qed.

(* the supra graph as a matrix, for stating reachability *)
Definition supra_adj (n : nat) (paired : bool) (tl : tail) (thr : Q) (xs ys : list (mat Q)) : mat Z :=
  adj_of (selected n (tmask paired tl thr (vectorize n xs) (vectorize n ys))).

Theorem adj_support n xs ys thr tl paired draws pv adj null :
  nbs n xs ys thr tl paired draws = Some (pv, adj, null) ->
  forall u v, u < n -> v < n -> (adj u v <> 0%Z <-> supra_conn n paired tl thr xs ys u v).
Proof.
  intros H u v Hu Hv. destruct (nbs_some _ _ _ _ _ _ _ _ _ _ H) as (szl & Hobs & _).
  destruct (observed_spec _ _ _ _ Hobs) as (a & sz & Hgc & _ & Hcells).
  destruct (Hcells u v Hu Hv) as [H0 H1]. rewrite <- adj_of_supra. split.
  - intros Hnz H0'. apply Hnz. apply H0. exact H0'.
  - intros Hnz. destruct (H1 Hnz) as (j & _ & _ & _ & ->). lia.
Qed.

Theorem adj_labels n xs ys thr tl paired draws pv adj null :
  nbs n xs ys thr tl paired draws = Some (pv, adj, null) ->
  forall u v, u < n -> v < n -> supra_conn n paired tl thr xs ys u v ->
    (1 <= adj u v <= Z.of_nat (length pv))%Z /\
    path n (supra_adj n paired tl thr xs ys) u v /\
    forall u' v', u' < n -> v' < n -> supra_conn n paired tl thr xs ys u' v' ->
      (adj u v = adj u' v' <-> path n (supra_adj n paired tl thr xs ys) u u').
Proof.
  intros H u v Hu Hv Hc. destruct (nbs_some _ _ _ _ _ _ _ _ _ _ H) as (szl & Hobs & _ & _ & Hpv).
  destruct (observed_spec _ _ _ _ Hobs) as (a & sz & Hgc & Hszl & Hcells).
  fold (supra_adj n paired tl thr xs ys) in *.
  destruct (components_iff_path n _ a sz Hgc) as [Hlen Hiff].
  apply adj_of_supra in Hc. fold (supra_adj n paired tl thr xs ys) in Hc.
  destruct (proj2 (Hcells u v Hu Hv) Hc) as (j & Hj & Hnj & Hsame & Hval).
  assert (Hlp : length pv = length (big_labels sz)).
  { rewrite Hpv. unfold pvals_of. rewrite map_length, Hszl, map_length. reflexivity. }
  split; [rewrite Hval, Hlp; lia|]. split.
  - apply (path_step n _ u v v Hu Hv Hc). apply path_refl.
  - intros u' v' Hu' Hv' Hc'. apply adj_of_supra in Hc'. fold (supra_adj n paired tl thr xs ys) in Hc'.
    destruct (proj2 (Hcells u' v' Hu' Hv') Hc') as (j' & Hj' & Hnj' & _ & Hval').
    rewrite <- (Hiff u u' Hu Hu'). rewrite Hval, Hval'. split.
    + intros E. assert (j = j') by lia. subst j'. rewrite <- Hnj, <- Hnj'. reflexivity.
    + intros E. rewrite <- Hnj, <- Hnj' in E.
      apply (proj1 (NoDup_nth (big_labels sz) 0) (big_labels_NoDup sz) j j' Hj Hj') in E. subst. reflexivity.
Qed.

(* sz_links: one entry per component with more than one node, in label order; each is half the
   sum of the 0/1 symmetric supra matrix over the nodes of that component *)
Theorem links_spec n xs ys thr tl paired draws pv adj null :
  nbs n xs ys thr tl paired draws = Some (pv, adj, null) ->
  exists a sz szl,
    get_components n (supra_adj n paired tl thr xs ys) = Some (a, sz) /\
    observed n (tmask paired tl thr (vectorize n xs) (vectorize n ys)) = Some (szl, adj) /\
    szl = map (fun l => half_sum (supra_adj n paired tl thr xs ys) (nodes_of l a)) (big_labels sz) /\
    length pv = length szl /\
    (forall l, In l (big_labels sz) <-> 1 <= l <= length sz /\ 1 < nth (l - 1) sz 0).
Proof.
  intros H. destruct (nbs_some _ _ _ _ _ _ _ _ _ _ H) as (szl & Hobs & _ & _ & Hpv).
  destruct (observed_spec _ _ _ _ Hobs) as (a & sz & Hgc & Hszl & _).
  exists a, sz, szl. split; [exact Hgc|]. split; [exact Hobs|]. split; [exact Hszl|]. split.
  - rewrite Hpv. unfold pvals_of. apply map_length.
  - apply big_labels_In.
Qed.

(* ====================================================================== Part B *)
Local Open Scope Q_scope.

Lemma qmax_cases a b : (qmax a b = a /\ b <= a) \/ (qmax a b = b /\ a <= b).
Proof.
  unfold qmax. destruct (Qle_bool a b) eqn:E.
  - right. split; [reflexivity|apply Qle_bool_iff; exact E].
  - left. split; [reflexivity|]. apply Qlt_le_weak. apply Qnot_le_lt. intros H.
    apply Qle_bool_iff in H. congruence.
Qed.

Lemma fold_qmax_spec r : forall x0,
  x0 <= fold_left qmax r x0 /\ (forall y, In y r -> y <= fold_left qmax r x0) /\
  (fold_left qmax r x0 = x0 \/ In (fold_left qmax r x0) r).
Proof.
  induction r as [|b r IH]; intros x0; cbn [fold_left].
  - split; [apply Qle_refl|]. split; [intros y []|left; reflexivity].
  - destruct (IH (qmax x0 b)) as (I1 & I2 & I3). destruct (qmax_cases x0 b) as [[E Hle]|[E Hle]]; rewrite E in *.
    + split; [exact I1|]. split.
      * intros y [<-|Hy]; [eapply Qle_trans; eassumption|apply I2; exact Hy].
      * destruct I3 as [I3|I3]; [left; exact I3|right; right; exact I3].
    + split; [eapply Qle_trans; eassumption|]. split.
      * intros y [<-|Hy]; [exact I1|apply I2; exact Hy].
      * destruct I3 as [I3|I3]; [right; left; symmetry; exact I3|right; right; exact I3].
Qed.

Lemma lmaxQ_ge l x : In x l -> x <= lmaxQ l.
Proof.
  destruct l as [|x0 r]; [intros []|]. cbn [lmaxQ]. destruct (fold_qmax_spec r x0) as (I1 & I2 & _).
  intros [<-|H]; [exact I1|apply I2; exact H].
Qed.

Lemma lmaxQ_in l : l <> [] -> In (lmaxQ l) l.
Proof.
  destruct l as [|x0 r]; [congruence|]. intros _. cbn [lmaxQ].
  destruct (fold_qmax_spec r x0) as (_ & _ & [I3|I3]); [left; symmetry; exact I3|right; exact I3].
Qed.

(* one null value: the largest link count among the components of the relabelled data *)
Definition is_perm_max (n : nat) (paired : bool) (tl : tail) (thr : Q) (nx ny : nat)
           (xmat ymat : list (list Q)) (d : draw) (v : Q) : Prop :=
  exists xp yp a sz,
    shuffled paired nx ny d xmat ymat = Some (xp, yp) /\
    get_components n (adj_of (selected n (tmask paired tl thr xp yp))) = Some (a, sz) /\
    let L := links_only a (big_labels sz) (adj_of (selected n (tmask paired tl thr xp yp))) in
    (forall s, In s L -> s <= v) /\ (L = [] -> v = 0) /\ (L <> [] -> In v L).

Lemma null_loop_spec n paired tl thr nx ny xmat ymat draws : forall null,
  null_loop n paired tl thr nx ny xmat ymat draws = Some null ->
  Forall2 (is_perm_max n paired tl thr nx ny xmat ymat) draws null.
Proof.
  induction draws as [|d r IH]; intros null H; cbn [null_loop] in H.
  - inversion H. constructor.
  - destruct (shuffled paired nx ny d xmat ymat) as [[xp yp]|] eqn:Es; [|discriminate].
    destruct (perm_max n (tmask paired tl thr xp yp)) as [v|] eqn:Ep; [|discriminate].
    destruct (null_loop n paired tl thr nx ny xmat ymat r) as [rest|] eqn:Er; [|discriminate].
    inversion H; subst. constructor; [|apply IH; reflexivity].
    unfold perm_max in Ep.
    destruct (get_components n (adj_of (selected n (tmask paired tl thr xp yp)))) as [[a sz]|] eqn:Eg; [|discriminate].
    inversion Ep; subst v. exists xp, yp, a, sz. split; [exact Es|]. split; [exact Eg|].
    cbv zeta. split; [apply lmaxQ_ge|]. split; [intros ->; reflexivity|apply lmaxQ_in].
Qed.

Lemma forall2_length {A B} (R : A -> B -> Prop) l l' : Forall2 R l l' -> length l = length l'.
Proof. induction 1; cbn [length]; [reflexivity|f_equal; assumption]. Qed.

Theorem null_spec n xs ys thr tl paired draws pv adj null :
  nbs n xs ys thr tl paired draws = Some (pv, adj, null) ->
  length null = length draws /\
  Forall2 (is_perm_max n paired tl thr (length xs) (length ys) (vectorize n xs) (vectorize n ys)) draws null.
Proof.
  intros H. destruct (nbs_some _ _ _ _ _ _ _ _ _ _ H) as (szl & _ & Hnull & _ & _).
  pose proof (null_loop_spec _ _ _ _ _ _ _ _ _ _ Hnull) as HF. split; [|exact HF].
  symmetry. exact (forall2_length _ _ _ HF).
Qed.

Theorem pval_spec n xs ys thr tl paired draws pv adj null :
  nbs n xs ys thr tl paired draws = Some (pv, adj, null) ->
  exists szl, observed n (tmask paired tl thr (vectorize n xs) (vectorize n ys)) = Some (szl, adj) /\
    length pv = length szl /\ length null = length draws /\ (0 < length draws)%nat /\
    forall i, (i < length szl)%nat ->
      nth i pv 0 = qn (length (filter (fun v => Qle_bool (nth i szl 0) v) null)) / qn (length draws).
Proof.
  intros H. destruct (null_spec _ _ _ _ _ _ _ _ _ _ H) as [Hlen _].
  destruct (nbs_some _ _ _ _ _ _ _ _ _ _ H) as (szl & Hobs & _ & Hne & Hpv).
  exists szl. split; [exact Hobs|]. split; [rewrite Hpv; apply map_length|]. split; [exact Hlen|]. split.
  - destruct draws; [congruence|cbn [length]; lia].
  - intros i Hi. rewrite Hpv. unfold pvals_of.
    set (f := fun s => qn (count_ge s null) / qn (length draws)).
    rewrite (nth_indep (map f szl) 0 (f 0)) by (rewrite map_length; exact Hi).
    rewrite map_nth. reflexivity.
Qed.

(* ====================================================================== Part C *)
Lemma bool_eq_iff (a b : bool) : (a = true <-> b = true) -> a = b.
Proof.
  destruct a, b; intros [H1 H2]; try reflexivity.
  - symmetry. apply H1. reflexivity.
  - apply H2. reflexivity.
Qed.

#[local] Instance sq_comp : Proper (Qeq ==> Qeq) sq.
Proof. intros a b H. unfold sq. rewrite H. reflexivity. Qed.

Lemma qlt_true a b : qlt a b = true <-> a < b.
Proof.
  unfold qlt. rewrite negb_true_iff. split.
  - intros H. apply Qnot_le_lt. intros Hle. apply Qle_bool_iff in Hle. congruence.
  - intros H. destruct (Qle_bool b a) eqn:E; [|reflexivity]. apply Qle_bool_iff in E. lra.
Qed.

Lemma lsum_perm l l' : Permutation l l' -> lsum l == lsum l'.
Proof.
  unfold lsum. induction 1; cbn [fold_right].
  - reflexivity.
  - rewrite IHPermutation. reflexivity.
  - ring.
  - etransitivity; eassumption.
Qed.

Lemma lsum_map_ext (f g : Q -> Q) l : (forall v, f v == g v) -> lsum (map f l) == lsum (map g l).
Proof.
  intros H. unfold lsum. induction l as [|a l IH]; cbn [map fold_right]; [reflexivity|].
  rewrite IH, (H a). reflexivity.
Qed.

Lemma lmean_perm l l' : Permutation l l' -> lmean l' == lmean l.
Proof. intros H. unfold lmean. rewrite <- (Permutation_length H), (lsum_perm _ _ H). reflexivity. Qed.

Lemma lvar1_perm l l' : Permutation l l' -> lvar1 l' == lvar1 l.
Proof.
  intros H. unfold lvar1. rewrite <- (Permutation_length H).
  assert (E : lsum (map (fun v => sq (v - lmean l')) l') == lsum (map (fun v => sq (v - lmean l)) l)).
  { rewrite <- (lsum_perm _ _ (Permutation_map (fun v => sq (v - lmean l')) H)).
    apply lsum_map_ext. intros v. unfold sq. rewrite (lmean_perm _ _ H). reflexivity. }
  rewrite E. reflexivity.
Qed.

Lemma ratio_gt_comp v v' d d' thr : v == v' -> d == d' -> ratio_gt v d thr = ratio_gt v' d' thr.
Proof.
  intros Hv Hd. unfold ratio_gt, qlt, sq.
  assert (E1 : Qle_bool v 0 = Qle_bool v' 0) by (rewrite Hv; reflexivity).
  assert (E2 : Qle_bool (v * v) (thr * thr * d) = Qle_bool (v' * v') (thr * thr * d')) by (rewrite Hv, Hd; reflexivity).
  assert (E3 : Qle_bool 0 v = Qle_bool 0 v') by (rewrite Hv; reflexivity).
  assert (E4 : Qle_bool (thr * thr * d) (v * v) = Qle_bool (thr * thr * d') (v' * v')) by (rewrite Hv, Hd; reflexivity).
  rewrite E1, E2, E3, E4. reflexivity.
Qed.

Lemma tailv_comp tl t t' : t == t' -> tailv tl t == tailv tl t'.
Proof. intros H. destruct tl; cbn [tailv]; rewrite H; reflexivity. Qed.

Lemma tailv_swap tl t t' : t' == - t -> tailv (swap_tail tl) t' == tailv tl t.
Proof.
  intros H. destruct tl; cbn [swap_tail tailv]; rewrite H.
  - apply Qabs_opp.
  - reflexivity.
  - ring.
Qed.

(* ---- unpaired ---- *)
Lemma pooled_d2_perm x x' y y' : Permutation x x' -> Permutation y y' -> pooled_d2 x' y' == pooled_d2 x y.
Proof.
  intros Hx Hy. unfold pooled_d2. cbv zeta.
  rewrite <- (Permutation_length Hx), <- (Permutation_length Hy), (lvar1_perm _ _ Hx), (lvar1_perm _ _ Hy).
  reflexivity.
Qed.

Lemma supra2_perm tl thr x x' y y' :
  Permutation x x' -> Permutation y y' -> supra2 tl thr x' y' = supra2 tl thr x y.
Proof.
  intros Hx Hy. unfold supra2. cbv zeta. rewrite <- (Permutation_length Hx), <- (Permutation_length Hy).
  destruct ((length x <? 2)%nat || (length y <? 2)%nat)%bool; [reflexivity|].
  pose proof (pooled_d2_perm _ _ _ _ Hx Hy) as Hd.
  assert (E : Qeq_bool (pooled_d2 x' y') 0 = Qeq_bool (pooled_d2 x y) 0) by (rewrite Hd; reflexivity).
  rewrite E. destruct (Qeq_bool (pooled_d2 x y) 0); [reflexivity|].
  apply ratio_gt_comp; [|exact Hd]. apply tailv_comp.
  rewrite (lmean_perm _ _ Hx), (lmean_perm _ _ Hy). reflexivity.
Qed.

Lemma pooled_d2_swap x y : pooled_d2 y x == pooled_d2 x y.
Proof. unfold pooled_d2. cbv zeta. rewrite (Nat.add_comm (length y) (length x)). unfold Qdiv. ring. Qed.

Lemma supra2_swap tl thr x y : supra2 (swap_tail tl) thr y x = supra2 tl thr x y.
Proof.
  unfold supra2. cbv zeta. rewrite (orb_comm (length y <? 2)%nat (length x <? 2)%nat).
  destruct ((length x <? 2)%nat || (length y <? 2)%nat)%bool; [reflexivity|].
  pose proof (pooled_d2_swap x y) as Hd.
  assert (E : Qeq_bool (pooled_d2 y x) 0 = Qeq_bool (pooled_d2 x y) 0) by (rewrite Hd; reflexivity).
  rewrite E. destruct (Qeq_bool (pooled_d2 x y) 0); [reflexivity|].
  apply ratio_gt_comp; [|exact Hd]. apply tailv_swap. ring.
Qed.

(* ---- paired: everything is a function of the vector of differences ---- *)
Definition supra_pd (tl : tail) (thr : Q) (d : list Q) : bool :=
  if (length d <? 2)%nat then false
  else if Qeq_bool (paired_ss d) 0 then
         match tl with
         | TBoth => negb (Qeq_bool (lmean d) 0)
         | TLeft => qlt (lmean d) 0
         | TRight => qlt 0 (lmean d)
         end
       else ratio_gt (tailv tl (lmean d)) (paired_ss d / qn (length d - 1) / qn (length d)) thr.

Lemma supra_p_pd tl thr x y : supra_p tl thr x y = supra_pd tl thr (diffs x y).
Proof. reflexivity. Qed.

Lemma paired_ss_perm d d' : Permutation d d' -> paired_ss d' == paired_ss d.
Proof.
  intros H. unfold paired_ss. rewrite <- (Permutation_length H).
  pose proof (lsum_perm d d' H) as E1. pose proof (lsum_perm _ _ (Permutation_map sq H)) as E2.
  unfold sq at 2 4. rewrite <- E1, <- E2. reflexivity.
Qed.

Lemma supra_pd_comp tl thr d d' :
  length d' = length d -> paired_ss d' == paired_ss d -> lmean d' == lmean d ->
  supra_pd tl thr d' = supra_pd tl thr d.
Proof.
  intros Hl Hss Hm. unfold supra_pd. rewrite Hl.
  destruct (length d <? 2)%nat; [reflexivity|].
  assert (E : Qeq_bool (paired_ss d') 0 = Qeq_bool (paired_ss d) 0) by (rewrite Hss; reflexivity).
  rewrite E. destruct (Qeq_bool (paired_ss d) 0).
  - unfold qlt. destruct tl.
    + assert (E1 : Qeq_bool (lmean d') 0 = Qeq_bool (lmean d) 0) by (rewrite Hm; reflexivity). rewrite E1. reflexivity.
    + assert (E1 : Qle_bool 0 (lmean d') = Qle_bool 0 (lmean d)) by (rewrite Hm; reflexivity). rewrite E1. reflexivity.
    + assert (E1 : Qle_bool (lmean d') 0 = Qle_bool (lmean d) 0) by (rewrite Hm; reflexivity). rewrite E1. reflexivity.
  - apply ratio_gt_comp; [apply tailv_comp; exact Hm|]. rewrite Hss. reflexivity.
Qed.

Lemma supra_pd_perm tl thr d d' : Permutation d d' -> supra_pd tl thr d' = supra_pd tl thr d.
Proof.
  intros H. apply supra_pd_comp.
  - symmetry. apply Permutation_length. exact H.
  - apply paired_ss_perm. exact H.
  - apply lmean_perm. exact H.
Qed.

Lemma supra_p_perm tl thr x y x' y' :
  Permutation (combine x y) (combine x' y') -> supra_p tl thr x' y' = supra_p tl thr x y.
Proof.
  intros H. rewrite !supra_p_pd. apply supra_pd_perm. unfold diffs. apply Permutation_map. exact H.
Qed.

Lemma diffs_swap_len x : forall y, length (diffs y x) = length (diffs x y).
Proof. intros y. unfold diffs. rewrite !map_length, !combine_length. apply Nat.min_comm. Qed.

Lemma diffs_swap_sum x : forall y, lsum (diffs y x) == - lsum (diffs x y).
Proof.
  unfold diffs, lsum. induction x as [|a x IH]; intros [|b y]; cbn [combine map fold_right fst snd]; try ring.
  rewrite IH. ring.
Qed.

Lemma diffs_swap_sq x : forall y, lsum (map sq (diffs y x)) == lsum (map sq (diffs x y)).
Proof.
  unfold diffs, lsum. induction x as [|a x IH]; intros [|b y]; cbn [combine map fold_right fst snd]; try reflexivity.
  rewrite IH. unfold sq. ring.
Qed.

Lemma supra_p_swap tl thr x y : supra_p (swap_tail tl) thr y x = supra_p tl thr x y.
Proof.
  rewrite !supra_p_pd. unfold supra_pd. rewrite (diffs_swap_len x y).
  destruct (length (diffs x y) <? 2)%nat; [reflexivity|].
  assert (Hss : paired_ss (diffs y x) == paired_ss (diffs x y)).
  { unfold paired_ss. rewrite diffs_swap_sq, diffs_swap_sum, diffs_swap_len. unfold sq, Qdiv. ring. }
  assert (Hm : lmean (diffs y x) == - lmean (diffs x y)).
  { unfold lmean. rewrite diffs_swap_sum, diffs_swap_len. unfold Qdiv. ring. }
  assert (E : Qeq_bool (paired_ss (diffs y x)) 0 = Qeq_bool (paired_ss (diffs x y)) 0) by (rewrite Hss; reflexivity).
  rewrite E. destruct (Qeq_bool (paired_ss (diffs x y)) 0).
  - destruct tl; cbn [swap_tail]; unfold qlt; f_equal; apply bool_eq_iff;
      rewrite ?Qeq_bool_iff, ?Qle_bool_iff; split; intros H; lra.
  - apply ratio_gt_comp; [apply tailv_swap; exact Hm|]. rewrite Hss. reflexivity.
Qed.

Lemma supra_swap paired tl thr x y : supra paired (swap_tail tl) thr y x = supra paired tl thr x y.
Proof. unfold supra. destruct paired; [apply supra_p_swap|apply supra2_swap]. Qed.

(* ---- lifted to the masks and to the observed network ---- *)
Lemma map_combine_swap {A B C} (f : B -> A -> C) (g : A -> B -> C) (l1 : list A) :
  (forall a b, f b a = g a b) -> forall l2 : list B,
  map (fun p => f (fst p) (snd p)) (combine l2 l1) = map (fun p => g (fst p) (snd p)) (combine l1 l2).
Proof.
  intros H. induction l1 as [|a l1 IH]; intros [|b l2]; cbn [combine map fst snd]; try reflexivity.
  rewrite H, IH. reflexivity.
Qed.

Lemma tmask_swap paired tl thr xmat ymat :
  tmask paired (swap_tail tl) thr ymat xmat = tmask paired tl thr xmat ymat.
Proof. unfold tmask. apply map_combine_swap. intros a b. apply supra_swap. Qed.

Theorem observed_swap n paired tl thr xs ys :
  observed n (tmask paired (swap_tail tl) thr (vectorize n ys) (vectorize n xs))
  = observed n (tmask paired tl thr (vectorize n xs) (vectorize n ys)).
Proof. rewrite tmask_swap. reflexivity. Qed.

Lemma tmask_vectorize n paired tl thr xs ys :
  tmask paired tl thr (vectorize n xs) (vectorize n ys)
  = map (fun c => supra paired tl thr (evec xs c) (evec ys c)) (triu_cells n).
Proof.
  unfold tmask, vectorize. fold (evec xs). fold (evec ys).
  induction (triu_cells n) as [|c l IH]; cbn [map combine fst snd]; [reflexivity|]. rewrite IH. reflexivity.
Qed.

Theorem tmask_reorder_unpaired n tl thr xs ys xs' ys' :
  Permutation xs xs' -> Permutation ys ys' ->
  tmask false tl thr (vectorize n xs') (vectorize n ys') = tmask false tl thr (vectorize n xs) (vectorize n ys).
Proof.
  intros Hx Hy. rewrite !tmask_vectorize. apply map_ext. intros c. unfold supra.
  apply supra2_perm; unfold evec; apply Permutation_map; assumption.
Qed.

Lemma combine_map2 {A B C D} (f : A -> C) (g : B -> D) (l1 : list A) : forall l2 : list B,
  combine (map f l1) (map g l2) = map (fun p => (f (fst p), g (snd p))) (combine l1 l2).
Proof. induction l1 as [|a l1 IH]; intros [|b l2]; cbn [map combine fst snd]; try reflexivity. rewrite IH. reflexivity. Qed.

Theorem tmask_reorder_paired n tl thr xs ys xs' ys' :
  Permutation (combine xs ys) (combine xs' ys') ->
  tmask true tl thr (vectorize n xs') (vectorize n ys') = tmask true tl thr (vectorize n xs) (vectorize n ys).
Proof.
  intros H. rewrite !tmask_vectorize. apply map_ext. intros c. unfold supra.
  apply supra_p_perm. unfold evec. rewrite !combine_map2. apply Permutation_map. exact H.
Qed.

(* ---- the square-root-free comparison is the comparison of the quotient ---- *)
Theorem ratio_gt_sound v d2 thr s : 0 < s -> s * s == d2 -> (ratio_gt v d2 thr = true <-> thr < v / s).
Proof.
  intros Hs Hd.
  assert (Hdiv : thr < v / s <-> thr * s < v).
  { split; intros H.
    - apply (Qmult_lt_compat_r _ _ s Hs) in H.
      assert (E : v / s * s == v) by (field; lra). rewrite E in H. exact H.
    - apply Qlt_shift_div_l; assumption. }
  rewrite Hdiv. unfold ratio_gt, sq.
  assert (Hp : (thr * s) * (thr * s) == thr * thr * d2) by (rewrite <- Hd; ring).
  set (p := thr * s) in *.
  destruct (Qle_bool 0 thr) eqn:Et.
  - apply Qle_bool_iff in Et. assert (Hp0 : 0 <= p) by (unfold p; nra).
    rewrite andb_true_iff, !qlt_true. rewrite <- Hp. split.
    + intros [H1 H2]. nra.
    + intros H. split; nra.
  - assert (Et' : thr < 0).
    { apply Qnot_le_lt. intros H. apply Qle_bool_iff in H. congruence. }
    assert (Hp0 : p < 0) by (unfold p; nra).
    rewrite orb_true_iff, qlt_true, Qle_bool_iff. rewrite <- Hp. split.
    + intros [H|H]; nra.
    + intros H. destruct (Qlt_le_dec v 0) as [Hv|Hv]; [right; nra|left; exact Hv].
Qed.

(* ---- two calls with the same suprathreshold mask report the same observed network ---- *)
Lemma nbs_same_observed n thr paired xs ys tl draws pv adj null xs' ys' tl' draws' pv' adj' null' :
  tmask paired tl' thr (vectorize n xs') (vectorize n ys') = tmask paired tl thr (vectorize n xs) (vectorize n ys) ->
  nbs n xs ys thr tl paired draws = Some (pv, adj, null) ->
  nbs n xs' ys' thr tl' paired draws' = Some (pv', adj', null') ->
  adj' = adj /\ length pv' = length pv.
Proof.
  intros E H H'. destruct (nbs_some _ _ _ _ _ _ _ _ _ _ H) as (szl & Ho & _ & _ & Hp).
  destruct (nbs_some _ _ _ _ _ _ _ _ _ _ H') as (szl' & Ho' & _ & _ & Hp').
  rewrite E, Ho in Ho'. inversion Ho'; subst. split; [reflexivity|].
  unfold pvals_of. rewrite !map_length. reflexivity.
Qed.

Theorem swap_groups_tail_symmetry n thr paired xs ys tl draws pv adj null draws' pv' adj' null' :
  nbs n xs ys thr tl paired draws = Some (pv, adj, null) ->
  nbs n ys xs thr (swap_tail tl) paired draws' = Some (pv', adj', null') ->
  adj' = adj /\ length pv' = length pv.
Proof. apply nbs_same_observed. apply tmask_swap. Qed.

Theorem reorder_within_group_invariant n thr xs ys xs' ys' tl draws pv adj null draws' pv' adj' null' :
  Permutation xs xs' -> Permutation ys ys' ->
  nbs n xs ys thr tl false draws = Some (pv, adj, null) ->
  nbs n xs' ys' thr tl false draws' = Some (pv', adj', null') ->
  adj' = adj /\ length pv' = length pv.
Proof. intros Hx Hy. apply nbs_same_observed. apply tmask_reorder_unpaired; assumption. Qed.

Theorem reorder_pairs_invariant n thr xs ys xs' ys' tl draws pv adj null draws' pv' adj' null' :
  Permutation (combine xs ys) (combine xs' ys') ->
  nbs n xs ys thr tl true draws = Some (pv, adj, null) ->
  nbs n xs' ys' thr tl true draws' = Some (pv', adj', null') ->
  adj' = adj /\ length pv' = length pv.
Proof. intros Hp. apply nbs_same_observed. apply tmask_reorder_paired; assumption. Qed.

(* ====================================================================== Part D *)
(* sz_links[i] is literally the number of suprathreshold connections inside the component:
   double counting of the symmetric 0/1 matrix *)
Local Open Scope nat_scope.

Lemma row_sum_add f g u cols :
  row_sum (fun a b => (f a b + g a b)%Z) u cols = (row_sum f u cols + row_sum g u cols)%Z.
Proof. unfold row_sum. induction cols as [|c cols IH]; cbn [fold_right]; [reflexivity|]. rewrite IH. ring. Qed.

Lemma bsum_add f g rows cols :
  bsum (fun a b => (f a b + g a b)%Z) rows cols = (bsum f rows cols + bsum g rows cols)%Z.
Proof.
  unfold bsum. induction rows as [|r rows IH]; cbn [fold_right]; [reflexivity|].
  rewrite IH, row_sum_add. ring.
Qed.

Lemma row_sum_zero r cols : row_sum (fun _ _ => 0%Z) r cols = 0%Z.
Proof. unfold row_sum. induction cols as [|c cols IHc]; cbn [fold_right]; [reflexivity|]. rewrite IHc. reflexivity. Qed.

Lemma bsum_zero rows cols : bsum (fun _ _ => 0%Z) rows cols = 0%Z.
Proof.
  unfold bsum. induction rows as [|r rows IH]; cbn [fold_right]; [reflexivity|].
  rewrite IH, row_sum_zero. reflexivity.
Qed.

Lemma nmem_cons x c l : nmem x (c :: l) = (Nat.eqb x c || nmem x l)%bool.
Proof. reflexivity. Qed.

Lemma row_sum_ind u a b cols : NoDup cols ->
  row_sum (fun x y => b2z (Nat.eqb x a && Nat.eqb y b)) u cols = b2z (Nat.eqb u a && nmem b cols).
Proof.
  unfold row_sum. induction cols as [|c cols IH]; intros Hnd; cbn [fold_right].
  - rewrite andb_false_r. reflexivity.
  - inversion Hnd as [|? ? Hc Hcols]; subst. rewrite (IH Hcols), nmem_cons.
    destruct (Nat.eqb u a); cbn [andb b2z]; [|reflexivity].
    destruct (Nat.eqb_spec c b) as [->|Hne].
    + rewrite Nat.eqb_refl. cbn [orb]. apply nmem_false in Hc. rewrite Hc. reflexivity.
    + destruct (Nat.eqb_spec b c) as [->|_]; [congruence|]. cbn [orb b2z]. lia.
Qed.

Lemma bsum_ind a b rows cols : NoDup rows -> NoDup cols ->
  bsum (fun x y => b2z (Nat.eqb x a && Nat.eqb y b)) rows cols = b2z (nmem a rows && nmem b cols).
Proof.
  intros Hr Hc. unfold bsum. induction rows as [|r rows IH]; cbn [fold_right]; [reflexivity|].
  inversion Hr as [|? ? Hrn Hrows]; subst. rewrite (IH Hrows), (row_sum_ind r a b cols Hc).
  rewrite nmem_cons.
  destruct (Nat.eqb_spec r a) as [->|Hne].
  - rewrite Nat.eqb_refl. cbn [orb andb]. apply nmem_false in Hrn. rewrite Hrn. cbn [andb b2z]. lia.
  - destruct (Nat.eqb_spec a r) as [->|_]; [congruence|]. cbn [orb andb b2z]. lia.
Qed.

Lemma b2z_cmem_cons x c sel : ~ In c sel ->
  b2z (cmem x (c :: sel)) = (b2z (cell_eqb x c) + b2z (cmem x sel))%Z.
Proof.
  intros Hc. unfold cmem at 1. cbn [existsb]. fold (cmem x sel).
  destruct (cell_eqb_spec x c) as [->|_]; cbn [orb b2z]; [|lia].
  apply cmem_false in Hc. rewrite Hc. reflexivity.
Qed.

Lemma block_sum_adj_of sel nodes : NoDup sel -> NoDup nodes ->
  block_sum (adj_of sel) nodes
  = (2 * Z.of_nat (length (filter (fun c => nmem (fst c) nodes && nmem (snd c) nodes) sel)))%Z.
Proof.
  intros Hs Hn. change (block_sum (adj_of sel) nodes) with (bsum (adj_of sel) nodes nodes).
  induction sel as [|[a b] sel IH].
  - cbn [filter length]. rewrite (bsum_ext _ (fun _ _ => 0%Z)); [apply bsum_zero|]. intros; reflexivity.
  - inversion Hs as [|? ? Hc Hsel]; subst.
    rewrite (bsum_ext _ (fun u v => (adj_of sel u v
               + (b2z (Nat.eqb u a && Nat.eqb v b) + b2z (Nat.eqb u b && Nat.eqb v a)))%Z)).
    + rewrite !bsum_add, (IH Hsel), (bsum_ind a b nodes nodes Hn Hn), (bsum_ind b a nodes nodes Hn Hn).
      cbn [filter fst snd]. rewrite (andb_comm (nmem b nodes) (nmem a nodes)).
      destruct (nmem a nodes && nmem b nodes)%bool; cbn [b2z length]; lia.
    + intros u v _ _. unfold adj_of. rewrite !(b2z_cmem_cons _ _ _ Hc). unfold cell_eqb. cbn [fst snd].
      rewrite (andb_comm (Nat.eqb v a) (Nat.eqb u b)). ring.
Qed.

Lemma triu_cells_NoDup n : NoDup (triu_cells n).
Proof. unfold triu_cells. apply NoDup_filter. apply cells_NoDup. Qed.

(* number of suprathreshold connections both of whose endpoints carry label l *)
Definition links_in (n : nat) (paired : bool) (tl : tail) (thr : Q) (xs ys : list (mat Q)) (a : list nat) (l : nat) : nat :=
  length (filter (fun c => (Nat.eqb (nth (fst c) a 0) l && Nat.eqb (nth (snd c) a 0) l)%bool)
                 (filter (fun c => supra paired tl thr (evec xs c) (evec ys c)) (triu_cells n))).

Theorem half_sum_is_link_count n paired tl thr xs ys a l : length a = n ->
  (half_sum (supra_adj n paired tl thr xs ys) (nodes_of l a) == inject_Z (Z.of_nat (links_in n paired tl thr xs ys a l)))%Q.
Proof.
  intros Hlen. unfold half_sum, supra_adj, links_in. rewrite selected_tmask.
  set (sel := filter (fun c => supra paired tl thr (evec xs c) (evec ys c)) (triu_cells n)).
  rewrite (block_sum_adj_of sel (nodes_of l a)).
  - rewrite (filter_ext_in (fun c => (nmem (fst c) (nodes_of l a) && nmem (snd c) (nodes_of l a))%bool)
                           (fun c => (Nat.eqb (nth (fst c) a 0) l && Nat.eqb (nth (snd c) a 0) l)%bool)).
    + rewrite inject_Z_mult. field.
    + intros [i j] Hc. unfold sel in Hc. apply filter_In in Hc. destruct Hc as [Hc _].
      apply triu_cells_In in Hc. cbn [fst snd].
      assert (E : forall w, w < n -> nmem w (nodes_of l a) = Nat.eqb (nth w a 0) l).
      { intros w Hw. apply bool_eq_iff. rewrite nmem_In, nodes_of_In, Nat.eqb_eq. rewrite Hlen. tauto. }
      rewrite (E i), (E j) by lia. reflexivity.
  - unfold sel. apply NoDup_filter. apply triu_cells_NoDup.
  - unfold nodes_of. apply NoDup_filter. apply seq_NoDup.
Qed.

Theorem links_count n xs ys thr tl paired draws pv adj null :
  nbs n xs ys thr tl paired draws = Some (pv, adj, null) ->
  exists a sz szl,
    get_components n (supra_adj n paired tl thr xs ys) = Some (a, sz) /\
    observed n (tmask paired tl thr (vectorize n xs) (vectorize n ys)) = Some (szl, adj) /\
    length szl = length (big_labels sz) /\ length pv = length szl /\
    forall i, i < length szl ->
      (nth i szl 0 == inject_Z (Z.of_nat (links_in n paired tl thr xs ys a (nth i (big_labels sz) 0%nat))))%Q.
Proof.
  intros H. destruct (links_spec _ _ _ _ _ _ _ _ _ _ H) as (a & sz & szl & Hgc & Hobs & Hszl & Hlp & _).
  exists a, sz, szl. split; [exact Hgc|]. split; [exact Hobs|]. split; [rewrite Hszl; apply map_length|].
  split; [exact Hlp|]. intros i Hi. rewrite Hszl in *. rewrite map_length in Hi.
  set (f := fun l => half_sum (supra_adj n paired tl thr xs ys) (nodes_of l a)).
  rewrite (nth_indep (map f (big_labels sz)) 0%Q (f 0)) by (rewrite map_length; exact Hi).
  rewrite map_nth. unfold f. apply half_sum_is_link_count.
  exact (proj1 (components_iff_path n _ a sz Hgc)).
Qed.

(* every label 1..len(pvals) is carried by some suprathreshold connection *)
Lemma find_neighbor n (A : mat Z) v :
  (forall w, w < n -> w <> v -> A v w = 0%Z) \/ (exists w, w < n /\ w <> v /\ A v w <> 0%Z).
Proof.
  induction n as [|n IH].
  - left. intros w Hw. lia.
  - destruct IH as [IH|[w (Hw & Hne & Hnz)]]; [|right; exists w; split; [lia|split; assumption]].
    destruct (Nat.eq_dec n v) as [->|Hnv].
    + left. intros w Hw Hne. apply IH; [lia|exact Hne].
    + destruct (Z.eq_dec (A v n) 0) as [Hz|Hz].
      * left. intros w Hw Hne. destruct (Nat.eq_dec w n) as [->|Hwn]; [exact Hz|apply IH; [lia|exact Hne]].
      * right. exists n. split; [lia|]. split; [exact Hnv|exact Hz].
Qed.

Theorem every_label_used n xs ys thr tl paired draws pv adj null :
  nbs n xs ys thr tl paired draws = Some (pv, adj, null) ->
  forall j, j < length pv ->
    exists u v, u < n /\ v < n /\ supra_conn n paired tl thr xs ys u v /\ adj u v = Z.of_nat (j + 1).
Proof.
  intros H j Hj. destruct (nbs_some _ _ _ _ _ _ _ _ _ _ H) as (szl & Hobs & _ & _ & Hpv).
  destruct (observed_spec _ _ _ _ Hobs) as (a & sz & Hgc & Hszl & Hcells).
  assert (Hlp : length pv = length (big_labels sz)).
  { rewrite Hpv. unfold pvals_of. rewrite map_length, Hszl, map_length. reflexivity. }
  rewrite Hlp in Hj. set (l := nth j (big_labels sz) 0).
  assert (Hin : In l (big_labels sz)) by (apply nth_In; exact Hj).
  apply big_labels_In in Hin. destruct Hin as [Hl Hbig].
  destruct (proj1 (labels_1_to_m n _ a sz Hgc l) Hl) as [u [Hu Hlab]].
  destruct (find_neighbor n (adj_of (selected n (tmask paired tl thr (vectorize n xs) (vectorize n ys)))) u)
    as [Hiso|[v (Hv & Hne & Hnz)]].
  - exfalso. pose proof (isolated_singletons n _ a sz Hgc u Hu Hiso) as H1. rewrite Hlab in H1. lia.
  - exists u, v. split; [exact Hu|]. split; [exact Hv|]. split; [apply adj_of_supra; exact Hnz|].
    destruct (proj2 (Hcells u v Hu Hv) Hnz) as (j' & Hj' & Hnj' & _ & Hval).
    rewrite Hlab in Hnj'. fold l in Hnj'.
    apply (proj1 (NoDup_nth (big_labels sz) 0) (big_labels_NoDup sz) j' j Hj' Hj) in Hnj'. subst j'. exact Hval.
Qed.
